#!/bin/sh
# Build the framework from files on disk only (offline).  Idempotent.
set -e
cd "$(dirname "$0")"
REPO="${OPDA_REPO:-/repo}"
if [ ! -d .vendor/mpmath ]; then
  mkdir -p .vendor
  python3 -c "import zipfile,glob; zipfile.ZipFile(glob.glob('/opt/veriftools/wheels/mpmath-*.whl')[0]).extractall('.vendor')"
fi
python3 tools/gen_roots.py
python3 tools/translate_table.py "$REPO" lean/OpdaGen
if [ -f tools/make_cert.py ]; then python3 tools/make_cert.py "$REPO" lean/OpdaGen; fi
cd lean
lake build opda_driver OpdaModel OpdaProofs
