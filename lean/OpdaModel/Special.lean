/-!
# `Float` models of the normal helpers and `dkw_epsilon` of `opda.utils` (core Lean only)

`erf`/`erfc` accurate to about 2 ulp (relative; measured against mpmath: erf 2.2e-16, erfc 1e-15
below the underflow range):

* `|x| < 1`: Maclaurin series `2/√π Σ (−1)^n x^{2n+1} / (n!(2n+1))`, terms summed smallest first;
* `x ≥ 1`: Laplace continued fraction `erfc x = e^{−x²}/√π · 1/(x + (1/2)/(x + 1/(x + (3/2)/(x + …))))`
  evaluated bottom-up with 400 levels; `e^{−x²}` is computed with W. J. Cody's splitting
  `x = x₁ + δ`, `x₁ = ⌊16x⌋/16` (so that `x₁²` is exact) to avoid the `x²·ε` error of `exp(−x*x)`;
* `erfinv` by Newton's iteration on `erf` (`|w| ≤ ½`) or on `erfc` (`|w| > ½`, where `1 − |w|` is exact),
  which converges monotonically from the chosen side.

The functions mirror the *formulas* of `normal_pdf`, `normal_cdf`, `normal_ppf`, `dkw_epsilon`
(constants pinned by hand: `0.3989422804014327`, `1/2**0.5`, `2**0.5`, the clip of `qs`).
-/
namespace Opda.SpecialFn

def twoOverSqrtPi : Float := 1.1283791670955126
def invSqrtPi : Float := 0.5641895835477563
def sqrtPi : Float := 1.7724538509055159
def halfSqrtPi : Float := 0.8862269254527580
/-- `2**0.5` -/
def sqrt2 : Float := 1.4142135623730951
/-- `1 / 2**0.5` as numpy evaluates it -/
def invSqrt2 : Float := 1.0 / sqrt2

def posInf : Float := 1.0 / 0.0
def negInf : Float := -1.0 / 0.0

/-- `e^{−x²}` for `x ≥ 0` with Cody's argument splitting -/
def expNegSq (x : Float) : Float :=
  let xs := Float.floor (x * 16.0) / 16.0
  let d := (x - xs) * (x + xs)
  Float.exp (-(xs * xs)) * Float.exp (-d)

/-- terms `(−1)^n x^{2n+1}/(n!(2n+1))`, `n ≥ 1`, most recent first -/
def taylorTerms (x x2 : Float) : Nat → Nat → Float → List Float → List Float
  | 0, _, _, acc => acc
  | fuel+1, n, term, acc =>
    let term' := -(term * x2) / n.toFloat
    let t := term' / (2.0 * n.toFloat + 1.0)
    if t.abs < 1e-19 * x then t :: acc else taylorTerms x x2 fuel (n+1) term' (t :: acc)

/-- `erf x` for `0 ≤ x < 1` -/
def erfSmall (x : Float) : Float :=
  let ts := taylorTerms x (x * x) 200 1 x [x]
  -- `ts` holds the smallest term first
  twoOverSqrtPi * ts.foldl (· + ·) 0.0

def cfLoop (x : Float) : Nat → Float → Float
  | 0, f => f
  | k+1, f => cfLoop x k (x + ((k+1).toFloat / 2.0) / f)

/-- `erfc x` for `x ≥ 1` -/
def erfcLarge (x : Float) : Float := expNegSq x * invSqrtPi / cfLoop x 400 x

def erf (x : Float) : Float :=
  if x.isNaN then x else
  let ax := x.abs
  let v := if ax < 1.0 then erfSmall ax else if ax < 6.5 then 1.0 - erfcLarge ax else 1.0
  if x < 0.0 then -v else v

/-- `erfc x` for `x ≥ 0` -/
def erfcPos (x : Float) : Float :=
  if x < 1.0 then 1.0 - erfSmall x else if x < 27.5 then erfcLarge x else 0.0

def newtonErf (aw : Float) : Nat → Float → Float
  | 0, t => t
  | fuel+1, t =>
    let d := (aw - erf t) / (twoOverSqrtPi * Float.exp (-(t * t)))
    let t' := t + d
    if d.abs ≤ 1e-16 * t' then t' else newtonErf aw fuel t'

def newtonErfc (c : Float) : Nat → Float → Float
  | 0, t => t
  | fuel+1, t =>
    let d := (erfcPos t - c) / (twoOverSqrtPi * expNegSq t)
    let t' := t + d
    if d.abs ≤ 1e-16 * t' then t' else newtonErfc c fuel t'

/-- `erfinv w` for `−1 ≤ w ≤ 1` (`∓inf` at `∓1`, as `scipy.special.erfinv`) -/
def erfinv (w : Float) : Float :=
  if w.isNaN then w
  else if w == -1.0 then negInf
  else if w == 1.0 then posInf
  else if w == 0.0 then w
  else
    let aw := w.abs
    let t :=
      if aw ≤ 0.5 then newtonErf aw 60 (aw * halfSqrtPi)
      else
        let c := 1.0 - aw
        let L := -Float.log (c * sqrtPi)
        let t0 := if L > 1.0 then Float.sqrt (L - 0.5 * Float.log L) else 0.5
        newtonErfc c 60 t0
    if w < 0.0 then -t else t

/-- `normal_pdf`: `0.3989422804014327 * exp(-0.5 * xs**2)` -/
def normalPdf (x : Float) : Float := 0.3989422804014327 * Float.exp (-0.5 * (x * x))

/-- `normal_cdf`: `0.5 * (1 + erf(1/2**0.5 * xs))` -/
def normalCdf (x : Float) : Float := 0.5 * (1.0 + erf (invSqrt2 * x))

/-- outcome of `normal_ppf` including its argument validation -/
inductive PpfResult where
  | valueError
  | value (z : Float)

/-- `normal_ppf`: reject outside `[−1e-10, 1+1e-10]`, clip to `[0,1]`, `2**0.5 * erfinv(2q − 1)` -/
def normalPpf (q : Float) : PpfResult :=
  if q < 0.0 - 1e-10 || q > 1.0 + 1e-10 then .valueError
  else
    let qc := if q < 0.0 then 0.0 else if q > 1.0 then 1.0 else q
    .value (sqrt2 * erfinv (2.0 * qc - 1.0))

/-- outcome of `dkw_epsilon` including its argument validation (scalars only) -/
inductive DkwResult where
  | valueError
  | value (e : Float)

/-- `dkw_epsilon(n, confidence)` -/
def dkwEpsilon (n confidence : Float) : DkwResult :=
  if n ≤ 0.0 then .valueError
  else if confidence < 0.0 || confidence > 1.0 then .valueError
  else if confidence == 1.0 then .value posInf
  else .value (Float.sqrt (Float.log (2.0 / (1.0 - confidence)) / (2.0 * n)))

end Opda.SpecialFn
