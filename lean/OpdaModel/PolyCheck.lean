namespace Opda.PolyCheck

def mulLin (s0 : Int) : List Int → Int → List Int
  | [], carry => [carry]
  | x :: xs, carry => (s0 * x + carry) :: mulLin s0 xs x

/-- coefficients (low degree first) of `p(s0 + u)` in `u`. -/
def shift (s0 : Int) : List Int → List Int
  | [] => []
  | c :: p =>
    match mulLin s0 (shift s0 p) 0 with
    | h :: t => (h + c) :: t
    | [] => [c]

def bound (R : Int) : List Int → Int
  | [] => 0
  | a :: as => a.natAbs + R * bound R as

def checkIv (C : List Int) (B : Int) (l r : Int) : Bool :=
  let m := (l + r) / 2
  let R := r - m
  decide (l ≤ r) && decide (m - l ≤ R) && decide (bound R (shift m C) ≤ B)

def checkAll (C : List Int) (B : Int) : List Int → Bool
  | [] => true
  | [_] => true
  | l :: r :: rest => checkIv C B l r && checkAll C B (r :: rest)

end Opda.PolyCheck

namespace Opda.PolyCheck

/-- `[c0, c1, c2, …] ↦ [c0, 0, c1, 0, c2, …]`: coefficients of `p(t²)` in `t`. -/
def interleave : List Rat → List Rat
  | [] => []
  | c :: rest => c :: 0 :: interleave rest

/-- subtract `1` from the coefficient of `t^k`, padding with zeros if necessary -/
def subAt : Nat → List Rat → List Rat
  | 0, [] => [-1]
  | 0, c :: rest => (c - 1) :: rest
  | k+1, [] => 0 :: subAt k []
  | k+1, c :: rest => c :: subAt k rest

/-- coefficients in `t` of `g(t) = p(t²) − t^m2` -/
def gOf (cs : List Rat) (m2 : Nat) : List Rat := subAt m2 (interleave cs)

/-- multiply the coefficient of `t^j` by `2^((len-1-j)·D)`: coefficients in `s` of `2^(deg·D) g(s/2^D)` -/
def scaled (D : Nat) : List Rat → List Rat
  | [] => []
  | g :: rest => (g * (2 : Rat)^(rest.length * D)) :: scaled D rest

/-- the integer certificate polynomial really is the scaled `g` -/
def scaleOK (D P : Nat) (gq : List Rat) (C : List Int) : Bool :=
  decide (C.map (fun z : Int => (z : Rat)) = (scaled D gq).map (fun q => q * (2 : Rat)^P))

end Opda.PolyCheck
