import OpdaModel.NoisyFloat
import OpdaModel.QuadTrap
/-!
Tuning curves of `NoisyQuadraticDistribution` on top of the polymorphic model `Opda.Noisy`
(`cdf`, `ppf` of `OpdaModel/NoisyFloat.lean`) and of the integration loop `Opda.TrapLoop`:

    quantile_tuning_curve(ns, q, minimize) = ppf(1 - (1 - q)**(1/ns) if minimize else q**(1/ns))
    average_tuning_curve(ns, minimize, atol) = lo + trapezoid loop of 1 - F(y)**ns  resp. (1 - F(y))**ns …

with `minimize = None ↦ self.convex`, `lo, hi = a − 6o, b + 6o`, `atol = None ↦ 1e-6·(hi − lo)`.
-/
namespace Opda.Noisy

section
variable {α : Type} [Add α] [Sub α] [Mul α] [Div α] [Neg α] [LT α] [DecidableLT α] [LE α] [DecidableLE α]

/-- the level handed to `ppf` -/
def level (F : Fns α) (minimize : Bool) (q nn : α) : α :=
  if minimize then F.n 1 - F.pow (F.n 1 - q) (F.n 1 / nn) else F.pow q (F.n 1 / nn)

def quantileTuningCurve (F : Fns α) (d : Params α) (nn q : α) (minimize : Option Bool) : α :=
  ppf F d (level F (minimize.getD d.convex) q nn)

/-- integration range `[a − 6o, b + 6o]` -/
def intLo (F : Fns α) (d : Params α) : α := d.a - F.n 6 * d.o
def intHi (F : Fns α) (d : Params α) : α := d.b + F.n 6 * d.o

/-- `atol if atol is not None else 1e-6 * (hi - lo)` -/
def atolOf (F : Fns α) (d : Params α) (atol : Option α) : α :=
  atol.getD (F.lit 1 1000000 * (intHi F d - intLo F d))

/-- the refinement loop for an array `ns`: `(rounds, trapezoid values, error estimates per round)`,
`none` = `IntegrationError` -/
def avgRunCapped (F : Fns α) (d : Params α) (ns : List α) (minimize : Option Bool) (atol : Option α)
    (rounds : Nat) : Option (Nat × List α × List α) :=
  TrapLoop.runCapped F.n (ns.map fun nn => TrapLoop.gRep F.n F.pow (cdf F d) (minimize.getD d.convex) nn)
    (intLo F d) (intHi F d) (atolOf F d atol) rounds

def avgRun (F : Fns α) (d : Params α) (ns : List α) (minimize : Option Bool) (atol : Option α) :
    Option (Nat × List α × List α) := avgRunCapped F d ns minimize atol 30

/-- LEGACY: the same loop on the pre-repair integrand `1[y>0] − Fⁿ` (finding F4; the value was
`max(0,lo) + min(0,hi) + T`) -/
def avgRunCappedLegacy (F : Fns α) (d : Params α) (ns : List α) (minimize : Option Bool) (atol : Option α)
    (rounds : Nat) : Option (Nat × List α × List α) :=
  TrapLoop.runCapped F.n (ns.map fun nn => TrapLoop.gCur F.n F.pow (cdf F d) (minimize.getD d.convex) nn)
    (intLo F d) (intHi F d) (atolOf F d atol) rounds

def averageTuningCurve (F : Fns α) (d : Params α) (ns : List α) (minimize : Option Bool) (atol : Option α) :
    Option (List α) :=
  (avgRun F d ns minimize atol).map fun r => r.2.1.map fun t => intLo F d + t

end
end Opda.Noisy
