/-!
Wire format of the line protocol (core Lean only).

* a double crosses the boundary as the 16 hex digits of its IEEE-754 pattern;
* exact model results are printed as `num/den` (or `-inf` / `inf`);
* `Float` model results are printed as bit patterns again.

`Ext` is the extended-rational value type at which the discrete models run: every finite double *is*
a rational, so the model consumes the implementation's inputs and outputs exactly.
-/
namespace Opda.Wire

/-- extended rationals: the values a numpy float64 array of observations may hold (NaN excluded). -/
inductive Ext where
  | negInf
  | fin (q : Rat)
  | posInf
  deriving DecidableEq, Repr, Inhabited

namespace Ext
def lt : Ext → Ext → Bool
  | negInf, negInf => false
  | negInf, _ => true
  | fin _, negInf => false
  | fin p, fin q => decide (p < q)
  | fin _, posInf => true
  | posInf, _ => false
def le (x y : Ext) : Bool := !(lt y x)
instance : LT Ext := ⟨fun x y => lt x y = true⟩
instance : LE Ext := ⟨fun x y => le x y = true⟩
instance : DecidableLT Ext := fun x y => inferInstanceAs (Decidable (lt x y = true))
instance : DecidableLE Ext := fun x y => inferInstanceAs (Decidable (le x y = true))
def neg : Ext → Ext
  | negInf => posInf
  | fin q => fin (-q)
  | posInf => negInf
def toString : Ext → String
  | negInf => "-inf"
  | posInf => "inf"
  | fin q => s!"{q.num}/{q.den}"
instance : ToString Ext := ⟨toString⟩
end Ext

def hexDigit? (c : Char) : Option Nat :=
  if '0' ≤ c ∧ c ≤ '9' then some (c.toNat - '0'.toNat)
  else if 'a' ≤ c ∧ c ≤ 'f' then some (c.toNat - 'a'.toNat + 10)
  else if 'A' ≤ c ∧ c ≤ 'F' then some (c.toNat - 'A'.toNat + 10)
  else none

/-- 16 hex digits → the 64-bit pattern -/
def parseBits? (s : String) : Option Nat :=
  if s.length ≠ 16 then none
  else s.toList.foldlM (fun acc ch => (hexDigit? ch).map (fun d => acc * 16 + d)) 0

def parseFloat? (s : String) : Option Float := (parseBits? s).map fun n => Float.ofBits n.toUInt64

/-- the exact value of a bit pattern: `none` for NaN -/
def bitsToExt? (n : Nat) : Option Ext :=
  let sign : Nat := n / 2^63
  let e : Nat := (n / 2^52) % 2048
  let m : Nat := n % 2^52
  let full : Nat := 2^52 + m
  if e = 2047 then
    if m = 0 then some (if sign = 1 then .negInf else .posInf) else none
  else
    let mag : Rat :=
      if e = 0 then (m : Rat) / ((2 : Rat)^(1074 : Nat))
      else if e ≥ 1075 then (full : Rat) * ((2 : Rat)^(e - 1075))
      else (full : Rat) / ((2 : Rat)^(1075 - e))
    some (.fin (if sign = 1 then -mag else mag))

def parseExt? (s : String) : Option Ext := (parseBits? s).bind bitsToExt?

def parseRat? (s : String) : Option Rat :=
  match parseExt? s with
  | some (.fin q) => some q
  | _ => none

def hexOfNat (n : Nat) : String :=
  let ds := (List.range 16).map fun i => Nat.digitChar ((n / 16^(15 - i)) % 16)
  String.ofList ds

def hexOfFloat (x : Float) : String := hexOfNat x.toBits.toNat

def ratStr (q : Rat) : String := s!"{q.num}/{q.den}"

/-- `n x₁ … xₙ rest…` → `([x₁,…,xₙ], rest)` -/
def takeList {β : Type} (p : String → Option β) : List String → Option (List β × List String)
  | [] => none
  | cnt :: rest =>
    match cnt.toNat? with
    | none => none
    | some k =>
      if rest.length < k then none
      else (rest.take k).mapM p |>.map fun xs => (xs, rest.drop k)

def joinWith (sep : String) (xs : List String) : String := sep.intercalate xs

end Opda.Wire
