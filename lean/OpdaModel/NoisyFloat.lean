import OpdaGen.Table
/-!
Probe: `Float` model of `NoisyQuadraticDistribution.cdf/pdf` and the private partial-moment stack,
mirroring parametric.py line by line (scalar semantics of the vectorised code).
-/
namespace Opda.NoisyF

/-- elementary functions, possibly jittered by a few ulps (to estimate conditioning) -/
structure Fns where
  exp : Float → Float
  pow : Float → Float → Float
  cos : Float → Float
  sqrt : Float → Float
  post : Float → Float   -- applied to erf's result

def nudge (seed : Nat) (ulps : Nat) (x : Float) : Float :=
  if ulps == 0 || x.isNaN || x.isInf || x == 0.0 then x else
  let b := x.toBits
  -- cheap hash of (bits, seed)
  let h := (b.toNat * 6364136223846793005 + seed * 1442695040888963407 + 12345) % 18446744073709551616
  let k := (h / 65536) % (2 * ulps + 1)
  Float.ofBits (UInt64.ofNat (b.toNat + k - ulps))

def plain : Fns := { exp := Float.exp, pow := Float.pow, cos := Float.cos, sqrt := Float.sqrt, post := id }
def jitter (seed ulps : Nat) : Fns :=
  { exp := fun x => nudge seed ulps (Float.exp x), pow := fun x y => nudge seed ulps (Float.pow x y),
    cos := fun x => nudge seed ulps (Float.cos x), sqrt := Float.sqrt, post := nudge seed ulps }

def pi : Float := 3.141592653589793

/-- erf: positive-term series for |x| < 3, continued fraction for erfc beyond -/
def erf (F : Fns) (x : Float) : Float := F.post <|
  let ax := x.abs
  let v :=
    if ax < 3.0 then Id.run do
      -- erf(x) = 2/√π e^{-x²} Σ 2^n x^{2n+1} / (1·3·…·(2n+1))
      let mut term := ax
      let mut sum := ax
      for n in [1:200] do
        term := term * 2.0 * ax * ax / (2.0 * n.toFloat + 1.0)
        sum := sum + term
        if term < 1e-18 * sum then break
      return 2.0 / Float.sqrt pi * F.exp (-(ax*ax)) * sum
    else Id.run do
      -- erfc(x) = e^{-x²}/(x√π) · 1/(1 + 1/(2x²)/(1 + 2/(2x²)/(1 + …)))  (evaluate bottom-up)
      let z := 2.0 * ax * ax
      let mut f := 1.0
      for j in [0:40] do
        let k := (40 - j).toFloat
        f := 1.0 + (k / z) / f
      let erfc := F.exp (-(ax*ax)) / (ax * Float.sqrt pi) / f
      return 1.0 - erfc
  if x < 0.0 then -v else v

def normalPdf (F : Fns) (x : Float) : Float := 0.3989422804014327 * F.exp (-0.5 * (x*x))
def normalCdf (F : Fns) (x : Float) : Float := 0.5 * (1.0 + erf F (1.0 / Float.sqrt 2.0 * x))

def clip (x lo hi : Float) : Float := if x < lo then lo else if hi < x then hi else x

/-- `_chebyshev_coefficients(lo, hi, k, n)`; returns constant term first -/
def chebCoeffs (F : Fns) (lo hi k : Float) (n : Nat) : List Float := Id.run do
  let xs : Array Float := (Array.range (n+1)).map fun i =>
    lo + (hi - lo) * 0.5 * (1.0 - F.cos (pi * (2.0 * i.toFloat + 1.0) / (2.0 * (n.toFloat + 1.0))))
  -- Lagrange weights
  let ws : Array Float := (Array.range (n+1)).map fun i => Id.run do
    let mut prod := 1.0
    for j in [0:n+1] do
      if j ≠ i then prod := prod * (xs[i]! - xs[j]!)
    return F.pow xs[i]! k / prod
  -- es[i][m] : i-th elementary symmetric polynomial of the nodes other than m
  let mut es : Array (Array Float) := #[Array.replicate (n+1) 1.0]
  let mut ps : Array (Array Float) := #[]
  let mut cs : Array Float := #[ws.foldl (· + ·) 0.0]
  for i in [1:n+1] do
    let tot := xs.foldl (fun acc x => acc + F.pow x i.toFloat) 0.0
    let p := xs.map fun x => tot - F.pow x i.toFloat
    ps := ps.push p
    let e := (Array.range (n+1)).map fun m => Id.run do
      let mut acc := 0.0
      for t in [0:i] do
        let sign := if t % 2 == 0 then 1.0 else -1.0
        acc := acc + sign * (es[i-1-t]!)[m]! * (ps[t]!)[m]!
      return acc / i.toFloat
    es := es.push e
    let sgn := if i % 2 == 0 then 1.0 else -1.0
    let s := (Array.range (n+1)).foldl (fun acc m => acc + ws[m]! * e[m]!) 0.0
    cs := cs.push (sgn * s)
  return cs.toList.reverse

/-- `_get_approximation_coefficients(loc, scale, k)` with `m2 = 2k` -/
def approxCoeffs (F : Fns) (loc scale : Float) (m2 : Int) : List Float × List (List Float) :=
  let fromTable : Option (List Float × List (List Float)) :=
    if m2 < 0 then none else
    match Opda.Gen.table.find? (fun p => p.1 == m2.toNat) with
    | none => none
    | some (_, entries) =>
      match entries.find? (fun e => ¬ (scale < e.minScale)) with
      | none => none
      | some e => some (e.knots, e.coeffs)
  match fromTable with
  | some r => r
  | none =>
    let k := (Float.ofInt m2) / 2.0
    let lo := clip (loc - 6.0 * scale) 0.0 (1.0 - scale)
    let hi := clip (loc + 6.0 * scale) scale 1.0
    let md := (3.0 * lo + hi) / 4.0
    let (nl, nr) :=
      if scale >= 1e-2 then (5, 5) else if scale >= 3e-3 then (4, 4) else if scale >= 6e-4 then (3, 3)
      else if scale >= 3e-4 then (2, 3) else (2, 2)
    ([lo, md, hi], [chebCoeffs F lo md k nl, chebCoeffs F md hi k nr])

/-- `_partial_fractional_normal_moment` -/
def partialFractional (F : Fns) (loc scale : Float) (m2 : Int) : Float := Id.run do
  let (knots, coefficients) := approxCoeffs F loc scale m2
  let var := scale * scale
  let mut fm := 0.0
  let pieces := (knots.zip knots.tail).zip coefficients
  for ((a, b), cs) in pieces do
    let mut term0 := scale * normalPdf F ((a - loc) / scale)
    let mut term1 := -scale * normalPdf F ((b - loc) / scale)
    let mut mPrev := 0.0
    let mut mCurr := normalCdf F ((b - loc) / scale) - normalCdf F ((a - loc) / scale)
    match cs with
    | [] => pure ()
    | c0 :: rest =>
      fm := fm + c0 * mCurr
      let mut i := 0
      for c in rest do
        let nxt := loc * mCurr + i.toFloat * var * mPrev + term0 + term1
        mPrev := mCurr
        mCurr := nxt
        fm := fm + c * mCurr
        term0 := term0 * a
        term1 := term1 * b
        i := i + 1
  return fm

/-- `_partial_normal_moment(loc, scale, k)` with `m2 = 2k` (an integer ≥ −1) -/
def partialMoment (F : Fns) (loc scale : Float) (m2 : Int) : Float := Id.run do
  if loc.isInf then return 0.0
  let var := scale * scale
  let term := -scale * normalPdf F ((1.0 - loc) / scale)
  if m2 % 2 == 0 then
    -- integer k: base moments 0 and 1, step up
    let k := (m2 / 2).toNat
    let m0 := normalCdf F ((1.0 - loc) / scale) - normalCdf F (-loc / scale)
    if k == 0 then return m0
    let m1 := loc * m0 + scale * (normalPdf F (-loc / scale) - normalPdf F ((1.0 - loc) / scale))
    if k == 1 then return m1
    let mut mPrev := m0
    let mut mCurr := m1
    for j in [0:k-1] do
      let nxt := loc * mCurr + (1.0 + j.toFloat) * var * mPrev + term
      mPrev := mCurr
      mCurr := nxt
    return mCurr
  else
    if m2 == -1 && scale >= 5e-2 then
      -- step down from 0.5 and 1.5:  i = 1.5 → i-1 = 0.5 ; one step to −0.5
      let mHalf := partialFractional F loc scale 1
      let mThreeHalves := partialFractional F loc scale 3
      -- (moment_prev − loc*moment_curr − term) / ((i − j) * var) with i = 0.5, j = 0,
      -- moment_prev = E[X^1.5], moment_curr = E[X^0.5]
      return (mThreeHalves - loc * mHalf - term) / (0.5 * var)
    else
      return partialFractional F loc scale m2

structure Params where
  a : Float
  b : Float
  c : Nat
  o : Float
  convex : Bool

def meanOf (d : Params) : Float :=
  if d.convex then d.a + (d.b - d.a) * d.c.toFloat / (d.c.toFloat + 2.0)
  else d.a + (d.b - d.a) * 2.0 / (d.c.toFloat + 2.0)
def varOf (d : Params) : Float :=
  d.o * d.o + (d.b - d.a) * (d.b - d.a) * 4.0 * d.c.toFloat / ((d.c.toFloat + 2.0) * (d.c.toFloat + 2.0) * (d.c.toFloat + 4.0))

inductive Regime | noiseless | nothing | normal deriving BEq
def regime (d : Params) : Regime :=
  if d.o < 1e-6 * (d.b - d.a) then .noiseless else if d.o < 1e+1 * (d.b - d.a) then .nothing else .normal

def cdf (F : Fns) (d : Params) (y : Float) : Float :=
  let c2 := d.c.toFloat / 2.0
  if d.a == d.b && d.o == 0.0 then (if y < d.a then 0.0 else 1.0)
  else match regime d with
  | .noiseless =>
    let y' := clip y d.a d.b
    if d.convex then F.pow ((y' - d.a) / (d.b - d.a)) c2
    else 1.0 - F.pow ((d.b - y') / (d.b - d.a)) c2
  | .normal => normalCdf F ((y - meanOf d) / Float.sqrt (varOf d))
  | .nothing =>
    let point := if d.convex then (y - d.b) / d.o else (y - d.a) / d.o
    let loc := if d.convex then (y - d.a) / (d.b - d.a) else (d.b - y) / (d.b - d.a)
    let scale := d.o / (d.b - d.a)
    let pm := partialMoment F loc scale (d.c : Int)
    let q := if d.convex then normalCdf F point + pm else normalCdf F point - pm
    clip q 0.0 1.0

def pdf (F : Fns) (d : Params) (y : Float) : Float :=
  let c := d.c.toFloat
  if d.a == d.b && d.o == 0.0 then (if y == d.a then 1.0/0.0 else 0.0)
  else match regime d with
  | .noiseless =>
    if y < d.a || d.b < y then 0.0
    else if d.convex then (c / (2.0 * (d.b - d.a))) * F.pow ((y - d.a) / (d.b - d.a)) (c / 2.0 - 1.0)
    else (c / (2.0 * (d.b - d.a))) * F.pow ((d.b - y) / (d.b - d.a)) (c / 2.0 - 1.0)
  | .normal => normalPdf F ((y - meanOf d) / Float.sqrt (varOf d)) / Float.sqrt (varOf d)
  | .nothing =>
    let loc := if d.convex then (y - d.a) / (d.b - d.a) else (d.b - y) / (d.b - d.a)
    let scale := d.o / (d.b - d.a)
    let p := c / (2.0 * (d.b - d.a)) * partialMoment F loc scale ((d.c : Int) - 2)
    if p < 0.0 then 0.0 else p

end Opda.NoisyF

namespace Opda.NoisyF

/-- `utils.normal_ppf` is a black box (erfinv); the probe inverts `normalCdf` by bisection only for the
`normal` regime comparison — the framework takes `erfinv` from the harness instead. -/
def normalPpfApprox (F : Fns) (q : Float) : Float := Id.run do
  if q <= 0.0 then return -1.0/0.0
  if q >= 1.0 then return 1.0/0.0
  let mut lo := -40.0
  let mut hi := 40.0
  for _ in [0:200] do
    let m := (lo + hi) / 2.0
    if normalCdf F m < q then lo := m else hi := m
  return (lo + hi) / 2.0

/-- `ppf`: returns (value, margin) where margin = min over the 30 steps of |cdf(mid) − q| -/
def ppf (F : Fns) (d : Params) (q0 : Float) : Float × Float := Id.run do
  let q := clip q0 0.0 1.0
  if d.a == d.b && d.o == 0.0 then return (d.a, 1.0)
  match regime d with
  | .noiseless =>
    let c2i := 2.0 / d.c.toFloat
    return (if d.convex then d.a + (d.b - d.a) * F.pow q c2i else d.b - (d.b - d.a) * F.pow (1.0 - q) c2i, 1.0)
  | .normal => return (meanOf d + F.sqrt (varOf d) * normalPpfApprox F q, 1.0)
  | .nothing =>
    let mut lo := d.a - 6.0 * d.o
    let mut hi := d.b + 6.0 * d.o
    let mut y := (lo + hi) / 2.0
    let mut margin := 1.0
    for _ in [0:30] do
      let cy := cdf F d y
      margin := min margin (cy - q).abs
      if cy < q then lo := y else hi := y
      y := (lo + hi) / 2.0
    if q == 0.0 then return (-1.0/0.0, margin)
    if q == 1.0 then return (1.0/0.0, margin)
    if d.o == 0.0 then return (clip y d.a d.b, margin)
    return (y, margin)

/-- `average_tuning_curve(n, minimize)` with the default atol: returns (value, refinements, |err−atol|/atol at stop) -/
def avgCurve (F : Fns) (d : Params) (n : Float) (minimize : Bool) : Float × Nat × Float := Id.run do
  let lo := d.a - 6.0 * d.o
  let hi := d.b + 6.0 * d.o
  let atol := 1e-6 * (hi - lo)
  let g := fun (x : Float) =>
    let ind := if x > 0.0 then 1.0 else 0.0
    if minimize then ind - (1.0 - F.pow (1.0 - cdf F d x) n) else ind - F.pow (cdf F d x) n
  let mut h := hi - lo
  let mut ys := 0.5 * h * (g lo + g hi)
  let mut iters := 0
  let mut rel := 1.0
  for i in [1:31] do
    h := h * 0.5
    let cnt := 2 ^ (i - 1)
    let mut s := 0.0
    for j in [0:cnt] do
      s := s + g (lo + (2.0 * j.toFloat + 1.0) * h)
    let ysPrev := ys
    ys := 0.5 * ys + h * s
    let err := (ys - ysPrev).abs / 3.0
    iters := i
    if i > 3 && err < atol then
      rel := (err - atol).abs / atol
      break
    if i > 3 then rel := min rel ((err - atol).abs / atol)
    if i >= 17 then break   -- probe guard
  return ((if lo > 0.0 then lo else 0.0) + (if hi < 0.0 then hi else 0.0) + ys, iters, rel)

end Opda.NoisyF
