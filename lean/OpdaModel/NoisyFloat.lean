import OpdaGen.Table
/-!
Model of `opda.parametric.NoisyQuadraticDistribution.cdf / pdf / ppf` and of the private
partial-moment stack behind them (`_partial_normal_moment`, `_base_partial_normal_moments`,
`_partial_fractional_normal_moment`, `_get_approximation_coefficients`, `_chebyshev_coefficients`),
mirroring parametric.py operation by operation (scalar semantics of the vectorised code).

**One polymorphic definition** (`namespace Opda.Noisy`): the algorithm is written once over any
carrier `α` with `+ − × ÷ −x <` (ordinary Lean classes, so that at an ordered field the proofs can use
`ring`/`linarith` directly) and a record `Fns α` holding everything that is *not* arithmetic: numerals,
`pow`, `cos`, `sqrt`, the three normal helpers of `opda.utils`, numpy's `==`, `isinf`, `±inf`, and the
shipped approximation table.  The driver instantiates it at `Float` (`namespace Opda.NoisyF`: `plain`,
and `jitter seed ulps`, the same functions with every transcendental result nudged by a few ulps to
measure conditioning); `OpdaProofs/Noisy*.lean` reasons about the *same terms* at ordered fields and at
`ℝ`.  Constants of the algorithm (1e-6, 10, 5e-2, the Chebyshev ladder 1e-2/3e-3/6e-4/3e-4 with degrees
(5,5),(4,4),(3,3),(2,3),(2,2), 6σ, 30 steps, `(3 lo + hi)/4`) are pinned here by hand; only the table is
regenerated from the repository.
-/
namespace Opda.Noisy

/-- one entry of `_APPROXIMATIONS[k]` (without `max_error`, which the algorithm never reads) -/
structure Entry (α : Type) where
  minScale : α
  knots : List α
  coeffs : List (List α)

/-- everything the algorithm uses besides field arithmetic and `<` -/
structure Fns (α : Type) where
  /-- numerals -/
  n : Nat → α
  pow : α → α → α
  cos : α → α
  sqrt : α → α
  /-- `opda.utils.normal_cdf` -/
  normalCdf : α → α
  /-- `opda.utils.normal_pdf` -/
  normalPdf : α → α
  /-- `opda.utils.normal_ppf` -/
  normalPpf : α → α
  /-- `np.isinf` -/
  isInf : α → Bool
  /-- numpy's `==` -/
  eq : α → α → Bool
  pi : α
  negInf : α
  posInf : α
  /-- `(2·exponent, entries in file order)` -/
  table : List (Nat × List (Entry α))

structure Params (α : Type) where
  a : α
  b : α
  c : Nat
  o : α
  convex : Bool

inductive Regime | noiseless | nothing | normal
  deriving BEq, DecidableEq, Repr

section
variable {α : Type} [Add α] [Sub α] [Mul α] [Div α] [Neg α] [LT α] [DecidableLT α]

/-- the decimal constant `p/q` (for `p`, `q` exactly representable the quotient is the correctly
rounded double, i.e. the literal the Python source writes) -/
def Fns.lit (F : Fns α) (p q : Nat) : α := F.n p / F.n q

/-- `np.clip(x, lo, hi)` for `lo ≤ hi` -/
def clip (x lo hi : α) : α := if x < lo then lo else if hi < x then hi else x

/-- left-to-right sum starting from zero (numpy's `sum` over a short axis) -/
def sumL (F : Fns α) (l : List α) : α := l.foldl (· + ·) (F.n 0)

/-! ### `_chebyshev_coefficients` -/

/-- Chebyshev nodes of the first kind on `[lo, hi]` (end points excluded) -/
def chebNodes (F : Fns α) (lo hi : α) (n : Nat) : List α :=
  (List.range (n+1)).map fun i =>
    lo + (hi - lo) * F.lit 1 2 * (F.n 1 - F.cos (F.pi * F.n (2*i+1) / F.n (2*(n+1))))

/-- `∏_{m ≠ j} (x_j − x_m)` in index order (the diagonal is set to one in the code) -/
def prodOthers (F : Fns α) (xs : List α) (j : Nat) (xj : α) : α :=
  xs.zipIdx.foldl (fun acc p => if p.2 = j then acc else acc * (xj - p.1)) (F.n 1)

def sign (F : Fns α) (t : Nat) : α := if t % 2 = 0 then F.n 1 else -(F.n 1)

/-- state of the Newton-identity loop: `es` latest first, `ps` earliest first, `cs` latest first -/
structure ChebState (α : Type) where
  es : List (List α)
  ps : List (List α)
  cs : List α

def chebStep (F : Fns α) (xs ws : List α) (st : ChebState α) (i0 : Nat) : ChebState α :=
  let i := i0 + 1
  let pw := xs.map fun x => F.pow x (F.n i)
  let tot := sumL F pw
  let p := pw.map fun v => tot - v
  let ps' := st.ps ++ [p]
  -- e = Σ_t (−1)^t · es[i−1−t] · ps[t] / i   (elementwise over the nodes, summed over t in order)
  let acc := (st.es.zip ps').zipIdx.foldl
    (fun acc q => (acc.zip (q.1.1.zip q.1.2)).map fun r => r.1 + sign F q.2 * r.2.1 * r.2.2)
    (xs.map fun _ => F.n 0)
  let e := acc.map fun v => v / F.n i
  let s := sumL F ((ws.zip e).map fun r => r.1 * r.2)
  { es := e :: st.es, ps := ps', cs := (sign F i * s) :: st.cs }

/-- `_chebyshev_coefficients(lo, hi, k, n)`: coefficients of the degree-`n` interpolant of `x^k` at the
Chebyshev nodes, via Lagrange weights, Vieta and Newton's identities; constant term first -/
def chebCoeffs (F : Fns α) (lo hi k : α) (n : Nat) : List α :=
  let xs := chebNodes F lo hi n
  let ws := xs.zipIdx.map fun p => F.pow p.1 k / prodOthers F xs p.2 p.1
  let st0 : ChebState α := { es := [xs.map fun _ => F.n 1], ps := [], cs := [sumL F ws] }
  ((List.range n).foldl (chebStep F xs ws) st0).cs

/-! ### `_get_approximation_coefficients` -/

/-- the Chebyshev degree ladder -/
def chebDegrees (F : Fns α) (scale : α) : Nat × Nat :=
  if ¬ (scale < F.lit 1 100) then (5, 5)
  else if ¬ (scale < F.lit 3 1000) then (4, 4)
  else if ¬ (scale < F.lit 6 10000) then (3, 3)
  else if ¬ (scale < F.lit 3 10000) then (2, 3)
  else (2, 2)

/-- first table entry of exponent `m2/2` with `min_scale ≤ scale` -/
def tableLookup (F : Fns α) (scale : α) (m2 : Int) : Option (Entry α) :=
  if m2 < 0 then none else
  match F.table.find? (fun p => p.1 == m2.toNat) with
  | none => none
  | some (_, entries) => entries.find? (fun e => ¬ (scale < e.minScale))

/-- knots and per-piece coefficients of the piecewise polynomial standing in for `x^(m2/2)` -/
def approxCoeffs (F : Fns α) (loc scale : α) (m2 : Int) : List α × List (List α) :=
  match tableLookup F scale m2 with
  | some e => (e.knots, e.coeffs)
  | none =>
    let k := (if m2 < 0 then -(F.n m2.natAbs) else F.n m2.natAbs) / F.n 2
    let lo := clip (loc - F.n 6 * scale) (F.n 0) (F.n 1 - scale)
    let hi := clip (loc + F.n 6 * scale) scale (F.n 1)
    let md := (F.n 3 * lo + hi) / F.n 4
    let nn := chebDegrees F scale
    ([lo, md, hi], [chebCoeffs F lo md k nn.1, chebCoeffs F md hi k nn.2])

/-! ### `_partial_fractional_normal_moment` -/

/-- the inner loop over `cs[1:]` of one piece `[a, b]`: `mCurr` runs through the integer partial moments
of the piece by the recursion `M_{i+1} = loc·M_i + i·var·M_{i−1} + a^i·t0 + b^i·t1` -/
def pieceLoop (F : Fns α) (loc var a b : α) : List α → Nat → α → α → α → α → α → α
  | [], _, _, _, _, _, fm => fm
  | c :: rest, i, mPrev, mCurr, t0, t1, fm =>
    let nxt := loc * mCurr + F.n i * var * mPrev + t0 + t1
    pieceLoop F loc var a b rest (i+1) mCurr nxt (t0 * a) (t1 * b) (fm + c * nxt)

/-- contribution of one piece, added to the running sum `fm` -/
def pieceSum (F : Fns α) (loc scale : α) (fm : α) (pc : (α × α) × List α) : α :=
  let a := pc.1.1
  let b := pc.1.2
  let t0 := scale * F.normalPdf ((a - loc) / scale)
  let t1 := -scale * F.normalPdf ((b - loc) / scale)
  let m0 := F.normalCdf ((b - loc) / scale) - F.normalCdf ((a - loc) / scale)
  match pc.2 with
  | [] => fm
  | c0 :: rest => pieceLoop F loc (scale * scale) a b rest 0 (F.n 0) m0 t0 t1 (fm + c0 * m0)

def partialFractional (F : Fns α) (loc scale : α) (m2 : Int) : α :=
  let kc := approxCoeffs F loc scale m2
  ((kc.1.zip kc.1.tail).zip kc.2).foldl (pieceSum F loc scale) (F.n 0)

/-! ### `_partial_normal_moment` / `_base_partial_normal_moments` -/

/-- the step-up loop `for j in range(k − 1)` from the base moments of order 0 and 1 -/
def stepUp (F : Fns α) (loc var term : α) : Nat → Nat → α → α → α
  | 0, _, _, curr => curr
  | r+1, j, prev, curr => stepUp F loc var term r (j+1) curr (loc * curr + F.n (1+j) * var * prev + term)

/-- integer order `k`: `E₀¹[X^k]` for `X ~ N(loc, scale²)` by the upward recursion -/
def partialMomentInt (F : Fns α) (loc scale : α) (k : Nat) : α :=
  let m0 := F.normalCdf ((F.n 1 - loc) / scale) - F.normalCdf (-loc / scale)
  match k with
  | 0 => m0
  | k'+1 =>
    let m1 := loc * m0 + scale * (F.normalPdf (-loc / scale) - F.normalPdf ((F.n 1 - loc) / scale))
    stepUp F loc (scale * scale) (-scale * F.normalPdf ((F.n 1 - loc) / scale)) k' 0 m0 m1

/-- half-integer order `m2/2` (`m2` odd, `≥ −1`) -/
def partialMomentHalf (F : Fns α) (loc scale : α) (m2 : Int) : α :=
  if m2 = -1 ∧ ¬ (scale < F.lit 5 100) then
    -- one step down from the orders 1/2 and 3/2: (M_{3/2} − loc·M_{1/2} − term) / (½·var)
    let term := -scale * F.normalPdf ((F.n 1 - loc) / scale)
    (partialFractional F loc scale 3 - loc * partialFractional F loc scale 1 - term)
      / (F.lit 1 2 * (scale * scale))
  else partialFractional F loc scale m2

/-- `_partial_normal_moment(loc, scale, k)` with `m2 = 2k` -/
def partialMoment (F : Fns α) (loc scale : α) (m2 : Int) : α :=
  if F.isInf loc then F.n 0
  else if m2 % 2 = 0 then partialMomentInt F loc scale (m2 / 2).toNat
  else partialMomentHalf F loc scale m2

/-! ### the public methods -/

def meanOf (F : Fns α) (d : Params α) : α :=
  if d.convex then d.a + (d.b - d.a) * F.n d.c / (F.n d.c + F.n 2)
  else d.a + (d.b - d.a) * F.n 2 / (F.n d.c + F.n 2)

def varOf (F : Fns α) (d : Params α) : α :=
  d.o * d.o + (d.b - d.a) * (d.b - d.a) * F.n 4 * F.n d.c
    / ((F.n d.c + F.n 2) * (F.n d.c + F.n 2) * (F.n d.c + F.n 4))

/-- `_approximate_with` -/
def regime (F : Fns α) (d : Params α) : Regime :=
  if d.o < F.lit 1 1000000 * (d.b - d.a) then .noiseless
  else if d.o < F.n 10 * (d.b - d.a) then .nothing else .normal

/-- `a == b and o == 0` -/
def pointMass (F : Fns α) (d : Params α) : Bool := F.eq d.a d.b && F.eq d.o (F.n 0)

def locOf (d : Params α) (y : α) : α :=
  if d.convex then (y - d.a) / (d.b - d.a) else (d.b - y) / (d.b - d.a)

/-- the series branch of `cdf` before the final clip -/
def cdfRaw (F : Fns α) (d : Params α) (y : α) : α :=
  let point := if d.convex then (y - d.b) / d.o else (y - d.a) / d.o
  let pm := partialMoment F (locOf d y) (d.o / (d.b - d.a)) (d.c : Int)
  if d.convex then F.normalCdf point + pm else F.normalCdf point - pm

def cdf (F : Fns α) (d : Params α) (y : α) : α :=
  if pointMass F d then (if y < d.a then F.n 0 else F.n 1)
  else match regime F d with
  | .noiseless =>
    let y' := clip y d.a d.b
    if d.convex then F.pow ((y' - d.a) / (d.b - d.a)) (F.n d.c / F.n 2)
    else F.n 1 - F.pow ((d.b - y') / (d.b - d.a)) (F.n d.c / F.n 2)
  | .normal => F.normalCdf ((y - meanOf F d) / F.sqrt (varOf F d))
  | .nothing => clip (cdfRaw F d y) (F.n 0) (F.n 1)

/-- the series branch of `pdf` before the final clip -/
def pdfRaw (F : Fns α) (d : Params α) (y : α) : α :=
  F.n d.c / (F.n 2 * (d.b - d.a)) * partialMoment F (locOf d y) (d.o / (d.b - d.a)) ((d.c : Int) - 2)

def pdf (F : Fns α) (d : Params α) (y : α) : α :=
  if pointMass F d then (if F.eq y d.a then F.posInf else F.n 0)
  else match regime F d with
  | .noiseless =>
    if y < d.a ∨ d.b < y then F.n 0
    else if d.convex then
      F.n d.c / (F.n 2 * (d.b - d.a)) * F.pow ((y - d.a) / (d.b - d.a)) (F.n d.c / F.n 2 - F.n 1)
    else
      F.n d.c / (F.n 2 * (d.b - d.a)) * F.pow ((d.b - y) / (d.b - d.a)) (F.n d.c / F.n 2 - F.n 1)
  | .normal => F.normalPdf ((y - meanOf F d) / F.sqrt (varOf F d)) / F.sqrt (varOf F d)
  | .nothing =>
    let p := pdfRaw F d y
    if p < F.n 0 then F.n 0 else p

/-- `k` bisection steps on the bracket `(lo, hi)`: `if f(mid) < q then lo := mid else hi := mid` -/
def bisect (f : α → α) (mid : α → α → α) (q : α) : Nat → α × α → α × α
  | 0, br => br
  | k+1, (lo, hi) =>
    let m := mid lo hi
    if f m < q then bisect f mid q k (m, hi) else bisect f mid q k (lo, m)

def midpoint (F : Fns α) (lo hi : α) : α := (lo + hi) / F.n 2

/-- the bisection branch of `ppf`: 30 steps on `[a − 6o, b + 6o]`, then the midpoint -/
def ppfBisect (F : Fns α) (d : Params α) (q : α) : α :=
  let br := bisect (cdf F d) (midpoint F) q 30 (d.a - F.n 6 * d.o, d.b + F.n 6 * d.o)
  midpoint F br.1 br.2

def ppf (F : Fns α) (d : Params α) (q0 : α) : α :=
  let q := clip q0 (F.n 0) (F.n 1)
  if pointMass F d then d.a
  else match regime F d with
  | .noiseless =>
    if d.convex then d.a + (d.b - d.a) * F.pow q (F.n 2 / F.n d.c)
    else d.b - (d.b - d.a) * F.pow (F.n 1 - q) (F.n 2 / F.n d.c)
  | .normal => meanOf F d + F.sqrt (varOf F d) * F.normalPpf q
  | .nothing =>
    let y := ppfBisect F d q
    let y1 := if F.eq q (F.n 0) then F.negInf else if F.eq q (F.n 1) then F.posInf else y
    if F.eq d.o (F.n 0) then clip y1 d.a d.b else y1

end
end Opda.Noisy

/-! ## the `Float` instances -/
namespace Opda.NoisyF
open Opda.Noisy

/-- elementary functions, possibly jittered by a few ulps (to estimate conditioning) -/
structure Elem where
  exp : Float → Float
  pow : Float → Float → Float
  cos : Float → Float
  sqrt : Float → Float
  post : Float → Float   -- applied to erf's / erfinv's result

/-- splitmix64 finaliser: a well-mixing hash, so that the nudges of different calls are independent of each
other *and* across seeds (a linear hash shifts all nudges rigidly with the seed and misses the directions in
which the errors of two calls must differ) -/
def mix64 (z0 : UInt64) : UInt64 :=
  let z := (z0 ^^^ (z0 >>> 30)) * 0xBF58476D1CE4E5B9
  let z := (z ^^^ (z >>> 27)) * 0x94D049BB133111EB
  z ^^^ (z >>> 31)

def nudge (seed : Nat) (ulps : Nat) (x : Float) : Float :=
  if ulps == 0 || x.isNaN || x.isInf || x == 0.0 then x else
  let b := x.toBits
  let h := mix64 (b + UInt64.ofNat seed * 0x9E3779B97F4A7C15)
  let k := h.toNat % (2 * ulps + 1)
  -- move the magnitude by k − ulps units in the last place, keeping the sign and staying finite
  let sgn := b.toNat / 9223372036854775808
  let mag := b.toNat % 9223372036854775808 + k - ulps
  if mag ≥ 9218868437227405312 then x else Float.ofBits (UInt64.ofNat (sgn * 9223372036854775808 + mag))

def pi : Float := 3.141592653589793

/-- `(erf x₀ rounded, its rounding residual, 2/√π·e^{−x₀²})` at `x₀ = k/8`, `k = 0..24` (mathematical constants,
computed to 50 digits; doubles as bit patterns) -/
def erfTable : Array (Float × Float × Float) := #[
  (Float.ofBits 0x0000000000000000, Float.ofBits 0x0000000000000000, Float.ofBits 0x3FF20DD750429B6D),
  (Float.ofBits 0x3FC1F5E1A35C3B89, Float.ofBits 0x3C6D0B6D6493E0F4, Float.ofBits 0x3FF1C62FA1E869B6),
  (Float.ofBits 0x3FD1AF54E232D609, Float.ofBits 0xBC7BEE921FA4172B, Float.ofBits 0x3FF0F5D1602F7E41),
  (Float.ofBits 0x3FD9DD0D2B721F39, Float.ofBits 0xBC71671C021D14C4, Float.ofBits 0x3FEF5F0CDAF15313),
  (Float.ofBits 0x3FE0A7EF5C18EDD2, Float.ofBits 0x3C75E809F1A31A28, Float.ofBits 0x3FEC1EFCA49A5011),
  (Float.ofBits 0x3FE3F196DCD0F135, Float.ofBits 0xBC7F25F4F6FDF70B, Float.ofBits 0x3FE86E9694134B9E),
  (Float.ofBits 0x3FE6C1C9759D0E5F, Float.ofBits 0x3C8B1432F2CBC455, Float.ofBits 0x3FE492E42D78D2C5),
  (Float.ofBits 0x3FE91724951B8FC6, Float.ofBits 0xBC827912DD352F8B, Float.ofBits 0x3FE0CAB61F084B93),
  (Float.ofBits 0x3FEAF767A741088B, Float.ofBits 0xBC7C97F778122797, Float.ofBits 0x3FDA911F096FBC26),
  (Float.ofBits 0x3FEC6DAD2829EC62, Float.ofBits 0xBC6AB76D4CBA3D05, Float.ofBits 0x3FD45E99BCBB7915),
  (Float.ofBits 0x3FED8865D98ABE01, Float.ofBits 0xBC8FCEC4AFB974D9, Float.ofBits 0x3FCE4652FADCB6B2),
  (Float.ofBits 0x3FEE5768C3B4A3FC, Float.ofBits 0x3C68B62674F89890, Float.ofBits 0x3FC5CE595C455B0A),
  (Float.ofBits 0x3FEEEA5557137AE0, Float.ofBits 0xBC8385E445F2C96D, Float.ofBits 0x3FBE723726B824A9),
  (Float.ofBits 0x3FEF4F693B67BD77, Float.ofBits 0xBC73A1EE1406C356, Float.ofBits 0x3FB499D478BCA735),
  (Float.ofBits 0x3FEF92D077F8D56D, Float.ofBits 0x3C78B55EF493FCE7, Float.ofBits 0x3FAB055303221015),
  (Float.ofBits 0x3FEFBE61EEF4CF6A, Float.ofBits 0x3C815DED88667618, Float.ofBits 0x3FA12CEB37FF9BC3),
  (Float.ofBits 0x3FEFD9AE142795E3, Float.ofBits 0x3C7972801904B9A3, Float.ofBits 0x3F9529B9E8CF9A1E),
  (Float.ofBits 0x3FEFEA4218D6594A, Float.ofBits 0xBC5E3333D8F7D98C, Float.ofBits 0x3F894624E78E0FAF),
  (Float.ofBits 0x3FEFF404760319B4, Float.ofBits 0x3C7F142071432025, Float.ofBits 0x3F7D4143A9DFE965),
  (Float.ofBits 0x3FEFF9960F3EB327, Float.ofBits 0xBC708B1CA6E97F80, Float.ofBits 0x3F706918B6355624),
  (Float.ofBits 0x3FEFFCAA8F4C9BEA, Float.ofBits 0x3C8B0CEE160116F9, Float.ofBits 0x3F61D83170FBF6FB),
  (Float.ofBits 0x3FEFFE514BBDC197, Float.ofBits 0xBC5CD963345B5C6D, Float.ofBits 0x3F52CE898809244E),
  (Float.ofBits 0x3FEFFF2CFB0453D9, Float.ofBits 0x3C89A913686042A3, Float.ofBits 0x3F43360CCD23DB3A),
  (Float.ofBits 0x3FEFFF9BA420E834, Float.ofBits 0x3C71379EC5AA630E, Float.ofBits 0x3F330538FBB77ECD),
  (Float.ofBits 0x3FEFFFD1AC4135F9, Float.ofBits 0x3C8EEAFA1ECD6CEF, Float.ofBits 0x3F22408E9BA3327F)
]

/-- erf.  `|x| < 3`: `erf x = erf x₀ + (2/√π) e^{−x₀²} ∫₀^h e^{−2x₀u−u²} du` with `x₀` the nearest multiple of `1/8`,
`|h| ≤ 1/16`; the integrand's Taylor coefficients obey `a_{n+1} = (−2x₀ a_n − 2 a_{n−1})/(n+1)`, so the integral is
`Σ a_n h^{n+1}/(n+1)` (18 terms).  Measured accuracy ≤ 2.4 ulp (scipy's: ≤ 2.6 ulp).  `|x| ≥ 3`: continued fraction
for erfc.  `E.post` is applied to the result (identity, or the ±ulps jitter). -/
def erfWith (E : Elem) (x : Float) : Float := E.post <|
  let ax := x.abs
  let v :=
    if ax < 3.0 then Id.run do
      let k := (ax * 8.0 + 0.5).floor.toUInt64.toNat
      let x0 := k.toFloat / 8.0
      let h := ax - x0
      let (hi, lo, g) := erfTable[k]!
      let tx := -2.0 * x0
      let mut am1 := 0.0
      let mut a := 1.0
      let mut hp := h
      let mut I := h
      for n in [0:18] do
        let an1 := (tx * a - 2.0 * am1) / (n.toFloat + 1.0)
        am1 := a
        a := an1
        hp := hp * h
        I := I + a * hp / (n.toFloat + 2.0)
      return hi + (lo + g * I)
    else Id.run do
      -- erfc(x) = e^{-x²}/(x√π) · 1/(1 + 1/(2x²)/(1 + 2/(2x²)/(1 + …)))  (evaluate bottom-up)
      let z := 2.0 * ax * ax
      let mut f := 1.0
      for j in [0:40] do
        let k := (40 - j).toFloat
        f := 1.0 + (k / z) / f
      let erfc := E.exp (-(ax*ax)) / (ax * Float.sqrt pi) / f
      return 1.0 - erfc
  if x < 0.0 then -v else v

/-- erfc for `t ≥ 0` with full relative accuracy in the tail (continued fraction from 3 on) -/
def erfcPos (t : Float) : Float :=
  if t < 3.0 then 1.0 - erfWith { exp := Float.exp, pow := Float.pow, cos := Float.cos, sqrt := Float.sqrt, post := id } t
  else Id.run do
    let z := 2.0 * t * t
    let mut f := 1.0
    for j in [0:40] do
      let k := (40 - j).toFloat
      f := 1.0 + (k / z) / f
    return Float.exp (-(t*t)) / (t * Float.sqrt pi) / f

/-- `scipy.special.erfinv` stand-in: bisection on `erf` (|x| < ½) or on `erfc` (the complement `1 − |x|`
is exact there), 100 steps on `[0, 27]` -/
def erfinv (x : Float) : Float :=
  if x.isNaN then x else
  let ax := x.abs
  if ax > 1.0 then 0.0 / 0.0 else
  let v : Float :=
    if ax == 1.0 then 1.0 / 0.0
    else if ax == 0.0 then 0.0
    else Id.run do
      let useC := ax >= 0.5
      let p := 1.0 - ax
      let mut lo := 0.0
      let mut hi := 27.0
      for _ in [0:100] do
        let m := (lo + hi) / 2.0
        let below := if useC then erfcPos m > p
                     else erfWith { exp := Float.exp, pow := Float.pow, cos := Float.cos, sqrt := Float.sqrt, post := id } m < ax
        if below then lo := m else hi := m
      return (lo + hi) / 2.0
  if x < 0.0 then -v else v

/-- the shipped table as the polymorphic model reads it -/
def floatTable : List (Nat × List (Entry Float)) :=
  Opda.Gen.table.map fun p =>
    (p.1, p.2.map fun e => ({ minScale := e.minScale, knots := e.knots, coeffs := e.coeffs } : Entry Float))

abbrev Fns := Opda.Noisy.Fns Float
abbrev Params := Opda.Noisy.Params Float

def mkFns (E : Elem) : Fns :=
  { n := Float.ofNat
    pow := E.pow
    cos := E.cos
    sqrt := E.sqrt
    normalCdf := fun x => 0.5 * (1.0 + erfWith E (1.0 / Float.sqrt 2.0 * x))
    normalPdf := fun x => 0.3989422804014327 * E.exp (-0.5 * (x*x))
    normalPpf := fun q => Float.sqrt 2.0 * E.post (erfinv (2.0 * q - 1.0))
    isInf := Float.isInf
    eq := fun x y => x == y
    pi := pi
    negInf := -1.0 / 0.0
    posInf := 1.0 / 0.0
    table := floatTable }

def plainElem : Elem := { exp := Float.exp, pow := Float.pow, cos := Float.cos, sqrt := Float.sqrt, post := id }
def jitterElem (seed ulps : Nat) : Elem :=
  { exp := fun x => nudge seed ulps (Float.exp x), pow := fun x y => nudge seed ulps (Float.pow x y),
    cos := fun x => nudge seed ulps (Float.cos x), sqrt := Float.sqrt, post := nudge seed ulps }

def plain : Fns := mkFns plainElem
def jitter (seed ulps : Nat) : Fns := mkFns (jitterElem seed ulps)

def regime (d : Params) : Regime := Opda.Noisy.regime plain d
def cdf (F : Fns) (d : Params) (y : Float) : Float := Opda.Noisy.cdf F d y
def pdf (F : Fns) (d : Params) (y : Float) : Float := Opda.Noisy.pdf F d y
def partialMoment (F : Fns) (loc scale : Float) (m2 : Int) : Float := Opda.Noisy.partialMoment F loc scale m2

/-- `ppf`: returns (value, margin) where margin = min over the 30 steps of |cdf(mid) − q|
(`1` outside the bisection branch) -/
def ppf (F : Fns) (d : Params) (q0 : Float) : Float × Float :=
  let v := Opda.Noisy.ppf F d q0
  let q := clip q0 0.0 1.0
  if pointMass F d || !(Opda.Noisy.regime F d == .nothing) then (v, 1.0) else Id.run do
    let mut lo := d.a - 6.0 * d.o
    let mut hi := d.b + 6.0 * d.o
    let mut margin := 1.0
    for _ in [0:30] do
      let y := (lo + hi) / 2.0
      let cy := cdf F d y
      margin := min margin (cy - q).abs
      if cy < q then lo := y else hi := y
    return (v, margin)

end Opda.NoisyF
