import OpdaModel.Lagrange
import OpdaModel.PolyCheck
/-!
Executable models and exact-rational sufficient-condition checkers for `opda.approximation`
(core Lean only; soundness theorems in `OpdaProofs/Approx*.lean`, `OpdaProofs/Props/C17.lean`,
`C18.lean`).

* `PolyQ` — polynomials as rational coefficient lists (constant term first): Horner evaluation, the
  Taylor-shift range checker of `PolyCheck` over `Rat` with *adaptive* bisection (`checkAd`), the
  a-posteriori interpolation check `interpOK`, and an (untrusted, checked afterwards) expansion of the
  Lagrange interpolant into monomial coefficients.
* `Remez` — the code's levelled interpolation (`p0`, `p1`, `h`, `p`) on a reference, and the
  de la Vallée-Poussin alternation checker `checkAlt` that decides signs and magnitudes from rational
  enclosures of `f` at the reference points.
* `Reexp` — the binomial re-expansion `a'_i = Σ_{j≥i} C(j,i) b^{j-i} c^j a_j` with the code's transform
  arithmetic (`m`, `m_inv`, shift `m·a − a_orig`).
-/
namespace Opda.PolyQ
open Opda.Lagr

def absQ (q : Rat) : Rat := if q < 0 then -q else q

/-- Horner evaluation, constant term first -/
def horner : List Rat → Rat → Rat
  | [], _ => 0
  | c :: p, x => c + x * horner p x

def mulLin (s0 : Rat) : List Rat → Rat → List Rat
  | [], carry => [carry]
  | x :: xs, carry => (s0 * x + carry) :: mulLin s0 xs x

/-- coefficients (low degree first) of `p(s0 + u)` in `u` -/
def shift (s0 : Rat) : List Rat → List Rat
  | [] => []
  | c :: p =>
    match mulLin s0 (shift s0 p) 0 with
    | h :: t => (h + c) :: t
    | [] => [c]

/-- `Σ |a_k| R^k` -/
def bound (R : Rat) : List Rat → Rat
  | [] => 0
  | a :: as => absQ a + R * bound R as

/-- `|C(s)| ≤ B` for every `s ∈ [l, r]`, by the Taylor bound around the midpoint -/
def checkIv (C : List Rat) (B l r : Rat) : Bool :=
  let m := (l + r) / 2
  decide (l ≤ r) && decide (bound (r - m) (shift m C) ≤ B)

/-- adaptive subdivision to depth `k` -/
def checkAd (C : List Rat) (B : Rat) : Nat → Rat → Rat → Bool
  | 0, l, r => checkIv C B l r
  | k+1, l, r =>
    checkIv C B l r ||
      (decide (absQ (horner C ((l + r) / 2)) ≤ B) &&
        (checkAd C B k l ((l + r) / 2) && checkAd C B k ((l + r) / 2) r))

/-- coefficientwise difference with zero padding -/
def sub : List Rat → List Rat → List Rat
  | [], q => q.map (fun d => -d)
  | c :: p, [] => c :: p
  | c :: p, d :: q => (c - d) :: sub p q

/-- the coefficient list `cs` has at most `n` entries and passes through the
`n` points `(v i, r i)`: then it *is* the interpolant (uniqueness; `PolyQ.interpOK_sound`). -/
def interpOK (cs : List Rat) (n : Nat) (v r : Nat → Rat) : Bool :=
  decide (cs.length ≤ n) && allTo n (fun i => decide (horner cs (v i) = r i))

def addL : List Rat → List Rat → List Rat
  | [], q => q
  | p, [] => p
  | a :: p, b :: q => (a + b) :: addL p q

def scale (k : Rat) (p : List Rat) : List Rat := p.map (k * ·)

/-- `(X − c) · p` -/
def mulX (c : Rat) (p : List Rat) : List Rat := addL (scale (-c) p) (0 :: p)

/-- monomial coefficients of `Σ_i r_i l_i` (not trusted: `interpOK` is run on the result) -/
def coeffs (n : Nat) (v r : Nat → Rat) : List Rat :=
  (List.range n).foldl (fun acc i =>
    let num := (List.range n).foldl (fun p j => if j = i then p else mulX (v j) p) [1]
    let den := prodTo n (fun j => if j = i then 1 else v i - v j)
    addL acc (scale (r i / den) num)) []

/-- round to a multiple of `2^-S` (only the *size* of the numbers depends on it; the rounding error is
bounded exactly by the certificate) -/
def roundTo (S : Nat) (q : Rat) : Rat := ((q * (2 : Rat) ^ S).floor : Rat) / (2 : Rat) ^ S

def maxQ (a b : Rat) : Rat := if a ≤ b then b else a

/-- **upper-bound certificate, polynomial `f`**: the interpolant `P` of `(v i, r i)`, `i < n`, expanded to
coefficients `cs` (checked a posteriori by `interpOK`), stays within `B` of the polynomial with
coefficients `cf` on all of `[a, b]`.  The range check runs on the dyadic rounding `Q` of `cs`
(small numbers); `eps ≥ max_{[a,b]} |Q − P|` is computed exactly and subtracted from `B`. -/
def certPoly (n : Nat) (v r : Nat → Rat) (cf : List Rat) (B a b : Rat) (depth S : Nat) : Bool :=
  let cs := coeffs n v r
  let Q := cs.map (roundTo S)
  let eps := bound (maxQ (absQ a) (absQ b)) (sub Q cs)
  interpOK cs n v r && checkAd (sub cf Q) (B - eps) depth a b

/-- `[c0, c1, …] ↦ [c0, 0, c1, 0, …]` then subtract `t^m2`: coefficients in `t` of `p(t²) − t^m2`
(re-exported from `PolyCheck` for the half-integer powers) -/
def gOf (cs : List Rat) (m2 : Nat) : List Rat := Opda.PolyCheck.gOf cs m2

/-- **upper-bound certificate, `f = x^(m2/2)`** through `x = t²`, `t ∈ [tl, th] ⊇ [√a, √b]` -/
def certHalf (n : Nat) (v r : Nat → Rat) (m2 : Nat) (B a b tl th : Rat) (depth S : Nat) : Bool :=
  let cs := coeffs n v r
  let Q := cs.map (roundTo S)
  let eps := bound (maxQ (absQ a) (absQ b)) (sub Q cs)
  interpOK cs n v r && decide (0 ≤ tl) && decide (tl ^ 2 ≤ a) && decide (0 ≤ th) && decide (b ≤ th ^ 2) &&
    checkAd (gOf Q m2) (B - eps) depth tl th

end Opda.PolyQ

namespace Opda.Remez
open Opda.Lagr

variable {α : Type}

/-- `(-1)**i` -/
def altSign [One α] [Neg α] (i : Nat) : α := if i % 2 = 0 then 1 else -1

/-- `h = (p0(x_{n+1}) − f(x_{n+1})) / (p1(x_{n+1}) + (−1)^n)` with `p0`, `p1` the interpolants of `y` and
`(−1)^i` on the first `n+1` reference points -/
def levelH [Zero α] [One α] [Add α] [Mul α] [Sub α] [Div α] [Neg α] [DecidableEq α]
    (n : Nat) (v y : Nat → α) : α :=
  (eval (n+1) v y (v (n+1)) - y (n+1)) / (eval (n+1) v altSign (v (n+1)) + altSign n)

/-- the values interpolated by the code's `p`: `y_i − h (−1)^i` -/
def levelVals [Zero α] [One α] [Add α] [Mul α] [Sub α] [Div α] [Neg α] [DecidableEq α]
    (n : Nat) (v y : Nat → α) (i : Nat) : α :=
  y i - levelH n v y * altSign i

/-- the code's `p = lagrange_interpolate(rs[:-1], ys[:-1] − h (−1)^i)` -/
def levelP [Zero α] [One α] [Add α] [Mul α] [Sub α] [Div α] [Neg α] [DecidableEq α]
    (n : Nat) (v y : Nat → α) (x : α) : α :=
  eval (n+1) v (levelVals n v y) x

def getR (l : List Rat) (i : Nat) : Rat := l.getD i 0

/-- the slack `1e-13` the property grants on the alternation magnitudes (pinned by hand) -/
def slack : Rat := 1 / 10000000000000

/-- the threshold `err − atol − 1e-13` -/
def threshold (err atol : Rat) : Rat := err - atol - slack

/-- de la Vallée-Poussin certificate on the code's output.
`rs`: the `n+2` reference points; `pv`: the values of the returned polynomial at the first `n+1` of
them (these define it); `flo`,`fhi`: rational enclosures of `f` at the reference points;
`sgn = true` means the error at `r_0` is claimed positive. -/
def checkAlt (n : Nat) (a b : Rat) (rs pv flo fhi : List Rat) (e : Rat) (sgn : Bool) : Bool :=
  (rs.length == n+2) && (pv.length == n+1) && (flo.length == n+2) && (fhi.length == n+2) &&
  decide (a ≤ getR rs 0) && decide (getR rs (n+1) ≤ b) &&
  allTo (n+1) (fun i => decide (getR rs i < getR rs (i+1))) &&
  allTo (n+2) (fun i =>
    let P := eval (n+1) (getR rs) (getR pv) (getR rs i)
    if (i % 2 == 0) == sgn then decide (e ≤ getR flo i - P) else decide (e ≤ P - getR fhi i))

/-- the values `y_i − h (−1)^i`, `i ≤ n`, that define the levelled polynomial of the reference `rs`
for the function values `ym` (the polynomial "the reference points define") -/
def levelPv (n : Nat) (rs ym : List Rat) : List Rat :=
  let h := levelH n (getR rs) (getR ym)
  (List.range (n+1)).map fun i => getR ym i - h * altSign i

/-- alternation certificate for the **levelled polynomial of the reference itself**: `ym` are rational
stand-ins for `f(r_i)` (any values; the enclosures `flo`/`fhi` decide), the polynomial is the exact
levelled interpolant of `(rs, ym)`. -/
def checkAltLevel (n : Nat) (a b : Rat) (rs ym flo fhi : List Rat) (e : Rat) (sgn : Bool) : Bool :=
  checkAlt n a b rs (levelPv n rs ym) flo fhi e sgn

end Opda.Remez

namespace Opda.Reexp
open Opda.Lagr

variable {α : Type}

/-- Pascal's triangle (`scipy.special.binom` on non-negative integers) -/
def choose : Nat → Nat → Nat
  | _, 0 => 1
  | 0, _+1 => 0
  | n+1, k+1 => choose n k + choose n (k+1)

def powN [One α] [Mul α] (x : α) : Nat → α
  | 0 => 1
  | k+1 => powN x k * x

/-- `a'_i = Σ_{j=i}^{N-1} C(j,i) · b^{j−i} · c^j · a_j` -/
def reexpand [Zero α] [One α] [Add α] [Mul α] [NatCast α] (N : Nat) (a : Nat → α) (b c : α) (i : Nat) : α :=
  sumTo (N - i) (fun k => ((choose (i + k) i : Nat) : α) * powN b (i + k - i) * powN c (i + k) * a (i + k))

/-- the code's transform arithmetic: `m = (b_orig − a_orig)/(tb − ta)`, `m_inv = 1/m`, shift `m·ta − a_orig` -/
def transformCoeffs (cs : List Rat) (ta tb a0 b0 : Rat) : List Rat :=
  let m := (b0 - a0) / (tb - ta)
  let minv := 1 / m
  (List.range cs.length).map (reexpand cs.length (fun j => cs.getD j 0) (m * ta - a0) minv)

/-- `Σ_j |term_ij|` (scale of the floating-point rounding of coefficient `i`) -/
def transformScale (cs : List Rat) (ta tb a0 b0 : Rat) : List Rat :=
  let m := (b0 - a0) / (tb - ta)
  let minv := 1 / m
  (List.range cs.length).map
    (reexpand cs.length (fun j => Opda.PolyQ.absQ (cs.getD j 0)) (Opda.PolyQ.absQ (m * ta - a0)) (Opda.PolyQ.absQ minv))

end Opda.Reexp

namespace Opda.Knots

variable {α : Type}

/-- inner loop of `piecewise_polynomial_knots`: bisection for the next knot.  `errOf c` stands for
`remez(f, knot_prev, c, n)[2]`; the result is the last midpoint tried (`knot_curr`), as in the code:
`if err >= err_target: knot_hi = knot_curr  elif err <= err_target: knot_lo = knot_curr`. -/
def knotSearch [LE α] [DecidableLE α] (mid : α → α → α) (errOf : α → α) (target : α) :
    Nat → α → α → α → α
  | 0, _, _, curr => curr
  | k+1, lo, hi, _ =>
    let c := mid lo hi
    if target ≤ errOf c then knotSearch mid errOf target k lo c c
    else knotSearch mid errOf target k c hi c

/-- number of inner bisection steps: `int(ceil(log(eps)/log(0.5)))` for `eps = 2^-52` (pinned) -/
def innerSteps : Nat := 52

/-- outer bookkeeping: `err_lo = max(err_min, err_lo)`, `err_hi = min(err_max, err_hi)` -/
def outerUpdate [LE α] [DecidableLE α] (lo hi emin emax : α) : α × α :=
  (if lo ≤ emin then emin else lo, if emax ≤ hi then emax else hi)

end Opda.Knots
