/-!
Executable model of `opda.nonparametric.EmpiricalDistribution` (core Lean only).
Values live in any type `E` with a decidable linear order, a least element `bot` (−∞) and a greatest
element `top` (+∞); weights in any type `α` with the field operations.
-/
namespace Opda.Emp

variable {E α : Type}

/-- insert an observation into a sorted list of merged atoms (the meaning of `np.unique` + `np.bincount`). -/
def insertAtom [LT E] [DecidableLT E] [DecidableEq E] [Add α] (v : E) (w : α) : List (E × α) → List (E × α)
  | [] => [(v, w)]
  | (u, x) :: rest =>
    if v < u then (v, w) :: (u, x) :: rest
    else if v = u then (u, x + w) :: rest
    else (u, x) :: insertAtom v w rest

def atoms [LT E] [DecidableLT E] [DecidableEq E] [Add α] (obs : List (E × α)) : List (E × α) :=
  obs.foldr (fun o acc => insertAtom o.1 o.2 acc) []

/-- support after padding with zero-weight atoms at −∞, a, b, +∞ (as `__init__` does). -/
def support [LT E] [DecidableLT E] [DecidableEq E] [Add α] [Zero α] (bot top a b : E) (obs : List (E × α)) :
    List (E × α) :=
  insertAtom bot 0 (insertAtom a 0 (insertAtom b 0 (insertAtom top 0 (atoms obs))))

def total [Add α] [Zero α] : List (E × α) → α
  | [] => 0
  | (_, x) :: rest => x + total rest

/-- running sums: `(value, Σ weights up to and including it)` — `np.cumsum`. -/
def cumAux [Add α] (acc : α) : List (E × α) → List (E × α)
  | [] => []
  | (u, x) :: rest => (u, acc + x) :: cumAux (acc + x) rest

def cum [Add α] [Zero α] (l : List (E × α)) : List (E × α) := cumAux 0 l

/-- `np.searchsorted(_, y, side="right")` on a sorted list. -/
def ssRight [LE E] [DecidableLE E] (y : E) : List (E × α) → Nat
  | [] => 0
  | (u, _) :: rest => if u ≤ y then 1 + ssRight y rest else 0

/-- `np.searchsorted(_, y, side="left")` on a sorted list. -/
def ssLeft [LT E] [DecidableLT E] (y : E) : List (E × α) → Nat
  | [] => 0
  | (u, _) :: rest => if u < y then 1 + ssLeft y rest else 0

/-- entry at index `k` -/
def nth? {β : Type} : Nat → List β → Option β
  | _, [] => none
  | 0, p :: _ => some p
  | k+1, _ :: rest => nth? k rest

def last? {β : Type} : List β → Option β
  | [] => none
  | [p] => some p
  | _ :: q :: rest => last? (q :: rest)

/-- Python indexing `arr[k - 1]` for `k ≥ 0`: index −1 wraps to the last element. -/
def pyIndexPred {β : Type} (k : Nat) (l : List β) : Option β :=
  match k with
  | 0 => last? l
  | k+1 => nth? k l

/-- normalised cumulative weights `_ws_cumsum = cumsum(_ws) / cumsum(_ws)[-1]`. -/
def cumN [Add α] [Zero α] [Div α] (supp : List (E × α)) : List (E × α) :=
  (cum supp).map (fun p => (p.1, p.2 / total supp))

/-- `cdf`: `_ws_cumsum[searchsorted(_ys, y, side="right") - 1]`. -/
def cdf [LE E] [DecidableLE E] [Add α] [Zero α] [Div α] (supp : List (E × α)) (y : E) : α :=
  match pyIndexPred (ssRight y supp) (cumN supp) with
  | some p => p.2
  | none => 0

/-- `pmf`: `where(_ys[i] == y, _ws[i], 0)` with `i = searchsorted(_ys, y, side="left")`;
`_ws` is the normalised pmf. -/
def pmf [LT E] [DecidableLT E] [DecidableEq E] [Add α] [Zero α] [Div α] (supp : List (E × α)) (y : E) : α :=
  match nth? (ssLeft y supp) supp with
  | some (u, x) => if u = y then x / total supp else 0
  | none => 0

/-- first atom whose normalised cumulative weight reaches `q` (`np.argmax(q <= cumsum)`). -/
def firstReach [LE α] [DecidableLE α] (q : α) : List (E × α) → Option E
  | [] => none
  | (u, c) :: rest => if q ≤ c then some u else firstReach q rest

/-- `ppf`: `maximum(_ys[argmax(q <= _ws_cumsum)], a)`; `argmax` of an all-False mask is 0. -/
def ppf [LT E] [DecidableLT E] [LE α] [DecidableLE α] [Add α] [Zero α] [Div α]
    (a : E) (supp : List (E × α)) (q : α) : E :=
  let raw := match firstReach q (cumN supp) with
    | some u => u
    | none => match supp with
      | [] => a
      | (u, _) :: _ => u
  if raw < a then a else raw

end Opda.Emp
