import OpdaModel.Emp
/-!
Model of the bucket construction in `QuadraticDistribution.fit` / `NoisyQuadraticDistribution.fit`
(`np.unique(np.round(points), return_counts=True)` followed by the three positional fix-ups
`ks = ks[1:]`, `ks[0] = n_lower`, `ks[-2] -= 1; ks[-1] = n_upper + 1`), and of the bucket counts the
docstring describes (`ksSpec`).  Values are already rounded (`np.round` is a parameter of the model: the
harness applies numpy's to the point list the model produces).

`Option`-valued functions return `none` exactly where Python raises `IndexError`.
-/
namespace Opda.Fit
open Opda.Emp
variable {E : Type}

/-- the point list handed to `np.unique`, each point with multiplicity 1:
`[edge_lo] ++ ([limit_lower] if n_lower > 0) ++ ys_observed ++ ([limit_upper] if n_upper > 0) ++ [edge_hi]` -/
def pointValues (edgeLo : E) (ll : Option E) (obs : List E) (lu : Option E) (edgeHi : E) : List E :=
  edgeLo :: (ll.toList ++ obs ++ lu.toList ++ [edgeHi])

def points (edgeLo : E) (ll : Option E) (obs : List E) (lu : Option E) (edgeHi : E) : List (E × Nat) :=
  (pointValues edgeLo ll obs lu edgeHi).map (fun v => (v, 1))

/-- `np.unique(..., return_counts=True)`: sorted distinct values with multiplicities -/
def uniqueCounts [LT E] [DecidableLT E] [DecidableEq E] (pts : List (E × Nat)) : List (E × Nat) := atoms pts

/-- `ks[0] = v`; `none` = `IndexError` on an empty array -/
def setHead? (v : Nat) : List Nat → Option (List Nat)
  | [] => none
  | _ :: rest => some (v :: rest)

/-- `ks[-2] -= 1; ks[-1] = v`; `none` = `IndexError` (fewer than two entries) -/
def fixTail? (v : Nat) : List Nat → Option (List Nat)
  | [] => none
  | [_] => none
  | [x, _] => some [x - 1, v]
  | x :: y :: z :: rest => (fixTail? v (y :: z :: rest)).map (x :: ·)

/-- the code: `ks = counts[1:]; if n_lower>0: ks[0]=n_lower; if n_upper>0: ks[-2]-=1; ks[-1]=n_upper+1`.
`ll`/`lu` are `some limit` exactly when `n_lower > 0` / `n_upper > 0`. -/
def ksModel? [LT E] [DecidableLT E] [DecidableEq E]
    (edgeLo : E) (ll : Option E) (obs : List E) (lu : Option E) (edgeHi : E) (nLower nUpper : Nat) :
    Option (List Nat) :=
  let counts := (uniqueCounts (points edgeLo ll obs lu edgeHi)).map Prod.snd
  let ks := counts.tail
  (if ll.isSome then setHead? nLower ks else some ks).bind fun ks =>
    if lu.isSome then fixTail? (nUpper + 1) ks else some ks

/-- the bucket edges `zs` -/
def zsModel [LT E] [DecidableLT E] [DecidableEq E]
    (edgeLo : E) (ll : Option E) (obs : List E) (lu : Option E) (edgeHi : E) : List E :=
  (uniqueCounts (points edgeLo ll obs lu edgeHi)).map Prod.fst

/-- multiplicity of `z` among a list of values -/
def mult [DecidableEq E] (z : E) (l : List E) : Nat := (l.filter (· = z)).length

/-- the documented count of the left-open bucket `(zPrev, z]`: the uncensored observations in it (they
all sit at its right end, because every observation is an edge), the left-censored observations if the
bucket ends at the lower limit, the right-censored ones if it starts at the upper limit, and the extra
count if it is the right-most bucket. -/
def specCount [DecidableEq E] (ll : Option E) (obs : List E) (lu : Option E) (edgeHi : E) (nLower nUpper : Nat)
    (zPrev z : E) : Nat :=
  mult z obs
    + (if ll = some z then nLower else 0)
    + (if lu = some zPrev then nUpper else 0)
    + (if z = edgeHi then 1 else 0)

/-- the documented bucket counts along a list of edges, all buckets left-open -/
def ksSpecOpen [DecidableEq E] (ll : Option E) (obs : List E) (lu : Option E) (edgeHi : E) (nLower nUpper : Nat) :
    List E → List Nat
  | [] => []
  | [_] => []
  | zPrev :: z :: rest =>
    specCount ll obs lu edgeHi nLower nUpper zPrev z :: ksSpecOpen ll obs lu edgeHi nLower nUpper (z :: rest)

/-- what the closed left-most bucket of the `o ≡ 0` case adds: the observations *equal to* the first
edge.  (Left-censored observations are `≤ limit_lower`; when the lower limit *is* the first edge they lie
where every candidate distribution has probability zero, so no bucket can take them: the documented
counts then sum to less than `n + 1` and the grouped likelihood is zero.) -/
def closedExtra [DecidableEq E] (obs : List E) (z0 : E) : Nat := mult z0 obs

def addHead (v : Nat) : List Nat → List Nat
  | [] => []
  | x :: rest => (x + v) :: rest

/-- the documented bucket counts (`closedLeft` = "the leftmost bucket must be closed") -/
def ksSpec [DecidableEq E] (closedLeft : Bool) (ll : Option E) (obs : List E) (lu : Option E) (edgeHi : E)
    (nLower nUpper : Nat) (zs : List E) : List Nat :=
  let open_ := ksSpecOpen ll obs lu edgeHi nLower nUpper zs
  match closedLeft, zs with
  | true, z0 :: _ => addHead (closedExtra obs z0) open_
  | _, _ => open_

def sumNat : List Nat → Nat
  | [] => 0
  | x :: rest => x + sumNat rest

/-- side condition (A) of C10-T1: the lower support edge lies strictly below every other point -/
def sideA [LT E] [DecidableLT E] (edgeLo : E) (ll : Option E) (obs : List E) (lu : Option E) (edgeHi : E) : Bool :=
  (ll.toList ++ obs ++ lu.toList ++ [edgeHi]).all fun p => decide (edgeLo < p)

/-- side condition (B) of C10-T1: with right-censored observations the upper limit lies strictly below the
upper support edge -/
def sideB [LT E] [DecidableLT E] (lu : Option E) (edgeHi : E) : Bool :=
  match lu with
  | none => true
  | some u => decide (u < edgeHi)

end Opda.Fit
