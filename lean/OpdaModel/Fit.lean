import OpdaModel.Emp
/-!
Model of the bucket construction in `QuadraticDistribution.fit` / `NoisyQuadraticDistribution.fit`
(`np.unique(np.round(points), return_counts=True)` followed by the three positional fix-ups).
Values are already rounded.
-/
namespace Opda.Fit
open Opda.Emp
variable {E : Type}

/-- the point list handed to `np.unique`, each point with multiplicity 1 -/
def points (edgeLo : E) (ll : Option E) (obs : List E) (lu : Option E) (edgeHi : E) : List (E × Nat) :=
  ((edgeLo :: (ll.toList ++ obs ++ lu.toList ++ [edgeHi]))).map (fun v => (v, 1))

/-- `np.unique(..., return_counts=True)`: sorted distinct values with multiplicities -/
def uniqueCounts [LT E] [DecidableLT E] [DecidableEq E] (pts : List (E × Nat)) : List (E × Nat) := atoms pts

def setHead (v : Nat) : List Nat → List Nat
  | [] => []            -- Python would raise IndexError
  | _ :: rest => v :: rest

/-- `ks[-2] -= 1; ks[-1] = v` on a list with at least two entries -/
def fixTail (v : Nat) : List Nat → List Nat
  | [] => []
  | [x] => [x]          -- Python would raise IndexError
  | [x, _] => [x - 1, v]
  | x :: y :: z :: rest => x :: fixTail v (y :: z :: rest)

/-- the code: `ks = counts[1:]; if n_lower>0: ks[0]=n_lower; if n_upper>0: ks[-2]-=1; ks[-1]=n_upper+1` -/
def ksModel [LT E] [DecidableLT E] [DecidableEq E]
    (edgeLo : E) (ll : Option E) (obs : List E) (lu : Option E) (edgeHi : E) (nLower nUpper : Nat) : List Nat :=
  let counts := (uniqueCounts (points edgeLo ll obs lu edgeHi)).map Prod.snd
  let ks := counts.tail
  let ks := if ll.isSome then setHead nLower ks else ks
  if lu.isSome then fixTail (nUpper + 1) ks else ks

def zsModel [LT E] [DecidableLT E] [DecidableEq E]
    (edgeLo : E) (ll : Option E) (obs : List E) (lu : Option E) (edgeHi : E) : List E :=
  (uniqueCounts (points edgeLo ll obs lu edgeHi)).map Prod.fst

/-- the documented count of the bucket `(zPrev, z]` -/
def specCount [DecidableEq E] (ll : Option E) (obs : List E) (lu : Option E) (edgeHi : E) (nLower nUpper : Nat)
    (zPrev z : E) : Nat :=
  (obs.filter (· = z)).length
    + (if ll = some z then nLower else 0)
    + (if lu = some zPrev then nUpper else 0)
    + (if z = edgeHi then 1 else 0)

/-- the documented bucket counts along a list of edges (open-left buckets; the closed left-most
bucket of the `o ≡ 0` case adds the observations equal to the first edge to the first bucket) -/
def ksSpec [DecidableEq E] (ll : Option E) (obs : List E) (lu : Option E) (edgeHi : E) (nLower nUpper : Nat) :
    List E → List Nat
  | [] => []
  | [_] => []
  | zPrev :: z :: rest =>
    specCount ll obs lu edgeHi nLower nUpper zPrev z :: ksSpec ll obs lu edgeHi nLower nUpper (z :: rest)

end Opda.Fit
