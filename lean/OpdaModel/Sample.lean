import OpdaModel.Num
import OpdaModel.Quadratic
import OpdaModel.Emp
/-!
Model of the three `sample` methods as functions of the generator's primitives (core Lean only).

* `QuadraticDistribution.sample`  = `ppf(generator.uniform(0, 1, size))`                         → `quadSample`
* `NoisyQuadraticDistribution.sample`: `qs = uniform(0, 1, size)`; `ys = a + (b-a)·qs^(2/c)` (convex) or
  `b − (b-a)·(1−qs)^(2/c)`; `ys += generator.normal(0, o, size)` (= `0 + o·z`, `z` standard normal)   → `noisySample`
* `EmpiricalDistribution.sample` = `generator.choice(ys, p=ws, size)`; numpy: with `p`,
  `cdf = p.cumsum(); cdf /= cdf[-1]; idx = cdf.searchsorted(generator.random(size), side="right")`; without,
  `idx = generator.integers(0, len(ys), size)`; result `ys[idx]`                                       → `pick`, `pickIndex`
-/
namespace Opda.Sample
open Opda.Num

variable {E α : Type}

/-- `ys[searchsorted(cumsum(ws)/total, u, side="right")]`: the first observation whose normalised
running weight exceeds `u` (`none` = index `len(ys)`, which numpy would reject; impossible for `u < 1`). -/
def pickAux [Add α] [Div α] [LT α] [DecidableLT α] (tot u : α) : α → List (E × α) → Option E
  | _, [] => none
  | acc, (y, w) :: rest => if u < (acc + w) / tot then some y else pickAux tot u (acc + w) rest

def pick [Add α] [Zero α] [Div α] [LT α] [DecidableLT α] (obs : List (E × α)) (u : α) : Option E :=
  pickAux (Opda.Emp.total obs) u 0 obs

/-- unweighted: `ys[i]` for the integer `i` the generator returns -/
def pickIndex (ys : List E) (i : Nat) : Option E := Opda.Emp.nth? i ys

/-- distance from `u` to the nearest normalised running weight (where a last-place difference in numpy's
float `cumsum` could move the index) -/
def pickMargin (obs : List (E × Rat)) (u : Rat) : Rat :=
  let tot := Opda.Emp.total obs
  let absR (q : Rat) : Rat := if q < 0 then -q else q
  (obs.foldl (fun (st : Rat × Rat) p =>
      let acc := st.1 + p.2
      let d := absR (u - acc / tot)
      (acc, if d < st.2 then d else st.2)) (0, 2)).2

variable [Num α]

/-- inverse-transform draw of the noiseless class -/
def quadSample (d : Opda.Quad.Params α) (u : α) : α := Opda.Quad.ppf d u

/-- the quadratic part of a noisy draw (the code does not clip `u`; `uniform` returns `u ∈ [0,1)`) -/
def noisyQuadPart (d : Opda.Quad.Params α) (u : α) : α :=
  if d.convex then d.a + (d.b - d.a) * Num.pow u (n 2 / n d.c)
  else d.b - (d.b - d.a) * Num.pow (n 1 - u) (n 2 / n d.c)

/-- noisy draw from a uniform `u` and a standard normal `z` -/
def noisySample (d : Opda.Quad.Params α) (o u z : α) : α := noisyQuadPart d u + (n 0 + o * z)

end Opda.Sample
