/-!
Model of the numerical integration in `NoisyQuadraticDistribution.average_tuning_curve`
(parametric.py, "composite trapezoid rule" loop), written once over any carrier `α` with `+ − × ÷ <`
and a numeral map `nat : Nat → α` (core Lean only).  It is run at `Float` by the driver (integrand
built from the noisy cdf model), at `Rat` by the `decide`d witness of C08-T5, and reasoned about at
`ℝ` (`OpdaProofs/QuadTrap.lean`: the state after `i` refinements *is* the composite trapezoid sum on
`2^i` panels).

    lo, hi = a - 6*o, b + 6*o ; atol = atol or 1e-6*(hi - lo) ; h = hi - lo
    ys = 0.5*h*sum(g([lo, hi]))                       g(x) = 1 - F(x)**n   resp.  (1 - F(x))**n  (minimize)
    for i in 1..30:  h *= 0.5 ; xs = lo + arange(1, 2**i, 2)*h ; ys_prev, ys = ys, 0.5*ys + h*sum(g(xs))
                     err = max|ys - ys_prev| / 3 ;  if i > 3 and err <= atol: break
    else: raise IntegrationError
    return lo + ys

This is the code after the two repairs of /repo (`fix:` commits 867c66b — the integrand used to be
`1[x>0] − F(x)**n` with `max(0., lo) + min(0., hi)` added, finding F4 — and fd4085d — the stop test
used to be the strict `err < atol`, finding F5).  The pre-repair integrand is kept as `gCur`/`valueCur`
("legacy") because `Props/C08.navg_fix_conservative` relates the two.

Constants pinned by hand: `0.5`, `/3`, `i > 3`, `≤`, 30 rounds, `1e-6`, `6`.
-/
namespace Opda.TrapLoop

section
variable {α : Type} [Add α] [Sub α] [Mul α] [Div α] [LT α] [DecidableLT α] [LE α] [DecidableLE α]

/-- `acc + Σ_{t<r} g (lo + (2(j+t)+1)·h)`, left to right -/
def oddSum (nat : Nat → α) (g : α → α) (lo h : α) : Nat → Nat → α → α
  | 0, _, acc => acc
  | r+1, j, acc => oddSum nat g lo h r (j+1) (acc + g (lo + nat (2*j+1) * h))

/-- `0.5 * h * np.sum(g([lo, hi]))` -/
def init (nat : Nat → α) (g : α → α) (lo hi : α) : α := nat 1 / nat 2 * (hi - lo) * (g lo + g hi)

/-- one refinement: `i ≥ 1` is the index of the new level, which adds `2^(i-1)` odd points; state `(h, T)` -/
def step (nat : Nat → α) (g : α → α) (lo : α) (i : Nat) (st : α × α) : α × α :=
  let h' := st.1 * (nat 1 / nat 2)
  (h', nat 1 / nat 2 * st.2 + h' * oddSum nat g lo h' (2^(i-1)) 0 (nat 0))

/-- `(h_i, T_i)`: the state after `i` refinements -/
def iter (nat : Nat → α) (g : α → α) (lo hi : α) : Nat → α × α
  | 0 => (hi - lo, init nat g lo hi)
  | i+1 => step nat g lo (i+1) (iter nat g lo hi i)

/-- `|x − y|` -/
def absd (x y : α) : α := if x < y then y - x else x - y

/-- maximum of a list of non-negative numbers -/
def maxL (nat : Nat → α) (l : List α) : α := l.foldl (fun m x => if m < x then x else m) (nat 0)

/-- the stop rule of the code: `i > 3 and err <= atol` -/
def stops (i : Nat) (err atol : α) : Bool := decide (3 < i) && decide (err ≤ atol)

/-- several integrands (one per `n` of an array `ns`) refined in lock step, stopping on the maximum of
their error estimates.  Returns `(i, values T_i, error estimates of rounds 1..i)` or `none` when the
round budget is exhausted (`IntegrationError`). -/
def runFrom (nat : Nat → α) (gs : List (α → α)) (lo atol : α) :
    Nat → Nat → List (α × α) → List α → Option (Nat × List α × List α)
  | 0, _, _, _ => none
  | fuel+1, i, sts, errs =>
    let sts' := List.zipWith (fun g st => step nat g lo i st) gs sts
    let err := maxL nat (List.zipWith (fun s s' => absd s'.2 s.2) sts sts') / nat 3
    if stops i err atol then some (i, sts'.map (·.2), (err :: errs).reverse)
    else runFrom nat gs lo atol fuel (i+1) sts' (err :: errs)

/-- the loop with a budget of `rounds` refinements (the code's budget is 30) -/
def runCapped (nat : Nat → α) (gs : List (α → α)) (lo hi atol : α) (rounds : Nat) : Option (Nat × List α × List α) :=
  runFrom nat gs lo atol rounds 1 (gs.map fun g => (hi - lo, init nat g lo hi)) []

def run (nat : Nat → α) (gs : List (α → α)) (lo hi atol : α) : Option (Nat × List α × List α) :=
  runCapped nat gs lo hi atol 30

/-- `1[x > 0]` -/
def ind (nat : Nat → α) (x : α) : α := if nat 0 < x then nat 1 else nat 0

/-- LEGACY (before 867c66b): `1[x>0] − F(x)^n` (maximise) / `1[x>0] − (1 − (1−F(x))^n)` (minimise) -/
def gCur (nat : Nat → α) (pw : α → α → α) (F : α → α) (minimize : Bool) (nn : α) (x : α) : α :=
  if minimize then ind nat x - (nat 1 - pw (nat 1 - F x) nn) else ind nat x - pw (F x) nn

/-- `max(0., lo) + min(0., hi)` -/
def tail (nat : Nat → α) (lo hi : α) : α :=
  (if nat 0 < lo then lo else nat 0) + (if hi < nat 0 then hi else nat 0)

/-- LEGACY: value the code returned (before 867c66b) when it stopped after `i` refinements -/
def valueCur (nat : Nat → α) (pw : α → α → α) (F : α → α) (minimize : Bool) (nn lo hi : α) (i : Nat) : α :=
  tail nat lo hi + (iter nat (gCur nat pw F minimize nn) lo hi i).2

/-- **the integrand of the code**: `1 − F(x)^n` (maximise) / `(1 − F(x))^n` (minimise), so that
`E = lo + ∫_lo^hi (1 − F^n)` resp. `lo + ∫_lo^hi (1−F)^n` -/
def gRep (nat : Nat → α) (pw : α → α → α) (F : α → α) (minimize : Bool) (nn : α) (x : α) : α :=
  if minimize then pw (nat 1 - F x) nn else nat 1 - pw (F x) nn

/-- value the code returns when it stops after `i` refinements: `lo + ys` -/
def valueRep (nat : Nat → α) (pw : α → α → α) (F : α → α) (minimize : Bool) (nn lo hi : α) (i : Nat) : α :=
  lo + (iter nat (gRep nat pw F minimize nn) lo hi i).2

end
end Opda.TrapLoop
