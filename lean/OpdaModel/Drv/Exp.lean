import OpdaModel.Wire
import OpdaModel.FloatInst
import OpdaModel.Experiments
/-!
Line-protocol handlers for the experiment helpers (`experiments.analytic`, `experiments.simulation`).

`Float` reading of the polymorphic model `Opda.Exp` (values are evaluated at the plain instance and at five
jittered ones, `value spread` pairs as in `Drv/Quad.lean`), exact `Ext` reading of the bookkeeping:

    exp.ellipse  ndim  n c₁ … cₙ                         → ValueError | v s
    exp.bounds   k s₁ … s_k  finite                      → ok | ValueError        (shape, all-finite flag)
    exp.params   yMax  n λ₁ … λₙ  m lo₁ hi₁ … lo_m hi_m   → a s  b  c
    exp.tail     yMax  n λ…  m lo hi …  k y₁ … y_k        → t₁ s₁ … t_k s_k       (1 − cdf_concave(y) of the returned parameters)
    exp.sim      nTrials nSamples  N v₁ … v_N            → nSamples ns…  nSamples ys…  nTrials·nSamples cummax…   (exact)
-/
namespace Opda.Drv.Exp
open Opda.Wire Opda.Exp Opda.Num

def sqrtPiF : Float := 1.7724538509055159

/-- `∏_{j<m} (start + j)` -/
def risingF (start : Float) : Nat → Float → Float
  | 0, acc => acc
  | m+1, acc => risingF (start + 1.0) m (acc * start)

/-- `Γ(x)` in `Float`: exact recursion `Γ(x+1) = xΓ(x)` from `Γ(1) = 1`, `Γ(½) = √π` when `2x` is a positive
integer (the only arguments `ellipse_volume` produces), `exp(logΓ)` otherwise -/
def gammaF (x : Float) : Float :=
  let t := 2.0 * x
  if t == t.floor && t ≥ 1.0 && t ≤ 340.0 then
    let k := t.toUInt64.toNat
    if k % 2 == 0 then risingF 1.0 (k / 2 - 1) 1.0 else risingF 0.5 (k / 2) sqrtPiF
  else Float.exp (Opda.Special.logGammaF x)

instance : Consts Float where
  pi := 3.141592653589793
  gamma := gammaF

@[instance_reducible] def jitterConsts (seed ulps : Nat) : Consts Float where
  pi := 3.141592653589793
  gamma := fun x => nudgeF seed ulps (gammaF x)

/-- evaluate `f` at the plain instances and at five jittered ones; `(value, spread)` -/
def withSpread (f : Num Float → Consts Float → Float) : Float × Float :=
  let v := f inferInstance inferInstance
  let vs := [v, f (jitterNum 0 8) (jitterConsts 0 8), f (jitterNum 1 8) (jitterConsts 1 8),
    f (jitterNum 2 8) (jitterConsts 2 8), f (jitterNum 3 8) (jitterConsts 3 8), f (jitterNum 4 8) (jitterConsts 4 8)]
  let fin := vs.filter fun x => !x.isNaN
  if fin.length < vs.length then (v, if v.isNaN then 0.0 else 0.0 / 0.0)
  else
    let mx := fin.foldl (fun m x => if x > m then x else m) v
    let mn := fin.foldl (fun m x => if x < m then x else m) v
    (v, if mx == mn then 0.0 else mx - mn)

def showPair (p : Float × Float) : String := s!"{hexOfFloat p.1} {hexOfFloat p.2}"

def pairs : List Float → Option (List (Float × Float))
  | [] => some []
  | lo :: hi :: rest => (pairs rest).map fun ps => (lo, hi) :: ps
  | _ => none

/-- `m lo₁ hi₁ … lo_m hi_m rest…` -/
def takeBounds (args : List String) : Option (List (Float × Float) × List String) :=
  match args with
  | [] => none
  | m :: rest => do
    let m ← m.toNat?
    if rest.length < 2 * m then none
    else
      let fs ← (rest.take (2 * m)).mapM parseFloat?
      let ps ← pairs fs
      some (ps, rest.drop (2 * m))

/-- the maximum of two extended rationals, as the executable computes it -/
def extMax (x y : Ext) : Ext := if x ≤ y then y else x

def chunks {β : Type} (k : Nat) : Nat → List β → List (List β)
  | 0, _ => []
  | r+1, xs => xs.take k :: chunks k r (xs.drop k)

def handle (fn : String) (args : List String) : Option String := do
  match fn with
  | "ellipse" =>
    match args with
    | ndim :: rest =>
      let ndim ← ndim.toNat?
      let (cs, _) ← takeList parseFloat? rest
      match ellipseVolumeChecked (α := Float) ndim cs with
      | .valueError => some "ValueError"
      | .value _ => some (showPair (withSpread fun i c => @ellipseVolume Float i c cs))
    | _ => none
  | "bounds" =>
    let (shape, rest) ← takeList String.toNat? args
    match rest with
    | [fin] =>
      let fin ← (match fin with | "0" => some false | "1" => some true | _ => none)
      some (if boundsValid shape fin then "ok" else "ValueError")
    | _ => none
  | "params" =>
    match args with
    | y :: rest =>
      let yMax ← parseFloat? y
      let (eigs, rest) ← takeList parseFloat? rest
      let (bounds, _) ← takeBounds rest
      let a := withSpread fun i c => (@approxParams Float i c yMax eigs bounds).1
      let p := approxParams yMax eigs bounds
      some s!"{showPair a} {hexOfFloat p.2.1} {p.2.2}"
    | _ => none
  | "tail" =>
    match args with
    | y :: rest =>
      let yMax ← parseFloat? y
      let (eigs, rest) ← takeList parseFloat? rest
      let (bounds, rest) ← takeBounds rest
      let (ys, _) ← takeList parseFloat? rest
      some (joinWith " " (ys.map fun y => showPair (withSpread fun i c =>
        @HSub.hSub Float Float Float _ 1.0 (@Quad.cdf Float i (@approxDist Float i c yMax eigs bounds) y))))
    | _ => none
  | "sim" =>
    match args with
    | nt :: ns :: rest =>
      let nt ← nt.toNat?
      let ns ← ns.toNat?
      let (vals, _) ← takeList parseExt? rest
      if vals.length ≠ nt * ns then none
      else
        let yss := chunks ns nt vals
        let (nsl, ys, cm) := simBook ns extMax yss
        let flat := cm.foldr (· ++ ·) []
        some (joinWith " " ([toString nsl.length] ++ nsl.map toString ++ [toString ys.length] ++ ys.map toString
          ++ [toString flat.length] ++ flat.map toString))
    | _ => none
  | _ => none

end Opda.Drv.Exp
