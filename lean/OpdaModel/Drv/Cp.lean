import OpdaModel.Wire
import OpdaModel.BetaBinom
/-! Line-protocol handlers for the Clopper–Pearson table checker (exact ℚ). -/
namespace Opda.Drv.Cp
open Opda.Wire Opda.BetaBinom

/-- `⌊q·10^40⌋` printed as an integer (exact values have tens of thousands of digits) -/
def grid (q : Rat) : String := toString (q * ((10 : Rat) ^ (40 : Nat))).floor

def parseTol (num den : String) : Option Rat := do
  let n ← num.toNat?
  let d ← den.toNat?
  if d = 0 then none else some ((n : Rat) / (d : Rat))

def handle (fn : String) (args : List String) : Option String := do
  match fn, args with
  | "check", n :: conf :: dnum :: dden :: rest =>
    -- `n conf δnum δden (n+1) lo… (n+1) hi…` → `ok? worstExcess·10^40 index in01lo in01hi monolo monohi lo0 hin`
    let n ← n.toNat?
    let conf ← parseRat? conf
    let δ ← parseTol dnum dden
    let (lo, rest) ← takeList parseRat? rest
    let (hi, _) ← takeList parseRat? rest
    if lo.length ≠ n + 1 ∨ hi.length ≠ n + 1 then none
    else
      let α := 1 - conf
      let ok := cpCheck n lo hi α δ
      let (w, idx) := cpWorst n lo hi α
      let b := fun (x : Bool) => if x then "1" else "0"
      some s!"{b ok} {grid w} {idx} {b (in01UpTo n lo)} {b (in01UpTo n hi)} {b (monoUpTo n lo)} {b (monoUpTo n hi)} {b (decide (lo.getD 0 0 ≤ 0))} {b (decide (1 ≤ hi.getD n 0))}"
  | "coverage", n :: rest =>
    -- `n (n+1) lo… (n+1) hi… m p…` → exact coverage at each `p` (floor to the 10^-40 grid)
    let n ← n.toNat?
    let (lo, rest) ← takeList parseRat? rest
    let (hi, rest) ← takeList parseRat? rest
    let (ps, _) ← takeList parseRat? rest
    if lo.length ≠ n + 1 ∨ hi.length ≠ n + 1 ∨ ps.any (fun p => p < 0 ∨ 1 < p) then none
    else some (joinWith " " (ps.map fun p => grid (coverageAt n lo hi p)))
  | "tail", [n, k, p] =>
    let n ← n.toNat?
    let k ← k.toNat?
    let p ← parseRat? p
    if p < 0 ∨ 1 < p then none else some (ratStr (tailQ n k p))
  | _, _ => none

end Opda.Drv.Cp
