import OpdaModel.Wire
import OpdaModel.BetaBinom
import OpdaModel.Drv.Cp
/-! Line-protocol handlers for the Beta(a,b) helpers with integer parameters (exact ℚ). -/
namespace Opda.Drv.Beta
open Opda.Wire Opda.BetaBinom Opda.Drv.Cp

def gridCeil (q : Rat) : String := toString (q * ((10 : Rat) ^ (40 : Nat))).ceil

def bstr (x : Bool) : String := if x then "1" else "0"

def in01 (x : Rat) : Bool := decide (0 ≤ x) && decide (x ≤ 1)

def handle (fn : String) (args : List String) : Option String := do
  match fn, args with
  | "cdf", a :: b :: rest =>
    -- `a b m x…` → `⌊G(x)·10^40⌋ …`
    let a ← a.toNat?
    let b ← b.toNat?
    let (xs, _) ← takeList parseRat? rest
    if a = 0 ∨ b = 0 ∨ xs.any (fun x => !in01 x) then none
    else some (joinWith " " (xs.map fun x => grid (betaCdf a b x)))
  | "etcov", a :: b :: rest =>
    -- exact `2|½ − G(x)|`
    let a ← a.toNat?
    let b ← b.toNat?
    let (xs, _) ← takeList parseRat? rest
    if a = 0 ∨ b = 0 ∨ xs.any (fun x => !in01 x) then none
    else some (joinWith " " (xs.map fun x => grid (2 * absQ (1/2 - betaCdf a b x))))
  | "check_et", [a, b, c, x, y, tn, td] =>
    -- → `ok? (mass−c)·10^40 (G(x) − (1−G(y)))·10^40`
    let a ← a.toNat?
    let b ← b.toNat?
    let c ← parseRat? c
    let x ← parseRat? x
    let y ← parseRat? y
    let tol ← parseTol tn td
    if a = 0 ∨ b = 0 ∨ !in01 x ∨ !in01 y then none
    else
      let gx := betaCdf a b x
      let gy := betaCdf a b y
      some s!"{bstr (etCheck a b c x y tol)} {grid (gy - gx - c)} {grid (gx - (1 - gy))}"
  | "check_hdi", [a, b, c, x, y, tn, td, on, od, sn, sd, wn, wd] =>
    -- → `massok? certok? (mass−c)·10^40 ((x₂−x)+(y−y₂))·10^40 mass·10^40`
    let a ← a.toNat?
    let b ← b.toNat?
    let c ← parseRat? c
    let x ← parseRat? x
    let y ← parseRat? y
    let tol ← parseTol tn td
    let otol ← parseTol on od
    let slack ← parseTol sn sd
    let w0 ← parseTol wn wd
    if a = 0 ∨ b = 0 ∨ a + b ≤ 2 ∨ !in01 x ∨ !in01 y then none
    else
      let gx := betaCdf a b x
      let gy := betaCdf a b y
      some s!"{bstr (hdiMassCheck a b c x y tol otol)} {bstr (hdiCheck a b x y slack w0)} {grid (gy - gx - c)} {grid (gy - gx)}"
  | "check_hdi_cert", [a, b, x, y, x1, x2, y2, y1, s, sn, sd] =>
    -- externally proposed certificate with level `t = f(s)` → `certok? witness? (bound − (y−x))·10^40`
    let a ← a.toNat?
    let b ← b.toNat?
    let x ← parseRat? x
    let y ← parseRat? y
    let x1 ← parseRat? x1
    let x2 ← parseRat? x2
    let y2 ← parseRat? y2
    let y1 ← parseRat? y1
    let s ← parseRat? s
    let t := dens a b s
    let slack ← parseTol sn sd
    if a = 0 ∨ b = 0 ∨ a + b ≤ 2 ∨ !in01 x ∨ !in01 y ∨ !in01 x1 ∨ !in01 x2 ∨ !in01 y1 ∨ !in01 y2 ∨ !in01 s ∨ t ≤ 0 then none
    else
      some s!"{bstr (hdiCertOK a b x y x1 x2 y2 y1 t slack)} {bstr (hdiWitness a b x y x1 y1 slack)} {grid (hdiBound a b x y x1 x2 y2 y1 t)}"
  | "witness", [a, b, x, y, u, v, sn, sd] =>
    let a ← a.toNat?
    let b ← b.toNat?
    let x ← parseRat? x
    let y ← parseRat? y
    let u ← parseRat? u
    let v ← parseRat? v
    let slack ← parseTol sn sd
    if a = 0 ∨ b = 0 ∨ !in01 x ∨ !in01 y ∨ !in01 u ∨ !in01 v then none
    else some (bstr (hdiWitness a b x y u v slack))
  | "hdcov", a :: b :: steps :: rest =>
    -- bracket of the exact coverage of the smallest highest-density interval containing `x`
    let a ← a.toNat?
    let b ← b.toNat?
    let steps ← steps.toNat?
    let (xs, _) ← takeList parseRat? rest
    if a = 0 ∨ b = 0 ∨ a + b ≤ 2 ∨ xs.any (fun x => !in01 x) then none
    else some (joinWith " " (xs.map fun x =>
      let (l, h) := hdCoverageBracket a b x steps
      s!"{grid l} {gridCeil h}"))
  | "mass", [a, b, x, y] =>
    -- exact `G(y) − G(x)` (floor)
    let a ← a.toNat?
    let b ← b.toNat?
    let x ← parseRat? x
    let y ← parseRat? y
    if a = 0 ∨ b = 0 ∨ !in01 x ∨ !in01 y then none
    else some (grid (betaCdf a b y - betaCdf a b x))
  | _, _ => none

end Opda.Drv.Beta
