import OpdaModel.Wire
import OpdaModel.NoisyFloat
/-!
Line-protocol handlers for `NoisyQuadraticDistribution` (the `Float` instance of the polymorphic model
`Opda.Noisy`).  Every value is evaluated once with the plain elementary functions and eight more times
with each transcendental result nudged by a pseudo-random ±8 ulps (eight jitter seeds since the max of few draws
is occasionally small by chance); the reply carries the plain value
and the observed spread, from which the harness derives its comparison allowance (DESIGN §1.2).

    noisy.cdf a b c o cv n y₁ … yₙ   →  v₁ s₁ … vₙ sₙ          (value, jitter spread)
    noisy.pdf a b c o cv n y₁ … yₙ   →  v₁ s₁ … vₙ sₙ
    noisy.ppf a b c o cv n q₁ … qₙ   →  v₁ m₁ k₁ … vₙ mₙ kₙ    (value, tie margin, first step whose
                                         decision is within the jitter allowance of a tie, 30 = none)
    noisy.pm  loc scale m2           →  v s                     (diagnostic: the private partial moment)
-/
namespace Opda.Drv.Noisy
open Opda.Wire Opda.NoisyF

def jits : List Fns := [jitter 1 8, jitter 2 8, jitter 3 8, jitter 4 8, jitter 5 8, jitter 6 8, jitter 7 8, jitter 8 8]

/-- plain value and the largest deviation among the jittered evaluations -/
def withSpread (f : Fns → Float) : Float × Float :=
  let v := f plain
  let s := jits.foldl (fun acc J =>
    let w := f J
    let dlt := if w == v then 0.0 else (w - v).abs   -- `inf − inf` must not poison the spread
    if dlt.isNaN then (1.0 / 0.0) else max acc dlt) 0.0
  (v, s)

def parseParams (args : List String) : Option (Params × List String) :=
  match args with
  | a :: b :: c :: o :: cv :: rest => do
    let a ← parseFloat? a
    let b ← parseFloat? b
    let c ← c.toNat?
    let o ← parseFloat? o
    if c < 1 || c > 10 then none
    else if !(cv == "0" || cv == "1") then none
    else if a.isNaN || a.isInf || b.isNaN || b.isInf || o.isNaN || o.isInf || o < 0.0 || a > b then none
    else some ({ a, b, c, o, convex := cv == "1" }, rest)
  | _ => none

/-- walk the 30 bisection steps of the plain model and report how close each decision `cdf(mid) < q`
is to flipping under the jitter allowance `1e-15 + 16·spread`: (smallest margin, first flagged step) -/
def ppfMargin (d : Params) (q0 : Float) : Float × Nat :=
  let q := Opda.Noisy.clip q0 0.0 1.0
  if Opda.Noisy.pointMass plain d || !(Opda.Noisy.regime plain d == .nothing) then (1.0, 30) else Id.run do
    let mut lo := d.a - 6.0 * d.o
    let mut hi := d.b + 6.0 * d.o
    let mut margin := 1.0
    let mut first := 30
    for k in [0:30] do
      let y := (lo + hi) / 2.0
      let (cy, s) := withSpread fun F => cdf F d y
      let m := (cy - q).abs - (1e-15 + 16.0 * s)
      if m < margin then margin := m
      if m <= 0.0 && first == 30 then first := k
      if cy < q then lo := y else hi := y
    return (margin, first)

def handle (fn : String) (args : List String) : Option String := do
  match fn with
  | "pm" =>
    match args with
    | [loc, scale, m2] =>
      let loc ← parseFloat? loc
      let scale ← parseFloat? scale
      let m2 ← m2.toInt?
      if m2 < -1 then none else
      let (v, s) := withSpread fun F => partialMoment F loc scale m2
      some s!"{hexOfFloat v} {hexOfFloat s}"
    | _ => none
  | _ =>
    let (d, rest) ← parseParams args
    let (xs, rest) ← takeList parseFloat? rest
    if !rest.isEmpty then none else
    match fn with
    | "cdf" =>
      some (joinWith " " (xs.map fun y =>
        let (v, s) := withSpread fun F => cdf F d y
        s!"{hexOfFloat v} {hexOfFloat s}"))
    | "pdf" =>
      some (joinWith " " (xs.map fun y =>
        let (v, s) := withSpread fun F => pdf F d y
        s!"{hexOfFloat v} {hexOfFloat s}"))
    | "ppf" =>
      if xs.any fun q => q.isNaN || q < -1e-10 || q > 1.0 + 1e-10 then none else
      some (joinWith " " (xs.map fun q =>
        let v := Opda.Noisy.ppf plain d q
        let (m, k) := ppfMargin d q
        s!"{hexOfFloat v} {hexOfFloat m} {k}"))
    | _ => none

end Opda.Drv.Noisy
