import OpdaModel.Wire
import OpdaModel.Lagrange
import OpdaModel.Approx
/-! Line-protocol handlers for `opda.approximation` (exact arithmetic in `Rat`).

Numbers cross either as the 16 hex digits of a double (read as the exact rational) or as a decimal
fraction `num/den` (enclosures and bounds computed by the harness). -/
namespace Opda.Drv.Approx
open Opda.Wire Opda.Lagr

def parseFrac? (s : String) : Option Rat :=
  match s.splitOn "/" with
  | [n, d] =>
    match n.toInt?, d.toNat? with
    | some n, some d => if d = 0 then none else some ((n : Rat) / (d : Rat))
    | _, _ => none
  | _ => none

/-- a double (hex) or a fraction -/
def parseQ? (s : String) : Option Rat :=
  if s.contains '/' then parseFrac? s else parseRat? s

def acc (l : List Rat) : Nat → Rat :=
  let a := l.toArray
  fun i => a.getD i 0

def rats (l : List Rat) : String := joinWith " " (l.map ratStr)

def b01 (b : Bool) : String := if b then "1" else "0"

/-- `atol=None` is `256 * np.spacing(1.)` (pinned) -/
def defaultAtol : Rat := 256 / (2 : Rat) ^ (52 : Nat)

def parseAtol? (s : String) : Option Rat := if s == "-" then some defaultAtol else parseQ? s

def handle (fn : String) (args : List String) : Option String := do
  match fn with
  | "lagr" =>
    -- xs ys qs  →  per query: eval lsum labs
    let (xs, rest) ← takeList parseQ? args
    let (ys, rest) ← takeList parseQ? rest
    let (qs, _) ← takeList parseQ? rest
    let n := xs.length
    if n = 0 || ys.length ≠ n then none
    else
      let v := acc xs
      let r := acc ys
      if !(distinct n v) then none
      else some (joinWith " " (qs.map fun x =>
        s!"{ratStr (Lagr.eval n v r x)} {ratStr (lsum n v r x)} {ratStr (labs Opda.PolyQ.absQ n v r x)}"))
  | "alt" =>
    -- n a b rs pv flo fhi err atol → verdict sgn e P(r_0) … P(r_{n+1})
    match args with
    | ns :: a :: b :: rest =>
      let n ← ns.toNat?
      let a ← parseQ? a
      let b ← parseQ? b
      let (rs, rest) ← takeList parseQ? rest
      let (pv, rest) ← takeList parseQ? rest
      let (flo, rest) ← takeList parseQ? rest
      let (fhi, rest) ← takeList parseQ? rest
      match rest with
      | [err, atol] =>
        let err ← parseQ? err
        let atol ← parseAtol? atol
        let e := Opda.Remez.threshold err atol
        let okT := Opda.Remez.checkAlt n a b rs pv flo fhi e true
        let okF := Opda.Remez.checkAlt n a b rs pv flo fhi e false
        let ps := (List.range (n+2)).map fun i =>
          Lagr.eval (n+1) (Opda.Remez.getR rs) (Opda.Remez.getR pv) (Opda.Remez.getR rs i)
        some s!"{b01 (okT || okF)} {if okT then "+" else if okF then "-" else "0"} {ratStr e} {rats ps}"
      | _ => none
    | _ => none
  | "altlev" =>
    -- n a b rs ym flo fhi err atol → verdict sgn e h   (polynomial = exact levelled interpolant of (rs, ym))
    match args with
    | ns :: a :: b :: rest =>
      let n ← ns.toNat?
      let a ← parseQ? a
      let b ← parseQ? b
      let (rs, rest) ← takeList parseQ? rest
      let (ym, rest) ← takeList parseQ? rest
      let (flo, rest) ← takeList parseQ? rest
      let (fhi, rest) ← takeList parseQ? rest
      match rest with
      | [err, atol] =>
        let err ← parseQ? err
        let atol ← parseAtol? atol
        if rs.length ≠ n+2 || ym.length ≠ n+2 || !(distinct (n+2) (acc rs)) then none
        else
          let e := Opda.Remez.threshold err atol
          let okT := Opda.Remez.checkAltLevel n a b rs ym flo fhi e true
          let okF := Opda.Remez.checkAltLevel n a b rs ym flo fhi e false
          let h := Opda.Remez.levelH n (Opda.Remez.getR rs) (Opda.Remez.getR ym)
          some s!"{b01 (okT || okF)} {if okT then "+" else if okF then "-" else "0"} {ratStr e} {ratStr h}"
      | _ => none
    | _ => none
  | "coeffs" =>
    -- xs ys → interpOK c_0 … c_{n-1}
    let (xs, rest) ← takeList parseQ? args
    let (ys, _) ← takeList parseQ? rest
    let n := xs.length
    if n = 0 || ys.length ≠ n then none
    else
      let cs := Opda.PolyQ.coeffs n (acc xs) (acc ys)
      some s!"{b01 (Opda.PolyQ.interpOK cs n (acc xs) (acc ys))} {rats cs}"
  | "cpoly" =>
    -- xs ys cf a b B depth prec → certPoly
    let (xs, rest) ← takeList parseQ? args
    let (ys, rest) ← takeList parseQ? rest
    let (cf, rest) ← takeList parseQ? rest
    match rest with
    | [a, b, B, depth, prec] =>
      let a ← parseQ? a
      let b ← parseQ? b
      let B ← parseQ? B
      let depth ← depth.toNat?
      let prec ← prec.toNat?
      let n := xs.length
      if n = 0 || ys.length ≠ n || !(distinct n (acc xs)) then none
      else some (b01 (Opda.PolyQ.certPoly n (acc xs) (acc ys) cf B a b depth prec))
    | _ => none
  | "chalf" =>
    -- xs ys m2 a b B tl th depth prec → certHalf
    let (xs, rest) ← takeList parseQ? args
    let (ys, rest) ← takeList parseQ? rest
    match rest with
    | [m2, a, b, B, tl, th, depth, prec] =>
      let m2 ← m2.toNat?
      let a ← parseQ? a
      let b ← parseQ? b
      let B ← parseQ? B
      let tl ← parseQ? tl
      let th ← parseQ? th
      let depth ← depth.toNat?
      let prec ← prec.toNat?
      let n := xs.length
      if n = 0 || ys.length ≠ n || !(distinct n (acc xs)) then none
      else some (b01 (Opda.PolyQ.certHalf n (acc xs) (acc ys) m2 B a b tl th depth prec))
    | _ => none
  | "reexp" =>
    -- cs ta tb a0 b0 → a'_i …  then scales
    let (cs, rest) ← takeList parseQ? args
    match rest with
    | [ta, tb, a0, b0] =>
      let ta ← parseQ? ta
      let tb ← parseQ? tb
      let a0 ← parseQ? a0
      let b0 ← parseQ? b0
      if ta ≥ tb || a0 ≥ b0 then none
      else some s!"{rats (Opda.Reexp.transformCoeffs cs ta tb a0 b0)} {rats (Opda.Reexp.transformScale cs ta tb a0 b0)}"
    | _ => none
  | "level" =>
    -- n rs ys → h  L0 L1  (L0 = Σ|y_j l_j(r_{n+1})|, L1 = Σ|l_j(r_{n+1})| on the first n+1 points)
    match args with
    | ns :: rest =>
      let n ← ns.toNat?
      let (rs, rest) ← takeList parseQ? rest
      let (ys, _) ← takeList parseQ? rest
      if rs.length ≠ n+2 || ys.length ≠ n+2 || !(distinct (n+2) (acc rs)) then none
      else
        let v := acc rs
        let y := acc ys
        let den := Lagr.eval (n+1) v (Opda.Remez.altSign) (v (n+1)) + Opda.Remez.altSign n
        if den = 0 then none
        else
          let h := Opda.Remez.levelH n v y
          let l0 := labs Opda.PolyQ.absQ (n+1) v y (v (n+1))
          let l1 := labs Opda.PolyQ.absQ (n+1) v (fun _ => 1) (v (n+1))
          some s!"{ratStr h} {ratStr l0} {ratStr l1}"
    | _ => none
  | _ => none

end Opda.Drv.Approx
