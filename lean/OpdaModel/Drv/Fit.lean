import OpdaModel.Wire
import OpdaModel.Fit
import OpdaModel.FitPlan
/-!
Line-protocol handlers for the `fit` bookkeeping model.

* `fit.plan`     censoring, ranks, pre-loop checks, per-`convex` search box / support edges, population size
                 (number type `Float`: the box arithmetic is the code's IEEE arithmetic)
* `fit.buckets`  `np.unique` + the three fix-ups, the documented counts, side conditions A/B
                 (value type `Ext`: exact comparisons of the rounded points)
* `fit.loss`     the loss as a function of `(n, ks, cdf values)` (`Float`, `Float.log`)
* `fit.select`   loop outcome: first exception, else best-of with strict `<`, read back through `unpack`
* `fit.pack`     coordinate order of a candidate
* `fit.validate` exception class of the argument-validation prefix
-/
namespace Opda.Drv.Fit
open Opda.Wire Opda.Fit

def fZero : Float := 0.0
def fNegInf : Float := -(1.0 / 0.0)
def fPosInf : Float := 1.0 / 0.0

def isIntF (x : Float) : Bool := x.isFinite && x.floor == x

/-- `y_max - y_min` in the dtype numpy computes it in.  Since the repair `b86de3b` (`y_min`, `y_max` are
`np.float64` before anything reads them) that is float64 for every sample dtype; before it, for an
uncensored float32 sample, both were float32 scalars and the difference (and the validation of the
constraints against them) was computed in float32.  The `f32` flag stays in the protocol (the decimals of
the bucket rounding still depend on the sample's dtype, on the harness side). -/
def rangeF (_f32 : Bool) (_c : Censored Float) (st : Stats Float) : Float :=
  st.yMax - st.yMin

def parseBool? : String → Option Bool
  | "0" => some false
  | "1" => some true
  | _ => none

def parseCls? : String → Option Cls
  | "q" => some .quad
  | "n" => some .noisy
  | _ => none

def parseConsF (args : List String) : Option (Cons Float × List String) :=
  match args with
  | "-" :: rest => some (.absent, rest)
  | "f" :: v :: rest => (parseFloat? v).map fun x => (.fixed x, rest)
  | "i" :: l :: h :: rest => do
    let l ← parseFloat? l
    let h ← parseFloat? h
    some (.interval l h, rest)
  | _ => none

/-- the `c` constraint; the flag records float-typed interval end points -/
def parseConsC (args : List String) : Option (Cons Int × Bool × List String) :=
  match args with
  | "-" :: rest => some (.absent, false, rest)
  | "f" :: v :: rest => v.toInt?.map fun x => (.fixed x, false, rest)
  | "i" :: l :: h :: rest => do
    let l ← l.toInt?
    let h ← h.toInt?
    some (.interval l h, false, rest)
  | "x" :: l :: h :: lf :: hf :: rest => do
    let l ← l.toInt?
    let h ← h.toInt?
    let lf ← parseBool? lf
    let hf ← parseBool? hf
    some (.interval l h, cRangeFails lf hf l h, rest)
  | _ => none

def excStr : Exc → String
  | .valueError => "ValueError"
  | .typeError => "TypeError"
  | .optimizationError => "OptimizationError"
  | .indexError => "IndexError"
  | .scipyValueError => "ScipyValueError"
  | .rangeTypeError => "RangeTypeError"

def parseExc? : String → Option Exc
  | "ValueError" => some .valueError
  | "TypeError" => some .typeError
  | "OptimizationError" => some .optimizationError
  | "IndexError" => some .indexError
  | "ScipyValueError" => some .scipyValueError
  | "RangeTypeError" => some .rangeTypeError
  | _ => none

def bit (b : Bool) : String := if b then "1" else "0"

def boxStrF (b : Box Float) : String := s!"{hexOfFloat b.lo}:{hexOfFloat b.hi}"
def boxStrI (b : Box Int) : String := s!"#{b.lo}:#{b.hi}"

def convexStr (fr : Free) (r : Except Exc (ConvexPlan Float)) : String :=
  match r with
  | .error e => s!"| st={excStr e}"
  | .ok p =>
    let boxes := packG fr (boxStrF p.aBox) (boxStrF p.bBox) (boxStrI p.cBox) (boxStrF p.oBox)
    s!"| st=ok box={joinWith "," boxes} cl={bit p.closedLeft} elo={hexOfFloat p.edgeLo} ehi={hexOfFloat p.edgeHi}"

def plan (args : List String) : Option String := do
  match args with
  | cls :: f32 :: lo :: hi :: rest =>
    let cls ← parseCls? cls
    let f32 ← parseBool? f32
    let lo ← parseFloat? lo
    let hi ← parseFloat? hi
    let (cA, rest) ← parseConsF rest
    let (cB, rest) ← parseConsF rest
    let (cC, cFloat, rest) ← parseConsC rest
    let (cO, rest) ← parseConsF rest
    let (ws, rest) ← takeList parseFloat? rest
    match rest with
    | v :: rest =>
      let v ← parseFloat? v
      let (ys, _) ← takeList parseFloat? rest
      let cen := censor ys lo hi
      let head := s!"n={cen.n} nl={cen.nLower} nu={cen.nUpper} nobs={cen.observed.length}"
      match precheck fZero cls cen lo hi cA cB cO cFloat with
      | .error e => some s!"pre={excStr e} {head}"
      | .ok st =>
        let fr := freeOf cls cA cB cC cO
        let ncs := nCs cC
        let range := rangeF f32 cen st
        let convs := ws.map fun w => convexStr fr (planConvex fZero fNegInf fPosInf cls st range w v cA cB cC cO)
        some (s!"pre=ok {head} imin={st.iMin} jmax={st.jMax} ymin={hexOfFloat st.yMin} ymax={hexOfFloat st.yMax} "
          ++ s!"range={hexOfFloat range} ncs={ncs} free={bit fr.a}{bit fr.b}{bit fr.c}{bit fr.o} nb={nBounds fr} "
          ++ s!"pop={popSize cls fr ncs} integ={joinWith "" ((integrality fr).map bit)} "
          ++ joinWith " " convs)
    | _ => none
  | _ => none

def parseOptExt? : String → Option (Option Ext)
  | "-" => some none
  | s => (parseExt? s).map some

def natList (l : List Nat) : String := joinWith "," (l.map toString)

def buckets (args : List String) : Option String := do
  match args with
  | cl :: elo :: ll :: rest =>
    let cl ← parseBool? cl
    let elo ← parseExt? elo
    let ll ← parseOptExt? ll
    let (obs, rest) ← takeList parseExt? rest
    match rest with
    | [lu, ehi, nl, nu] =>
      let lu ← parseOptExt? lu
      let ehi ← parseExt? ehi
      let nl ← nl.toNat?
      let nu ← nu.toNat?
      let zs := zsModel elo ll obs lu ehi
      let ks := ksModel? elo ll obs lu ehi nl nu
      let spec := ksSpec cl ll obs lu ehi nl nu zs
      let ksS := match ks with
        | some ks => s!"ks={natList ks} sum={sumNat ks}"
        | none => "ks=IndexError sum=-"
      some (s!"zs={joinWith "," (zs.map toString)} {ksS} spec={natList spec} specsum={sumNat spec} "
        ++ s!"A={bit (sideA elo ll obs lu ehi)} B={bit (sideB lu ehi)}")
    | _ => none
  | _ => none

def lossF (sorted : Bool) (n : Nat) (ks : List Nat) (ps : List Float) : Float :=
  loss Float.ofNat Float.log n ks (if sorted then sortList ps else ps)

def lossOp (args : List String) : Option String := do
  match args with
  | sorted :: n :: rest =>
    let sorted ← parseBool? sorted
    let n ← n.toNat?
    let (ks, rest) ← takeList String.toNat? rest
    let (ps, _) ← takeList parseFloat? rest
    if ps.length ≠ ks.length + 1 then none
    else some (hexOfFloat (lossF sorted n ks ps))
  | _ => none

def parseFree? (s : String) : Option Free :=
  match s.toList with
  | [a, b, c, o] => do
    let a ← parseBool? (String.singleton a)
    let b ← parseBool? (String.singleton b)
    let c ← parseBool? (String.singleton c)
    let o ← parseBool? (String.singleton o)
    some ⟨a, b, c, o⟩
  | _ => none

def parsePasses : Nat → List String → Option (List (Pass Float) × List String)
  | 0, rest => some ([], rest)
  | k + 1, perr :: bok :: nb :: pop :: fn :: rest => do
    let perr ← if perr = "-" then some none else (parseExc? perr).map some
    let bok ← parseBool? bok
    let nb ← nb.toNat?
    let pop ← pop.toNat?
    let fn ← parseFloat? fn
    let (x, rest) ← takeList parseFloat? rest
    let (ps, rest) ← parsePasses k rest
    some ({ planErr := perr, bucketsOk := bok, nBounds := nb, popSize := pop, fn := fn, x := x } :: ps, rest)
  | _, _ => none

def select (args : List String) : Option String := do
  match args with
  | fr :: fa :: fb :: fc :: fo :: np :: rest =>
    let fr ← parseFree? fr
    let fa ← parseFloat? fa
    let fb ← parseFloat? fb
    let fc ← parseFloat? fc
    let fo ← parseFloat? fo
    let np ← np.toNat?
    let (passes, _) ← parsePasses np rest
    match fitOutcome fPosInf Float.isFinite passes with
    | .error e => some s!"err {excStr e}"
    | .ok (i, x) =>
      match unpack fr ⟨fa, fb, fc, fo⟩ x with
      | some p => some s!"ok {i} {hexOfFloat p.a} {hexOfFloat p.b} {hexOfFloat p.c} {hexOfFloat p.o}"
      | none => some "err IndexError"
  | _ => none

def packOp (args : List String) : Option String := do
  match args with
  | [fr, a, b, c, o] =>
    let fr ← parseFree? fr
    some (joinWith " " (packG fr a b c o))
  | _ => none

def parseOptF? : String → Option (Option Float)
  | "nan" => some none
  | s => (parseFloat? s).map fun x => if x == x then some x else none

def parseKey? : String → Option Key
  | "a" => some .a
  | "b" => some .b
  | "c" => some .c
  | "o" => some .o
  | _ => none

def parseItems : Nat → List String → Option (List (ConsItem Float) × List String)
  | 0, rest => some ([], rest)
  | k + 1, "o" :: rest => do
    let (its, rest) ← parseItems k rest
    some (.other :: its, rest)
  | k + 1, "v" :: sc :: nd :: ln :: ib :: hd :: rest => do
    let sc ← parseBool? sc
    let nd ← nd.toNat?
    let ln ← ln.toNat?
    let ib ← parseBool? ib
    let hd ← parseBool? hd
    let (its, rest) ← parseItems k rest
    some (.convex ⟨sc, nd, ln, ib, hd⟩ :: its, rest)
  | k + 1, "k" :: key :: "B" :: rest => do
    let key ← parseKey? key
    let (its, rest) ← parseItems k rest
    some (.num key .badShape :: its, rest)
  | k + 1, "k" :: key :: "R" :: rest => do
    let key ← parseKey? key
    let (its, rest) ← parseItems k rest
    some (.num key .notReal :: its, rest)
  | k + 1, "k" :: key :: "s" :: v :: rest => do
    let key ← parseKey? key
    let v ← parseOptF? v
    let (its, rest) ← parseItems k rest
    some (.num key (.scalar v) :: its, rest)
  | k + 1, "k" :: key :: "p" :: l :: h :: rest => do
    let key ← parseKey? key
    let l ← parseOptF? l
    let h ← parseOptF? h
    let (its, rest) ← parseItems k rest
    some (.num key (.pair l h) :: its, rest)
  | _, _ => none

def validateOp (args : List String) : Option String := do
  match args with
  | cls :: ynd :: yln :: yfin :: lnd :: lln :: lreal :: lnan :: lprop :: nit :: rest =>
    let cls ← parseCls? cls
    let ynd ← ynd.toNat?
    let yln ← yln.toNat?
    let yfin ← parseBool? yfin
    let lnd ← lnd.toNat?
    let lln ← lln.toNat?
    let lreal ← parseBool? lreal
    let lnan ← parseBool? lnan
    let lprop ← parseBool? lprop
    let nit ← nit.toNat?
    let (items, _) ← parseItems nit rest
    match validate fZero 1.0 10.0 isIntF cls ⟨ynd, yln, yfin⟩ ⟨lnd, lln, lreal, lnan, lprop⟩ items with
    | some e => some (excStr e)
    | none => some "ok"
  | _ => none

def handle (fn : String) (args : List String) : Option String :=
  match fn with
  | "plan" => plan args
  | "buckets" => buckets args
  | "loss" => lossOp args
  | "select" => select args
  | "pack" => packOp args
  | "validate" => validateOp args
  | _ => none

end Opda.Drv.Fit
