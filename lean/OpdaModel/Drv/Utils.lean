import OpdaModel.Wire
import OpdaModel.Special
import OpdaModel.SortFirst
/-! Line-protocol handlers for `normal_pdf/cdf/ppf`, `dkw_epsilon` (`Float`) and `sort_by_first` (exact). -/
namespace Opda.Drv.Utils
open Opda.Wire Opda.SpecialFn Opda.SortFirst

def extLe (x y : Ext) : Bool := decide (x ≤ y)

/-- `k` arrays, each `n x₁ … xₙ` -/
def takeArrays : Nat → List String → Option (List (List Ext))
  | 0, _ => some []
  | k+1, rest => do
    let (c, rest) ← takeList parseExt? rest
    let cs ← takeArrays k rest
    some (c :: cs)

def handle (fn : String) (args : List String) : Option String := do
  match fn with
  | "pdf" =>
    let (xs, _) ← takeList parseFloat? args
    some (joinWith " " (xs.map fun x => hexOfFloat (normalPdf x)))
  | "cdf" =>
    let (xs, _) ← takeList parseFloat? args
    some (joinWith " " (xs.map fun x => hexOfFloat (normalCdf x)))
  | "erf" =>
    let (xs, _) ← takeList parseFloat? args
    some (joinWith " " (xs.map fun x => hexOfFloat (erf x)))
  | "ppf" =>
    let (qs, _) ← takeList parseFloat? args
    some (joinWith " " (qs.map fun q =>
      match normalPpf q with
      | .valueError => "ValueError"
      | .value z => hexOfFloat z))
  | "dkw" =>
    -- pairs `n confidence`
    let (xs, _) ← takeList parseFloat? args
    let rec go : List Float → List String
      | n :: c :: rest =>
        (match dkwEpsilon n c with
          | .valueError => "ValueError"
          | .value e => hexOfFloat e) :: go rest
      | _ => []
    if xs.length % 2 ≠ 0 then none else some (joinWith " " (go xs))
  | "sort" =>
    -- `k` then `k` arrays → `ValueError` | `k` arrays (each `n x₁ … xₙ`, exact)
    match args with
    | k :: rest =>
      let k ← k.toNat?
      let cols ← takeArrays k rest
      match sortByFirst extLe (Ext.fin 0) cols with
      | .valueError => some "ValueError"
      | .arrays out =>
        some (joinWith " " (toString out.length :: out.map fun c =>
          joinWith " " (toString c.length :: c.map toString)))
    | _ => none
  | _ => none

end Opda.Drv.Utils
