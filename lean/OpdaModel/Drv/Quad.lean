import OpdaModel.Wire
import OpdaModel.Quadratic
import OpdaModel.FloatInst
import OpdaModel.NoisyFloat
import OpdaModel.QuadNoisy
/-!
Line-protocol handlers for the parametric classes (`Float` reading of the polymorphic models).

Every value is evaluated once at the plain `Float` instance and five more times at `jitterNum s 8`
(`s = 0..4`: every transcendental result moved by +8 ulps, by −8 ulps, and three pseudo-random patterns);
the reply carries `value spread` pairs (`spread` = max − min over the six evaluations,
`nan` if any of them is `nan` while the plain one is not) as bit patterns.

    quad.cdf|pdf|ppf  a b c convex  n x₁ … xₙ          → v₁ s₁ … vₙ sₙ
    quad.moments      a b c convex                      → mean s variance s
    quad.qtc          a b c convex  mn q  n n₁ … nₙ     → v₁ s₁ …        (mn ∈ {-,0,1})
    quad.avg          a b c convex  mn    n n₁ … nₙ     → v₁ s₁ …

Noisy class (the `Float` instance `Opda.NoisyF.plain` of the polymorphic model `Opda.Noisy`, with the
tuning curves of `OpdaModel/QuadNoisy.lean` and the loop of `OpdaModel/QuadTrap.lean`):

    quad.nswitch      a b c o convex                     → margin   (relative distance of s = o/(b−a) to the
                                                            nearest internal switch point: 1e-6, 10, 5e-2, every
                                                            min_scale of the shipped table, 1e-2, 3e-3, 6e-4, 3e-4)
    quad.nqtc         a b c o convex  mn q  n n₁ … nₙ    → v₁ m₁ …  (value, bisection tie margin)
    quad.navg         a b c o convex  mn atol cap  n n₁ … nₙ → i  v₁ … vₙ  e₁ … eᵢ   (rounds, values, error estimate
                                                            of every round)  |  `fail` after 30 rounds (IntegrationError)
                                                            |  `capped` when the harness's budget `cap < 30` of rounds is
                                                            exhausted (2^cap integrand evaluations)   (atol ∈ {-, hex})
    quad.navgrep      (same arguments)                   → the same loop on the integrand without `1[y>0]`, integrated from
                                                            `lo` (value `lo + T`): the repaired algorithm proposed for F4
-/
namespace Opda.Drv.Quad
open Opda.Wire Opda.Quad

def parseBool? : String → Option Bool
  | "0" => some false
  | "1" => some true
  | _ => none

def parseOptBool? : String → Option (Option Bool)
  | "-" => some none
  | s => (parseBool? s).map some

/-- `a b c convex rest…`; `c` must be a positive integer (the constructor rejects anything else) -/
def parseParams : List String → Option (Params Float × List String)
  | a :: b :: c :: cv :: rest => do
    let a ← parseFloat? a
    let b ← parseFloat? b
    let c ← c.toNat?
    let cv ← parseBool? cv
    if c == 0 || a.isNaN || b.isNaN || a.isInf || b.isInf || b < a then none
    else some ({ a, b, c, convex := cv }, rest)
  | _ => none

/-- evaluate `f` at the plain instance and at five jittered ones; `(value, spread)` -/
def withSpread (f : Num Float → Float) : Float × Float :=
  let v := f inferInstance
  let vs := [v, f (jitterNum 0 8), f (jitterNum 1 8), f (jitterNum 2 8), f (jitterNum 3 8), f (jitterNum 4 8)]
  let fin := vs.filter fun x => !x.isNaN
  if fin.length < vs.length then (v, if v.isNaN then 0.0 else 0.0 / 0.0)
  else
    let mx := fin.foldl (fun m x => if x > m then x else m) v
    let mn := fin.foldl (fun m x => if x < m then x else m) v
    (v, if mx == mn then 0.0 else mx - mn)

def showPair (p : Float × Float) : String := s!"{hexOfFloat p.1} {hexOfFloat p.2}"

def parseNoisy : List String → Option (Opda.NoisyF.Params × List String)
  | a :: b :: c :: o :: cv :: rest => do
    let a ← parseFloat? a
    let b ← parseFloat? b
    let c ← c.toNat?
    let o ← parseFloat? o
    let cv ← parseBool? cv
    if c == 0 || a.isNaN || b.isNaN || o.isNaN || a.isInf || b.isInf || o.isInf || b < a || o < 0.0 then none
    else some ({ a, b, c, o, convex := cv }, rest)
  | _ => none

/-- the internal switch points of the implementation in the variable `s = o/(b−a)` -/
def switchPoints : List Float :=
  [1e-6, 10.0, 5e-2, 1e-2, 3e-3, 6e-4, 3e-4]
    ++ (Opda.NoisyF.floatTable.foldl (fun acc p => acc ++ p.2.map (·.minScale)) []).filter (fun x => x > 0.0)

def switchMargin (d : Opda.NoisyF.Params) : Float :=
  let s := d.o / (d.b - d.a)
  switchPoints.foldl (fun m p => let r := (s - p).abs / p; if r < m then r else m) (1.0 / 0.0)

def handleNoisy (fn : String) (args : List String) : Option String := do
  let (d, rest) ← parseNoisy args
  let P := Opda.NoisyF.plain
  match fn with
  | "nswitch" => some (hexOfFloat (switchMargin d))
  | "nqtc" =>
    match rest with
    | mn :: q :: rest =>
      let mn ← parseOptBool? mn
      let q ← parseFloat? q
      let (ns, _) ← takeList parseFloat? rest
      some (joinWith " " (ns.map fun nn =>
        let lv := Opda.Noisy.level P (mn.getD d.convex) q nn
        let r := Opda.NoisyF.ppf P d lv
        s!"{hexOfFloat r.1} {hexOfFloat r.2}"))
    | _ => none
  | "navg" | "navglegacy" =>
    match rest with
    | mn :: atol :: cap :: rest =>
      let mn ← parseOptBool? mn
      let atol ← (if atol == "-" then some none else (parseFloat? atol).map some)
      let cap ← cap.toNat?
      let cap := if cap > 30 then 30 else cap
      let (ns, _) ← takeList parseFloat? rest
      let rep := fn == "navg"
      match (if rep then Opda.Noisy.avgRunCapped P d ns mn atol cap else Opda.Noisy.avgRunCappedLegacy P d ns mn atol cap) with
      | none => some (if cap < 30 then "capped" else "fail")
      | some (i, ts, errs) =>
        let tl := if rep then Opda.Noisy.intLo P d
                  else Opda.TrapLoop.tail P.n (Opda.Noisy.intLo P d) (Opda.Noisy.intHi P d)
        some (s!"{i} " ++ joinWith " " (ts.map fun t => hexOfFloat (tl + t)) ++ " " ++ joinWith " " (errs.map hexOfFloat))
    | _ => none
  | _ => none

def handle (fn : String) (args : List String) : Option String := do
  if fn.startsWith "n" then handleNoisy fn args else
  let (d, rest) ← parseParams args
  match fn with
  | "cdf" =>
    let (xs, _) ← takeList parseFloat? rest
    some (joinWith " " (xs.map fun x => showPair (withSpread fun I => @cdf Float I d x)))
  | "pdf" =>
    let (xs, _) ← takeList parseFloat? rest
    some (joinWith " " (xs.map fun x => showPair (withSpread fun I => @pdf Float I d x)))
  | "ppf" =>
    let (xs, _) ← takeList parseFloat? rest
    some (joinWith " " (xs.map fun x => showPair (withSpread fun I => @ppf Float I d x)))
  | "moments" =>
    some (showPair (withSpread fun I => @mean Float I d) ++ " " ++ showPair (withSpread fun I => @variance Float I d))
  | "qtc" =>
    match rest with
    | mn :: q :: rest =>
      let mn ← parseOptBool? mn
      let q ← parseFloat? q
      let (ns, _) ← takeList parseFloat? rest
      some (joinWith " " (ns.map fun nn => showPair (withSpread fun I => @quantileTuningCurve Float I d nn q mn)))
    | _ => none
  | "avg" =>
    match rest with
    | mn :: rest =>
      let mn ← parseOptBool? mn
      let (ns, _) ← takeList parseFloat? rest
      some (joinWith " " (ns.map fun nn => showPair (withSpread fun I => @averageTuningCurve Float I d nn mn)))
    | _ => none
  | _ => none

end Opda.Drv.Quad
