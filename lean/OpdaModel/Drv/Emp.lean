import OpdaModel.Wire
import OpdaModel.Emp
import OpdaModel.EmpCurves
import OpdaModel.Band
/-! Line-protocol handlers for the empirical distribution (exact arithmetic: values `Ext`, weights `Rat`). -/
namespace Opda.Drv.Emp
open Opda.Wire Opda.Emp

structure Dist where
  a : Ext
  b : Ext
  ys : List Ext
  ws : Option (List Rat)

def Dist.obs (d : Dist) : List (Ext × Rat) :=
  match d.ws with
  | none => d.ys.map fun y => (y, (1 : Rat))
  | some ws => d.ys.zip ws

def Dist.supp (d : Dist) : List (Ext × Rat) := support Ext.negInf Ext.posInf d.a d.b d.obs

/-- `a b n ys… k ws… rest` ; `k = 0` encodes `ws=None` -/
def parseDist (args : List String) : Option (Dist × List String) := do
  match args with
  | a :: b :: rest =>
    let a ← parseExt? a
    let b ← parseExt? b
    let (ys, rest) ← takeList parseExt? rest
    let (ws, rest) ← takeList parseRat? rest
    if ys.isEmpty then none
    else if ws.isEmpty then some ({ a, b, ys, ws := none }, rest)
    else if ws.length ≠ ys.length then none
    else some ({ a, b, ys, ws := some ws }, rest)
  | _ => none

def absR (q : Rat) : Rat := if q < 0 then -q else q

/-- distance from `q` to the nearest cumulative level (the tie margin the property excludes) -/
def margin (cumn : List (Ext × Rat)) (q : Rat) : Rat :=
  cumn.foldl (fun m p => let d := absR (q - p.2); if d < m then d else m) 2

/-- weighted sum with extended values: `none` = nan (both infinities carry weight) -/
def wsum (l : List (Ext × Rat)) : Option Ext :=
  let fin : Rat := l.foldl (fun acc p => match p.1 with | .fin v => acc + v * p.2 | _ => acc) 0
  let pos := l.any fun p => (p.1 == .posInf && decide (0 < p.2)) || (p.1 == .negInf && decide (p.2 < 0))
  let neg := l.any fun p => (p.1 == .negInf && decide (0 < p.2)) || (p.1 == .posInf && decide (p.2 < 0))
  if pos && neg then none else if pos then some .posInf else if neg then some .negInf else some (.fin fin)

def showOptExt : Option Ext → String
  | none => "nan"
  | some e => toString e

def handle (fn : String) (args : List String) : Option String := do
  let (d, rest) ← parseDist args
  let supp := d.supp
  match fn with
  | "cdf" =>
    let (qs, _) ← takeList parseExt? rest
    some (joinWith " " (qs.map fun y => ratStr (cdf supp y)))
  | "pmf" =>
    let (qs, _) ← takeList parseExt? rest
    some (joinWith " " (qs.map fun y => ratStr (pmf supp y)))
  | "ppf" =>
    let (qs, _) ← takeList parseRat? rest
    let cn := cumN supp
    some (joinWith " " (qs.map fun q => s!"{ppf d.a supp q} {ratStr (margin cn q)}"))
  | "avg" =>
    -- integer n, exact: `mn n₁ … ` first token minimize flag
    match rest with
    | mn :: rest =>
      let (ns, _) ← takeList String.toNat? rest
      let tr := withPrev (cumN supp)
      some (joinWith " " (ns.map fun n =>
        let bw := bestWeights (fun x => x ^ n) (mn == "1") tr
        showOptExt (wsum (bw.filter fun p => p.2 ≠ 0))))
    | _ => none
  | "naive" =>
    match rest with
    | mn :: rest =>
      let (ns, _) ← takeList String.toNat? rest
      (ns.mapM fun n => (naive (mn == "1") n d.ys).map toString).map (joinWith " ")
    | _ => none
  | "v" | "u" =>
    -- V / U statistic curves for unweighted finite samples: `mn k n₁ … n_k`
    match rest with
    | mn :: rest =>
      let (ns, _) ← takeList String.toNat? rest
      if d.ws.isSome || ns.any (· == 0) then none else
      let sorted := Opda.Band.sort d.ys
      let ordered := if mn == "1" then sorted.reverse else sorted
      let N := d.ys.length
      some (joinWith " " (ns.map fun n =>
        let ws : List Rat := if fn == "v" then vWeights (fun x => x ^ n) N else uWeights n N
        showOptExt (wsum ((ordered.zip ws).filter fun p => p.2 ≠ 0))))
    | _ => none
  | "moments" =>
    -- finite samples only: `mean`, `variance` attributes (`np.mean/np.var`, or `Σ_{w>0} w·y`, `Σ_{w>0} w·(y-mean)²`)
    let fin ← d.ys.mapM fun y => match y with | .fin v => some v | _ => none
    let (mean, var) := moments fin d.ws
    some s!"{ratStr mean} {ratStr var}"
  | "levels" =>
    -- all normalised cumulative levels of the padded support (diagnostic / sampling of q)
    some (joinWith " " ((cumN supp).map fun p => s!"{p.1}:{ratStr p.2}"))
  | _ => none

end Opda.Drv.Emp
