import OpdaModel.Wire
import OpdaModel.Rng
import OpdaModel.Sample
import OpdaModel.FloatInst
/-!
Line-protocol handlers `rng.<fn>`.

`rng.run <policy> <cpu> <seed0> <k> <op>…` runs a history on the state machine of `OpdaModel/Rng.lean` from a new
process and prints, for every call, `value|used|hit|steps|global|repeat|fresh`:

* `value`  — the result term (equal terms ⇒ the implementation must return equal bytes),
* `used`   — reference of the generator object the call resolved (`-` if none),
* `hit`    — `h` cache hit, `m` miss, `-` no cache involved,
* `steps`  — exact number of 64-bit steps the generator advanced, `?` when data-dependent,
* `global` — reference `DEFAULT_GENERATOR` is bound to after the call,
* `repeat` — the F1 predicate: an ld call whose key was used by an earlier ld call,
* `fresh`  — whether the model says the call behaves as in a fresh process with the same generator states.

Ops: `S z` set_seed(int) · `G r` set_seed(generator r) · `N z` default_rng(z) · `P cls dist count gen` sample
(`cls` q|n|w|u) · `B method n conf ys gen njobs` confidence_bands (`method` dkw|ks|et|hd) · `F args gen` fit ·
`M i v` overwrite the arrays of the i-th most recently returned object.  `-` = `None`.

C13 sampling ops (models in `OpdaModel/Sample.lean`):

    rng.choice  n ys… (Ext)  n ws… (Rat)  k us… (Rat)      → per u: `atom margin`   (exact; `-` = index out of range)
    rng.index   n ys… (Ext)  k i₁ … i_k                      → per i: `atom`
    rng.quad    a b c convex  k us…                           → per u: `value spread`   (Float, ±8-ulp jitter spread)
    rng.noisy   a b c o convex  k us…  k zs…                  → per (u,z): `value spread`
-/
namespace Opda.Drv.Rng
open Opda.Wire Opda.Rng

def optNat? (s : String) : Option (Option Nat) :=
  if s = "-" then some none else s.toNat?.map some

def parseCls? : String → Option Cls
  | "q" => some .quadratic
  | "n" => some .noisy
  | "w" => some .empWeighted
  | "u" => some .empUniform
  | _ => none

def parseMethod? : String → Option Method
  | "dkw" => some (.det .dkw)
  | "ks" => some (.det .ks)
  | "et" => some (.ld .equalTailed)
  | "hd" => some (.ld .highestDensity)
  | _ => none

/-- parse `k` ops -/
def parseOps : Nat → List String → Option (List Op)
  | 0, [] => some []
  | 0, _ => none
  | k+1, "S" :: z :: rest => do
    let z ← z.toNat?
    (parseOps k rest).map (Op.setSeed z :: ·)
  | k+1, "G" :: r :: rest => do
    let r ← r.toNat?
    (parseOps k rest).map (Op.setGlobal r :: ·)
  | k+1, "N" :: z :: rest => do
    let z ← z.toNat?
    (parseOps k rest).map (Op.newGen z :: ·)
  | k+1, "P" :: c :: d :: n :: g :: rest => do
    let c ← parseCls? c
    let d ← d.toNat?
    let n ← n.toNat?
    let g ← optNat? g
    (parseOps k rest).map (Op.sample c d n g :: ·)
  | k+1, "B" :: m :: n :: c :: y :: g :: j :: rest => do
    let m ← parseMethod? m
    let n ← n.toNat?
    let c ← c.toNat?
    let y ← y.toNat?
    let g ← optNat? g
    let j ← optNat? j
    (parseOps k rest).map (Op.bands m n c y g j :: ·)
  | k+1, "F" :: a :: g :: rest => do
    let a ← a.toNat?
    let g ← optNat? g
    (parseOps k rest).map (Op.fit a g :: ·)
  | k+1, "M" :: i :: v :: rest => do
    let i ← i.toNat?
    let v ← v.toNat?
    (parseOps k rest).map (Op.mutateReturned i v :: ·)
  | _, _ => none

def clsStr : Cls → String
  | .quadratic => "q" | .noisy => "n" | .empWeighted => "w" | .empUniform => "u"
def kindStr : Kind → String
  | .equalTailed => "et" | .highestDensity => "hd"
def detStr : DetMethod → String
  | .dkw => "dkw" | .ks => "ks"

def valueStr : Value → String
  | .unit => "unit"
  | .invalid => "invalid"
  | .sampled c d k s p => s!"sampled:{clsStr c}:{d}:{k}:{s}:{p}"
  | .detTable m n c => s!"det:{detStr m}:{n}:{c}"
  | .ldTable kd n c s p => s!"ld:{kindStr kd}:{n}:{c}:{s}:{p}"
  | .bands y t => s!"bands:{y}:[{valueStr t}]"
  | .fitted a s p => s!"fitted:{a}:{s}:{p}"
  | .junk v => s!"junk:{v}"

def optStr : Option Nat → String
  | none => "-"
  | some n => toString n

def outLine (P : Policy) (s : State) (o : Op) : String :=
  let r := step P nominalCost s o
  let hit := match r.2.hit with | some true => "h" | some false => "m" | none => "-"
  let steps := match r.2.steps with | some n => toString n | none => "?"
  let rep := if repeatsLdKey s o then "1" else "0"
  let fr := if observe P nominalCost s o = observe P nominalCost (fresh s) o then "1" else "0"
  s!"{valueStr r.2.value}|{optStr r.2.used}|{hit}|{steps}|{r.1.global}|{rep}|{fr}"

def runLines (P : Policy) : State → List Op → List String
  | _, [] => []
  | s, o :: os => outLine P s o :: runLines P (step P nominalCost s o).1 os

def parseBool? : String → Option Bool
  | "0" => some false
  | "1" => some true
  | _ => none

/-- evaluate at the plain `Float` instance and at five jittered ones: `(value, max − min)` -/
def withSpread (f : Num Float → Float) : Float × Float :=
  let v := f inferInstance
  let vs := [v, f (jitterNum 0 8), f (jitterNum 1 8), f (jitterNum 2 8), f (jitterNum 3 8), f (jitterNum 4 8)]
  if vs.any Float.isNaN then (v, 0.0 / 0.0)
  else
    let mx := vs.foldl (fun m x => if x > m then x else m) v
    let mn := vs.foldl (fun m x => if x < m then x else m) v
    (v, if mx == mn then 0.0 else mx - mn)

def showPair (p : Float × Float) : String := s!"{hexOfFloat p.1} {hexOfFloat p.2}"

def parseQuad : List String → Option (Opda.Quad.Params Float × List String)
  | a :: b :: c :: cv :: rest => do
    let a ← parseFloat? a
    let b ← parseFloat? b
    let c ← c.toNat?
    let cv ← parseBool? cv
    if c == 0 || a.isNaN || b.isNaN || a.isInf || b.isInf || b < a then none
    else some ({ a, b, c, convex := cv }, rest)
  | _ => none

def sampleHandle (fn : String) (args : List String) : Option String := do
  match fn with
  | "choice" =>
    let (ys, rest) ← takeList parseExt? args
    let (ws, rest) ← takeList parseRat? rest
    let (us, _) ← takeList parseRat? rest
    if ys.isEmpty || ys.length ≠ ws.length then none
    else
      let obs := ys.zip ws
      some (joinWith " " (us.map fun u =>
        let a := match Opda.Sample.pick obs u with | some y => toString y | none => "-"
        s!"{a} {ratStr (Opda.Sample.pickMargin obs u)}"))
  | "index" =>
    let (ys, rest) ← takeList parseExt? args
    let (is, _) ← takeList String.toNat? rest
    some (joinWith " " (is.map fun i => match Opda.Sample.pickIndex ys i with | some y => toString y | none => "-"))
  | "quad" =>
    let (d, rest) ← parseQuad args
    let (us, _) ← takeList parseFloat? rest
    some (joinWith " " (us.map fun u => showPair (withSpread fun I => @Opda.Sample.quadSample Float I d u)))
  | "noisy" =>
    match args with
    | a :: b :: c :: o :: cv :: rest =>
      let (d, rest) ← parseQuad (a :: b :: c :: cv :: rest)
      let o ← parseFloat? o
      let (us, rest) ← takeList parseFloat? rest
      let (zs, _) ← takeList parseFloat? rest
      if us.length ≠ zs.length || o.isNaN || o < 0.0 then none
      else some (joinWith " " ((us.zip zs).map fun p =>
        showPair (withSpread fun I => @Opda.Sample.noisySample Float I d o p.1 p.2)))
    | _ => none
  | _ => none

def handle (fn : String) (args : List String) : Option String := do
  match fn with
  | "run" =>
    match args with
    | pol :: cpu :: seed0 :: k :: rest =>
      let P ← (match pol with | "code" => some Policy.asCode | "spec" => some Policy.spec | _ => none)
      let cpu ← cpu.toNat?
      let seed0 ← seed0.toNat?
      let k ← k.toNat?
      let ops ← parseOps k rest
      some (joinWith " " (runLines P (init seed0 0 cpu) ops))
    | _ => none
  | _ => sampleHandle fn args

end Opda.Drv.Rng
