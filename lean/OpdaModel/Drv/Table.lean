import OpdaModel.Wire
import OpdaModel.TableCheck
/-! Line-protocol handlers for the translated approximation table (exact arithmetic). -/
namespace Opda.Drv.Table
open Opda.Wire Opda.Table Opda.Gen

def evalPoly (cs : List Rat) (x : Rat) : Rat := cs.foldr (fun c acc => c + x * acc) 0

def rowOf (m2 : Nat) : Option (Nat × List EntryQ) := tableQ.find? fun r => r.1 == m2

/-- index of the piece whose knots bracket `x` (first match), as the partial-moment loop walks them -/
def pieceIndex (knots : List Rat) (x : Rat) : Option Nat :=
  let rec go (i : Nat) : List Rat → Option Nat
    | lo :: hi :: rest => if lo ≤ x ∧ x ≤ hi then some i else go (i + 1) (hi :: rest)
    | _ => none
  go 0 knots

def handle (fn : String) (args : List String) : Option String := do
  match fn, args with
  | "select", [m2, scale] =>
    -- index of the first entry with `scale ≥ min_scale`, or `none`
    let m2 ← m2.toNat?
    let s ← parseRat? scale
    match rowOf m2 with
    | none => some "norow"
    | some row =>
      match row.2.findIdx? fun e => decide (e.minScale ≤ s) with
      | some i => some (toString i)
      | none => some "none"
  | "eval", [m2, ei, x] =>
    -- exact value of entry `ei`'s piecewise polynomial at `x ∈ [0,1]`, the piece index, and 1.02·max_error
    let m2 ← m2.toNat?
    let ei ← ei.toNat?
    let x ← parseRat? x
    let row ← rowOf m2
    let e ← row.2[ei]?
    let pi ← pieceIndex e.knots x
    let cs ← e.coeffs[pi]?
    some s!"{pi} {ratStr (evalPoly cs x)} {ratStr (slack * e.maxError)}"
  | "shape", [] =>
    some (joinWith " " (tableQ.map fun r => s!"{r.1}:" ++ joinWith "," (r.2.map fun e => toString e.coeffs.length)))
  | "struct", [] => some (toString (structOK tableQ))
  | _, _ => none

end Opda.Drv.Table
