import OpdaModel.Wire
import OpdaModel.Emp
import OpdaModel.Band
import OpdaModel.Drv.Emp
import OpdaModel.Steck
import OpdaModel.RectProb
/-! Line-protocol handlers for the band distributions of `confidence_bands` (exact arithmetic). -/
namespace Opda.Drv.Band
open Opda.Wire Opda.Emp Opda.Band

/-- `a b n ys… m levels… rest` -/
def parse (args : List String) : Option (Ext × Ext × List Ext × List Rat × List String) := do
  match args with
  | a :: b :: rest =>
    let a ← parseExt? a
    let b ← parseExt? b
    let (ys, rest) ← takeList parseExt? rest
    let (levels, rest) ← takeList parseRat? rest
    if ys.isEmpty || levels.length ≠ ys.length + 1 then none else some (a, b, ys, levels, rest)
  | _ => none

def handle (fn : String) (args : List String) : Option String := do
  if fn == "steck" then
    -- `n α₁…αₙ n β₁…βₙ`: exact rectangle probability of the uniform order statistics
    let (al, rest) ← takeList parseRat? args
    let (be, _) ← takeList parseRat? rest
    if al.length ≠ be.length || al.isEmpty then none
    else return ratStr (Opda.Steck.coverage al.toArray be.toArray)
  if fn == "rect" then
    -- same arguments: the same probability by the cell-by-cell dynamic programme of `OpdaModel/RectProb.lean`
    -- (proved to be the volume of the rectangle event: `Opda.Props.C01.rect_coverage_is_volume`)
    let (al, rest) ← takeList parseRat? args
    let (be, _) ← takeList parseRat? rest
    if al.length ≠ be.length || al.isEmpty then none
    else return ratStr (Opda.RectProb.coverage al be)
  let (a, b, ys, levels, rest) ← parse args
  let supp := support Ext.negInf Ext.posInf a b (bandObs a b ys levels)
  match fn with
  | "cdf" =>
    let (qs, _) ← takeList parseExt? rest
    some (joinWith " " (qs.map fun y => ratStr (cdf supp y)))
  | "ppf" =>
    let (qs, _) ← takeList parseRat? rest
    let cn := cumN supp
    some (joinWith " " (qs.map fun q => s!"{ppf a supp q} {ratStr (Opda.Drv.Emp.margin cn q)}"))
  | "weights" =>
    -- the (value, weight) list handed to the constructor (diagnostic)
    some (joinWith " " ((bandObs a b ys levels).map fun p => s!"{p.1}:{ratStr p.2}"))
  | _ => none

end Opda.Drv.Band
