import OpdaModel.PolyCheck
import OpdaGen.Table
/-!
Decidable checks on the translated approximation table (core Lean only).

`certOK T ri ei pi D P C B cuts` is *one* Boolean that (i) looks the piece up in the table `T` itself,
(ii) checks that the integer polynomial `C` really is the scaled `p(t²) − t^{m2}` of that piece,
(iii) runs the interval checker over the subdivision `cuts`, (iv) checks that the subdivision covers
`[√klo, √khi]·2^D` and (v) that the integer bound `B` is at most `1.02 · max_error` in the scaled units.
Its soundness theorem is `OpdaProofs/TableSpec.lean: pieceBound_of_cert`.
-/
namespace Opda.Table
open Opda.Gen Opda.PolyCheck

/-- `(2·exponent, coefficients, left knot, right knot, recorded max_error)` of piece `pi` of entry `ei` of row `ri`. -/
def piece? (T : List (Nat × List EntryQ)) (ri ei pi : Nat) : Option (Nat × List Rat × Rat × Rat × Rat) :=
  match T[ri]? with
  | none => none
  | some row =>
    match row.2[ei]? with
    | none => none
    | some e =>
      match e.coeffs[pi]?, e.knots[pi]?, e.knots[pi + 1]? with
      | some cs, some lo, some hi => some (row.1, cs, lo, hi, e.maxError)
      | _, _, _ => none

/-- the factor by which the recorded `max_error` may be exceeded (the property's 1.02) -/
def slack : Rat := 102 / 100

def certOK (T : List (Nat × List EntryQ)) (ri ei pi D P : Nat) (C : List Int) (B : Int) (cuts : List Int) : Bool :=
  match piece? T ri ei pi with
  | none => false
  | some (m2, cs, klo, khi, me) =>
    match cuts with
    | sl :: r1 :: rest' =>
      let rest := r1 :: rest'
      let sh := rest.getLastD 0
      scaleOK D P (gOf cs m2) C
        && checkAll C B (sl :: rest)
        && decide (0 ≤ sl) && decide (((sl : Int) : Rat) ^ 2 ≤ klo * 4 ^ D)
        && decide (0 ≤ sh) && decide (khi * 4 ^ D ≤ ((sh : Int) : Rat) ^ 2)
        && decide ((B : Rat) ≤ (slack * me) * 2 ^ (P + ((gOf cs m2).length - 1) * D))
    | _ => false

/-- everything `certOK` checks except the interval checker: the piece exists in `T`, `C` is its scaled polynomial,
`[sl, sh]` covers `[√klo, √khi]·2^D`, and `B` is at most `1.02·max_error` in scaled units -/
def headOK (T : List (Nat × List EntryQ)) (ri ei pi D P : Nat) (C : List Int) (B sl sh : Int) : Bool :=
  match piece? T ri ei pi with
  | none => false
  | some (m2, cs, klo, khi, me) =>
    scaleOK D P (gOf cs m2) C
      && decide (0 ≤ sl) && decide (((sl : Int) : Rat) ^ 2 ≤ klo * 4 ^ D)
      && decide (0 ≤ sh) && decide (khi * 4 ^ D ≤ ((sh : Int) : Rat) ^ 2)
      && decide ((B : Rat) ≤ (slack * me) * 2 ^ (P + ((gOf cs m2).length - 1) * D))

/-- the interval checker on one chunk of the subdivision, together with the chunk's end points
(kernel evaluation of one long subdivision is superlinear in its length, so certificates are checked in chunks) -/
def chunkOK (C : List Int) (B : Int) (cuts : List Int) (a b : Int) : Bool :=
  checkAll C B cuts && decide (cuts.head? = some a) && decide (cuts.getLast? = some b) && decide (2 ≤ cuts.length)

/-- every `(row, entry, piece)` index triple of the table -/
def allPieces (T : List (Nat × List EntryQ)) : List (Nat × Nat × Nat) :=
  (List.range T.length).flatMap fun ri =>
    match T[ri]? with
    | none => []
    | some row =>
      (List.range row.2.length).flatMap fun ei =>
        match row.2[ei]? with
        | none => []
        | some e => (List.range e.coeffs.length).map fun pi => (ri, ei, pi)

def strictlyIncreasing : List Rat → Bool
  | [] => true
  | [_] => true
  | x :: y :: rest => decide (x < y) && strictlyIncreasing (y :: rest)

def strictlyDecreasing : List Rat → Bool
  | [] => true
  | [_] => true
  | x :: y :: rest => decide (y < x) && strictlyDecreasing (y :: rest)

/-- structure of one entry: knots increase strictly from exactly 0 to exactly 1, one coefficient vector per piece,
positive recorded error -/
def entryOK (e : EntryQ) : Bool :=
  strictlyIncreasing e.knots && decide (e.knots.head? = some 0) && decide (e.knots.getLast? = some 1)
    && decide (e.coeffs.length + 1 = e.knots.length) && decide (0 < e.maxError)

/-- structure of one row: all entries well formed, `min_scale` strictly decreasing and ending at exactly 0 -/
def rowOK (row : Nat × List EntryQ) : Bool :=
  row.2.all entryOK && strictlyDecreasing (row.2.map (·.minScale))
    && decide ((row.2.map (·.minScale)).getLast? = some 0)

def structOK (T : List (Nat × List EntryQ)) : Bool := T.all rowOK

/-- the code's selection rule: the first entry with `scale ≥ min_scale` -/
def select (es : List EntryQ) (scale : Rat) : Option EntryQ := es.find? fun e => decide (e.minScale ≤ scale)

end Opda.Table
