/-!
Special functions in `Float` for the parametric models (core Lean only).

`logGammaF x` (`x > 0`): Stirling's asymptotic series at `x ≥ 16` after shifting the argument up with
`Γ(x) = Γ(x+m) / (x (x+1) ⋯ (x+m−1))`.  With eight Bernoulli terms the truncation error at `x ≥ 16`
is below `2e-22`; what remains is the rounding of `(x−½)·log x − x` (about one ulp of the result, the
same as any libm `lgamma`).  It plays the role `scipy.special.loggamma` plays in
`QuadraticDistribution.average_tuning_curve`; the two are *different* implementations, so the
correspondence check compares them to a calibrated relative tolerance, never bit for bit.
-/
namespace Opda.Special

/-- `½·log(2π)` -/
def halfLog2Pi : Float := 0.9189385332046727

/-- Stirling tail `Σ B₂ₖ / (2k (2k−1) x^{2k−1})`, `k = 1..8`, evaluated by Horner in `1/x²` -/
def stirlingTail (x : Float) : Float :=
  let r := 1.0 / x
  let r2 := r * r
  -- coefficients B₂ₖ/(2k(2k−1)):
  -- 1/12, −1/360, 1/1260, −1/1680, 1/1188, −691/360360, 1/156, −3617/122400
  r * (1.0/12.0 + r2 * (-1.0/360.0 + r2 * (1.0/1260.0 + r2 * (-1.0/1680.0 + r2 * (1.0/1188.0
    + r2 * (-691.0/360360.0 + r2 * (1.0/156.0 + r2 * (-3617.0/122400.0))))))))

/-- `log Γ(x)` for `x > 0` (returns `inf` at `0`, `nan` below) -/
def logGammaF (x : Float) : Float := Id.run do
  if x.isNaN then return x
  if x < 0.0 then return 0.0 / 0.0
  if x == 0.0 then return 1.0 / 0.0
  if x.isInf then return x
  -- shift up to z ≥ 16, accumulating the product x (x+1) ⋯ (x+m−1) (≤ 16^16 ≈ 1.8e19: no overflow)
  let mut z := x
  let mut prod := 1.0
  for _ in [0:16] do
    if z < 16.0 then
      prod := prod * z
      z := z + 1.0
  let s := (z - 0.5) * Float.log z - z + halfLog2Pi + stirlingTail z
  return s - Float.log prod

end Opda.Special
