import OpdaModel.Num
import OpdaModel.Quadratic
/-!
Model of the experiment helpers `experiments.analytic` (`ellipse_volume`,
`get_approximation_parameters`) and `experiments.simulation` (`Simulation.run`), core Lean only.

The formulas are written once over the operations class `Opda.Num` extended by the two constants the
volume formula needs (`π` and `Γ`, class `Consts`); they run at `Float` in the driver and are proved
about at `ℝ`.  The black boxes of the code are *parameters* of the model:

* `differential_evolution` → the maximum `yMax` (and, for `Simulation.run`, `yMin`, `yMax`);
* `autograd.hessian` + `np.linalg.eigvals` → the list `eigs` of Hessian eigenvalues at the optimum;
* `numpy.random.Generator.uniform` → the array `us` of uniforms in `[0, 1)`.

Constants pinned by hand (never regenerated from the source): the `+ 1` of `Γ(d/2 + 1)`, the `d/2`
exponent of `π`, the `-2` and the `0.5` of the semi-axes `(-2/λ)**0.5`, the `2/d` exponent and the
`1/ω` of `a`, `c = d`, the sample axis of the running maximum, the *first* trial for `xs`/`ys`.
-/
namespace Opda.Exp
open Opda.Num

/-- the two constants of the volume formula that `Opda.Num` does not carry -/
class Consts (α : Type) where
  /-- `np.pi` -/
  pi : α
  /-- `scipy.special.gamma` -/
  gamma : α → α

section Analytic
variable {α : Type} [Num α] [Consts α]

/-- `np.prod`: left fold starting from the identity -/
def prod (xs : List α) : α := xs.foldl (· * ·) (n 1)

/-- volume coefficient of the unit ball as the code writes it: `np.pi ** (d / 2) / special.gamma(d/2 + 1)` -/
def unitBall (d : Nat) : α := Num.pow Consts.pi (n d / n 2) / Consts.gamma (n d / n 2 + n 1)

/-- `ellipse_volume(cs)` for a 1-D array `cs` -/
def ellipseVolume (cs : List α) : α := unitBall cs.length * prod cs

/-- result of a call that may raise `ValueError` -/
inductive Res (β : Type) where
  | valueError
  | value (v : β)

/-- `ellipse_volume` on an array of `ndim` dimensions with flattened data `cs`: anything but 1-D raises -/
def ellipseVolumeChecked (ndim : Nat) (cs : List α) : Res α :=
  if ndim ≠ 1 then .valueError else .value (ellipseVolume cs)

/-- semi-axes of the level ellipsoid from the Hessian eigenvalues: `(-2 / eigvals) ** 0.5` -/
def axes (eigs : List α) : List α := eigs.map fun l => Num.pow (-(n 2) / l) (n 1 / n 2)

/-- `np.prod(bounds[:, 1] - bounds[:, 0])` -/
def boxVolume (bounds : List (α × α)) : α := prod (bounds.map fun p => p.2 - p.1)

/-- `omega = vol / np.prod(hi - lo)` -/
def omega (eigs : List α) (bounds : List (α × α)) : α := ellipseVolume (axes eigs) / boxVolume bounds

/-- `get_approximation_parameters` after validation, with the optimiser's maximum `yMax` and the Hessian
eigenvalues `eigs` as parameters: `(a, b, c) = (yMax - (1/ω)**(2/d), yMax, d)`, `d = len(bounds)` -/
def approxParams (yMax : α) (eigs : List α) (bounds : List (α × α)) : α × α × Nat :=
  let d := bounds.length
  (yMax - Num.pow (n 1 / omega eigs bounds) (n 2 / n d), yMax, d)

/-- the concave `QuadraticDistribution(a, b, c, convex=False)` built from the returned parameters -/
def approxDist (yMax : α) (eigs : List α) (bounds : List (α × α)) : Quad.Params α :=
  let p := approxParams yMax eigs bounds
  { a := p.1, b := p.2.1, c := p.2.2, convex := false }

/-- the validation of `bounds` (shape given as the list of axis lengths; `finite` = `np.isfinite` of all entries):
2-D, second axis of length 2, all finite — otherwise `ValueError` -/
def boundsValid (shape : List Nat) (finite : Bool) : Bool :=
  match shape with
  | [_, 2] => finite
  | _ => false

end Analytic

section Simulation

/-- `np.maximum.accumulate` along one row: the running maximum (`scanl max`) -/
def cummax {β : Type} (mx : β → β → β) : List β → List β
  | [] => []
  | x :: xs => List.scanl mx x xs

/-- `xss = bounds[:, 0] + (bounds[:, 1] - bounds[:, 0]) * u` for one point -/
def scalePoint {α : Type} [Add α] [Sub α] [Mul α] (bounds : List (α × α)) (u : List α) : List α :=
  List.zipWith (fun p t => p.1 + (p.2 - p.1) * t) bounds u

/-- the fields of the `Simulation` dataclass that `run` computes itself -/
structure Sim (α γ : Type) where
  ns : List Nat
  xss : List (List (List α))
  yss : List (List γ)
  xs : List (List α)
  ys : List γ
  yssCummax : List (List γ)

/-- the bookkeeping of `Simulation.run`: `us` is the generator's `uniform(0, 1, size=(n_trials, n_samples, n_dims))`,
`func` the objective, `mx` the maximum of two values -/
def simRun {α γ : Type} [Add α] [Sub α] [Mul α] (nSamples : Nat) (func : List α → γ) (mx : γ → γ → γ)
    (bounds : List (α × α)) (us : List (List (List α))) : Sim α γ :=
  let xss := us.map fun trial => trial.map (scalePoint bounds)
  let yss := xss.map fun trial => trial.map func
  { ns := (List.range nSamples).map (· + 1)
    xss := xss
    yss := yss
    xs := xss.headD []
    ys := yss.headD []
    yssCummax := yss.map (cummax mx) }

/-- the part of `simRun` that starts from the evaluated `yss` (what the driver is handed) -/
def simBook {γ : Type} (nSamples : Nat) (mx : γ → γ → γ) (yss : List (List γ)) : List Nat × List γ × List (List γ) :=
  ((List.range nSamples).map (· + 1), yss.headD [], yss.map (cummax mx))

end Simulation

end Opda.Exp
