import OpdaModel.Fit
/-!
Model of the *bookkeeping* of `QuadraticDistribution.fit` / `NoisyQuadraticDistribution.fit`
(core Lean only; generic over the number type so that the same terms run at `Float` in the driver and
carry the theorems over any linear order / ordered field in `OpdaProofs/FitPlan.lean`).

Black boxes are parameters: scipy's optimiser (its results enter `bestOf` / `fitOutcome`), the factors
`w`, `v` (Beta / Quadratic / normal quantiles), `np.round`, the distribution's `cdf` (its values enter
`loss`).  Constants of the algorithm are pinned here by hand: `C_MIN = 1`, `C_MAX = 10`, the grid sizes
3·3 / 9 (noiseless), 2·2 / 4 and 7 values of `s` (noisy), the cut `[:90]`, scipy's minimum population 5,
`n ≥ 3`.  The `scipy < 1.11` compatibility branch of the code is dead for the pinned scipy and not modelled.
-/
namespace Opda.Fit
variable {α : Type}

/-! ### Python's `max` / `min` / `np.clip` -/

/-- `max(x, y)`: the first argument unless the second is strictly larger -/
def pymax [LT α] [DecidableLT α] (x y : α) : α := if x < y then y else x
/-- `min(x, y)`: the first argument unless the second is strictly smaller -/
def pymin [LT α] [DecidableLT α] (x y : α) : α := if y < x then y else x
/-- `np.clip(x, lo, hi) = minimum(maximum(x, lo), hi)` -/
def clip [LT α] [DecidableLT α] (x lo hi : α) : α := pymin (pymax x lo) hi

/-! ### censoring (L740-768 / L2187-2215) -/

structure Censored (α : Type) where
  n : Nat
  nLower : Nat
  nUpper : Nat
  observed : List α

/-- `n_lower = sum(ys <= lo)`, `n_upper = sum(ys > hi)`, `ys_observed = ys[(lo < ys) & (ys <= hi)]` -/
def censor [LT α] [DecidableLT α] [LE α] [DecidableLE α] (ys : List α) (lo hi : α) : Censored α :=
  { n := ys.length
    nLower := (ys.filter fun y => decide (y ≤ lo)).length
    nUpper := (ys.filter fun y => decide (hi < y)).length
    observed := ys.filter fun y => decide (lo < y) && decide (y ≤ hi) }

def minList [LT α] [DecidableLT α] : List α → Option α
  | [] => none
  | y :: ys => some (ys.foldl pymin y)

def maxList [LT α] [DecidableLT α] : List α → Option α
  | [] => none
  | y :: ys => some (ys.foldl pymax y)

structure Stats (α : Type) where
  yMin : α
  iMin : Nat
  yMax : α
  jMax : Nat

/-- `y_min, i_min, y_max, j_max`; `none` iff nothing is observed -/
def stats [LT α] [DecidableLT α] (c : Censored α) (lo hi : α) : Option (Stats α) :=
  match minList c.observed, maxList c.observed with
  | some mn, some mx =>
    some { yMin := if c.nLower = 0 then mn else lo
           iMin := if c.nLower = 0 then 1 else c.nLower
           yMax := if c.nUpper = 0 then mx else hi
           jMax := if c.nUpper = 0 then c.n else c.n - c.nUpper + 1 }
  | _, _ => none

/-! ### constraints and the search box (L784-961 / L2231-2470) -/

inductive Cons (β : Type) where
  | absent
  | fixed (v : β)
  | interval (lo hi : β)
  deriving Repr

def Cons.isFree {β : Type} : Cons β → Bool
  | .fixed _ => false
  | _ => true

structure Box (β : Type) where
  lo : β
  hi : β
  deriving Repr

/-- intersect the data-driven default `[dLo, dHi]` with a constraint (`(max(dLo, c_lo), min(dHi, c_hi))`;
an absent constraint is `[-inf, inf]`, so it leaves the default; a fixed value is `(v, v)`) -/
def boxOf {β : Type} [LT β] [DecidableLT β] (dLo dHi : β) : Cons β → Box β
  | .absent => ⟨dLo, dHi⟩
  | .fixed v => ⟨v, v⟩
  | .interval lo hi => ⟨pymax dLo lo, pymin dHi hi⟩

inductive Exc where
  | valueError | typeError | optimizationError
  | indexError        -- `ks[-2]` / `ks[0]` out of range (finding F2)
  | scipyValueError   -- scipy's "population ... S > 4" leaked (finding F3)
  | rangeTypeError    -- `range()` applied to float end points of a `c` interval (finding F8)
  deriving DecidableEq, Repr

inductive Cls where
  | quad | noisy
  deriving DecidableEq, Repr

def cMin : Int := 1
def cMax : Int := 10

/-- `range(max(C_MIN, c_lo), min(C_MAX, c_hi) + 1)` raises `TypeError` when one of its arguments is a
float: `max(1, c_lo)` is `c_lo` (a float) iff `c_lo > 1`, `min(10, c_hi)` is `c_hi` iff `c_hi < 10`
(finding F8) -/
def cRangeFails (loIsFloat hiIsFloat : Bool) (lo hi : Int) : Bool :=
  (loIsFloat && decide (cMin < lo)) || (hiIsFloat && decide (hi < cMax))

/-- `np.max(o_constraint) <= 0.` ("the noise is constrained to zero"); the noiseless class has no noise -/
def oPinned [LT α] [DecidableLT α] [LE α] [DecidableLE α] (zero : α) (cls : Cls) (cO : Cons α) : Bool :=
  match cls, cO with
  | .quad, _ => true
  | .noisy, .absent => false
  | .noisy, .fixed v => decide (v ≤ zero)
  | .noisy, .interval lo hi => decide (pymax lo hi ≤ zero)

/-- `a` fixed above `y_min`, or its interval starting above `y_min` -/
def aBad [LT α] [DecidableLT α] (yMin : α) : Cons α → Bool
  | .absent => false
  | .fixed a => decide (yMin < a)
  | .interval l _ => decide (yMin < l)

/-- `b` fixed below `y_max`, or its interval ending below `y_max` -/
def bBad [LT α] [DecidableLT α] (yMax : α) : Cons α → Bool
  | .absent => false
  | .fixed b => decide (b < yMax)
  | .interval _ h => decide (h < yMax)

/-- everything decided before the loop over `convex`: sample size, observed part, and the four
`ValueError`s about `a`/`b` against `y_min`/`y_max` (for the noisy class only when the noise is pinned
to zero).  `cFloatPair` records that a `c` interval was given with float end points, on which the code's
`range(...)` raises `TypeError` (finding F8). -/
def precheck [LT α] [DecidableLT α] [LE α] [DecidableLE α] (zero : α) (cls : Cls) (c : Censored α) (lo hi : α)
    (cA cB cO : Cons α) (cFloatPair : Bool) : Except Exc (Stats α) :=
  if c.n < 3 then .error .valueError else
  match stats c lo hi with
  | none => .error .valueError
  | some st =>
    if cFloatPair then .error .rangeTypeError
    else if oPinned zero cls cO && aBad st.yMin cA then .error .valueError
    else if oPinned zero cls cO && bBad st.yMax cB then .error .valueError
    else .ok st

/-- `cs = range(max(C_MIN, c_lo), min(C_MAX, c_hi) + 1)` or `[c]` -/
def cBox (cC : Cons Int) : Box Int := boxOf cMin cMax cC
def nCs (cC : Cons Int) : Nat :=
  match cC with
  | .fixed _ => 1
  | _ => ((cBox cC).hi - (cBox cC).lo + 1).toNat

structure ConvexPlan (α : Type) where
  aBox : Box α
  bBox : Box α
  cBox : Box Int
  oBox : Box α
  /-- the support edges used for the buckets are the box ends `(a₋, b₊)` (noise pinned to 0) -/
  closedLeft : Bool
  edgeLo : α
  edgeHi : α
  deriving Repr

/-- one pass of the loop over `convex` up to the bucket construction: the four boxes (each empty
intersection is an `OptimizationError`, in the order a, b, c, o) and the support edges -/
def planConvex [LT α] [DecidableLT α] [Sub α] [Add α] [Mul α] (zero negInf posInf : α) (cls : Cls)
    (st : Stats α) (range w v : α) (cA cB : Cons α) (cC : Cons Int) (cO : Cons α) :
    Except Exc (ConvexPlan α) :=
  let loE := st.yMin - w * range
  let hiE := st.yMax + w * range
  let aB := match cls with
    | .quad => boxOf loE st.yMin cA
    | .noisy => boxOf loE hiE cA
  if aB.hi < aB.lo then .error .optimizationError else
  let bB := match cls with
    | .quad => boxOf st.yMax hiE cB
    | .noisy => boxOf loE hiE cB
  if bB.hi < bB.lo then .error .optimizationError else
  let cB' := cBox cC
  if cB'.hi < cB'.lo then .error .optimizationError else
  match cls with
  | .quad =>
    .ok { aBox := aB, bBox := bB, cBox := cB', oBox := ⟨zero, zero⟩, closedLeft := true,
          edgeLo := aB.lo, edgeHi := bB.hi }
  | .noisy =>
    let oB := boxOf zero (v * range) cO
    if oB.hi < oB.lo then .error .optimizationError else
    if zero < pymax oB.lo oB.hi then
      .ok { aBox := aB, bBox := bB, cBox := cB', oBox := oB, closedLeft := false, edgeLo := negInf, edgeHi := posInf }
    else
      .ok { aBox := aB, bBox := bB, cBox := cB', oBox := oB, closedLeft := true, edgeLo := aB.lo, edgeHi := bB.hi }

/-! ### parameter packing (the `0 + (a is None) + (b is None) + …` indexing) -/

/-- which of `a, b, c, o` are optimised (`None` in the code) -/
structure Free where
  a : Bool
  b : Bool
  c : Bool
  o : Bool
  deriving DecidableEq, Repr

def freeOf (cls : Cls) (cA cB : Cons α) (cC : Cons Int) (cO : Cons α) : Free :=
  { a := cA.isFree, b := cB.isFree, c := cC.isFree,
    o := match cls with | .quad => false | .noisy => cO.isFree }

/-- the order in which `bounds`, `integrality` and every candidate list their coordinates: `a, b, c, o`,
each present iff free -/
def packG {β : Type} (fr : Free) (va vb vc vo : β) : List β :=
  (if fr.a then [va] else []) ++ (if fr.b then [vb] else []) ++ (if fr.c then [vc] else []) ++
    (if fr.o then [vo] else [])

def b2n (b : Bool) : Nat := if b then 1 else 0

structure Params (β : Type) where
  a : β
  b : β
  c : β
  o : β
  deriving DecidableEq, Repr

/-- the code's read-back in `loss` and in `best_parameters`: a fixed value, or
`parameters[0 + (a is None) + (b is None) + …]`; `none` = `IndexError` -/
def unpack {β : Type} (fr : Free) (fixed : Params β) (θ : List β) : Option (Params β) :=
  let ia := 0
  let ib := 0 + b2n fr.a
  let ic := 0 + b2n fr.a + b2n fr.b
  let io := 0 + b2n fr.a + b2n fr.b + b2n fr.c
  let get (free : Bool) (i : Nat) (v : β) : Option β := if free then θ[i]? else some v
  match get fr.a ia fixed.a, get fr.b ib fixed.b, get fr.c ic fixed.c, get fr.o io fixed.o with
  | some a, some b, some c, some o => some ⟨a, b, c, o⟩
  | _, _, _, _ => none

def boundsList {β : Type} (fr : Free) (a b c o : Box β) : List (Box β) := packG fr a b c o
def integrality (fr : Free) : List Bool := packG fr false false true false

/-! ### size of the initial population (L1085-1132 / L2622-2725) -/

def popSize (cls : Cls) (fr : Free) (ncs : Nat) : Nat :=
  match cls with
  | .quad => ncs * (if fr.a || fr.b then 9 else 1)
  | .noisy =>
    let raw := ncs * (if fr.a || fr.b || fr.o then 7 else 1) * (if fr.a || fr.b then 4 else 1)
    if raw < 90 then raw else 90

def nBounds (fr : Free) : Nat := b2n fr.a + b2n fr.b + b2n fr.c + b2n fr.o

/-- scipy's minimum number of population members -/
def scipyMinPop : Nat := 5

/-- `cs`: the admissible shapes, `range(max(C_MIN, c_lo), min(C_MAX, c_hi) + 1)` or `[c]` -/
def csList (cC : Cons Int) : List Int :=
  match cC with
  | .fixed c => [c]
  | _ => (List.range (nCs cC)).map fun (i : Nat) => (cBox cC).lo + Int.ofNat i

/-! ### the initial population (L1085-1132 / L2622-2725): `itertools.product(*initial_estimates.values())` -/

/-- the estimate list of one parameter as `itertools.product` sees it: absent when the parameter is fixed -/
def choices {β : Type} (free : Bool) (vals : List β) : List (List β) :=
  if free then vals.map fun v => [v] else [[]]

/-- `itertools.product` over the present estimate lists, keys in insertion order `a, b, c, o`
(the last one varies fastest) -/
def candProduct {β : Type} (fr : Free) (as bs cs os : List β) : List (List β) :=
  (choices fr.a as).flatMap fun xa => (choices fr.b bs).flatMap fun xb =>
    (choices fr.c cs).flatMap fun xc => (choices fr.o os).map fun xo => xa ++ (xb ++ (xc ++ xo))

/-- the grid of quantile offsets `ds` of the noiseless class: 3 values when both `a` and `b` are fitted,
9 otherwise -/
def dsQuad (fr : Free) : List Int :=
  if fr.a && fr.b then [0, 2, 4] else [-4, -3, -2, -1, 0, 1, 2, 3, 4]

/-- noiseless class: for every admissible `c`, the product of the clipped estimates of `a` and `b` over
`ds` (tenths; the raw estimates `rawA`, `rawB` are black boxes) and `c` itself -/
def initPopQuad [LT α] [DecidableLT α] (fr : Free) (ofInt : Int → α) (rawA rawB : Int → Int → α)
    (aB bB : Box α) (cs : List Int) : List (List α) :=
  cs.flatMap fun c =>
    candProduct fr ((dsQuad fr).map fun d => clip (rawA c d) aB.lo aB.hi)
      ((dsQuad fr).map fun d => clip (rawB c d) bB.lo bB.hi) [ofInt c] []

/-- the grid of the noisy class: 2 offsets when both `a` and `b` are fitted, 4 otherwise (tenths) -/
def dsNoisy (fr : Free) : List Int :=
  if fr.a && fr.b then [-2, 2] else [-2, -1, 1, 2]

/-- the grid over the shape parameter `s = o / (b - a)`: 7 values (indices) unless `a`, `b`, `o` are all fixed -/
def ssNoisy (fr : Free) : List Nat :=
  if fr.a || fr.b || fr.o then [0, 1, 2, 3, 4, 5, 6] else [0]

/-- noisy class before the selection: for every `c` and `s`, the product of the clipped estimates -/
def initPopNoisyRaw [LT α] [DecidableLT α] (fr : Free) (ofInt : Int → α)
    (rawA rawB : Int → Nat → Int → α) (rawO : Int → Nat → α) (aB bB oB : Box α) (cs : List Int) :
    List (List α) :=
  cs.flatMap fun c => (ssNoisy fr).flatMap fun s =>
    candProduct fr ((dsNoisy fr).map fun d => clip (rawA c s d) aB.lo aB.hi)
      ((dsNoisy fr).map fun d => clip (rawB c s d) bB.lo bB.hi) [ofInt c] [clip (rawO c s) oB.lo oB.hi]

/-- noisy class: the 90 candidates with the least loss (`sorted(...)[:90]`; the order is a black box) -/
def initPopNoisy [LT α] [DecidableLT α] (sortByLoss : List (List α) → List (List α)) (fr : Free)
    (ofInt : Int → α) (rawA rawB : Int → Nat → Int → α) (rawO : Int → Nat → α) (aB bB oB : Box α)
    (cs : List Int) : List (List α) :=
  (sortByLoss (initPopNoisyRaw fr ofInt rawA rawB rawO aB bB oB cs)).take 90

/-! ### the loss (L1016-1054 / L2525-2588) -/

def diffs [Sub α] : List α → List α
  | a :: b :: rest => (b - a) :: diffs (b :: rest)
  | _ => []

/-- `ks * log(diff * (n + 1) / ks) / (n + 1)` -/
def lossTerm [Mul α] [Div α] (ofNat : Nat → α) (log : α → α) (n k : Nat) (d : α) : α :=
  ofNat k * log (d * ofNat (n + 1) / ofNat k) / ofNat (n + 1)

/-- `np.sum(terms, where=ks > 0)` -/
def sumWhere [Add α] [Mul α] [Div α] (ofNat : Nat → α) (log : α → α) (n : Nat) : List (Nat × α) → α → α
  | [], acc => acc
  | (k, d) :: rest, acc =>
    sumWhere ofNat log n rest (if 0 < k then acc + lossTerm ofNat log n k d else acc)

/-- `- np.sum(ks * np.log(np.diff(ps) * (n + 1) / ks) / (n + 1), where=ks > 0)` -/
def loss [Add α] [Sub α] [Mul α] [Div α] [Neg α] (ofNat : Nat → α) (log : α → α) (n : Nat) (ks : List Nat)
    (ps : List α) : α :=
  - sumWhere ofNat log n (ks.zip (diffs ps)) (ofNat 0)

def insertSorted [LT α] [DecidableLT α] (x : α) : List α → List α
  | [] => [x]
  | y :: rest => if x < y then x :: y :: rest else y :: insertSorted x rest

/-- `ps.sort(kind="stable")` (noisy class only) -/
def sortList [LT α] [DecidableLT α] (l : List α) : List α := l.foldr insertSorted []

/-! ### best-of-`convex` (L841-843, L1154-1175 / L2290-2292, L2747-2774) -/

/-- `best_loss = inf; for …: if curr_loss < best_loss: best_loss, best = curr_loss, …` -/
def bestOf {β γ : Type} [LT β] [DecidableLT β] (inf : β) (runs : List (β × γ)) : β × Option γ :=
  runs.foldl (fun acc r => if r.1 < acc.1 then (r.1, some r.2) else acc) (inf, none)

/-- what one pass of the loop contributes: an exception, or the optimiser's `(fun, x)` -/
structure Pass (β : Type) where
  /-- bounds stage (an `OptimizationError`, or fine) -/
  planErr : Option Exc
  /-- the bucket fix-ups did not run out of range -/
  bucketsOk : Bool
  nBounds : Nat
  popSize : Nat
  fn : β
  x : List β

def passOutcome {β : Type} (p : Pass β) : Except Exc (β × List β) :=
  match p.planErr with
  | some e => .error e
  | none =>
    if !p.bucketsOk then .error .indexError
    else if 0 < p.nBounds && p.popSize < scipyMinPop then .error .scipyValueError
    else .ok (p.fn, p.x)

def passesOutcome {β : Type} : List (Pass β) → Except Exc (List (β × List β))
  | [] => .ok []
  | p :: rest =>
    match passOutcome p with
    | .error e => .error e
    | .ok r =>
      match passesOutcome rest with
      | .error e => .error e
      | .ok rs => .ok (r :: rs)

/-- the whole loop and what follows it: the first exception in loop order, else the parameters of the
pass with the least `fun` (an index into the passes, and its coordinates), else `OptimizationError`
when no pass has a finite loss -/
def fitOutcome {β : Type} [LT β] [DecidableLT β] (inf : β) (isFinite : β → Bool) (passes : List (Pass β)) :
    Except Exc (Nat × List β) :=
  match passesOutcome passes with
  | .error e => .error e
  | .ok rs =>
    let indexed := (List.range rs.length).zip rs |>.map fun (i, r) => (r.1, (i, r.2))
    match bestOf inf indexed with
    | (best, some ix) => if isFinite best then .ok ix else .error .optimizationError
    | (_, none) => .error .optimizationError

/-! ### everything handed to the optimiser, as a function of the censored summary -/

/-- what one pass of the loop hands to the optimiser (besides the black boxes): the boxes, the bucket
edges and the bucket counts (`none` = `IndexError`) -/
structure PassInputs (α : Type) where
  plan : ConvexPlan α
  zs : List α
  ks : Option (List Nat)

structure Inputs (α : Type) where
  n : Nat
  nLower : Nat
  nUpper : Nat
  pre : Except Exc (Stats α)
  free : Free
  popSize : Nat
  passes : List (Except Exc (PassInputs α))

/-- `rndOf observed` is `np.round(·, decimals)` with `decimals` computed from the observed values;
`ws` are the factors `w` per value of `convex`. -/
def fitInputsOf [LT α] [DecidableLT α] [LE α] [DecidableLE α] [DecidableEq α] [Sub α] [Add α] [Mul α]
    (zero negInf posInf : α) (rndOf : List α → α → α) (cls : Cls) (lo hi : α) (cA cB : Cons α) (cC : Cons Int)
    (cO : Cons α) (cFloatPair : Bool) (ws : List α) (v : α) (c : Censored α) : Inputs α :=
  let pre := precheck zero cls c lo hi cA cB cO cFloatPair
  let fr := freeOf cls cA cB cC cO
  let rnd := rndOf c.observed
  { n := c.n, nLower := c.nLower, nUpper := c.nUpper, pre := pre, free := fr
    popSize := popSize cls fr (nCs cC)
    passes := match pre with
      | .error _ => []
      | .ok st =>
        ws.map fun w =>
          match planConvex zero negInf posInf cls st (st.yMax - st.yMin) w v cA cB cC cO with
          | .error e => .error e
          | .ok p =>
            let ll := if c.nLower = 0 then none else some (rnd lo)
            let lu := if c.nUpper = 0 then none else some (rnd hi)
            let obs := c.observed.map rnd
            .ok { plan := p, zs := zsModel (rnd p.edgeLo) ll obs lu (rnd p.edgeHi)
                  ks := ksModel? (rnd p.edgeLo) ll obs lu (rnd p.edgeHi) c.nLower c.nUpper } }

def fitInputs [LT α] [DecidableLT α] [LE α] [DecidableLE α] [DecidableEq α] [Sub α] [Add α] [Mul α]
    (zero negInf posInf : α) (rndOf : List α → α → α) (cls : Cls) (lo hi : α) (cA cB : Cons α) (cC : Cons Int)
    (cO : Cons α) (cFloatPair : Bool) (ws : List α) (v : α) (ys : List α) : Inputs α :=
  fitInputsOf zero negInf posInf rndOf cls lo hi cA cB cC cO cFloatPair ws v (censor ys lo hi)

/-! ### argument validation (L613-732 / L2052-2179): a decision table over what `np.array(·)` yields -/

structure YsDesc where
  ndim : Nat
  len : Nat
  allFinite : Bool

structure LimDesc where
  ndim : Nat
  len : Nat
  allReal : Bool
  anyNaN : Bool
  /-- `limits[0] < limits[1]` -/
  proper : Bool

/-- a constraint on `a`, `b`, `c` or `o` after `np.array(constraint)[()]`; `none` entries are NaN -/
inductive NumDesc (α : Type) where
  | badShape
  | notReal
  | scalar (v : Option α)
  | pair (lo hi : Option α)

structure ConvexDesc where
  isScalar : Bool
  ndim : Nat
  len : Nat
  isBool : Bool
  hasDup : Bool

inductive Key where
  | a | b | c | o
  deriving DecidableEq, Repr

/-- one entry of the `constraints` mapping, in the mapping's iteration order -/
inductive ConsItem (α : Type) where
  | num (key : Key) (d : NumDesc α)
  | convex (d : ConvexDesc)
  /-- a key that is not a parameter of the class -/
  | other

def checkNum [LT α] [DecidableLT α] (zero one ten : α) (isInt : α → Bool) (key : Key) : NumDesc α → Option Exc
  | .badShape => some .typeError
  | .notReal => some .typeError
  | .scalar none => some .valueError
  | .pair none _ => some .valueError
  | .pair _ none => some .valueError
  | .scalar (some v) =>
    if key = .c then
      if !isInt v then some .valueError
      else if v < one || ten < v then some .valueError else none
    else if key = .o then
      if v < zero then some .valueError else none
    else none
  | .pair (some lo) (some hi) =>
    if hi < lo then some .valueError
    else if key = .c then
      if !isInt lo || !isInt hi then some .valueError
      else if ten < lo || hi < one then some .valueError else none
    else if key = .o then
      if lo < zero || hi < zero then some .valueError else none
    else none

def checkConvex (d : ConvexDesc) : Option Exc :=
  if !d.isScalar && d.ndim != 1 then some .typeError
  else if !d.isScalar && d.len == 0 then some .valueError
  else if !d.isBool then some .typeError
  else if d.hasDup then some .valueError
  else none

def checkItem [LT α] [DecidableLT α] (zero one ten : α) (isInt : α → Bool) (cls : Cls) : ConsItem α → Option Exc
  | .other => some .valueError
  | .convex cd => checkConvex cd
  | .num key nd =>
    -- the noiseless class has no parameter `o`: unrecognised key
    if key = .o && cls = .quad then some .valueError else checkNum zero one ten isInt key nd

def checkCons [LT α] [DecidableLT α] (zero one ten : α) (isInt : α → Bool) (cls : Cls) :
    List (ConsItem α) → Option Exc
  | [] => none
  | it :: rest =>
    match checkItem zero one ten isInt cls it with
    | some e => some e
    | none => checkCons zero one ten isInt cls rest

/-- the validation prefix in the order of the code -/
def validate [LT α] [DecidableLT α] (zero one ten : α) (isInt : α → Bool) (cls : Cls) (ys : YsDesc)
    (lim : LimDesc) (cons : List (ConsItem α)) : Option Exc :=
  if ys.ndim != 1 then some .valueError
  else if ys.len == 0 then some .valueError
  else if !ys.allFinite then some .valueError
  else if lim.ndim != 1 then some .valueError
  else if lim.len != 2 then some .valueError
  else if !lim.allReal then some .typeError
  else if lim.anyNaN then some .valueError
  else if !lim.proper then some .valueError
  else checkCons zero one ten isInt cls cons

end Opda.Fit
