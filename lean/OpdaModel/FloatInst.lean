import OpdaModel.Num
import OpdaModel.Quadratic
import OpdaModel.FloatSpecial
/-!
The `Float` instance of the operations class: the executable reading of the polymorphic models.
`pow`, `exp`, `log` are the C library's; `logGamma` is `Opda.Special.logGammaF`.  The normal
distribution functions are only used by models that do not go through this class (the noisy class has
its own `Float` stack in `NoisyFloat.lean`); they are given by a plain series so that the instance is
total, and no check relies on them.
-/
namespace Opda

/-- erf by its Taylor series (adequate for |x| ≤ 3; not used by any check) -/
def erfSeries (x : Float) : Float := Id.run do
  let mut term := x
  let mut sum := x
  for k in [1:60] do
    let kf := k.toFloat
    term := term * (-(x*x)) / kf
    sum := sum + term / (2.0*kf + 1.0)
  return 2.0 / Float.sqrt 3.141592653589793 * sum

instance : Num Float where
  ofNat := Float.ofNat
  decLt := fun a b => Float.decLt a b
  decLe := fun a b => Float.decLe a b
  eq := fun a b => a == b
  pow := Float.pow
  exp := Float.exp
  log := Float.log
  logGamma := Special.logGammaF
  normalCdf := fun x => 0.5 * (1.0 + erfSeries (x / Float.sqrt 2.0))
  normalPdf := fun x => 0.3989422804014327 * Float.exp (-0.5 * x * x)
  normalPpf := fun _ => 0.0 / 0.0

/-- a second `Float` reading of the same class in which every transcendental result is nudged by a
pseudo-random number of ulps in `[-ulps, ulps]` (DESIGN §1.2): evaluating the *same polymorphic term*
at this instance measures how strongly the term amplifies a last-place difference between two C
libraries, which is what the comparator's allowance is made of. -/
def nudgeF (seed ulps : Nat) (x : Float) : Float :=
  if ulps == 0 || x.isNaN || x.isInf || x == 0.0 then x else
  let b := x.toBits.toNat
  -- seed 0: always +ulps; seed 1: always −ulps (full range for a single call); otherwise pseudo-random
  -- in [−ulps, ulps] (so that the errors of several calls do not cancel systematically)
  if seed == 0 then Float.ofBits (UInt64.ofNat (b + ulps))
  else if seed == 1 then Float.ofBits (UInt64.ofNat (b - ulps))
  else
    let h := (b * 6364136223846793005 + seed * 1442695040888963407 + 12345) % 18446744073709551616
    let k := (h / 65536) % (2 * ulps + 1)
    Float.ofBits (UInt64.ofNat (b + k - ulps))

@[instance_reducible] def jitterNum (seed ulps : Nat) : Num Float where
  ofNat := Float.ofNat
  decLt := fun a b => Float.decLt a b
  decLe := fun a b => Float.decLe a b
  eq := fun a b => a == b
  pow := fun x y => nudgeF seed ulps (Float.pow x y)
  exp := fun x => nudgeF seed ulps (Float.exp x)
  log := fun x => nudgeF seed ulps (Float.log x)
  logGamma := fun x => nudgeF seed ulps (Special.logGammaF x)
  normalCdf := fun x => 0.5 * (1.0 + erfSeries (x / Float.sqrt 2.0))
  normalPdf := fun x => 0.3989422804014327 * Float.exp (-0.5 * x * x)
  normalPpf := fun _ => 0.0 / 0.0

end Opda
