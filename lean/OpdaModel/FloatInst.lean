import OpdaModel.Num
import OpdaModel.Quadratic
namespace Opda

/-- erf by W. J. Cody-style rational approximations would go here; probe uses a series/cf placeholder -/
def erfSeries (x : Float) : Float := Id.run do
  -- Taylor series, adequate for |x| ≤ 3 in this probe
  let mut term := x
  let mut sum := x
  for k in [1:60] do
    let kf := k.toFloat
    term := term * (-(x*x)) / kf
    sum := sum + term / (2.0*kf + 1.0)
  return 2.0 / Float.sqrt 3.141592653589793 * sum

instance : Num Float where
  ofNat := Float.ofNat
  decLt := fun a b => Float.decLt a b
  decLe := fun a b => Float.decLe a b
  eq := fun a b => a == b
  pow := Float.pow
  exp := Float.exp
  log := Float.log
  logGamma := fun _ => 0.0
  normalCdf := fun x => 0.5 * (1.0 + erfSeries (x / Float.sqrt 2.0))
  normalPdf := fun x => 0.3989422804014327 * Float.exp (-0.5 * x * x)
  normalPpf := fun _ => 0.0
end Opda
open Opda in
#eval Quad.cdf (α := Float) { a := 0.0, b := 2.0, c := 3, convex := true } 0.7
open Opda in
#eval Quad.ppf (α := Float) { a := 0.0, b := 2.0, c := 3, convex := false } 0.3
open Opda in
#eval (Num.normalCdf (1.0 : Float))
