/-!
# State machine of opda's randomised entry points (core Lean only)

What the model mirrors (constants and keys pinned by hand from the source):

* `opda.random.set_seed(seed)` **rebinds** `DEFAULT_GENERATOR` to a *new* object
  (`np.random.default_rng(seed)`); `set_seed(generator)` binds the global name to *that very object*
  (`default_rng` returns a `Generator` argument unchanged);
* every entry point resolves `generator if generator is not None else opda.random.DEFAULT_GENERATOR`
  at call time and draws from that one object only;
* `QuadraticDistribution.sample` = `ppf(generator.uniform(0, 1, size))`,
  `NoisyQuadraticDistribution.sample` = `uniform(size)` then `normal(0, o, size)`,
  `EmpiricalDistribution.sample` = `generator.choice(ys, p=ws, size)` (= `random(size)` when `ws` is
  given, `integers(0, n, size)` otherwise);
* `confidence_bands`: `_dkw_band_weights` / `_ks_band_weights` are `functools.cache`d on
  `(n, confidence)` and draw nothing; `_ld_band_weights` is `functools.cache`d on
  `(n, confidence, kind, generator, n_jobs)` — **the generator enters the key as an object**
  (identity hash), `n_jobs=None` has already been replaced by `os.cpu_count()` — and on a miss draws
  `generator.random((100_000, n))` once, in the parent process, before any work is farmed out;
  the returned distributions are built from `np.diff(cached)[unsorting]`, i.e. from *copies*;
* `fit` hands the generator to `differential_evolution(seed=generator)`.

Values are *terms* (the free interpretation): `sampled cls dist k seed pos` stands for
"the function of class/arguments applied to `stream seed pos k`".  Two equal terms are equal under every
interpretation of `stream`; the correspondence check compares exactly these equalities with bytes.

A uniform draw of `k` doubles advances a generator by exactly `k` steps.  The number of steps consumed
by `normal` (ziggurat), `integers` (buffered rejection) and the optimiser depends on the data; it is
an arbitrary function `cost` of the request and the state, and every theorem holds for every `cost`.
-/
namespace Opda.Rng

abbrev GenRef := Nat
abbrev Handle := Nat

/-- association lists as finite maps (first match wins) -/
def assoc {κ β : Type} [DecidableEq κ] (k : κ) : List (κ × β) → Option β
  | [] => none
  | (k', v) :: rest => if k = k' then some v else assoc k rest

/-- overwrite every binding of `k` -/
def update {κ β : Type} [DecidableEq κ] (k : κ) (v : β) : List (κ × β) → List (κ × β)
  | [] => []
  | (k', v') :: rest => (if k = k' then (k', v) else (k', v')) :: update k v rest

/-- position of a generator in its stream -/
structure GenState where
  seed : Nat
  pos : Nat
  deriving DecidableEq, Repr

inductive Kind | equalTailed | highestDensity
  deriving DecidableEq, Repr
inductive DetMethod | dkw | ks
  deriving DecidableEq, Repr
inductive Method
  | det (m : DetMethod)
  | ld (k : Kind)
  deriving DecidableEq, Repr
/-- the three distribution classes; the empirical class draws differently with and without weights -/
inductive Cls | quadratic | noisy | empWeighted | empUniform
  deriving DecidableEq, Repr

/-- the `functools.cache` keys, exactly as in the code -/
inductive Key
  | det (m : DetMethod) (n conf : Nat)
  | ld (n conf : Nat) (kind : Kind) (gen : GenRef) (njobs : Nat)
  deriving DecidableEq, Repr

/-- results as terms over the uninterpreted `stream seed pos k` -/
inductive Value
  | unit
  | invalid
  | sampled (cls : Cls) (dist count seed pos : Nat)
  | detTable (m : DetMethod) (n conf : Nat)
  | ldTable (kind : Kind) (n conf seed pos : Nat)
  | bands (ys : Nat) (table : Value)
  | fitted (args seed pos : Nat)
  | junk (v : Nat)
  deriving DecidableEq, Repr

inductive Prim | uniform | normal | integers | optimiser
  deriving DecidableEq, Repr

/-- one request to a generator: `k` values of kind `prim` (for the optimiser: `args` identifies the problem) -/
structure Req where
  prim : Prim
  k : Nat
  args : Nat
  deriving DecidableEq, Repr

/-- steps consumed by a data-dependent request, as a function of the request and the state before it -/
abbrev Cost := Req → GenState → Nat

/-- exact for uniform doubles (one 64-bit step each), `cost` otherwise -/
def consumed (cost : Cost) (r : Req) (g : GenState) : Nat :=
  match r.prim with
  | .uniform => r.k
  | _ => cost r g

def advance (cost : Cost) (r : Req) (g : GenState) : GenState :=
  { g with pos := g.pos + consumed cost r g }

/-- `n_trials` of `_ld_band_weights` -/
def nTrials : Nat := 100000

/-- the requests `sample` makes, in order -/
def sampleReqs (cls : Cls) (dist count : Nat) : List Req :=
  match cls with
  | .quadratic => [⟨.uniform, count, dist⟩]
  | .noisy => [⟨.uniform, count, dist⟩, ⟨.normal, count, dist⟩]
  | .empWeighted => [⟨.uniform, count, dist⟩]
  | .empUniform => [⟨.integers, count, dist⟩]

def advanceAll (cost : Cost) (rs : List Req) (g : GenState) : GenState :=
  rs.foldl (fun g r => advance cost r g) g

/-- `asCode`: the ld table is memoised on the generator object, as in the repository.
`spec`: the randomised table is recomputed from the generator on every call (what the property asks). -/
inductive Policy | asCode | spec
  deriving DecidableEq, Repr

structure State where
  /-- the object `opda.random.DEFAULT_GENERATOR` is bound to -/
  global : GenRef
  /-- every generator object alive, with its position -/
  gens : List (GenRef × GenState)
  nextRef : GenRef
  /-- array objects: cache cells and the arrays handed to callers -/
  heap : List (Handle × Value)
  nextHandle : Handle
  /-- the `functools.cache` tables -/
  cache : List (Key × Handle)
  /-- arrays handed to callers, most recent first -/
  returned : List Handle
  /-- ghost: keys of all ld-band calls made so far (the predicate of finding F1 reads this) -/
  ldCalls : List Key
  /-- `np.random.get_state()` -/
  legacy : Nat
  /-- `os.cpu_count()` -/
  cpu : Nat
  deriving DecidableEq, Repr

/-- a new process: the global generator was seeded from OS entropy (`seed0`), nothing is cached -/
def init (seed0 legacy cpu : Nat) : State :=
  { global := 0, gens := [(0, ⟨seed0, 0⟩)], nextRef := 1, heap := [], nextHandle := 0, cache := [],
    returned := [], ldCalls := [], legacy := legacy, cpu := cpu }

/-- a new process whose generator objects have been put into the states they have in `s` -/
def fresh (s : State) : State :=
  { s with heap := [], nextHandle := 0, cache := [], returned := [], ldCalls := [] }

inductive Op
  /-- `opda.random.set_seed(z)` -/
  | setSeed (z : Nat)
  /-- `opda.random.set_seed(g)` for a generator object -/
  | setGlobal (r : GenRef)
  /-- `np.random.default_rng(z)` in user code; the object gets reference `nextRef` -/
  | newGen (z : Nat)
  | sample (cls : Cls) (dist count : Nat) (gen : Option GenRef)
  | bands (m : Method) (n conf ys : Nat) (gen : Option GenRef) (njobs : Option Nat)
  | fit (args : Nat) (gen : Option GenRef)
  /-- the caller overwrites the arrays of the `i`-th most recently returned object -/
  | mutateReturned (i : Nat) (v : Nat)
  deriving DecidableEq, Repr

/-- what the caller (and the correspondence check) sees of one call -/
structure Out where
  value : Value
  /-- the object handed to the caller -/
  handle : Option Handle := none
  /-- the generator object the call resolved -/
  used : Option GenRef := none
  /-- cache hit / miss / no cache involved -/
  hit : Option Bool := none
  /-- number of 64-bit steps consumed, when the model knows it exactly -/
  steps : Option Nat := none
  deriving DecidableEq, Repr

/-- the generators, the global binding and the legacy state: everything a later call can depend on
besides the cache -/
structure RngView where
  global : GenRef
  gens : List (GenRef × GenState)
  nextRef : GenRef
  legacy : Nat
  cpu : Nat
  deriving DecidableEq, Repr

def State.view (s : State) : RngView :=
  { global := s.global, gens := s.gens, nextRef := s.nextRef, legacy := s.legacy, cpu := s.cpu }

/-- hand a *copy* to the caller: a new array object holding `v` -/
def ret (s : State) (v : Value) (used : GenRef) (hit : Option Bool) (steps : Option Nat) : State × Out :=
  ({ s with heap := (s.nextHandle, v) :: s.heap, nextHandle := s.nextHandle + 1,
            returned := s.nextHandle :: s.returned },
   { value := v, handle := some s.nextHandle, used := some used, hit := hit, steps := steps })

/-- store a table in a new cache cell -/
def memo (s : State) (key : Key) (tbl : Value) : State :=
  { s with heap := (s.nextHandle, tbl) :: s.heap, nextHandle := s.nextHandle + 1,
           cache := (key, s.nextHandle) :: s.cache }

/-- `nth` of a list -/
def nth? {β : Type} : Nat → List β → Option β
  | _, [] => none
  | 0, x :: _ => some x
  | k+1, _ :: rest => nth? k rest

/-- the ld key a `bands` call uses in state `s` (generator resolved, `n_jobs=None` → cpu count) -/
def ldKey (s : State) : Op → Option Key
  | .bands (.ld kind) n conf _ gen njobs => some (.ld n conf kind (gen.getD s.global) (njobs.getD s.cpu))
  | _ => none

/-- exact step count of a request list, when every request is a uniform draw -/
def exactSteps : List Req → Option Nat
  | [] => some 0
  | r :: rest =>
    match r.prim, exactSteps rest with
    | .uniform, some t => some (r.k + t)
    | _, _ => none

def step (P : Policy) (cost : Cost) (s : State) : Op → State × Out
  | .setSeed z =>
    ({ s with global := s.nextRef, gens := (s.nextRef, ⟨z, 0⟩) :: s.gens, nextRef := s.nextRef + 1 },
     { value := .unit, used := some s.nextRef })
  | .setGlobal r =>
    match assoc r s.gens with
    | some _ => ({ s with global := r }, { value := .unit, used := some r })
    | none => (s, { value := .invalid })
  | .newGen z =>
    ({ s with gens := (s.nextRef, ⟨z, 0⟩) :: s.gens, nextRef := s.nextRef + 1 },
     { value := .unit, used := some s.nextRef })
  | .sample cls dist count gen =>
    let r := gen.getD s.global
    match assoc r s.gens with
    | none => (s, { value := .invalid })
    | some g =>
      let reqs := sampleReqs cls dist count
      ret { s with gens := update r (advanceAll cost reqs g) s.gens }
        (.sampled cls dist count g.seed g.pos) r none (exactSteps reqs)
  | .bands (.det dm) n conf ys gen _ =>
    let r := gen.getD s.global
    match assoc r s.gens with
    | none => (s, { value := .invalid })
    | some _ =>
      match assoc (Key.det dm n conf) s.cache with
      | some h => ret s (.bands ys ((assoc h s.heap).getD .invalid)) r (some true) (some 0)
      | none => ret (memo s (.det dm n conf) (.detTable dm n conf)) (.bands ys (.detTable dm n conf)) r
                  (some false) (some 0)
  | .bands (.ld kind) n conf ys gen njobs =>
    let r := gen.getD s.global
    let key := Key.ld n conf kind r (njobs.getD s.cpu)
    match assoc r s.gens with
    | none => (s, { value := .invalid })
    | some g =>
      let s0 := { s with ldCalls := key :: s.ldCalls }
      match (if P = .asCode then assoc key s.cache else none) with
      | some h => ret s0 (.bands ys ((assoc h s.heap).getD .invalid)) r (some true) (some 0)
      | none =>
        let tbl := Value.ldTable kind n conf g.seed g.pos
        let req : Req := ⟨.uniform, nTrials * n, 0⟩
        ret (memo { s0 with gens := update r (advance cost req g) s.gens } key tbl) (.bands ys tbl) r
          (some false) (some (nTrials * n))
  | .fit args gen =>
    let r := gen.getD s.global
    match assoc r s.gens with
    | none => (s, { value := .invalid })
    | some g =>
      ret { s with gens := update r (advance cost ⟨.optimiser, 0, args⟩ g) s.gens }
        (.fitted args g.seed g.pos) r none none
  | .mutateReturned i v =>
    match nth? i s.returned with
    | some h => ({ s with heap := update h (.junk v) s.heap }, { value := .unit })
    | none => (s, { value := .unit })

/-- the generator argument of a call, if it has one and it is given explicitly -/
def Op.explicit : Op → Option GenRef
  | .sample _ _ _ gen => gen
  | .bands _ _ _ _ gen _ => gen
  | .fit _ gen => gen
  | _ => none

/-- the op neither rebinds the global generator nor draws from the object `g` implicitly or explicitly -/
def Op.avoids (g : GenRef) : Op → Bool
  | .setSeed _ => false
  | .setGlobal _ => false
  | .newGen _ => true
  | .mutateReturned _ _ => true
  | .sample _ _ _ gen => match gen with | some r => r != g | none => false
  | .bands _ _ _ _ gen _ => match gen with | some r => r != g | none => false
  | .fit _ gen => match gen with | some r => r != g | none => false

/-- state after a history -/
def exec (P : Policy) (cost : Cost) (s : State) : List Op → State
  | [] => s
  | o :: os => exec P cost (step P cost s o).1 os

/-- outputs of a history -/
def outs (P : Policy) (cost : Cost) (s : State) : List Op → List Out
  | [] => []
  | o :: os => (step P cost s o).2 :: outs P cost (step P cost s o).1 os

/-- what is compared between a polluted process and a fresh one: the returned value and the
generators/global/legacy afterwards -/
def observe (P : Policy) (cost : Cost) (s : State) (o : Op) : Value × RngView :=
  ((step P cost s o).2.value, (step P cost s o).1.view)

/-- the F1 predicate on a history: the call is an ld-band call whose key
`(n, confidence, kind, generator object, n_jobs)` was used by an earlier ld-band call -/
def repeatsLdKey (s : State) (o : Op) : Bool :=
  match ldKey s o with
  | some key => s.ldCalls.contains key
  | none => false

/-- nominal cost used by the driver and the witnesses (the theorems quantify over every cost): a
data-dependent request is charged a large amount that depends on the request *and on the position it is made
at*, so that in the driver two generators are at the same nominal position only if they were seeded alike and
served the same requests in the same order (which is when the implementation's generators are in the same
state). -/
def nominalCost : Cost := fun r g =>
  let code := match r.prim with | .uniform => 0 | .normal => 1 | .integers => 2 | .optimiser => 3
  1099511627776 + (g.pos * 7919 + r.k * 104729 + r.args * 15485863 + code * 1299709) % 549755813888

end Opda.Rng
