/-!
Steck's determinant (core Lean only): for `0 ≤ α₁ ≤ … ≤ αₙ`, `β₁ ≤ … ≤ βₙ ≤ 1` and `U₍₁₎ ≤ … ≤ U₍ₙ₎` the order
statistics of `n` independent uniforms,
  `P[αᵢ ≤ U₍ᵢ₎ ≤ βᵢ ∀ i] = n! · det[ (βᵢ − αⱼ)₊^(j−i+1) / (j−i+1)! ]`   (entries with `j − i + 1 < 0` are 0)
(G. P. Steck, *Rectangle probabilities for uniform order statistics and the probability that the empirical
distribution function lies between two distribution functions*, Ann. Math. Statist. 42 (1971)).
This file is the exact-rational *evaluation* of the right-hand side; the identity itself is cited, not proved.
Since `OpdaModel/RectProb.lean` (whose evaluator is *proved* to be this probability, `Opda.Props.C01.rect_coverage_is_volume`)
the determinant is only a second, independent evaluator: the C01 harness requires both to return the same rational.
-/
namespace Opda.Steck

def factorial : Nat → Nat
  | 0 => 1
  | n+1 => (n+1) * factorial n

/-- entry `(i, j)`, 0-based -/
def entry (alpha beta : Array Rat) (i j : Nat) : Rat :=
  if j + 1 < i then 0
  else
    let e := j + 1 - i
    let d := beta[i]! - alpha[j]!
    if e = 0 then 1 else if d ≤ 0 then 0 else d ^ e / (factorial e : Rat)

def matrix (alpha beta : Array Rat) : Array (Array Rat) :=
  (Array.range alpha.size).map fun i => (Array.range alpha.size).map fun j => entry alpha beta i j

/-- determinant by Gaussian elimination over `Rat` (first non-zero pivot) -/
def det (m : Array (Array Rat)) : Rat := Id.run do
  let n := m.size
  let mut a := m
  let mut d : Rat := 1
  for c in [0:n] do
    -- find pivot
    let mut p := c
    while p < n && a[p]![c]! == 0 do
      p := p + 1
    if p == n then
      return 0
    if p != c then
      let rp := a[p]!
      let rc := a[c]!
      a := (a.set! p rc).set! c rp
      d := -d
    let piv := a[c]![c]!
    d := d * piv
    let rowc := a[c]!
    for r in [c+1:n] do
      let f := a[r]![c]! / piv
      if f != 0 then
        let rowr := a[r]!
        a := a.set! r ((Array.range n).map fun k => rowr[k]! - f * rowc[k]!)
  return d

/-- `P[αᵢ ≤ U₍ᵢ₎ ≤ βᵢ ∀ i]` by Steck's formula -/
def coverage (alpha beta : Array Rat) : Rat :=
  (factorial alpha.size : Rat) * det (matrix alpha beta)

end Opda.Steck
