/-!
# `sort_by_first` (core Lean only)

Mirror of `opda.utils.sort_by_first`: `sorting = argsort(args[0])`, every array is indexed by the
same `sorting`.  `argsort` is modelled by the stable merge sort of the index list (numpy's default
`argsort` is *not* stable; the property only asks for *a* permutation that sorts the first array, so
the correspondence compares the sorted first array exactly and the rows as a multiset).
-/
namespace Opda.SortFirst

/-- indices `0..n−1` sorted (stably) by their key -/
def argsort {κ : Type} (le : κ → κ → Bool) (d : κ) (keys : List κ) : List Nat :=
  (List.range keys.length).mergeSort fun i j => le (keys.getD i d) (keys.getD j d)

/-- fancy indexing `col[sorting]` -/
def gather {κ : Type} (d : κ) (col : List κ) (idx : List Nat) : List κ := idx.map fun i => col.getD i d

inductive Result (κ : Type) where
  /-- "All argument arrays must have the same shape." -/
  | valueError
  | arrays (cols : List (List κ))

/-- the whole function on 1-D arrays; no arguments give the empty tuple -/
def sortByFirst {κ : Type} (le : κ → κ → Bool) (d : κ) : List (List κ) → Result κ
  | [] => .arrays []
  | first :: rest =>
    if rest.any (fun c => c.length != first.length) then .valueError
    else
      let s := argsort le d first
      .arrays ((first :: rest).map fun c => gather d c s)

end Opda.SortFirst
