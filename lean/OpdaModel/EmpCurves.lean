import OpdaModel.Emp
/-!
Model of the tuning-curve methods of `EmpiricalDistribution` (core Lean only).
`average`: `Σ_j v_j · (F_j^n − F_{j−1}^n)` over the padded support, with the code's guard that an atom
whose weight difference is exactly zero contributes nothing (so that zero-mass atoms at ±∞ are harmless).
The value type `E` is abstracted through `scale : α → E → V`, the product "weight × value".
-/
namespace Opda.Emp
variable {E α : Type}

/-- `(value, F_j, F_{j-1})` triples: `_ws_cumsum` against `_ws_cumsum_prev`. -/
def withPrevAux (prev : α) : List (E × α) → List (E × α × α)
  | [] => []
  | (u, c) :: rest => (u, c, prev) :: withPrevAux c rest

def withPrev [Zero α] (cumn : List (E × α)) : List (E × α × α) := withPrevAux 0 cumn

/-- weights of the law of the best of `n` draws on each atom.  `pw x` is `x ^ n`. -/
def bestWeights [Sub α] [One α] (pw : α → α) (minimize : Bool) (tr : List (E × α × α)) : List (E × α) :=
  tr.map fun (u, c, p) => (u, if minimize then pw (1 - p) - pw (1 - c) else pw c - pw p)

/-- naive curve: best of the first `min n N` observations in the given order -/
def naive [LT E] [DecidableLT E] (minimize : Bool) (n : Nat) : List E → Option E
  | [] => none
  | y :: ys =>
    some <| (ys.take (n - 1)).foldl (fun acc v => if minimize then (if v < acc then v else acc) else (if acc < v then v else acc)) y

/-- binomial coefficient by the multiplicative formula (`C(n,k) = Π_{i<k} (n-i)/(i+1)`, every step exact) -/
def chooseFast (n k : Nat) : Nat := (List.range k).foldl (fun acc i => acc * (n - i) / (i + 1)) 1

/-- weights of the order statistics in the V-statistic curve: `(i/N)^n − ((i−1)/N)^n`, `i = 1..N` -/
def vWeights [Sub α] [Div α] [NatCast α] (pw : α → α) (N : Nat) : List α :=
  (List.range N).map fun i => pw (((i + 1 : Nat) : α) / (N : α)) - pw ((i : α) / (N : α))

/-- weights of the order statistics in the U-statistic curve: `(C(i,n) − C(i−1,n)) / C(N,n)`, `i = 1..N`,
with `n` clipped to `N` -/
def uWeights [Sub α] [Div α] [NatCast α] (n N : Nat) : List α :=
  let m := min n N
  (List.range N).map fun i =>
    (((chooseFast (i + 1) m : Nat) : α) - ((chooseFast i m : Nat) : α)) / ((chooseFast N m : Nat) : α)

/-- the `mean` and `variance` attributes: `np.mean`/`np.var` without weights, and
`np.sum(ws*ys, where=ws>0)`, `np.sum(ws*(ys-mean)**2, where=ws>0)` with them. -/
def moments [Add α] [Sub α] [Mul α] [Div α] [Zero α] [LT α] [DecidableLT α] [NatCast α]
    (ys : List α) (ws : Option (List α)) : α × α :=
  match ws with
  | none =>
    let n : α := (ys.length : α)
    let mean := (ys.foldl (· + ·) 0) / n
    (mean, (ys.foldl (fun acc y => acc + (y - mean) * (y - mean)) 0) / n)
  | some ws =>
    let pairs := (ys.zip ws).filter fun p => 0 < p.2
    let mean := pairs.foldl (fun acc p => acc + p.2 * p.1) 0
    (mean, pairs.foldl (fun acc p => acc + p.2 * ((p.1 - mean) * (p.1 - mean))) 0)

end Opda.Emp
