import OpdaModel.BetaBinom
/-!
# Rectangle probability of uniform order statistics by a cell-by-cell dynamic programme (core Lean only)

For level lists `α₀ … αₙ₋₁`, `β₀ … βₙ₋₁` (0-based) and `U₍₀₎ ≤ … ≤ U₍ₙ₋₁₎` the order statistics of `n` independent
uniforms on `[0,1]`,

  `coverage α β = P[ αᵢ ≤ U₍ᵢ₎ ≤ βᵢ  for all i ]`     (theorem `Opda.Props.C01.rect_coverage_is_volume`).

With `N(t) = #{j : U_j ≤ t}`:  `U₍ᵢ₎ ≤ βᵢ ⇔ i + 1 ≤ N(βᵢ)` and (almost surely) `αᵢ ≤ U₍ᵢ₎ ⇔ N(αᵢ) ≤ i`.  So the event
only depends on the *cell* each `U_j` falls in, the cells being the intervals `(q₍ₖ₋₁₎, qₖ]` between consecutive points
of the sorted duplicate-free list `q = 0 :: (levels inside (0,1)) ++ [1]` (the first cell `(0,0]` is empty: it only
carries the constraint at the point `0`).  A count `c = N(qₖ)` is *allowed* at the point `qₖ` iff
`βᵢ ≤ qₖ → i + 1 ≤ c` and `qₖ ≤ αᵢ → c ≤ i` for every `i` (`okAt`).  Grouping the assignments of points to cells by
the numbers `mₖ` of points per cell,

  `P = Σ_{m allowed, Σ m = n}  n!/∏ mₖ! · ∏ lenₖ^mₖ`,

which `run` computes from the last cell to the first: the table entry `c` for the cells `k, k+1, …` is the weight of
all ways to distribute the `n − c` points not yet placed over these cells, `c` points lying to the left:

  `T_k[c] = Σ_{m ≤ n−c}  C(n−c, m) · lenₖ^m · [c+m allowed at qₖ] · T_{k+1}[c+m]`,   `T_K[c] = [c = n]`.

`O(K·n²)` rational operations, `K ≤ 2n + 2` cells; every intermediate value is a sum of products of the inputs
(no division), so for dyadic inputs (doubles) all numbers stay dyadic.
-/
namespace Opda.RectProb

/-- insertion into a strictly increasing list (an element already present is not inserted again) -/
def insertPt (x : Rat) : List Rat → List Rat
  | [] => [x]
  | y :: ys => if x < y then x :: y :: ys else if x = y then y :: ys else y :: insertPt x ys

/-- the break points `0 = q₀ < q₁ < … < q_{K−1} = 1`: 0, the levels strictly inside `(0,1)`, 1 -/
def points (alpha beta : List Rat) : List Rat :=
  0 :: ((alpha ++ beta).filter fun x => decide (0 < x) && decide (x < 1)).foldr insertPt [1]

/-- `βⱼ ≤ q → i + j + 1 ≤ c` for every `j` (`i` = index of the head of the list) -/
def okUpper : List Rat → Nat → Rat → Nat → Bool
  | [], _, _, _ => true
  | b :: bs, i, q, c => (!(decide (b ≤ q)) || decide (i + 1 ≤ c)) && okUpper bs (i + 1) q c

/-- `q ≤ αⱼ → c ≤ i + j` for every `j` -/
def okLower : List Rat → Nat → Rat → Nat → Bool
  | [], _, _, _ => true
  | a :: as, i, q, c => (!(decide (q ≤ a)) || decide (c ≤ i)) && okLower as (i + 1) q c

/-- is `c = #{j : U_j ≤ q}` compatible with `αᵢ ≤ U₍ᵢ₎ ≤ βᵢ` for all `i`? -/
def okAt (alpha beta : List Rat) (q : Rat) (c : Nat) : Bool :=
  okUpper beta 0 q c && okLower alpha 0 q c

/-- the cells `(length, allowed counts at the right end point)` of consecutive points, `prev` = left end of the first -/
def cellsOf (alpha beta : List Rat) : Rat → List Rat → List (Rat × (Nat → Bool))
  | _, [] => []
  | prev, q :: qs => (q - prev, okAt alpha beta q) :: cellsOf alpha beta q qs

def cells (alpha beta : List Rat) : List (Rat × (Nat → Bool)) :=
  cellsOf alpha beta 0 (points alpha beta)

/-- `[f 0, …, f (k−1)]` as an array (computed once, read by `getD`) -/
def tab {γ : Type} (k : Nat) (f : Nat → γ) : Array γ := (Array.range k).map f

/-- `f 0 + … + f (k−1)` -/
def sumTo (f : Nat → Rat) : Nat → Rat
  | 0 => 0
  | k + 1 => sumTo f k + f k

/-- `binom n` holds `C(r, m)` at `[r][m]` for `r, m ≤ n` -/
def binom (n : Nat) : Array (Array Nat) :=
  tab (n + 1) fun r => tab (n + 1) fun m => Opda.BetaBinom.choose r m

/-- one cell: from the table `w` of the cells to the right to the table including this cell -/
def step (n : Nat) (bin : Array (Array Nat)) (len : Rat) (ok : Nat → Bool) (w : Array Rat) : Array Rat :=
  let pw : Array Rat := tab (n + 1) fun m => len ^ m
  let wok : Array Rat := tab (n + 1) fun c => if ok c then w.getD c 0 else 0
  tab (n + 1) fun c =>
    sumTo (fun m =>
      let x := wok.getD (c + m) 0
      if x = 0 then 0 else (((bin.getD (n - c) #[]).getD m 0 : Nat) : Rat) * pw.getD m 0 * x) (n - c + 1)

/-- the table for a list of cells: entry `c` = weight of distributing `n − c` points over these cells when `c`
points lie to their left -/
def run (n : Nat) (bin : Array (Array Nat)) : List (Rat × (Nat → Bool)) → Array Rat
  | [] => tab (n + 1) fun c => if c = n then 1 else 0
  | (len, ok) :: rest => step n bin len ok (run n bin rest)

/-- `P[αᵢ ≤ U₍ᵢ₎ ≤ βᵢ ∀ i]` for the order statistics of `alpha.length` independent uniforms -/
def coverage (alpha beta : List Rat) : Rat :=
  let n := alpha.length
  (run n (binom n) (cells alpha beta)).getD 0 0

end Opda.RectProb
