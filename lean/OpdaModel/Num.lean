/-!
The operations the parametric models need; instantiated at `Float` (executable) and at `ℝ`
(proofs).  One polymorphic definition serves both.
-/
namespace Opda

class Num (α : Type) extends Add α, Sub α, Mul α, Div α, Neg α, LT α, LE α where
  ofNat : Nat → α
  decLt : DecidableRel (α := α) (· < ·)
  decLe : DecidableRel (α := α) (· ≤ ·)
  /-- IEEE / mathematical equality test (`a == b` in numpy) -/
  eq : α → α → Bool
  pow : α → α → α
  exp : α → α
  log : α → α
  logGamma : α → α
  normalCdf : α → α
  normalPdf : α → α
  normalPpf : α → α

namespace Num
variable {α : Type} [Num α]
instance : DecidableRel (α := α) (· < ·) := Num.decLt
instance : DecidableRel (α := α) (· ≤ ·) := Num.decLe
def n (k : Nat) : α := Num.ofNat k
def clip (x lo hi : α) : α := if x < lo then lo else if hi < x then hi else x
end Num

end Opda
