/-!
Executable model of `opda.approximation.lagrange_interpolate` (core Lean only).

Nodes and values are given as accessor functions `v r : Nat → α` on the indices `0 … n-1`
(the driver passes `fun i => xs.getD i 0`).  The same terms run at `Rat` in the driver and carry
the theorems of `OpdaProofs/Lagrange.lean` at any field.

* `weight`, `bary`, `findNode`, `eval` — the code's algorithm: barycentric weights
  `1 / prod(xs[:,None] - xs[None,:] with unit diagonal)`, first barycentric form
  `prod(x - xs) * sum(ys * ws / (x - xs))`, then the node fix-up `ys[x == xs_j] = ys_j`.
* `basis`, `lsum`, `labs` — the plain Lagrange-basis sum `Σ y_j l_j(x)` and `Σ |y_j l_j(x)|`
  (the right-hand side of the property's tolerance).
-/
namespace Opda.Lagr

variable {α : Type}

def sumTo [Zero α] [Add α] : Nat → (Nat → α) → α
  | 0, _ => 0
  | n+1, f => sumTo n f + f n

def prodTo [One α] [Mul α] : Nat → (Nat → α) → α
  | 0, _ => 1
  | n+1, f => prodTo n f * f n

def allTo : Nat → (Nat → Bool) → Bool
  | 0, _ => true
  | n+1, p => allTo n p && p n

/-- barycentric weight of node `i`: `1 / Π_j (x_i − x_j)` with the diagonal entry replaced by 1 -/
def weight [One α] [Mul α] [Sub α] [Div α] (n : Nat) (v : Nat → α) (i : Nat) : α :=
  1 / prodTo n (fun j => if j = i then 1 else v i - v j)

/-- first barycentric form, as the code evaluates it off the nodes -/
def bary [Zero α] [One α] [Add α] [Mul α] [Sub α] [Div α] (n : Nat) (v r : Nat → α) (x : α) : α :=
  prodTo n (fun j => x - v j) * sumTo n (fun j => r j * weight n v j / (x - v j))

/-- index of a node equal to `x` (the last one, as numpy's fancy assignment would leave it) -/
def findNode [DecidableEq α] : Nat → (Nat → α) → α → Option Nat
  | 0, _, _ => none
  | n+1, v, x => if v n = x then some n else findNode n v x

/-- `lagrange_interpolate(xs, ys)(x)`: first barycentric form with the node fix-up -/
def eval [Zero α] [One α] [Add α] [Mul α] [Sub α] [Div α] [DecidableEq α]
    (n : Nat) (v r : Nat → α) (x : α) : α :=
  match findNode n v x with
  | some j => r j
  | none => bary n v r x

/-- Lagrange basis polynomial `l_i(x) = Π_{j≠i} (x − x_j)/(x_i − x_j)` -/
def basis [One α] [Mul α] [Sub α] [Div α] (n : Nat) (v : Nat → α) (i : Nat) (x : α) : α :=
  prodTo n (fun j => if j = i then 1 else (x - v j) / (v i - v j))

/-- `Σ_i y_i l_i(x)` -/
def lsum [Zero α] [One α] [Add α] [Mul α] [Sub α] [Div α] (n : Nat) (v r : Nat → α) (x : α) : α :=
  sumTo n (fun i => r i * basis n v i x)

/-- `Σ_i |y_i l_i(x)|` -/
def labs [Zero α] [One α] [Add α] [Mul α] [Sub α] [Div α] (abs : α → α) (n : Nat) (v r : Nat → α) (x : α) : α :=
  sumTo n (fun i => abs (r i * basis n v i x))

/-- all nodes pairwise distinct (`xs` is a valid node set) -/
def distinct [DecidableEq α] (n : Nat) (v : Nat → α) : Bool :=
  allTo n (fun i => allTo i (fun j => decide (v j ≠ v i)))

end Opda.Lagr
