/-!
# Exact binomial tail / Beta(a,b) distribution function for integer parameters (core Lean only)

For positive integers `a, b` and `m = a + b − 1` the Beta(a,b) distribution function is the binomial
tail polynomial `I_x(a,b) = Σ_{j ≥ a} C(m,j) x^j (1−x)^{m−j}` — exact in ℚ, so the model consumes
the implementation's floats (every finite double is a rational) and answers exactly.

* `tailNum n k a b = Σ_{j=k}^{n} C(n,j) a^j b^{n−j}` in ℕ, by one upward Horner pass
  (`O(n)` big-number multiplications);
* `tailQ n k p = P[Bin(n,p) ≥ k]` for a rational `p ∈ [0,1]`;
* the *checkers* — decidable sufficient conditions evaluated on the implementation's outputs:
  `cpCheck` (Clopper–Pearson table ⇒ coverage for every `p`, theorem `Opda.Props.C16.cp_check_sound`),
  `etCheck`, `hdiCheck` (C15).
-/
namespace Opda.BetaBinom

/-- `C(n,·)` by the multiplicative recurrence `C(n,j+1) = C(n,j)·(n−j)/(j+1)` (the division is exact) -/
def chooseLoop (n : Nat) : Nat → Nat → Nat → Nat
  | 0, _, c => c
  | m+1, j, c => chooseLoop n m (j+1) (c * (n - j) / (j + 1))

def choose (n k : Nat) : Nat := chooseLoop n k 0 1

/-- state: `j` next index, `c = C(n,j)`, `ap = a^j`, `acc = Σ_{i<j} C(n,i) a^i b^{j−1−i}` (from the start index) -/
def tailLoop (n a b : Nat) : Nat → Nat → Nat → Nat → Nat → Nat
  | 0, _, _, _, acc => acc
  | m+1, j, c, ap, acc => tailLoop n a b m (j+1) (c * (n - j) / (j + 1)) (ap * a) (acc * b + c * ap)

/-- `Σ_{j=k}^{n} C(n,j) a^j b^{n−j}` -/
def tailNum (n k a b : Nat) : Nat :=
  if k ≤ n then tailLoop n a b (n + 1 - k) k (choose n k) (a ^ k) 0 else 0

/-- `P[Bin(n,p) ≥ k]` for rational `p ∈ [0,1]` (numerator `p.num`, complement `p.den − p.num`) -/
def tailQ (n k : Nat) (p : Rat) : Rat :=
  let a := p.num.toNat
  let b := p.den - a
  ((tailNum n k a b : Nat) : Rat) / ((p.den ^ n : Nat) : Rat)

/-- Beta(a,b) distribution function at `x ∈ [0,1]`, `a,b` positive integers -/
def betaCdf (a b : Nat) (x : Rat) : Rat := tailQ (a + b - 1) a x

/-- unnormalised Beta(a,b) density `x^(a−1) (1−x)^(b−1)` -/
def dens (a b : Nat) (x : Rat) : Rat := x ^ (a - 1) * (1 - x) ^ (b - 1)

/-- the mode `(a−1)/(a+b−2)` (only used when `a + b > 2`) -/
def modeQ (a b : Nat) : Rat := ((a - 1 : Nat) : Rat) / ((a + b - 2 : Nat) : Rat)

def absQ (q : Rat) : Rat := if q < 0 then -q else q

/-! ## Clopper–Pearson table checker (C16) -/

/-- adjacent entries non-decreasing on indices `0..n` -/
def monoUpTo (n : Nat) (l : List Rat) : Bool :=
  (List.range n).all fun k => decide (l.getD k 0 ≤ l.getD (k+1) 0)

def in01UpTo (n : Nat) (l : List Rat) : Bool :=
  (List.range (n+1)).all fun k => decide (0 ≤ l.getD k 0) && decide (l.getD k 0 ≤ 1)

/-- the `2n` exact tail inequalities with right-hand side `r = α/2 + δ` -/
def tailsOK (n : Nat) (lo hi : List Rat) (r : Rat) : Bool :=
  (List.range n).all fun k =>
    decide (tailQ n (k+1) (lo.getD (k+1) 0) ≤ r) && decide (1 - tailQ n (k+1) (hi.getD k 0) ≤ r)

/-- **the checker**: end points in `[0,1]`, monotone in `k`, `lo₀ ≤ 0`, `1 ≤ hiₙ`, and the `2n` exact
binomial-tail inequalities `T_k(lo_k) ≤ α/2+δ` (`k=1..n`), `1 − T_{k+1}(hi_k) ≤ α/2+δ` (`k=0..n−1`). -/
def cpCheck (n : Nat) (lo hi : List Rat) (α δ : Rat) : Bool :=
  in01UpTo n lo && in01UpTo n hi && monoUpTo n lo && monoUpTo n hi
    && decide (lo.getD 0 0 ≤ 0) && decide (1 ≤ hi.getD n 0) && decide (0 ≤ α / 2 + δ)
    && tailsOK n lo hi (α / 2 + δ)

/-- worst excess of the tail inequalities over `α/2` (diagnostic: the replay shows it) and its index;
positive index `k` = lower end point of `k`, negative `−(k+1)` = upper end point of `k` -/
def cpWorst (n : Nat) (lo hi : List Rat) (α : Rat) : Rat × Int :=
  (List.range n).foldl (fun (best : Rat × Int) k =>
    let e1 := tailQ n (k+1) (lo.getD (k+1) 0) - α / 2
    let e2 := 1 - tailQ n (k+1) (hi.getD k 0) - α / 2
    let best := if best.1 < e1 then (e1, ((k+1 : Nat) : Int)) else best
    if best.1 < e2 then (e2, -((k+1 : Nat) : Int)) else best) (-1, 0)

/-- `[p, p·a, p·a², …]` (`m` entries) -/
def powers (a : Nat) : Nat → Nat → List Nat
  | 0, _ => []
  | m+1, p => p :: powers a m (p * a)

/-- `[C(n,j), C(n,j+1), …]` (`m` entries) from `c = C(n,j)` -/
def chooseRow (n : Nat) : Nat → Nat → Nat → List Nat
  | 0, _, _ => []
  | m+1, j, c => c :: chooseRow n m (j+1) (c * (n - j) / (j + 1))

/-- all `C(n,k) a^k b^{n−k}`, `k = 0..n` (numerators of the binomial pmf over `(a+b)^n`) -/
def pmfNums (n a b : Nat) : List Nat :=
  List.zipWith (· * ·) (List.zipWith (· * ·) (chooseRow n (n+1) 0 1) (powers a (n+1) 1))
    (powers b (n+1) 1).reverse

/-- exact coverage `Σ_k 1[lo_k ≤ p ≤ hi_k]·P[Bin(n,p)=k]` of an interval table at a rational `p ∈ [0,1]` -/
def coverageAt (n : Nat) (lo hi : List Rat) (p : Rat) : Rat :=
  let a := p.num.toNat
  let b := p.den - a
  let nums := pmfNums n a b
  let tot : Nat := (List.range (n+1)).foldl (fun acc k =>
    if lo.getD k 0 ≤ p ∧ p ≤ hi.getD k 0 then acc + nums.getD k 0 else acc) 0
  ((tot : Nat) : Rat) / ((p.den ^ n : Nat) : Rat)

/-! ## Beta interval checkers (C15) -/

/-- equal-tailed interval: `0 ≤ x ≤ y ≤ 1`, mass `c` and equal tails, both within `tol` -/
def etCheck (a b : Nat) (c x y tol : Rat) : Bool :=
  decide (0 ≤ x) && decide (x ≤ y) && decide (y ≤ 1)
    && decide (absQ (betaCdf a b y - betaCdf a b x - c) ≤ tol)
    && decide (absQ (betaCdf a b x - (1 - betaCdf a b y)) ≤ tol)

/-- mass part of the highest-density check: `0 ≤ x, y ≤ 1`, `x ≤ y + otol`, `|mass − c| ≤ tol` -/
def hdiMassCheck (a b : Nat) (c x y tol otol : Rat) : Bool :=
  decide (0 ≤ x) && decide (x ≤ 1) && decide (0 ≤ y) && decide (y ≤ 1) && decide (x ≤ y + otol)
    && decide (absQ (betaCdf a b y - betaCdf a b x - c) ≤ tol)

/-- first `x + w·2^i` (`i = 0..tries−1`, capped at `cap`) whose density reaches `t`, walking towards the mode -/
def seekUp (a b : Nat) (t : Rat) (x cap w : Rat) : Nat → Option Rat
  | 0 => none
  | i+1 =>
    let c := if x + w ≤ cap then x + w else cap
    if t ≤ dens a b c then some c else if c == cap then none else seekUp a b t x cap (2 * w) i

def seekDown (a b : Nat) (t : Rat) (y cap w : Rat) : Nat → Option Rat
  | 0 => none
  | i+1 =>
    let c := if cap ≤ y - w then y - w else cap
    if t ≤ dens a b c then some c else if c == cap then none else seekDown a b t y cap (2 * w) i

def minQ (p q : Rat) : Rat := if p ≤ q then p else q

/-- normalising constant of the Beta(a,b) density: `1/B(a,b) = n·C(n−1,a−1)`, `n = a+b−1` -/
def betaNorm (a b : Nat) : Nat := (a + b - 1) * choose (a + b - 2) (a - 1)

/-- **optimality certificate** (the verified part) for an interval `[x,y]` returned as the
highest-density interval of Beta(a,b), `a + b > 2`.  With `f` the unnormalised density, `G` the
distribution function and `κ = 1/B(a,b)`, the certificate is a level `t > 0` and points
`0 ≤ x₁ ≤ x₂ ≤ mode ≤ y₂ ≤ y₁ ≤ 1` (an independent near-level-set `[x₁,y₁]`; the simple search uses
`x₁ = x`, `y₁ = y`) such that

* `f x₁ ≤ t` unless `x₁ = 0`, `f y₁ ≤ t` unless `y₁ = 1` (if `f x₁ > t` then `x₂ = x₁`, if `f y₁ > t` then `y₂ = y₁`),
* `f x₂ ≥ t`, `f y₂ ≥ t`,
* `t·((y − x) − slack) ≤ t·(y₂ − x₂) + min(f x₁,t)·(x₂ − x₁) + min(f y₁,t)·(y₁ − y₂) − ((G y₁ − G x₁) − (G y − G x))/κ`.

By `Opda.Props.C15.hdi_certificate_sound` every interval of at least the mass of `[x,y]` then has
length `≥ (y − x) − slack`. -/
def hdiCertOK (a b : Nat) (x y x1 x2 y2 y1 t slack : Rat) : Bool :=
  let f1 := dens a b x1
  let f2 := dens a b y1
  let extra := (betaCdf a b y1 - betaCdf a b x1) - (betaCdf a b y - betaCdf a b x)
  decide (0 < a) && decide (0 < b) && decide (2 < a + b)
    && decide (0 ≤ x) && decide (x ≤ 1) && decide (0 ≤ y) && decide (y ≤ 1) && decide (0 ≤ x1) && decide (x1 ≤ x2) && decide (x2 ≤ modeQ a b)
    && decide (modeQ a b ≤ y2) && decide (y2 ≤ y1) && decide (y1 ≤ 1) && decide (0 < t)
    && (decide (x1 ≤ 0) || decide (f1 ≤ t)) && (decide (1 ≤ y1) || decide (f2 ≤ t))
    && (decide (f1 ≤ t) || decide (x2 ≤ x1)) && (decide (f2 ≤ t) || decide (y1 ≤ y2))
    && decide (t ≤ dens a b x2) && decide (t ≤ dens a b y2)
    && decide (t * ((y - x) - slack) ≤ t * (y2 - x2) + minQ f1 t * (x2 - x1) + minQ f2 t * (y1 - y2)
          - extra / ((betaNorm a b : Nat) : Rat))

/-- the lower bound on the length of any interval of at least the mass of `[x,y]` that the certificate
gives, minus `(y − x)` (diagnostic; `≥ −slack` iff the last condition of `hdiCertOK` holds) -/
def hdiBound (a b : Nat) (x y x1 x2 y2 y1 t : Rat) : Rat :=
  let f1 := dens a b x1
  let f2 := dens a b y1
  let extra := (betaCdf a b y1 - betaCdf a b x1) - (betaCdf a b y - betaCdf a b x)
  (t * (y2 - x2) + minQ f1 t * (x2 - x1) + minQ f2 t * (y1 - y2)
      - extra / ((betaNorm a b : Nat) : Rat)) / t - (y - x)

/-- untrusted search for a certificate `(x₂, y₂, t)` with `x₁ = x`, `y₁ = y` -/
def hdiSearch (a b : Nat) (x y slack w0 : Rat) : Option (Rat × Rat × Rat) :=
  let m := modeQ a b
  if ¬ (x ≤ m ∧ m ≤ y) then none
  else
    let fx := if 0 < x then dens a b x else 0
    let fy := if y < 1 then dens a b y else 0
    let t := if fx ≤ fy then fy else fx
    if 0 < t then
      let x2? := if t ≤ dens a b x then some x else seekUp a b t x m w0 60
      let y2? := if t ≤ dens a b y then some y else seekDown a b t y m w0 60
      match x2?, y2? with
      | some x2, some y2 => some (x2, y2, t)
      | _, _ => none
    else
      -- nothing lies outside `[x,y]`: any positive level attained a little inside will do
      let x2 := if x + slack / 2 ≤ m then x + slack / 2 else m
      let y2 := if m ≤ y - slack / 2 then y - slack / 2 else m
      let f1 := dens a b x2
      let f2 := dens a b y2
      some (x2, y2, if f1 ≤ f2 then f1 else f2)

/-- **the checker** (with its own simple search): `y − x ≤ slack` (nothing to prove) or a verified certificate -/
def hdiCheck (a b : Nat) (x y slack w0 : Rat) : Bool :=
  decide (y - x ≤ slack) ||
    match hdiSearch a b x y slack w0 with
    | some (x2, y2, t) => hdiCertOK a b x y x x2 y2 y t slack
    | none => false

/-- a *witness against* optimality: `[u,v] ⊆ [0,1]` has at least the mass of `[x,y]` and is shorter by more than `slack` -/
def hdiWitness (a b : Nat) (x y u v slack : Rat) : Bool :=
  decide (0 ≤ u) && decide (u ≤ v) && decide (v ≤ 1)
    && decide (betaCdf a b y - betaCdf a b x ≤ betaCdf a b v - betaCdf a b u)
    && decide (v - u < (y - x) - slack)

/-! ## The other end of the smallest highest-density interval containing `x` (exact bisection) -/

/-- `steps` halvings of a bracket `[lo,hi]` of the point on the far side of the mode where the density
equals `t`; `incr = true` if the density is increasing on the bracket (bracket left of the mode) -/
def partnerLoop (a b : Nat) (t : Rat) (incr : Bool) : Nat → Rat → Rat → Rat × Rat
  | 0, lo, hi => (lo, hi)
  | s+1, lo, hi =>
    let mid := (lo + hi) / 2
    let below := decide (dens a b mid < t)
    -- increasing: density below t ⇒ the point lies to the right of mid
    if below == incr then partnerLoop a b t incr s mid hi else partnerLoop a b t incr s lo mid

/-- bracket `[G(lo)−…]` of the exact coverage of the smallest highest-density interval containing `x` -/
def hdCoverageBracket (a b : Nat) (x : Rat) (steps : Nat) : Rat × Rat :=
  let m := modeQ a b
  let t := dens a b x
  if x < m then
    let (l, h) := partnerLoop a b t false steps m 1
    (betaCdf a b l - betaCdf a b x, betaCdf a b h - betaCdf a b x)
  else if m < x then
    let (l, h) := partnerLoop a b t true steps 0 m
    (betaCdf a b x - betaCdf a b h, betaCdf a b x - betaCdf a b l)
  else (0, 0)

end Opda.BetaBinom
