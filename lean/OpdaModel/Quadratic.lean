import OpdaModel.Num
/-! Model of `opda.parametric.QuadraticDistribution` (formulas as in the source). -/
namespace Opda.Quad
open Opda.Num
variable {α : Type} [Num α]

structure Params (α : Type) where
  a : α
  b : α
  c : Nat
  convex : Bool

def mean (d : Params α) : α :=
  if d.convex then d.a + (d.b - d.a) * n d.c / (n d.c + n 2)
  else d.a + (d.b - d.a) * n 2 / (n d.c + n 2)

def variance (d : Params α) : α :=
  Num.pow (d.b - d.a) (n 2) * n 4 * n d.c / (Num.pow (n d.c + n 2) (n 2) * (n d.c + n 4))

def cdf (d : Params α) (y : α) : α :=
  if Num.eq d.a d.b then (if y < d.a then n 0 else n 1)
  else
    let y' := clip y d.a d.b
    if d.convex then Num.pow ((y' - d.a) / (d.b - d.a)) (n d.c / n 2)
    else n 1 - Num.pow ((d.b - y') / (d.b - d.a)) (n d.c / n 2)

def ppf (d : Params α) (q : α) : α :=
  let q' := clip q (n 0) (n 1)
  if d.convex then d.a + (d.b - d.a) * Num.pow q' (n 2 / n d.c)
  else d.b - (d.b - d.a) * Num.pow (n 1 - q') (n 2 / n d.c)

/-- density inside the support (the code returns 0 outside and `inf` for the point mass) -/
def pdfInside (d : Params α) (y : α) : α :=
  if d.convex then (n d.c / (n 2 * (d.b - d.a))) * Num.pow ((y - d.a) / (d.b - d.a)) (n d.c / n 2 - n 1)
  else (n d.c / (n 2 * (d.b - d.a))) * Num.pow ((d.b - y) / (d.b - d.a)) (n d.c / n 2 - n 1)

/-- `pdf`: `inf` at the atom of a point mass (written `1/0`, which is `inf` in `Float`), `0` outside the
support (`np.where((ys < a) | (ys > b), 0., ps)`), the power law inside -/
def pdf (d : Params α) (y : α) : α :=
  if Num.eq d.a d.b then (if Num.eq y d.a then n 1 / n 0 else n 0)
  else if y < d.a then n 0 else if d.b < y then n 0 else pdfInside d y

def level (minimize : Bool) (q nn : α) : α :=
  if minimize then n 1 - Num.pow (n 1 - q) (n 1 / nn) else Num.pow q (n 1 / nn)

def quantileTuningCurve (d : Params α) (nn q : α) (minimize : Option Bool) : α :=
  ppf d (level (minimize.getD d.convex) q nn)

def averageTuningCurve (d : Params α) (nn : α) (minimize : Option Bool) : α :=
  let mn := minimize.getD d.convex
  let g := Num.exp (Num.logGamma (nn + n 1) + Num.logGamma ((n d.c + n 2) / n d.c)
            - Num.logGamma (nn + (n d.c + n 2) / n d.c))
  if d.convex then
    if mn then d.a + (d.b - d.a) * g else d.a + (d.b - d.a) * nn / (nn + n 2 / n d.c)
  else
    if mn then d.b - (d.b - d.a) * nn / (nn + n 2 / n d.c) else d.b - (d.b - d.a) * g

/-- the mirrored distribution `(-b, -a, c, ¬convex)` -/
def reflect (d : Params α) : Params α := { a := -d.b, b := -d.a, c := d.c, convex := !d.convex }

end Opda.Quad
