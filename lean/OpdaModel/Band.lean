import OpdaModel.Emp
/-!
Model of the weight placement in `EmpiricalDistribution.confidence_bands` (core Lean only).
-/
namespace Opda.Band
variable {E α : Type}

/-- `np.diff(levels, prepend=[0.], append=[1.])` -/
def diffsAux [Sub α] [One α] (prev : α) : List α → List α
  | [] => [1 - prev]
  | l :: rest => (l - prev) :: diffsAux l rest

def diffs [Sub α] [One α] [Zero α] (levels : List α) : List α := diffsAux 0 levels

/-- insertion sort (weakly increasing) -/
def insertSorted [LE E] [DecidableLE E] (v : E) : List E → List E
  | [] => [v]
  | u :: rest => if v ≤ u then v :: u :: rest else u :: insertSorted v rest

def sort [LE E] [DecidableLE E] (l : List E) : List E := l.foldr insertSorted []

/-- the observation list of a band distribution: sorted `[a] ++ ys ++ [b]` zipped with the
first differences of the cumulative levels (what `diff(...)[argsort(argsort(ys_extended))]`
assigns, as a multiset of (value, weight) pairs). -/
def bandObs [LE E] [DecidableLE E] [Sub α] [One α] [Zero α] (a b : E) (ys : List E) (levels : List α) :
    List (E × α) :=
  (sort (a :: (ys ++ [b]))).zip (diffs levels)

end Opda.Band
