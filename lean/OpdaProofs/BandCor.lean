import OpdaProofs.BandMore
/-!
C02 corollaries of `band_cdf`: closed form of the index (a count of sample points), no mass outside `[a,b]`,
the lower band is 0 below the smallest observation, the upper band is 1 from the largest observation on, and
the dkw/ks tables `clip(i/n ∓ ε)` widen with `ε`.
-/
set_option linter.unusedSectionVars false
namespace Opda.Band
open Opda.Emp
variable {E α : Type} [LinearOrder E] [Field α] [LinearOrder α] [IsStrictOrderedRing α]

theorem countLE_eq_countP (t : E) (s : List E) (hs : WSorted s) : countLE t s = s.countP (fun v => decide (v ≤ t)) := by
  induction s with
  | nil => rfl
  | cons u rest ih =>
    obtain ⟨hle, hs'⟩ := hs
    by_cases hu : u ≤ t
    · rw [List.countP_cons_of_pos (by simpa using hu)]
      simp only [countLE, hu, if_true, ih hs']; omega
    · rw [List.countP_cons_of_neg (by simpa using hu)]
      simp only [countLE, hu, if_false]
      symm
      rw [List.countP_eq_zero]
      intro v hv
      simpa using lt_of_lt_of_le (not_le.mp hu) (hle v hv)

theorem sort_perm_self (l : List E) : (sort l).Perm l := by
  rw [sort_eq_insertionSort]; exact List.perm_insertionSort _ l

/-- the index into the level table is a *count*: the number of extended sample points `≤ t` -/
theorem countLE_sort (t : E) (l : List E) : countLE t (sort l) = l.countP (fun v => decide (v ≤ t)) := by
  rw [countLE_eq_countP t _ (wsorted_sort l)]
  exact (sort_perm_self l).countP_eq _

variable [OrderBot E] [OrderTop E]

/-- **closed form**: `cdf t = levelAt ([a ≤ t] + #{i : y_i ≤ t} + [b ≤ t]) levels`. -/
theorem band_cdf_count (a b : E) (ys : List E) (levels : List α) (t : E) (hlen : levels.length = ys.length + 1) :
    cdf (support ⊥ ⊤ a b (bandObs a b ys levels)) t
      = levelAt ((if a ≤ t then 1 else 0) + ys.countP (fun v => decide (v ≤ t)) + (if b ≤ t then 1 else 0)) levels := by
  rw [band_cdf a b ys levels t hlen, countLE_sort]
  congr 1
  rw [List.countP_cons, List.countP_append, List.countP_singleton]
  by_cases h1 : a ≤ t <;> by_cases h2 : b ≤ t <;> simp [h1, h2] <;> omega

/-- **no mass below `a`**: every band cdf (any level table) is 0 at every `t` below `a`, the sample and `b`. -/
theorem band_cdf_zero_below (a b : E) (ys : List E) (levels : List α) (t : E) (hlen : levels.length = ys.length + 1)
    (hta : t < a) (hys : ∀ y ∈ ys, a ≤ y) (hab : a ≤ b) :
    cdf (support ⊥ ⊤ a b (bandObs a b ys levels)) t = 0 := by
  rw [band_cdf_count a b ys levels t hlen]
  have h0 : ys.countP (fun v => decide (v ≤ t)) = 0 := by
    rw [List.countP_eq_zero]; intro v hv; simpa using lt_of_lt_of_le hta (hys v hv)
  simp [h0, not_le.mpr hta, not_le.mpr (lt_of_lt_of_le hta hab), levelAt]

/-- **no mass above `b`**: every band cdf (any level table) is 1 from `b` on. -/
theorem band_cdf_one_from_b (a b : E) (ys : List E) (levels : List α) (t : E) (hlen : levels.length = ys.length + 1)
    (hbt : b ≤ t) (hys : ∀ y ∈ ys, y ≤ b) (hab : a ≤ b) :
    cdf (support ⊥ ⊤ a b (bandObs a b ys levels)) t = 1 := by
  rw [band_cdf_count a b ys levels t hlen]
  have h0 : ys.countP (fun v => decide (v ≤ t)) = ys.length := by
    rw [List.countP_eq_length]; intro v hv; simpa using le_trans (hys v hv) hbt
  have hne : ¬ (1 + ys.length + 1 = 0) := by omega
  have hgt : ¬ (1 + ys.length + 1 ≤ levels.length) := by omega
  simp only [h0, le_trans hab hbt, hbt, if_true, levelAt, hne, hgt, if_false]

/-- between the bounds the cdf is the level indexed by the number of observations `≤ t` -/
theorem band_cdf_inside (a b : E) (ys : List E) (levels : List α) (t : E) (hlen : levels.length = ys.length + 1)
    (hat : a ≤ t) (htb : t < b) :
    cdf (support ⊥ ⊤ a b (bandObs a b ys levels)) t = levels.getD (ys.countP (fun v => decide (v ≤ t))) 0 := by
  rw [band_cdf_count a b ys levels t hlen]
  have hk : ys.countP (fun v => decide (v ≤ t)) ≤ ys.length := List.countP_le_length
  have hne : ¬ (1 + ys.countP (fun v => decide (v ≤ t)) + 0 = 0) := by omega
  have hle : 1 + ys.countP (fun v => decide (v ≤ t)) + 0 ≤ levels.length := by omega
  simp only [hat, not_le.mpr htb, if_true, if_false, levelAt, hne, hle]
  congr 1
  omega

/-- **the lower band is 0 below the smallest observation** (for `t < b`; at and above `a` this is `L_0 = 0`, below `a`
it holds for any table). -/
theorem band_cdf_zero_below_min (a b : E) (ys : List E) (levels : List α) (t : E)
    (hlen : levels.length = ys.length + 1) (hL0 : levels.getD 0 0 = 0)
    (hys : ∀ y ∈ ys, t < y) (htb : t < b) :
    cdf (support ⊥ ⊤ a b (bandObs a b ys levels)) t = 0 := by
  have h0 : ys.countP (fun v => decide (v ≤ t)) = 0 := by
    rw [List.countP_eq_zero]; intro v hv; simpa using hys v hv
  by_cases hat : a ≤ t
  · rw [band_cdf_inside a b ys levels t hlen hat htb, h0, hL0]
  · rw [band_cdf_count a b ys levels t hlen]
    simp [h0, hat, not_le.mpr htb, levelAt]

/-- **the upper band is 1 from the largest observation on**: with `U_n = 1` (the last level), the cdf is 1 at every
`t ≥ a` that is `≥` every observation — already at `max ys`, even when `b > max ys`. -/
theorem band_cdf_one_from_max (a b : E) (ys : List E) (levels : List α) (t : E)
    (hlen : levels.length = ys.length + 1) (hUn : levels.getD ys.length 0 = 1)
    (hat : a ≤ t) (hys : ∀ y ∈ ys, y ≤ t) :
    cdf (support ⊥ ⊤ a b (bandObs a b ys levels)) t = 1 := by
  have h0 : ys.countP (fun v => decide (v ≤ t)) = ys.length := by
    rw [List.countP_eq_length]; intro v hv; simpa using hys v hv
  by_cases htb : t < b
  · rw [band_cdf_inside a b ys levels t hlen hat htb, h0, hUn]
  · rw [band_cdf_count a b ys levels t hlen]
    have hne : ¬ (1 + ys.length + 1 = 0) := by omega
    have hgt : ¬ (1 + ys.length + 1 ≤ levels.length) := by omega
    simp only [h0, hat, not_lt.mp htb, if_true, levelAt, hne, hgt, if_false]

/-! ## the dkw / ks level tables -/

/-- `np.clip(x, 0, 1)` -/
def clip01 (x : α) : α := min (max x 0) 1

theorem clip01_mono {x y : α} (h : x ≤ y) : clip01 x ≤ clip01 y :=
  min_le_min (max_le_max h le_rfl) le_rfl

/-- `clip(arange(n+1)/n − ε, 0, 1)` -/
def loLevels (n : ℕ) (ε : α) : List α := (List.range (n + 1)).map fun i : ℕ => clip01 ((i : α) / (n : α) - ε)
/-- `clip(arange(n+1)/n + ε, 0, 1)` -/
def hiLevels (n : ℕ) (ε : α) : List α := (List.range (n + 1)).map fun i : ℕ => clip01 ((i : α) / (n : α) + ε)

theorem getD_map_range (f : ℕ → α) (m i : ℕ) :
    ((List.range m).map f).getD i 0 = if i < m then f i else 0 := by
  by_cases h : i < m
  · simp [List.getD_eq_getElem?_getD, h]
  · simp [List.getD_eq_getElem?_getD, h]

theorem loLevels_anti (n : ℕ) {ε ε' : α} (h : ε ≤ ε') (i : ℕ) :
    (loLevels n ε').getD i 0 ≤ (loLevels n ε).getD i 0 := by
  unfold loLevels
  rw [getD_map_range, getD_map_range]
  split_ifs
  · exact clip01_mono (by linarith)
  · exact le_rfl

theorem hiLevels_mono (n : ℕ) {ε ε' : α} (h : ε ≤ ε') (i : ℕ) :
    (hiLevels n ε).getD i 0 ≤ (hiLevels n ε').getD i 0 := by
  unfold hiLevels
  rw [getD_map_range, getD_map_range]
  split_ifs
  · exact clip01_mono (by linarith)
  · exact le_rfl

theorem lo_le_hi_levels (n : ℕ) {ε : α} (h : 0 ≤ ε) (i : ℕ) :
    (loLevels n ε).getD i 0 ≤ (hiLevels n ε).getD i 0 := by
  unfold loLevels hiLevels
  rw [getD_map_range, getD_map_range]
  split_ifs
  · exact clip01_mono (by linarith)
  · exact le_rfl

theorem loLevels_length (n : ℕ) (ε : α) : (loLevels n ε).length = n + 1 := by simp [loLevels]
theorem hiLevels_length (n : ℕ) (ε : α) : (hiLevels n ε).length = n + 1 := by simp [hiLevels]

/-- `L_0 = 0` for `ε ≥ 0` -/
theorem loLevels_zero (n : ℕ) {ε : α} (h : 0 ≤ ε) : (loLevels n ε).getD 0 0 = 0 := by
  unfold loLevels
  rw [getD_map_range]
  simp only [Nat.zero_lt_succ, if_true, Nat.cast_zero, zero_div, zero_sub, clip01]
  rw [max_eq_right (by linarith), min_eq_left zero_le_one]

/-- `U_n = 1` for `ε ≥ 0`, `n ≥ 1` -/
theorem hiLevels_last (n : ℕ) (hn : 0 < n) {ε : α} (h : 0 ≤ ε) : (hiLevels n ε).getD n 0 = 1 := by
  unfold hiLevels
  rw [getD_map_range]
  have hn' : (n : α) ≠ 0 := by exact_mod_cast hn.ne'
  simp only [Nat.lt_succ_self, if_true, div_self hn', clip01]
  rw [max_eq_left (by linarith), min_eq_right (by linarith)]

/-- **widening**: for the dkw / ks tables, a larger `ε` gives a lower lower band and a higher upper band, at every `t`
(and the lower band stays below the upper band for `ε ≥ 0`). -/
theorem band_widening_of_eps (a b : E) (ys : List E) (t : E) {ε ε' : α} (h : ε ≤ ε') :
    cdf (support ⊥ ⊤ a b (bandObs a b ys (loLevels ys.length ε'))) t
        ≤ cdf (support ⊥ ⊤ a b (bandObs a b ys (loLevels ys.length ε))) t
      ∧ cdf (support ⊥ ⊤ a b (bandObs a b ys (hiLevels ys.length ε))) t
        ≤ cdf (support ⊥ ⊤ a b (bandObs a b ys (hiLevels ys.length ε'))) t :=
  ⟨band_cdf_le_of_levels_le a b ys _ _ t (loLevels_length _ _) (loLevels_length _ _) (loLevels_anti _ h),
   band_cdf_le_of_levels_le a b ys _ _ t (hiLevels_length _ _) (hiLevels_length _ _) (hiLevels_mono _ h)⟩

theorem band_lo_le_hi (a b : E) (ys : List E) (t : E) {ε : α} (h : 0 ≤ ε) :
    cdf (support ⊥ ⊤ a b (bandObs a b ys (loLevels ys.length ε))) t
      ≤ cdf (support ⊥ ⊤ a b (bandObs a b ys (hiLevels ys.length ε))) t :=
  band_cdf_le_of_levels_le a b ys _ _ t (loLevels_length _ _) (hiLevels_length _ _) (lo_le_hi_levels _ h)


/-! ## the point estimate is the band with the uniform level table -/

/-- `arange(n+1)/n` -/
def ptLevels (n : ℕ) : List α := (List.range (n + 1)).map fun i : ℕ => (i : α) / (n : α)

theorem ptLevels_length (n : ℕ) : (ptLevels (α := α) n).length = n + 1 := by simp [ptLevels]

theorem weightLE_unit (t : E) (ys : List E) :
    weightLE t (ys.map fun y => (y, (1 : α))) = ((ys.countP fun v => decide (v ≤ t) : ℕ) : α) := by
  induction ys with
  | nil => simp [weightLE]
  | cons y tl ih =>
    by_cases h : y ≤ t
    · rw [List.countP_cons_of_pos (by simpa using h)]
      simp only [List.map_cons, weightLE, h, if_true, ih]; push_cast; ring
    · rw [List.countP_cons_of_neg (by simpa using h)]
      simp only [List.map_cons, weightLE, h, if_false, ih, zero_add]

theorem total_unit' (ys : List E) : total (ys.map fun y => (y, (1 : α))) = (ys.length : α) := by
  induction ys with
  | nil => simp [total]
  | cons hd tl ih => simp only [List.map_cons, total, ih, List.length_cons]; push_cast; ring

/-- **pt is the band with levels `i/n`**: the empirical distribution of the sample (weights `None`, bounds `a,b`) has the
same cdf as the band distribution built from the uniform table — so the bracket `lo ≤ pt ≤ hi` is an instance of
`band_cdf_le_of_levels_le`. -/
theorem pt_cdf_eq_uniform_band (a b : E) (ys : List E) (t : E) (hne : ys ≠ [])
    (hys : ∀ y ∈ ys, a ≤ y ∧ y ≤ b) :
    cdf (support ⊥ ⊤ a b (ys.map fun y => (y, (1 : α)))) t
      = cdf (support ⊥ ⊤ a b (bandObs a b ys (ptLevels ys.length))) t := by
  have hn : 0 < ys.length := List.length_pos_iff.mpr hne
  have hn' : (ys.length : α) ≠ 0 := by exact_mod_cast hn.ne'
  have hab : a ≤ b := by
    cases ys with
    | nil => exact absurd rfl hne
    | cons y _ => exact le_trans (hys y (by simp)).1 (hys y (by simp)).2
  rw [cdf_support, weightLE_unit, total_unit']
  by_cases hta : t < a
  · rw [band_cdf_zero_below a b ys _ t (ptLevels_length _) hta (fun y hy => (hys y hy).1) hab]
    have h0 : ys.countP (fun v => decide (v ≤ t)) = 0 := by
      rw [List.countP_eq_zero]; intro v hv; simpa using lt_of_lt_of_le hta (hys v hv).1
    simp [h0]
  · by_cases htb : t < b
    · rw [band_cdf_inside a b ys _ t (ptLevels_length _) (not_lt.mp hta) htb]
      unfold ptLevels
      rw [getD_map_range, if_pos (Nat.lt_succ_of_le List.countP_le_length)]
    · rw [band_cdf_one_from_b a b ys _ t (ptLevels_length _) (not_lt.mp htb) (fun y hy => (hys y hy).2) hab]
      have h0 : ys.countP (fun v => decide (v ≤ t)) = ys.length := by
        rw [List.countP_eq_length]; intro v hv; simpa using le_trans (hys v hv).2 (not_lt.mp htb)
      rw [h0, div_self hn']

theorem clip01_of_mem {x : α} (h0 : 0 ≤ x) (h1 : x ≤ 1) : clip01 x = x := by
  unfold clip01; rw [max_eq_left h0, min_eq_left h1]

theorem lo_le_pt_levels (n : ℕ) {ε : α} (h : 0 ≤ ε) (i : ℕ) :
    (loLevels n ε).getD i 0 ≤ (ptLevels n).getD i 0 := by
  unfold loLevels ptLevels
  rw [getD_map_range, getD_map_range]
  split_ifs with hi
  · have h0 : (0 : α) ≤ (i : α) / (n : α) := by positivity
    have h1 : (i : α) / (n : α) ≤ 1 := by
      rcases Nat.eq_zero_or_pos n with rfl | hn
      · simp
      · rw [div_le_one (by exact_mod_cast hn)]; exact_mod_cast Nat.lt_succ_iff.mp hi
    calc clip01 ((i : α) / n - ε) ≤ clip01 ((i : α) / n) := clip01_mono (by linarith)
      _ = (i : α) / n := clip01_of_mem h0 h1
  · exact le_rfl

theorem pt_le_hi_levels (n : ℕ) {ε : α} (h : 0 ≤ ε) (i : ℕ) :
    (ptLevels n).getD i 0 ≤ (hiLevels n ε).getD i 0 := by
  unfold hiLevels ptLevels
  rw [getD_map_range, getD_map_range]
  split_ifs with hi
  · have h0 : (0 : α) ≤ (i : α) / (n : α) := by positivity
    have h1 : (i : α) / (n : α) ≤ 1 := by
      rcases Nat.eq_zero_or_pos n with rfl | hn
      · simp
      · rw [div_le_one (by exact_mod_cast hn)]; exact_mod_cast Nat.lt_succ_iff.mp hi
    calc (i : α) / n = clip01 ((i : α) / n) := (clip01_of_mem h0 h1).symm
      _ ≤ clip01 ((i : α) / n + ε) := clip01_mono (by linarith)
  · exact le_rfl

/-- **bracket for the dkw / ks tables**: `lo.cdf ≤ pt.cdf ≤ hi.cdf` at every `t`, for every `ε ≥ 0`, with `pt` the
actual empirical distribution of the sample. -/
theorem dkw_bracket (a b : E) (ys : List E) (t : E) (hne : ys ≠ []) (hys : ∀ y ∈ ys, a ≤ y ∧ y ≤ b)
    {ε : α} (h : 0 ≤ ε) :
    cdf (support ⊥ ⊤ a b (bandObs a b ys (loLevels ys.length ε))) t
        ≤ cdf (support ⊥ ⊤ a b (ys.map fun y => (y, (1 : α)))) t
      ∧ cdf (support ⊥ ⊤ a b (ys.map fun y => (y, (1 : α)))) t
        ≤ cdf (support ⊥ ⊤ a b (bandObs a b ys (hiLevels ys.length ε))) t := by
  rw [pt_cdf_eq_uniform_band a b ys t hne hys]
  exact ⟨band_cdf_le_of_levels_le a b ys _ _ t (loLevels_length _ _) (ptLevels_length _) (lo_le_pt_levels _ h),
    band_cdf_le_of_levels_le a b ys _ _ t (ptLevels_length _) (hiLevels_length _ _) (pt_le_hi_levels _ h)⟩

end Opda.Band
