import OpdaModel.NoisyFloat
import OpdaProofs.NoisyLogic
import OpdaProofs.NoisyReal
import Mathlib.Analysis.SpecialFunctions.Pow.Real
import Mathlib.Tactic

/-!
C07 over `ℝ`, noiseless regime (`o < 1e-6 (b−a)`, including `o = 0 < b − a`): the closed forms of `ppf` and
`cdf` are exact inverses, `cdf (ppf q) = q` for every `q ∈ [0, 1]`, both shapes, every `c ≥ 1`.
-/
namespace Opda.Noisy
open Real

variable (T : List (ℕ × List (Entry ℝ))) (ninf pinf : ℝ)

theorem cdf_ppf_noiseless (d : Params ℝ) (hab : d.a ≤ d.b) (ho : 0 ≤ d.o) (hc : 0 < d.c)
    (hp : pointMass (realFns T ninf pinf) d = false) (h : regime (realFns T ninf pinf) d = .noiseless)
    (q : ℝ) (hq0 : 0 ≤ q) (hq1 : q ≤ 1) :
    cdf (realFns T ninf pinf) d (ppf (realFns T ninf pinf) d q) = q := by
  have hlt := (regime_noiseless_iff (realFns_lawful T ninf pinf) d).mp h
  have hw : 0 < d.b - d.a := by
    by_contra hc'
    have : d.b - d.a = 0 := le_antisymm (not_lt.mp hc') (sub_nonneg.mpr hab)
    rw [this] at hlt; linarith
  have hc' : (0:ℝ) < d.c := by exact_mod_cast hc
  have hexp : (2:ℝ) / d.c * (d.c / 2) = 1 := by field_simp
  rw [ppf_noiseless d q hp h, cdf_noiseless d _ hp h]
  have hn : ∀ k : ℕ, (realFns T ninf pinf).n k = (k : ℝ) := fun _ => rfl
  have hpow : ∀ u v : ℝ, (realFns T ninf pinf).pow u v = u ^ v := fun _ _ => rfl
  simp only [hn, hpow, Nat.cast_zero, Nat.cast_one, Nat.cast_ofNat]
  rw [clip_of_mem q 0 1 hq0 hq1]
  cases hcv : d.convex
  · simp only [Bool.false_eq_true, if_false]
    have h1q : 0 ≤ 1 - q := by linarith
    have hp0 : 0 ≤ (1 - q) ^ ((2:ℝ) / d.c) := Real.rpow_nonneg h1q _
    have hp1 : (1 - q) ^ ((2:ℝ) / d.c) ≤ 1 := Real.rpow_le_one h1q (by linarith) (by positivity)
    have hm1 : d.a ≤ d.b - (d.b - d.a) * (1 - q) ^ ((2:ℝ) / d.c) := by nlinarith
    have hm2 : d.b - (d.b - d.a) * (1 - q) ^ ((2:ℝ) / d.c) ≤ d.b := by nlinarith
    rw [clip_of_mem _ _ _ hm1 hm2]
    have : (d.b - (d.b - (d.b - d.a) * (1 - q) ^ ((2:ℝ) / d.c))) / (d.b - d.a) = (1 - q) ^ ((2:ℝ) / d.c) := by
      field_simp; ring
    rw [this, ← Real.rpow_mul h1q, hexp, Real.rpow_one]; ring
  · simp only [if_true]
    have hp0 : 0 ≤ q ^ ((2:ℝ) / d.c) := Real.rpow_nonneg hq0 _
    have hp1 : q ^ ((2:ℝ) / d.c) ≤ 1 := Real.rpow_le_one hq0 hq1 (by positivity)
    have hm1 : d.a ≤ d.a + (d.b - d.a) * q ^ ((2:ℝ) / d.c) := by nlinarith
    have hm2 : d.a + (d.b - d.a) * q ^ ((2:ℝ) / d.c) ≤ d.b := by nlinarith
    rw [clip_of_mem _ _ _ hm1 hm2]
    have : (d.a + (d.b - d.a) * q ^ ((2:ℝ) / d.c) - d.a) / (d.b - d.a) = q ^ ((2:ℝ) / d.c) := by
      field_simp; ring
    rw [this, ← Real.rpow_mul hq0, hexp, Real.rpow_one]

end Opda.Noisy
