import OpdaModel.QuadTrap
import Mathlib.Data.Rat.Defs
import Mathlib.Tactic

/-!
C08-T5 (negative result): the stopping rule `i > 3 ∧ |T_i − T_{i−1}|/3 ≤ atol` of
`NoisyQuadraticDistribution.average_tuning_curve` is an error *estimate*, not a bound.  A rational
witness, evaluated by the kernel on the very loop model the driver runs (`Opda.TrapLoop.runCapped`,
here at `Rat`): a continuous, piecewise-linear, non-decreasing CDF on `[1, 2]` for which the loop stops
at the first permitted round (`i = 4`, 16 panels) with error estimate exactly `0`, while the value it
returns is off the true integral by `63/2048 ≈ 0.031 = 30 762·atol` — far beyond the property's
allowance `100·atol`.
-/
namespace Opda.TrapLoop.Witness

def natQ : Nat → Rat := fun k => (k : Rat)

/-- a CDF that is `0` up to `3/2`, rises to `1/2` on `[3/2, 3/2 + δ]`, stays `1/2` up to the grid point
`25/16`, rises to `1` on `[25/16, 25/16 + δ]` (`δ = 1/1024`): both transitions lie strictly between
points of the 16-panel grid `1 + k/16`, and the only grid point they touch, `25/16`, sees exactly `1/2` -/
def F (y : Rat) : Rat :=
  if y ≤ 3/2 then 0
  else if y ≤ 3/2 + 1/1024 then (y - 3/2) * 512
  else if y ≤ 25/16 then 1/2
  else if y ≤ 25/16 + 1/1024 then 1/2 + (y - 25/16) * 512
  else 1

/-- `x ↦ x^1` (the witness uses `n = 1`) -/
def pw1 (x _n : Rat) : Rat := x

/-- integrand of the code for maximising, `n = 1`: `1 − F(y)` -/
def g : Rat → Rat := gRep natQ pw1 F false 1

/-- default tolerance `1e-6·(hi − lo)` -/
def atol : Rat := 1 / 1000000

/-- break points of `F` inside `[1,2]`; between consecutive ones `g` is affine, so the trapezoid rule on
this partition is the exact integral -/
def knots : List Rat := [1, 3/2, 3/2 + 1/1024, 25/16, 25/16 + 1/1024, 2]

def exactIntegral : Rat :=
  ((knots.zip knots.tail).map fun p => (p.2 - p.1) * (g p.1 + g p.2) / 2).foldl (· + ·) 0

/-- the loop stops at round 4 with trapezoid value `9/16` and error estimate `0` … -/
theorem loop_stops_at_4 :
    (runCapped natQ [g] 1 2 atol 30).map (fun r => (r.1, r.2.1)) = some (4, [9/16]) := by
  decide +kernel

/-- … the exact integral is `17/32 + 1/2048` … -/
theorem exactIntegral_eq : exactIntegral = 1089/2048 := by decide +kernel

/-- … so the returned value is wrong by `63/2048 > 100·atol` (in fact `> 30 000·atol`) -/
theorem stop_rule_not_a_bound :
    ∃ (i : Nat) (T : Rat), (runCapped natQ [g] 1 2 atol 30).map (fun r => (r.1, r.2.1)) = some (i, [T])
      ∧ 100 * atol < |T - exactIntegral| :=
  ⟨4, 9/16, loop_stops_at_4, by rw [exactIntegral_eq]; decide +kernel⟩

/-- the witness is a distribution function on the grid of break points: non-decreasing, `0` at the left
end and `1` at the right end (between break points it is affine) -/
theorem F_is_cdf_on_knots :
    (knots.map F) = [0, 0, 1/2, 1/2, 1, 1] := by decide +kernel

/-- `F` is non-decreasing on all of `ℚ` -/
theorem F_mono (x y : Rat) (h : x ≤ y) : F x ≤ F y := by
  unfold F
  split_ifs <;> linarith

/-- `0 ≤ F ≤ 1` -/
theorem F_range (y : Rat) : 0 ≤ F y ∧ F y ≤ 1 := by
  unfold F
  split_ifs <;> constructor <;> linarith

/-- the affine pieces agree at the break points (continuity of the piecewise definition) -/
theorem F_pieces_agree :
    ((3/2 + 1/1024 : Rat) - 3/2) * 512 = 1/2 ∧ (1/2 + ((25/16 : Rat) - 25/16) * 512 = 1/2)
      ∧ (1/2 + ((25/16 + 1/1024 : Rat) - 25/16) * 512 = 1) := by
  refine ⟨by norm_num, by norm_num, by norm_num⟩

end Opda.TrapLoop.Witness
