import OpdaModel.FitPlan
import OpdaProofs.Fit
import OpdaProofs.FitPlan
import Mathlib.Tactic

/-!
C10-T6 (best-of-`convex`), C11-T6 (exception table), C11-T5 (feasibility of the box of the noiseless
class) and C11-T1/T2 (everything handed to the optimiser depends on the sample only through
`(n, n_lower, n_upper, multiset of observed values)`).
-/
namespace Opda.Fit

/-! ## best-of (C10-T6) -/
section best
variable {β γ : Type} [LinearOrder β]

theorem bestOf_fold (runs : List (β × γ)) (b0 : β) (r0 : Option γ) (res : β × Option γ)
    (hres : runs.foldl (fun acc r => if r.1 < acc.1 then (r.1, some r.2) else acc) (b0, r0) = res) :
    (res = (b0, r0) ∧ ∀ r ∈ runs, ¬ r.1 < b0) ∨
    (∃ pre g post, runs = pre ++ (res.1, g) :: post ∧ res.2 = some g ∧ res.1 < b0 ∧
      (∀ r ∈ pre, res.1 < r.1) ∧ (∀ r ∈ post, res.1 ≤ r.1)) := by
  induction runs generalizing b0 r0 with
  | nil => left; simp at hres; exact ⟨hres.symm, by simp⟩
  | cons r rs ih =>
    simp only [List.foldl_cons] at hres
    by_cases h : r.1 < b0
    · simp only [h, if_true] at hres
      rcases ih r.1 (some r.2) hres with ⟨he, hall⟩ | ⟨pre, g, post, hruns, hg, hlt, hpre, hpost⟩
      · right
        refine ⟨[], r.2, rs, ?_, ?_, ?_, ?_, ?_⟩
        · rw [he]; rfl
        · rw [he]
        · rw [he]; exact h
        · simp
        · rw [he]; intro x hx; exact not_lt.mp (hall x hx)
      · right
        refine ⟨r :: pre, g, post, ?_, hg, lt_trans hlt h, ?_, hpost⟩
        · rw [hruns]; rfl
        · intro x hx
          rcases List.mem_cons.mp hx with rfl | hx
          · exact hlt
          · exact hpre x hx
    · simp only [h, if_false] at hres
      rcases ih b0 r0 hres with ⟨he, hall⟩ | ⟨pre, g, post, hruns, hg, hlt, hpre, hpost⟩
      · left
        refine ⟨he, ?_⟩
        intro x hx
        rcases List.mem_cons.mp hx with rfl | hx
        · exact h
        · exact hall x hx
      · right
        refine ⟨r :: pre, g, post, ?_, hg, hlt, ?_, hpost⟩
        · rw [hruns]; rfl
        · intro x hx
          rcases List.mem_cons.mp hx with rfl | hx
          · exact lt_of_lt_of_le hlt (not_lt.mp h)
          · exact hpre x hx

/-- **C10-T6.** The strict-`<` fold returns the run with the least `fun`; among equal minima the
*first* one; and nothing (→ `OptimizationError`) exactly when no run beats `inf`. -/
theorem bestOf_spec (inf : β) (runs : List (β × γ)) :
    (bestOf inf runs = (inf, none) ∧ ∀ r ∈ runs, ¬ r.1 < inf) ∨
    (∃ pre g post, runs = pre ++ ((bestOf inf runs).1, g) :: post ∧ (bestOf inf runs).2 = some g ∧
      (bestOf inf runs).1 < inf ∧ (∀ r ∈ pre, (bestOf inf runs).1 < r.1) ∧
      (∀ r ∈ post, (bestOf inf runs).1 ≤ r.1)) :=
  bestOf_fold runs inf none (bestOf inf runs) rfl

end best

/-! ## the exception table (C11-T6) -/
section exc
variable {α : Type} [LinearOrder α]

theorem checkNum_classes (zero one ten : α) (isInt : α → Bool) (key : Key) (d : NumDesc α) (e : Exc)
    (h : checkNum zero one ten isInt key d = some e) : e = .valueError ∨ e = .typeError := by
  unfold checkNum at h
  split at h <;> (try split_ifs at h) <;> simp_all

theorem checkConvex_classes (d : ConvexDesc) (e : Exc) (h : checkConvex d = some e) :
    e = .valueError ∨ e = .typeError := by
  unfold checkConvex at h
  split_ifs at h <;> simp_all

theorem checkCons_classes (zero one ten : α) (isInt : α → Bool) (cls : Cls) (items : List (ConsItem α)) (e : Exc)
    (h : checkCons zero one ten isInt cls items = some e) : e = .valueError ∨ e = .typeError := by
  induction items with
  | nil => simp [checkCons] at h
  | cons it rest ih =>
    simp only [checkCons] at h
    cases hit : checkItem zero one ten isInt cls it with
    | none => rw [hit] at h; exact ih h
    | some e' =>
      rw [hit] at h
      have : e' = e := by simpa using h
      subst this
      cases it with
      | other => simp [checkItem] at hit; left; exact hit.symm
      | convex cd => exact checkConvex_classes cd _ hit
      | num key nd =>
        simp only [checkItem] at hit
        split_ifs at hit
        · left; simpa using hit.symm
        · exact checkNum_classes zero one ten isInt key nd _ hit

/-- **C11-T6 (malformed arguments).** Whatever the argument-validation prefix rejects, it rejects with
`ValueError` or `TypeError`. -/
theorem validate_classes (zero one ten : α) (isInt : α → Bool) (cls : Cls) (ys : YsDesc) (lim : LimDesc)
    (items : List (ConsItem α)) (e : Exc) (h : validate zero one ten isInt cls ys lim items = some e) :
    e = .valueError ∨ e = .typeError := by
  unfold validate at h
  split_ifs at h <;> (try (simp at h; subst h; simp))
  exact checkCons_classes zero one ten isInt cls items e h

/-- **C11-T6 (before the loop).** A call that passed validation fails before the loop only with
`ValueError` — except for a `c` interval given with float end points, on which `range()` raises
`TypeError` (finding F8). -/
theorem precheck_classes (zero : α) (cls : Cls) (c : Censored α) (lo hi : α) (cA cB cO : Cons α)
    (cFloatPair : Bool) (e : Exc) (h : precheck zero cls c lo hi cA cB cO cFloatPair = .error e) :
    e = .valueError ∨ (e = .rangeTypeError ∧ cFloatPair = true) := by
  unfold precheck at h
  by_cases h1 : c.n < 3
  · rw [if_pos h1] at h; left; cases h; rfl
  · rw [if_neg h1] at h
    cases hst : stats c lo hi with
    | none => rw [hst] at h; left; cases h; rfl
    | some st =>
      rw [hst] at h
      simp only at h
      by_cases hf : cFloatPair = true
      · rw [if_pos hf] at h; right; cases h; exact ⟨rfl, hf⟩
      · rw [if_neg hf] at h
        split_ifs at h <;> (left; cases h; rfl)

/-- what a passed pre-loop check established -/
theorem precheck_ok (zero : α) (cls : Cls) (c : Censored α) (lo hi : α) (cA cB cO : Cons α)
    (cFloatPair : Bool) (st : Stats α) (h : precheck zero cls c lo hi cA cB cO cFloatPair = .ok st) :
    3 ≤ c.n ∧ stats c lo hi = some st ∧ cFloatPair = false ∧
      (oPinned zero cls cO = true → aBad st.yMin cA = false ∧ bBad st.yMax cB = false) := by
  unfold precheck at h
  by_cases h1 : c.n < 3
  · rw [if_pos h1] at h; cases h
  · rw [if_neg h1] at h
    cases hst : stats c lo hi with
    | none => rw [hst] at h; cases h
    | some st' =>
      rw [hst] at h
      simp only at h
      by_cases hf : cFloatPair = true
      · rw [if_pos hf] at h; cases h
      · rw [if_neg hf] at h
        split_ifs at h with ha hb
        cases h
        refine ⟨by omega, rfl, by simpa using hf, ?_⟩
        intro hp
        simp only [hp, Bool.true_and, Bool.not_eq_true] at ha hb
        exact ⟨ha, hb⟩

/-- **C11-T6 (inside the loop, up to the buckets).** The only exception of the box construction is
`OptimizationError` (an empty intersection of a constraint with the data-driven bounds). -/
theorem planConvex_classes [Sub α] [Add α] [Mul α] (zero negInf posInf : α) (cls : Cls) (st : Stats α)
    (range w v : α) (cA cB : Cons α) (cC : Cons Int) (cO : Cons α) (e : Exc)
    (h : planConvex zero negInf posInf cls st range w v cA cB cC cO = .error e) : e = .optimizationError := by
  unfold planConvex at h
  simp only at h
  split_ifs at h <;> (try (cases h; rfl))
  all_goals (split at h <;> (try split_ifs at h) <;> (try (cases h; rfl)) <;> simp at h)

variable {β : Type}

theorem passesOutcome_error (passes : List (Pass β)) (e : Exc) (h : passesOutcome passes = .error e) :
    ∃ p ∈ passes, passOutcome p = .error e := by
  induction passes with
  | nil => simp [passesOutcome] at h
  | cons p rest ih =>
    simp only [passesOutcome] at h
    cases hp : passOutcome p with
    | error e' =>
      rw [hp] at h
      have : e' = e := by simpa using h
      exact ⟨p, by simp, this ▸ hp⟩
    | ok r =>
      rw [hp] at h
      cases hr : passesOutcome rest with
      | error e' =>
        rw [hr] at h
        have : e' = e := by simpa using h
        obtain ⟨q, hq, hqe⟩ := ih (this ▸ hr)
        exact ⟨q, List.mem_cons_of_mem _ hq, hqe⟩
      | ok rs => rw [hr] at h; simp at h

/-- **C11-T6 (the loop and after).** `fit` ends in an exception other than `OptimizationError` only
if some pass of the loop (a) failed in the box construction (`OptimizationError`, by
`planConvex_classes`), or (b) ran the bucket fix-ups out of range — `IndexError`, finding F2 — or
(c) called the optimiser with fewer than five members — scipy's `ValueError`, finding F3. -/
theorem fitOutcome_classes [LinearOrder β] (inf : β) (isFinite : β → Bool) (passes : List (Pass β)) (e : Exc)
    (h : fitOutcome inf isFinite passes = .error e) :
    e = .optimizationError ∨ (∃ p ∈ passes, p.planErr = some e) ∨
      (e = .indexError ∧ ∃ p ∈ passes, p.bucketsOk = false) ∨
      (e = .scipyValueError ∧ ∃ p ∈ passes, 0 < p.nBounds ∧ p.popSize < scipyMinPop) := by
  unfold fitOutcome at h
  cases hp : passesOutcome passes with
  | error e' =>
    rw [hp] at h
    have : e' = e := by simpa using h
    subst this
    obtain ⟨p, hpm, hpe⟩ := passesOutcome_error passes _ hp
    unfold passOutcome at hpe
    cases hpl : p.planErr with
    | some e'' =>
      rw [hpl] at hpe
      have : e'' = e' := by simpa using hpe
      right; left; exact ⟨p, hpm, this ▸ hpl⟩
    | none =>
      rw [hpl] at hpe
      simp only at hpe
      split_ifs at hpe with h1 h2
      · right; right; left
        refine ⟨by cases hpe; rfl, p, hpm, by simpa using h1⟩
      · right; right; right
        refine ⟨by cases hpe; rfl, p, hpm, by simpa using h2⟩
  | ok rs =>
    rw [hp] at h
    simp only at h
    split at h
    · split_ifs at h; left; cases h; rfl
    · left; cases h; rfl

end exc

/-! ## feasibility of the noiseless box (C11-T5) -/
section feas
variable {α : Type} [LinearOrder α]

theorem foldl_pymin_le (l : List α) (m : α) : l.foldl pymin m ≤ m ∧ ∀ y ∈ l, l.foldl pymin m ≤ y := by
  induction l generalizing m with
  | nil => simp
  | cons x xs ih =>
    simp only [List.foldl_cons]
    obtain ⟨h1, h2⟩ := ih (pymin m x)
    rw [pymin_eq] at h1 h2 ⊢
    refine ⟨le_trans h1 (min_le_left _ _), ?_⟩
    intro y hy
    rcases List.mem_cons.mp hy with rfl | hy
    · exact le_trans h1 (min_le_right _ _)
    · exact h2 y hy

theorem le_foldl_pymax (l : List α) (m : α) : m ≤ l.foldl pymax m ∧ ∀ y ∈ l, y ≤ l.foldl pymax m := by
  induction l generalizing m with
  | nil => simp
  | cons x xs ih =>
    simp only [List.foldl_cons]
    obtain ⟨h1, h2⟩ := ih (pymax m x)
    rw [pymax_eq] at h1 h2 ⊢
    refine ⟨le_trans (le_max_left _ _) h1, ?_⟩
    intro y hy
    rcases List.mem_cons.mp hy with rfl | hy
    · exact le_trans (le_max_right _ _) h1
    · exact h2 y hy

theorem minList_le (l : List α) (m : α) (h : minList l = some m) : ∀ y ∈ l, m ≤ y := by
  cases l with
  | nil => simp [minList] at h
  | cons x xs =>
    simp only [minList, Option.some.injEq] at h
    subst h
    intro y hy
    rcases List.mem_cons.mp hy with rfl | hy
    · exact (foldl_pymin_le xs _).1
    · exact (foldl_pymin_le xs x).2 y hy

theorem le_maxList (l : List α) (m : α) (h : maxList l = some m) : ∀ y ∈ l, y ≤ m := by
  cases l with
  | nil => simp [maxList] at h
  | cons x xs =>
    simp only [maxList, Option.some.injEq] at h
    subst h
    intro y hy
    rcases List.mem_cons.mp hy with rfl | hy
    · exact (le_foldl_pymax xs _).1
    · exact (le_foldl_pymax xs x).2 y hy

theorem mem_observed (ys : List α) (lo hi y : α) (h : y ∈ (censor ys lo hi).observed) : lo < y ∧ y ≤ hi := by
  simp only [censor, List.mem_filter, Bool.and_eq_true, decide_eq_true_eq] at h
  exact h.2

/-- `y_min` is below and `y_max` above every observed value, and they are the limits when something is
censored on that side -/
theorem stats_bounds (ys : List α) (lo hi : α) (st : Stats α) (h : stats (censor ys lo hi) lo hi = some st) :
    (∀ y ∈ (censor ys lo hi).observed, st.yMin ≤ y ∧ y ≤ st.yMax) ∧
      (0 < (censor ys lo hi).nLower → st.yMin = lo) ∧ (0 < (censor ys lo hi).nUpper → st.yMax = hi) := by
  unfold stats at h
  cases hmn : minList (censor ys lo hi).observed with
  | none => simp [hmn] at h
  | some mn =>
    cases hmx : maxList (censor ys lo hi).observed with
    | none => simp [hmn, hmx] at h
    | some mx =>
      simp only [hmn, hmx, Option.some.injEq] at h
      subst h
      refine ⟨?_, ?_, ?_⟩
      · intro y hy
        have hobs := mem_observed ys lo hi y hy
        constructor
        · show (if (censor ys lo hi).nLower = 0 then mn else lo) ≤ y
          split_ifs
          · exact minList_le _ _ hmn y hy
          · exact le_of_lt hobs.1
        · show y ≤ (if (censor ys lo hi).nUpper = 0 then mx else hi)
          split_ifs
          · exact le_maxList _ _ hmx y hy
          · exact hobs.2
      · intro hpos
        show (if (censor ys lo hi).nLower = 0 then mn else lo) = lo
        rw [if_neg (by omega)]
      · intro hpos
        show (if (censor ys lo hi).nUpper = 0 then mx else hi) = hi
        rw [if_neg (by omega)]

/-- **C11-T5 (noiseless class).** Once the pre-loop checks pass, every `a` in the box lies at or below
every uncensored observation and every `b` in the box at or above; and the box reaches each limit beyond
which observations were censored. -/
theorem quad_box_feasible [Sub α] [Add α] [Mul α] (zero negInf posInf : α) (ys : List α) (lo hi : α)
    (cA cB cO : Cons α) (cC : Cons Int) (cFloatPair : Bool) (st : Stats α) (w v : α) (p : ConvexPlan α)
    (hpre : precheck zero .quad (censor ys lo hi) lo hi cA cB cO cFloatPair = .ok st)
    (hplan : planConvex zero negInf posInf .quad st (st.yMax - st.yMin) w v cA cB cC cO = .ok p) :
    (∀ y ∈ (censor ys lo hi).observed, p.aBox.hi ≤ y ∧ y ≤ p.bBox.lo) ∧
      (0 < (censor ys lo hi).nLower → p.aBox.hi ≤ lo) ∧ (0 < (censor ys lo hi).nUpper → hi ≤ p.bBox.lo) := by
  obtain ⟨_, hst, _, hab⟩ := precheck_ok zero .quad _ lo hi cA cB cO cFloatPair st hpre
  obtain ⟨ha, hb⟩ := hab rfl
  obtain ⟨hobs, hlo, hhi⟩ := stats_bounds ys lo hi st hst
  unfold planConvex at hplan
  simp only at hplan
  split_ifs at hplan with h1 h2 h3
  cases hplan
  simp only
  have hA : (boxOf (st.yMin - w * (st.yMax - st.yMin)) st.yMin cA).hi ≤ st.yMin := by
    cases cA with
    | absent => exact le_refl _
    | fixed a =>
      simp only [aBad, decide_eq_false_iff_not] at ha
      exact not_lt.mp ha
    | interval l h => simp only [boxOf, pymin_eq]; exact min_le_left _ _
  have hB : st.yMax ≤ (boxOf st.yMax (st.yMax + w * (st.yMax - st.yMin)) cB).lo := by
    cases cB with
    | absent => exact le_refl _
    | fixed b =>
      simp only [bBad, decide_eq_false_iff_not] at hb
      exact not_lt.mp hb
    | interval l h => simp only [boxOf, pymax_eq]; exact le_max_left _ _
  refine ⟨?_, ?_, ?_⟩
  · intro y hy
    exact ⟨le_trans hA (hobs y hy).1, le_trans (hobs y hy).2 hB⟩
  · intro hpos; rw [← hlo hpos]; exact hA
  · intro hpos; rw [← hhi hpos]; exact hB

end feas

/-! ## invariance of everything handed to the optimiser (C11-T1, C11-T2) -/
section inv
variable {α : Type} [LinearOrder α]

theorem censor_perm {ys ys' : List α} (h : ys.Perm ys') (lo hi : α) :
    (censor ys lo hi).n = (censor ys' lo hi).n ∧ (censor ys lo hi).nLower = (censor ys' lo hi).nLower ∧
      (censor ys lo hi).nUpper = (censor ys' lo hi).nUpper ∧
      (censor ys lo hi).observed.Perm (censor ys' lo hi).observed :=
  ⟨h.length_eq, (h.filter _).length_eq, (h.filter _).length_eq, h.filter _⟩

theorem foldl_pymin_mem (l : List α) (m : α) : l.foldl pymin m = m ∨ l.foldl pymin m ∈ l := by
  induction l generalizing m with
  | nil => left; rfl
  | cons x xs ih =>
    simp only [List.foldl_cons]
    rcases ih (pymin m x) with h | h
    · rw [h]; unfold pymin; split_ifs
      · right; simp
      · left; rfl
    · right; exact List.mem_cons_of_mem _ h

theorem foldl_pymax_mem (l : List α) (m : α) : l.foldl pymax m = m ∨ l.foldl pymax m ∈ l := by
  induction l generalizing m with
  | nil => left; rfl
  | cons x xs ih =>
    simp only [List.foldl_cons]
    rcases ih (pymax m x) with h | h
    · rw [h]; unfold pymax; split_ifs
      · right; simp
      · left; rfl
    · right; exact List.mem_cons_of_mem _ h

theorem minList_mem (l : List α) (m : α) (h : minList l = some m) : m ∈ l := by
  cases l with
  | nil => simp [minList] at h
  | cons x xs =>
    simp only [minList, Option.some.injEq] at h
    subst h
    rcases foldl_pymin_mem xs x with h | h
    · rw [h]; simp
    · exact List.mem_cons_of_mem _ h

theorem maxList_mem (l : List α) (m : α) (h : maxList l = some m) : m ∈ l := by
  cases l with
  | nil => simp [maxList] at h
  | cons x xs =>
    simp only [maxList, Option.some.injEq] at h
    subst h
    rcases foldl_pymax_mem xs x with h | h
    · rw [h]; simp
    · exact List.mem_cons_of_mem _ h

theorem minList_perm {l l' : List α} (h : l.Perm l') : minList l = minList l' := by
  cases hl : minList l with
  | none =>
    cases l with
    | nil => rw [List.nil_perm.mp h]; rfl
    | cons x xs => simp [minList] at hl
  | some m =>
    cases hl' : minList l' with
    | none =>
      cases l' with
      | nil => rw [List.perm_nil.mp h] at hl; simp [minList] at hl
      | cons x xs => simp [minList] at hl'
    | some m' =>
      have h1 := minList_le l m hl m' (h.mem_iff.mpr (minList_mem l' m' hl'))
      have h2 := minList_le l' m' hl' m (h.mem_iff.mp (minList_mem l m hl))
      rw [le_antisymm h1 h2]

theorem maxList_perm {l l' : List α} (h : l.Perm l') : maxList l = maxList l' := by
  cases hl : maxList l with
  | none =>
    cases l with
    | nil => rw [List.nil_perm.mp h]; rfl
    | cons x xs => simp [maxList] at hl
  | some m =>
    cases hl' : maxList l' with
    | none =>
      cases l' with
      | nil => rw [List.perm_nil.mp h] at hl; simp [maxList] at hl
      | cons x xs => simp [maxList] at hl'
    | some m' =>
      have h1 := le_maxList l m hl m' (h.mem_iff.mpr (maxList_mem l' m' hl'))
      have h2 := le_maxList l' m' hl' m (h.mem_iff.mp (maxList_mem l m hl))
      rw [le_antisymm h2 h1]

/-- two censored summaries that agree on the counts and on the *multiset* of observed values -/
structure SameSummary (c c' : Censored α) : Prop where
  n : c.n = c'.n
  nLower : c.nLower = c'.nLower
  nUpper : c.nUpper = c'.nUpper
  observed : c.observed.Perm c'.observed

theorem stats_congr {c c' : Censored α} (h : SameSummary c c') (lo hi : α) : stats c lo hi = stats c' lo hi := by
  unfold stats
  rw [minList_perm h.observed, maxList_perm h.observed, h.n, h.nLower, h.nUpper]

theorem precheck_congr (zero : α) (cls : Cls) {c c' : Censored α} (h : SameSummary c c') (lo hi : α)
    (cA cB cO : Cons α) (cf : Bool) :
    precheck zero cls c lo hi cA cB cO cf = precheck zero cls c' lo hi cA cB cO cf := by
  unfold precheck
  rw [stats_congr h lo hi, h.n]

/-- strictly increasing lists with the same members are equal -/
theorem sorted_ext {l₁ l₂ : List α} (h₁ : l₁.Pairwise (· < ·)) (h₂ : l₂.Pairwise (· < ·))
    (h : ∀ z, z ∈ l₁ ↔ z ∈ l₂) : l₁ = l₂ := by
  induction l₁ generalizing l₂ with
  | nil =>
    cases l₂ with
    | nil => rfl
    | cons x xs => exact absurd ((h x).mpr (by simp)) (by simp)
  | cons x xs ih =>
    have hx : ∀ y ∈ xs, x < y := (List.pairwise_cons.mp h₁).1
    have hmin : ∀ y ∈ l₂, x ≤ y := by
      intro y hy
      rcases List.mem_cons.mp ((h y).mpr hy) with rfl | hy'
      · exact le_refl _
      · exact le_of_lt (hx y hy')
    obtain ⟨t, rfl⟩ := sorted_head_eq h₂ ((h x).mp (by simp)) hmin
    have ht : ∀ y ∈ t, x < y := (List.pairwise_cons.mp h₂).1
    congr 1
    apply ih (List.pairwise_cons.mp h₁).2 (List.pairwise_cons.mp h₂).2
    intro z
    constructor
    · intro hz
      rcases List.mem_cons.mp ((h z).mp (List.mem_cons_of_mem _ hz)) with rfl | h'
      · exact absurd (hx _ hz) (lt_irrefl _)
      · exact h'
    · intro hz
      rcases List.mem_cons.mp ((h z).mpr (List.mem_cons_of_mem _ hz)) with rfl | h'
      · exact absurd (ht _ hz) (lt_irrefl _)
      · exact h'

theorem mult_perm {l l' : List α} (h : l.Perm l') (z : α) : mult z l = mult z l' := (h.filter _).length_eq

theorem eq_of_map_fst_snd {β γ : Type} {l l' : List (β × γ)} (h1 : l.map Prod.fst = l'.map Prod.fst)
    (h2 : l.map Prod.snd = l'.map Prod.snd) : l = l' := by
  induction l generalizing l' with
  | nil => cases l' <;> simp_all
  | cons p ps ih =>
    cases l' with
    | nil => simp at h1
    | cons q qs =>
      simp only [List.map_cons, List.cons.injEq] at h1 h2
      congr 1
      · exact Prod.ext h1.1 h2.1
      · exact ih h1.2 h2.2

/-- `np.unique(…, return_counts=True)` does not see the order of its input -/
theorem uniqueCounts_perm {pts pts' : List α} (h : pts.Perm pts') :
    uniqueCounts (pts.map fun v => (v, 1)) = uniqueCounts (pts'.map fun v => (v, 1)) := by
  obtain ⟨hs, hm, hc⟩ := unique_spec pts
  obtain ⟨hs', hm', hc'⟩ := unique_spec pts'
  have hz : (uniqueCounts (pts.map fun v => (v, 1))).map Prod.fst
      = (uniqueCounts (pts'.map fun v => (v, 1))).map Prod.fst :=
    sorted_ext hs hs' (fun z => by rw [hm, hm', h.mem_iff])
  apply eq_of_map_fst_snd hz
  rw [hc, hc', hz]
  apply List.map_congr_left
  intro z _
  exact mult_perm h z

theorem pointValues_perm {obs obs' : List α} (h : obs.Perm obs') (e : α) (ll lu : Option α) (e' : α) :
    (pointValues e ll obs lu e').Perm (pointValues e ll obs' lu e') := by
  unfold pointValues
  exact List.Perm.cons _ (((List.Perm.append_left _ h).append_right _).append_right _)

theorem buckets_perm {obs obs' : List α} (h : obs.Perm obs') (e : α) (ll lu : Option α) (e' : α) (nl nu : Nat) :
    zsModel e ll obs lu e' = zsModel e ll obs' lu e' ∧ ksModel? e ll obs lu e' nl nu = ksModel? e ll obs' lu e' nl nu := by
  have := uniqueCounts_perm (pointValues_perm h e ll lu e')
  unfold zsModel ksModel? points
  rw [this]
  exact ⟨rfl, rfl⟩

variable [Sub α] [Add α] [Mul α]

/-- everything handed to the optimiser is a function of `(n, n_lower, n_upper, multiset of observed values)` -/
theorem fitInputsOf_congr (zero negInf posInf : α) (rndOf : List α → α → α)
    (hr : ∀ l l' : List α, l.Perm l' → rndOf l = rndOf l') (cls : Cls) (lo hi : α) (cA cB : Cons α)
    (cC : Cons Int) (cO : Cons α) (cf : Bool) (ws : List α) (v : α) {c c' : Censored α} (h : SameSummary c c') :
    fitInputsOf zero negInf posInf rndOf cls lo hi cA cB cC cO cf ws v c
      = fitInputsOf zero negInf posInf rndOf cls lo hi cA cB cC cO cf ws v c' := by
  unfold fitInputsOf
  simp only
  rw [precheck_congr zero cls h lo hi cA cB cO cf, h.n, h.nLower, h.nUpper, hr _ _ h.observed]
  congr 1
  cases precheck zero cls c' lo hi cA cB cO cf with
  | error e => rfl
  | ok st =>
    simp only
    apply List.map_congr_left
    intro w _
    cases planConvex zero negInf posInf cls st (st.yMax - st.yMin) w v cA cB cC cO with
    | error e => rfl
    | ok p =>
      simp only
      obtain ⟨hz, hk⟩ := buckets_perm (h.observed.map (rndOf c'.observed)) (rndOf c'.observed p.edgeLo)
        (if c'.nLower = 0 then none else some (rndOf c'.observed lo))
        (if c'.nUpper = 0 then none else some (rndOf c'.observed hi)) (rndOf c'.observed p.edgeHi)
        c'.nLower c'.nUpper
      rw [hz, hk]

/-- **C11-T1.** Permuting the sample changes nothing that is handed to the optimiser. -/
theorem fit_inputs_perm_invariant (zero negInf posInf : α) (rndOf : List α → α → α)
    (hr : ∀ l l' : List α, l.Perm l' → rndOf l = rndOf l') (cls : Cls) (lo hi : α) (cA cB : Cons α)
    (cC : Cons Int) (cO : Cons α) (cf : Bool) (ws : List α) (v : α) {ys ys' : List α} (h : ys.Perm ys') :
    fitInputs zero negInf posInf rndOf cls lo hi cA cB cC cO cf ws v ys
      = fitInputs zero negInf posInf rndOf cls lo hi cA cB cC cO cf ws v ys' := by
  obtain ⟨h1, h2, h3, h4⟩ := censor_perm h lo hi
  exact fitInputsOf_congr zero negInf posInf rndOf hr cls lo hi cA cB cC cO cf ws v ⟨h1, h2, h3, h4⟩

/-- two observations on the same side of the limits (and equal if they are inside) -/
def SameSide (lo hi y y' : α) : Prop :=
  (y ≤ lo ∧ y' ≤ lo) ∨ (hi < y ∧ hi < y') ∨ (lo < y ∧ y ≤ hi ∧ y' = y)

theorem censor_sameSide {ys ys' : List α} (lo hi : α) (hlh : lo < hi) (h : List.Forall₂ (SameSide lo hi) ys ys') :
    censor ys lo hi = censor ys' lo hi := by
  induction h with
  | nil => rfl
  | @cons y y' t t' hy _ ih =>
    simp only [censor, Censored.mk.injEq] at ih ⊢
    obtain ⟨i1, i2, i3, i4⟩ := ih
    rcases hy with ⟨h1, h2⟩ | ⟨h1, h2⟩ | ⟨h1, h2, rfl⟩
    · have a1 : ¬ lo < y := not_lt.mpr h1
      have a2 : ¬ lo < y' := not_lt.mpr h2
      have a3 : ¬ hi < y := not_lt.mpr (le_trans h1 hlh.le)
      have a4 : ¬ hi < y' := not_lt.mpr (le_trans h2 hlh.le)
      simp [List.filter_cons, h1, h2, a1, a2, a3, a4, i1, i2, i3, i4]
    · have a1 : ¬ y ≤ lo := not_le.mpr (lt_trans hlh h1)
      have a2 : ¬ y' ≤ lo := not_le.mpr (lt_trans hlh h2)
      have a3 : ¬ y ≤ hi := not_le.mpr h1
      have a4 : ¬ y' ≤ hi := not_le.mpr h2
      simp [List.filter_cons, h1, h2, a1, a2, a3, a4, i1, i2, i3, i4]
    · have a1 : ¬ y' ≤ lo := not_le.mpr h1
      have a2 : ¬ hi < y' := not_lt.mpr h2
      simp [List.filter_cons, h1, h2, a1, a2, i1, i2, i3, i4]

/-- **C11-T2.** Changing censored observations to other values on the same side of the limits changes
nothing that is handed to the optimiser. -/
theorem fit_inputs_censored_value_invariant (zero negInf posInf : α) (rndOf : List α → α → α) (cls : Cls)
    (lo hi : α) (hlh : lo < hi) (cA cB : Cons α) (cC : Cons Int) (cO : Cons α) (cf : Bool) (ws : List α) (v : α)
    {ys ys' : List α} (h : List.Forall₂ (SameSide lo hi) ys ys') :
    fitInputs zero negInf posInf rndOf cls lo hi cA cB cC cO cf ws v ys
      = fitInputs zero negInf posInf rndOf cls lo hi cA cB cC cO cf ws v ys' := by
  unfold fitInputs
  rw [censor_sameSide lo hi hlh h]

end inv

end Opda.Fit
