import OpdaModel.NoisyFloat
import OpdaProofs.Bisect
import Mathlib.Algebra.Order.Field.Basic
import Mathlib.Algebra.Order.AbsoluteValue.Basic
import Mathlib.Tactic

/-!
C07: the bisection of the executable model (`Opda.Noisy.bisect`, the term the driver runs inside
`Opda.Noisy.ppf`) *is* the generic `Bisect.run`; bracket width; the invariant and the accuracy bound
for a monotone Lipschitz `F`.
-/
namespace Opda.Noisy

section order
variable {α : Type} [LinearOrder α]

/-- the model's bisection is literally the `Bisect.run` the monotonicity theorem is about -/
theorem bisect_eq_run (f : α → α) (mid : α → α → α) (q : α) (k : Nat) (br : α × α) :
    bisect f mid q k br = Bisect.run f mid q k br := by
  induction k generalizing br with
  | zero => rfl
  | succ k ih =>
    obtain ⟨lo, hi⟩ := br
    simp only [bisect, Bisect.run]
    split_ifs <;> exact ih _

end order

section field
variable {α : Type} [Field α] [LinearOrder α] [IsStrictOrderedRing α]

/-- the arithmetic mean is a lawful midpoint operator -/
theorem midOK_half : Bisect.MidOK (fun lo hi : α => (lo + hi) / 2) := by
  intro lo hi h
  constructor
  · rw [le_div_iff₀ (by norm_num : (0:α) < 2)]; linarith
  · rw [div_le_iff₀ (by norm_num : (0:α) < 2)]; linarith

/-- each step halves the bracket: after `k` steps its width is `(hi − lo) / 2^k` -/
theorem run_width (f : α → α) (q : α) (k : Nat) (lo hi : α) :
    (Bisect.run f (fun lo hi => (lo + hi) / 2) q k (lo, hi)).2
      - (Bisect.run f (fun lo hi => (lo + hi) / 2) q k (lo, hi)).1 = (hi - lo) / 2 ^ k := by
  induction k generalizing lo hi with
  | zero => simp [Bisect.run]
  | succ k ih =>
    simp only [Bisect.run]
    split_ifs
    · rw [ih]; field_simp; ring
    · rw [ih]; field_simp; ring

omit [IsStrictOrderedRing α] in
/-- invariant for a monotone `f`: the lower end is either still the initial one or satisfies `f lo < q`;
the upper end is either still the initial one or satisfies `q ≤ f hi` -/
theorem run_invariant (f : α → α) (q : α) (k : Nat) (lo hi lo0 hi0 : α)
    (hl : lo = lo0 ∨ f lo < q) (hh : hi = hi0 ∨ q ≤ f hi) :
    ((Bisect.run f (fun lo hi => (lo + hi) / 2) q k (lo, hi)).1 = lo0
        ∨ f (Bisect.run f (fun lo hi => (lo + hi) / 2) q k (lo, hi)).1 < q)
      ∧ ((Bisect.run f (fun lo hi => (lo + hi) / 2) q k (lo, hi)).2 = hi0
        ∨ q ≤ f (Bisect.run f (fun lo hi => (lo + hi) / 2) q k (lo, hi)).2) := by
  induction k generalizing lo hi with
  | zero => exact ⟨hl, hh⟩
  | succ k ih =>
    simp only [Bisect.run]
    split_ifs with h
    · exact ih _ _ (Or.inr h) hh
    · exact ih _ _ hl (Or.inr (not_lt.mp h))

/-- **conditional accuracy**: if `f` is monotone and `L`-Lipschitz on the initial bracket, the midpoint
`y` of the final bracket satisfies `|f y − q| ≤ L·(hi−lo)/2^k + max 0 (max (f lo − q) (q − f hi))`;
the last term (how far `q` lies outside `[f lo, f hi]`, i.e. the tail mass the bracket cuts off) vanishes
when `f lo ≤ q ≤ f hi`. -/
theorem run_accuracy (f : α → α) (L q : α) (k : Nat) (lo hi : α) (hlh : lo ≤ hi)
    (hmono : ∀ x y, lo ≤ x → x ≤ y → y ≤ hi → f x ≤ f y)
    (hlip : ∀ x y, lo ≤ x → x ≤ y → y ≤ hi → f y - f x ≤ L * (y - x)) :
    let br := Bisect.run f (fun lo hi => (lo + hi) / 2) q k (lo, hi)
    |f ((br.1 + br.2) / 2) - q| ≤ L * ((hi - lo) / 2 ^ k) + max 0 (max (f lo - q) (q - f hi)) := by
  intro br
  have hin := Bisect.run_inside f (fun lo hi => (lo + hi) / 2) midOK_half q k lo hi hlh
  have hw := run_width f q k lo hi
  have hinv := run_invariant f q k lo hi lo hi (Or.inl rfl) (Or.inl rfl)
  obtain ⟨h1, h2, h3⟩ := hin
  obtain ⟨m1, m2⟩ := midOK_half br.1 br.2 h2
  change br.1 ≤ (br.1 + br.2) / 2 at m1
  change (br.1 + br.2) / 2 ≤ br.2 at m2
  have hy1 : f br.1 ≤ f ((br.1 + br.2) / 2) := hmono _ _ h1 m1 (m2.trans h3)
  have hy2 : f ((br.1 + br.2) / 2) ≤ f br.2 := hmono _ _ (h1.trans m1) m2 h3
  have hl := hlip br.1 br.2 h1 h2 h3
  change br.2 - br.1 = (hi - lo) / 2 ^ k at hw
  rw [hw] at hl
  have hE0 : (0:α) ≤ max 0 (max (f lo - q) (q - f hi)) := le_max_left _ _
  have hE1 : f lo - q ≤ max 0 (max (f lo - q) (q - f hi)) := (le_max_left _ _).trans (le_max_right _ _)
  have hE2 : q - f hi ≤ max 0 (max (f lo - q) (q - f hi)) := (le_max_right _ _).trans (le_max_right _ _)
  rw [abs_le]
  constructor
  · -- q − f y ≤ … : use the upper end
    rcases hinv.2 with e | e
    · change br.2 = hi at e
      rw [e] at hy2 hl; linarith
    · change q ≤ f br.2 at e
      linarith
  · rcases hinv.1 with e | e
    · change br.1 = lo at e
      rw [e] at hy1 hl; linarith
    · change f br.1 < q at e
      linarith

end field
end Opda.Noisy
