import OpdaModel.NoisyFloat
import OpdaProofs.NoisyLogic
import OpdaProofs.NoisyReal
import OpdaProofs.NoisySmooth
import Mathlib.Probability.Distributions.Gaussian.Real
import Mathlib.Analysis.SpecialFunctions.Gaussian.GaussianIntegral
import Mathlib.Analysis.SpecialFunctions.Gamma.BohrMollerup
import Mathlib.MeasureTheory.Integral.Gamma
import Mathlib.Analysis.Real.Pi.Bounds
import Mathlib.Tactic

/-!
C06-T5 (noiseless regime, `c = 1`): when `0 < o < 1e-6 (b−a)` the code ignores the noise and returns the
noise-free law `F_Z`, which for `c = 1` is `√((y−a)/(b−a))` (convex) resp. `1 − √((b−y)/(b−a))` (concave) on the
support: not Lipschitz, but Hölder-½ with constant `1/√(b−a)`.  The true law is the mixture
`y ↦ ∫ F_Z(y − e) dN(0, o²)(e)`, so the two differ by at most `E√|E| / √(b−a)` with
`E√|E| = (2o²)^{1/4} Γ(3/4)/√π = 0.82218… · √o`; `Γ(3/4) ≤ 1.2345` follows from the log-convexity of `Γ` at the
midpoint `19/4` of `9/2` and `5`, whence `≤ 0.83 · √(o/(b−a))` — the constant in the property.
-/
namespace Opda.Noisy
open MeasureTheory ProbabilityTheory Real Set Filter Topology
open scoped NNReal ENNReal

/-! ### Hölder-½ -/

/-- `√` is Hölder-½ with constant `1` -/
theorem abs_sqrt_sub_sqrt_le (u v : ℝ) (hu : 0 ≤ u) (hv : 0 ≤ v) : |√u - √v| ≤ √|u - v| := by
  have key : ∀ s t : ℝ, 0 ≤ s → s ≤ t → √t - √s ≤ √(t - s) := by
    intro s t hs hst
    have h1 : √t ≤ √s + √(t - s) := by
      apply Real.sqrt_le_iff.mpr
      refine ⟨by positivity, ?_⟩
      have a1 := Real.sq_sqrt hs
      have a2 := Real.sq_sqrt (sub_nonneg.mpr hst)
      nlinarith [mul_nonneg (Real.sqrt_nonneg s) (Real.sqrt_nonneg (t - s))]
    linarith
  rcases le_total v u with h | h
  · rw [abs_of_nonneg (sub_nonneg.mpr (Real.sqrt_le_sqrt h)), abs_of_nonneg (sub_nonneg.mpr h)]
    exact key v u hv h
  · rw [abs_sub_comm, abs_of_nonneg (sub_nonneg.mpr (Real.sqrt_le_sqrt h)), abs_sub_comm,
      abs_of_nonneg (sub_nonneg.mpr h)]
    exact key u v hu h

/-! ### numerics: `Γ(3/4)` -/

/-- `Γ(19/4) = (15/4)(11/4)(7/4)(3/4) Γ(3/4)` -/
theorem Gamma_nineteen_quarters : Real.Gamma (19 / 4) = 3465 / 256 * Real.Gamma (3 / 4) := by
  have e1 : Real.Gamma (3 / 4 + 1) = 3 / 4 * Real.Gamma (3 / 4) := Real.Gamma_add_one (by norm_num)
  have e2 : Real.Gamma (7 / 4 + 1) = 7 / 4 * Real.Gamma (7 / 4) := Real.Gamma_add_one (by norm_num)
  have e3 : Real.Gamma (11 / 4 + 1) = 11 / 4 * Real.Gamma (11 / 4) := Real.Gamma_add_one (by norm_num)
  have e4 : Real.Gamma (15 / 4 + 1) = 15 / 4 * Real.Gamma (15 / 4) := Real.Gamma_add_one (by norm_num)
  rw [show (19 / 4 : ℝ) = 15 / 4 + 1 by norm_num, e4, show (15 / 4 : ℝ) = 11 / 4 + 1 by norm_num, e3,
    show (11 / 4 : ℝ) = 7 / 4 + 1 by norm_num, e2, show (7 / 4 : ℝ) = 3 / 4 + 1 by norm_num, e1]
  ring

/-- `Γ(9/2) = (7/2)(5/2)(3/2)(1/2) √π` -/
theorem Gamma_nine_halves : Real.Gamma (9 / 2) = 105 / 16 * √π := by
  have e1 : Real.Gamma (1 / 2 + 1) = 1 / 2 * Real.Gamma (1 / 2) := Real.Gamma_add_one (by norm_num)
  have e2 : Real.Gamma (3 / 2 + 1) = 3 / 2 * Real.Gamma (3 / 2) := Real.Gamma_add_one (by norm_num)
  have e3 : Real.Gamma (5 / 2 + 1) = 5 / 2 * Real.Gamma (5 / 2) := Real.Gamma_add_one (by norm_num)
  have e4 : Real.Gamma (7 / 2 + 1) = 7 / 2 * Real.Gamma (7 / 2) := Real.Gamma_add_one (by norm_num)
  rw [show (9 / 2 : ℝ) = 7 / 2 + 1 by norm_num, e4, show (7 / 2 : ℝ) = 5 / 2 + 1 by norm_num, e3,
    show (5 / 2 : ℝ) = 3 / 2 + 1 by norm_num, e2, show (3 / 2 : ℝ) = 1 / 2 + 1 by norm_num, e1,
    Real.Gamma_one_half_eq]
  ring

theorem Gamma_five : Real.Gamma 5 = 24 := by
  have h := Real.Gamma_nat_eq_factorial 4
  have e : ((4 : ℕ) : ℝ) + 1 = 5 := by norm_num
  rw [e] at h
  rw [h]
  norm_num [Nat.factorial]

/-- log-convexity of `Γ` at the midpoint `19/4` of `9/2` and `5`, fourth power:
`Γ(3/4)⁴ ≤ (256/3465)⁴ · (24 · 105/16)² · π` (so `Γ(3/4) ≤ 1.2345`; the true value is `1.22541…`) -/
theorem Gamma_three_quarters_pow_four_le :
    Real.Gamma (3 / 4) ^ 4 ≤ (256 / 3465) ^ 4 * (24 * (105 / 16)) ^ 2 * π := by
  have h := Real.Gamma_mul_add_mul_le_rpow_Gamma_mul_rpow_Gamma (s := 9 / 2) (t := 5) (a := 1 / 2) (b := 1 / 2)
    (by norm_num) (by norm_num) (by norm_num) (by norm_num) (by norm_num)
  rw [show (1 / 2 : ℝ) * (9 / 2) + 1 / 2 * 5 = 19 / 4 by norm_num, Gamma_nineteen_quarters, Gamma_nine_halves,
    Gamma_five, ← Real.sqrt_eq_rpow, ← Real.sqrt_eq_rpow] at h
  have hG : 0 < Real.Gamma (3 / 4) := Real.Gamma_pos_of_pos (by norm_num)
  have hpi : 0 < π := Real.pi_pos
  have hsp : 0 ≤ √π := Real.sqrt_nonneg _
  -- square twice
  have h2 : (3465 / 256 * Real.Gamma (3 / 4)) ^ 2 ≤ 105 / 16 * √π * 24 := by
    have h0 : 0 ≤ 3465 / 256 * Real.Gamma (3 / 4) := by positivity
    have := pow_le_pow_left₀ h0 h 2
    have e : (√(105 / 16 * √π) * √24) ^ 2 = 105 / 16 * √π * 24 := by
      rw [mul_pow, Real.sq_sqrt (by positivity), Real.sq_sqrt (by norm_num)]
    rwa [e] at this
  have h4 : ((3465 / 256 * Real.Gamma (3 / 4)) ^ 2) ^ 2 ≤ (105 / 16 * √π * 24) ^ 2 :=
    pow_le_pow_left₀ (by positivity) h2 2
  have hs : (105 / 16 * √π * 24) ^ 2 = (24 * (105 / 16)) ^ 2 * π := by
    rw [show (105 / 16 * √π * 24) ^ 2 = (24 * (105 / 16)) ^ 2 * (√π) ^ 2 by ring, Real.sq_sqrt hpi.le]
  rw [hs] at h4
  have : Real.Gamma (3 / 4) ^ 4 = (256 / 3465) ^ 4 * ((3465 / 256 * Real.Gamma (3 / 4)) ^ 2) ^ 2 := by
    field_simp
  rw [this, mul_assoc]
  exact mul_le_mul_of_nonneg_left h4 (by positivity)

/-- `K⁴ = 2 Γ(3/4)⁴ / π² ≤ 0.83⁴` -/
theorem two_mul_Gamma_pow_four_le : 2 * Real.Gamma (3 / 4) ^ 4 ≤ 0.83 ^ 4 * π ^ 2 := by
  have h := Gamma_three_quarters_pow_four_le
  have hpi := Real.pi_gt_d2
  have hpi0 : 0 < π := Real.pi_pos
  nlinarith [h, hpi, hpi0]

/-! ### smoothing a function with a modulus of continuity -/

/-- smoothing a function with modulus of continuity `ω` by a probability measure moves it by at most `E ω(|noise|)` -/
theorem smoothing_modulus (ν : Measure ℝ) [IsProbabilityMeasure ν] (G : ℝ → ℝ) (ω : ℝ → ℝ)
    (hG : ∀ x y, |G x - G y| ≤ ω |x - y|) (hGc : Continuous G)
    (hint : Integrable (fun e : ℝ => ω |e|) ν) (y : ℝ) :
    |G y - ∫ e, G (y - e) ∂ν| ≤ ∫ e, ω |e| ∂ν := by
  have hb : ∀ e, |G y - G (y - e)| ≤ ω |e| := by
    intro e
    have := hG y (y - e)
    simpa using this
  have hGi : Integrable (fun e => G (y - e)) ν := by
    refine Integrable.mono' ((integrable_const |G y|).add hint) ?_ ?_
    · exact (hGc.comp (continuous_const.sub continuous_id)).aestronglyMeasurable
    · refine ae_of_all _ (fun e => ?_)
      have h1 := hb e
      have h2 : |G (y - e)| ≤ |G y| + |G y - G (y - e)| := by
        have := abs_sub_abs_le_abs_sub (G (y - e)) (G y)
        rw [abs_sub_comm (G (y - e)) (G y)] at this
        linarith
      simp only [Real.norm_eq_abs, Pi.add_apply]
      linarith
  have hdiff : G y - ∫ e, G (y - e) ∂ν = ∫ e, (G y - G (y - e)) ∂ν := by
    rw [integral_sub (integrable_const _) hGi]; simp
  rw [hdiff]
  refine (abs_integral_le_integral_abs).trans ?_
  apply integral_mono
  · exact ((integrable_const _).sub hGi).abs
  · exact hint
  · exact hb

/-- a function with a `√`-modulus is continuous -/
theorem continuous_of_sqrt_modulus (G : ℝ → ℝ) (C : ℝ) (hG : ∀ x y, |G x - G y| ≤ √(|x - y| / C)) :
    Continuous G := by
  rw [continuous_iff_continuousAt]
  intro y
  unfold ContinuousAt
  rw [tendsto_iff_dist_tendsto_zero]
  refine squeeze_zero (g := fun x => √(|x - y| / C)) (fun x => dist_nonneg) (fun x => ?_) ?_
  · rw [Real.dist_eq]; exact hG x y
  · have hc : Continuous (fun x : ℝ => √(|x - y| / C)) := by fun_prop
    have := hc.tendsto y
    simpa using this

/-! ### the absolute moment of order ½ of a centred normal -/

/-- `E √|E| = (2v)^{1/4} Γ(3/4) / √π` for `E ~ N(0, v)` -/
theorem integral_sqrt_abs_gaussianReal (v : ℝ≥0) (hv : v ≠ 0) :
    ∫ e, √|e| ∂(gaussianReal 0 v) = (2 * (v:ℝ)) ^ (1 / 4 : ℝ) * Real.Gamma (3 / 4) / √π := by
  have hv' : (0:ℝ) < v := by exact_mod_cast pos_iff_ne_zero.mpr hv
  have hw : (0:ℝ) < 2 * (v:ℝ) := by positivity
  have hb : (0:ℝ) < (2 * (v:ℝ))⁻¹ := by positivity
  have hpi : (0:ℝ) < π := Real.pi_pos
  rw [integral_gaussianReal_eq_integral_smul hv]
  have e1 : ∀ x : ℝ, gaussianPDFReal 0 v x • √|x|
      = (√(2 * π * v))⁻¹ * ((fun t : ℝ => t ^ (1 / 2 : ℝ) * Real.exp (-(2 * (v:ℝ))⁻¹ * t ^ (2:ℝ))) |x|) := by
    intro x
    simp only [gaussianPDFReal, smul_eq_mul, sub_zero]
    rw [Real.rpow_two, sq_abs, Real.sqrt_eq_rpow |x|]
    have : -x ^ 2 / (2 * (v:ℝ)) = -(2 * (v:ℝ))⁻¹ * x ^ 2 := by field_simp
    rw [this]; ring
  simp only [e1]
  rw [integral_const_mul,
    integral_comp_abs (f := fun t : ℝ => t ^ (1 / 2 : ℝ) * Real.exp (-(2 * (v:ℝ))⁻¹ * t ^ (2:ℝ))),
    integral_rpow_mul_exp_neg_mul_rpow (by norm_num) (by norm_num) hb]
  rw [show (-(1 / 2 + 1) / 2 : ℝ) = -(3 / 4) by norm_num, show ((1 / 2 + 1) / 2 : ℝ) = 3 / 4 by norm_num,
    Real.rpow_neg hb.le, Real.inv_rpow hw.le, inv_inv,
    show (3 / 4 : ℝ) = 1 / 4 + 1 / 2 by norm_num, Real.rpow_add hw, ← Real.sqrt_eq_rpow,
    show 2 * π * (v:ℝ) = π * (2 * v) by ring, Real.sqrt_mul hpi.le]
  have h1 : 0 < √π := Real.sqrt_pos.mpr hpi
  have h2 : 0 < √(2 * (v:ℝ)) := Real.sqrt_pos.mpr hw
  field_simp

theorem integrable_sqrt_abs_gaussianReal (v : ℝ≥0) : Integrable (fun e : ℝ => √|e|) (gaussianReal 0 v) := by
  have h1 : Integrable (fun e : ℝ => |e|) (gaussianReal 0 v) :=
    ((memLp_id_gaussianReal (μ := 0) (v := v) 1).integrable (le_refl _)).abs
  refine Integrable.mono' ((integrable_const (1:ℝ)).add h1) ?_ ?_
  · exact (Real.continuous_sqrt.comp continuous_abs).aestronglyMeasurable
  · refine ae_of_all _ (fun e => ?_)
    simp only [Real.norm_eq_abs, Pi.add_apply, abs_of_nonneg (Real.sqrt_nonneg _)]
    apply Real.sqrt_le_iff.mpr
    refine ⟨by positivity, ?_⟩
    nlinarith [abs_nonneg e]

/-- `E √|E| ≤ 0.83 √o` for `E ~ N(0, o²)` (the exact constant is `2^{1/4} Γ(3/4)/√π = 0.82218…`) -/
theorem integral_sqrt_abs_gaussianReal_le (o : ℝ) (ho : 0 < o) :
    ∫ e, √|e| ∂(gaussianReal 0 ⟨o ^ 2, sq_nonneg _⟩) ≤ 0.83 * √o := by
  set v : ℝ≥0 := ⟨o ^ 2, sq_nonneg _⟩ with hvdef
  have hvo : ((v : ℝ≥0) : ℝ) = o ^ 2 := rfl
  have hv : v ≠ 0 := by
    intro h0
    have : (v : ℝ) = 0 := by rw [h0]; rfl
    rw [hvo] at this
    exact (pow_pos ho 2).ne' this
  rw [integral_sqrt_abs_gaussianReal v hv, hvo]
  have hpi : (0:ℝ) < π := Real.pi_pos
  have hsp : 0 < √π := Real.sqrt_pos.mpr hpi
  have hG : 0 < Real.Gamma (3 / 4) := Real.Gamma_pos_of_pos (by norm_num)
  have hw : (0:ℝ) ≤ 2 * o ^ 2 := by positivity
  have hso : 0 ≤ √o := Real.sqrt_nonneg _
  apply le_of_pow_le_pow_left₀ (n := 4) (by norm_num) (by positivity)
  have p1 : ((2 * o ^ 2) ^ (1 / 4 : ℝ)) ^ 4 = 2 * o ^ 2 := by
    rw [← Real.rpow_natCast, ← Real.rpow_mul hw]; norm_num
  have p2 : (√π) ^ 4 = π ^ 2 := by
    rw [show (√π) ^ 4 = ((√π) ^ 2) ^ 2 by ring, Real.sq_sqrt hpi.le]
  have p3 : (√o) ^ 4 = o ^ 2 := by
    rw [show (√o) ^ 4 = ((√o) ^ 2) ^ 2 by ring, Real.sq_sqrt ho.le]
  rw [div_pow, mul_pow, p1, p2, mul_pow, p3, div_le_iff₀ (by positivity)]
  have := two_mul_Gamma_pow_four_le
  nlinarith [this, sq_nonneg o]

/-! ### the noise-free law for `c = 1` -/

variable (T : List (ℕ × List (Entry ℝ))) (ninf pinf : ℝ)

/-- in the noiseless regime with `c = 1` the model's cdf over `ℝ` (the noise-free law) is Hölder-½ with
constant `1/√(b − a)`, on the whole line (both shapes) -/
theorem cdf_noiseless_holder (d : Params ℝ) (hab : d.a < d.b) (hc : d.c = 1)
    (hp : pointMass (realFns T ninf pinf) d = false) (h : regime (realFns T ninf pinf) d = .noiseless) (x y : ℝ) :
    |cdf (realFns T ninf pinf) d x - cdf (realFns T ninf pinf) d y| ≤ √(|x - y| / (d.b - d.a)) := by
  have hw : 0 < d.b - d.a := sub_pos.mpr hab
  obtain ⟨cx1, cx2⟩ := clip_mem x d.a d.b hab.le
  obtain ⟨cy1, cy2⟩ := clip_mem y d.a d.b hab.le
  have hcl := clip_lipschitz x y d.a d.b hab.le
  rw [cdf_noiseless d x hp h, cdf_noiseless d y hp h]
  have hk : (realFns T ninf pinf).n d.c / (realFns T ninf pinf).n 2 = (1 : ℝ) / 2 := by
    rw [hc]; show ((1 : ℕ) : ℝ) / ((2:ℕ):ℝ) = _; norm_num
  have h1 : (realFns T ninf pinf).n 1 = (1:ℝ) := by show ((1:ℕ):ℝ) = 1; norm_num
  rw [hk, h1]
  have hpow : ∀ u : ℝ, (realFns T ninf pinf).pow u (1 / 2) = √u := fun u => (Real.sqrt_eq_rpow u).symm
  simp only [hpow]
  have key : ∀ s t : ℝ, 0 ≤ s → 0 ≤ t → |t - s| ≤ |x - y| / (d.b - d.a) →
      |√t - √s| ≤ √(|x - y| / (d.b - d.a)) :=
    fun s t hs ht hst => (abs_sqrt_sub_sqrt_le t s ht hs).trans (Real.sqrt_le_sqrt hst)
  split_ifs
  · refine key _ _ (div_nonneg (by linarith) hw.le) (div_nonneg (by linarith) hw.le) ?_
    rw [← sub_div, abs_div, abs_of_pos hw]
    have : clip x d.a d.b - d.a - (clip y d.a d.b - d.a) = clip x d.a d.b - clip y d.a d.b := by ring
    rw [this]
    exact div_le_div_of_nonneg_right hcl hw.le
  · have e : (1:ℝ) - √((d.b - clip x d.a d.b) / (d.b - d.a)) - (1 - √((d.b - clip y d.a d.b) / (d.b - d.a)))
        = √((d.b - clip y d.a d.b) / (d.b - d.a)) - √((d.b - clip x d.a d.b) / (d.b - d.a)) := by ring
    rw [e]
    refine key _ _ (div_nonneg (by linarith) hw.le) (div_nonneg (by linarith) hw.le) ?_
    rw [← sub_div, abs_div, abs_of_pos hw]
    have : d.b - clip y d.a d.b - (d.b - clip x d.a d.b) = clip x d.a d.b - clip y d.a d.b := by ring
    rw [this]
    exact div_le_div_of_nonneg_right hcl hw.le

/-- in the noiseless regime with `c = 1` the value the model returns (the noise-free law) differs from its convolution
with `N(0, o²)` — the law of `Z + E` — by at most `E√|E| / √(b − a)` -/
theorem noiseless_bound_c1_moment (d : Params ℝ) (hab : d.a < d.b) (hc : d.c = 1)
    (hp : pointMass (realFns T ninf pinf) d = false) (h : regime (realFns T ninf pinf) d = .noiseless) (y : ℝ) :
    |cdf (realFns T ninf pinf) d y
        - ∫ e, cdf (realFns T ninf pinf) d (y - e) ∂(gaussianReal 0 ⟨d.o ^ 2, sq_nonneg _⟩)|
      ≤ (∫ e, √|e| ∂(gaussianReal 0 ⟨d.o ^ 2, sq_nonneg _⟩)) / √(d.b - d.a) := by
  have hw : 0 < d.b - d.a := sub_pos.mpr hab
  set v : ℝ≥0 := ⟨d.o ^ 2, sq_nonneg _⟩ with hvdef
  have hhol := cdf_noiseless_holder T ninf pinf d hab hc hp h
  have hcont := continuous_of_sqrt_modulus _ _ hhol
  have heq : ∀ e : ℝ, √(|e| / (d.b - d.a)) = √|e| / √(d.b - d.a) := fun e => Real.sqrt_div (abs_nonneg e) _
  have hint : Integrable (fun e : ℝ => (fun t : ℝ => √(t / (d.b - d.a))) |e|) (gaussianReal 0 v) := by
    simp only [heq]
    exact (integrable_sqrt_abs_gaussianReal v).div_const _
  have hs := smoothing_modulus (gaussianReal 0 v) _ (fun t : ℝ => √(t / (d.b - d.a))) hhol hcont hint y
  simp only [heq] at hs
  rwa [integral_div] at hs

/-- **C06-T5 (`c = 1`), exact constant**: the bound with `E√|E| = (2o²)^{1/4} Γ(3/4)/√π` written out
(`= 0.82218… · √o`). -/
theorem noiseless_bound_c1_exactK (d : Params ℝ) (hab : d.a < d.b) (hc : d.c = 1) (ho : 0 < d.o)
    (hp : pointMass (realFns T ninf pinf) d = false) (h : regime (realFns T ninf pinf) d = .noiseless) (y : ℝ) :
    |cdf (realFns T ninf pinf) d y
        - ∫ e, cdf (realFns T ninf pinf) d (y - e) ∂(gaussianReal 0 ⟨d.o ^ 2, sq_nonneg _⟩)|
      ≤ (2 * d.o ^ 2) ^ (1 / 4 : ℝ) * Real.Gamma (3 / 4) / √π / √(d.b - d.a) := by
  have hv : (⟨d.o ^ 2, sq_nonneg _⟩ : ℝ≥0) ≠ 0 := by
    intro h0
    have : d.o ^ 2 = 0 := congrArg NNReal.toReal h0
    exact (pow_pos ho 2).ne' this
  have := noiseless_bound_c1_moment T ninf pinf d hab hc hp h y
  rwa [integral_sqrt_abs_gaussianReal _ hv] at this

/-- **C06-T5 (`c = 1`)**: in the noiseless regime the value the model returns (the noise-free law) differs from its
convolution with `N(0, o²)` by at most `0.83 · √(o / (b − a))`. -/
theorem noiseless_bound_c1 (d : Params ℝ) (hab : d.a < d.b) (hc : d.c = 1) (ho : 0 < d.o)
    (hp : pointMass (realFns T ninf pinf) d = false) (h : regime (realFns T ninf pinf) d = .noiseless) (y : ℝ) :
    |cdf (realFns T ninf pinf) d y
        - ∫ e, cdf (realFns T ninf pinf) d (y - e) ∂(gaussianReal 0 ⟨d.o ^ 2, sq_nonneg _⟩)|
      ≤ 0.83 * √(d.o / (d.b - d.a)) := by
  have hw : 0 < d.b - d.a := sub_pos.mpr hab
  refine (noiseless_bound_c1_moment T ninf pinf d hab hc hp h y).trans ?_
  rw [Real.sqrt_div ho.le, ← mul_div_assoc]
  exact div_le_div_of_nonneg_right (integral_sqrt_abs_gaussianReal_le d.o ho) (Real.sqrt_nonneg _)

end Opda.Noisy
