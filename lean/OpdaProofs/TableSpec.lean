import OpdaProofs.TableCert
/-!
Structure and selection theorems about the translated table, and the membership form of the accuracy statement.
-/

/-! ## from the index-based certificates to the membership-based statement of the property -/
namespace Opda.Table
open Opda.Gen Opda.PolyCheck

theorem mem_allPieces (T : List (Nat × List EntryQ)) (ri ei pi : Nat) (row : Nat × List EntryQ) (e : EntryQ)
    (hr : T[ri]? = some row) (he : row.2[ei]? = some e) (hp : pi < e.coeffs.length) :
    (ri, ei, pi) ∈ allPieces T := by
  unfold allPieces
  rw [List.mem_flatMap]
  have hri : ri < T.length := by
    rcases List.getElem?_eq_some_iff.mp hr with ⟨h, _⟩; exact h
  refine ⟨ri, List.mem_range.mpr hri, ?_⟩
  simp only [hr]
  rw [List.mem_flatMap]
  have hei : ei < row.2.length := by
    rcases List.getElem?_eq_some_iff.mp he with ⟨h, _⟩; exact h
  refine ⟨ei, List.mem_range.mpr hei, ?_⟩
  simp only [he]
  rw [List.mem_map]
  exact ⟨pi, List.mem_range.mpr hp, rfl⟩

/-- a strictly increasing list brackets every point between its first and last element -/
theorem bracket_of_increasing : ∀ (l : List ℚ) (a b : ℚ), l.head? = some a → l.getLast? = some b → 2 ≤ l.length →
    ∀ x : ℝ, (a : ℝ) ≤ x → x ≤ (b : ℝ) →
      ∃ (i : ℕ) (lo hi : ℚ), l[i]? = some lo ∧ l[i + 1]? = some hi ∧ (lo : ℝ) ≤ x ∧ x ≤ (hi : ℝ)
  | [], _, _, _, _, h2, _, _, _ => by simp at h2
  | [_], _, _, _, _, h2, _, _, _ => by simp at h2
  | [u, v], a, b, ha, hb, _, x, hx1, hx2 => by
    simp only [List.head?_cons, Option.some.injEq] at ha
    simp only [List.getLast?_cons_cons, List.getLast?_singleton, Option.some.injEq] at hb
    subst ha; subst hb
    exact ⟨0, u, v, by simp, by simp, hx1, hx2⟩
  | u :: v :: w :: rest, a, b, ha, hb, _, x, hx1, hx2 => by
    simp only [List.head?_cons, Option.some.injEq] at ha
    subst ha
    by_cases hxv : x ≤ (v : ℝ)
    · exact ⟨0, u, v, by simp, by simp, hx1, hxv⟩
    · have hb' : (v :: w :: rest).getLast? = some b := by
        rw [List.getLast?_cons_cons] at hb; exact hb
      obtain ⟨i, lo, hi, h1, h2, h3, h4⟩ :=
        bracket_of_increasing (v :: w :: rest) v b rfl hb' (by simp) x (le_of_lt (not_le.mp hxv)) hx2
      exact ⟨i + 1, lo, hi, by simpa using h1, by simpa using h2, h3, h4⟩

/-- **C19, uniform accuracy, membership form.**  If the table is structurally well formed and every index triple
carries a piece bound, then for every row (exponent `m2/2`), every entry of it and **every real `x ∈ [0,1]`** there
is a piece whose knots bracket `x` and whose polynomial is within `1.02 · max_error` of `x ^ (m2/2)` at `x`. -/
theorem accuracy_of_certs (T : List (Nat × List EntryQ)) (hs : structOK T = true)
    (hb : ∀ t ∈ allPieces T, PieceBound T t.1 t.2.1 t.2.2)
    (row : Nat × List EntryQ) (hrow : row ∈ T) (e : EntryQ) (he : e ∈ row.2)
    (x : ℝ) (hx0 : 0 ≤ x) (hx1 : x ≤ 1) :
    ∃ (pi : ℕ) (cs : List ℚ) (lo hi : ℚ), e.coeffs[pi]? = some cs ∧ e.knots[pi]? = some lo ∧ e.knots[pi + 1]? = some hi ∧
      (lo : ℝ) ≤ x ∧ x ≤ (hi : ℝ) ∧
      |evalQ cs x - x ^ ((row.1 : ℝ) / 2)| ≤ ((slack * e.maxError : ℚ) : ℝ) := by
  obtain ⟨ri, hri⟩ := List.getElem?_of_mem hrow
  obtain ⟨ei, hei⟩ := List.getElem?_of_mem he
  have hrowOK : rowOK row = true := by
    unfold structOK at hs; exact List.all_eq_true.mp hs row hrow
  have heOK : entryOK e = true := by
    unfold rowOK at hrowOK
    simp only [Bool.and_eq_true] at hrowOK
    exact List.all_eq_true.mp hrowOK.1.1 e he
  unfold entryOK at heOK
  simp only [Bool.and_eq_true, decide_eq_true_eq] at heOK
  obtain ⟨⟨⟨⟨_, hhead⟩, hlast⟩, hlen⟩, _⟩ := heOK
  have hlen2 : 2 ≤ e.knots.length := by
    rcases hk : e.knots with _ | ⟨u, _ | ⟨v, rest⟩⟩
    · rw [hk] at hhead; simp at hhead
    · rw [hk] at hhead hlast
      simp only [List.head?_cons, Option.some.injEq] at hhead
      simp only [List.getLast?_singleton, Option.some.injEq] at hlast
      rw [hhead] at hlast; norm_num at hlast
    · simp
  obtain ⟨pi, lo, hi, hlo, hhi, hx_lo, hx_hi⟩ :=
    bracket_of_increasing e.knots 0 1 hhead hlast hlen2 x (by simpa using hx0) (by simpa using hx1)
  have hpi : pi < e.coeffs.length := by
    rcases List.getElem?_eq_some_iff.mp hhi with ⟨h, _⟩
    omega
  obtain ⟨cs, hcs⟩ : ∃ cs, e.coeffs[pi]? = some cs := ⟨e.coeffs[pi], List.getElem?_eq_getElem hpi⟩
  have hmem := mem_allPieces T ri ei pi row e hri hei hpi
  obtain ⟨m2, cs', klo, khi, me, hpiece, hbound⟩ := hb (ri, ei, pi) hmem
  unfold piece? at hpiece
  rw [hri] at hpiece; simp only [] at hpiece
  rw [hei] at hpiece; simp only [] at hpiece
  rw [hcs, hlo, hhi] at hpiece
  simp only [Option.some.injEq, Prod.mk.injEq] at hpiece
  obtain ⟨rfl, rfl, rfl, rfl, rfl⟩ := hpiece
  exact ⟨pi, cs, lo, hi, hcs, hlo, hhi, hx_lo, hx_hi, hbound x hx_lo hx_hi⟩

/-! ## selection of an entry by scale -/

theorem getLast?_mem {β : Type} : ∀ (l : List β) (b : β), l.getLast? = some b → b ∈ l
  | [], _, h => by simp at h
  | [u], b, h => by simp only [List.getLast?_singleton, Option.some.injEq] at h; simp [h]
  | u :: v :: rest, b, h => by
    rw [List.getLast?_cons_cons] at h
    exact List.mem_cons_of_mem _ (getLast?_mem (v :: rest) b h)

/-- **every scale selects an entry**: for a well-formed row and every `scale ≥ 0` the code's rule
"first entry with `scale ≥ min_scale`" finds an entry, its `min_scale` is at most `scale`, and every entry
before it has `min_scale > scale` (so, `min_scale` being strictly decreasing, it is the unique entry whose
half-open scale range contains `scale`). -/
theorem select_total_unique (row : Nat × List EntryQ) (h : rowOK row = true) (scale : ℚ) (hs : 0 ≤ scale) :
    ∃ e, select row.2 scale = some e ∧ e ∈ row.2 ∧ e.minScale ≤ scale ∧
      ∃ i : ℕ, row.2[i]? = some e ∧ ∀ j, j < i → ∀ e' : EntryQ, row.2[j]? = some e' → scale < e'.minScale := by
  unfold rowOK at h
  simp only [Bool.and_eq_true, decide_eq_true_eq] at h
  obtain ⟨⟨_, _⟩, hlast⟩ := h
  have hmem0 : (0 : ℚ) ∈ row.2.map (·.minScale) := getLast?_mem _ _ hlast
  obtain ⟨e0, he0, hz⟩ := List.mem_map.mp hmem0
  have hsome : (select row.2 scale).isSome = true := by
    unfold select
    rw [List.find?_isSome]
    exact ⟨e0, he0, by simpa [hz] using hs⟩
  obtain ⟨e, he⟩ := Option.isSome_iff_exists.mp hsome
  refine ⟨e, he, ?_, ?_, ?_⟩
  · unfold select at he; exact List.mem_of_find?_eq_some he
  · unfold select at he
    have := List.find?_some he
    simpa using this
  · unfold select at he
    obtain ⟨hp, i, hi, hget, hbefore⟩ := List.find?_eq_some_iff_getElem.mp he
    refine ⟨i, by rw [List.getElem?_eq_getElem hi]; exact congrArg some hget, ?_⟩
    intro j hj e' he'
    have hjlt : j < row.2.length := lt_trans hj hi
    have := hbefore j hj
    rw [List.getElem?_eq_getElem hjlt, Option.some.injEq] at he'
    rw [he'] at this
    simpa using this

end Opda.Table
