import Mathlib.Order.Basic
import Mathlib.Tactic

namespace Bisect
variable {α : Type} [LinearOrder α]

def run (F : α → α) (mid : α → α → α) (q : α) : Nat → α × α → α × α
  | 0, br => br
  | k+1, (lo, hi) =>
    let m := mid lo hi
    if F m < q then run F mid q k (m, hi) else run F mid q k (lo, m)

/-- midpoint operator stays inside the bracket -/
def MidOK (mid : α → α → α) : Prop := ∀ lo hi, lo ≤ hi → lo ≤ mid lo hi ∧ mid lo hi ≤ hi

theorem run_inside (F : α → α) (mid : α → α → α) (hm : MidOK mid) (q : α) (k : Nat) (lo hi : α) (h : lo ≤ hi) :
    lo ≤ (run F mid q k (lo, hi)).1 ∧ (run F mid q k (lo, hi)).1 ≤ (run F mid q k (lo, hi)).2
      ∧ (run F mid q k (lo, hi)).2 ≤ hi := by
  induction k generalizing lo hi with
  | zero => exact ⟨le_refl _, h, le_refl _⟩
  | succ k ih =>
    obtain ⟨h1, h2⟩ := hm lo hi h
    simp only [run]
    split_ifs
    · obtain ⟨a, b, c⟩ := ih (mid lo hi) hi h2
      exact ⟨h1.trans a, b, c⟩
    · obtain ⟨a, b, c⟩ := ih lo (mid lo hi) h1
      exact ⟨a, b, c.trans h2⟩

/-- key invariant: for q ≤ q', brackets are equal or ordered -/
theorem run_ordered (F : α → α) (mid : α → α → α) (hm : MidOK mid) (q q' : α) (hq : q ≤ q') (k : Nat)
    (lo hi lo' hi' : α) (h : lo ≤ hi) (h' : lo' ≤ hi')
    (hrel : (lo, hi) = (lo', hi') ∨ hi ≤ lo') :
    run F mid q k (lo, hi) = run F mid q' k (lo', hi')
      ∨ (run F mid q k (lo, hi)).2 ≤ (run F mid q' k (lo', hi')).1 := by
  induction k generalizing lo hi lo' hi' with
  | zero => simpa [run] using hrel
  | succ k ih =>
    obtain ⟨m1, m2⟩ := hm lo hi h
    obtain ⟨m1', m2'⟩ := hm lo' hi' h'
    rcases hrel with heq | hlt
    · obtain ⟨rfl, rfl⟩ := Prod.mk.inj heq
      simp only [run]
      by_cases d : F (mid lo hi) < q
      · have d' : F (mid lo hi) < q' := lt_of_lt_of_le d hq
        simp only [d, d', if_true]
        exact ih _ _ _ _ m2 m2 (Or.inl rfl)
      · by_cases d' : F (mid lo hi) < q'
        · simp only [d, d', if_true, if_false]
          exact ih _ _ _ _ m1 m2 (Or.inr (le_refl _))
        · simp only [d, d', if_false]
          exact ih _ _ _ _ m1 m1 (Or.inl rfl)
    · -- disjoint: stays ordered whatever the decisions
      right
      have A := run_inside F mid hm q (k+1) lo hi h
      have B := run_inside F mid hm q' (k+1) lo' hi' h'
      exact A.2.2.trans (hlt.trans B.1)

theorem result_monotone (F : α → α) (mid : α → α → α) (hm : MidOK mid) (q q' : α) (hq : q ≤ q') (k : Nat)
    (lo hi : α) (h : lo ≤ hi) :
    mid (run F mid q k (lo, hi)).1 (run F mid q k (lo, hi)).2
      ≤ mid (run F mid q' k (lo, hi)).1 (run F mid q' k (lo, hi)).2 := by
  rcases run_ordered F mid hm q q' hq k lo hi lo hi h h (Or.inl rfl) with heq | hlt
  · rw [heq]
  · have A := run_inside F mid hm q k lo hi h
    have B := run_inside F mid hm q' k lo hi h
    exact ((hm _ _ A.2.1).2).trans (hlt.trans (hm _ _ B.2.1).1)

#print axioms result_monotone
end Bisect
