import OpdaProofs.Band
import OpdaProofs.EmpMore
import Mathlib.Data.List.Sort
import Mathlib.Tactic
/-!
The band distributions built by `confidence_bands`, end to end on the model:
`cdf (support ⊥ ⊤ a b (bandObs a b ys levels)) t` is the level indexed by the number of extended sample points `≤ t`;
consequences: bracket/nesting from level-wise inequalities, invariance under permutation of the sample and under
strictly increasing maps.
-/
namespace Opda.Band
open Opda.Emp
variable {E α : Type} [LinearOrder E] [Field α] [LinearOrder α] [IsStrictOrderedRing α]

/-- the level a band assigns to a point with `k` extended sample points at or below it -/
def levelAt (k : Nat) (levels : List α) : α :=
  if k = 0 then 0 else if k ≤ levels.length then levels.getD (k - 1) 0 else 1

theorem insertSorted_eq (v : E) (l : List E) : insertSorted v l = l.orderedInsert (· ≤ ·) v := by
  induction l with
  | nil => rfl
  | cons u rest ih => simp only [insertSorted, List.orderedInsert, ih]

theorem sort_eq_insertionSort (l : List E) : sort l = l.insertionSort (· ≤ ·) := by
  induction l with
  | nil => rfl
  | cons v rest ih =>
    show insertSorted v (sort rest) = _
    rw [ih, insertSorted_eq]; rfl

theorem wsorted_of_pairwise : ∀ l : List E, l.Pairwise (· ≤ ·) → WSorted l
  | [], _ => trivial
  | u :: rest, h => by
    rw [List.pairwise_cons] at h
    exact ⟨h.1, wsorted_of_pairwise rest h.2⟩

theorem wsorted_sort (l : List E) : WSorted (sort l) := by
  rw [sort_eq_insertionSort]
  exact wsorted_of_pairwise _ (List.pairwise_insertionSort (· ≤ ·) l)

theorem length_sort (l : List E) : (sort l).length = l.length := by
  rw [sort_eq_insertionSort, List.length_insertionSort]

/-- permuting the sample does not change the sorted extended sample -/
theorem sort_perm {l₁ l₂ : List E} (h : l₁.Perm l₂) : sort l₁ = sort l₂ := by
  rw [sort_eq_insertionSort, sort_eq_insertionSort]
  apply List.Perm.eq_of_pairwise (le := (· ≤ ·))
  · intro a b _ _ hab hba; exact le_antisymm hab hba
  · exact List.pairwise_insertionSort _ _
  · exact List.pairwise_insertionSort _ _
  · exact ((List.perm_insertionSort _ l₁).trans h).trans (List.perm_insertionSort _ l₂).symm

theorem total_zip_diffs (s : List E) (levels : List α) (hlen : s.length = levels.length + 1) (hs : WSorted s)
    [OrderTop E] : total (s.zip (diffs levels)) = 1 := by
  have h1 := total_eq_weightLE_of_all_le (⊤ : E) (s.zip (diffs levels)) (fun p _ => le_top)
  rw [h1, band_weightLE ⊤ s levels hs]
  have hc : countLE (⊤ : E) s = s.length := by
    clear hs hlen h1
    induction s with
    | nil => rfl
    | cons u rest ih => simp only [countLE, le_top, if_true, ih, List.length_cons]; omega
  rw [hc, hlen]
  simp

variable [OrderBot E] [OrderTop E]

/-- **C02-T1**: the cdf of a band distribution at `t` is the level indexed by the number `k` of extended sample
points `≤ t`: `0` if `k = 0` (below `a`), `levels[k-1]` for `1 ≤ k ≤ n+1`, `1` from `b` on. For every sample (ties
allowed), every bound pair and every level table with one level per point of `[a] ++ ys`. -/
theorem band_cdf (a b : E) (ys : List E) (levels : List α) (t : E) (hlen : levels.length = ys.length + 1) :
    cdf (support ⊥ ⊤ a b (bandObs a b ys levels)) t
      = levelAt (countLE t (sort (a :: (ys ++ [b])))) levels := by
  rw [cdf_support]
  unfold bandObs
  have hs := wsorted_sort (a :: (ys ++ [b]))
  have hl : (sort (a :: (ys ++ [b]))).length = levels.length + 1 := by
    rw [length_sort]; simp [hlen]
  rw [total_zip_diffs _ levels hl hs, div_one, band_weightLE t _ levels hs]
  rfl

theorem levelAt_mono (k : Nat) (L U : List α) (hlen : L.length = U.length)
    (h : ∀ i, L.getD i 0 ≤ U.getD i 0) : levelAt k L ≤ levelAt k U := by
  unfold levelAt
  rw [hlen]
  split_ifs
  · exact le_refl _
  · exact h _
  · exact le_refl _

/-- **bracket / nesting**: level-wise ordered tables give pointwise ordered band cdfs, at *every* `t`. -/
theorem band_cdf_le_of_levels_le (a b : E) (ys : List E) (L U : List α) (t : E)
    (hL : L.length = ys.length + 1) (hU : U.length = ys.length + 1)
    (h : ∀ i, L.getD i 0 ≤ U.getD i 0) :
    cdf (support ⊥ ⊤ a b (bandObs a b ys L)) t ≤ cdf (support ⊥ ⊤ a b (bandObs a b ys U)) t := by
  rw [band_cdf a b ys L t hL, band_cdf a b ys U t hU]
  exact levelAt_mono _ L U (by rw [hL, hU]) h

/-- **rank only, permutations**: permuting the sample leaves every band cdf value unchanged. -/
theorem band_cdf_perm (a b : E) (ys ys' : List E) (levels : List α) (t : E) (hp : ys.Perm ys')
    (hlen : levels.length = ys.length + 1) :
    cdf (support ⊥ ⊤ a b (bandObs a b ys levels)) t = cdf (support ⊥ ⊤ a b (bandObs a b ys' levels)) t := by
  rw [band_cdf a b ys levels t hlen, band_cdf a b ys' levels t (by rw [hlen, hp.length_eq])]
  congr 2
  exact sort_perm (List.Perm.cons a (List.Perm.append_right [b] hp))

theorem insertSorted_map {E' : Type} [LinearOrder E'] (g : E → E') (hg : StrictMono g) (v : E) (l : List E) :
    insertSorted (g v) (l.map g) = (insertSorted v l).map g := by
  induction l with
  | nil => rfl
  | cons u rest ih =>
    simp only [List.map_cons, insertSorted, hg.le_iff_le]
    split_ifs
    · rfl
    · simp only [List.map_cons, ih]

theorem sort_map {E' : Type} [LinearOrder E'] (g : E → E') (hg : StrictMono g) (l : List E) :
    sort (l.map g) = (sort l).map g := by
  induction l with
  | nil => rfl
  | cons v rest ih =>
    show insertSorted (g v) (sort (rest.map g)) = (insertSorted v (sort rest)).map g
    rw [ih, insertSorted_map g hg]

theorem countLE_map {E' : Type} [LinearOrder E'] (g : E → E') (hg : StrictMono g) (t : E) (l : List E) :
    countLE (g t) (l.map g) = countLE t l := by
  induction l with
  | nil => rfl
  | cons u rest ih => simp only [List.map_cons, countLE, hg.le_iff_le, ih]

/-- **rank only, monotone maps**: applying a strictly increasing `g` to sample, bounds and query leaves every band
cdf value unchanged. -/
theorem band_cdf_strictMono_map {E' : Type} [LinearOrder E'] [OrderBot E'] [OrderTop E']
    (g : E → E') (hg : StrictMono g) (a b : E) (ys : List E) (levels : List α) (t : E)
    (hlen : levels.length = ys.length + 1) :
    cdf (support ⊥ ⊤ (g a) (g b) (bandObs (g a) (g b) (ys.map g) levels)) (g t)
      = cdf (support ⊥ ⊤ a b (bandObs a b ys levels)) t := by
  rw [band_cdf (g a) (g b) (ys.map g) levels (g t) (by simp [hlen]), band_cdf a b ys levels t hlen]
  have : g a :: (ys.map g ++ [g b]) = (a :: (ys ++ [b])).map g := by simp
  rw [this, sort_map g hg, countLE_map g hg]

end Opda.Band
