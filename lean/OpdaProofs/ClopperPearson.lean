import Mathlib.Algebra.BigOperators.Intervals
import Mathlib.Algebra.Order.BigOperators.Group.Finset
import Mathlib.Data.Real.Basic
import Mathlib.Tactic

/-!
C16-T1: coverage of a Clopper–Pearson style interval table for **every** true proportion `p`,
from finitely many exact binomial-tail inequalities on the table.
`tail n k p = P[Bin(n,p) ≥ k]`, defined by conditioning on one trial.
-/
namespace Opda.CP
open Finset

def tail : ℕ → ℕ → ℝ → ℝ
  | 0, 0, _ => 1
  | 0, _+1, _ => 0
  | _+1, 0, _ => 1
  | n+1, k+1, p => p * tail n k p + (1 - p) * tail n (k+1) p

@[simp] theorem tail_zero (n : ℕ) (p : ℝ) : tail n 0 p = 1 := by cases n <;> rfl

theorem tail_of_gt (n k : ℕ) (p : ℝ) (h : n < k) : tail n k p = 0 := by
  induction n generalizing k with
  | zero => cases k with
    | zero => omega
    | succ k => rfl
  | succ n ih => cases k with
    | zero => omega
    | succ k => simp only [tail]; rw [ih k (by omega), ih (k+1) (by omega)]; ring

theorem tail_bounds (n k : ℕ) (p : ℝ) (h0 : 0 ≤ p) (h1 : p ≤ 1) : 0 ≤ tail n k p ∧ tail n k p ≤ 1 := by
  induction n generalizing k with
  | zero => cases k <;> simp [tail]
  | succ n ih => cases k with
    | zero => simp
    | succ k =>
      obtain ⟨a0, a1⟩ := ih k
      obtain ⟨b0, b1⟩ := ih (k+1)
      simp only [tail]
      constructor
      · have := mul_nonneg h0 a0; have := mul_nonneg (sub_nonneg.mpr h1) b0; linarith
      · nlinarith

theorem tail_anti_k (n k : ℕ) (p : ℝ) (h0 : 0 ≤ p) (h1 : p ≤ 1) : tail n (k+1) p ≤ tail n k p := by
  induction n generalizing k with
  | zero => cases k <;> simp [tail]
  | succ n ih => cases k with
    | zero =>
      simp only [tail_zero]
      exact (tail_bounds (n+1) 1 p h0 h1).2
    | succ k =>
      simp only [tail]
      have := ih k; have := ih (k+1)
      have hp : 0 ≤ 1 - p := sub_nonneg.mpr h1
      nlinarith

/-- the binomial tail is non-decreasing in `p` on `[0,1]` -/
theorem tail_mono_p (n k : ℕ) (p p' : ℝ) (h0 : 0 ≤ p) (hpp : p ≤ p') (h1 : p' ≤ 1) :
    tail n k p ≤ tail n k p' := by
  induction n generalizing k with
  | zero => cases k <;> simp [tail]
  | succ n ih => cases k with
    | zero => simp
    | succ k =>
      simp only [tail]
      have i1 := ih k
      have i2 := ih (k+1)
      have a := tail_anti_k n k p h0 (hpp.trans h1)
      have hp' : 0 ≤ p' := h0.trans hpp
      have hq' : 0 ≤ 1 - p' := sub_nonneg.mpr h1
      -- p' T(k,p') + (1-p') T(k+1,p') ≥ p' T(k,p) + (1-p') T(k+1,p)
      --   = p T(k,p) + (1-p) T(k+1,p) + (p'-p)(T(k,p) - T(k+1,p))
      nlinarith [mul_le_mul_of_nonneg_left i1 hp', mul_le_mul_of_nonneg_left i2 hq',
        mul_nonneg (sub_nonneg.mpr hpp) (sub_nonneg.mpr a)]

/-- binomial probability mass -/
def pmf (n k : ℕ) (p : ℝ) : ℝ := tail n k p - tail n (k+1) p

theorem pmf_nonneg (n k : ℕ) (p : ℝ) (h0 : 0 ≤ p) (h1 : p ≤ 1) : 0 ≤ pmf n k p :=
  sub_nonneg.mpr (tail_anti_k n k p h0 h1)

theorem sum_pmf_Ico (n a b : ℕ) (p : ℝ) (hab : a ≤ b) :
    ∑ k ∈ Ico a b, pmf n k p = tail n a p - tail n b p := by
  unfold pmf
  induction b, hab using Nat.le_induction with
  | base => simp
  | succ b hb ih => rw [sum_Ico_succ_top hb, ih]; ring

/-- **Clopper–Pearson coverage for every `p`**.  `lo k`, `hi k` (`k = 0..n`) is any interval table with
monotone end points in `[0,1]`, `lo 0 ≤ 0`, `1 ≤ hi n`, whose end points satisfy the `2n` exact
tail inequalities; then the interval covers the true proportion with probability at least
`1 − α − 2δ`, whatever the true proportion is. -/
theorem cp_coverage (n : ℕ) (lo hi : ℕ → ℝ) (α δ : ℝ)
    (hlo_mono : ∀ j k, j ≤ k → k ≤ n → lo j ≤ lo k) (hhi_mono : ∀ j k, j ≤ k → k ≤ n → hi j ≤ hi k)
    (hlo01 : ∀ k, k ≤ n → 0 ≤ lo k ∧ lo k ≤ 1) (hhi01 : ∀ k, k ≤ n → 0 ≤ hi k ∧ hi k ≤ 1)
    (hlo0 : lo 0 ≤ 0) (hhin : 1 ≤ hi n)
    (hlo : ∀ k, 1 ≤ k → k ≤ n → tail n k (lo k) ≤ α / 2 + δ)
    (hhi : ∀ k, k < n → 1 - tail n (k+1) (hi k) ≤ α / 2 + δ)
    (hα : 0 ≤ α / 2 + δ)
    (p : ℝ) (hp0 : 0 ≤ p) (hp1 : p ≤ 1) :
    1 - α - 2 * δ ≤ ∑ k ∈ range (n+1), (if lo k ≤ p ∧ p ≤ hi k then pmf n k p else 0) := by
  classical
  -- total mass
  have htot : ∑ k ∈ range (n+1), pmf n k p = 1 := by
    rw [range_eq_Ico, sum_pmf_Ico n 0 (n+1) p (by omega), tail_zero, tail_of_gt n (n+1) p (by omega)]; ring
  -- mass missed below: { k | p < lo k }
  have hbelow : ∑ k ∈ range (n+1), (if p < lo k then pmf n k p else 0) ≤ α / 2 + δ := by
    by_cases hex : ∃ k, k ≤ n ∧ p < lo k
    · obtain ⟨ks, hks, hmin⟩ : ∃ ks, (ks ≤ n ∧ p < lo ks) ∧ ∀ j, j < ks → ¬ (j ≤ n ∧ p < lo j) :=
        ⟨Nat.find hex, Nat.find_spec hex, fun j hj => Nat.find_min hex hj⟩
      have hks1 : 1 ≤ ks := by
        by_contra h
        have h0 : ks = 0 := by omega
        have h2 := hks.2; rw [h0] at h2; linarith
      have hchar : ∀ k ∈ range (n+1), (p < lo k ↔ ks ≤ k) := by
        intro k hk
        have hkn : k ≤ n := by simpa [Nat.lt_succ_iff] using hk
        constructor
        · intro h; by_contra hlt; exact hmin k (not_le.mp hlt) ⟨hkn, h⟩
        · intro h; exact lt_of_lt_of_le hks.2 (hlo_mono ks k h hkn)
      calc ∑ k ∈ range (n+1), (if p < lo k then pmf n k p else 0)
          = ∑ k ∈ range (n+1), (if ks ≤ k then pmf n k p else 0) := by
            apply sum_congr rfl; intro k hk; simp only [hchar k hk]
        _ = ∑ k ∈ Ico ks (n+1), pmf n k p := by
            rw [← sum_filter]; congr 1; ext k; simp [Nat.lt_succ_iff]; omega
        _ = tail n ks p := by
            rw [sum_pmf_Ico n ks (n+1) p (by omega), tail_of_gt n (n+1) p (by omega)]; ring
        _ ≤ tail n ks (lo ks) := tail_mono_p n ks p (lo ks) hp0 hks.2.le (hlo01 ks hks.1).2
        _ ≤ α / 2 + δ := hlo ks hks1 hks.1
    · have : ∀ k ∈ range (n+1), (if p < lo k then pmf n k p else 0) = 0 := by
        intro k hk
        have hkn : k ≤ n := by simpa [Nat.lt_succ_iff] using hk
        have : ¬ p < lo k := fun h => hex ⟨k, hkn, h⟩
        simp [this]
      rw [sum_congr rfl this]; simpa using hα
  -- mass missed above: { k | hi k < p }
  have habove : ∑ k ∈ range (n+1), (if hi k < p then pmf n k p else 0) ≤ α / 2 + δ := by
    by_cases hex : ∃ k, k ≤ n ∧ ¬ hi k < p
    · -- ks = first k that is NOT missed above
      obtain ⟨ks, hks, hmin⟩ : ∃ ks, (ks ≤ n ∧ ¬ hi ks < p) ∧ ∀ j, j < ks → ¬ (j ≤ n ∧ ¬ hi j < p) :=
        ⟨Nat.find hex, Nat.find_spec hex, fun j hj => Nat.find_min hex hj⟩
      have hchar : ∀ k ∈ range (n+1), (hi k < p ↔ k < ks) := by
        intro k hk
        have hkn : k ≤ n := by simpa [Nat.lt_succ_iff] using hk
        constructor
        · intro h; by_contra hge
          exact hks.2 (lt_of_le_of_lt (hhi_mono ks k (not_lt.mp hge) hkn) h)
        · intro h; by_contra hnot; exact hmin k h ⟨hkn, hnot⟩
      rcases Nat.eq_zero_or_pos ks with h0 | hpos
      · have : ∀ k ∈ range (n+1), (if hi k < p then pmf n k p else 0) = 0 := by
          intro k hk
          have : ¬ hi k < p := by rw [hchar k hk, h0]; omega
          simp [this]
        rw [sum_congr rfl this]; simpa using hα
      · have hmiss : hi (ks - 1) < p := by
          have := hmin (ks - 1) (by omega)
          by_contra h; exact this ⟨by omega, h⟩
        calc ∑ k ∈ range (n+1), (if hi k < p then pmf n k p else 0)
            = ∑ k ∈ range (n+1), (if k < ks then pmf n k p else 0) := by
              apply sum_congr rfl; intro k hk; simp only [hchar k hk]
          _ = ∑ k ∈ Ico 0 ks, pmf n k p := by
              rw [← sum_filter]; congr 1; ext k; simp [Nat.lt_succ_iff]; omega
          _ = 1 - tail n ks p := by rw [sum_pmf_Ico n 0 ks p (by omega), tail_zero]
          _ ≤ 1 - tail n ks (hi (ks - 1)) := by
              have := tail_mono_p n ks (hi (ks-1)) p (hhi01 (ks-1) (by omega)).1 hmiss.le hp1
              linarith
          _ ≤ α / 2 + δ := by
              have := hhi (ks - 1) (by omega)
              have h1 : ks - 1 + 1 = ks := by omega
              rw [h1] at this; exact this
    · -- every k is missed above, in particular k = n, but hi n ≥ 1 ≥ p
      exfalso; apply hex; exact ⟨n, le_rfl, by linarith⟩
  -- combine
  have hsplit : ∀ k ∈ range (n+1),
      pmf n k p ≤ (if lo k ≤ p ∧ p ≤ hi k then pmf n k p else 0)
        + (if p < lo k then pmf n k p else 0) + (if hi k < p then pmf n k p else 0) := by
    intro k _
    have hnn := pmf_nonneg n k p hp0 hp1
    by_cases h1 : lo k ≤ p <;> by_cases h2 : p ≤ hi k <;>
      simp [h1, h2, not_le.mp, not_lt.mpr, hnn] <;> (try linarith)
    all_goals
      first
      | (have := not_le.mp h1; simp [this, hnn])
      | (have := not_le.mp h2; simp [this, hnn])
  have := sum_le_sum hsplit
  rw [htot, sum_add_distrib, sum_add_distrib] at this
  linarith

#print axioms cp_coverage
end Opda.CP
