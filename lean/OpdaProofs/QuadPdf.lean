import OpdaModel.Quadratic
import OpdaProofs.RealInst
import OpdaProofs.QuadLaw
import Mathlib.Analysis.SpecialFunctions.Pow.Deriv
import Mathlib.Analysis.SpecialFunctions.Integrals.Basic
import Mathlib.Tactic

/-! C05-T4/T5: the density is the derivative of the cdf, integrates to one, and the `mean` / `variance`
attributes are its first two (central) moments. -/
namespace Opda.Quad
open Opda Opda.Num MeasureTheory intervalIntegral

/-! ### integrals of `P(t)·α t^{α−1}` on `[0,1]` and the affine substitution -/

theorem mul_rpow_sub_one {t α : ℝ} (ht : 0 ≤ t) (hα : 0 < α) : t * t ^ (α - 1) = t ^ α := by
  rcases ht.eq_or_lt with h | h
  · subst h; rw [Real.zero_rpow hα.ne']; ring
  · rw [Real.rpow_sub_one h.ne']; field_simp

theorem sq_mul_rpow_sub_one {t α : ℝ} (ht : 0 ≤ t) (hα : 0 < α) : t ^ 2 * t ^ (α - 1) = t ^ (α + 1) := by
  rw [Real.rpow_add_one' ht (by linarith), ← mul_rpow_sub_one ht hα]; ring

/-- `∫₀¹ (p₀ + p₁ t + p₂ t²) · α t^{α−1} dt = p₀ + p₁ α/(α+1) + p₂ α/(α+2)` -/
theorem integral_poly2_rpow (α p0 p1 p2 : ℝ) (hα : 0 < α) :
    ∫ t in (0:ℝ)..1, (p0 + p1 * t + p2 * t ^ 2) * (α * t ^ (α - 1))
      = p0 + p1 * α / (α + 1) + p2 * α / (α + 2) := by
  have hcongr : ∀ t ∈ Set.uIcc (0:ℝ) 1, (p0 + p1 * t + p2 * t ^ 2) * (α * t ^ (α - 1))
      = (p0 * α) * t ^ (α - 1) + (p1 * α) * t ^ α + (p2 * α) * t ^ (α + 1) := by
    intro t ht
    rw [Set.uIcc_of_le zero_le_one] at ht
    rw [← mul_rpow_sub_one ht.1 hα, ← sq_mul_rpow_sub_one ht.1 hα]; ring
  have i0 : IntervalIntegrable (fun t : ℝ => (p0 * α) * t ^ (α - 1)) volume 0 1 :=
    (intervalIntegrable_rpow' (by linarith)).const_mul _
  have i1 : IntervalIntegrable (fun t : ℝ => (p1 * α) * t ^ α) volume 0 1 :=
    (intervalIntegrable_rpow' (by linarith)).const_mul _
  have i2 : IntervalIntegrable (fun t : ℝ => (p2 * α) * t ^ (α + 1)) volume 0 1 :=
    (intervalIntegrable_rpow' (by linarith)).const_mul _
  rw [integral_congr hcongr, integral_add (i0.add i1) i2, integral_add i0 i1,
    intervalIntegral.integral_const_mul, intervalIntegral.integral_const_mul, intervalIntegral.integral_const_mul,
    integral_rpow (Or.inl (by linarith)), integral_rpow (Or.inl (by linarith)),
    integral_rpow (Or.inl (by linarith))]
  have h1 : α - 1 + 1 ≠ 0 := by linarith
  have h2 : α + 1 ≠ 0 := by linarith
  have h3 : α + 1 + 1 ≠ 0 := by linarith
  have h4 : α + 2 ≠ 0 := by linarith
  simp only [Real.one_rpow, Real.zero_rpow h1, Real.zero_rpow h2, Real.zero_rpow h3]
  field_simp
  ring

/-- substitution `t = (y − a)/(b − a)` -/
theorem integral_comp_up (g : ℝ → ℝ) (a b : ℝ) (hab : a < b) :
    ∫ y in a..b, g ((y - a) / (b - a)) = (b - a) * ∫ t in (0:ℝ)..1, g t := by
  have hne : b - a ≠ 0 := (sub_pos.mpr hab).ne'
  have h1 := integral_comp_sub_right (a := a) (b := b) (fun x => g (x / (b - a))) a
  have h2 := integral_comp_div (a := a - a) (b := b - a) g hne
  rw [h1, h2, sub_self, zero_div, div_self hne, smul_eq_mul]

/-- substitution `t = (b − y)/(b − a)` -/
theorem integral_comp_down (g : ℝ → ℝ) (a b : ℝ) (hab : a < b) :
    ∫ y in a..b, g ((b - y) / (b - a)) = (b - a) * ∫ t in (0:ℝ)..1, g t := by
  have hne : b - a ≠ 0 := (sub_pos.mpr hab).ne'
  have h1 := integral_comp_sub_left (a := a) (b := b) (fun x => g (x / (b - a))) b
  have h2 := integral_comp_div (a := b - b) (b := b - a) g hne
  rw [h1, h2, sub_self, zero_div, div_self hne, smul_eq_mul]

/-! ### the density -/

theorem pdf_of_mem (d : Params ℝ) (hab : d.a < d.b) (y : ℝ) (h1 : d.a ≤ y) (h2 : y ≤ d.b) :
    pdf d y = pdfInside d y := by
  unfold pdf
  simp [eq_false_of_ne _ _ (ne_of_lt hab), not_lt.mpr h1, not_lt.mpr h2]

/-- `pdf = 0` outside `[a,b]` -/
theorem pdf_outside (d : Params ℝ) (hab : d.a < d.b) (y : ℝ) (h : y < d.a ∨ d.b < y) : pdf d y = 0 := by
  unfold pdf
  rcases h with h | h
  · simp [eq_false_of_ne _ _ (ne_of_lt hab), h]
  · simp [eq_false_of_ne _ _ (ne_of_lt hab), h]

/-- the density in the substituted variable: `α t^{α−1} / (b − a)`, `α = c/2` -/
theorem pdfInside_eq (d : Params ℝ) (y : ℝ) :
    pdfInside d y = ((d.c:ℝ) / 2 * (if d.convex then (y - d.a) / (d.b - d.a) else (d.b - y) / (d.b - d.a))
      ^ ((d.c:ℝ) / 2 - 1)) / (d.b - d.a) := by
  unfold pdfInside
  cases d.convex <;> simp only [num_n, num_pow, Nat.cast_ofNat, Nat.cast_one, Bool.false_eq_true, if_false, if_true] <;>
    (by_cases h : d.b - d.a = 0
     · simp [h]
     · field_simp)

/-- `pdf ≥ 0` -/
theorem pdf_nonneg (d : Params ℝ) (hab : d.a < d.b) (y : ℝ) : 0 ≤ pdf d y := by
  have hba : 0 < d.b - d.a := sub_pos.mpr hab
  by_cases h : y < d.a ∨ d.b < y
  · rw [pdf_outside d hab y h]
  · push Not at h
    rw [pdf_of_mem d hab y h.1 h.2, pdfInside_eq]
    apply div_nonneg _ hba.le
    apply mul_nonneg (by positivity)
    apply Real.rpow_nonneg
    cases d.convex
    · simp only [Bool.false_eq_true, if_false]; exact div_nonneg (by linarith) hba.le
    · simp only [if_true]; exact div_nonneg (by linarith) hba.le

/-- **T4**: inside `(a,b)` the cdf is differentiable with derivative `pdf` -/
theorem hasDerivAt_cdf (d : Params ℝ) (hab : d.a < d.b) (y : ℝ) (h1 : d.a < y) (h2 : y < d.b) :
    HasDerivAt (cdf d) (pdf d y) y := by
  have hba : 0 < d.b - d.a := sub_pos.mpr hab
  rw [pdf_of_mem d hab y h1.le h2.le, pdfInside_eq]
  -- near `y` the clip is the identity
  have hev : ∀ᶠ z in nhds y, cdf d z =
      (if d.convex then ((z - d.a) / (d.b - d.a)) ^ ((d.c:ℝ) / 2)
       else 1 - ((d.b - z) / (d.b - d.a)) ^ ((d.c:ℝ) / 2)) := by
    filter_upwards [Ioo_mem_nhds h1 h2] with z hz
    unfold cdf
    simp only [eq_false_of_ne _ _ (ne_of_lt hab), Bool.false_eq_true, if_false, num_n, num_pow,
      Nat.cast_one, Nat.cast_ofNat, clip_of_mem z _ _ hz.1.le hz.2.le]
  refine HasDerivAt.congr_of_eventuallyEq ?_ hev
  cases d.convex
  · simp only [Bool.false_eq_true, if_false]
    have hf : HasDerivAt (fun z : ℝ => (d.b - z) / (d.b - d.a)) (-1 / (d.b - d.a)) y :=
      ((hasDerivAt_id y).const_sub d.b).div_const _
    have hpos : (d.b - y) / (d.b - d.a) ≠ 0 := (div_pos (by linarith) hba).ne'
    have := (hf.rpow_const (p := (d.c:ℝ) / 2) (Or.inl hpos)).const_sub 1
    refine this.congr_deriv ?_
    field_simp
  · simp only [if_true]
    have hf : HasDerivAt (fun z : ℝ => (z - d.a) / (d.b - d.a)) (1 / (d.b - d.a)) y :=
      ((hasDerivAt_id y).sub_const d.a).div_const _
    have hpos : (y - d.a) / (d.b - d.a) ≠ 0 := (div_pos (by linarith) hba).ne'
    have := hf.rpow_const (p := (d.c:ℝ) / 2) (Or.inl hpos)
    refine this.congr_deriv ?_
    field_simp

/-- integrals of `G(y)·pdf(y)` over the support, for `G` a quadratic in the standardised variable -/
theorem integral_poly2_pdf (d : Params ℝ) (hab : d.a < d.b) (hc : 0 < d.c) (p0 p1 p2 : ℝ) :
    ∫ y in d.a..d.b,
        (p0 + p1 * (if d.convex then (y - d.a) / (d.b - d.a) else (d.b - y) / (d.b - d.a))
            + p2 * (if d.convex then (y - d.a) / (d.b - d.a) else (d.b - y) / (d.b - d.a)) ^ 2) * pdf d y
      = p0 + p1 * (d.c:ℝ) / (d.c + 2) + p2 * (d.c:ℝ) / (d.c + 4) := by
  have hba : 0 < d.b - d.a := sub_pos.mpr hab
  have hc' : (0:ℝ) < d.c := by exact_mod_cast hc
  have hα : (0:ℝ) < (d.c:ℝ) / 2 := by positivity
  set G : ℝ → ℝ := fun t => (p0 + p1 * t + p2 * t ^ 2) * ((d.c:ℝ) / 2 * t ^ ((d.c:ℝ) / 2 - 1)) / (d.b - d.a) with hG
  have hcongr : ∀ y ∈ Set.uIcc d.a d.b,
      (p0 + p1 * (if d.convex then (y - d.a) / (d.b - d.a) else (d.b - y) / (d.b - d.a))
            + p2 * (if d.convex then (y - d.a) / (d.b - d.a) else (d.b - y) / (d.b - d.a)) ^ 2) * pdf d y
        = G (if d.convex then (y - d.a) / (d.b - d.a) else (d.b - y) / (d.b - d.a)) := by
    intro y hy
    rw [Set.uIcc_of_le hab.le] at hy
    rw [pdf_of_mem d hab y hy.1 hy.2, pdfInside_eq, hG]
    ring
  rw [integral_congr hcongr]
  have hval : (d.b - d.a) * ∫ t in (0:ℝ)..1, G t = p0 + p1 * (d.c:ℝ) / (d.c + 2) + p2 * (d.c:ℝ) / (d.c + 4) := by
    have : ∀ t, G t = (1 / (d.b - d.a)) * ((p0 + p1 * t + p2 * t ^ 2) * ((d.c:ℝ) / 2 * t ^ ((d.c:ℝ) / 2 - 1))) := by
      intro t; rw [hG]; ring
    simp_rw [this]
    rw [intervalIntegral.integral_const_mul, integral_poly2_rpow _ _ _ _ hα]
    field_simp
    ring
  cases hcv : d.convex
  · simp only [Bool.false_eq_true, if_false]
    rw [integral_comp_down G d.a d.b hab, hval]
  · simp only [if_true]
    rw [integral_comp_up G d.a d.b hab, hval]

/-- **T4**: `∫ pdf = 1` -/
theorem integral_pdf (d : Params ℝ) (hab : d.a < d.b) (hc : 0 < d.c) : ∫ y in d.a..d.b, pdf d y = 1 := by
  have := integral_poly2_pdf d hab hc 1 0 0
  simpa using this

/-- **T5**: the `mean` attribute is `∫ y·pdf(y) dy` -/
theorem integral_mul_pdf (d : Params ℝ) (hab : d.a < d.b) (hc : 0 < d.c) :
    ∫ y in d.a..d.b, y * pdf d y = mean d := by
  have hba : 0 < d.b - d.a := sub_pos.mpr hab
  have hc' : (0:ℝ) < d.c := by exact_mod_cast hc
  cases hcv : d.convex
  · have := integral_poly2_pdf d hab hc d.b (-(d.b - d.a)) 0
    simp only [hcv, Bool.false_eq_true, if_false] at this
    have hcongr : ∀ y ∈ Set.uIcc d.a d.b, y * pdf d y
        = (d.b + -(d.b - d.a) * ((d.b - y) / (d.b - d.a)) + 0 * ((d.b - y) / (d.b - d.a)) ^ 2) * pdf d y := by
      intro y _; congr 1; field_simp; ring
    rw [integral_congr hcongr, this]
    unfold mean
    simp only [hcv, Bool.false_eq_true, if_false, num_n, Nat.cast_ofNat]
    field_simp; ring
  · have := integral_poly2_pdf d hab hc d.a (d.b - d.a) 0
    simp only [hcv, if_true] at this
    have hcongr : ∀ y ∈ Set.uIcc d.a d.b, y * pdf d y
        = (d.a + (d.b - d.a) * ((y - d.a) / (d.b - d.a)) + 0 * ((y - d.a) / (d.b - d.a)) ^ 2) * pdf d y := by
      intro y _; congr 1; field_simp; ring
    rw [integral_congr hcongr, this]
    unfold mean
    simp only [hcv, if_true, num_n, Nat.cast_ofNat]
    field_simp; ring

/-- **T5**: the `variance` attribute is `∫ (y − mean)²·pdf(y) dy` -/
theorem integral_sq_mul_pdf (d : Params ℝ) (hab : d.a < d.b) (hc : 0 < d.c) :
    ∫ y in d.a..d.b, (y - mean d) ^ 2 * pdf d y = variance d := by
  have hba : 0 < d.b - d.a := sub_pos.mpr hab
  have hc' : (0:ℝ) < d.c := by exact_mod_cast hc
  set μ : ℝ := (d.c:ℝ) / (d.c + 2) with hμ
  have key := integral_poly2_pdf d hab hc ((d.b - d.a) ^ 2 * μ ^ 2) (-2 * (d.b - d.a) ^ 2 * μ) ((d.b - d.a) ^ 2)
  have hvar : variance d = (d.b - d.a) ^ 2 * μ ^ 2 + -2 * (d.b - d.a) ^ 2 * μ * (d.c:ℝ) / (d.c + 2)
      + (d.b - d.a) ^ 2 * (d.c:ℝ) / (d.c + 4) := by
    unfold variance
    simp only [num_n, num_pow, Nat.cast_ofNat, hμ]
    rw [show ((2:ℝ)) = ((2:ℕ):ℝ) by norm_num, Real.rpow_natCast, Real.rpow_natCast]
    push_cast
    field_simp
    ring
  rw [hvar, ← key]
  apply integral_congr
  intro y _
  simp only
  congr 1
  unfold mean
  cases hcv : d.convex
  · simp only [Bool.false_eq_true, if_false, num_n, Nat.cast_ofNat, hμ]
    field_simp; ring
  · simp only [if_true, num_n, Nat.cast_ofNat, hμ]
    field_simp; ring

/-! ### the same integrals over the whole line -/

/-- a function vanishing outside `[a,b]` has the same integral over ℝ as over `[a,b]` -/
theorem integral_univ_eq_interval (f : ℝ → ℝ) (a b : ℝ) (hab : a ≤ b)
    (h0 : ∀ y, y < a ∨ b < y → f y = 0) : ∫ y, f y = ∫ y in a..b, f y := by
  rw [integral_of_le hab, ← integral_Icc_eq_integral_Ioc,
    setIntegral_eq_integral_of_forall_compl_eq_zero]
  intro y hy
  apply h0
  by_contra hcon
  push Not at hcon
  exact hy ⟨hcon.1, hcon.2⟩

/-- `∫_ℝ pdf = 1` -/
theorem integral_univ_pdf (d : Params ℝ) (hab : d.a < d.b) (hc : 0 < d.c) : ∫ y, pdf d y = 1 := by
  rw [integral_univ_eq_interval _ d.a d.b hab.le (pdf_outside d hab), integral_pdf d hab hc]

/-- `mean = ∫_ℝ y·pdf(y) dy` -/
theorem integral_univ_mul_pdf (d : Params ℝ) (hab : d.a < d.b) (hc : 0 < d.c) :
    ∫ y, y * pdf d y = mean d := by
  rw [integral_univ_eq_interval _ d.a d.b hab.le (fun y h => by rw [pdf_outside d hab y h, mul_zero]),
    integral_mul_pdf d hab hc]

/-- `variance = ∫_ℝ (y − mean)²·pdf(y) dy` -/
theorem integral_univ_sq_mul_pdf (d : Params ℝ) (hab : d.a < d.b) (hc : 0 < d.c) :
    ∫ y, (y - mean d) ^ 2 * pdf d y = variance d := by
  rw [integral_univ_eq_interval _ d.a d.b hab.le (fun y h => by rw [pdf_outside d hab y h, mul_zero]),
    integral_sq_mul_pdf d hab hc]
end Opda.Quad
