import OpdaProofs.RectPIT
import OpdaProofs.BetaCheck
import Mathlib.Data.Nat.Choose.Sum
import Mathlib.Tactic

/-!
# C01 (ld methods): the coverage of a simulated order statistic follows a Beta law

* `pi_count_ge` — for `N` independent draws from any σ-finite `ν` on `ℝ`, the number of draws `≤ t` is binomial:
  `P[m ≤ #{j | Y_j ≤ t}] = Σ_{S ⊆ Fin N, m ≤ |S|} ν(-∞,t]^{|S|} · ν(t,∞)^{N−|S|}` (disjoint union of boxes, `Measure.pi_pi`);
* `unif_orderStat_cdf` — for `N` independent uniforms the `k`-th (0-based) order statistic has distribution function
  `Σ_{j = k+1}^{N} C(N,j) t^j (1−t)^{N−j}` on `[0,1]`;
* `unif_orderStat_beta` — that polynomial is the Beta(k+1, N−k) distribution function `G (k+1) (N−k) t` of `BetaCheck`,
  i.e. the integral over `[0,t]` of the normalised Beta density (`unif_orderStat_beta_integral`);
* `orderStat_coverage_beta` — for `N` independent draws from any `ν` with continuous distribution function `F`,
  `F(Y₍ₖ₎)` has the same law (probability integral transform).
-/
namespace Opda.OrderStatBeta
open Finset MeasureTheory Set Opda.RectProbP Opda.CP Opda.BetaCheck

/-! ## the count of coordinates `≤ t` is binomial under a product measure -/
section binom
variable {N : ℕ}

/-- the samples whose coordinates `≤ t` are exactly those in `S` -/
def tBox (t : ℝ) (S : Finset (Fin N)) : Set (Fin N → ℝ) :=
  Set.pi Set.univ fun j => if j ∈ S then Iic t else Ioi t

theorem mem_tBox {t : ℝ} {S : Finset (Fin N)} {u : Fin N → ℝ} :
    u ∈ tBox t S ↔ S = Finset.univ.filter fun j => u j ≤ t := by
  unfold tBox
  simp only [Set.mem_pi, Set.mem_univ, true_implies]
  constructor
  · intro h
    ext j
    simp only [Finset.mem_filter, Finset.mem_univ, true_and]
    have := h j
    by_cases hj : j ∈ S
    · rw [if_pos hj] at this; exact ⟨fun _ => this, fun _ => hj⟩
    · rw [if_neg hj] at this
      exact ⟨fun h' => absurd h' hj, fun h' => absurd h' (not_le.mpr this)⟩
  · rintro rfl j
    by_cases hj : u j ≤ t
    · rw [if_pos (by simpa using hj)]; exact hj
    · rw [if_neg (by simpa using hj)]; exact not_le.mp hj

theorem measurableSet_tBox (t : ℝ) (S : Finset (Fin N)) : MeasurableSet (tBox t S) :=
  MeasurableSet.univ_pi fun j => by
    by_cases hj : j ∈ S
    · rw [if_pos hj]; exact measurableSet_Iic
    · rw [if_neg hj]; exact measurableSet_Ioi

theorem tBox_disjoint (t : ℝ) {S S' : Finset (Fin N)} (h : S ≠ S') : Disjoint (tBox t S) (tBox t S') := by
  rw [Set.disjoint_left]
  intro u hu hu'
  exact h ((mem_tBox.mp hu).trans (mem_tBox.mp hu').symm)

theorem count_event_eq (t : ℝ) (m : ℕ) :
    {u : Fin N → ℝ | m ≤ #{j | u j ≤ t}}
      = ⋃ S ∈ (Finset.univ.filter fun S : Finset (Fin N) => m ≤ #S), tBox t S := by
  ext u
  simp only [Set.mem_ofPred_eq, Set.mem_iUnion, Finset.mem_filter, Finset.mem_univ, true_and, exists_prop]
  constructor
  · intro h; exact ⟨_, h, mem_tBox.mpr rfl⟩
  · rintro ⟨S, hS, hu⟩; rw [mem_tBox.mp hu] at hS; exact hS

theorem pi_tBox (ν : Measure ℝ) [SigmaFinite ν] (t : ℝ) (S : Finset (Fin N)) :
    (Measure.pi fun _ : Fin N => ν) (tBox t S) = ν (Iic t) ^ #S * ν (Ioi t) ^ (N - #S) := by
  unfold tBox
  rw [Measure.pi_pi]
  have : ∀ j : Fin N, ν (if j ∈ S then Iic t else Ioi t) = if j ∈ S then ν (Iic t) else ν (Ioi t) := by
    intro j; split_ifs <;> rfl
  simp_rw [this]
  rw [Finset.prod_ite, Finset.prod_const, Finset.prod_const, Finset.filter_univ_mem]
  congr 2
  have : (Finset.univ.filter fun j => j ∉ S) = Sᶜ := by ext j; simp
  rw [this, Finset.card_compl, Fintype.card_fin]

/-- **binomial law of the count**: for `N` independent draws from `ν` the probability that at least `m` of them are
`≤ t` is the sum over the subsets `S` of at least `m` coordinates of `ν(-∞,t]^{|S|} ν(t,∞)^{N−|S|}` -/
theorem pi_count_ge (ν : Measure ℝ) [SigmaFinite ν] (t : ℝ) (m : ℕ) :
    (Measure.pi fun _ : Fin N => ν) {u | m ≤ #{j | u j ≤ t}}
      = ∑ S ∈ (Finset.univ.filter fun S : Finset (Fin N) => m ≤ #S), ν (Iic t) ^ #S * ν (Ioi t) ^ (N - #S) := by
  rw [count_event_eq, measure_biUnion_finset (fun S _ S' _ h => tBox_disjoint t h)
    (fun S _ => measurableSet_tBox t S)]
  exact Finset.sum_congr rfl fun S _ => pi_tBox ν t S

end binom

/-! ## uniform order statistics -/
section unif
variable {N : ℕ}

theorem unif_Iic {t : ℝ} (ht1 : t ≤ 1) :
    ((volume : Measure ℝ).restrict (Icc 0 1)) (Iic t) = ENNReal.ofReal t := by
  rw [Measure.restrict_apply measurableSet_Iic]
  have : Iic t ∩ Icc (0:ℝ) 1 = Icc 0 t := by
    ext x; simp only [Set.mem_inter_iff, Set.mem_Iic, Set.mem_Icc]
    constructor
    · rintro ⟨h1, h2, _⟩; exact ⟨h2, h1⟩
    · rintro ⟨h1, h2⟩; exact ⟨h2, h1, h2.trans ht1⟩
  rw [this, Real.volume_Icc, sub_zero]

theorem unif_Ioi {t : ℝ} (ht0 : 0 ≤ t) :
    ((volume : Measure ℝ).restrict (Icc 0 1)) (Ioi t) = ENNReal.ofReal (1 - t) := by
  rw [Measure.restrict_apply measurableSet_Ioi]
  have : Ioi t ∩ Icc (0:ℝ) 1 = Ioc t 1 := by
    ext x; simp only [Set.mem_inter_iff, Set.mem_Ioi, Set.mem_Icc, Set.mem_Ioc]
    constructor
    · rintro ⟨h1, _, h3⟩; exact ⟨h1, h3⟩
    · rintro ⟨h1, h2⟩; exact ⟨h1, ht0.trans h1.le, h2⟩
  rw [this, Real.volume_Ioc]

/-- the binomial upper tail polynomial `Σ_{j=m}^{N} C(N,j) t^j (1−t)^{N−j}` -/
noncomputable def binomTail (N m : ℕ) (t : ℝ) : ℝ :=
  ∑ j ∈ Finset.Icc m N, (N.choose j : ℝ) * t ^ j * (1 - t) ^ (N - j)

theorem sum_subsets_eq_binomTail (m : ℕ) (t : ℝ) :
    ∑ S ∈ (Finset.univ.filter fun S : Finset (Fin N) => m ≤ #S), t ^ #S * (1 - t) ^ (N - #S)
      = binomTail N m t := by
  rw [Finset.sum_filter, ← Finset.powerset_univ,
    Finset.sum_powerset_apply_card (fun c => if m ≤ c then t ^ c * (1 - t) ^ (N - c) else 0)]
  simp only [Finset.card_univ, Fintype.card_fin, nsmul_eq_mul]
  unfold binomTail
  have hI : Finset.Icc m N = (Finset.range (N + 1)).filter fun c => m ≤ c := by
    ext c; simp only [Finset.mem_Icc, Finset.mem_filter, Finset.mem_range]; omega
  rw [hI, Finset.sum_filter]
  refine Finset.sum_congr rfl fun c _ => ?_
  split_ifs <;> ring

/-- the count of `N` independent uniforms below `t` is Binomial(N, t) -/
theorem unif_count_ge (m : ℕ) {t : ℝ} (ht0 : 0 ≤ t) (ht1 : t ≤ 1) :
    (Measure.pi fun _ : Fin N => (volume : Measure ℝ).restrict (Icc 0 1)) {u | m ≤ #{j | u j ≤ t}}
      = ENNReal.ofReal (binomTail N m t) := by
  rw [pi_count_ge, unif_Iic ht1, unif_Ioi ht0, ← sum_subsets_eq_binomTail,
    ENNReal.ofReal_sum_of_nonneg]
  · refine Finset.sum_congr rfl fun S _ => ?_
    rw [ENNReal.ofReal_mul (pow_nonneg ht0 _), ENNReal.ofReal_pow ht0, ENNReal.ofReal_pow (by linarith)]
  · intro S _
    exact mul_nonneg (pow_nonneg ht0 _) (pow_nonneg (by linarith) _)

/-- **distribution function of a uniform order statistic**: for `N` independent uniforms on `[0,1]`, `k : Fin N`
(0-based), `t ∈ [0,1]`: `P[U₍ₖ₎ ≤ t] = Σ_{j=k+1}^{N} C(N,j) t^j (1−t)^{N−j}` -/
theorem unif_orderStat_cdf (k : Fin N) {t : ℝ} (ht0 : 0 ≤ t) (ht1 : t ≤ 1) :
    (Measure.pi fun _ : Fin N => (volume : Measure ℝ).restrict (Icc 0 1)) {u | orderStat u k ≤ t}
      = ENNReal.ofReal (∑ j ∈ Finset.Icc (k.val + 1) N, (N.choose j : ℝ) * t ^ j * (1 - t) ^ (N - j)) := by
  simp_rw [orderStat_le_iff]
  exact unif_count_ge (k.val + 1) ht0 ht1

/-- the polynomial is the binomial tail `tail N m t = P[Bin(N,t) ≥ m]` of `ClopperPearson.lean` -/
theorem binomTail_eq_tail (N m : ℕ) (t : ℝ) : binomTail N m t = tail N m t := by
  rw [Opda.BetaBinomP.tail_eq_sum]
  unfold binomTail
  refine Finset.sum_congr ?_ fun _ _ => rfl
  ext j; simp only [Finset.mem_Icc, Finset.mem_Ico]; omega

/-- … i.e. the Beta(k+1, N−k) distribution function `G (k+1) (N−k)` of `BetaCheck.lean` (C15) -/
theorem binomTail_eq_G (k : Fin N) (t : ℝ) : binomTail N (k.val + 1) t = G (k.val + 1) (N - k.val) t := by
  rw [binomTail_eq_tail]
  unfold G
  have : k.val + 1 + (N - k.val) - 1 = N := by have := k.isLt; omega
  rw [this]

/-- **a uniform order statistic is Beta distributed**: `P[U₍ₖ₎ ≤ t] = G (k+1) (N−k) t`, the Beta(k+1, N−k)
distribution function (0-based `k`; 1-based: the `i`-th smallest of `N` is Beta(i, N+1−i)) -/
theorem unif_orderStat_beta (k : Fin N) {t : ℝ} (ht0 : 0 ≤ t) (ht1 : t ≤ 1) :
    (Measure.pi fun _ : Fin N => (volume : Measure ℝ).restrict (Icc 0 1)) {u | orderStat u k ≤ t}
      = ENNReal.ofReal (G (k.val + 1) (N - k.val) t) := by
  rw [unif_orderStat_cdf k ht0 ht1, ← binomTail_eq_G]; rfl

/-- the Beta(k+1, N−k) distribution function as the integral of the normalised density
`betaNorm · s^k (1−s)^{N−1−k}`, `betaNorm (k+1) (N−k) = N·C(N−1,k) = 1/B(k+1, N−k)` -/
theorem G_eq_integral (k : Fin N) (t : ℝ) :
    G (k.val + 1) (N - k.val) t
      = ∫ s in (0:ℝ)..t, (Opda.BetaBinom.betaNorm (k.val + 1) (N - k.val) : ℝ) * (s ^ k.val * (1 - s) ^ (N - 1 - k.val)) := by
  have hb : 0 < N - k.val := by have := k.isLt; omega
  have h := mass_eq_integral (k.val + 1) (N - k.val) (Nat.succ_pos _) hb 0 t
  rw [G_zero _ _ (Nat.succ_pos _), sub_zero] at h
  rw [h]
  refine intervalIntegral.integral_congr fun s _ => ?_
  have e1 : k.val + 1 - 1 = k.val := by omega
  have e2 : N - k.val - 1 = N - 1 - k.val := by omega
  simp only [Opda.Hdi.g, e1, e2]

/-- the normalising constant in closed form: `1/B(k+1, N−k) = N·C(N−1,k)` -/
theorem betaNorm_orderStat (k : Fin N) :
    Opda.BetaBinom.betaNorm (k.val + 1) (N - k.val) = N * Nat.choose (N - 1) k.val := by
  rw [betaNorm_eq]
  have h1 : k.val + 1 + (N - k.val) - 1 = N := by have := k.isLt; omega
  have h2 : k.val + 1 + (N - k.val) - 2 = N - 1 := by have := k.isLt; omega
  rw [h1, h2, Nat.add_sub_cancel]

/-- **`P[U₍ₖ₎ ≤ t] = ∫₀ᵗ betaPDF(k+1, N−k)`** -/
theorem unif_orderStat_beta_integral (k : Fin N) {t : ℝ} (ht0 : 0 ≤ t) (ht1 : t ≤ 1) :
    (Measure.pi fun _ : Fin N => (volume : Measure ℝ).restrict (Icc 0 1)) {u | orderStat u k ≤ t}
      = ENNReal.ofReal (∫ s in (0:ℝ)..t,
          (Opda.BetaBinom.betaNorm (k.val + 1) (N - k.val) : ℝ) * (s ^ k.val * (1 - s) ^ (N - 1 - k.val))) := by
  rw [unif_orderStat_beta k ht0 ht1, G_eq_integral]

end unif

/-! ## any continuous distribution function: `F(Y₍ₖ₎)` is Beta distributed -/
section pit
variable {N : ℕ} {ν : Measure ℝ} [IsProbabilityMeasure ν]

theorem measurableSet_orderStat_le (k : Fin N) (t : ℝ) : MeasurableSet {u : Fin N → ℝ | orderStat u k ≤ t} := by
  simp_rw [orderStat_le_iff]
  exact measurableSet_le measurable_const
    (measurable_count (fun x => x ≤ t) (measurableSet_le measurable_id measurable_const))

/-- the law of `F(Y₍ₖ₎)` under `ν^{⊗N}` is the law of `U₍ₖ₎` under the uniform product measure -/
theorem cdf_orderStat_eq_unif (hF : Continuous (cdfOf ν)) (k : Fin N) (t : ℝ) :
    (Measure.pi fun _ : Fin N => ν) {y | cdfOf ν (orderStat y k) ≤ t}
      = (Measure.pi fun _ : Fin N => (volume : Measure ℝ).restrict (Icc 0 1)) {u | orderStat u k ≤ t} := by
  have hf : Measurable (fun (y : Fin N → ℝ) i => cdfOf ν (y i)) :=
    measurable_pi_lambda _ fun i => hF.measurable.comp (measurable_pi_apply i)
  have h := pit_pi hF N
  unfold unifPi at h
  rw [← h, Measure.map_apply hf (measurableSet_orderStat_le k t)]
  congr 1
  ext y
  simp only [Set.mem_ofPred_eq, Set.mem_preimage]
  rw [← orderStat_comp_mono (cdfOf_mono ν) y k]
  rfl

/-- **coverage of a simulated order statistic**: for `N` independent draws `Y` from a probability measure `ν` with
continuous distribution function `F`, `P[F(Y₍ₖ₎) ≤ t] = Σ_{j=k+1}^{N} C(N,j) t^j (1−t)^{N−j}` for `t ∈ [0,1]` -/
theorem orderStat_coverage_cdf (hF : Continuous (cdfOf ν)) (k : Fin N) {t : ℝ} (ht0 : 0 ≤ t) (ht1 : t ≤ 1) :
    (Measure.pi fun _ : Fin N => ν) {y | cdfOf ν (orderStat y k) ≤ t}
      = ENNReal.ofReal (∑ j ∈ Finset.Icc (k.val + 1) N, (N.choose j : ℝ) * t ^ j * (1 - t) ^ (N - j)) := by
  rw [cdf_orderStat_eq_unif hF, unif_orderStat_cdf k ht0 ht1]

/-- … `= G (k+1) (N−k) t`, the Beta(k+1, N−k) distribution function … -/
theorem orderStat_coverage_G (hF : Continuous (cdfOf ν)) (k : Fin N) {t : ℝ} (ht0 : 0 ≤ t) (ht1 : t ≤ 1) :
    (Measure.pi fun _ : Fin N => ν) {y | cdfOf ν (orderStat y k) ≤ t}
      = ENNReal.ofReal (G (k.val + 1) (N - k.val) t) := by
  rw [cdf_orderStat_eq_unif hF, unif_orderStat_beta k ht0 ht1]

/-- … `= ∫₀ᵗ betaPDF(k+1, N−k)`: **`F(Y₍ₖ₎) ∼ Beta(k+1, N−k)`** -/
theorem orderStat_coverage_beta (hF : Continuous (cdfOf ν)) (k : Fin N) {t : ℝ} (ht0 : 0 ≤ t) (ht1 : t ≤ 1) :
    (Measure.pi fun _ : Fin N => ν) {y | cdfOf ν (orderStat y k) ≤ t}
      = ENNReal.ofReal (∫ s in (0:ℝ)..t,
          (Opda.BetaBinom.betaNorm (k.val + 1) (N - k.val) : ℝ) * (s ^ k.val * (1 - s) ^ (N - 1 - k.val))) := by
  rw [cdf_orderStat_eq_unif hF, unif_orderStat_beta_integral k ht0 ht1]

/-- **a critical value between two order statistics**: if `Y₍ₖ₎ ≤ c(Y) ≤ Y₍ₖ'₎` for every sample (e.g. a linear
interpolation between adjacent order statistics, as `np.quantile` returns), then the distribution function of its
coverage `F(c(Y))` lies between those of Beta(k'+1, N−k') and Beta(k+1, N−k) -/
theorem coverage_between_betas (hF : Continuous (cdfOf ν)) (k k' : Fin N) (c : (Fin N → ℝ) → ℝ)
    (hc : ∀ y, orderStat y k ≤ c y ∧ c y ≤ orderStat y k') {t : ℝ} (ht0 : 0 ≤ t) (ht1 : t ≤ 1) :
    ENNReal.ofReal (G (k'.val + 1) (N - k'.val) t) ≤ (Measure.pi fun _ : Fin N => ν) {y | cdfOf ν (c y) ≤ t}
      ∧ (Measure.pi fun _ : Fin N => ν) {y | cdfOf ν (c y) ≤ t} ≤ ENNReal.ofReal (G (k.val + 1) (N - k.val) t) := by
  constructor
  · rw [← orderStat_coverage_G hF k' ht0 ht1]
    exact measure_mono fun y hy => (show cdfOf ν (c y) ≤ t from le_trans (cdfOf_mono ν (hc y).2) hy)
  · rw [← orderStat_coverage_G hF k ht0 ht1]
    exact measure_mono fun y hy => (show cdfOf ν (orderStat y k) ≤ t from le_trans (cdfOf_mono ν (hc y).1) hy)

/-- a linear interpolation `a + λ (b − a)`, `λ ∈ [0,1]`, lies between `a ≤ b` -/
theorem lerp_between {a b lam : ℝ} (hab : a ≤ b) (h0 : 0 ≤ lam) (h1 : lam ≤ 1) :
    a ≤ a + lam * (b - a) ∧ a + lam * (b - a) ≤ b := by
  constructor <;> nlinarith [mul_nonneg h0 (sub_nonneg.mpr hab), mul_nonneg (sub_nonneg.mpr h1) (sub_nonneg.mpr hab)]

/-- the same for the interpolated sample quantile `Y₍ₖ₎ + λ (Y₍ₖ'₎ − Y₍ₖ₎)`, `k ≤ k'`, `λ ∈ [0,1]` (the value
`np.quantile(·, q)` returns with `k = ⌊q(N−1)⌋`, `k' = k+1`, `λ = q(N−1) − k`, 0-based) -/
theorem interpolated_quantile_coverage (hF : Continuous (cdfOf ν)) (k k' : Fin N) (hkk : k ≤ k') {lam : ℝ}
    (h0 : 0 ≤ lam) (h1 : lam ≤ 1) {t : ℝ} (ht0 : 0 ≤ t) (ht1 : t ≤ 1) :
    ENNReal.ofReal (G (k'.val + 1) (N - k'.val) t)
        ≤ (Measure.pi fun _ : Fin N => ν) {y | cdfOf ν (orderStat y k + lam * (orderStat y k' - orderStat y k)) ≤ t}
      ∧ (Measure.pi fun _ : Fin N => ν) {y | cdfOf ν (orderStat y k + lam * (orderStat y k' - orderStat y k)) ≤ t}
        ≤ ENNReal.ofReal (G (k.val + 1) (N - k.val) t) :=
  coverage_between_betas hF k k' _ (fun y => lerp_between (orderStat_mono y hkk) h0 h1) ht0 ht1

end pit

end Opda.OrderStatBeta
