import OpdaModel.Quadratic
import OpdaProofs.RealInst
import Mathlib.Tactic

/-! C09 (noiseless class): reflection duality, by unfolding the polymorphic model at `ℝ`. -/
namespace Opda.Quad
open Opda Opda.Num

theorem clip_neg (x lo hi : ℝ) (h : lo ≤ hi) : clip (-x) (-hi) (-lo) = -clip x lo hi := by
  unfold clip
  by_cases h1 : x < lo
  · have h2 : ¬ (-x < -hi) := by push Not; linarith
    have h3 : -lo < -x := by linarith
    simp [h1, h2, h3]
  · by_cases h2 : hi < x
    · have : -x < -hi := by linarith
      simp [h1, h2, this]
    · have h3 : ¬ (-x < -hi) := by push Not; linarith [not_lt.mp h2]
      have h4 : ¬ (-lo < -x) := by push Not; linarith [not_lt.mp h1]
      simp [h1, h2, h3, h4]

theorem clip_mem (x lo hi : ℝ) (h : lo ≤ hi) : lo ≤ clip x lo hi ∧ clip x lo hi ≤ hi := by
  unfold clip
  split_ifs with h1 h2
  · exact ⟨le_refl _, h⟩
  · exact ⟨h, le_refl _⟩
  · exact ⟨not_lt.mp h1, not_lt.mp h2⟩

/-- `D.cdf(y) = 1 − D'.cdf(−y)` for `a < b` -/
theorem cdf_reflect (d : Params ℝ) (hab : d.a < d.b) (y : ℝ) :
    cdf d y = 1 - cdf (reflect d) (-y) := by
  have hne : d.a ≠ d.b := ne_of_lt hab
  have hne' : -d.b ≠ -d.a := by intro h; exact hne (by linarith)
  unfold cdf reflect
  have h1 : Num.eq d.a d.b = false := by
    rw [Bool.eq_false_iff]; intro h; exact hne ((num_eq _ _).mp h)
  have h2 : Num.eq (-d.b) (-d.a) = false := by
    rw [Bool.eq_false_iff]; intro h; exact hne' ((num_eq _ _).mp h)
  simp only [h1, h2, Bool.false_eq_true, if_false]
  rw [clip_neg y d.a d.b hab.le]
  cases hc : d.convex <;> simp <;> (congr 1; ring)

/-- `D.ppf(q) = −D'.ppf(1 − q)` -/
theorem ppf_reflect (d : Params ℝ) (q : ℝ) (hq0 : 0 ≤ q) (hq1 : q ≤ 1) :
    ppf d q = - ppf (reflect d) (1 - q) := by
  have hc : clip q (0:ℝ) 1 = q := by
    unfold clip; rw [if_neg (not_lt.mpr hq0), if_neg (not_lt.mpr hq1)]
  have hc' : clip (1 - q) (0:ℝ) 1 = 1 - q := by
    unfold clip; rw [if_neg (by push Not; linarith), if_neg (by push Not; linarith)]
  unfold ppf reflect
  simp only [num_n, Nat.cast_zero, Nat.cast_one, hc, hc']
  cases hcv : d.convex <;> simp <;> ring

#print axioms cdf_reflect
#print axioms ppf_reflect
end Opda.Quad
