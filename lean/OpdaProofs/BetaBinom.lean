import OpdaModel.BetaBinom
import OpdaProofs.ClopperPearson
import Mathlib.Data.Nat.Choose.Sum
import Mathlib.Data.Rat.Cast.Order
import Mathlib.Tactic

/-!
# The exact-ℚ binomial tail of `OpdaModel/BetaBinom.lean` is the real binomial tail (C15, C16)

* `tailNum_eq`, `tail_eq_sum`, `pmf_eq`: the executable Horner pass computes
  `Σ_{j=k}^{n} C(n,j) a^j b^{n−j}`, and `Opda.CP.tail` (defined by conditioning on one trial) is
  `Σ_{j≥k} C(n,j) p^j (1−p)^{n−j}`;
* `tailQ_cast`: for a rational `p ∈ [0,1]` the model value, cast to `ℝ`, is `tail n k p`;
* `cpCheck_sound`: the Clopper–Pearson table checker implies the hypotheses of `cp_coverage`, hence
  coverage `≥ 1 − α − 2δ` for **every** real `p ∈ [0,1]`.
-/
namespace Opda.BetaBinomP
open Opda.BetaBinom Opda.CP

theorem chooseLoop_eq (n : ℕ) : ∀ m j, chooseLoop n m j (Nat.choose n j) = Nat.choose n (j + m) := by
  intro m
  induction m with
  | zero => intro j; rfl
  | succ m ih =>
    intro j
    simp only [chooseLoop]
    have h : Nat.choose n j * (n - j) / (j + 1) = Nat.choose n (j + 1) := by
      apply Nat.div_eq_of_eq_mul_left (Nat.succ_pos j)
      rw [Nat.choose_succ_right_eq]
    rw [h, ih (j + 1)]
    congr 1; omega

theorem choose_eq (n k : ℕ) : BetaBinom.choose n k = Nat.choose n k := by
  unfold BetaBinom.choose
  have := chooseLoop_eq n k 0
  simpa using this

theorem tailLoop_eq (n a b : ℕ) : ∀ m j acc,
    tailLoop n a b m j (Nat.choose n j) (a ^ j) acc
      = acc * b ^ m + ∑ i ∈ Finset.range m, Nat.choose n (j + i) * a ^ (j + i) * b ^ (m - 1 - i) := by
  intro m
  induction m with
  | zero => intro j acc; simp [tailLoop]
  | succ m ih =>
    intro j acc
    simp only [tailLoop]
    have h : Nat.choose n j * (n - j) / (j + 1) = Nat.choose n (j + 1) := by
      apply Nat.div_eq_of_eq_mul_left (Nat.succ_pos j)
      rw [Nat.choose_succ_right_eq]
    rw [h, ← pow_succ, ih (j + 1)]
    rw [Finset.sum_range_succ']
    have : ∀ i ∈ Finset.range m,
        Nat.choose n (j + 1 + i) * a ^ (j + 1 + i) * b ^ (m - 1 - i)
          = Nat.choose n (j + (i + 1)) * a ^ (j + (i + 1)) * b ^ (m + 1 - 1 - (i + 1)) := by
      intro i _
      have e1 : j + 1 + i = j + (i + 1) := by omega
      have e2 : m - 1 - i = m + 1 - 1 - (i + 1) := by omega
      rw [e1, e2]
    rw [Finset.sum_congr rfl this]
    simp only [Nat.add_zero, Nat.add_sub_cancel, Nat.sub_zero]
    ring

/-- the executable `tailNum` is the binomial-tail numerator -/
theorem tailNum_eq (n k a b : ℕ) :
    tailNum n k a b = ∑ j ∈ Finset.Ico k (n + 1), Nat.choose n j * a ^ j * b ^ (n - j) := by
  unfold tailNum
  split_ifs with hk
  · rw [choose_eq, tailLoop_eq, Finset.sum_Ico_eq_sum_range]
    simp only [zero_mul, zero_add]
    apply Finset.sum_congr rfl
    intro i hi
    have : i < n + 1 - k := Finset.mem_range.mp hi
    have e : n + 1 - k - 1 - i = n - (k + i) := by omega
    rw [e]
  · rw [Finset.Ico_eq_empty (by omega)]; simp

theorem pmf_zero_zero (p : ℝ) : pmf 0 0 p = 1 := by simp [pmf, tail]
theorem pmf_zero_succ (k : ℕ) (p : ℝ) : pmf 0 (k+1) p = 0 := by simp [pmf, tail]
theorem pmf_succ_zero (n : ℕ) (p : ℝ) : pmf (n+1) 0 p = (1 - p) * pmf n 0 p := by
  simp only [pmf, tail, tail_zero]; ring
theorem pmf_succ_succ (n k : ℕ) (p : ℝ) :
    pmf (n+1) (k+1) p = p * pmf n k p + (1 - p) * pmf n (k+1) p := by
  simp only [pmf, tail]; ring

/-- closed form of the binomial probability mass -/
theorem pmf_eq (n k : ℕ) (p : ℝ) : pmf n k p = (Nat.choose n k : ℝ) * p ^ k * (1 - p) ^ (n - k) := by
  induction n generalizing k with
  | zero => cases k with
    | zero => simp [pmf_zero_zero]
    | succ k => simp [pmf_zero_succ]
  | succ n ih => cases k with
    | zero => rw [pmf_succ_zero, ih]; simp; ring
    | succ k =>
      rw [pmf_succ_succ, ih, ih, Nat.choose_succ_succ]
      rcases Nat.lt_or_ge k n with h | h
      · have e1 : n + 1 - (k + 1) = (n - (k + 1)) + 1 := by omega
        have e2 : n - k = (n - (k + 1)) + 1 := by omega
        rw [e1, e2]; push_cast; ring
      · rw [Nat.choose_eq_zero_of_lt (by omega : n < k + 1)]
        have e1 : n + 1 - (k + 1) = n - k := by omega
        rw [e1]; push_cast; ring

/-- **the binomial tail is the binomial sum** -/
theorem tail_eq_sum (n k : ℕ) (p : ℝ) :
    tail n k p = ∑ j ∈ Finset.Ico k (n + 1), (Nat.choose n j : ℝ) * p ^ j * (1 - p) ^ (n - j) := by
  rcases Nat.lt_or_ge n k with h | h
  · rw [tail_of_gt n k p h, Finset.Ico_eq_empty (by omega)]; simp
  · have := sum_pmf_Ico n k (n + 1) p (by omega)
    rw [tail_of_gt n (n + 1) p (by omega), sub_zero] at this
    rw [← this]
    exact Finset.sum_congr rfl fun j _ => pmf_eq n j p


/-- numerator / complement / denominator of a rational in `[0,1]` -/
theorem rat_parts (p : ℚ) (h0 : 0 ≤ p) (h1 : p ≤ 1) :
    ((p.num.toNat : ℕ) : ℝ) = (p : ℝ) * (p.den : ℝ)
      ∧ (((p.den - p.num.toNat : ℕ)) : ℝ) = (1 - (p : ℝ)) * (p.den : ℝ) := by
  have hd : (0 : ℝ) < (p.den : ℝ) := by exact_mod_cast p.den_pos
  have hnum : 0 ≤ p.num := Rat.num_nonneg.mpr h0
  have hcast : ((p.num.toNat : ℕ) : ℝ) = ((p.num : ℤ) : ℝ) := by
    have : ((p.num.toNat : ℕ) : ℤ) = p.num := Int.toNat_of_nonneg hnum
    exact_mod_cast congrArg (fun z : ℤ => (z : ℝ)) this
  have hp : (p : ℝ) = ((p.num : ℤ) : ℝ) / (p.den : ℝ) := by
    rw [Rat.cast_def]
  have h1' : ((p.num : ℤ) : ℝ) = (p : ℝ) * (p.den : ℝ) := by
    rw [hp]; field_simp
  have hle : p.num.toNat ≤ p.den := by
    have : ((p.num.toNat : ℕ) : ℝ) ≤ (p.den : ℝ) := by
      rw [hcast, h1']
      have : (p : ℝ) ≤ 1 := by exact_mod_cast h1
      nlinarith
    exact_mod_cast this
  refine ⟨by rw [hcast, h1'], ?_⟩
  rw [Nat.cast_sub hle, hcast, h1']; ring

/-- **the exact-ℚ model is the real binomial tail** -/
theorem tailQ_cast (n k : ℕ) (p : ℚ) (h0 : 0 ≤ p) (h1 : p ≤ 1) :
    ((tailQ n k p : ℚ) : ℝ) = tail n k (p : ℝ) := by
  obtain ⟨ha, hb⟩ := rat_parts p h0 h1
  have hd : (0 : ℝ) < (p.den : ℝ) := by exact_mod_cast p.den_pos
  unfold tailQ
  simp only []
  rw [Rat.cast_div, Rat.cast_natCast, Rat.cast_natCast, tailNum_eq, tail_eq_sum]
  push_cast
  rw [Finset.sum_div]
  apply Finset.sum_congr rfl
  intro j hj
  have hjn : j ≤ n := by have := (Finset.mem_Ico.mp hj).2; omega
  rw [ha, hb]
  have : (p.den : ℝ) ^ n = (p.den : ℝ) ^ j * (p.den : ℝ) ^ (n - j) := by
    rw [← pow_add]; congr 1; omega
  rw [this, mul_pow, mul_pow]
  field_simp


theorem in01UpTo_spec (n : ℕ) (l : List ℚ) (h : in01UpTo n l = true) :
    ∀ k, k ≤ n → 0 ≤ l.getD k 0 ∧ l.getD k 0 ≤ 1 := by
  intro k hk
  unfold in01UpTo at h
  rw [List.all_eq_true] at h
  have := h k (List.mem_range.mpr (by omega))
  simpa using this

theorem monoUpTo_spec (n : ℕ) (l : List ℚ) (h : monoUpTo n l = true) :
    ∀ j k, j ≤ k → k ≤ n → l.getD j 0 ≤ l.getD k 0 := by
  unfold monoUpTo at h
  rw [List.all_eq_true] at h
  intro j k hjk
  induction k, hjk using Nat.le_induction with
  | base => intro _; exact le_rfl
  | succ k hjk ih =>
    intro hk
    have h1 := h k (List.mem_range.mpr (by omega))
    have h1' : l.getD k 0 ≤ l.getD (k+1) 0 := by simpa using h1
    exact (ih (by omega)).trans h1'

theorem tailsOK_spec (n : ℕ) (lo hi : List ℚ) (r : ℚ) (h : tailsOK n lo hi r = true) :
    ∀ k, k < n → tailQ n (k+1) (lo.getD (k+1) 0) ≤ r ∧ 1 - tailQ n (k+1) (hi.getD k 0) ≤ r := by
  intro k hk
  unfold tailsOK at h
  rw [List.all_eq_true] at h
  have := h k (List.mem_range.mpr hk)
  simpa using this

/-- **soundness of the Clopper–Pearson checker**: if `cpCheck` accepts a table, the table covers the true
proportion with probability at least `1 − α − 2δ` for **every** `p ∈ [0,1]`. -/
theorem cpCheck_sound (n : ℕ) (lo hi : List ℚ) (α δ : ℚ) (h : cpCheck n lo hi α δ = true)
    (p : ℝ) (hp0 : 0 ≤ p) (hp1 : p ≤ 1) :
    1 - (α : ℝ) - 2 * (δ : ℝ) ≤ ∑ k ∈ Finset.range (n+1),
      (if ((lo.getD k 0 : ℚ) : ℝ) ≤ p ∧ p ≤ ((hi.getD k 0 : ℚ) : ℝ) then pmf n k p else 0) := by
  unfold cpCheck at h
  simp only [Bool.and_eq_true, decide_eq_true_eq] at h
  obtain ⟨⟨⟨⟨⟨⟨⟨h1, h2⟩, h3⟩, h4⟩, h5⟩, h6⟩, h7⟩, h8⟩ := h
  have l01 := in01UpTo_spec n lo h1
  have u01 := in01UpTo_spec n hi h2
  have lm := monoUpTo_spec n lo h3
  have um := monoUpTo_spec n hi h4
  have tk := tailsOK_spec n lo hi _ h8
  have cast_le : ∀ a b : ℚ, a ≤ b → (a : ℝ) ≤ (b : ℝ) := fun a b hab => by exact_mod_cast hab
  have hr : ((α / 2 + δ : ℚ) : ℝ) = (α : ℝ) / 2 + (δ : ℝ) := by push_cast; ring
  apply cp_coverage n (fun k => ((lo.getD k 0 : ℚ) : ℝ)) (fun k => ((hi.getD k 0 : ℚ) : ℝ)) (α : ℝ) (δ : ℝ)
  · intro j k hjk hk; exact cast_le _ _ (lm j k hjk hk)
  · intro j k hjk hk; exact cast_le _ _ (um j k hjk hk)
  · intro k hk
    exact ⟨by exact_mod_cast (l01 k hk).1, by exact_mod_cast (l01 k hk).2⟩
  · intro k hk
    exact ⟨by exact_mod_cast (u01 k hk).1, by exact_mod_cast (u01 k hk).2⟩
  · exact_mod_cast h5
  · exact_mod_cast h6
  · intro k hk1 hkn
    obtain ⟨k', rfl⟩ : ∃ k', k = k' + 1 := ⟨k - 1, by omega⟩
    have := (tk k' (by omega)).1
    rw [← tailQ_cast n (k'+1) _ (l01 (k'+1) hkn).1 (l01 (k'+1) hkn).2, ← hr]
    exact cast_le _ _ this
  · intro k hk
    have := (tk k hk).2
    rw [← tailQ_cast n (k+1) _ (u01 k (by omega)).1 (u01 k (by omega)).2, ← hr]
    have := cast_le _ _ this
    push_cast at this ⊢
    linarith
  · rw [← hr]; exact_mod_cast h7
  · exact hp0
  · exact hp1

#print axioms cpCheck_sound
end Opda.BetaBinomP
