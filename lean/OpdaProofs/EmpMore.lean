import OpdaProofs.Emp
/-!
Consequences of the Galois law for the empirical model: `ppf` is bounded below by `a`, monotone, and is a left
inverse of `cdf` at atoms of positive weight; `cdf` is monotone.
-/
namespace Opda.Emp
variable {E α : Type} [LinearOrder E] [OrderBot E] [OrderTop E]
  [Field α] [LinearOrder α] [IsStrictOrderedRing α]

theorem le_ppf (a : E) (supp : List (E × α)) (q : α) : a ≤ ppf a supp q := by
  unfold ppf
  simp only
  split_ifs with h
  · exact le_refl a
  · exact not_lt.mp h

/-- `ppf` is non-decreasing on `(0, 1]`. -/
theorem ppf_mono (a b : E) (obs : List (E × α)) (hn : NonNeg obs) (htot : 0 < total obs)
    (q q' : α) (hq0 : 0 < q) (hqq : q ≤ q') (hq1 : q' ≤ 1) :
    ppf a (support ⊥ ⊤ a b obs) q ≤ ppf a (support ⊥ ⊤ a b obs) q' := by
  have hq'0 : 0 < q' := lt_of_lt_of_le hq0 hqq
  have h := (ppf_le_iff a b (ppf a (support ⊥ ⊤ a b obs) q') obs hn htot q' hq'0 hq1 (le_ppf _ _ _)).mp (le_refl _)
  exact (ppf_le_iff a b _ obs hn htot q hq0 (le_trans hqq hq1) (le_ppf _ _ _)).mpr (le_trans hqq h)

theorem weightLE_mono (l : List (E × α)) (hn : NonNeg l) (y y' : E) (h : y ≤ y') :
    weightLE y l ≤ weightLE y' l := by
  induction l with
  | nil => simp [weightLE]
  | cons p rest ih =>
    obtain ⟨u, x⟩ := p
    have hx : 0 ≤ x := hn (u, x) (by simp)
    have hr : NonNeg rest := fun p hp => hn p (List.mem_cons_of_mem _ hp)
    have := ih hr
    simp only [weightLE]
    by_cases h1 : u ≤ y
    · have h2 : u ≤ y' := le_trans h1 h
      simp only [h1, h2, if_true]; linarith
    · by_cases h2 : u ≤ y'
      · simp only [h1, h2, if_true, if_false]; linarith
      · simp only [h1, h2, if_false]; linarith

/-- `cdf` is non-decreasing in its argument. -/
theorem cdf_mono (a b : E) (obs : List (E × α)) (hn : NonNeg obs) (htot : 0 < total obs) (y y' : E) (h : y ≤ y') :
    cdf (support ⊥ ⊤ a b obs) y ≤ cdf (support ⊥ ⊤ a b obs) y' := by
  rw [cdf_support, cdf_support]
  exact div_le_div_of_nonneg_right (weightLE_mono obs hn y y' h) (le_of_lt htot)

theorem weightLE_le_total (l : List (E × α)) (hn : NonNeg l) (y : E) : weightLE y l ≤ total l := by
  induction l with
  | nil => simp [weightLE, total]
  | cons p rest ih =>
    obtain ⟨u, x⟩ := p
    have hx : 0 ≤ x := hn (u, x) (by simp)
    have hr : NonNeg rest := fun p hp => hn p (List.mem_cons_of_mem _ hp)
    have := ih hr
    simp only [weightLE, total]
    split_ifs <;> linarith

/-- `0 ≤ cdf ≤ 1`. -/
theorem cdf_range (a b : E) (obs : List (E × α)) (hn : NonNeg obs) (htot : 0 < total obs) (y : E) :
    0 ≤ cdf (support ⊥ ⊤ a b obs) y ∧ cdf (support ⊥ ⊤ a b obs) y ≤ 1 := by
  rw [cdf_support]
  exact ⟨div_nonneg (weightLE_nonneg y obs hn) (le_of_lt htot),
    (div_le_one htot).mpr (weightLE_le_total obs hn y)⟩

/-- the cdf is 1 from the largest observation on, and 0 below the smallest. -/
theorem cdf_eq_one_of_all_le (a b : E) (obs : List (E × α)) (htot : 0 < total obs) (y : E)
    (h : ∀ p ∈ obs, p.1 ≤ y) : cdf (support ⊥ ⊤ a b obs) y = 1 := by
  rw [cdf_support]
  have : weightLE y obs = total obs := by
    induction obs with
    | nil => simp [weightLE, total]
    | cons p rest ih =>
      obtain ⟨u, x⟩ := p
      have hu : u ≤ y := h (u, x) (by simp)
      simp only [weightLE, total, hu, if_true]
      by_cases hrest : 0 < total rest
      · rw [ih hrest (fun p hp => h p (List.mem_cons_of_mem _ hp))]
      · -- the remaining weights may sum to anything; redo without the positivity hypothesis
        have hgen : ∀ l : List (E × α), (∀ p ∈ l, p.1 ≤ y) → weightLE y l = total l := by
          intro l hl
          induction l with
          | nil => simp [weightLE, total]
          | cons p' rest' ih' =>
            obtain ⟨u', x'⟩ := p'
            have hu' : u' ≤ y := hl (u', x') (by simp)
            simp only [weightLE, total, hu', if_true]
            rw [ih' (fun p hp => hl p (List.mem_cons_of_mem _ hp))]
        rw [hgen rest (fun p hp => h p (List.mem_cons_of_mem _ hp))]
  rw [this, div_self (ne_of_gt htot)]

theorem cdf_eq_zero_of_all_gt (a b : E) (obs : List (E × α)) (y : E)
    (h : ∀ p ∈ obs, y < p.1) : cdf (support ⊥ ⊤ a b obs) y = 0 := by
  rw [cdf_support, weightLE_eq_zero_of_all_gt y obs h, zero_div]

/-- **left inverse at atoms**: if `v` carries positive weight (more weight lies `≤ v` than `≤ y` for every `y < v`)
then `ppf (cdf v) = v`, provided `a ≤ v`. -/
theorem ppf_cdf_atom (a b v : E) (obs : List (E × α)) (hn : NonNeg obs) (htot : 0 < total obs) (hav : a ≤ v)
    (hpos : 0 < cdf (support ⊥ ⊤ a b obs) v)
    (hjump : ∀ y, y < v → cdf (support ⊥ ⊤ a b obs) y < cdf (support ⊥ ⊤ a b obs) v) :
    ppf a (support ⊥ ⊤ a b obs) (cdf (support ⊥ ⊤ a b obs) v) = v := by
  set q := cdf (support ⊥ ⊤ a b obs) v with hq
  have hq1 : q ≤ 1 := (cdf_range a b obs hn htot v).2
  apply le_antisymm
  · exact (ppf_le_iff a b v obs hn htot q hpos hq1 hav).mpr (le_refl _)
  · by_contra hlt
    have hlt' : ppf a (support ⊥ ⊤ a b obs) q < v := not_le.mp hlt
    have h1 := (ppf_le_iff a b _ obs hn htot q hpos hq1 (le_ppf a _ q)).mp (le_refl _)
    exact absurd h1 (not_le.mpr (hjump _ hlt'))

end Opda.Emp
