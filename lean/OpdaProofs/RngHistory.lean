import OpdaProofs.Rng

/-!
The C14 facts about the state machine: comparison with a fresh process, irrelevance of `n_jobs`,
isolation of explicit generators, freshness of returned arrays, reproducibility after `set_seed`,
and the two-call witnesses of finding F1.
-/
namespace Opda.Rng

/-! ## comparison with a fresh process -/

theorem not_mem_of_contains_false {κ : Type} [DecidableEq κ] {k : κ} {l : List κ} (h : l.contains k = false) :
    k ∉ l := by
  intro hm
  have : l.contains k = true := List.contains_iff_mem.mpr hm
  rw [h] at this; cases this

/-- in a state satisfying the invariant, a key that was never used by an ld call is not memoised -/
theorem ld_not_cached {s : State} (hs : Inv s) {n c : Nat} {k : Kind} {g : GenRef} {j : Nat}
    (h : Key.ld n c k g j ∉ s.ldCalls) : assoc (Key.ld n c k g j) s.cache = none :=
  assoc_eq_none_of_forall fun hd hm => h (hs.ldLogged n c k g j hd hm).1

/-- **one step against a fresh process.**  In any state satisfying the invariant, a call returns the same
value and leaves the generators, the global binding and the legacy state exactly as the same call does
in a new process whose generator objects are in the same states — for the `spec` policy always, for the
repository's policy provided the call does not repeat an earlier ld key. -/
theorem observe_fresh (P : Policy) (cost : Cost) {s : State} (hs : Inv s) (o : Op)
    (hno : P = .asCode → repeatsLdKey s o = false) :
    observe P cost s o = observe P cost (fresh s) o := by
  cases o with
  | setSeed z => rfl
  | newGen z => rfl
  | setGlobal r =>
    simp only [observe, step, fresh]
    cases assoc r s.gens <;> rfl
  | sample cls dist count gen =>
    simp only [observe, step, fresh]
    cases assoc (gen.getD s.global) s.gens <;> rfl
  | fit args gen =>
    simp only [observe, step, fresh]
    cases assoc (gen.getD s.global) s.gens <;> rfl
  | mutateReturned i v =>
    simp only [observe, step, fresh, nth?]
    cases nth? i s.returned <;> rfl
  | bands m n conf ys gen njobs =>
    cases m with
    | det dm =>
      simp only [observe, step, fresh, assoc]
      cases hr : assoc (gen.getD s.global) s.gens with
      | none => rfl
      | some g =>
        cases hc : assoc (Key.det dm n conf) s.cache with
        | none => rfl
        | some h =>
          have := hs.detCell dm n conf h (mem_of_assoc hc)
          simp [ret, memo, State.view, this]
    | ld kind =>
      have hmiss : (if P = Policy.asCode then
          assoc (Key.ld n conf kind (gen.getD s.global) (njobs.getD s.cpu)) s.cache else none) = none := by
        by_cases hP : P = .asCode
        · rw [if_pos hP]
          have h1 := hno hP
          simp only [repeatsLdKey, ldKey] at h1
          exact ld_not_cached hs (not_mem_of_contains_false h1)
        · rw [if_neg hP]
      simp only [observe, step, fresh, assoc, hmiss]
      cases hr : assoc (gen.getD s.global) s.gens with
      | none => rfl
      | some g => simp [ret, memo, State.view]

/-! ## `n_jobs` -/

theorem njobs_irrelevant_det (P : Policy) (cost : Cost) (s : State) (dm : DetMethod) (n conf ys : Nat)
    (gen : Option GenRef) (j j' : Option Nat) :
    step P cost s (.bands (.det dm) n conf ys gen j) = step P cost s (.bands (.det dm) n conf ys gen j') := rfl

/-- when neither key is memoised, the two calls differ only in the key they memoise -/
theorem njobs_irrelevant_miss (P : Policy) (cost : Cost) (s : State) (kind : Kind) (n conf ys : Nat)
    (gen : Option GenRef) (j j' : Option Nat)
    (h1 : P = .asCode → assoc (Key.ld n conf kind (gen.getD s.global) (j.getD s.cpu)) s.cache = none)
    (h2 : P = .asCode → assoc (Key.ld n conf kind (gen.getD s.global) (j'.getD s.cpu)) s.cache = none) :
    observe P cost s (.bands (.ld kind) n conf ys gen j) = observe P cost s (.bands (.ld kind) n conf ys gen j') := by
  have m1 : (if P = Policy.asCode then
      assoc (Key.ld n conf kind (gen.getD s.global) (j.getD s.cpu)) s.cache else none) = none := by
    by_cases hP : P = .asCode
    · rw [if_pos hP]; exact h1 hP
    · rw [if_neg hP]
  have m2 : (if P = Policy.asCode then
      assoc (Key.ld n conf kind (gen.getD s.global) (j'.getD s.cpu)) s.cache else none) = none := by
    by_cases hP : P = .asCode
    · rw [if_pos hP]; exact h2 hP
    · rw [if_neg hP]
  simp only [observe, step, m1, m2]
  cases assoc (gen.getD s.global) s.gens with
  | none => rfl
  | some g => simp [ret, memo, State.view]

/-! ## explicit generators -/

theorem assoc_update_self {κ β : Type} [DecidableEq κ] (k : κ) (v : β) (l : List (κ × β)) :
    assoc k (update k v l) = (assoc k l).map fun _ => v := by
  induction l with
  | nil => rfl
  | cons p rest ih =>
    obtain ⟨a, b⟩ := p
    simp only [update, assoc]
    by_cases h1 : k = a
    · subst h1; simp
    · simp [h1, ih]

/-- what a call leaves alone when it is given an explicit generator other than the global object:
the global binding, the state of the global object, numpy's legacy state -/
def Untouched (s t : State) : Prop :=
  t.global = s.global ∧ assoc s.global t.gens = assoc s.global s.gens ∧ t.legacy = s.legacy ∧ t.cpu = s.cpu

theorem untouched_step (P : Policy) (cost : Cost) {s : State} (hs : Inv s) (o : Op)
    (ho : o.avoids s.global = true) : Untouched s (step P cost s o).1 := by
  have hgl : s.global ≠ s.nextRef := Nat.ne_of_lt hs.globalBound
  cases o with
  | setSeed z => simp [Op.avoids] at ho
  | setGlobal r => simp [Op.avoids] at ho
  | newGen z => exact ⟨rfl, assoc_cons_ne _ _ hgl, rfl, rfl⟩
  | mutateReturned i v =>
    simp only [step]
    cases nth? i s.returned <;> exact ⟨rfl, rfl, rfl, rfl⟩
  | sample cls dist count gen =>
    cases gen with
    | none => simp [Op.avoids] at ho
    | some r =>
      have hne : s.global ≠ r := by
        intro e; simp [Op.avoids, e] at ho
      simp only [step, Option.getD_some]
      cases assoc r s.gens with
      | none => exact ⟨rfl, rfl, rfl, rfl⟩
      | some g => exact ⟨rfl, assoc_update_ne _ _ hne, rfl, rfl⟩
  | fit args gen =>
    cases gen with
    | none => simp [Op.avoids] at ho
    | some r =>
      have hne : s.global ≠ r := by
        intro e; simp [Op.avoids, e] at ho
      simp only [step, Option.getD_some]
      cases assoc r s.gens with
      | none => exact ⟨rfl, rfl, rfl, rfl⟩
      | some g => exact ⟨rfl, assoc_update_ne _ _ hne, rfl, rfl⟩
  | bands m n conf ys gen njobs =>
    cases gen with
    | none => simp [Op.avoids] at ho
    | some r =>
      have hne : s.global ≠ r := by
        intro e; simp [Op.avoids, e] at ho
      cases m with
      | det dm =>
        simp only [step, Option.getD_some]
        cases assoc r s.gens with
        | none => exact ⟨rfl, rfl, rfl, rfl⟩
        | some g =>
          cases assoc (Key.det dm n conf) s.cache <;> exact ⟨rfl, rfl, rfl, rfl⟩
      | ld kind =>
        simp only [step, Option.getD_some]
        cases assoc r s.gens with
        | none => exact ⟨rfl, rfl, rfl, rfl⟩
        | some g =>
          cases (if P = Policy.asCode then assoc (Key.ld n conf kind r (njobs.getD s.cpu)) s.cache else none) with
          | some h => exact ⟨rfl, rfl, rfl, rfl⟩
          | none => exact ⟨rfl, assoc_update_ne _ _ hne, rfl, rfl⟩

theorem untouched_exec (P : Policy) (cost : Cost) {s : State} (hs : Inv s) (h : List Op)
    (hh : ∀ o ∈ h, o.avoids s.global = true) : Untouched s (exec P cost s h) := by
  induction h generalizing s with
  | nil => exact ⟨rfl, rfl, rfl, rfl⟩
  | cons o os ih =>
    obtain ⟨g1, g2, g3, g4⟩ := untouched_step P cost hs o (hh o List.mem_cons_self)
    have := ih (hs.step P cost o) (by
      intro o' ho'; rw [g1]; exact hh o' (List.mem_cons_of_mem _ ho'))
    obtain ⟨k1, k2, k3, k4⟩ := this
    refine ⟨k1.trans g1, ?_, k3.trans g3, k4.trans g4⟩
    show assoc s.global (exec P cost (step P cost s o).1 os).gens = _
    rw [g1] at k2
    rw [k2, g2]

/-- no entry point touches numpy's legacy state or the cpu count -/
theorem legacy_step (P : Policy) (cost : Cost) (s : State) (o : Op) :
    (step P cost s o).1.legacy = s.legacy ∧ (step P cost s o).1.cpu = s.cpu := by
  cases o with
  | setSeed z => exact ⟨rfl, rfl⟩
  | newGen z => exact ⟨rfl, rfl⟩
  | setGlobal r => simp only [step]; cases assoc r s.gens <;> exact ⟨rfl, rfl⟩
  | mutateReturned i v => simp only [step]; cases nth? i s.returned <;> exact ⟨rfl, rfl⟩
  | sample cls dist count gen =>
    simp only [step]; cases assoc (gen.getD s.global) s.gens <;> exact ⟨rfl, rfl⟩
  | fit args gen =>
    simp only [step]; cases assoc (gen.getD s.global) s.gens <;> exact ⟨rfl, rfl⟩
  | bands m n conf ys gen njobs =>
    cases m with
    | det dm =>
      simp only [step]
      cases assoc (gen.getD s.global) s.gens with
      | none => exact ⟨rfl, rfl⟩
      | some g => cases assoc (Key.det dm n conf) s.cache <;> exact ⟨rfl, rfl⟩
    | ld kind =>
      simp only [step]
      cases assoc (gen.getD s.global) s.gens with
      | none => exact ⟨rfl, rfl⟩
      | some g =>
        cases (if P = Policy.asCode then
          assoc (Key.ld n conf kind (gen.getD s.global) (njobs.getD s.cpu)) s.cache else none) <;> exact ⟨rfl, rfl⟩

theorem legacy_exec (P : Policy) (cost : Cost) (s : State) (h : List Op) :
    (exec P cost s h).legacy = s.legacy ∧ (exec P cost s h).cpu = s.cpu := by
  induction h generalizing s with
  | nil => exact ⟨rfl, rfl⟩
  | cons o os ih =>
    obtain ⟨a, b⟩ := legacy_step P cost s o
    obtain ⟨c, d⟩ := ih (step P cost s o).1
    exact ⟨c.trans a, d.trans b⟩

/-! ## returned arrays are copies -/

/-- two states that differ at most in the contents of arrays handed to callers -/
structure SameOffReturned (s t : State) : Prop where
  view : s.view = t.view
  cache : s.cache = t.cache
  returned : s.returned = t.returned
  nextHandle : s.nextHandle = t.nextHandle
  ldCalls : s.ldCalls = t.ldCalls
  heap : ∀ h, h ∉ s.returned → assoc h s.heap = assoc h t.heap

theorem SameOffReturned.refl (s : State) : SameOffReturned s s :=
  ⟨rfl, rfl, rfl, rfl, rfl, fun _ _ => rfl⟩

/-- overwriting a returned array leads to a state of this kind -/
theorem sameOffReturned_mutate (P : Policy) (cost : Cost) (s : State) (i v : Nat) :
    SameOffReturned s (step P cost s (.mutateReturned i v)).1 := by
  simp only [step]
  cases hi : nth? i s.returned with
  | none => exact SameOffReturned.refl s
  | some h' =>
    refine ⟨rfl, rfl, rfl, rfl, rfl, ?_⟩
    intro h hn
    have hne : h ≠ h' := fun e => hn (e ▸ mem_of_nth? hi)
    exact (assoc_update_ne _ _ hne).symm

private theorem state_ext {s t : State} (h1 : s.view = t.view) (h2 : s.cache = t.cache)
    (h3 : s.returned = t.returned) (h4 : s.nextHandle = t.nextHandle) (h5 : s.ldCalls = t.ldCalls)
    (h6 : s.heap = t.heap) : s = t := by
  cases s; cases t
  simp only [State.view, RngView.mk.injEq] at h1
  simp_all

/-- a step from two such states produces the same output and two such states again -/
theorem SameOffReturned.step {s t : State} (hst : SameOffReturned s t) (hs : Inv s) (P : Policy) (cost : Cost)
    (o : Op) : (step P cost s o).2 = (step P cost t o).2
      ∧ SameOffReturned (step P cost s o).1 (step P cost t o).1 := by
  obtain ⟨hv, hc, hr, hn, hl, hh⟩ := hst
  -- make the shared fields syntactically equal
  obtain ⟨sg, sgens, snr, sheap, snh, scache, sret, sld, sleg, scpu⟩ := s
  obtain ⟨tg, tgens, tnr, theap, tnh, tcache, tret, tld, tleg, tcpu⟩ := t
  simp only [State.view, RngView.mk.injEq] at hv
  obtain ⟨rfl, rfl, rfl, rfl, rfl⟩ := hv
  simp only at hc hr hn hl hh
  subst hc hr hn hl
  have cons_ok : ∀ (R : List Handle) (v : Value),
      (∀ h, h ∉ R → h ∉ sret) → ∀ h, h ∉ R →
        assoc h ((snh, v) :: sheap) = assoc h ((snh, v) :: theap) := by
    intro R v hR h hn
    simp only [assoc]
    split_ifs
    · rfl
    · exact hh h (hR h hn)
  cases o with
  | setSeed z => exact ⟨rfl, ⟨rfl, rfl, rfl, rfl, rfl, hh⟩⟩
  | newGen z => exact ⟨rfl, ⟨rfl, rfl, rfl, rfl, rfl, hh⟩⟩
  | setGlobal r =>
    simp only [Rng.step]
    cases assoc r sgens <;> exact ⟨rfl, ⟨rfl, rfl, rfl, rfl, rfl, hh⟩⟩
  | sample cls dist count gen =>
    simp only [Rng.step]
    cases assoc (gen.getD sg) sgens with
    | none => exact ⟨rfl, ⟨rfl, rfl, rfl, rfl, rfl, hh⟩⟩
    | some g =>
      refine ⟨rfl, ⟨rfl, rfl, rfl, rfl, rfl, ?_⟩⟩
      exact cons_ok (snh :: sret) _ (fun h hn hm => hn (List.mem_cons_of_mem _ hm))
  | fit args gen =>
    simp only [Rng.step]
    cases assoc (gen.getD sg) sgens with
    | none => exact ⟨rfl, ⟨rfl, rfl, rfl, rfl, rfl, hh⟩⟩
    | some g =>
      refine ⟨rfl, ⟨rfl, rfl, rfl, rfl, rfl, ?_⟩⟩
      exact cons_ok (snh :: sret) _ (fun h hn hm => hn (List.mem_cons_of_mem _ hm))
  | mutateReturned i v =>
    simp only [Rng.step]
    cases hi : nth? i sret with
    | none => exact ⟨rfl, ⟨rfl, rfl, rfl, rfl, rfl, hh⟩⟩
    | some h' =>
      refine ⟨rfl, ⟨rfl, rfl, rfl, rfl, rfl, ?_⟩⟩
      intro h hn
      have hn' : h ∉ sret := hn
      have hm : h' ∈ sret := mem_of_nth? hi
      have hne : h ≠ h' := by rintro rfl; exact hn' hm
      show assoc h (update h' _ sheap) = assoc h (update h' _ theap)
      rw [assoc_update_ne _ _ hne, assoc_update_ne _ _ hne]
      exact hh h hn
  | bands m n conf ys gen njobs =>
    -- a cache hit reads a cache cell, which is not a returned array
    have cell : ∀ key h, assoc key scache = some h → assoc h sheap = assoc h theap :=
      fun key h hk => hh h (hs.cacheFresh key h (mem_of_assoc hk)).2
    cases m with
    | det dm =>
      simp only [Rng.step]
      cases assoc (gen.getD sg) sgens with
      | none => exact ⟨rfl, ⟨rfl, rfl, rfl, rfl, rfl, hh⟩⟩
      | some g =>
        cases hc : assoc (Key.det dm n conf) scache with
        | some h =>
          have e := cell _ h hc
          simp only [e]
          refine ⟨rfl, ⟨rfl, rfl, rfl, rfl, rfl, ?_⟩⟩
          exact cons_ok (snh :: sret) _ (fun h hn hm => hn (List.mem_cons_of_mem _ hm))
        | none =>
          refine ⟨rfl, ⟨rfl, rfl, rfl, rfl, rfl, ?_⟩⟩
          intro h hn
          have hn' : h ∉ sret := fun hm => hn (List.mem_cons_of_mem _ hm)
          simp only [ret, memo, assoc]
          split_ifs
          · rfl
          · rfl
          · exact hh h hn'
    | ld kind =>
      simp only [Rng.step]
      cases assoc (gen.getD sg) sgens with
      | none => exact ⟨rfl, ⟨rfl, rfl, rfl, rfl, rfl, hh⟩⟩
      | some g =>
        cases hc : (if P = Policy.asCode then
            assoc (Key.ld n conf kind (gen.getD sg) (njobs.getD scpu)) scache else none) with
        | some h =>
          have hk : assoc (Key.ld n conf kind (gen.getD sg) (njobs.getD scpu)) scache = some h := by
            by_cases hP : P = .asCode
            · rw [if_pos hP] at hc; exact hc
            · rw [if_neg hP] at hc; cases hc
          have e := cell _ h hk
          simp only [e]
          refine ⟨rfl, ⟨rfl, rfl, rfl, rfl, rfl, ?_⟩⟩
          exact cons_ok (snh :: sret) _ (fun h hn hm => hn (List.mem_cons_of_mem _ hm))
        | none =>
          refine ⟨rfl, ⟨rfl, rfl, rfl, rfl, rfl, ?_⟩⟩
          intro h hn
          have hn' : h ∉ sret := fun hm => hn (List.mem_cons_of_mem _ hm)
          simp only [ret, memo, assoc]
          split_ifs
          · rfl
          · rfl
          · exact hh h hn'

theorem SameOffReturned.outs {s t : State} (hst : SameOffReturned s t) (hs : Inv s) (P : Policy) (cost : Cost)
    (h : List Op) : outs P cost s h = outs P cost t h ∧ (exec P cost s h).view = (exec P cost t h).view := by
  induction h generalizing s t with
  | nil => exact ⟨rfl, hst.view⟩
  | cons o os ih =>
    obtain ⟨e, hst'⟩ := hst.step hs P cost o
    obtain ⟨e1, e2⟩ := ih hst' (hs.step P cost o)
    exact ⟨by simp only [Rng.outs, e, e1], e2⟩

/-! ## reproducibility after `set_seed` -/

/-- the global generator's state -/
def State.globalGen (s : State) : Option GenState := assoc s.global s.gens

/-- calls that resolve the global generator -/
def Op.usesGlobal : Op → Bool
  | .sample _ _ _ none => true
  | .bands _ _ _ _ none _ => true
  | .fit _ none => true
  | _ => false

/-- two processes whose global generators are in the same state, neither having memoised an ld table
for its global object, return the same value and leave the global generators in the same state -/
theorem globalCall_determined (P : Policy) (cost : Cost) {s t : State} (hs : Inv s) (ht : Inv t)
    (hcpu : s.cpu = t.cpu) (hg : s.globalGen = t.globalGen)
    (hns : ∀ n c k j, assoc (Key.ld n c k s.global j) s.cache = none)
    (hnt : ∀ n c k j, assoc (Key.ld n c k t.global j) t.cache = none)
    (o : Op) (ho : o.usesGlobal = true) :
    (step P cost s o).2.value = (step P cost t o).2.value
      ∧ (step P cost s o).1.globalGen = (step P cost t o).1.globalGen := by
  unfold State.globalGen at hg
  cases o with
  | setSeed z => simp [Op.usesGlobal] at ho
  | setGlobal r => simp [Op.usesGlobal] at ho
  | newGen z => simp [Op.usesGlobal] at ho
  | mutateReturned i v => simp [Op.usesGlobal] at ho
  | sample cls dist count gen =>
    cases gen with
    | some r => simp [Op.usesGlobal] at ho
    | none =>
      simp only [step, Option.getD_none, State.globalGen]
      rw [← hg]
      cases hr : assoc s.global s.gens with
      | none =>
        rw [hr] at hg
        exact ⟨rfl, by rw [hr, ← hg]⟩
      | some g =>
        rw [hr] at hg
        refine ⟨rfl, ?_⟩
        show assoc s.global (update s.global _ s.gens) = assoc t.global (update t.global _ t.gens)
        rw [assoc_update_self, assoc_update_self, hr, ← hg]
  | fit args gen =>
    cases gen with
    | some r => simp [Op.usesGlobal] at ho
    | none =>
      simp only [step, Option.getD_none, State.globalGen]
      rw [← hg]
      cases hr : assoc s.global s.gens with
      | none =>
        rw [hr] at hg
        exact ⟨rfl, by rw [hr, ← hg]⟩
      | some g =>
        rw [hr] at hg
        refine ⟨rfl, ?_⟩
        show assoc s.global (update s.global _ s.gens) = assoc t.global (update t.global _ t.gens)
        rw [assoc_update_self, assoc_update_self, hr, ← hg]
  | bands m n conf ys gen njobs =>
    cases gen with
    | some r => simp [Op.usesGlobal] at ho
    | none =>
      cases m with
      | det dm =>
        simp only [step, Option.getD_none, State.globalGen]
        rw [← hg]
        cases hr : assoc s.global s.gens with
        | none =>
          rw [hr] at hg
          exact ⟨rfl, by rw [hr, ← hg]⟩
        | some g =>
          rw [hr] at hg
          have vs : ∀ (u : State), Inv u →
              (match assoc (Key.det dm n conf) u.cache with
                | some h => Value.bands ys ((assoc h u.heap).getD .invalid)
                | none => Value.bands ys (.detTable dm n conf)) = Value.bands ys (.detTable dm n conf) := by
            intro u hu
            cases hc : assoc (Key.det dm n conf) u.cache with
            | none => rfl
            | some h => simp [hu.detCell dm n conf h (mem_of_assoc hc)]
          constructor
          · have a := vs s hs
            have b := vs t ht
            cases hcs : assoc (Key.det dm n conf) s.cache <;> cases hct : assoc (Key.det dm n conf) t.cache <;>
              simp only [hcs, hct] at a b ⊢ <;> simp_all [ret, memo]
          · cases hcs : assoc (Key.det dm n conf) s.cache <;> cases hct : assoc (Key.det dm n conf) t.cache <;>
              simp [ret, memo, hr, ← hg]
      | ld kind =>
        have ms : (if P = Policy.asCode then
            assoc (Key.ld n conf kind s.global (njobs.getD s.cpu)) s.cache else none) = none := by
          rw [hns]; split_ifs <;> rfl
        have mt : (if P = Policy.asCode then
            assoc (Key.ld n conf kind t.global (njobs.getD t.cpu)) t.cache else none) = none := by
          rw [hnt]; split_ifs <;> rfl
        simp only [step, Option.getD_none, State.globalGen, ms, mt]
        rw [← hg]
        cases hr : assoc s.global s.gens with
        | none =>
          rw [hr] at hg
          exact ⟨rfl, by rw [hr, ← hg]⟩
        | some g =>
          rw [hr] at hg
          refine ⟨rfl, ?_⟩
          show assoc s.global (update s.global _ s.gens) = assoc t.global (update t.global _ t.gens)
          rw [assoc_update_self, assoc_update_self, hr, ← hg]

/-- after `set_seed z` the global name is bound to a brand-new object in state `(z, 0)`, for which nothing
can have been memoised -/
theorem after_setSeed (P : Policy) (cost : Cost) {s : State} (hs : Inv s) (z : Nat) :
    (step P cost s (.setSeed z)).1.globalGen = some ⟨z, 0⟩
      ∧ ∀ n c k j, assoc (Key.ld n c k (step P cost s (.setSeed z)).1.global j)
                      (step P cost s (.setSeed z)).1.cache = none := by
  refine ⟨assoc_cons_self _ _ _, ?_⟩
  intro n c k j
  apply assoc_eq_none_of_forall
  intro h hm
  exact Nat.lt_irrefl _ (hs.ldLogged n c k s.nextRef j h hm).2

/-- both orders of business in one statement, for reachable processes -/
theorem setSeed_reproducible (P : Policy) (cost : Cost) {s t : State} (hs : Inv s) (ht : Inv t)
    (hcpu : s.cpu = t.cpu) (z : Nat) (o : Op) (ho : o.usesGlobal = true) :
    (step P cost (step P cost s (.setSeed z)).1 o).2.value = (step P cost (step P cost t (.setSeed z)).1 o).2.value
      ∧ (step P cost (step P cost s (.setSeed z)).1 o).1.globalGen
          = (step P cost (step P cost t (.setSeed z)).1 o).1.globalGen := by
  obtain ⟨a1, a2⟩ := after_setSeed P cost hs z
  obtain ⟨b1, b2⟩ := after_setSeed P cost ht z
  have hcpu' : (step P cost s (.setSeed z)).1.cpu = (step P cost t (.setSeed z)).1.cpu := hcpu
  exact globalCall_determined P cost (hs.step P cost (.setSeed z)) (ht.step P cost (.setSeed z)) hcpu'
    (a1.trans b1.symm) a2 b2 o ho

/-! ## `n_jobs`, for reachable states -/

theorem njobs_irrelevant_of_inv (P : Policy) (cost : Cost) {s : State} (hs : Inv s) (kind : Kind) (n conf ys : Nat)
    (gen : Option GenRef) (j j' : Option Nat)
    (h1 : P = .asCode → repeatsLdKey s (.bands (.ld kind) n conf ys gen j) = false)
    (h2 : P = .asCode → repeatsLdKey s (.bands (.ld kind) n conf ys gen j') = false) :
    observe P cost s (.bands (.ld kind) n conf ys gen j) = observe P cost s (.bands (.ld kind) n conf ys gen j') := by
  apply njobs_irrelevant_miss
  · intro hP
    have := h1 hP
    simp only [repeatsLdKey, ldKey] at this
    exact ld_not_cached hs (not_mem_of_contains_false this)
  · intro hP
    have := h2 hP
    simp only [repeatsLdKey, ldKey] at this
    exact ld_not_cached hs (not_mem_of_contains_false this)

/-! ## the repository's machine is the specification machine away from repeated ld keys -/

theorem step_code_eq_spec (cost : Cost) {s : State} (hs : Inv s) (o : Op) (h : repeatsLdKey s o = false) :
    step .asCode cost s o = step .spec cost s o := by
  cases o with
  | setSeed z => rfl
  | newGen z => rfl
  | setGlobal r => rfl
  | sample cls dist count gen => rfl
  | fit args gen => rfl
  | mutateReturned i v => rfl
  | bands m n conf ys gen njobs =>
    cases m with
    | det dm => rfl
    | ld kind =>
      simp only [repeatsLdKey, ldKey] at h
      have := ld_not_cached hs (not_mem_of_contains_false h)
      simp [step, this]

/-- no call of the history repeats the ld key of an earlier call (keys evaluated as the history runs) -/
def noRepeat (P : Policy) (cost : Cost) (s : State) : List Op → Bool
  | [] => true
  | o :: os => !repeatsLdKey s o && noRepeat P cost (step P cost s o).1 os

theorem run_code_eq_spec (cost : Cost) {s : State} (hs : Inv s) (h : List Op)
    (hn : noRepeat .asCode cost s h = true) :
    exec .asCode cost s h = exec .spec cost s h ∧ outs .asCode cost s h = outs .spec cost s h := by
  induction h generalizing s with
  | nil => exact ⟨rfl, rfl⟩
  | cons o os ih =>
    simp only [noRepeat, Bool.and_eq_true, Bool.not_eq_true'] at hn
    have e := step_code_eq_spec cost hs o hn.1
    obtain ⟨a, b⟩ := ih (hs.step .asCode cost o) hn.2
    simp only [exec, outs]
    rw [← e]
    exact ⟨a, by rw [b]⟩

/-! ## finding F1: the two-call witnesses -/

/-- `g = default_rng(0)`; `confidence_bands(ys, c, generator=g, method="ld_equal_tailed", n_jobs=1)` -/
def f1History : List Op := [.newGen 0, .bands (.ld .equalTailed) 3 0 0 (some 1) (some 1)]
/-- the same call again -/
def f1Call : Op := .bands (.ld .equalTailed) 3 0 0 (some 1) (some 1)
/-- `set_seed(0)`; `confidence_bands(ys, c, method="ld_equal_tailed")` on the global generator -/
def f1HistoryGlobal : List Op := [.setSeed 0, .bands (.ld .equalTailed) 3 0 0 none none]
def f1CallGlobal : Op := .bands (.ld .equalTailed) 3 0 0 none none

/-- the process after the first call -/
def f1State : State := exec .asCode nominalCost (init 12345 0 16) f1History
def f1StateGlobal : State := exec .asCode nominalCost (init 12345 0 16) f1HistoryGlobal

/-- the second call is a cache hit: it returns the first call's table and does not advance `g` … -/
theorem f1_second_call :
    (step .asCode nominalCost f1State f1Call).2.hit = some true
      ∧ (step .asCode nominalCost f1State f1Call).2.value = .bands 0 (.ldTable .equalTailed 3 0 0 0)
      ∧ (step .asCode nominalCost f1State f1Call).1.view = f1State.view := by decide

/-- … whereas a fresh process whose generator is in `g`'s current state draws the *next* 300 000
uniforms and advances -/
theorem f1_fresh_call :
    (step .asCode nominalCost (fresh f1State) f1Call).2.hit = some false
      ∧ (step .asCode nominalCost (fresh f1State) f1Call).2.value = .bands 0 (.ldTable .equalTailed 3 0 0 300000)
      ∧ (step .asCode nominalCost (fresh f1State) f1Call).1.view ≠ f1State.view := by decide

theorem f1_observe_ne :
    observe .asCode nominalCost f1State f1Call ≠ observe .asCode nominalCost (fresh f1State) f1Call := by decide

theorem f1_observe_ne_global :
    observe .asCode nominalCost f1StateGlobal f1CallGlobal
      ≠ observe .asCode nominalCost (fresh f1StateGlobal) f1CallGlobal := by decide

theorem f1_is_repeat : repeatsLdKey f1State f1Call = true ∧ repeatsLdKey f1StateGlobal f1CallGlobal = true := by
  decide

end Opda.Rng
