import OpdaModel.NoisyFloat
import OpdaProofs.NoisyLogic
import OpdaProofs.NoisyReal
import Mathlib.Probability.Distributions.Gaussian.Real
import Mathlib.Analysis.SpecialFunctions.Gaussian.GaussianIntegral
import Mathlib.Analysis.Calculus.MeanValue
import Mathlib.MeasureTheory.Integral.IntegralEqImproper
import Mathlib.Analysis.Real.Pi.Bounds
import Mathlib.Tactic

/-!
C06-T5 (noiseless regime, `c ≥ 2`): when `0 < o < 1e-6 (b−a)` the code ignores the noise and returns the
noise-free law `F_Z`.  The true law is the mixture `y ↦ ∫ F_Z(y − e) dN(0, o²)(e)`; since `F_Z` is
`c / (2 (b−a))`-Lipschitz for `c ≥ 2` the two differ by at most `c/(2(b−a)) · E|E| = c/(2(b−a)) · o √(2/π)
≤ 0.4 · c · o / (b−a)` — the constant in the property.
-/
namespace Opda.Noisy
open MeasureTheory ProbabilityTheory Real Set Filter Topology
open scoped NNReal ENNReal

/-- smoothing an `L`-Lipschitz function with a probability measure moves it by at most `L · E|noise|` -/
theorem smoothing_lipschitz (ν : Measure ℝ) [IsProbabilityMeasure ν] (G : ℝ → ℝ) (L : ℝ)
    (hG : ∀ x y, |G x - G y| ≤ L * |x - y|) (hGc : Continuous G)
    (hint : Integrable (fun e : ℝ => |e|) ν) (y : ℝ) :
    |G y - ∫ e, G (y - e) ∂ν| ≤ L * ∫ e, |e| ∂ν := by
  have hb : ∀ e, |G y - G (y - e)| ≤ L * |e| := by
    intro e
    have := hG y (y - e)
    simpa using this
  have hGi : Integrable (fun e => G (y - e)) ν := by
    refine Integrable.mono' ((integrable_const |G y|).add (hint.const_mul L)) ?_ ?_
    · exact (hGc.comp (continuous_const.sub continuous_id)).aestronglyMeasurable
    · refine ae_of_all _ (fun e => ?_)
      have h1 := hb e
      have h2 : |G (y - e)| ≤ |G y| + |G y - G (y - e)| := by
        have := abs_sub_abs_le_abs_sub (G (y - e)) (G y)
        rw [abs_sub_comm (G (y - e)) (G y)] at this
        linarith
      simp only [Real.norm_eq_abs, Pi.add_apply]
      linarith
  have hconst : G y = ∫ _e, G y ∂ν := by simp
  have hdiff : G y - ∫ e, G (y - e) ∂ν = ∫ e, (G y - G (y - e)) ∂ν := by
    rw [integral_sub (integrable_const _) hGi]; simp
  rw [hdiff, ← integral_const_mul]
  refine (abs_integral_le_integral_abs).trans ?_
  apply integral_mono
  · exact ((integrable_const _).sub hGi).abs
  · exact hint.const_mul L
  · exact hb

/-- `∫₀^∞ x e^{−b x²} dx = 1/(2b)` -/
theorem integral_Ioi_mul_exp_neg_mul_sq (b : ℝ) (hb : 0 < b) :
    ∫ x in Ioi (0:ℝ), x * Real.exp (-b * x ^ 2) = (2 * b)⁻¹ := by
  have A : ∀ x ∈ Ici (0:ℝ), HasDerivAt (fun x => -(2 * b)⁻¹ * Real.exp (-b * x ^ 2)) (x * Real.exp (-b * x ^ 2)) x := by
    intro x _
    have h := (((hasDerivAt_pow 2 x).const_mul (-b)).exp).const_mul (-(2 * b)⁻¹)
    refine h.congr_deriv ?_
    field_simp
    ring
  have B : Tendsto (fun x : ℝ => -(2 * b)⁻¹ * Real.exp (-b * x ^ 2)) atTop (𝓝 (-(2 * b)⁻¹ * 0)) := by
    refine Tendsto.const_mul _ ?_
    exact tendsto_exp_atBot.comp ((tendsto_pow_atTop two_ne_zero).const_mul_atTop_of_neg (neg_lt_zero.2 hb))
  have I : IntegrableOn (fun x : ℝ => x * Real.exp (-b * x ^ 2)) (Ioi 0) := (integrable_mul_exp_neg_mul_sq hb).integrableOn
  rw [integral_Ioi_of_hasDerivAt_of_tendsto' A I B]
  simp

/-- first absolute moment of a centred normal: `E|E| = √(2v/π)` -/
theorem integral_abs_gaussianReal (v : ℝ≥0) (hv : v ≠ 0) :
    ∫ e, |e| ∂(gaussianReal 0 v) = Real.sqrt (2 * v / π) := by
  have hv' : (0:ℝ) < v := by exact_mod_cast pos_iff_ne_zero.mpr hv
  have hb : (0:ℝ) < (2 * (v:ℝ))⁻¹ := by positivity
  rw [integral_gaussianReal_eq_integral_smul hv]
  have e1 : ∀ x : ℝ, gaussianPDFReal 0 v x • |x| = (√(2 * π * v))⁻¹ * ((fun t : ℝ => t * Real.exp (-(2 * (v:ℝ))⁻¹ * t ^ 2)) |x|) := by
    intro x
    simp only [gaussianPDFReal, smul_eq_mul, sub_zero, sq_abs]
    have : -x ^ 2 / (2 * (v:ℝ)) = -(2 * (v:ℝ))⁻¹ * x ^ 2 := by field_simp
    rw [this]; ring
  simp only [e1]
  rw [integral_const_mul, integral_comp_abs (f := fun t : ℝ => t * Real.exp (-(2 * (v:ℝ))⁻¹ * t ^ 2)),
    integral_Ioi_mul_exp_neg_mul_sq _ hb]
  have hs : √(2 * π * v) = √(2 * v / π) * π := by
    have hpi : (0:ℝ) < π := Real.pi_pos
    rw [show 2 * π * (v:ℝ) = (2 * v / π) * (π * π) by field_simp]
    rw [Real.sqrt_mul (by positivity), Real.sqrt_mul_self hpi.le]
  rw [hs]
  have hq : 0 < √(2 * (v:ℝ) / π) := Real.sqrt_pos.mpr (by positivity)
  have hsq : √(2 * (v:ℝ) / π) * √(2 * (v:ℝ) / π) = 2 * v / π := Real.mul_self_sqrt (by positivity)
  have hpi : (0:ℝ) < π := Real.pi_pos
  have hinv : (2 * (2 * (v:ℝ))⁻¹)⁻¹ = (v:ℝ) := by field_simp
  rw [hinv]
  have hv2 : 2 * (v:ℝ) = √(2 * (v:ℝ) / π) * √(2 * (v:ℝ) / π) * π := by rw [hsq]; field_simp
  generalize √(2 * (v:ℝ) / π) = S at *
  rw [hv2]
  field_simp

/-- `t ↦ t^p` is `p`-Lipschitz on `[0, 1]` for `p ≥ 1` -/
theorem rpow_lipschitz_unit (p : ℝ) (hp : 1 ≤ p) (s t : ℝ) (hs : s ∈ Icc (0:ℝ) 1) (ht : t ∈ Icc (0:ℝ) 1) :
    |t ^ p - s ^ p| ≤ p * |t - s| := by
  have hd : ∀ x ∈ Icc (0:ℝ) 1, HasDerivWithinAt (fun x : ℝ => x ^ p) (p * x ^ (p - 1)) (Icc 0 1) x :=
    fun x _ => (Real.hasDerivAt_rpow_const (Or.inr hp)).hasDerivWithinAt
  have hbound : ∀ x ∈ Icc (0:ℝ) 1, ‖p * x ^ (p - 1)‖ ≤ p := by
    intro x hx
    have h1 : 0 ≤ x ^ (p - 1) := Real.rpow_nonneg hx.1 _
    have h2 : x ^ (p - 1) ≤ 1 := Real.rpow_le_one hx.1 hx.2 (by linarith)
    rw [Real.norm_eq_abs, abs_of_nonneg (mul_nonneg (by linarith) h1)]
    nlinarith
  have := Convex.norm_image_sub_le_of_norm_hasDerivWithin_le hd hbound (convex_Icc 0 1) hs ht
  simpa [Real.norm_eq_abs] using this

theorem clip_lipschitz (x y lo hi : ℝ) (h : lo ≤ hi) : |clip x lo hi - clip y lo hi| ≤ |x - y| := by
  have h1 := le_abs_self (x - y)
  have h2 := neg_abs_le (x - y)
  unfold clip
  split_ifs <;> rw [abs_le] <;> constructor <;> linarith

variable (T : List (ℕ × List (Entry ℝ))) (ninf pinf : ℝ)

/-- in the noiseless regime with `c ≥ 2` the model's cdf over `ℝ` (the noise-free law) is
`c / (2 (b − a))`-Lipschitz -/
theorem cdf_noiseless_lipschitz (d : Params ℝ) (hab : d.a < d.b) (hc : 2 ≤ d.c)
    (hp : pointMass (realFns T ninf pinf) d = false) (h : regime (realFns T ninf pinf) d = .noiseless) (x y : ℝ) :
    |cdf (realFns T ninf pinf) d x - cdf (realFns T ninf pinf) d y| ≤ (d.c : ℝ) / (2 * (d.b - d.a)) * |x - y| := by
  have hw : 0 < d.b - d.a := sub_pos.mpr hab
  have hpge : (1:ℝ) ≤ (d.c : ℝ) / 2 := by
    have : (2:ℝ) ≤ d.c := by exact_mod_cast hc
    linarith
  obtain ⟨cx1, cx2⟩ := clip_mem x d.a d.b hab.le
  obtain ⟨cy1, cy2⟩ := clip_mem y d.a d.b hab.le
  have hcl := clip_lipschitz x y d.a d.b hab.le
  rw [cdf_noiseless d x hp h, cdf_noiseless d y hp h]
  have hk : (realFns T ninf pinf).n d.c / (realFns T ninf pinf).n 2 = (d.c : ℝ) / 2 := by
    show ((d.c : ℕ) : ℝ) / ((2:ℕ):ℝ) = _; norm_num
  have h1 : (realFns T ninf pinf).n 1 = (1:ℝ) := by show ((1:ℕ):ℝ) = 1; norm_num
  rw [hk, h1]
  have hpow : ∀ u v : ℝ, (realFns T ninf pinf).pow u v = u ^ v := fun _ _ => rfl
  simp only [hpow]
  have key : ∀ s t : ℝ, s ∈ Icc (0:ℝ) 1 → t ∈ Icc (0:ℝ) 1 → |t - s| ≤ |x - y| / (d.b - d.a) →
      |t ^ ((d.c:ℝ) / 2) - s ^ ((d.c:ℝ) / 2)| ≤ (d.c : ℝ) / (2 * (d.b - d.a)) * |x - y| := by
    intro s t hs ht hst
    have := rpow_lipschitz_unit ((d.c:ℝ) / 2) hpge s t hs ht
    have hc0 : (0:ℝ) ≤ (d.c:ℝ) / 2 := by linarith
    calc |t ^ ((d.c:ℝ) / 2) - s ^ ((d.c:ℝ) / 2)| ≤ (d.c:ℝ) / 2 * |t - s| := this
      _ ≤ (d.c:ℝ) / 2 * (|x - y| / (d.b - d.a)) := mul_le_mul_of_nonneg_left hst hc0
      _ = (d.c : ℝ) / (2 * (d.b - d.a)) * |x - y| := by field_simp
  split_ifs
  · have hs : (clip y d.a d.b - d.a) / (d.b - d.a) ∈ Icc (0:ℝ) 1 :=
      ⟨div_nonneg (by linarith) hw.le, (div_le_one hw).mpr (by linarith)⟩
    have ht : (clip x d.a d.b - d.a) / (d.b - d.a) ∈ Icc (0:ℝ) 1 :=
      ⟨div_nonneg (by linarith) hw.le, (div_le_one hw).mpr (by linarith)⟩
    refine key _ _ hs ht ?_
    rw [← sub_div, abs_div, abs_of_pos hw]
    have : clip x d.a d.b - d.a - (clip y d.a d.b - d.a) = clip x d.a d.b - clip y d.a d.b := by ring
    rw [this]
    exact div_le_div_of_nonneg_right hcl hw.le
  · have hs : (d.b - clip x d.a d.b) / (d.b - d.a) ∈ Icc (0:ℝ) 1 :=
      ⟨div_nonneg (by linarith) hw.le, (div_le_one hw).mpr (by linarith)⟩
    have ht : (d.b - clip y d.a d.b) / (d.b - d.a) ∈ Icc (0:ℝ) 1 :=
      ⟨div_nonneg (by linarith) hw.le, (div_le_one hw).mpr (by linarith)⟩
    have e : (1:ℝ) - ((d.b - clip x d.a d.b) / (d.b - d.a)) ^ ((d.c:ℝ) / 2)
        - (1 - ((d.b - clip y d.a d.b) / (d.b - d.a)) ^ ((d.c:ℝ) / 2))
        = ((d.b - clip y d.a d.b) / (d.b - d.a)) ^ ((d.c:ℝ) / 2) - ((d.b - clip x d.a d.b) / (d.b - d.a)) ^ ((d.c:ℝ) / 2) := by ring
    rw [e]
    refine key _ _ hs ht ?_
    rw [← sub_div, abs_div, abs_of_pos hw]
    have : d.b - clip y d.a d.b - (d.b - clip x d.a d.b) = clip x d.a d.b - clip y d.a d.b := by ring
    rw [this]
    exact div_le_div_of_nonneg_right hcl hw.le

theorem continuous_of_lipschitz' (G : ℝ → ℝ) (L : ℝ) (hG : ∀ x y, |G x - G y| ≤ L * |x - y|) : Continuous G := by
  have hL : 0 ≤ max L 0 := le_max_right _ _
  have : LipschitzWith (Real.toNNReal (max L 0)) G := by
    refine LipschitzWith.of_dist_le_mul (fun x y => ?_)
    rw [Real.dist_eq, Real.dist_eq, Real.coe_toNNReal _ hL]
    exact (hG x y).trans (mul_le_mul_of_nonneg_right (le_max_left _ _) (abs_nonneg _))
  exact this.continuous

/-- **C06-T5 (`c ≥ 2`)**: in the noiseless regime the value the model returns (the noise-free law) differs
from its convolution with `N(0, o²)` — the law of `Z + E` — by at most `0.4 · c · o / (b − a)`. -/
theorem noiseless_bound (d : Params ℝ) (hab : d.a < d.b) (hc : 2 ≤ d.c) (ho : 0 < d.o)
    (hp : pointMass (realFns T ninf pinf) d = false) (h : regime (realFns T ninf pinf) d = .noiseless) (y : ℝ) :
    |cdf (realFns T ninf pinf) d y
        - ∫ e, cdf (realFns T ninf pinf) d (y - e) ∂(gaussianReal 0 ⟨d.o ^ 2, sq_nonneg _⟩)|
      ≤ 0.4 * d.c * d.o / (d.b - d.a) := by
  have hw : 0 < d.b - d.a := sub_pos.mpr hab
  set v : ℝ≥0 := ⟨d.o ^ 2, sq_nonneg _⟩ with hvdef
  have hv : v ≠ 0 := by
    intro h0
    have : (v : ℝ) = 0 := by rw [h0]; rfl
    have h2 : d.o ^ 2 = 0 := this
    exact (pow_pos ho 2).ne' h2
  have hlip := cdf_noiseless_lipschitz T ninf pinf d hab hc hp h
  have hcont := continuous_of_lipschitz' _ _ hlip
  have hint : Integrable (fun e : ℝ => |e|) (gaussianReal 0 v) := by
    have := (memLp_id_gaussianReal (μ := 0) (v := v) 1).integrable (le_refl _)
    exact this.abs
  have hs := smoothing_lipschitz (gaussianReal 0 v) _ _ hlip hcont hint y
  rw [integral_abs_gaussianReal v hv] at hs
  refine hs.trans ?_
  have hvo : ((v : ℝ≥0) : ℝ) = d.o ^ 2 := rfl
  have hsq : Real.sqrt (2 * (v:ℝ) / π) ≤ 0.8 * d.o := by
    rw [hvo]
    apply Real.sqrt_le_iff.mpr
    constructor
    · positivity
    · have hpi := Real.pi_gt_d2
      rw [div_le_iff₀ Real.pi_pos]
      nlinarith [sq_nonneg d.o]
  have hc0 : (0:ℝ) ≤ (d.c : ℝ) / (2 * (d.b - d.a)) := by positivity
  calc (d.c : ℝ) / (2 * (d.b - d.a)) * Real.sqrt (2 * (v:ℝ) / π)
      ≤ (d.c : ℝ) / (2 * (d.b - d.a)) * (0.8 * d.o) := mul_le_mul_of_nonneg_left hsq hc0
    _ = 0.4 * d.c * d.o / (d.b - d.a) := by field_simp; ring

end Opda.Noisy
