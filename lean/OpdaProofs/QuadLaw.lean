import OpdaModel.Quadratic
import OpdaProofs.RealInst
import OpdaProofs.QuadDual
import Mathlib.Tactic

/-! C05-T1/T2 and C08-T1 (noiseless class) on the polymorphic model at `ℝ`. -/
namespace Opda.Quad
open Opda Opda.Num

theorem clip_of_mem (x lo hi : ℝ) (h1 : lo ≤ x) (h2 : x ≤ hi) : clip x lo hi = x := by
  unfold clip; rw [if_neg (not_lt.mpr h1), if_neg (not_lt.mpr h2)]

theorem eq_false_of_ne (a b : ℝ) (h : a ≠ b) : Num.eq a b = false := by
  rw [Bool.eq_false_iff]; intro h'; exact h ((num_eq _ _).mp h')

/-- `cdf (ppf q) = q` for both shapes, every `a < b`, every `c ≥ 1`, every `q ∈ [0,1]`. -/
theorem cdf_ppf (d : Params ℝ) (hab : d.a < d.b) (hc : 0 < d.c) (q : ℝ) (hq0 : 0 ≤ q) (hq1 : q ≤ 1) :
    cdf d (ppf d q) = q := by
  have hba : 0 < d.b - d.a := sub_pos.mpr hab
  have hc' : (0:ℝ) < d.c := by exact_mod_cast hc
  have hcq : clip q (0:ℝ) 1 = q := clip_of_mem q 0 1 hq0 hq1
  have hexp : (2:ℝ) / d.c * (d.c / 2) = 1 := by field_simp
  unfold cdf ppf
  simp only [eq_false_of_ne _ _ (ne_of_lt hab), Bool.false_eq_true, if_false, num_n, Nat.cast_zero,
    Nat.cast_one, hcq, num_pow, Nat.cast_ofNat]
  cases hcv : d.convex
  · -- concave
    simp only [Bool.false_eq_true, if_false]
    have h1q : 0 ≤ 1 - q := by linarith
    have hp0 : 0 ≤ (1 - q) ^ ((2:ℝ) / d.c) := Real.rpow_nonneg h1q _
    have hp1 : (1 - q) ^ ((2:ℝ) / d.c) ≤ 1 := Real.rpow_le_one h1q (by linarith) (by positivity)
    have hmem1 : d.a ≤ d.b - (d.b - d.a) * (1 - q) ^ ((2:ℝ) / d.c) := by nlinarith
    have hmem2 : d.b - (d.b - d.a) * (1 - q) ^ ((2:ℝ) / d.c) ≤ d.b := by nlinarith
    rw [clip_of_mem _ _ _ hmem1 hmem2]
    have : (d.b - (d.b - (d.b - d.a) * (1 - q) ^ ((2:ℝ) / d.c))) / (d.b - d.a) = (1 - q) ^ ((2:ℝ) / d.c) := by
      field_simp; ring
    rw [this, ← Real.rpow_mul h1q, hexp, Real.rpow_one]; ring
  · simp only [if_true]
    have hp0 : 0 ≤ q ^ ((2:ℝ) / d.c) := Real.rpow_nonneg hq0 _
    have hp1 : q ^ ((2:ℝ) / d.c) ≤ 1 := Real.rpow_le_one hq0 hq1 (by positivity)
    have hmem1 : d.a ≤ d.a + (d.b - d.a) * q ^ ((2:ℝ) / d.c) := by nlinarith
    have hmem2 : d.a + (d.b - d.a) * q ^ ((2:ℝ) / d.c) ≤ d.b := by nlinarith
    rw [clip_of_mem _ _ _ hmem1 hmem2]
    have : (d.a + (d.b - d.a) * q ^ ((2:ℝ) / d.c) - d.a) / (d.b - d.a) = q ^ ((2:ℝ) / d.c) := by
      field_simp; ring
    rw [this, ← Real.rpow_mul hq0, hexp, Real.rpow_one]

/-- `cdf` is `0` up to `a` and `1` from `b` on -/
theorem cdf_below (d : Params ℝ) (hab : d.a < d.b) (hc : 0 < d.c) (y : ℝ) (hy : y ≤ d.a) : cdf d y = 0 := by
  have hc' : (0:ℝ) < d.c := by exact_mod_cast hc
  have hclip : clip y d.a d.b = d.a := by
    unfold clip
    rcases lt_or_eq_of_le hy with h | h
    · rw [if_pos h]
    · subst h; rw [if_neg (lt_irrefl _), if_neg (not_lt.mpr hab.le)]
  unfold cdf
  simp only [eq_false_of_ne _ _ (ne_of_lt hab), Bool.false_eq_true, if_false, hclip, num_n, num_pow,
    Nat.cast_one, Nat.cast_ofNat, sub_self, zero_div]
  have hne : (d.c:ℝ) / 2 ≠ 0 := by positivity
  cases d.convex <;> simp [Real.zero_rpow hne, div_self (sub_pos.mpr hab).ne', Real.one_rpow]

theorem cdf_above (d : Params ℝ) (hab : d.a < d.b) (hc : 0 < d.c) (y : ℝ) (hy : d.b ≤ y) : cdf d y = 1 := by
  have hc' : (0:ℝ) < d.c := by exact_mod_cast hc
  have hclip : clip y d.a d.b = d.b := by
    unfold clip
    rw [if_neg (not_lt.mpr (hab.le.trans hy))]
    rcases lt_or_eq_of_le hy with h | h
    · rw [if_pos h]
    · rw [if_neg (by rw [h]; exact lt_irrefl _), h]
  unfold cdf
  simp only [eq_false_of_ne _ _ (ne_of_lt hab), Bool.false_eq_true, if_false, hclip, num_n, num_pow,
    Nat.cast_one, Nat.cast_ofNat, sub_self, zero_div]
  have hne : (d.c:ℝ) / 2 ≠ 0 := by positivity
  cases d.convex <;> simp [Real.zero_rpow hne, div_self (sub_pos.mpr hab).ne', Real.one_rpow]

/-- `cdf` is non-decreasing -/
theorem cdf_mono (d : Params ℝ) (hab : d.a < d.b) (hc : 0 < d.c) : Monotone (cdf d) := by
  have hba : 0 < d.b - d.a := sub_pos.mpr hab
  have hc' : (0:ℝ) ≤ (d.c:ℝ) / 2 := by positivity
  intro y y' hyy
  have hcm : clip y d.a d.b ≤ clip y' d.a d.b := by
    unfold clip
    split_ifs <;> linarith
  obtain ⟨l1, u1⟩ := clip_mem y d.a d.b hab.le
  obtain ⟨l2, u2⟩ := clip_mem y' d.a d.b hab.le
  unfold cdf
  simp only [eq_false_of_ne _ _ (ne_of_lt hab), Bool.false_eq_true, if_false, num_n, num_pow,
    Nat.cast_one, Nat.cast_ofNat]
  cases d.convex
  · simp only [Bool.false_eq_true, if_false]
    have : ((d.b - clip y' d.a d.b) / (d.b - d.a)) ^ ((d.c:ℝ) / 2) ≤ ((d.b - clip y d.a d.b) / (d.b - d.a)) ^ ((d.c:ℝ) / 2) := by
      apply Real.rpow_le_rpow (div_nonneg (by linarith) hba.le) _ hc'
      exact div_le_div_of_nonneg_right (by linarith) hba.le
    linarith
  · simp only [if_true]
    apply Real.rpow_le_rpow (div_nonneg (by linarith) hba.le) _ hc'
    exact div_le_div_of_nonneg_right (by linarith) hba.le

/-- **C08-T1 (noiseless)**: the quantile tuning curve hits the level of the best of `n` draws. -/
theorem cdf_quantileTuningCurve (d : Params ℝ) (hab : d.a < d.b) (hc : 0 < d.c) (nn q : ℝ) (mn : Option Bool)
    (hl0 : 0 ≤ level (mn.getD d.convex) q nn) (hl1 : level (mn.getD d.convex) q nn ≤ 1) :
    cdf d (quantileTuningCurve d nn q mn) = level (mn.getD d.convex) q nn := by
  unfold quantileTuningCurve
  exact cdf_ppf d hab hc _ hl0 hl1

#print axioms cdf_ppf
#print axioms cdf_mono
end Opda.Quad
