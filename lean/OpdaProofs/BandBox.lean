import Mathlib.Topology.Order.Basic
import Mathlib.Topology.Algebra.Order.Field
import Mathlib.Topology.Order.LeftRightNhds
import Mathlib.Topology.Instances.Real.Lemmas
import Mathlib.Tactic

/-!
C01-T1: a step band given by level tables `L`, `U` contains a continuous CDF `F` for all `t`
iff the `n` order-statistic inequalities `L (i+1) ≤ F (y i) ≤ U i` hold.
`y 0 < y 1 < … < y (n-1)` are the order statistics (0-based).  `IsCount n y t k` says that
`k` is the number of sample points `≤ t`; the band takes the values `L k`, `U k` there
(this is what C02-T1 proves about the code's `lo.cdf`, `hi.cdf`).
-/
namespace Opda.Band
open Filter Topology

def IsCount (n : ℕ) (y : ℕ → ℝ) (t : ℝ) (k : ℕ) : Prop :=
  k ≤ n ∧ (∀ j, j < k → y j ≤ t) ∧ (∀ j, k ≤ j → j < n → t < y j)

theorem band_contains_iff_box (n : ℕ) (y : ℕ → ℝ) (hy : ∀ i j, i < j → j < n → y i < y j)
    (L U : ℕ → ℝ) (F : ℝ → ℝ) (hmono : Monotone F) (hcont : Continuous F)
    (h0 : ∀ t, 0 ≤ F t) (h1 : ∀ t, F t ≤ 1) (hL0 : L 0 ≤ 0) (hUn : 1 ≤ U n) :
    (∀ t k, IsCount n y t k → L k ≤ F t ∧ F t ≤ U k)
      ↔ (∀ i, i < n → L (i+1) ≤ F (y i) ∧ F (y i) ≤ U i) := by
  constructor
  · intro h i hi
    constructor
    · -- lower level at t = y i, where the count is i+1
      have hc : IsCount n y (y i) (i+1) := by
        refine ⟨hi, ?_, ?_⟩
        · intro j hj
          rcases Nat.lt_succ_iff_lt_or_eq.mp hj with hlt | rfl
          · exact (hy j i hlt hi).le
          · exact le_rfl
        · intro j hj hjn
          exact hy i j hj hjn
      exact (h _ _ hc).1
    · -- upper level: F t ≤ U i for t just below y i, then continuity
      -- lower end of the window: y (i-1) if i > 0, else y i - 1
      set lo : ℝ := if i = 0 then y i - 1 else y (i-1) with hlo
      have hlo_lt : lo < y i := by
        rw [hlo]; split_ifs with hi0
        · linarith
        · exact hy (i-1) i (by omega) hi
      have hwin : ∀ t, lo < t → t < y i → F t ≤ U i := by
        intro t ht1 ht2
        have hc : IsCount n y t i := by
          refine ⟨hi.le, ?_, ?_⟩
          · intro j hj
            have hi0 : i ≠ 0 := by omega
            have : y j ≤ y (i-1) := by
              rcases Nat.lt_or_ge j (i-1) with hlt | hge
              · exact (hy j (i-1) hlt (by omega)).le
              · have : j = i-1 := by omega
                rw [this]
            have hlo' : lo = y (i-1) := by rw [hlo]; simp [hi0]
            linarith
          · intro j hj hjn
            rcases Nat.lt_or_ge i j with hlt | hge
            · exact lt_trans ht2 (hy i j hlt hjn)
            · have : j = i := by omega
              rw [this]; exact ht2
        exact (h _ _ hc).2
      have htend : Tendsto F (𝓝[<] (y i)) (𝓝 (F (y i))) :=
        (hcont.tendsto (y i)).mono_left nhdsWithin_le_nhds
      have hev : ∀ᶠ t in 𝓝[<] (y i), F t ≤ U i := by
        have : Set.Ioo lo (y i) ∈ 𝓝[<] (y i) := Ioo_mem_nhdsLT hlo_lt
        filter_upwards [this] with t ht
        exact hwin t ht.1 ht.2
      exact le_of_tendsto htend hev
  · intro h t k ⟨hkn, hle, hgt⟩
    constructor
    · rcases Nat.eq_zero_or_pos k with rfl | hk
      · exact le_trans hL0 (h0 t)
      · have hb := (h (k-1) (by omega)).1
        have hk1 : k - 1 + 1 = k := by omega
        rw [hk1] at hb
        exact le_trans hb (hmono (hle (k-1) (by omega)))
    · rcases Nat.lt_or_ge k n with hlt | hge
      · exact le_trans (hmono (hgt k le_rfl hlt).le) (h k hlt).2
      · have : k = n := by omega
        rw [this]; exact le_trans (h1 t) hUn

#print axioms band_contains_iff_box

/-- the count relation is functional: for strictly increasing `y` there is exactly one `k` -/
theorem isCount_unique (n : ℕ) (y : ℕ → ℝ) (t : ℝ) (k k' : ℕ)
    (h : IsCount n y t k) (h' : IsCount n y t k') : k = k' := by
  obtain ⟨hk, hle, hgt⟩ := h
  obtain ⟨hk', hle', hgt'⟩ := h'
  by_contra hne
  rcases Nat.lt_or_gt_of_ne hne with hlt | hlt
  · have := hgt k le_rfl (by omega)
    have := hle' k hlt
    linarith
  · have := hgt' k' le_rfl (by omega)
    have := hle k' hlt
    linarith

/-- C01-T2: for the DKW / KS tables `L k = k/n − ε`, `U k = k/n + ε` (before clipping; clipping is
vacuous because `0 ≤ F ≤ 1`), the box says that the Kolmogorov distance is at most ε, written
as the `2n` one-sided inequalities at the order statistics. -/
theorem dkw_box (n : ℕ) (hn : 0 < n) (y : ℕ → ℝ) (F : ℝ → ℝ) (ε : ℝ) :
    (∀ i, i < n → ((i+1 : ℕ) : ℝ)/n - ε ≤ F (y i) ∧ F (y i) ≤ ((i : ℕ) : ℝ)/n + ε)
      ↔ (∀ i, i < n → ((i+1 : ℕ) : ℝ)/n - F (y i) ≤ ε ∧ F (y i) - ((i : ℕ) : ℝ)/n ≤ ε) := by
  constructor <;> intro h i hi <;> obtain ⟨h1, h2⟩ := h i hi <;> constructor <;> linarith

end Opda.Band
