import OpdaModel.RectProb
import OpdaProofs.BetaBinom
import Mathlib.Algebra.BigOperators.Fin
import Mathlib.Algebra.BigOperators.Ring.Finset
import Mathlib.Data.Fintype.BigOperators
import Mathlib.Data.Nat.Choose.Sum
import Mathlib.Tactic

/-!
# The dynamic programme of `OpdaModel/RectProb.lean` is a sum over assignments of points to cells (C01, stage 2)

* `W cells r c` — the recursion the programme tabulates: distribute `r` points over the list of cells, `c` points lying
  to the left; a cell is a pair `(length, allowed cumulative counts at its right end)`;
* `W_eq_sum`: `W cells (card ι) c = Σ_{g : ι → Fin K} [Valid g] ∏ₓ len (g x)` for every finite type `ι` of points
  (induction on the cells: peel off the set `S` of points sent to the first cell, `Σ_S f(|S|) = Σ_m C(r,m) f(m)`);
* `run_getD`: the array programme computes `W`;  `coverage_eq_sum`: the statement for `Opda.RectProb.coverage`.
-/
namespace Opda.RectProbP
open Finset

section abstract
variable {α : Type*} [CommSemiring α]

/-- the recursion behind the dynamic programme -/
def W : List (α × (ℕ → Bool)) → ℕ → ℕ → α
  | [], r, _ => if r = 0 then 1 else 0
  | cell :: rest, r, c =>
      ∑ m ∈ range (r + 1),
        (r.choose m : α) * cell.1 ^ m * (if cell.2 (c + m) = true then W rest (r - m) (c + m) else 0)

/-- an assignment `g` of points to cells is valid (with `c` points to the left of all cells) iff at the right end of
every cell `k` the cumulative count `c + #{x | g x ≤ k}` is allowed -/
def Valid (cells : List (α × (ℕ → Bool))) {ι : Type} [Fintype ι] (c : ℕ) (g : ι → Fin cells.length) : Prop :=
  ∀ k : Fin cells.length, (cells[k]).2 (c + #{x | g x ≤ k}) = true

instance (cells : List (α × (ℕ → Bool))) {ι : Type} [Fintype ι] (c : ℕ) (g : ι → Fin cells.length) :
    Decidable (Valid cells c g) := by unfold Valid; infer_instance

/-- extend an assignment of the points outside `S` to the cells `1..K` by sending `S` to cell `0` -/
def ext {ι : Type} [DecidableEq ι] {K : ℕ} (S : Finset ι) (g' : {x // x ∉ S} → Fin K) : ι → Fin (K + 1) :=
  fun x => if h : x ∈ S then 0 else (g' ⟨x, h⟩).succ

theorem ext_mem {ι : Type} [DecidableEq ι] {K : ℕ} (S : Finset ι) (g' : {x // x ∉ S} → Fin K) {x : ι}
    (h : x ∈ S) : ext S g' x = 0 := by simp [ext, h]

theorem ext_not_mem {ι : Type} [DecidableEq ι] {K : ℕ} (S : Finset ι) (g' : {x // x ∉ S} → Fin K)
    (x : {x // x ∉ S}) : ext S g' x = (g' x).succ := by simp [ext, x.2]

theorem ext_eq_zero_iff {ι : Type} [DecidableEq ι] {K : ℕ} (S : Finset ι) (g' : {x // x ∉ S} → Fin K) (x : ι) :
    ext S g' x = 0 ↔ x ∈ S := by
  unfold ext
  split_ifs with h
  · simp [h]
  · simp [h, Fin.succ_ne_zero]

@[to_additive]
theorem prod_split {ι : Type} [Fintype ι] [DecidableEq ι] {M : Type*} [CommMonoid M] (S : Finset ι) (f : ι → M) :
    ∏ x, f x = (∏ x ∈ S, f x) * ∏ x : {x // x ∉ S}, f x := by
  rw [← Finset.prod_mul_prod_compl S f]
  congr 1
  exact Finset.prod_subtype _ (fun x => by simp) f

theorem card_filter_split {ι : Type} [Fintype ι] [DecidableEq ι] (S : Finset ι) (p : ι → Prop) [DecidablePred p] :
    #{x | p x} = #{x ∈ S | p x} + #{x : {x // x ∉ S} | p x} := by
  rw [Finset.card_filter, Finset.card_filter, Finset.card_filter, sum_split S]

/-- what `ext S g'` contributes: counts -/
theorem count_ext_zero {ι : Type} [Fintype ι] [DecidableEq ι] {K : ℕ} (S : Finset ι) (g' : {x // x ∉ S} → Fin K) :
    #{x | ext S g' x ≤ 0} = #S := by
  congr 1
  ext x
  simp [ext_eq_zero_iff]

theorem count_ext_succ {ι : Type} [Fintype ι] [DecidableEq ι] {K : ℕ} (S : Finset ι) (g' : {x // x ∉ S} → Fin K)
    (k : Fin K) : #{x | ext S g' x ≤ k.succ} = #S + #{x | g' x ≤ k} := by
  rw [card_filter_split S]
  congr 1
  · congr 1
    ext x
    simp only [mem_filter, and_iff_left_iff_imp]
    intro hx
    rw [ext_mem S g' hx]
    exact Fin.zero_le _
  · congr 1
    ext x
    simp only [mem_filter, mem_univ, true_and]
    rw [ext_not_mem S g' x, Fin.succ_le_succ_iff]

omit [CommSemiring α] in
theorem valid_ext {ι : Type} [Fintype ι] [DecidableEq ι] (cell : α × (ℕ → Bool)) (rest : List (α × (ℕ → Bool)))
    (c : ℕ) (S : Finset ι) (g' : {x // x ∉ S} → Fin rest.length) :
    Valid (cell :: rest) c (ext S g' : ι → Fin (cell :: rest).length)
      ↔ cell.2 (c + #S) = true ∧ Valid rest (c + #S) g' := by
  unfold Valid
  constructor
  · intro h
    refine ⟨?_, fun k => ?_⟩
    · have := h (0 : Fin (rest.length + 1))
      rw [count_ext_zero] at this
      simpa using this
    · have := h k.succ
      rw [count_ext_succ] at this
      simpa [add_assoc] using this
  · rintro ⟨h0, hk⟩ k
    refine Fin.cases ?_ (fun k' => ?_) k
    · rw [count_ext_zero]; simpa using h0
    · rw [count_ext_succ]; simpa [add_assoc] using hk k'

theorem prod_ext {ι : Type} [Fintype ι] [DecidableEq ι] (cell : α × (ℕ → Bool)) (rest : List (α × (ℕ → Bool)))
    (S : Finset ι) (g' : {x // x ∉ S} → Fin rest.length) :
    ∏ x, ((cell :: rest)[(ext S g' x : Fin (cell :: rest).length)]).1 = cell.1 ^ #S * ∏ x, (rest[g' x]).1 := by
  rw [prod_split S]
  congr 1
  · rw [← Finset.prod_const]
    refine Finset.prod_congr rfl fun x hx => ?_
    rw [ext_mem S g' hx]; simp
  · refine Finset.prod_congr rfl fun x _ => ?_
    rw [ext_not_mem S g' x]; simp

/-- the assignments whose first cell receives exactly `S` are the extensions of the assignments of the other points
to the other cells -/
theorem sum_fiber {ι : Type} [Fintype ι] [DecidableEq ι] {K : ℕ} (S : Finset ι) (F : (ι → Fin (K + 1)) → α) :
    ∑ g : ι → Fin (K + 1) with (univ.filter fun x => g x = 0) = S, F g
      = ∑ g' : {x // x ∉ S} → Fin K, F (ext S g') := by
  symm
  refine Finset.sum_nbij (ext S) ?_ ?_ ?_ (fun _ _ => rfl)
  · intro g' _
    simp only [mem_filter, mem_univ, true_and]
    ext x
    simp [ext_eq_zero_iff]
  · intro g₁ _ g₂ _ h
    funext x
    have := congrFun h x
    rw [ext_not_mem, ext_not_mem] at this
    exact Fin.succ_injective _ this
  · intro g hg
    have hg : (univ.filter fun x => g x = 0) = S := by simpa using hg
    have hS : ∀ x, x ∈ S ↔ g x = 0 := by
      intro x; rw [← hg]; simp
    have hne : ∀ x : {x // x ∉ S}, g x ≠ 0 := fun x h0 => x.2 ((hS x).mpr h0)
    refine ⟨fun x => (g x).pred (hne x), by simp, ?_⟩
    funext x
    by_cases hx : x ∈ S
    · rw [ext_mem S _ hx]
      exact ((hS x).mp hx).symm
    · have := ext_not_mem S (fun x => (g x).pred (hne x)) ⟨x, hx⟩
      simpa using this

/-- **the recursion is the sum over all assignments of the points to the cells** -/
theorem W_eq_sum (cells : List (α × (ℕ → Bool))) : ∀ (ι : Type) [Fintype ι] [DecidableEq ι] (c : ℕ),
    W cells (Fintype.card ι) c
      = ∑ g : ι → Fin cells.length, if Valid cells c g then ∏ x, (cells[g x]).1 else 0 := by
  induction cells with
  | nil =>
    intro ι _ _ c
    rcases isEmpty_or_nonempty ι with hι | hι
    · simp [W, Valid]
    · have : IsEmpty (ι → Fin ([] : List (α × (ℕ → Bool))).length) := by
        refine ⟨fun g => ?_⟩
        exact (g (Classical.arbitrary ι)).elim0
      rw [Finset.sum_of_isEmpty]
      simp [W, Fintype.card_ne_zero]
  | cons cell rest ih =>
    intro ι _ _ c
    rw [← Finset.sum_fiberwise (univ : Finset (ι → Fin (cell :: rest).length))
      (fun g => univ.filter fun x => g x = 0)]
    have h2 : ∀ S : Finset ι,
        (∑ g : ι → Fin (cell :: rest).length with (univ.filter fun x => g x = 0) = S,
          if Valid (cell :: rest) c g then ∏ x, ((cell :: rest)[g x]).1 else 0)
        = cell.1 ^ #S * (if cell.2 (c + #S) = true then W rest (Fintype.card ι - #S) (c + #S) else 0) := by
      intro S
      have := sum_fiber (K := rest.length) S
        (fun g : ι → Fin (rest.length + 1) => if Valid (cell :: rest) c g then ∏ x, ((cell :: rest)[g x]).1 else 0)
      refine this.trans ?_
      have hcard : Fintype.card {x // x ∉ S} = Fintype.card ι - #S := by
        rw [Fintype.card_subtype_compl, Fintype.card_coe]
      rw [← hcard, ih {x // x ∉ S} (c + #S)]
      by_cases h0 : cell.2 (c + #S) = true
      · rw [if_pos h0, Finset.mul_sum]
        refine Finset.sum_congr rfl fun g' _ => ?_
        have hv := valid_ext cell rest c S g'
        by_cases hv' : Valid rest (c + #S) g'
        · rw [if_pos hv', if_pos (hv.mpr ⟨h0, hv'⟩)]
          exact prod_ext cell rest S g'
        · rw [if_neg hv', if_neg (fun h => hv' (hv.mp h).2), mul_zero]
      · rw [if_neg h0, mul_zero]
        refine Finset.sum_eq_zero fun g' _ => ?_
        rw [if_neg (fun h => h0 ((valid_ext cell rest c S g').mp h).1)]
    rw [Finset.sum_congr rfl (fun S _ => h2 S)]
    have h3 := Finset.sum_powerset_apply_card (x := (univ : Finset ι))
      (fun m => cell.1 ^ m * (if cell.2 (c + m) = true then W rest (Fintype.card ι - m) (c + m) else 0))
    rw [Finset.powerset_univ, Finset.card_univ] at h3
    rw [h3, W]
    refine Finset.sum_congr rfl fun m _ => ?_
    rw [nsmul_eq_mul, mul_assoc]

/-- the same sum with the cells described by functions on `Fin K` -/
theorem sum_cells_congr {ι : Type} [Fintype ι] [DecidableEq ι] (cells : List (α × (ℕ → Bool))) (c : ℕ) (K : ℕ) (hK : cells.length = K)
    (len : Fin K → α) (ok : Fin K → ℕ → Bool)
    (hcell : ∀ k : Fin K, cells[k.val]'(hK ▸ k.isLt) = (len k, ok k)) :
    (∑ g : ι → Fin cells.length, if Valid cells c g then ∏ x, (cells[g x]).1 else 0)
      = ∑ g : ι → Fin K, if (∀ k : Fin K, ok k (c + #{x | g x ≤ k}) = true) then ∏ x, len (g x) else 0 := by
  subst hK
  refine Finset.sum_congr rfl fun g _ => ?_
  have hv : Valid cells c g ↔ ∀ k : Fin cells.length, ok k (c + #{x | g x ≤ k}) = true := by
    unfold Valid
    refine forall_congr' fun k => ?_
    have := hcell k
    simp only [Fin.getElem_fin, this]
  have hp : ∏ x, (cells[g x]).1 = ∏ x, len (g x) := by
    refine Finset.prod_congr rfl fun x _ => ?_
    have := hcell (g x)
    simp only [Fin.getElem_fin, this]
  rw [hp]
  by_cases h : Valid cells c g
  · rw [if_pos h, if_pos (hv.mp h)]
  · rw [if_neg h, if_neg (fun h' => h (hv.mpr h'))]

end abstract

/-! ## the array programme computes `W` -/
section programme
open Opda.RectProb

theorem tab_getD {γ : Type} (k : ℕ) (f : ℕ → γ) (i : ℕ) (d : γ) :
    (tab k f).getD i d = if i < k then f i else d := by
  unfold tab
  by_cases h : i < k
  · simp [Array.getD, h]
  · simp [Array.getD, h]

theorem sumTo_eq (f : ℕ → ℚ) (k : ℕ) : sumTo f k = ∑ i ∈ range k, f i := by
  induction k with
  | zero => simp [sumTo]
  | succ k ih => rw [sumTo, ih, Finset.sum_range_succ]

theorem binom_getD (n r m : ℕ) (hr : r ≤ n) (hm : m ≤ n) :
    ((binom n).getD r #[]).getD m 0 = r.choose m := by
  unfold binom
  rw [tab_getD, if_pos (show r < n + 1 by omega), tab_getD, if_pos (show m < n + 1 by omega), Opda.BetaBinomP.choose_eq]

theorem step_getD (n : ℕ) (len : ℚ) (ok : ℕ → Bool) (w : Array ℚ) (c : ℕ) (hc : c ≤ n) :
    (step n (binom n) len ok w).getD c 0
      = ∑ m ∈ range (n - c + 1),
          ((n - c).choose m : ℚ) * len ^ m * (if ok (c + m) = true then w.getD (c + m) 0 else 0) := by
  unfold step
  simp only []
  rw [tab_getD, if_pos (show c < n + 1 by omega), sumTo_eq]
  refine Finset.sum_congr rfl fun m hm => ?_
  have hm' : m ≤ n - c := by simpa [Nat.lt_succ_iff] using hm
  have e1 : (tab (n + 1) fun c => if ok c = true then w.getD c 0 else 0).getD (c + m) 0
      = if ok (c + m) = true then w.getD (c + m) 0 else 0 := by
    rw [tab_getD, if_pos (show c + m < n + 1 by omega)]
  have e2 : (tab (n + 1) fun m => len ^ m).getD m 0 = len ^ m := by
    rw [tab_getD, if_pos (show m < n + 1 by omega)]
  rw [e1, e2, binom_getD n (n - c) m (by omega) (by omega)]
  by_cases hx : (if ok (c + m) = true then w.getD (c + m) 0 else 0) = 0
  · rw [if_pos hx, hx, mul_zero]
  · rw [if_neg hx]

theorem run_getD (n : ℕ) (cells : List (ℚ × (ℕ → Bool))) : ∀ c, c ≤ n →
    (run n (binom n) cells).getD c 0 = W cells (n - c) c := by
  induction cells with
  | nil =>
    intro c hc
    rw [run, tab_getD, if_pos (show c < n + 1 by omega), W]
    have : (c = n) ↔ (n - c = 0) := by omega
    simp only [this]
  | cons cell rest ih =>
    intro c hc
    obtain ⟨len, ok⟩ := cell
    rw [run, step_getD n len ok _ c hc, W]
    refine Finset.sum_congr rfl fun m hm => ?_
    have hm' : m ≤ n - c := by simpa [Nat.lt_succ_iff] using hm
    rw [ih (c + m) (by omega)]
    have : n - (c + m) = n - c - m := by omega
    rw [this]

/-- **`coverage` is the sum, over all assignments `g` of the `n` points to the `K` cells, of `∏ⱼ len (g j)` for the
valid ones** (`Valid`: at the right end of every cell the cumulative count is allowed by `okAt`) -/
theorem coverage_eq_sum (alpha beta : List ℚ) :
    coverage alpha beta
      = ∑ g : Fin alpha.length → Fin (cells alpha beta).length,
          if Valid (cells alpha beta) 0 g then ∏ j, ((cells alpha beta)[g j]).1 else 0 := by
  unfold coverage
  simp only []
  rw [run_getD _ _ 0 (Nat.zero_le _), Nat.sub_zero]
  have := W_eq_sum (cells alpha beta) (Fin alpha.length) 0
  rwa [Fintype.card_fin] at this

theorem okUpper_iff : ∀ (bs : List ℚ) (i : ℕ) (q : ℚ) (c : ℕ),
    okUpper bs i q c = true ↔ ∀ j (h : j < bs.length), bs[j] ≤ q → i + j + 1 ≤ c := by
  intro bs
  induction bs with
  | nil => intro i q c; simp [okUpper]
  | cons b bs ih =>
    intro i q c
    simp only [okUpper, Bool.and_eq_true, Bool.or_eq_true, Bool.not_eq_true', decide_eq_false_iff_not,
      decide_eq_true_eq, ih]
    constructor
    · rintro ⟨h0, hs⟩ j hj hle
      cases j with
      | zero =>
        rcases h0 with h0 | h0
        · exact absurd (by simpa using hle) h0
        · simpa using h0
      | succ j =>
        have := hs j (by simpa using hj) (by simpa using hle)
        omega
    · intro h
      refine ⟨?_, fun j hj hle => ?_⟩
      · by_cases hb : b ≤ q
        · right; simpa using h 0 (by simp) (by simpa using hb)
        · left; exact hb
      · have := h (j + 1) (by simpa using hj) (by simpa using hle)
        omega

theorem okLower_iff : ∀ (as : List ℚ) (i : ℕ) (q : ℚ) (c : ℕ),
    okLower as i q c = true ↔ ∀ j (h : j < as.length), q ≤ as[j] → c ≤ i + j := by
  intro as
  induction as with
  | nil => intro i q c; simp [okLower]
  | cons a as ih =>
    intro i q c
    simp only [okLower, Bool.and_eq_true, Bool.or_eq_true, Bool.not_eq_true', decide_eq_false_iff_not,
      decide_eq_true_eq, ih]
    constructor
    · rintro ⟨h0, hs⟩ j hj hle
      cases j with
      | zero =>
        rcases h0 with h0 | h0
        · exact absurd (by simpa using hle) h0
        · simpa using h0
      | succ j =>
        have := hs j (by simpa using hj) (by simpa using hle)
        omega
    · intro h
      refine ⟨?_, fun j hj hle => ?_⟩
      · by_cases hb : q ≤ a
        · right; simpa using h 0 (by simp) (by simpa using hb)
        · left; exact hb
      · have := h (j + 1) (by simpa using hj) (by simpa using hle)
        omega

/-- `okAt α β q c`: a count `c = #{j : U_j ≤ q}` is compatible with `αᵢ ≤ U₍ᵢ₎ ≤ βᵢ` for all `i` iff
`βᵢ ≤ q → i + 1 ≤ c` and `q ≤ αᵢ → c ≤ i` (0-based `i`) -/
theorem okAt_iff (alpha beta : List ℚ) (q : ℚ) (c : ℕ) :
    okAt alpha beta q c = true
      ↔ (∀ i (h : i < beta.length), beta[i] ≤ q → i + 1 ≤ c) ∧ (∀ i (h : i < alpha.length), q ≤ alpha[i] → c ≤ i) := by
  simp only [okAt, Bool.and_eq_true, okUpper_iff, okLower_iff, Nat.zero_add]

/-- left end point of cell `k` of a list of break points (`0` for the first cell) -/
def cellLeft (pts : List ℚ) (k : ℕ) : ℚ := if k = 0 then 0 else pts.getD (k - 1) 0

theorem length_cellsOf (a b : List ℚ) : ∀ (qs : List ℚ) (prev : ℚ), (cellsOf a b prev qs).length = qs.length := by
  intro qs
  induction qs with
  | nil => intro prev; rfl
  | cons q qs ih => intro prev; simp [cellsOf, ih]

theorem getElem_cellsOf (a b : List ℚ) : ∀ (qs : List ℚ) (prev : ℚ) (k : ℕ) (h : k < qs.length),
    (cellsOf a b prev qs)[k]'(by rw [length_cellsOf]; exact h)
      = (qs[k] - (if k = 0 then prev else qs.getD (k - 1) 0), okAt a b qs[k]) := by
  intro qs
  induction qs with
  | nil => intro prev k h; simp at h
  | cons q qs ih =>
    intro prev k h
    cases k with
    | zero => simp [cellsOf]
    | succ k =>
      have h' : k < qs.length := by simpa using h
      simp only [cellsOf, List.getElem_cons_succ]
      rw [ih q k h']
      cases k with
      | zero => simp
      | succ k => simp

/-- **stage 2**: `coverage` as a sum over all assignments `g` of the `n` points to the `K` cells `(q₍ₖ₋₁₎, qₖ]` between
consecutive break points: the product of the cell lengths if at every break point the number of points assigned to
cells up to it is allowed (`okAt`), else `0` -/
theorem coverage_eq_sum_points (alpha beta : List ℚ) :
    coverage alpha beta
      = ∑ g : Fin alpha.length → Fin (points alpha beta).length,
          if (∀ k : Fin (points alpha beta).length, okAt alpha beta (points alpha beta)[k] #{j | g j ≤ k} = true)
          then ∏ j, ((points alpha beta)[g j] - cellLeft (points alpha beta) (g j)) else 0 := by
  rw [coverage_eq_sum]
  have := sum_cells_congr (ι := Fin alpha.length) (cells alpha beta) 0 (points alpha beta).length
    (length_cellsOf alpha beta _ 0)
    (fun k => (points alpha beta)[k] - cellLeft (points alpha beta) k)
    (fun k => okAt alpha beta (points alpha beta)[k])
    (fun k => by
      have := getElem_cellsOf alpha beta (points alpha beta) 0 k.val k.isLt
      simpa [cells, cellLeft] using this)
  simpa using this

end programme

end Opda.RectProbP
