import OpdaProofs.EmpStep
import Mathlib.Data.EReal.Basic
/-!
C03: right-continuity of the cdf in the usual real sense (values in `EReal`, so that ±∞ observations and bounds are covered).
-/
set_option linter.unusedSectionVars false
namespace Opda.Emp

/-! ## right-continuity over the reals -/

/-- **right-continuity in the usual sense**: values in `EReal` (finite observations, ±∞ allowed), real query `y`:
there is `δ > 0` with `cdf y' = cdf y` for all real `y' ∈ [y, y+δ)`. -/
theorem cdf_right_continuous_real {α : Type} [Field α] [LinearOrder α] [IsStrictOrderedRing α]
    (a b : EReal) (obs : List (EReal × α)) (y : ℝ) :
    ∃ δ : ℝ, 0 < δ ∧ ∀ y' : ℝ, y ≤ y' → y' < y + δ →
      cdf (support ⊥ ⊤ a b obs) (y' : EReal) = cdf (support ⊥ ⊤ a b obs) (y : EReal) := by
  obtain ⟨z, hz, hconst⟩ := cdf_right_continuous a b obs (y : EReal) (EReal.coe_lt_top y)
  induction z using EReal.rec with
  | bot => exact absurd hz (not_lt_bot)
  | coe r =>
    have hyr : y < r := EReal.coe_lt_coe_iff.mp hz
    refine ⟨r - y, by linarith, fun y' h1 h2 => hconst _ (EReal.coe_le_coe_iff.mpr h1) ?_⟩
    exact EReal.coe_lt_coe_iff.mpr (by linarith)
  | top =>
    exact ⟨1, one_pos, fun y' h1 _ => hconst _ (EReal.coe_le_coe_iff.mpr h1) (EReal.coe_lt_top y')⟩

end Opda.Emp
