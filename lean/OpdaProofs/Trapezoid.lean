import Mathlib.Algebra.BigOperators.Intervals
import Mathlib.Data.Real.Basic
import Mathlib.Tactic

/-!
C08-T3: the refinement loop of `NoisyQuadraticDistribution.average_tuning_curve`
(`ys = 0.5*ys + h*sum(g(lo + arange(1, 2**i, 2)*h))` with `h` halved each round) computes exactly
the composite trapezoid sum on `2^i` panels, for any integrand.
-/
namespace Opda.Trap
open Finset

noncomputable def h (lo hi : ℝ) (i : ℕ) : ℝ := (hi - lo) / 2^i

/-- sum over all left grid points `lo + k h_i`, `k < 2^i` -/
noncomputable def S (g : ℝ → ℝ) (lo hi : ℝ) (i : ℕ) : ℝ := ∑ k ∈ range (2^i), g (lo + k * h lo hi i)

/-- sum over the new (odd) grid points of level `i+1` -/
noncomputable def O (g : ℝ → ℝ) (lo hi : ℝ) (i : ℕ) : ℝ :=
  ∑ j ∈ range (2^i), g (lo + (2 * j + 1) * h lo hi (i+1))

/-- composite trapezoid rule on `2^i` panels -/
noncomputable def trap (g : ℝ → ℝ) (lo hi : ℝ) (i : ℕ) : ℝ :=
  h lo hi i * (S g lo hi i - g lo / 2 + g hi / 2)

/-- the loop as written in the code -/
noncomputable def loop (g : ℝ → ℝ) (lo hi : ℝ) : ℕ → ℝ
  | 0 => 0.5 * (hi - lo) * (g lo + g hi)
  | i+1 => 0.5 * loop g lo hi i + h lo hi (i+1) * O g lo hi i

theorem sum_range_two_mul (f : ℕ → ℝ) (m : ℕ) :
    ∑ k ∈ range (2 * m), f k = ∑ j ∈ range m, f (2 * j) + ∑ j ∈ range m, f (2 * j + 1) := by
  induction m with
  | zero => simp
  | succ m ih =>
    rw [show 2 * (m + 1) = 2 * m + 1 + 1 by ring, sum_range_succ, sum_range_succ, ih,
      sum_range_succ, sum_range_succ]
    ring

theorem h_succ (lo hi : ℝ) (i : ℕ) : h lo hi i = 2 * h lo hi (i+1) := by
  unfold h; rw [pow_succ]; field_simp

theorem S_succ (g : ℝ → ℝ) (lo hi : ℝ) (i : ℕ) : S g lo hi (i+1) = S g lo hi i + O g lo hi i := by
  unfold S O
  rw [pow_succ, mul_comm, sum_range_two_mul]
  congr 1
  · apply sum_congr rfl
    intro j _
    rw [h_succ lo hi i]; push_cast; ring_nf
  · apply sum_congr rfl
    intro j _
    push_cast; ring_nf

theorem loop_eq_trap (g : ℝ → ℝ) (lo hi : ℝ) (i : ℕ) : loop g lo hi i = trap g lo hi i := by
  induction i with
  | zero => simp [loop, trap, h, S]; ring
  | succ i ih =>
    rw [loop, ih, trap, trap, S_succ, h_succ lo hi i]; ring

#print axioms loop_eq_trap
end Opda.Trap
