import OpdaProofs.Experiments
import Mathlib.MeasureTheory.Measure.Lebesgue.VolumeOfBalls
import Mathlib.MeasureTheory.Measure.Lebesgue.EqHaar
import Mathlib.LinearAlgebra.Matrix.ToLin
import Mathlib.Analysis.Matrix.Spectrum
import Mathlib.Analysis.Matrix.PosDef
import Mathlib.Probability.ConditionalProbability
import Mathlib.Tactic

/-!
C20, stage 3: the volume formula behind `ellipse_volume` and `get_approximation_parameters` is *derived* from
Mathlib's Lebesgue measure on `Fin d → ℝ` (`EuclideanSpace.volume_closedBall`, transported along the measure
preserving `WithLp.toLp 2`, and `Measure.addHaar_preimage_linearMap`, the `|det|` scaling), not assumed:

* `volume_ellipsoid`: `vol {x : Σ (x_i/c_i)² ≤ 1} = ellipse_volume(cs)`;
* `volume_superlevel_le/lt`: for `f(x) = b − ½ (x−x₀)ᵀ A (x−x₀)`, `A = Q diag(μ) Qᵀ`, `Q` orthogonal, `μ > 0`,
  `vol {f ≥ y} = vol {f > y} = ellipse_volume((2/μ_i)^{1/2}) · (b−y)^{d/2}`;
* `posDef_rotated`: every real positive definite matrix has that form with `μ` its eigenvalues (spectral theorem);
* `tail_exact_uniform`: for `X` uniform on a box containing the level ellipsoid `{f ≥ y}`, `P[f(X) ≥ y] = 1 − cdf(y)`
  for the concave quadratic distribution with the parameters the model of `get_approximation_parameters` returns.
-/
open MeasureTheory Real Matrix

namespace Opda.ExpVol
open Opda Opda.Exp

variable {d : ℕ}

theorem sqrt_pow_eq_rpow (x : ℝ) (hx : 0 ≤ x) (d : ℕ) : √x ^ d = x ^ ((d : ℝ) / 2) := by
  rw [Real.sqrt_eq_rpow, ← Real.rpow_natCast, ← Real.rpow_mul hx]
  congr 1; ring

/-! ### Euclidean balls in coordinates -/

/-- closed Euclidean ball of radius `r` in coordinates: Lebesgue volume `π^{d/2}/Γ(d/2+1) · r^d` -/
theorem volume_sq_le [NeZero d] (r : ℝ) (hr : 0 ≤ r) :
    volume {z : Fin d → ℝ | ∑ i, z i ^ 2 ≤ r ^ 2} = ENNReal.ofReal (ballCoeff d * r ^ d) := by
  have h := EuclideanSpace.volume_closedBall (Fin d) (0 : EuclideanSpace ℝ (Fin d)) r
  rw [← (PiLp.volume_preserving_toLp (Fin d)).measure_preimage
    Metric.isClosed_closedBall.measurableSet.nullMeasurableSet, EuclideanSpace.closedBall_zero_eq r hr] at h
  simp only [Set.preimage_ofPred_eq, Fintype.card_fin] at h
  rw [h, ← ENNReal.ofReal_pow hr, ← ENNReal.ofReal_mul (pow_nonneg hr _), sqrt_pow_eq_rpow π Real.pi_pos.le,
    ballCoeff, mul_comm]

/-- open Euclidean ball -/
theorem volume_sq_lt [NeZero d] (r : ℝ) (hr : 0 ≤ r) :
    volume {z : Fin d → ℝ | ∑ i, z i ^ 2 < r ^ 2} = ENNReal.ofReal (ballCoeff d * r ^ d) := by
  have h := EuclideanSpace.volume_ball (Fin d) (0 : EuclideanSpace ℝ (Fin d)) r
  rw [← (PiLp.volume_preserving_toLp (Fin d)).measure_preimage
    Metric.isOpen_ball.measurableSet.nullMeasurableSet, EuclideanSpace.ball_zero_eq r hr] at h
  simp only [Set.preimage_ofPred_eq, Fintype.card_fin] at h
  rw [h, ← ENNReal.ofReal_pow hr, ← ENNReal.ofReal_mul (pow_nonneg hr _), sqrt_pow_eq_rpow π Real.pi_pos.le,
    ballCoeff, mul_comm]

/-- affine preimage `x ↦ T (x − x₀)`: translation invariance and `|det|` scaling of Lebesgue measure -/
theorem volume_affine_preimage (T : (Fin d → ℝ) →ₗ[ℝ] (Fin d → ℝ)) (hT : LinearMap.det T ≠ 0) (x₀ : Fin d → ℝ)
    (S : Set (Fin d → ℝ)) :
    volume {x : Fin d → ℝ | T (x - x₀) ∈ S} = ENNReal.ofReal |(LinearMap.det T)⁻¹| * volume S := by
  have : {x : Fin d → ℝ | T (x - x₀) ∈ S} = (fun h => h + (-x₀)) ⁻¹' (T ⁻¹' S) := by
    ext x; simp [sub_eq_add_neg]
  rw [this, measure_preimage_add_right, Measure.addHaar_preimage_linearMap _ hT]

/-! ### quadratic forms `vᵀ (Q diag(μ) Qᵀ) v` -/

/-- `vᵀ A v` -/
def quadForm (A : Matrix (Fin d) (Fin d) ℝ) (v : Fin d → ℝ) : ℝ := v ⬝ᵥ (A *ᵥ v)

theorem quadForm_rotated (Q : Matrix (Fin d) (Fin d) ℝ) (μ : Fin d → ℝ) (v : Fin d → ℝ) :
    quadForm (Q * diagonal μ * Qᵀ) v = ∑ i, μ i * ((Qᵀ *ᵥ v) i) ^ 2 := by
  unfold quadForm
  rw [← mulVec_mulVec, ← mulVec_mulVec, dotProduct_mulVec, ← mulVec_transpose]
  simp only [dotProduct, mulVec_diagonal]
  apply Finset.sum_congr rfl
  intro i _
  ring

/-- the linear map `v ↦ (√μ_i · (Qᵀ v)_i)_i` -/
noncomputable def whiten (Q : Matrix (Fin d) (Fin d) ℝ) (μ : Fin d → ℝ) : (Fin d → ℝ) →ₗ[ℝ] (Fin d → ℝ) :=
  Matrix.toLin' (diagonal (fun i => √(μ i)) * Qᵀ)

theorem whiten_apply (Q : Matrix (Fin d) (Fin d) ℝ) (μ : Fin d → ℝ) (v : Fin d → ℝ) (i : Fin d) :
    whiten Q μ v i = √(μ i) * (Qᵀ *ᵥ v) i := by
  unfold whiten
  rw [Matrix.toLin'_apply, ← mulVec_mulVec, mulVec_diagonal]

theorem sum_sq_whiten (Q : Matrix (Fin d) (Fin d) ℝ) (μ : Fin d → ℝ) (hμ : ∀ i, 0 < μ i) (v : Fin d → ℝ) :
    ∑ i, (whiten Q μ v i) ^ 2 = quadForm (Q * diagonal μ * Qᵀ) v := by
  rw [quadForm_rotated]
  apply Finset.sum_congr rfl
  intro i _
  rw [whiten_apply, mul_pow, Real.sq_sqrt (hμ i).le]

theorem abs_det_of_orthogonal (Q : Matrix (Fin d) (Fin d) ℝ) (hQ : Qᵀ * Q = 1) : |Q.det| = 1 := by
  have h : Q.det * Q.det = 1 := by
    have := congrArg Matrix.det hQ
    rwa [det_mul, det_transpose, det_one] at this
  have : |Q.det| * |Q.det| = 1 := by rw [← abs_mul, h, abs_one]
  nlinarith [abs_nonneg Q.det]

theorem det_whiten (Q : Matrix (Fin d) (Fin d) ℝ) (μ : Fin d → ℝ) :
    LinearMap.det (whiten Q μ) = (∏ i, √(μ i)) * Q.det := by
  unfold whiten
  rw [LinearMap.det_toLin', det_mul, det_diagonal, det_transpose]

theorem abs_det_whiten (Q : Matrix (Fin d) (Fin d) ℝ) (hQ : Qᵀ * Q = 1) (μ : Fin d → ℝ) (hμ : ∀ i, 0 < μ i) :
    |LinearMap.det (whiten Q μ)| = ∏ i, √(μ i) := by
  rw [det_whiten, abs_mul, abs_det_of_orthogonal Q hQ, mul_one]
  exact abs_of_pos (Finset.prod_pos fun i _ => Real.sqrt_pos.mpr (hμ i))

/-! ### the objective and its level sets -/

/-- strictly concave quadratic objective with maximum `b` at `x₀` and curvature matrix `A` (Hessian `−A`) -/
noncomputable def quadObjective (A : Matrix (Fin d) (Fin d) ℝ) (x₀ : Fin d → ℝ) (b : ℝ) (x : Fin d → ℝ) : ℝ :=
  b - 1 / 2 * quadForm A (x - x₀)

theorem prod_sqrt_two_div (μ : Fin d → ℝ) :
    ∏ i, √(2 / μ i) = (2 : ℝ) ^ ((d : ℝ) / 2) / ∏ i, √(μ i) := by
  have : ∀ i, √(2 / μ i) = √2 / √(μ i) := fun i => Real.sqrt_div (by norm_num) _
  simp only [this]
  rw [Finset.prod_div_distrib, Finset.prod_const, Finset.card_univ, Fintype.card_fin,
    sqrt_pow_eq_rpow 2 (by norm_num)]

/-- the real number both level-set volumes equal -/
theorem level_arith (μ : Fin d → ℝ) (hμ : ∀ i, 0 < μ i) (t : ℝ) (ht : 0 ≤ t) :
    (∏ i, √(μ i))⁻¹ * (ballCoeff d * √(2 * t) ^ d) = ballCoeff d * (∏ i, √(2 / μ i)) * t ^ ((d : ℝ) / 2) := by
  have hp : 0 < ∏ i, √(μ i) := Finset.prod_pos fun i _ => Real.sqrt_pos.mpr (hμ i)
  rw [sqrt_pow_eq_rpow _ (by positivity), Real.mul_rpow (by norm_num) ht,
    prod_sqrt_two_div μ]
  field_simp

theorem superlevel_le_eq (Q : Matrix (Fin d) (Fin d) ℝ) (μ : Fin d → ℝ) (hμ : ∀ i, 0 < μ i) (x₀ : Fin d → ℝ)
    (b y : ℝ) (hy : y ≤ b) :
    {x | y ≤ quadObjective (Q * diagonal μ * Qᵀ) x₀ b x}
      = {x | whiten Q μ (x - x₀) ∈ {z : Fin d → ℝ | ∑ i, z i ^ 2 ≤ √(2 * (b - y)) ^ 2}} := by
  ext x
  simp only [Set.mem_ofPred_eq, quadObjective]
  rw [sum_sq_whiten Q μ hμ, Real.sq_sqrt (by linarith)]
  constructor <;> intro h <;> linarith

theorem superlevel_lt_eq (Q : Matrix (Fin d) (Fin d) ℝ) (μ : Fin d → ℝ) (hμ : ∀ i, 0 < μ i) (x₀ : Fin d → ℝ)
    (b y : ℝ) (hy : y ≤ b) :
    {x | y < quadObjective (Q * diagonal μ * Qᵀ) x₀ b x}
      = {x | whiten Q μ (x - x₀) ∈ {z : Fin d → ℝ | ∑ i, z i ^ 2 < √(2 * (b - y)) ^ 2}} := by
  ext x
  simp only [Set.mem_ofPred_eq, quadObjective]
  rw [sum_sq_whiten Q μ hμ, Real.sq_sqrt (by linarith)]
  constructor <;> intro h <;> linarith

/-- **level-set volume (closed)**: `vol {f ≥ y} = V_d · ∏√(2/μ_i) · (b−y)^{d/2}` -/
theorem volume_superlevel_le [NeZero d] (Q : Matrix (Fin d) (Fin d) ℝ) (hQ : Qᵀ * Q = 1) (μ : Fin d → ℝ)
    (hμ : ∀ i, 0 < μ i) (x₀ : Fin d → ℝ) (b y : ℝ) (hy : y ≤ b) :
    volume {x | y ≤ quadObjective (Q * diagonal μ * Qᵀ) x₀ b x}
      = ENNReal.ofReal (ballCoeff d * (∏ i, √(2 / μ i)) * (b - y) ^ ((d : ℝ) / 2)) := by
  have hdet : LinearMap.det (whiten Q μ) ≠ 0 := by
    rw [← abs_pos, abs_det_whiten Q hQ μ hμ]
    exact Finset.prod_pos fun i _ => Real.sqrt_pos.mpr (hμ i)
  rw [superlevel_le_eq Q μ hμ x₀ b y hy, volume_affine_preimage _ hdet, volume_sq_le _ (Real.sqrt_nonneg _),
    ← ENNReal.ofReal_mul (abs_nonneg _), abs_inv, abs_det_whiten Q hQ μ hμ,
    level_arith μ hμ (b - y) (by linarith)]

/-- **level-set volume (open)**: the boundary `{f = y}` is a null set -/
theorem volume_superlevel_lt [NeZero d] (Q : Matrix (Fin d) (Fin d) ℝ) (hQ : Qᵀ * Q = 1) (μ : Fin d → ℝ)
    (hμ : ∀ i, 0 < μ i) (x₀ : Fin d → ℝ) (b y : ℝ) (hy : y ≤ b) :
    volume {x | y < quadObjective (Q * diagonal μ * Qᵀ) x₀ b x}
      = ENNReal.ofReal (ballCoeff d * (∏ i, √(2 / μ i)) * (b - y) ^ ((d : ℝ) / 2)) := by
  have hdet : LinearMap.det (whiten Q μ) ≠ 0 := by
    rw [← abs_pos, abs_det_whiten Q hQ μ hμ]
    exact Finset.prod_pos fun i _ => Real.sqrt_pos.mpr (hμ i)
  rw [superlevel_lt_eq Q μ hμ x₀ b y hy, volume_affine_preimage _ hdet, volume_sq_lt _ (Real.sqrt_nonneg _),
    ← ENNReal.ofReal_mul (abs_nonneg _), abs_inv, abs_det_whiten Q hQ μ hμ,
    level_arith μ hμ (b - y) (by linarith)]

/-! ### connection with the model -/

/-- the Hessian eigenvalues handed to the model: `−μ_i` -/
def hessEigs (μ : Fin d → ℝ) : List ℝ := List.ofFn fun i => -μ i

/-- the `bounds` array as the model reads it -/
def boundsList (lo hi : Fin d → ℝ) : List (ℝ × ℝ) := List.ofFn fun i => (lo i, hi i)

theorem ellipseVolume_ofFn (c : Fin d → ℝ) : ellipseVolume (List.ofFn c) = ballCoeff d * ∏ i, c i := by
  rw [ellipseVolume_eq, List.length_ofFn, List.prod_ofFn]; rfl

theorem ellipseVolume_axes (μ : Fin d → ℝ) :
    ellipseVolume (axes (hessEigs μ)) = ballCoeff d * ∏ i, √(2 / μ i) := by
  rw [axes_eq, hessEigs, List.map_ofFn, ellipseVolume_ofFn]
  simp

theorem boxVolume_boundsList (lo hi : Fin d → ℝ) : boxVolume (boundsList lo hi) = ∏ i, (hi i - lo i) := by
  rw [boxVolume_eq, boundsList, List.map_ofFn, List.prod_ofFn]
  simp

theorem volume_box (lo hi : Fin d → ℝ) (h : ∀ i, lo i ≤ hi i) :
    volume (Set.Icc lo hi) = ENNReal.ofReal (boxVolume (boundsList lo hi)) := by
  rw [Real.volume_Icc_pi, boxVolume_boundsList, ENNReal.ofReal_prod_of_nonneg fun i _ => sub_nonneg.mpr (h i)]

theorem hessEigs_neg (μ : Fin d → ℝ) (hμ : ∀ i, 0 < μ i) : ∀ l ∈ hessEigs μ, l < 0 := by
  intro l hl
  obtain ⟨i, rfl⟩ := (List.mem_ofFn' _ _).mp hl
  exact neg_neg_of_pos (hμ i)

theorem boundsList_lt (lo hi : Fin d → ℝ) (h : ∀ i, lo i < hi i) : ∀ p ∈ boundsList lo hi, p.1 < p.2 := by
  intro p hp
  obtain ⟨i, rfl⟩ := (List.mem_ofFn' _ _).mp hp
  exact h i

/-- **`ellipse_volume` is the Lebesgue volume of the ellipsoid** with semi-axes `c_i > 0` -/
theorem volume_ellipsoid [NeZero d] (c : Fin d → ℝ) (hc : ∀ i, 0 < c i) :
    volume {x : Fin d → ℝ | ∑ i, (x i / c i) ^ 2 ≤ 1} = ENNReal.ofReal (ellipseVolume (List.ofFn c)) := by
  have hμ : ∀ i, 0 < 2 / (c i) ^ 2 := fun i => by have := hc i; positivity
  have h := volume_superlevel_le (1 : Matrix (Fin d) (Fin d) ℝ) (by simp) (fun i => 2 / (c i) ^ 2) hμ 0 1 0 zero_le_one
  have hset : {x : Fin d → ℝ | (0:ℝ) ≤ quadObjective (1 * diagonal (fun i => 2 / (c i) ^ 2) * (1 : Matrix (Fin d) (Fin d) ℝ)ᵀ) 0 1 x}
      = {x : Fin d → ℝ | ∑ i, (x i / c i) ^ 2 ≤ 1} := by
    ext x
    simp only [Set.mem_ofPred_eq, quadObjective]
    rw [quadForm_rotated]
    simp only [transpose_one, one_mulVec, sub_zero]
    have : ∑ i, 2 / (c i) ^ 2 * x i ^ 2 = 2 * ∑ i, (x i / c i) ^ 2 := by
      rw [Finset.mul_sum]
      apply Finset.sum_congr rfl
      intro i _
      rw [div_pow]; ring
    rw [this]
    constructor <;> intro h <;> linarith
  rw [hset] at h
  rw [h, ellipseVolume_ofFn]
  congr 1
  have : ∀ i, √(2 / (2 / c i ^ 2)) = c i := fun i => by
    have hci := hc i
    rw [show (2 : ℝ) / (2 / c i ^ 2) = c i ^ 2 by field_simp, Real.sqrt_sq hci.le]
  simp only [this, sub_zero, Real.one_rpow, mul_one]

/-- level sets of the objective in terms of the model's `ellipse_volume((-2/λ)^{1/2})` -/
theorem volume_superlevel_model [NeZero d] (Q : Matrix (Fin d) (Fin d) ℝ) (hQ : Qᵀ * Q = 1) (μ : Fin d → ℝ)
    (hμ : ∀ i, 0 < μ i) (x₀ : Fin d → ℝ) (b y : ℝ) (hy : y ≤ b) :
    volume {x | y ≤ quadObjective (Q * diagonal μ * Qᵀ) x₀ b x}
        = ENNReal.ofReal (ellipseVolume (axes (hessEigs μ)) * (b - y) ^ ((d : ℝ) / 2))
      ∧ volume {x | y < quadObjective (Q * diagonal μ * Qᵀ) x₀ b x}
        = ENNReal.ofReal (ellipseVolume (axes (hessEigs μ)) * (b - y) ^ ((d : ℝ) / 2)) := by
  rw [ellipseVolume_axes]
  exact ⟨volume_superlevel_le Q hQ μ hμ x₀ b y hy, volume_superlevel_lt Q hQ μ hμ x₀ b y hy⟩

/-! ### the property: uniform search on a box -/

theorem measurableSet_superlevel (A : Matrix (Fin d) (Fin d) ℝ) (x₀ : Fin d → ℝ) (b y : ℝ) :
    MeasurableSet {x | y ≤ quadObjective A x₀ b x} ∧ MeasurableSet {x | y < quadObjective A x₀ b x} := by
  have hc : Continuous (quadObjective A x₀ b) := by
    unfold quadObjective quadForm
    simp only [dotProduct, mulVec]
    fun_prop
  exact ⟨(isClosed_le continuous_const hc).measurableSet, (isOpen_lt continuous_const hc).measurableSet⟩

/-- **C20-T2, measure-theoretic form.**  `X` uniform on the box `[lo, hi]`; `f` the concave quadratic with maximum `b`
at `x₀` and curvature `Q diag(μ) Qᵀ`; `(a, b, c)` what the model of `get_approximation_parameters` returns from the
Hessian eigenvalues `−μ_i` and the bounds.  For every `y ∈ [a, b]` whose level ellipsoid `{f ≥ y}` lies inside the box,
`P[f(X) ≥ y] = P[f(X) > y] = 1 − cdf_concave(y)`. -/
theorem tail_exact_uniform [NeZero d] (Q : Matrix (Fin d) (Fin d) ℝ) (hQ : Qᵀ * Q = 1) (μ : Fin d → ℝ)
    (hμ : ∀ i, 0 < μ i) (x₀ : Fin d → ℝ) (b : ℝ) (lo hi : Fin d → ℝ) (hbox : ∀ i, lo i < hi i) (y : ℝ)
    (hya : (approxParams b (hessEigs μ) (boundsList lo hi)).1 ≤ y) (hyb : y ≤ b)
    (hin : {x | y ≤ quadObjective (Q * diagonal μ * Qᵀ) x₀ b x} ⊆ Set.Icc lo hi) :
    (ProbabilityTheory.cond volume (Set.Icc lo hi)) {x | y ≤ quadObjective (Q * diagonal μ * Qᵀ) x₀ b x}
        = ENNReal.ofReal (1 - Quad.cdf (approxDist b (hessEigs μ) (boundsList lo hi)) y)
      ∧ (ProbabilityTheory.cond volume (Set.Icc lo hi)) {x | y < quadObjective (Q * diagonal μ * Qᵀ) x₀ b x}
        = ENNReal.ofReal (1 - Quad.cdf (approxDist b (hessEigs μ) (boundsList lo hi)) y) := by
  have hlen : (boundsList lo hi).length = d := by simp [boundsList]
  have hd : 0 < (boundsList lo hi).length := by rw [hlen]; exact Nat.pos_of_ne_zero (NeZero.ne d)
  have hB := boxVolume_pos (boundsList_lt lo hi hbox)
  have key := tail_exact_model b (hessEigs μ) (boundsList lo hi) hd (hessEigs_neg μ hμ) (boundsList_lt lo hi hbox)
    y hya hyb
  rw [hlen] at key
  obtain ⟨hv1, hv2⟩ := volume_superlevel_model Q hQ μ hμ x₀ b y hyb
  have hin2 : {x | y < quadObjective (Q * diagonal μ * Qᵀ) x₀ b x} ⊆ Set.Icc lo hi :=
    fun x hx => hin (show y ≤ quadObjective _ x₀ b x from le_of_lt hx)
  constructor
  · rw [ProbabilityTheory.cond_apply measurableSet_Icc, Set.inter_eq_right.mpr hin, hv1,
      volume_box lo hi (fun i => (hbox i).le), ← key, ENNReal.ofReal_div_of_pos hB, ENNReal.div_eq_inv_mul]
  · rw [ProbabilityTheory.cond_apply measurableSet_Icc, Set.inter_eq_right.mpr hin2, hv2,
      volume_box lo hi (fun i => (hbox i).le), ← key, ENNReal.ofReal_div_of_pos hB, ENNReal.div_eq_inv_mul]

/-- the level ellipsoid at the returned `a` has exactly the volume of the box (so it can lie inside the box only if it
fills it up to a null set: the tail identity is an identity for the *upper* levels, those whose ellipsoid fits) -/
theorem volume_level_a_eq_box [NeZero d] (Q : Matrix (Fin d) (Fin d) ℝ) (hQ : Qᵀ * Q = 1) (μ : Fin d → ℝ)
    (hμ : ∀ i, 0 < μ i) (x₀ : Fin d → ℝ) (b : ℝ) (lo hi : Fin d → ℝ) (hbox : ∀ i, lo i < hi i) :
    volume {x | (approxParams b (hessEigs μ) (boundsList lo hi)).1 ≤ quadObjective (Q * diagonal μ * Qᵀ) x₀ b x}
      = volume (Set.Icc lo hi) := by
  have hlen : (boundsList lo hi).length = d := by simp [boundsList]
  have hd : 0 < (boundsList lo hi).length := by rw [hlen]; exact Nat.pos_of_ne_zero (NeZero.ne d)
  have hlt := approxParams_a_lt_b b (hessEigs_neg μ hμ) (boundsList_lt lo hi hbox)
  have hB := boxVolume_pos (boundsList_lt lo hi hbox)
  have key := tail_exact_model b (hessEigs μ) (boundsList lo hi) hd (hessEigs_neg μ hμ) (boundsList_lt lo hi hbox)
    _ le_rfl hlt.le
  rw [hlen] at key
  have hcdf : Quad.cdf (approxDist b (hessEigs μ) (boundsList lo hi)) (approxParams b (hessEigs μ) (boundsList lo hi)).1 = 0 :=
    Quad.cdf_below _ (by rw [approxDist_a, approxDist_b]; exact hlt) (by rw [approxDist_c]; exact hd) _
      (by rw [approxDist_a])
  rw [hcdf, sub_zero, div_eq_one_iff_eq hB.ne'] at key
  rw [(volume_superlevel_model Q hQ μ hμ x₀ b _ hlt.le).1, volume_box lo hi (fun i => (hbox i).le), key]

/-! ### every positive definite curvature matrix is of the rotated form -/

/-- spectral theorem: a real positive definite matrix is `Q diag(μ) Qᵀ` with `Q` orthogonal and `μ` its (positive)
eigenvalues -/
theorem posDef_rotated (A : Matrix (Fin d) (Fin d) ℝ) (hA : A.PosDef) :
    ∃ Q : Matrix (Fin d) (Fin d) ℝ, Qᵀ * Q = 1 ∧ (∀ i, 0 < hA.1.eigenvalues i)
      ∧ A = Q * diagonal hA.1.eigenvalues * Qᵀ := by
  refine ⟨(hA.1.eigenvectorUnitary : Matrix (Fin d) (Fin d) ℝ), ?_, hA.eigenvalues_pos, ?_⟩
  · have := (Matrix.mem_unitaryGroup_iff').mp hA.1.eigenvectorUnitary.2
    simpa [Matrix.star_eq_conjTranspose] using this
  · have h := hA.1.spectral_theorem
    rw [Unitary.conjStarAlgAut_apply] at h
    simpa [Matrix.star_eq_conjTranspose, Function.comp_def] using h

/-- **C20-T2 for an arbitrary positive definite curvature matrix** `A` (Hessian `−A`), with the Hessian eigenvalues
`−eigenvalues(A)` handed to the model (in any order: `ellipse_volume` is permutation invariant) -/
theorem tail_exact_uniform_posDef [NeZero d] (A : Matrix (Fin d) (Fin d) ℝ) (hA : A.PosDef) (x₀ : Fin d → ℝ) (b : ℝ)
    (lo hi : Fin d → ℝ) (hbox : ∀ i, lo i < hi i) (y : ℝ)
    (hya : (approxParams b (hessEigs hA.1.eigenvalues) (boundsList lo hi)).1 ≤ y) (hyb : y ≤ b)
    (hin : {x | y ≤ quadObjective A x₀ b x} ⊆ Set.Icc lo hi) :
    (ProbabilityTheory.cond volume (Set.Icc lo hi)) {x | y ≤ quadObjective A x₀ b x}
        = ENNReal.ofReal (1 - Quad.cdf (approxDist b (hessEigs hA.1.eigenvalues) (boundsList lo hi)) y)
      ∧ (ProbabilityTheory.cond volume (Set.Icc lo hi)) {x | y < quadObjective A x₀ b x}
        = ENNReal.ofReal (1 - Quad.cdf (approxDist b (hessEigs hA.1.eigenvalues) (boundsList lo hi)) y) := by
  obtain ⟨Q, hQ, hpos, hAeq⟩ := posDef_rotated A hA
  have hobj : quadObjective A x₀ b = quadObjective (Q * diagonal hA.1.eigenvalues * Qᵀ) x₀ b := by rw [← hAeq]
  rw [hobj] at hin ⊢
  exact tail_exact_uniform Q hQ _ hpos x₀ b lo hi hbox y hya hyb hin

/-- `b` is the maximum of the objective and it is attained at `x₀` -/
theorem quadObjective_max (A : Matrix (Fin d) (Fin d) ℝ) (hA : A.PosDef) (x₀ : Fin d → ℝ) (b : ℝ) :
    (∀ x, quadObjective A x₀ b x ≤ b) ∧ quadObjective A x₀ b x₀ = b := by
  obtain ⟨Q, _, hpos, hAeq⟩ := posDef_rotated A hA
  constructor
  · intro x
    unfold quadObjective
    rw [hAeq, quadForm_rotated]
    have : 0 ≤ ∑ i, hA.1.eigenvalues i * ((Qᵀ *ᵥ (x - x₀)) i) ^ 2 :=
      Finset.sum_nonneg fun i _ => mul_nonneg (hpos i).le (sq_nonneg _)
    linarith
  · unfold quadObjective quadForm
    simp

/-! ### the containment condition for axis-aligned (diagonal) curvature -/

/-- for diagonal curvature the level ellipsoid `{f ≥ y}` has half-extent `√(2(b−y)/μ_i)` along axis `i`: it lies inside
every box that contains those extents around the optimum -/
theorem superlevel_subset_box_diag (μ : Fin d → ℝ) (hμ : ∀ i, 0 < μ i) (x₀ : Fin d → ℝ) (b y : ℝ)
    (lo hi : Fin d → ℝ)
    (hfit : ∀ i, lo i ≤ x₀ i - √(2 * (b - y) / μ i) ∧ x₀ i + √(2 * (b - y) / μ i) ≤ hi i) :
    {x | y ≤ quadObjective ((1 : Matrix (Fin d) (Fin d) ℝ) * diagonal μ * (1 : Matrix (Fin d) (Fin d) ℝ)ᵀ) x₀ b x}
      ⊆ Set.Icc lo hi := by
  intro x hx
  simp only [Set.mem_ofPred_eq, quadObjective] at hx
  rw [quadForm_rotated] at hx
  simp only [transpose_one, one_mulVec, Pi.sub_apply] at hx
  have hsum : ∑ i, μ i * (x i - x₀ i) ^ 2 ≤ 2 * (b - y) := by linarith
  have hi' : ∀ i, |x i - x₀ i| ≤ √(2 * (b - y) / μ i) := by
    intro i
    apply Real.abs_le_sqrt
    rw [le_div_iff₀ (hμ i)]
    have := Finset.single_le_sum (f := fun j => μ j * (x j - x₀ j) ^ 2)
      (fun j _ => mul_nonneg (hμ j).le (sq_nonneg _)) (Finset.mem_univ i)
    nlinarith
  rw [Set.mem_Icc, Pi.le_def, Pi.le_def]
  refine ⟨fun i => ?_, fun i => ?_⟩
  · have := (abs_le.mp (hi' i)).1; have := (hfit i).1; linarith
  · have := (abs_le.mp (hi' i)).2; have := (hfit i).2; linarith

/-- non-vacuity of `tail_exact_uniform`: in `d = 1` with `f(x) = 1 − x²` on the box `[−1, 1]` there is a level `y < b`
with `a ≤ y` whose level set lies in the box -/
theorem tail_exact_uniform_nonvacuous :
    ∃ y : ℝ, y < 1 ∧ (approxParams (1 : ℝ) (hessEigs (fun _ : Fin 1 => (2 : ℝ))) (boundsList (fun _ : Fin 1 => (-1 : ℝ)) (fun _ => 1))).1 ≤ y
      ∧ {x | y ≤ quadObjective ((1 : Matrix (Fin 1) (Fin 1) ℝ) * diagonal (fun _ => (2 : ℝ)) * (1 : Matrix (Fin 1) (Fin 1) ℝ)ᵀ) 0 1 x}
          ⊆ Set.Icc (fun _ : Fin 1 => (-1 : ℝ)) (fun _ => 1) := by
  have hlt := approxParams_a_lt_b (1 : ℝ) (hessEigs_neg (fun _ : Fin 1 => (2 : ℝ)) (fun _ => two_pos))
    (boundsList_lt (fun _ : Fin 1 => (-1 : ℝ)) (fun _ => 1) (fun _ => by norm_num))
  refine ⟨max (approxParams (1 : ℝ) (hessEigs (fun _ : Fin 1 => (2 : ℝ))) (boundsList (fun _ : Fin 1 => (-1 : ℝ)) (fun _ => 1))).1 0,
    max_lt hlt one_pos, le_max_left _ _, ?_⟩
  apply superlevel_subset_box_diag _ (fun _ => two_pos)
  intro i
  have h0 : (0 : ℝ) ≤ max (approxParams (1 : ℝ) (hessEigs (fun _ : Fin 1 => (2 : ℝ))) (boundsList (fun _ : Fin 1 => (-1 : ℝ)) (fun _ => 1))).1 0 :=
    le_max_right _ _
  have hs : √(2 * (1 - max (approxParams (1 : ℝ) (hessEigs (fun _ : Fin 1 => (2 : ℝ))) (boundsList (fun _ : Fin 1 => (-1 : ℝ)) (fun _ => 1))).1 0) / 2) ≤ 1 := by
    rw [Real.sqrt_le_one]
    linarith
  simp only [Pi.zero_apply]
  constructor <;> linarith

end Opda.ExpVol
