import OpdaProofs.OrderStatBeta
import Mathlib.Analysis.Calculus.Deriv.MeanValue
import Mathlib.MeasureTheory.Order.Lattice
import Mathlib.Tactic
/-!
# C01 (ld methods): the simulated statistic has a continuous distribution function

The ld band methods simulate `T(u) = max_{i<n} cov_i(U₍ᵢ₎)` for `n` independent uniforms `u`, `cov_i` the coverage
function of the Beta(i+1, n−i) law of the `i`-th order statistic.  The Beta-law theorems of C01 take as hypothesis that
the law of `T` has a continuous distribution function.  Here:

* `ldStat_no_atoms_of_null` / `ldStat_no_atoms`: for measurable `c i` whose level sets inside `[0,1]` are Lebesgue-null
  (in particular finite), `P[T = t] = 0` for every `t`;
* `ldLaw_cdf_continuous`: hence the law `unifPi n |>.map (ldStat c)` is a probability measure with a continuous
  distribution function;
* `etCov`: the equal-tailed coverage function `x ↦ 2·|1/2 − G x|`; for `G` strictly increasing on `[0,1]` its level
  sets there have at most two points (`etCov_level_finite`);
* `G_strictMonoOn`: the Beta(a,b) distribution function `G a b` (the binomial tail polynomial of C15) is strictly
  increasing on `[0,1]` — so the equal-tailed statistic of the code (`betaEtCov`) meets all hypotheses
  (`betaEt_cdf_continuous`), unconditionally.
-/
namespace Opda.LdStat
open MeasureTheory Set Opda.RectProbP Opda.OrderStatBeta Opda.BetaCheck Opda.BetaCdf

variable {n : ℕ}

instance : IsProbabilityMeasure ((volume : Measure ℝ).restrict (Icc 0 1)) := ⟨by simp⟩

instance (n : ℕ) : IsProbabilityMeasure (unifPi n) := by unfold unifPi; infer_instance

/-! ## the statistic -/

theorem measurable_orderStat (k : Fin n) : Measurable fun u : Fin n → ℝ => orderStat u k :=
  measurable_of_Iic fun t => measurableSet_orderStat_le k t

/-- `T(u) = max_i c_i(u₍ᵢ₎)` -/
noncomputable def ldStat [NeZero n] (c : Fin n → ℝ → ℝ) (u : Fin n → ℝ) : ℝ :=
  Finset.univ.sup' Finset.univ_nonempty fun i => c i (orderStat u i)

theorem ldStat_le_iff [NeZero n] (c : Fin n → ℝ → ℝ) (u : Fin n → ℝ) (t : ℝ) :
    ldStat c u ≤ t ↔ ∀ i, c i (orderStat u i) ≤ t := by
  simp [ldStat, Finset.sup'_le_iff]

theorem exists_eq_ldStat [NeZero n] (c : Fin n → ℝ → ℝ) (u : Fin n → ℝ) :
    ∃ i, c i (orderStat u i) = ldStat c u := by
  obtain ⟨i, _, hi⟩ := Finset.exists_mem_eq_sup' Finset.univ_nonempty (fun i => c i (orderStat u i))
  exact ⟨i, hi.symm⟩

theorem measurable_ldStat [NeZero n] {c : Fin n → ℝ → ℝ} (hc : ∀ i, Measurable (c i)) :
    Measurable (ldStat c) := by
  have h := Finset.measurable_sup' (s := (Finset.univ : Finset (Fin n))) Finset.univ_nonempty
    (f := fun i (u : Fin n → ℝ) => c i (orderStat u i)) fun i _ => (hc i).comp (measurable_orderStat i)
  convert h using 1
  ext u
  simp [ldStat, Finset.sup'_apply]

/-! ## no atoms -/

/-- a coordinate of `n` independent uniforms avoids every set that is null for the uniform law on `[0,1]` -/
theorem coord_mem_null (j : Fin n) {S : Set ℝ} (hS : ((volume : Measure ℝ).restrict (Icc 0 1)) S = 0) :
    unifPi n {u | u j ∈ S} = 0 :=
  Measure.pi_eval_preimage_null (fun _ : Fin n => (volume : Measure ℝ).restrict (Icc 0 1)) hS

/-- **no atoms, general form**: if every level set `{x ∈ [0,1] | c i x = t}` is Lebesgue-null then `P[T = t] = 0`. -/
theorem ldStat_no_atoms_of_null [NeZero n] (c : Fin n → ℝ → ℝ)
    (hlev : ∀ i t, (volume : Measure ℝ) {x | x ∈ Icc (0:ℝ) 1 ∧ c i x = t} = 0) (t : ℝ) :
    unifPi n {u | ldStat c u = t} = 0 := by
  -- the bad set of a single coordinate: outside `[0,1]`, or on a level set of some `c i`
  set S : Set ℝ := (Icc (0:ℝ) 1)ᶜ ∪ ⋃ i : Fin n, {x | x ∈ Icc (0:ℝ) 1 ∧ c i x = t} with hSdef
  have hS : ((volume : Measure ℝ).restrict (Icc 0 1)) S = 0 := by
    rw [hSdef]
    refine measure_union_null ?_ ?_
    · rw [Measure.restrict_apply measurableSet_Icc.compl]; simp
    · refine (measure_iUnion_null_iff).mpr fun i => ?_
      exact Measure.absolutelyContinuous_of_le Measure.restrict_le_self (hlev i t)
  have hsub : {u : Fin n → ℝ | ldStat c u = t} ⊆ ⋃ j : Fin n, {u | u j ∈ S} := by
    intro u hu
    obtain ⟨i, hi⟩ := exists_eq_ldStat c u
    rw [mem_iUnion]
    refine ⟨Tuple.sort u i, ?_⟩
    by_cases hmem : u (Tuple.sort u i) ∈ Icc (0:ℝ) 1
    · refine Or.inr (mem_iUnion.mpr ⟨i, hmem, ?_⟩)
      have : orderStat u i = u (Tuple.sort u i) := rfl
      rw [← this, hi]; exact hu
    · exact Or.inl hmem
  refine measure_mono_null hsub ?_
  exact (measure_iUnion_null_iff).mpr fun j => coord_mem_null j hS

/-- **no atoms**: measurable or not, if every `c i` has finite level sets inside `[0,1]` then `P[T = t] = 0`. -/
theorem ldStat_no_atoms [NeZero n] (c : Fin n → ℝ → ℝ)
    (hlev : ∀ i t, {x | x ∈ Icc (0:ℝ) 1 ∧ c i x = t}.Finite) (t : ℝ) :
    unifPi n {u | ldStat c u = t} = 0 :=
  ldStat_no_atoms_of_null c (fun i t => (hlev i t).measure_zero _) t

/-- the law of the statistic -/
noncomputable def ldLaw [NeZero n] (c : Fin n → ℝ → ℝ) : Measure ℝ := (unifPi n).map (ldStat c)

theorem ldLaw_isProbabilityMeasure [NeZero n] {c : Fin n → ℝ → ℝ} (hc : ∀ i, Measurable (c i)) :
    IsProbabilityMeasure (ldLaw c) :=
  Measure.isProbabilityMeasure_map (measurable_ldStat hc).aemeasurable

theorem ldLaw_singleton [NeZero n] {c : Fin n → ℝ → ℝ} (hc : ∀ i, Measurable (c i))
    (hlev : ∀ i t, (volume : Measure ℝ) {x | x ∈ Icc (0:ℝ) 1 ∧ c i x = t} = 0) (t : ℝ) :
    ldLaw c {t} = 0 := by
  unfold ldLaw
  rw [Measure.map_apply (measurable_ldStat hc) (measurableSet_singleton t)]
  exact ldStat_no_atoms_of_null c hlev t

/-- the distribution function of the law of the statistic, at `t`, is `P[T ≤ t]` -/
theorem ldLaw_cdf [NeZero n] {c : Fin n → ℝ → ℝ} (hc : ∀ i, Measurable (c i)) (t : ℝ) :
    cdfOf (ldLaw c) t = (unifPi n {u | ∀ i, c i (orderStat u i) ≤ t}).toReal := by
  unfold cdfOf ldLaw
  rw [Measure.map_apply (measurable_ldStat hc) measurableSet_Iic]
  congr 2
  ext u
  simp only [mem_preimage, mem_Iic, mem_ofPred_eq]
  exact ldStat_le_iff c u t

/-- **the simulated statistic has a continuous distribution function** (null level sets) -/
theorem ldLaw_cdf_continuous_of_null [NeZero n] {c : Fin n → ℝ → ℝ} (hc : ∀ i, Measurable (c i))
    (hlev : ∀ i t, (volume : Measure ℝ) {x | x ∈ Icc (0:ℝ) 1 ∧ c i x = t} = 0) :
    Continuous (cdfOf (ldLaw c)) :=
  haveI := ldLaw_isProbabilityMeasure hc
  @cdfOf_continuous_of_nullSingleton (ldLaw c) _ ⟨ldLaw_singleton hc hlev⟩

/-- **the simulated statistic has a continuous distribution function** (finite level sets) -/
theorem ldLaw_cdf_continuous [NeZero n] {c : Fin n → ℝ → ℝ} (hc : ∀ i, Measurable (c i))
    (hlev : ∀ i t, {x | x ∈ Icc (0:ℝ) 1 ∧ c i x = t}.Finite) :
    Continuous (cdfOf (ldLaw c)) :=
  ldLaw_cdf_continuous_of_null hc fun i t => (hlev i t).measure_zero _

/-! ## the equal-tailed coverage function -/

/-- coverage of the smallest equal-tailed interval containing `x`: `2·|1/2 − G x|` (C15 `equal_tailed`) -/
noncomputable def etCov (G : ℝ → ℝ) (x : ℝ) : ℝ := 2 * |1 / 2 - G x|

theorem measurable_etCov {G : ℝ → ℝ} (hG : Measurable G) : Measurable (etCov G) := by
  unfold etCov; fun_prop

/-- `2·|1/2 − y| = t` has at most the two solutions `1/2 ∓ t/2` -/
theorem etCov_eq_iff (y t : ℝ) (h : 2 * |1 / 2 - y| = t) : y = 1 / 2 - t / 2 ∨ y = 1 / 2 + t / 2 := by
  rcases abs_cases (1 / 2 - y) with ⟨h1, _⟩ | ⟨h1, _⟩
  · left; rw [h1] at h; linarith
  · right; rw [h1] at h; linarith

/-- for `G` strictly increasing on `[0,1]` the level sets of the equal-tailed coverage function inside `[0,1]` have at most
two points -/
theorem etCov_level_finite {G : ℝ → ℝ} (hG : StrictMonoOn G (Icc 0 1)) (t : ℝ) :
    {x | x ∈ Icc (0:ℝ) 1 ∧ etCov G x = t}.Finite := by
  refine Set.Finite.of_finite_image (f := G) ?_ (hG.injOn.mono fun x hx => hx.1)
  refine (Set.toFinite {1 / 2 - t / 2, 1 / 2 + t / 2}).subset ?_
  rintro _ ⟨x, ⟨_, hx⟩, rfl⟩
  exact etCov_eq_iff (G x) t hx

theorem etCov_level_card_le_two {G : ℝ → ℝ} (hG : StrictMonoOn G (Icc 0 1)) (t : ℝ) :
    {x | x ∈ Icc (0:ℝ) 1 ∧ etCov G x = t}.encard ≤ 2 := by
  have hinj : InjOn G {x | x ∈ Icc (0:ℝ) 1 ∧ etCov G x = t} := hG.injOn.mono fun x hx => hx.1
  rw [← hinj.encard_image]
  have h2 : ({1 / 2 - t / 2, 1 / 2 + t / 2} : Set ℝ).encard ≤ 2 := by
    refine (Set.encard_insert_le _ _).trans ?_
    rw [Set.encard_singleton]; norm_num
  refine (Set.encard_le_encard (t := {1 / 2 - t / 2, 1 / 2 + t / 2}) ?_).trans h2
  rintro _ ⟨x, ⟨_, hx⟩, rfl⟩
  exact etCov_eq_iff (G x) t hx

/-- **equal-tailed instance**: measurable `G i`, strictly increasing on `[0,1]` -/
theorem etLaw_cdf_continuous [NeZero n] {G : Fin n → ℝ → ℝ} (hm : ∀ i, Measurable (G i))
    (hG : ∀ i, StrictMonoOn (G i) (Icc 0 1)) :
    Continuous (cdfOf (ldLaw fun i => etCov (G i))) :=
  ldLaw_cdf_continuous (fun i => measurable_etCov (hm i)) fun i t => etCov_level_finite (hG i) t

/-! ## the Beta distribution functions of the code -/

theorem continuous_G (a b : ℕ) : Continuous (G a b) := continuous_tail _ _

/-- the Beta(a,b) distribution function is strictly increasing on `[0,1]` (its derivative `κ·s^{a−1}(1−s)^{b−1}` is
positive on `(0,1)`) -/
theorem G_strictMonoOn (a b : ℕ) (ha : 0 < a) (hb : 0 < b) : StrictMonoOn (G a b) (Icc 0 1) := by
  refine strictMonoOn_of_deriv_pos (convex_Icc 0 1) (continuous_G a b).continuousOn ?_
  intro x hx
  rw [interior_Icc] at hx
  have hd : deriv (G a b) x = dtail (a + b - 1) a x := (hasDerivAt_tail (a + b - 1) a x).deriv
  rw [hd, dtail_eq_g a b ha hb]
  have hk : (0 : ℝ) < (Opda.BetaBinom.betaNorm a b : ℝ) := by exact_mod_cast betaNorm_pos a b ha hb
  have h1 : 0 < 1 - x := by linarith [hx.2]
  unfold Opda.Hdi.g
  have := hx.1
  positivity

/-- the equal-tailed coverage function of the `i`-th (0-based) of `n` order statistics: `2·|1/2 − G(i+1, n−i)(x)|`,
`G(i+1, n−i)` the Beta(i+1, n−i) distribution function -/
noncomputable def betaEtCov (n : ℕ) (i : Fin n) : ℝ → ℝ := etCov (G (i.val + 1) (n - i.val))

/-- **the equal-tailed ld statistic of the code** `max_i 2·|1/2 − BetaCDF(i+1, n−i)(U₍ᵢ₎)|` has a continuous
distribution function — no hypothesis left -/
theorem betaEt_cdf_continuous (n : ℕ) [NeZero n] : Continuous (cdfOf (ldLaw (betaEtCov n))) :=
  etLaw_cdf_continuous (fun _ => (continuous_G _ _).measurable)
    fun i => G_strictMonoOn _ _ (Nat.succ_pos _) (Nat.sub_pos_of_lt i.isLt)

/-! ## combination with the Beta law of a simulated order statistic -/

/-- for `N` independent draws of the statistic `T`, the coverage `F_T(T₍ₖ₎)` of the `(k+1)`-th smallest is
Beta(k+1, N−k) distributed — any measurable `c i` with Lebesgue-null level sets in `[0,1]` -/
theorem ld_coverage_beta [NeZero n] {c : Fin n → ℝ → ℝ} (hc : ∀ i, Measurable (c i))
    (hlev : ∀ i t, (volume : Measure ℝ) {x | x ∈ Icc (0:ℝ) 1 ∧ c i x = t} = 0)
    {N : ℕ} (k : Fin N) {t : ℝ} (ht0 : 0 ≤ t) (ht1 : t ≤ 1) :
    (Measure.pi fun _ : Fin N => ldLaw c) {y | cdfOf (ldLaw c) (orderStat y k) ≤ t}
      = ENNReal.ofReal (∫ s in (0:ℝ)..t,
          (Opda.BetaBinom.betaNorm (k.val + 1) (N - k.val) : ℝ) * (s ^ k.val * (1 - s) ^ (N - 1 - k.val))) :=
  haveI := ldLaw_isProbabilityMeasure hc
  orderStat_coverage_beta (ldLaw_cdf_continuous_of_null hc hlev) k ht0 ht1

/-- … and the interpolated quantile `np.quantile` returns is bracketed by two Beta laws -/
theorem ld_interpolated_between_betas [NeZero n] {c : Fin n → ℝ → ℝ} (hc : ∀ i, Measurable (c i))
    (hlev : ∀ i t, (volume : Measure ℝ) {x | x ∈ Icc (0:ℝ) 1 ∧ c i x = t} = 0)
    {N : ℕ} (k k' : Fin N) (hkk : k ≤ k') {lam : ℝ} (h0 : 0 ≤ lam) (h1 : lam ≤ 1) {t : ℝ} (ht0 : 0 ≤ t) (ht1 : t ≤ 1) :
    ENNReal.ofReal (G (k'.val + 1) (N - k'.val) t)
        ≤ (Measure.pi fun _ : Fin N => ldLaw c)
            {y | cdfOf (ldLaw c) (orderStat y k + lam * (orderStat y k' - orderStat y k)) ≤ t}
      ∧ (Measure.pi fun _ : Fin N => ldLaw c)
            {y | cdfOf (ldLaw c) (orderStat y k + lam * (orderStat y k' - orderStat y k)) ≤ t}
        ≤ ENNReal.ofReal (G (k.val + 1) (N - k.val) t) :=
  haveI := ldLaw_isProbabilityMeasure hc
  interpolated_quantile_coverage (ldLaw_cdf_continuous_of_null hc hlev) k k' hkk h0 h1 ht0 ht1

theorem betaEt_measurable (n : ℕ) (i : Fin n) : Measurable (betaEtCov n i) :=
  measurable_etCov (continuous_G _ _).measurable

theorem betaEt_level_finite (n : ℕ) (i : Fin n) (t : ℝ) : {x | x ∈ Icc (0:ℝ) 1 ∧ betaEtCov n i x = t}.Finite :=
  etCov_level_finite (G_strictMonoOn _ _ (Nat.succ_pos _) (Nat.sub_pos_of_lt i.isLt)) t

theorem betaEt_level_null (n : ℕ) (i : Fin n) (t : ℝ) :
    (volume : Measure ℝ) {x | x ∈ Icc (0:ℝ) 1 ∧ betaEtCov n i x = t} = 0 := (betaEt_level_finite n i t).measure_zero _

/-! ## V-shaped coverage functions (covers the highest-density family, given its shape) -/

/-- a function strictly decreasing on `[0,m]` and strictly increasing on `[m,1]` has level sets of at most two points in
`[0,1]`: this is the shape of the equal-tailed coverage function (about the median) and of the highest-density coverage
function (about the mode, C15 `hd_level_set`) -/
theorem vShape_level_finite {c : ℝ → ℝ} {m : ℝ} (hl : StrictAntiOn c (Icc 0 m)) (hr : StrictMonoOn c (Icc m 1)) (t : ℝ) :
    {x | x ∈ Icc (0:ℝ) 1 ∧ c x = t}.Finite := by
  have h1 : {x | x ∈ Icc (0:ℝ) m ∧ c x = t}.Subsingleton := by
    intro x hx y hy
    exact hl.injOn hx.1 hy.1 (hx.2.trans hy.2.symm)
  have h2 : {x | x ∈ Icc m (1:ℝ) ∧ c x = t}.Subsingleton := by
    intro x hx y hy
    exact hr.injOn hx.1 hy.1 (hx.2.trans hy.2.symm)
  refine (h1.finite.union h2.finite).subset ?_
  rintro x ⟨⟨hx0, hx1⟩, hxt⟩
  rcases le_total x m with h | h
  · exact Or.inl ⟨⟨hx0, h⟩, hxt⟩
  · exact Or.inr ⟨⟨h, hx1⟩, hxt⟩

/-- **V-shaped instance** -/
theorem vShapeLaw_cdf_continuous [NeZero n] {c : Fin n → ℝ → ℝ} (hc : ∀ i, Measurable (c i)) (m : Fin n → ℝ)
    (hl : ∀ i, StrictAntiOn (c i) (Icc 0 (m i))) (hr : ∀ i, StrictMonoOn (c i) (Icc (m i) 1)) :
    Continuous (cdfOf (ldLaw c)) :=
  ldLaw_cdf_continuous hc fun i t => vShape_level_finite (hl i) (hr i) t

end Opda.LdStat
