import OpdaModel.Drv.Emp
import OpdaProofs.EmpAvg
import OpdaProofs.BandMore
import OpdaProofs.ExtInst
/-!
C04: the terms the driver evaluates for the `avg` and `v` ops (`OpdaModel/Drv/Emp.lean`), tied to the finite sums the
theorems of `EmpAvg.lean` are about:

* padding atoms (zero weight at −∞, a, b, +∞) carry best-of-n weight exactly 0 and are dropped by the driver's filter;
* `Ext.fin` is strictly increasing, so atoms / levels / weights of a finite sample are those of its rational values;
* the driver's extended-value sum `wsum` of finitely-valued pairs is `Ext.fin` of the plain sum.
-/
set_option linter.unusedSectionVars false
namespace Opda.Emp
open Opda.Wire Opda.Drv.Emp

section generic
variable {E α : Type} [LinearOrder E] [Field α] [LinearOrder α] [IsStrictOrderedRing α]

/-- the driver's filter -/
def dropZero {β : Type} (l : List (β × α)) : List (β × α) := l.filter fun p => p.2 ≠ 0

theorem dropZero_insertAtom_zero (pw : α → α) (mn : Bool) (tot : α) (v : E) (acc : α) (l : List (E × α)) :
    dropZero (bestWeights pw mn (withPrevAux (acc / tot)
        ((cumAux acc (insertAtom v 0 l)).map fun p => (p.1, p.2 / tot))))
      = dropZero (bestWeights pw mn (withPrevAux (acc / tot) ((cumAux acc l).map fun p => (p.1, p.2 / tot)))) := by
  induction l generalizing acc with
  | nil =>
    cases mn <;> simp [insertAtom, cumAux, withPrevAux, bestWeights, dropZero]
  | cons hd tl ih =>
    obtain ⟨u, x⟩ := hd
    rcases insertAtom_cases v (0 : α) u x tl with ⟨_, he⟩ | ⟨_, he⟩ | ⟨_, he⟩ <;> rw [he]
    · cases mn <;> simp [cumAux, withPrevAux, bestWeights, dropZero]
    · simp only [add_zero]
    · have := ih (acc + x)
      simp only [cumAux, List.map_cons, withPrevAux, bestWeights, dropZero, List.filter_cons] at this ⊢
      rw [this]

theorem dropZero_cumN_insertAtom_zero (pw : α → α) (mn : Bool) (v : E) (l : List (E × α)) :
    dropZero (bestWeights pw mn (withPrev (cumN (insertAtom v 0 l))))
      = dropZero (bestWeights pw mn (withPrev (cumN l))) := by
  have := dropZero_insertAtom_zero pw mn (total l) v 0 l
  rw [zero_div] at this
  unfold withPrev cumN cum
  rw [total_insertAtom, zero_add]
  exact this

/-- **padding is invisible**: after the driver's zero-weight filter, the best-of-n weights over the padded support are
those over the merged atoms of the observations. -/
theorem dropZero_bestWeights_support [OrderBot E] [OrderTop E] (pw : α → α) (mn : Bool) (a b : E)
    (obs : List (E × α)) :
    dropZero (bestWeights pw mn (withPrev (cumN (support ⊥ ⊤ a b obs))))
      = dropZero (bestWeights pw mn (withPrev (cumN (atoms obs)))) := by
  unfold support
  simp only [dropZero_cumN_insertAtom_zero]

/-! ### strictly increasing relabelling of the values -/

variable {E' : Type} [LinearOrder E']

theorem insertAtom_mapObs (ι : E → E') (hι : StrictMono ι) (v : E) (w : α) (l : List (E × α)) :
    insertAtom (ι v) w (mapObs ι l) = mapObs ι (insertAtom v w l) := by
  induction l with
  | nil => rfl
  | cons hd tl ih =>
    obtain ⟨u, x⟩ := hd
    rcases insertAtom_cases v w u x tl with ⟨h, he⟩ | ⟨h, he⟩ | ⟨h, he⟩ <;> rw [he]
    · exact insertAtom_lt (hι h)
    · subst h; exact insertAtom_eq
    · have := insertAtom_gt (w := w) (x := x) (tl := mapObs ι tl) (not_lt.mpr (hι h).le) (ne_of_gt (hι h))
      simp only [mapObs, List.map_cons] at this ih ⊢
      rw [this, ih]

theorem atoms_mapObs (ι : E → E') (hι : StrictMono ι) (obs : List (E × α)) :
    atoms (mapObs ι obs) = mapObs ι (atoms obs) := by
  induction obs with
  | nil => rfl
  | cons o tl ih =>
    show insertAtom (ι o.1) o.2 (atoms (mapObs ι tl)) = mapObs ι (insertAtom o.1 o.2 (atoms tl))
    rw [ih, insertAtom_mapObs ι hι]

theorem cumAux_mapObs (ι : E → E') (acc : α) (l : List (E × α)) :
    cumAux acc (mapObs ι l) = mapObs ι (cumAux acc l) := by
  induction l generalizing acc with
  | nil => rfl
  | cons hd tl ih => obtain ⟨u, x⟩ := hd; simp only [mapObs, List.map_cons, cumAux] at ih ⊢; rw [ih]

theorem withPrevAux_mapObs (ι : E → E') (prev : α) (l : List (E × α)) :
    withPrevAux prev (mapObs ι l) = (withPrevAux prev l).map fun t => (ι t.1, t.2) := by
  induction l generalizing prev with
  | nil => rfl
  | cons hd tl ih => obtain ⟨u, c⟩ := hd; simp only [mapObs, List.map_cons, withPrevAux] at ih ⊢; rw [ih]

theorem bestWeights_mapObs (ι : E → E') (pw : α → α) (mn : Bool) (l : List (E × α)) :
    bestWeights pw mn (withPrev (cumN (mapObs ι l))) = mapObs ι (bestWeights pw mn (withPrev (cumN l))) := by
  unfold withPrev cumN cum
  rw [total_mapObs, cumAux_mapObs]
  have : (mapObs ι (cumAux 0 l)).map (fun p => (p.1, p.2 / total l))
      = mapObs ι ((cumAux 0 l).map fun p => (p.1, p.2 / total l)) := by
    simp [mapObs]
  rw [this, withPrevAux_mapObs]
  simp [bestWeights, mapObs]

theorem dropZero_mapObs (ι : E → E') (l : List (E × α)) : dropZero (mapObs ι l) = mapObs ι (dropZero l) := by
  simp [dropZero, mapObs, List.filter_map, Function.comp_def]

end generic

/-! ### the driver's sum of extended values -/

theorem insertSorted_map' {E E' : Type} [LinearOrder E] [LinearOrder E'] (g : E → E') (hg : StrictMono g) (v : E)
    (l : List E) : Opda.Band.insertSorted (g v) (l.map g) = (Opda.Band.insertSorted v l).map g := by
  induction l with
  | nil => rfl
  | cons u rest ih =>
    simp only [List.map_cons, Opda.Band.insertSorted, hg.le_iff_le]
    split_ifs
    · rfl
    · simp only [List.map_cons, ih]

theorem sort_map' {E E' : Type} [LinearOrder E] [LinearOrder E'] (g : E → E') (hg : StrictMono g) (l : List E) :
    Opda.Band.sort (l.map g) = (Opda.Band.sort l).map g := by
  induction l with
  | nil => rfl
  | cons v rest ih =>
    show Opda.Band.insertSorted (g v) (Opda.Band.sort (rest.map g))
      = (Opda.Band.insertSorted v (Opda.Band.sort rest)).map g
    rw [ih, insertSorted_map' g hg]

theorem fin_strictMono : StrictMono Ext.fin := by
  intro p q h
  show Ext.lt (Ext.fin p) (Ext.fin q) = true
  simpa [Ext.lt] using h

theorem wsum_fin (l : List (ℚ × ℚ)) : wsum (mapObs Ext.fin l) = some (Ext.fin (avgSum l)) := by
  have hfold : ∀ (acc : ℚ), (mapObs Ext.fin l).foldl
      (fun acc p => match p.1 with | .fin v => acc + v * p.2 | _ => acc) acc = acc + avgSum l := by
    induction l with
    | nil => intro acc; simp [mapObs, avgSum]
    | cons hd tl ih =>
      intro acc
      simp only [mapObs, List.map_cons, List.foldl_cons, avgSum, List.sum_cons] at ih ⊢
      rw [ih]; ring
  have hpos : ((mapObs Ext.fin l).any fun p => (p.1 == .posInf && decide (0 < p.2)) || (p.1 == .negInf && decide (p.2 < 0)))
      = false := by
    simp [mapObs]
  have hneg : ((mapObs Ext.fin l).any fun p => (p.1 == .negInf && decide (0 < p.2)) || (p.1 == .posInf && decide (p.2 < 0)))
      = false := by
    simp [mapObs]
  have h0 := hfold 0
  rw [zero_add] at h0
  unfold wsum
  simp only [hpos, hneg]
  simp only [Bool.false_and, Bool.false_eq_true, if_false, Option.some.injEq, Ext.fin.injEq]
  exact h0

theorem avgSum_dropZero (l : List (ℚ × ℚ)) : avgSum (dropZero l) = avgSum l := by
  induction l with
  | nil => rfl
  | cons hd tl ih =>
    by_cases h : hd.2 = 0
    · have : dropZero (hd :: tl) = dropZero tl := by simp [dropZero, h]
      rw [this, ih]; simp [avgSum, h]
    · have : dropZero (hd :: tl) = hd :: dropZero tl := by simp [dropZero, h]
      rw [this]; simp only [avgSum, List.map_cons, List.sum_cons] at ih ⊢; rw [ih]

/-- **what the driver's `avg` op returns** for a finitely-valued sample `obs` (weights as sent, bounds arbitrary): the
plain sum `Σ_j v_j·w_j` over the merged atoms — the quantity the C04 theorems are about. -/
theorem avg_driver (pw : ℚ → ℚ) (mn : Bool) (a b : Ext) (obs : List (ℚ × ℚ)) :
    wsum ((bestWeights pw mn (withPrev (cumN (support Ext.negInf Ext.posInf a b (mapObs Ext.fin obs))))).filter
        fun p => p.2 ≠ 0)
      = some (Ext.fin (avgSum (bestWeights pw mn (withPrev (cumN (atoms obs)))))) := by
  have h := dropZero_bestWeights_support (E := Ext) pw mn a b (mapObs Ext.fin obs)
  unfold dropZero at h
  rw [show (Ext.negInf : Ext) = ⊥ from rfl, show (Ext.posInf : Ext) = ⊤ from rfl, h]
  have h2 : (List.filter (fun p : Ext × ℚ => decide (p.2 ≠ 0))
      (bestWeights pw mn (withPrev (cumN (atoms (mapObs Ext.fin obs))))))
      = mapObs Ext.fin (dropZero (bestWeights pw mn (withPrev (cumN (atoms obs))))) := by
    rw [atoms_mapObs Ext.fin fin_strictMono, bestWeights_mapObs, ← dropZero_mapObs]; rfl
  rw [h2, wsum_fin, avgSum_dropZero]

/-- **what the driver's `v` op returns** for a finite sample: the plain sum over the sorted (reverse-sorted when
minimising) sample against the V-weights. -/
theorem v_driver (ws : List ℚ) (rev : Bool) (ys : List ℚ) :
    wsum (((if rev then (Opda.Band.sort (ys.map Ext.fin)).reverse else Opda.Band.sort (ys.map Ext.fin)).zip ws).filter
        fun p => p.2 ≠ 0)
      = some (Ext.fin (avgSum ((if rev then (Opda.Band.sort ys).reverse else Opda.Band.sort ys).zip ws))) := by
  have hs : Opda.Band.sort (ys.map Ext.fin) = (Opda.Band.sort ys).map Ext.fin :=
    sort_map' Ext.fin fin_strictMono ys
  have hz : ∀ s : List ℚ, (s.map Ext.fin).zip ws = mapObs Ext.fin (s.zip ws) := by
    intro s
    simp [mapObs, List.zip_map_left]
  have key : ∀ s : List ℚ, wsum (((s.map Ext.fin).zip ws).filter fun p => p.2 ≠ 0)
      = some (Ext.fin (avgSum (s.zip ws))) := by
    intro s
    have := dropZero_mapObs (α := ℚ) Ext.fin (s.zip ws)
    unfold dropZero at this
    rw [hz, this]
    exact (wsum_fin _).trans (by rw [show List.filter (fun p : ℚ × ℚ => decide (p.2 ≠ 0)) (s.zip ws)
      = dropZero (s.zip ws) from rfl, avgSum_dropZero])
  cases rev
  · simp only [Bool.false_eq_true, if_false, hs]; exact key _
  · simp only [if_true, hs, ← List.map_reverse]; exact key _

theorem pairwise_sort (ys : List ℚ) : (Opda.Band.sort ys).Pairwise (· ≤ ·) := by
  rw [Opda.Band.sort_eq_insertionSort]; exact List.pairwise_insertionSort _ _

theorem perm_sort (ys : List ℚ) : (Opda.Band.sort ys).Perm ys := by
  rw [Opda.Band.sort_eq_insertionSort]; exact List.perm_insertionSort _ _

/-- **`v` op = `avg` op, on the driver's own terms**: for every finite unweighted sample (ties allowed), every bounds,
both `minimize` settings and every `pw` (in the driver `x ↦ xⁿ`), the two replies are the same value. -/
theorem v_driver_eq_avg_driver (pw : ℚ → ℚ) (mn : Bool) (a b : Ext) (ys : List ℚ) (hne : ys ≠ []) :
    wsum (((if mn then (Opda.Band.sort (ys.map Ext.fin)).reverse else Opda.Band.sort (ys.map Ext.fin)).zip
        (vWeights pw ys.length)).filter fun p => p.2 ≠ 0)
      = wsum ((bestWeights pw mn (withPrev (cumN (support Ext.negInf Ext.posInf a b
          ((ys.map Ext.fin).map fun y => (y, (1 : ℚ))))))).filter fun p => p.2 ≠ 0) := by
  have hobs : ((ys.map Ext.fin).map fun y => (y, (1 : ℚ))) = mapObs Ext.fin (ys.map fun y => (y, (1 : ℚ))) := by
    simp [mapObs]
  rw [v_driver, hobs, avg_driver]
  congr 2
  cases mn
  · simpa using v_eq_average_max pw ys _ (perm_sort ys) (pairwise_sort ys)
  · simpa using v_eq_average_min pw ys _ hne (perm_sort ys) (pairwise_sort ys)

end Opda.Emp
