import OpdaProofs.RectVolume
import OpdaProofs.BandBox
import Mathlib.MeasureTheory.Measure.Lebesgue.EqHaar

/-!
# The probability that the band contains the uniform CDF is `Opda.RectProb.coverage` (C01: reduction + evaluator)

Combines `Opda.Band.band_contains_iff_box` (the band contains a continuous CDF everywhere iff the box inequalities hold
at the order statistics) with `unifPi_rect` (the probability of the box for independent uniforms is `coverage`): for
almost every sample (all points in `[0,1]`, no ties) the two events coincide.
-/
namespace Opda.RectProbP
open Finset Opda.RectProb Opda.Band MeasureTheory Set

/-- the distribution function of the uniform law on `[0,1]` -/
noncomputable def unifCdf (t : ℝ) : ℝ := max 0 (min t 1)

theorem unifCdf_mono : Monotone unifCdf := fun _ _ h => max_le_max le_rfl (min_le_min h le_rfl)

theorem unifCdf_cont : Continuous unifCdf := by unfold unifCdf; fun_prop

theorem unifCdf_nonneg (t : ℝ) : 0 ≤ unifCdf t := le_max_left _ _

theorem unifCdf_le_one (t : ℝ) : unifCdf t ≤ 1 := max_le zero_le_one (min_le_right _ _)

theorem unifCdf_of_mem {t : ℝ} (ht : t ∈ Icc (0 : ℝ) 1) : unifCdf t = t := by
  unfold unifCdf; rw [min_eq_left ht.2, max_eq_right ht.1]

/-- the sorted sample as a sequence `ℕ → ℝ` (the form used by `band_contains_iff_box`; entries beyond `n` unused) -/
noncomputable def sortedSeq {n : ℕ} (u : Fin n → ℝ) (i : ℕ) : ℝ := if h : i < n then orderStat u ⟨i, h⟩ else 0

/-- the event "the band with level tables `L`, `U` built on the sample contains the uniform CDF at every `t`" -/
def BandEv (n : ℕ) (L U : ℕ → ℝ) : Set (Fin n → ℝ) :=
  {u | ∀ t k, IsCount n (sortedSeq u) t k → L k ≤ unifCdf t ∧ unifCdf t ≤ U k}

theorem volume_tie_null {n : ℕ} (i j : Fin n) (hij : i ≠ j) :
    (volume : Measure (Fin n → ℝ)) {u | u i = u j} = 0 := by
  have hs : {u : Fin n → ℝ | u i = u j}
      = ((LinearMap.ker ((LinearMap.proj i : (Fin n → ℝ) →ₗ[ℝ] ℝ) - LinearMap.proj j) : Submodule ℝ (Fin n → ℝ))
          : Set (Fin n → ℝ)) := by
    ext u
    simp [sub_eq_zero]
  rw [hs]
  apply Measure.addHaar_submodule
  intro htop
  have hmem : (Pi.single i (1 : ℝ) : Fin n → ℝ)
      ∈ LinearMap.ker ((LinearMap.proj i : (Fin n → ℝ) →ₗ[ℝ] ℝ) - LinearMap.proj j) := by
    rw [htop]; trivial
  simp [hij] at hmem

theorem ae_injective (n : ℕ) : ∀ᵐ u ∂(unifPi n), Function.Injective u := by
  rw [unifPi_eq]
  apply ae_restrict_of_ae
  have : ∀ᵐ u ∂(volume : Measure (Fin n → ℝ)), ∀ i j : Fin n, i ≠ j → u i ≠ u j := by
    rw [ae_all_iff]; intro i
    rw [ae_all_iff]; intro j
    by_cases hij : i = j
    · exact Filter.Eventually.of_forall fun u h => absurd hij h
    · have := volume_tie_null i j hij
      filter_upwards [compl_mem_ae_iff.mpr this] with u hu _
      exact hu
  filter_upwards [this] with u hu i j h
  by_contra hij
  exact hu i j hij h

theorem ae_mem_cube (n : ℕ) : ∀ᵐ u ∂(unifPi n), ∀ j, u j ∈ Icc (0 : ℝ) 1 := by
  rw [unifPi_eq]
  filter_upwards [ae_restrict_mem (MeasurableSet.univ_pi fun _ => measurableSet_Ioc)] with u hu j
  exact Ioc_subset_Icc_self (hu j (Set.mem_univ j))

theorem band_iff_rect {n : ℕ} (L U : ℕ → ℝ) (hL0 : L 0 ≤ 0) (hUn : 1 ≤ U n)
    (u : Fin n → ℝ) (hinj : Function.Injective u) (hcube : ∀ j, u j ∈ Icc (0 : ℝ) 1) :
    u ∈ BandEv n L U ↔ ∀ i : Fin n, L (i.val + 1) ≤ orderStat u i ∧ orderStat u i ≤ U i.val := by
  have hstrict : StrictMono (orderStat u) :=
    (orderStat_mono u).strictMono_of_injective (hinj.comp (Tuple.sort u).injective)
  have hy : ∀ i j, i < j → j < n → sortedSeq u i < sortedSeq u j := by
    intro i j hij hj
    unfold sortedSeq
    rw [dif_pos (lt_trans hij hj), dif_pos hj]
    exact hstrict (by exact hij)
  have hbox := band_contains_iff_box n (sortedSeq u) hy L U unifCdf unifCdf_mono unifCdf_cont
    unifCdf_nonneg unifCdf_le_one hL0 hUn
  have hos : ∀ k : Fin n, unifCdf (orderStat u k) = orderStat u k :=
    fun k => unifCdf_of_mem (hcube (Tuple.sort u k))
  unfold BandEv
  rw [Set.mem_ofPred_eq, hbox]
  constructor
  · intro h i
    have := h i.val i.isLt
    unfold sortedSeq at this
    rw [dif_pos i.isLt, hos] at this
    exact this
  · intro h i hi
    unfold sortedSeq
    rw [dif_pos hi, hos]
    exact h ⟨i, hi⟩

/-- **coverage of the band**: for `n` independent uniforms, the probability that the band given by level tables
`L`, `U` (with `L 0 ≤ 0`, `1 ≤ U n`, `L (i+1) = αᵢ`, `U i = βᵢ`) contains the uniform distribution function at every
`t` is `coverage α β` -/
theorem unifPi_band (alpha beta : List ℚ) (hlen : beta.length = alpha.length)
    (hα : ∀ x ∈ alpha, 0 ≤ x ∧ x ≤ 1) (hβ : ∀ x ∈ beta, 0 ≤ x ∧ x ≤ 1)
    (L U : ℕ → ℝ) (hL0 : L 0 ≤ 0) (hUn : 1 ≤ U alpha.length)
    (hL : ∀ i (h : i < alpha.length), L (i + 1) = ((alpha[i] : ℚ) : ℝ))
    (hU : ∀ i (h : i < beta.length), U i = ((beta[i] : ℚ) : ℝ)) :
    unifPi alpha.length (BandEv alpha.length L U) = ENNReal.ofReal ((coverage alpha beta : ℚ) : ℝ) := by
  rw [← unifPi_rect alpha beta hlen hα hβ]
  apply measure_congr
  filter_upwards [ae_injective alpha.length, ae_mem_cube alpha.length] with u hinj hcube
  apply propext
  rw [show (BandEv alpha.length L U u) = (u ∈ BandEv alpha.length L U) from rfl,
    band_iff_rect L U hL0 hUn u hinj hcube]
  show _ ↔ ∀ i : Fin alpha.length, _
  refine forall_congr' fun i => ?_
  rw [hL i.val i.isLt, hU i.val (by rw [hlen]; exact i.isLt)]
  rfl

end Opda.RectProbP
