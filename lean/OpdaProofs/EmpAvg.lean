import OpdaModel.EmpCurves
import OpdaProofs.EmpStep
import Mathlib.Tactic
/-!
C04: the average tuning curve of the model, `Σ_j v_j · w_j` with `(v_j, w_j) ∈ bestWeights pw minimize (withPrev (cumN supp))`.

* `avg_max_eq_avgAux` : the sum in closed recursive form (`avgAux`);
* `atoms_perm`        : the merged atoms do not depend on the order of the observations;
* `v_eq_average_max/min` : **V-statistic curve = average curve** for unweighted samples (ties allowed, any `pw`);
* `atoms_negObs`, `average_min_max_duality` : negating the sample reverses the atom list, minimise = −maximise(−sample);
* `avgSum_mono_of_levels` : Abel summation ⇒ the average curve is monotone in `n`.

Values and weights live in one ordered field `α` (finite observations).
-/
set_option linter.unusedSectionVars false
namespace Opda.Emp

section generic
variable {E α : Type} [LinearOrder E] [Field α] [LinearOrder α] [IsStrictOrderedRing α]

/-! ## `atoms` is invariant under permutations of the observations -/

theorem insertAtom_comm (v v' : E) (w w' : α) (l : List (E × α)) :
    insertAtom v w (insertAtom v' w' l) = insertAtom v' w' (insertAtom v w l) := by
  induction l with
  | nil =>
    rcases lt_trichotomy v v' with h | h | h
    · simp [insertAtom, h, not_lt_of_gt h, ne_of_gt h]
    · subst h; simp [insertAtom, add_comm]
    · simp [insertAtom, h, not_lt_of_gt h, ne_of_gt h]
  | cons hd tl ih =>
    obtain ⟨u, x⟩ := hd
    rcases lt_trichotomy v u with h1 | h1 | h1 <;> rcases lt_trichotomy v' u with h2 | h2 | h2 <;>
      rcases lt_trichotomy v v' with h3 | h3 | h3 <;>
      first
        | (exfalso; order)
        | (subst_vars; simp_all [insertAtom, not_lt_of_gt, ne_of_gt, add_comm, add_left_comm])

theorem atoms_perm {obs obs' : List (E × α)} (h : obs.Perm obs') : atoms obs = atoms obs' := by
  unfold atoms
  exact h.foldr_eq' (fun x _ y _ z => insertAtom_comm y.1 x.1 y.2 x.2 z) []

theorem mem_atoms {obs : List (E × α)} {p : E × α} (hp : p ∈ atoms obs) : ∃ p' ∈ obs, p'.1 = p.1 := by
  induction obs generalizing p with
  | nil => simp [atoms] at hp
  | cons o tl ih =>
    have hp' : p ∈ insertAtom o.1 o.2 (atoms tl) := hp
    rcases mem_insertAtom hp' with h | ⟨q, hq, he⟩
    · exact ⟨o, by simp, h.symm⟩
    · obtain ⟨p', hp', he'⟩ := ih hq
      exact ⟨p', by simp [hp'], he'.trans he⟩

/-! ## negating the sample reverses the atom list -/

/-- inserting a key that is larger than a whole prefix skips the prefix -/
theorem insertAtom_append_of_lt (v : E) (w : α) (L M : List (E × α)) (h : ∀ p ∈ L, p.1 < v) :
    insertAtom v w (L ++ M) = L ++ insertAtom v w M := by
  induction L with
  | nil => rfl
  | cons hd tl ih =>
    obtain ⟨u, x⟩ := hd
    have hu : u < v := h (u, x) (by simp)
    rw [List.cons_append, insertAtom_gt (not_lt.mpr hu.le) (ne_of_gt hu),
      ih (fun p hp => h p (List.mem_cons_of_mem _ hp)), List.cons_append]

/-- inserting a key smaller than the last key never touches the last entry -/
theorem insertAtom_append_singleton (v u : E) (w x : α) (L : List (E × α)) (h : v < u) :
    insertAtom v w (L ++ [(u, x)]) = insertAtom v w L ++ [(u, x)] := by
  induction L with
  | nil => simp [insertAtom, h]
  | cons hd tl ih =>
    obtain ⟨u', x'⟩ := hd
    rw [List.cons_append]
    rcases insertAtom_cases v w u' x' tl with ⟨h', he⟩ | ⟨h', he⟩ | ⟨h', he⟩
    · rw [he, insertAtom_lt h']; rfl
    · subst h'; rw [he, insertAtom_eq]; rfl
    · rw [he, insertAtom_gt (not_lt.mpr h'.le) (ne_of_gt h'), ih]; rfl

variable {E' : Type} [LinearOrder E']

/-- the sample with every value mapped through `ν` (for `ν = −·`: the negated sample) -/
def mapObs (ν : E → E') (obs : List (E × α)) : List (E' × α) := obs.map fun p => (ν p.1, p.2)

theorem insertAtom_anti (ν : E → E') (hν : StrictAnti ν) (v : E) (w : α) (l : List (E × α)) (hs : Sorted l) :
    insertAtom (ν v) w (mapObs ν l).reverse = (mapObs ν (insertAtom v w l)).reverse := by
  induction l with
  | nil => rfl
  | cons hd tl ih =>
    obtain ⟨u, x⟩ := hd
    obtain ⟨hlt, hs'⟩ := hs
    have hrev : (mapObs ν ((u, x) :: tl)).reverse = (mapObs ν tl).reverse ++ [(ν u, x)] := by
      simp [mapObs]
    have hsmall : ∀ p ∈ (mapObs ν tl).reverse, p.1 < ν u := by
      intro p hp
      rw [List.mem_reverse] at hp
      obtain ⟨q, hq, rfl⟩ := List.mem_map.mp hp
      exact hν (hlt q hq)
    rcases insertAtom_cases v w u x tl with ⟨h, he⟩ | ⟨h, he⟩ | ⟨h, he⟩ <;> rw [he]
    · -- new least key: it becomes the greatest key of the mirrored list
      have hall : ∀ p ∈ (mapObs ν ((u, x) :: tl)).reverse, p.1 < ν v := by
        intro p hp
        rw [hrev, List.mem_append] at hp
        rcases hp with hp | hp
        · exact lt_trans (hsmall p hp) (hν h)
        · rw [List.mem_singleton] at hp; rw [hp]; exact hν h
      have := insertAtom_append_of_lt (ν v) w _ [] hall
      rw [List.append_nil] at this
      rw [this]
      simp [mapObs, insertAtom]
    · subst h
      rw [hrev, insertAtom_append_of_lt (ν v) w _ _ hsmall, insertAtom_eq]
      simp [mapObs]
    · rw [hrev, insertAtom_append_singleton (ν v) (ν u) w x _ (hν h), ih hs']
      simp [mapObs]

/-- **negation reverses the atom list**: for a strictly decreasing `ν`, `atoms (ν obs) = reverse (ν (atoms obs))`. -/
theorem atoms_mapObs_anti (ν : E → E') (hν : StrictAnti ν) (obs : List (E × α)) :
    atoms (mapObs ν obs) = (mapObs ν (atoms obs)).reverse := by
  induction obs with
  | nil => rfl
  | cons o tl ih =>
    show insertAtom (ν o.1) o.2 (atoms (mapObs ν tl)) = (mapObs ν (insertAtom o.1 o.2 (atoms tl))).reverse
    rw [ih, insertAtom_anti ν hν _ _ _ (sorted_atoms tl)]

theorem total_append (L M : List (E × α)) : total (L ++ M) = total L + total M := by
  induction L with
  | nil => simp [total]
  | cons hd tl ih => obtain ⟨u, x⟩ := hd; simp only [List.cons_append, total, ih]; ring

theorem total_reverse (l : List (E × α)) : total l.reverse = total l := by
  induction l with
  | nil => rfl
  | cons hd tl ih =>
    obtain ⟨u, x⟩ := hd
    rw [List.reverse_cons, total_append, ih]; simp only [total]; ring

theorem total_mapObs (ν : E → E') (l : List (E × α)) : total (mapObs ν l) = total l := by
  induction l with
  | nil => rfl
  | cons hd tl ih => obtain ⟨u, x⟩ := hd; simp only [mapObs, List.map_cons, total] at ih ⊢; rw [ih]

end generic

variable {α : Type} [Field α] [LinearOrder α] [IsStrictOrderedRing α]

/-! ## the average sum in recursive form -/

/-- `Σ_j value_j · weight_j` -/
def avgSum (l : List (α × α)) : α := (l.map fun p => p.1 * p.2).sum

theorem bestWeights_false (pw : α → α) (tr : List (α × α × α)) :
    bestWeights pw false tr = tr.map fun t => (t.1, pw t.2.1 - pw t.2.2) := by
  unfold bestWeights
  apply List.map_congr_left
  rintro ⟨u, c, p⟩ _; simp

theorem bestWeights_true (pw : α → α) (tr : List (α × α × α)) :
    bestWeights pw true tr = tr.map fun t => (t.1, pw (1 - t.2.2) - pw (1 - t.2.1)) := by
  unfold bestWeights
  apply List.map_congr_left
  rintro ⟨u, c, p⟩ _; simp

/-- the minimise weights are the maximise weights of the reflected power function `x ↦ −pw(1−x)` -/
theorem bestWeights_true_eq_false (pw : α → α) (tr : List (α × α × α)) :
    bestWeights pw true tr = bestWeights (fun x => -pw (1 - x)) false tr := by
  rw [bestWeights_true, bestWeights_false]
  apply List.map_congr_left
  intro t _; simp only [Prod.mk.injEq, true_and]; ring

/-- `Σ_j v_j (pw((acc + x_1 + … + x_j)/tot) − pw((acc + x_1 + … + x_{j−1})/tot))` -/
def avgAux (pw : α → α) (tot : α) : α → List (α × α) → α
  | _, [] => 0
  | acc, (v, x) :: rest => v * (pw ((acc + x) / tot) - pw (acc / tot)) + avgAux pw tot (acc + x) rest

theorem avgSum_bestWeights_aux (pw : α → α) (tot acc : α) (l : List (α × α)) :
    avgSum (bestWeights pw false (withPrevAux (acc / tot) ((cumAux acc l).map fun p => (p.1, p.2 / tot))))
      = avgAux pw tot acc l := by
  induction l generalizing acc with
  | nil => simp [cumAux, withPrevAux, bestWeights, avgSum, avgAux]
  | cons hd tl ih =>
    obtain ⟨v, x⟩ := hd
    have := ih (acc + x)
    rw [bestWeights_false] at this ⊢
    simp only [cumAux, List.map_cons, withPrevAux, avgSum, List.sum_cons, avgAux] at this ⊢
    rw [this]

/-- **the model's maximise-average is `avgAux`** started at 0 with the total weight as normaliser -/
theorem avg_max_eq_avgAux (pw : α → α) (l : List (α × α)) :
    avgSum (bestWeights pw false (withPrev (cumN l))) = avgAux pw (total l) 0 l := by
  have := avgSum_bestWeights_aux pw (total l) 0 l
  rw [zero_div] at this
  exact this

theorem avg_min_eq_avgAux (pw : α → α) (l : List (α × α)) :
    avgSum (bestWeights pw true (withPrev (cumN l))) = avgAux (fun x => -pw (1 - x)) (total l) 0 l := by
  rw [bestWeights_true_eq_false, avg_max_eq_avgAux]

/-- merging an observation into the head of the atom list (tied block) telescopes -/
theorem avgAux_insertAtom_head (pw : α → α) (tot acc v w : α) (l : List (α × α)) (hle : ∀ p ∈ l, v ≤ p.1) :
    avgAux pw tot acc (insertAtom v w l) = avgAux pw tot acc ((v, w) :: l) := by
  cases l with
  | nil => rfl
  | cons hd tl =>
    obtain ⟨u, x⟩ := hd
    rcases insertAtom_cases v w u x tl with ⟨_, he⟩ | ⟨h, he⟩ | ⟨h, _⟩
    · rw [he]
    · subst h
      rw [he]
      simp only [avgAux]
      have e1 : acc + (x + w) = acc + w + x := by ring
      rw [e1]; ring
    · exact absurd (hle (u, x) (by simp)) (not_le.mpr h)

/-- on a weakly sorted observation list, merging ties does not change the average sum -/
theorem avgAux_atoms_of_sorted (pw : α → α) (tot acc : α) (obs : List (α × α))
    (hs : obs.Pairwise fun p q => p.1 ≤ q.1) : avgAux pw tot acc (atoms obs) = avgAux pw tot acc obs := by
  induction obs generalizing acc with
  | nil => rfl
  | cons o tl ih =>
    obtain ⟨v, w⟩ := o
    rw [List.pairwise_cons] at hs
    show avgAux pw tot acc (insertAtom v w (atoms tl)) = _
    rw [avgAux_insertAtom_head pw tot acc v w _ ?_]
    · simp only [avgAux, ih _ hs.2]
    · intro p hp
      obtain ⟨p', hp', he⟩ := mem_atoms hp
      rw [← he]; exact hs.1 p' hp'

/-! ## V-statistic curve = average curve -/

/-- the V-weight of the `(i+1)`-th smallest observation -/
def vWeightAt (pw : α → α) (N i : ℕ) : α := pw (((i + 1 : ℕ) : α) / (N : α)) - pw ((i : α) / (N : α))

theorem vWeights_eq_map (pw : α → α) (N : ℕ) : vWeights pw N = (List.range N).map (vWeightAt pw N) := rfl

theorem avgAux_unit (pw : α → α) (N k : ℕ) (s : List α) :
    avgAux pw (N : α) (k : α) (s.map fun y => (y, (1 : α)))
      = avgSum (s.zip ((List.range' k s.length).map (vWeightAt pw N))) := by
  induction s generalizing k with
  | nil => simp [avgAux, avgSum]
  | cons y tl ih =>
    have := ih (k + 1)
    simp only [List.map_cons, avgAux, List.length_cons, List.range'_succ, List.zip_cons_cons, avgSum,
      List.sum_cons, vWeightAt] at this ⊢
    push_cast at this ⊢
    rw [this]

theorem total_unit (s : List α) : total (s.map fun y => (y, (1 : α))) = (s.length : α) := by
  induction s with
  | nil => simp [total]
  | cons hd tl ih => simp only [List.map_cons, total, ih, List.length_cons]; push_cast; ring

/-- **V-statistic = average curve (maximise)**, for every sample `ys` (ties allowed, any order), every sorted
arrangement `s` of it and *every* function `pw` in the role of `x ↦ xⁿ`:
`Σ_i s[i]·((i+1)/N)ⁿ − (i/N)ⁿ) = Σ_j v_j (F_jⁿ − F_{j−1}ⁿ)` over the merged atoms of the unweighted sample. -/
theorem v_eq_average_max (pw : α → α) (ys s : List α) (hperm : s.Perm ys) (hsorted : s.Pairwise (· ≤ ·)) :
    avgSum (s.zip (vWeights pw ys.length))
      = avgSum (bestWeights pw false (withPrev (cumN (atoms (ys.map fun y => (y, (1 : α))))))) := by
  have hp : (s.map fun y => (y, (1 : α))).Perm (ys.map fun y => (y, (1 : α))) := hperm.map _
  rw [← atoms_perm hp, avg_max_eq_avgAux, total_atoms, total_unit]
  have hs' : (s.map fun y => (y, (1 : α))).Pairwise fun p q => p.1 ≤ q.1 := by
    rw [List.pairwise_map]; exact hsorted
  rw [avgAux_atoms_of_sorted _ _ _ _ hs']
  have := avgAux_unit pw s.length 0 s
  rw [Nat.cast_zero] at this
  rw [this, hperm.length_eq, vWeights_eq_map, List.range_eq_range']

/-! ## minimise = −maximise(−sample) -/

theorem avgAux_append (pw : α → α) (tot acc : α) (L M : List (α × α)) :
    avgAux pw tot acc (L ++ M) = avgAux pw tot acc L + avgAux pw tot (acc + total L) M := by
  induction L generalizing acc with
  | nil => simp [avgAux, total]
  | cons hd tl ih =>
    obtain ⟨v, x⟩ := hd
    simp only [List.cons_append, avgAux, ih, total]
    rw [show acc + x + total tl = acc + (x + total tl) by ring]; ring

/-- the negated sample -/
abbrev negObs (obs : List (α × α)) : List (α × α) := mapObs (fun y => -y) obs

/-- core of the duality: the mirrored list summed from the other end -/
theorem avgAux_mirror (pw : α → α) (tot : α) (htot : tot ≠ 0) (l : List (α × α)) (acc acc' : α)
    (h : acc' + total l + acc = tot) :
    avgAux pw tot acc' (negObs l).reverse = -avgAux (fun x => -pw (1 - x)) tot acc l := by
  induction l generalizing acc with
  | nil => simp [negObs, mapObs, avgAux]
  | cons hd tl ih =>
    obtain ⟨u, x⟩ := hd
    have hrev : (negObs ((u, x) :: tl)).reverse = (negObs tl).reverse ++ [(-u, x)] := by
      simp [negObs, mapObs]
    simp only [total] at h
    rw [hrev, avgAux_append, ih (acc + x) (by rw [← h]; ring), total_reverse, total_mapObs]
    simp only [avgAux]
    have e1 : (acc' + total tl + x) / tot = 1 - acc / tot := by
      rw [eq_sub_iff_add_eq, ← add_div, div_eq_one_iff_eq htot, ← h]; ring
    have e2 : (acc' + total tl) / tot = 1 - (acc + x) / tot := by
      rw [eq_sub_iff_add_eq, ← add_div, div_eq_one_iff_eq htot, ← h]; ring
    rw [e1, e2]; ring

/-- **average duality**: the minimise-average of a weighted sample is minus the maximise-average of the negated
sample (same weights), for every `pw`, provided the total weight is not zero. -/
theorem average_min_max_duality (pw : α → α) (obs : List (α × α)) (htot : total obs ≠ 0) :
    avgSum (bestWeights pw true (withPrev (cumN (atoms obs))))
      = -avgSum (bestWeights pw false (withPrev (cumN (atoms (negObs obs))))) := by
  rw [avg_min_eq_avgAux, avg_max_eq_avgAux, total_atoms, total_atoms, total_mapObs,
    atoms_mapObs_anti _ (fun _ _ h => neg_lt_neg h)]
  rw [avgAux_mirror pw (total obs) htot (atoms obs) 0 0 (by rw [total_atoms]; ring), neg_neg]

theorem avgSum_zip_map_neg (s ws : List α) : avgSum ((s.map fun y => -y).zip ws) = -avgSum (s.zip ws) := by
  induction s generalizing ws with
  | nil => simp [avgSum]
  | cons hd tl ih =>
    cases ws with
    | nil => simp [avgSum]
    | cons w ws' =>
      have := ih ws'
      simp only [avgSum, List.map_cons, List.zip_cons_cons, List.sum_cons] at this ⊢
      rw [this]; ring

/-- **V-statistic = average curve (minimise)**: the code pairs the same weights `((i+1)/N)ⁿ − (i/N)ⁿ` with the sample
sorted in *decreasing* order, and the average curve uses the survival form `(1−F_{j−1})ⁿ − (1−F_j)ⁿ`. -/
theorem v_eq_average_min (pw : α → α) (ys s : List α) (hne : ys ≠ []) (hperm : s.Perm ys)
    (hsorted : s.Pairwise (· ≤ ·)) :
    avgSum (s.reverse.zip (vWeights pw ys.length))
      = avgSum (bestWeights pw true (withPrev (cumN (atoms (ys.map fun y => (y, (1 : α))))))) := by
  have htot : total (ys.map fun y => (y, (1 : α))) ≠ 0 := by
    rw [total_unit]
    have : 0 < ys.length := List.length_pos_iff.mpr hne
    exact_mod_cast this.ne'
  rw [average_min_max_duality pw _ htot]
  have hneg : negObs (ys.map fun y => (y, (1 : α))) = (ys.map fun y => -y).map fun y => (y, (1 : α)) := by
    simp [negObs, mapObs]
  have hperm' : (s.reverse.map fun y => -y).Perm (ys.map fun y => -y) :=
    ((List.reverse_perm s).trans hperm).map _
  have hsorted' : (s.reverse.map fun y => -y).Pairwise (· ≤ ·) := by
    rw [List.pairwise_map, List.pairwise_reverse]
    exact hsorted.imp (fun h => neg_le_neg h)
  have := v_eq_average_max pw (ys.map fun y => -y) (s.reverse.map fun y => -y) hperm' hsorted'
  rw [List.length_map] at this
  rw [hneg, ← this, avgSum_zip_map_neg, neg_neg]

/-! ## monotone in `n` (Abel summation) -/

/-- Abel summation bound: with `d ≥ 0` at every level and non-decreasing values,
`Σ_j v_j (d F_j − d F_{j−1}) ≤ v_last · d F_last − v_first · d F_0`. -/
theorem abel_bound (d : α → α) (l : List (α × α)) (v c prev : α)
    (hs : ((v, c) :: l).Pairwise fun p q => p.1 ≤ q.1) (hd : ∀ p ∈ (v, c) :: l, 0 ≤ d p.2) :
    avgSum (bestWeights d false (withPrevAux prev ((v, c) :: l)))
      ≤ (((v, c) :: l).getLast (by simp)).1 * d (((v, c) :: l).getLast (by simp)).2 - v * d prev := by
  induction l generalizing v c prev with
  | nil => simp [bestWeights_false, withPrevAux, avgSum]; linarith
  | cons hd' tl ih =>
    obtain ⟨v', c'⟩ := hd'
    rw [List.pairwise_cons] at hs
    have hvv' : v ≤ v' := hs.1 (v', c') (by simp)
    have hdc : 0 ≤ d c := hd (v, c) (by simp)
    have := ih v' c' c hs.2 (fun p hp => hd p (List.mem_cons_of_mem _ hp))
    rw [bestWeights_false] at this ⊢
    simp only [withPrevAux, List.map_cons, avgSum, List.sum_cons, List.getLast_cons_cons] at this ⊢
    nlinarith [mul_nonneg (sub_nonneg.mpr hvv') hdc]

/-- **monotone in `n`, maximise**, on any level list `l = [(v_j, F_j)]`: values non-decreasing, `pwm ≤ pwn` at every
level, equal at the starting level 0 and at the last level. -/
theorem avgSum_mono_of_levels (pwn pwm : α → α) (l : List (α × α))
    (hs : l.Pairwise fun p q => p.1 ≤ q.1) (hd : ∀ p ∈ l, pwm p.2 ≤ pwn p.2) (h0 : pwm 0 = pwn 0)
    (hlast : ∀ p, l.getLast? = some p → pwm p.2 = pwn p.2) :
    avgSum (bestWeights pwn false (withPrev l)) ≤ avgSum (bestWeights pwm false (withPrev l)) := by
  cases l with
  | nil => simp [withPrev, withPrevAux, bestWeights, avgSum]
  | cons hd' tl =>
    obtain ⟨v, c⟩ := hd'
    have hb := abel_bound (fun x => pwn x - pwm x) tl v c 0 hs (fun p hp => sub_nonneg.mpr (hd p hp))
    have hl := hlast _ (List.getLast?_eq_some_getLast (by simp))
    have hsplit : avgSum (bestWeights (fun x => pwn x - pwm x) false (withPrevAux 0 ((v, c) :: tl)))
        = avgSum (bestWeights pwn false (withPrevAux 0 ((v, c) :: tl)))
          - avgSum (bestWeights pwm false (withPrevAux 0 ((v, c) :: tl))) := by
      generalize withPrevAux (0 : α) ((v, c) :: tl) = tr
      simp only [bestWeights_false, avgSum]
      induction tr with
      | nil => simp
      | cons t tr ih => simp only [List.map_cons, List.sum_cons, ih]; ring
    rw [hsplit] at hb
    simp only [h0, hl, sub_self, mul_zero] at hb
    unfold withPrev
    linarith

/-! ### the level list of a weighted sample satisfies the hypotheses -/

theorem cumAux_facts (acc tot : α) (htot : 0 < tot) (l : List (α × α)) (hn : NonNeg l) (hacc : 0 ≤ acc)
    (hsum : acc + total l = tot) :
    (∀ p ∈ (cumAux acc l).map (fun p => (p.1, p.2 / tot)), 0 ≤ p.2 ∧ p.2 ≤ 1)
      ∧ (∀ p, ((cumAux acc l).map (fun p => (p.1, p.2 / tot))).getLast? = some p → p.2 = 1) := by
  induction l generalizing acc with
  | nil => simp [cumAux]
  | cons hd tl ih =>
    obtain ⟨v, x⟩ := hd
    have hx : 0 ≤ x := hn (v, x) (by simp)
    have hn' : NonNeg tl := fun p hp => hn p (by simp [hp])
    simp only [total] at hsum
    have htl : 0 ≤ total tl := total_nonneg tl hn'
    obtain ⟨ih1, ih2⟩ := ih (acc + x) hn' (by linarith) (by rw [← hsum]; ring)
    constructor
    · intro p hp
      simp only [cumAux, List.map_cons, List.mem_cons] at hp
      rcases hp with rfl | hp
      · exact ⟨div_nonneg (by linarith) htot.le, (div_le_one htot).mpr (by linarith)⟩
      · exact ih1 p hp
    · intro p hp
      cases tl with
      | nil =>
        simp only [cumAux, List.map_cons, List.map_nil, List.getLast?_singleton, Option.some.injEq] at hp
        rw [← hp]
        simp only [total, add_zero] at hsum
        simp only [hsum, div_self htot.ne']
      | cons hd2 tl2 =>
        obtain ⟨v2, x2⟩ := hd2
        apply ih2 p
        simpa [cumAux] using hp

theorem cumAux_keys (acc : α) (l : List (α × α)) : (cumAux acc l).map Prod.fst = l.map Prod.fst := by
  induction l generalizing acc with
  | nil => rfl
  | cons hd tl ih => obtain ⟨v, x⟩ := hd; simp [cumAux, ih]

theorem pairwise_keys_of_sorted {E : Type} [LinearOrder E] (l : List (E × α)) (hs : Sorted l) :
    l.Pairwise fun p q => p.1 < q.1 := by
  induction l with
  | nil => exact List.Pairwise.nil
  | cons hd tl ih => obtain ⟨u, x⟩ := hd; exact List.pairwise_cons.mpr ⟨hs.1, ih hs.2⟩

theorem cumN_pairwise (l : List (α × α)) (hs : Sorted l) : (cumN l).Pairwise fun p q => p.1 ≤ q.1 := by
  have h1 : ((cumN l).map Prod.fst).Pairwise (· ≤ ·) := by
    unfold cumN cum
    rw [List.map_map]
    have : (Prod.fst ∘ fun p : α × α => (p.1, p.2 / total l)) = Prod.fst := rfl
    rw [this, cumAux_keys]
    rw [List.pairwise_map]
    exact (pairwise_keys_of_sorted l hs).imp le_of_lt
  rwa [List.pairwise_map] at h1

/-- **the average curve is monotone in `n`, maximise**: if `pwm ≤ pwn` on `[0,1]` (as for `x^m ≤ x^n`, `n ≤ m`) and both
fix 0 and 1, the average of the best of "`m`" draws dominates that of "`n`" draws — for every weighted sample with
non-negative weights and positive total. -/
theorem average_mono_max (pwn pwm : α → α) (obs : List (α × α)) (hn : NonNeg obs) (htot : 0 < total obs)
    (hle : ∀ x, 0 ≤ x → x ≤ 1 → pwm x ≤ pwn x) (h0 : pwm 0 = pwn 0) (h1 : pwm 1 = pwn 1) :
    avgSum (bestWeights pwn false (withPrev (cumN (atoms obs))))
      ≤ avgSum (bestWeights pwm false (withPrev (cumN (atoms obs)))) := by
  have hnn := nonNeg_atoms obs hn
  have htot' : 0 < total (atoms obs) := by rw [total_atoms]; exact htot
  obtain ⟨f1, f2⟩ := cumAux_facts 0 (total (atoms obs)) htot' (atoms obs) hnn le_rfl (zero_add _)
  apply avgSum_mono_of_levels pwn pwm _ (cumN_pairwise _ (sorted_atoms obs))
  · intro p hp; exact hle _ (f1 p hp).1 (f1 p hp).2
  · exact h0
  · intro p hp; rw [f2 p hp]; exact h1

/-- **the average curve is monotone in `n`, minimise**: the reverse inequality. -/
theorem average_mono_min (pwn pwm : α → α) (obs : List (α × α)) (hn : NonNeg obs) (htot : 0 < total obs)
    (hle : ∀ x, 0 ≤ x → x ≤ 1 → pwm x ≤ pwn x) (h0 : pwm 0 = pwn 0) (h1 : pwm 1 = pwn 1) :
    avgSum (bestWeights pwm true (withPrev (cumN (atoms obs))))
      ≤ avgSum (bestWeights pwn true (withPrev (cumN (atoms obs)))) := by
  rw [bestWeights_true_eq_false, bestWeights_true_eq_false]
  apply average_mono_max (fun x => -pwm (1 - x)) (fun x => -pwn (1 - x)) obs hn htot
  · intro x hx0 hx1
    exact neg_le_neg (hle (1 - x) (by linarith) (by linarith))
  · simp only [sub_zero, h1]
  · simp only [sub_self, h0]

end Opda.Emp
