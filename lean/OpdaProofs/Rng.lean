import OpdaModel.Rng
import Mathlib.Tactic

/-!
Lemmas about the state machine of `OpdaModel/Rng.lean`: the invariant of reachable states
(no returned array aliases a cache cell; deterministic cells hold their table; every memoised ld key was
logged as an ld call on a live generator object) and the one-step facts the C14 theorems are made of.
Everything holds for both policies and for every cost function.
-/
namespace Opda.Rng

/-! ## association lists -/
section assoc
variable {κ β : Type} [DecidableEq κ]

theorem mem_of_assoc {k : κ} {v : β} {l : List (κ × β)} (h : assoc k l = some v) : (k, v) ∈ l := by
  induction l with
  | nil => simp [assoc] at h
  | cons p rest ih =>
    obtain ⟨k', v'⟩ := p
    simp only [assoc] at h
    split_ifs at h with hk
    · cases h; subst hk; exact List.mem_cons_self
    · exact List.mem_cons_of_mem _ (ih h)

theorem assoc_eq_none_of_forall {k : κ} {l : List (κ × β)} (h : ∀ v, (k, v) ∉ l) : assoc k l = none := by
  cases hh : assoc k l with
  | none => rfl
  | some v => exact absurd (mem_of_assoc hh) (h v)

theorem assoc_update_ne {k k' : κ} (v : β) (l : List (κ × β)) (h : k ≠ k') :
    assoc k (update k' v l) = assoc k l := by
  induction l with
  | nil => rfl
  | cons p rest ih =>
    obtain ⟨a, b⟩ := p
    simp only [update, assoc]
    by_cases h1 : k' = a
    · subst h1; simp only [if_true, if_neg h, ih]
    · simp only [if_neg h1, ih]

theorem assoc_cons_ne {k k' : κ} (v : β) (l : List (κ × β)) (h : k ≠ k') :
    assoc k ((k', v) :: l) = assoc k l := by
  simp only [assoc, if_neg h]

theorem assoc_cons_self (k : κ) (v : β) (l : List (κ × β)) : assoc k ((k, v) :: l) = some v := by
  simp only [assoc, if_true]

theorem key_mem_of_mem_update {k r : κ} {v g : β} {l : List (κ × β)} (h : (r, g) ∈ update k v l) :
    ∃ g', (r, g') ∈ l := by
  induction l with
  | nil => simp [update] at h
  | cons p rest ih =>
    obtain ⟨a, b⟩ := p
    simp only [update, List.mem_cons] at h
    rcases h with h | h
    · by_cases h1 : k = a
      · rw [if_pos h1] at h; cases h; exact ⟨_, List.mem_cons_self⟩
      · rw [if_neg h1] at h; cases h; exact ⟨_, List.mem_cons_self⟩
    · obtain ⟨g', hg'⟩ := ih h; exact ⟨g', List.mem_cons_of_mem _ hg'⟩

end assoc

theorem mem_of_nth? {β : Type} {i : Nat} {l : List β} {x : β} (h : nth? i l = some x) : x ∈ l := by
  induction l generalizing i with
  | nil => simp [nth?] at h
  | cons y rest ih =>
    cases i with
    | zero => simp only [nth?] at h; cases h; exact List.mem_cons_self
    | succ j => simp only [nth?] at h; exact List.mem_cons_of_mem _ (ih h)

/-! ## the invariant of reachable states -/

structure Inv (s : State) : Prop where
  /-- no array handed to a caller is a cache cell -/
  cacheFresh : ∀ k h, (k, h) ∈ s.cache → h < s.nextHandle ∧ h ∉ s.returned
  retBound : ∀ h ∈ s.returned, h < s.nextHandle
  /-- a memoised dkw/ks cell holds the table of its key -/
  detCell : ∀ dm n c h, (Key.det dm n c, h) ∈ s.cache → assoc h s.heap = some (.detTable dm n c)
  /-- a memoised ld key was used by an earlier ld-band call, on a generator object that exists -/
  ldLogged : ∀ n c k g j h, (Key.ld n c k g j, h) ∈ s.cache → Key.ld n c k g j ∈ s.ldCalls ∧ g < s.nextRef
  genBound : ∀ r g, (r, g) ∈ s.gens → r < s.nextRef
  globalBound : s.global < s.nextRef

theorem inv_init (seed0 legacy cpu : Nat) : Inv (init seed0 legacy cpu) where
  cacheFresh := by intro k h hm; simp [init] at hm
  retBound := by intro h hm; simp [init] at hm
  detCell := by intro dm n c h hm; simp [init] at hm
  ldLogged := by intro n c k g j h hm; simp [init] at hm
  genBound := by intro r g hm; simp only [init, List.mem_singleton, Prod.mk.injEq] at hm; rw [hm.1]; exact Nat.zero_lt_one
  globalBound := Nat.zero_lt_one

theorem inv_fresh {s : State} (hs : Inv s) : Inv (fresh s) where
  cacheFresh := by intro k h hm; simp [fresh] at hm
  retBound := by intro h hm; simp [fresh] at hm
  detCell := by intro dm n c h hm; simp [fresh] at hm
  ldLogged := by intro n c k g j h hm; simp [fresh] at hm
  genBound := hs.genBound
  globalBound := hs.globalBound

theorem Inv.ret {s : State} (hs : Inv s) (v : Value) (r : GenRef) (hit : Option Bool) (st : Option Nat) :
    Inv (ret s v r hit st).1 where
  cacheFresh := by
    intro k h hm
    obtain ⟨h1, h2⟩ := hs.cacheFresh k h hm
    refine ⟨Nat.lt_succ_of_lt h1, ?_⟩
    simp only [Rng.ret, List.mem_cons, not_or]
    exact ⟨Nat.ne_of_lt h1, h2⟩
  retBound := by
    intro h hm
    simp only [Rng.ret, List.mem_cons] at hm
    rcases hm with rfl | hm
    · exact Nat.lt_succ_self _
    · exact Nat.lt_succ_of_lt (hs.retBound h hm)
  detCell := by
    intro dm n c h hm
    have h1 := (hs.cacheFresh _ h hm).1
    show assoc h ((s.nextHandle, v) :: s.heap) = _
    rw [assoc_cons_ne _ _ (Nat.ne_of_lt h1)]
    exact hs.detCell dm n c h hm
  ldLogged := hs.ldLogged
  genBound := hs.genBound
  globalBound := hs.globalBound

theorem Inv.memo {s : State} (hs : Inv s) (key : Key) (tbl : Value)
    (hdet : ∀ dm n c, key = .det dm n c → tbl = .detTable dm n c)
    (hld : ∀ n c k g j, key = .ld n c k g j → key ∈ s.ldCalls ∧ g < s.nextRef) :
    Inv (memo s key tbl) where
  cacheFresh := by
    intro k h hm
    simp only [Rng.memo, List.mem_cons, Prod.mk.injEq] at hm
    rcases hm with ⟨_, rfl⟩ | hm
    · exact ⟨Nat.lt_succ_self _, fun hr => Nat.lt_irrefl _ (hs.retBound _ hr)⟩
    · obtain ⟨h1, h2⟩ := hs.cacheFresh k h hm
      exact ⟨Nat.lt_succ_of_lt h1, h2⟩
  retBound := fun h hm => Nat.lt_succ_of_lt (hs.retBound h hm)
  detCell := by
    intro dm n c h hm
    simp only [Rng.memo, List.mem_cons, Prod.mk.injEq] at hm
    show assoc h ((s.nextHandle, tbl) :: s.heap) = _
    rcases hm with ⟨hk, rfl⟩ | hm
    · rw [assoc_cons_self, hdet dm n c hk.symm]
    · rw [assoc_cons_ne _ _ (Nat.ne_of_lt (hs.cacheFresh _ h hm).1)]
      exact hs.detCell dm n c h hm
  ldLogged := by
    intro n c k g j h hm
    simp only [Rng.memo, List.mem_cons, Prod.mk.injEq] at hm
    rcases hm with ⟨rfl, _⟩ | hm
    · exact hld n c k g j rfl
    · exact hs.ldLogged n c k g j h hm
  genBound := hs.genBound
  globalBound := hs.globalBound

theorem Inv.setGens {s : State} (hs : Inv s) (r : GenRef) (g : GenState) :
    Inv { s with gens := update r g s.gens } where
  cacheFresh := hs.cacheFresh
  retBound := hs.retBound
  detCell := hs.detCell
  ldLogged := hs.ldLogged
  genBound := by
    intro r' g' hm
    obtain ⟨g'', hg⟩ := key_mem_of_mem_update hm
    exact hs.genBound r' g'' hg
  globalBound := hs.globalBound

theorem Inv.logLd {s : State} (hs : Inv s) (key : Key) : Inv { s with ldCalls := key :: s.ldCalls } where
  cacheFresh := hs.cacheFresh
  retBound := hs.retBound
  detCell := hs.detCell
  ldLogged := by
    intro n c k g j h hm
    obtain ⟨h1, h2⟩ := hs.ldLogged n c k g j h hm
    exact ⟨List.mem_cons_of_mem _ h1, h2⟩
  genBound := hs.genBound
  globalBound := hs.globalBound

theorem Inv.allocGen {s : State} (hs : Inv s) (z : Nat) (rebind : Bool) :
    Inv { s with global := if rebind then s.nextRef else s.global,
                 gens := (s.nextRef, ⟨z, 0⟩) :: s.gens, nextRef := s.nextRef + 1 } where
  cacheFresh := hs.cacheFresh
  retBound := hs.retBound
  detCell := hs.detCell
  ldLogged := by
    intro n c k g j h hm
    obtain ⟨h1, h2⟩ := hs.ldLogged n c k g j h hm
    exact ⟨h1, Nat.lt_succ_of_lt h2⟩
  genBound := by
    intro r g hm
    simp only [List.mem_cons, Prod.mk.injEq] at hm
    rcases hm with ⟨rfl, _⟩ | hm
    · exact Nat.lt_succ_self _
    · exact Nat.lt_succ_of_lt (hs.genBound r g hm)
  globalBound := by
    show (if rebind then s.nextRef else s.global) < s.nextRef + 1
    cases rebind
    · exact Nat.lt_succ_of_lt hs.globalBound
    · exact Nat.lt_succ_self _

/-- every step preserves the invariant -/
theorem Inv.step {s : State} (hs : Inv s) (P : Policy) (cost : Cost) (o : Op) : Inv (step P cost s o).1 := by
  cases o with
  | setSeed z => simpa [Rng.step] using hs.allocGen z true
  | newGen z => simpa [Rng.step] using hs.allocGen z false
  | setGlobal r =>
    simp only [Rng.step]
    cases hr : assoc r s.gens with
    | none => exact hs
    | some g =>
      exact { cacheFresh := hs.cacheFresh, retBound := hs.retBound, detCell := hs.detCell,
              ldLogged := hs.ldLogged, genBound := hs.genBound,
              globalBound := hs.genBound r g (mem_of_assoc hr) }
  | sample cls dist count gen =>
    simp only [Rng.step]
    cases hr : assoc (gen.getD s.global) s.gens with
    | none => exact hs
    | some g => exact (hs.setGens _ _).ret _ _ _ _
  | fit args gen =>
    simp only [Rng.step]
    cases hr : assoc (gen.getD s.global) s.gens with
    | none => exact hs
    | some g => exact (hs.setGens _ _).ret _ _ _ _
  | mutateReturned i v =>
    simp only [Rng.step]
    cases hi : nth? i s.returned with
    | none => exact hs
    | some h' =>
      have hmem := mem_of_nth? hi
      exact { cacheFresh := hs.cacheFresh, retBound := hs.retBound,
              detCell := by
                intro dm n c h hm
                have hne : h ≠ h' := fun e => (hs.cacheFresh _ h hm).2 (e ▸ hmem)
                show assoc h (update h' (.junk v) s.heap) = _
                rw [assoc_update_ne _ _ hne]; exact hs.detCell dm n c h hm,
              ldLogged := hs.ldLogged, genBound := hs.genBound, globalBound := hs.globalBound }
  | bands m n conf ys gen njobs =>
    cases m with
    | det dm =>
      simp only [Rng.step]
      cases hr : assoc (gen.getD s.global) s.gens with
      | none => exact hs
      | some g =>
        cases hc : assoc (Key.det dm n conf) s.cache with
        | some h => exact hs.ret _ _ _ _
        | none =>
          refine (hs.memo (.det dm n conf) (.detTable dm n conf) ?_ ?_).ret _ _ _ _
          · intro dm' n' c' e; cases e; rfl
          · intro n' c' k' g' j' e; cases e
    | ld kind =>
      simp only [Rng.step]
      cases hr : assoc (gen.getD s.global) s.gens with
      | none => exact hs
      | some g =>
        have hlog := hs.logLd (Key.ld n conf kind (gen.getD s.global) (njobs.getD s.cpu))
        cases hc : (if P = Policy.asCode then
            assoc (Key.ld n conf kind (gen.getD s.global) (njobs.getD s.cpu)) s.cache else none) with
        | some h => exact hlog.ret _ _ _ _
        | none =>
          refine (Inv.memo (hlog.setGens _ _) _ _ ?_ ?_).ret _ _ _ _
          · intro dm' n' c' e; cases e
          · intro n' c' k' g' j' e
            cases e
            exact ⟨List.mem_cons_self, hs.genBound _ g (mem_of_assoc hr)⟩

theorem Inv.exec {s : State} (hs : Inv s) (P : Policy) (cost : Cost) (h : List Op) : Inv (exec P cost s h) := by
  induction h generalizing s with
  | nil => exact hs
  | cons o os ih => exact ih (hs.step P cost o)

/-- states reachable from a new process satisfy the invariant -/
theorem inv_reachable (P : Policy) (cost : Cost) (seed0 legacy cpu : Nat) (h : List Op) :
    Inv (exec P cost (init seed0 legacy cpu) h) := (inv_init seed0 legacy cpu).exec P cost h

end Opda.Rng
