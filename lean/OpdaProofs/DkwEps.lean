import Mathlib.Analysis.SpecialFunctions.Log.Basic
import Mathlib.Analysis.SpecialFunctions.Sqrt
import Mathlib.Analysis.SpecialFunctions.Pow.Real
import Mathlib.Tactic

/-! C01-T3 / C16-T3: the closed form of `dkw_epsilon`. -/
namespace Opda.Dkw
open Real

noncomputable def eps (n c : ℝ) : ℝ := Real.sqrt (Real.log (2 / (1 - c)) / (2 * n))

theorem log_arg_ge_one (c : ℝ) (hc0 : 0 ≤ c) (hc1 : c < 1) : 1 ≤ 2 / (1 - c) := by
  have h : 0 < 1 - c := by linarith
  rw [le_div_iff₀ h]; linarith

theorem eps_nonneg (n c : ℝ) : 0 ≤ eps n c := Real.sqrt_nonneg _

/-- `2·exp(−2 n ε²) = 1 − confidence` -/
theorem eps_spec (n c : ℝ) (hn : 0 < n) (hc0 : 0 ≤ c) (hc1 : c < 1) :
    2 * Real.exp (-2 * n * (eps n c)^2) = 1 - c := by
  have h1c : 0 < 1 - c := by linarith
  have harg : 0 < 2 / (1 - c) := by positivity
  have hlog : 0 ≤ Real.log (2 / (1 - c)) := Real.log_nonneg (log_arg_ge_one c hc0 hc1)
  have hq : 0 ≤ Real.log (2 / (1 - c)) / (2 * n) := by positivity
  unfold eps
  rw [Real.sq_sqrt hq]
  have : -2 * n * (Real.log (2 / (1 - c)) / (2 * n)) = -Real.log (2 / (1 - c)) := by
    field_simp
  rw [this, Real.exp_neg, Real.exp_log harg]
  field_simp

/-- monotone in the confidence, antitone in the sample size -/
theorem eps_mono_c (n c c' : ℝ) (hn : 0 < n) (hc0 : 0 ≤ c) (hcc : c ≤ c') (hc1 : c' < 1) :
    eps n c ≤ eps n c' := by
  unfold eps
  apply Real.sqrt_le_sqrt
  apply div_le_div_of_nonneg_right _ (by positivity)
  have h1 : 0 < 1 - c' := by linarith
  have h2 : 0 < 1 - c := by linarith
  apply Real.log_le_log (div_pos (by norm_num) h2)
  exact div_le_div_of_nonneg_left (by norm_num) h1 (by linarith)

theorem eps_anti_n (n n' c : ℝ) (hn : 0 < n) (hnn : n ≤ n') (hc0 : 0 ≤ c) (hc1 : c < 1) :
    eps n' c ≤ eps n c := by
  unfold eps
  apply Real.sqrt_le_sqrt
  have hlog : 0 ≤ Real.log (2 / (1 - c)) := Real.log_nonneg (log_arg_ge_one c hc0 hc1)
  exact div_le_div_of_nonneg_left hlog (by positivity) (by linarith)

#print axioms eps_spec
end Opda.Dkw
