import OpdaProofs.Audit
import OpdaProofs.BandMore
import OpdaProofs.Small
import OpdaProofs.ExtInst
/-!
# C02 — bands bracket the estimate, depend only on ranks, invert to tuning-curve bands

The model of `confidence_bands` is `Opda.Band.bandObs` (the code's `diff(levels, prepend 0, append 1)` placed on the
sorted extended sample `[a] ++ ys ++ [b]`) fed to the C03 constructor model `Opda.Emp.support`.  The level tables are
parameters: the correspondence check computes them from the documented construction (dkw/ks: `clip(i/n ∓ ε)`; ld: the
simulated critical value pushed through the public beta-interval helpers) and compares the code's bands with the model.
-/
namespace Opda.Props.C02
open Opda.Emp Opda.Band Opda.Wire

variable {E α : Type} [LinearOrder E] [OrderBot E] [OrderTop E]
  [Field α] [LinearOrder α] [IsStrictOrderedRing α]

/-- every band cdf value is the level indexed by the number of extended sample points `≤ t`: 0 below `a`, `levels[k-1]`
in between, 1 from `b` on — for every sample (ties allowed), every bounds, every level table, every `t`.  In particular no
band puts mass outside `[a,b]`. -/
theorem band_cdf_eq_level_of_count (a b : E) (ys : List E) (levels : List α) (t : E)
    (hlen : levels.length = ys.length + 1) :
    cdf (support ⊥ ⊤ a b (bandObs a b ys levels)) t
      = levelAt (countLE t (sort (a :: (ys ++ [b])))) levels := band_cdf a b ys levels t hlen

/-- **bracket / widening**: level-wise ordered tables give pointwise ordered band cdfs for *all* `t`.  With
`L ≤ M ≤ U` (`M_k = k/n` is the point estimate) this is `lo.cdf ≤ pt.cdf ≤ hi.cdf`; with the tables of two confidences
it is "raising the confidence never narrows the band". -/
theorem bands_ordered_of_levels_ordered (a b : E) (ys : List E) (L U : List α) (t : E)
    (hL : L.length = ys.length + 1) (hU : U.length = ys.length + 1) (h : ∀ i, L.getD i 0 ≤ U.getD i 0) :
    cdf (support ⊥ ⊤ a b (bandObs a b ys L)) t ≤ cdf (support ⊥ ⊤ a b (bandObs a b ys U)) t :=
  band_cdf_le_of_levels_le a b ys L U t hL hU h

/-- **rank only (permutations)** -/
theorem bands_permutation_invariant (a b : E) (ys ys' : List E) (levels : List α) (t : E) (hp : ys.Perm ys')
    (hlen : levels.length = ys.length + 1) :
    cdf (support ⊥ ⊤ a b (bandObs a b ys levels)) t = cdf (support ⊥ ⊤ a b (bandObs a b ys' levels)) t :=
  band_cdf_perm a b ys ys' levels t hp hlen

/-- **rank only (strictly increasing maps)** applied to sample, bounds and query -/
theorem bands_monotone_map_invariant {E' : Type} [LinearOrder E'] [OrderBot E'] [OrderTop E']
    (g : E → E') (hg : StrictMono g) (a b : E) (ys : List E) (levels : List α) (t : E)
    (hlen : levels.length = ys.length + 1) :
    cdf (support ⊥ ⊤ (g a) (g b) (bandObs (g a) (g b) (ys.map g) levels)) (g t)
      = cdf (support ⊥ ⊤ a b (bandObs a b ys levels)) t :=
  band_cdf_strictMono_map g hg a b ys levels t hlen

/-- **tuning-curve bands**: if `F ≤ G` pointwise then `Q_G ≤ Q_F` at every level, for *any* two distribution
functions whose quantile functions satisfy the Galois law above `a` (in particular the three band distributions, by
C03, and any CDF lying inside the CDF band): the upper CDF band gives the lower tuning-curve band. -/
theorem quantile_band_antitone {E α : Type} [Preorder E] [Preorder α]
    (a : E) (F G : E → α) (QF QG : α → E)
    (hF : ∀ q y, a ≤ y → (QF q ≤ y ↔ q ≤ F y)) (hG : ∀ q y, a ≤ y → (QG q ≤ y ↔ q ≤ G y))
    (hle : ∀ y, F y ≤ G y) (haF : ∀ q, a ≤ QF q) (q : α) : QG q ≤ QF q :=
  Opda.Small.quantile_antitone a F G QF QG hF hG hle haF q

/-- the band theorem for the very terms the driver evaluates -/
theorem band_cdf_driver (a b : Ext) (ys : List Ext) (levels : List Rat) (t : Ext)
    (hlen : levels.length = ys.length + 1) :
    cdf (support Ext.negInf Ext.posInf a b (bandObs a b ys levels)) t
      = levelAt (countLE t (sort (a :: (ys ++ [b])))) levels :=
  band_cdf (E := Ext) (α := Rat) a b ys levels t hlen

end Opda.Props.C02

#opda_audit Opda.Props.C02
