import OpdaProofs.Audit
import OpdaProofs.BandMore
import OpdaProofs.BandCor
import OpdaProofs.BandConf
import OpdaProofs.Small
import OpdaProofs.ExtInst
/-!
# C02 — bands bracket the estimate, depend only on ranks, invert to tuning-curve bands

The model of `confidence_bands` is `Opda.Band.bandObs` (the code's `diff(levels, prepend 0, append 1)` placed on the
sorted extended sample `[a] ++ ys ++ [b]`) fed to the C03 constructor model `Opda.Emp.support`.  The level tables are
parameters: the correspondence check computes them from the documented construction (dkw/ks: `clip(i/n ∓ ε)`; ld: the
simulated critical value pushed through the public beta-interval helpers) and compares the code's bands with the model.
-/
namespace Opda.Props.C02
open Opda.Emp Opda.Band Opda.Wire

variable {E α : Type} [LinearOrder E] [OrderBot E] [OrderTop E]
  [Field α] [LinearOrder α] [IsStrictOrderedRing α]

/-- every band cdf value is the level indexed by the number of extended sample points `≤ t`: 0 below `a`, `levels[k-1]`
in between, 1 from `b` on — for every sample (ties allowed), every bounds, every level table, every `t`.  In particular no
band puts mass outside `[a,b]`. -/
theorem band_cdf_eq_level_of_count (a b : E) (ys : List E) (levels : List α) (t : E)
    (hlen : levels.length = ys.length + 1) :
    cdf (support ⊥ ⊤ a b (bandObs a b ys levels)) t
      = levelAt (countLE t (sort (a :: (ys ++ [b])))) levels := band_cdf a b ys levels t hlen

/-- **bracket / widening**: level-wise ordered tables give pointwise ordered band cdfs for *all* `t`.  With
`L ≤ M ≤ U` (`M_k = k/n` is the point estimate) this is `lo.cdf ≤ pt.cdf ≤ hi.cdf`; with the tables of two confidences
it is "raising the confidence never narrows the band". -/
theorem bands_ordered_of_levels_ordered (a b : E) (ys : List E) (L U : List α) (t : E)
    (hL : L.length = ys.length + 1) (hU : U.length = ys.length + 1) (h : ∀ i, L.getD i 0 ≤ U.getD i 0) :
    cdf (support ⊥ ⊤ a b (bandObs a b ys L)) t ≤ cdf (support ⊥ ⊤ a b (bandObs a b ys U)) t :=
  band_cdf_le_of_levels_le a b ys L U t hL hU h

/-- **rank only (permutations)** -/
theorem bands_permutation_invariant (a b : E) (ys ys' : List E) (levels : List α) (t : E) (hp : ys.Perm ys')
    (hlen : levels.length = ys.length + 1) :
    cdf (support ⊥ ⊤ a b (bandObs a b ys levels)) t = cdf (support ⊥ ⊤ a b (bandObs a b ys' levels)) t :=
  band_cdf_perm a b ys ys' levels t hp hlen

/-- **rank only (strictly increasing maps)** applied to sample, bounds and query -/
theorem bands_monotone_map_invariant {E' : Type} [LinearOrder E'] [OrderBot E'] [OrderTop E']
    (g : E → E') (hg : StrictMono g) (a b : E) (ys : List E) (levels : List α) (t : E)
    (hlen : levels.length = ys.length + 1) :
    cdf (support ⊥ ⊤ (g a) (g b) (bandObs (g a) (g b) (ys.map g) levels)) (g t)
      = cdf (support ⊥ ⊤ a b (bandObs a b ys levels)) t :=
  band_cdf_strictMono_map g hg a b ys levels t hlen

/-- **tuning-curve bands**: if `F ≤ G` pointwise then `Q_G ≤ Q_F` at every level, for *any* two distribution
functions whose quantile functions satisfy the Galois law above `a` (in particular the three band distributions, by
C03, and any CDF lying inside the CDF band): the upper CDF band gives the lower tuning-curve band. -/
theorem quantile_band_antitone {E α : Type} [Preorder E] [Preorder α]
    (a : E) (F G : E → α) (QF QG : α → E)
    (hF : ∀ q y, a ≤ y → (QF q ≤ y ↔ q ≤ F y)) (hG : ∀ q y, a ≤ y → (QG q ≤ y ↔ q ≤ G y))
    (hle : ∀ y, F y ≤ G y) (haF : ∀ q, a ≤ QF q) (q : α) : QG q ≤ QF q :=
  Opda.Small.quantile_antitone a F G QF QG hF hG hle haF q


/-! ### no mass outside `[a,b]`, the ends of the bands, widening -/

/-- closed form of the index: `cdf t = levelAt ([a ≤ t] + #{i : y_i ≤ t} + [b ≤ t]) levels` -/
theorem band_cdf_eq_level_of_sample_count (a b : E) (ys : List E) (levels : List α) (t : E)
    (hlen : levels.length = ys.length + 1) :
    cdf (support ⊥ ⊤ a b (bandObs a b ys levels)) t
      = levelAt ((if a ≤ t then 1 else 0) + ys.countP (fun v => decide (v ≤ t)) + (if b ≤ t then 1 else 0)) levels :=
  band_cdf_count a b ys levels t hlen

/-- **no band puts mass below `a`**: for *every* level table, each of lo / pt / hi has cdf 0 strictly below `a`
(bounds as the class validates them: `a ≤ min ys`, `a ≤ b`). -/
theorem band_no_mass_below_a (a b : E) (ys : List E) (levels : List α) (t : E) (hlen : levels.length = ys.length + 1)
    (hta : t < a) (hys : ∀ y ∈ ys, a ≤ y) (hab : a ≤ b) :
    cdf (support ⊥ ⊤ a b (bandObs a b ys levels)) t = 0 := band_cdf_zero_below a b ys levels t hlen hta hys hab

/-- **no band puts mass above `b`**: for every level table the cdf is 1 from `b` on. -/
theorem band_no_mass_above_b (a b : E) (ys : List E) (levels : List α) (t : E) (hlen : levels.length = ys.length + 1)
    (hbt : b ≤ t) (hys : ∀ y ∈ ys, y ≤ b) (hab : a ≤ b) :
    cdf (support ⊥ ⊤ a b (bandObs a b ys levels)) t = 1 := band_cdf_one_from_b a b ys levels t hlen hbt hys hab

/-- between the bounds the band cdf is the level indexed by the number of observations `≤ t` -/
theorem band_cdf_between_bounds (a b : E) (ys : List E) (levels : List α) (t : E) (hlen : levels.length = ys.length + 1)
    (hat : a ≤ t) (htb : t < b) :
    cdf (support ⊥ ⊤ a b (bandObs a b ys levels)) t = levels.getD (ys.countP (fun v => decide (v ≤ t))) 0 :=
  band_cdf_inside a b ys levels t hlen hat htb

/-- **the lower band is 0 below the smallest observation**: any table with `L_0 = 0` (true of the dkw/ks tables,
`lower_level_zero`), any `t` below every observation and below `b`. -/
theorem lower_band_zero_below_min (a b : E) (ys : List E) (levels : List α) (t : E)
    (hlen : levels.length = ys.length + 1) (hL0 : levels.getD 0 0 = 0) (hys : ∀ y ∈ ys, t < y) (htb : t < b) :
    cdf (support ⊥ ⊤ a b (bandObs a b ys levels)) t = 0 := band_cdf_zero_below_min a b ys levels t hlen hL0 hys htb

/-- **the upper band is 1 from the largest observation on**: any table with `U_n = 1` (true of the dkw/ks tables,
`upper_level_last_one`).  "Largest support point" means `max ys`, not `b`: the band reaches 1 at `max ys` already when
`b > max ys`, because the mass that `diff(…, append=[1.])` puts on `b` is `1 − U_n = 0`. -/
theorem upper_band_one_from_max (a b : E) (ys : List E) (levels : List α) (t : E)
    (hlen : levels.length = ys.length + 1) (hUn : levels.getD ys.length 0 = 1) (hat : a ≤ t) (hys : ∀ y ∈ ys, y ≤ t) :
    cdf (support ⊥ ⊤ a b (bandObs a b ys levels)) t = 1 := band_cdf_one_from_max a b ys levels t hlen hUn hat hys

/-- the dkw/ks tables `clip(arange(n+1)/n ∓ ε, 0, 1)` satisfy the two hypotheses for every `ε ≥ 0` -/
theorem lower_level_zero (n : ℕ) {ε : α} (h : 0 ≤ ε) : (loLevels n ε).getD 0 0 = 0 := loLevels_zero n h

theorem upper_level_last_one (n : ℕ) (hn : 0 < n) {ε : α} (h : 0 ≤ ε) : (hiLevels n ε).getD n 0 = 1 :=
  hiLevels_last n hn h

/-- **raising `ε` (the confidence) never narrows the dkw/ks band**: `ε ≤ ε'` ⇒ `lo' ≤ lo` and `hi ≤ hi'` at every `t`. -/
theorem widening_of_eps (a b : E) (ys : List E) (t : E) {ε ε' : α} (h : ε ≤ ε') :
    cdf (support ⊥ ⊤ a b (bandObs a b ys (loLevels ys.length ε'))) t
        ≤ cdf (support ⊥ ⊤ a b (bandObs a b ys (loLevels ys.length ε))) t
      ∧ cdf (support ⊥ ⊤ a b (bandObs a b ys (hiLevels ys.length ε))) t
        ≤ cdf (support ⊥ ⊤ a b (bandObs a b ys (hiLevels ys.length ε'))) t := band_widening_of_eps a b ys t h

/-- **pt is the band with the uniform table `i/n`**: the empirical distribution of the sample has the cdf of the band
distribution built from `arange(n+1)/n` — which makes the bracket an instance of `bands_ordered_of_levels_ordered`. -/
theorem pt_is_uniform_band (a b : E) (ys : List E) (t : E) (hne : ys ≠ []) (hys : ∀ y ∈ ys, a ≤ y ∧ y ≤ b) :
    cdf (support ⊥ ⊤ a b (ys.map fun y => (y, (1 : α)))) t
      = cdf (support ⊥ ⊤ a b (bandObs a b ys (ptLevels ys.length))) t := pt_cdf_eq_uniform_band a b ys t hne hys

/-- **bracket for dkw / ks**: `lo.cdf ≤ pt.cdf ≤ hi.cdf` at every `t` and every `ε ≥ 0`, `pt` being the actual empirical
distribution of the sample. -/
theorem dkw_ks_bracket (a b : E) (ys : List E) (t : E) (hne : ys ≠ []) (hys : ∀ y ∈ ys, a ≤ y ∧ y ≤ b)
    {ε : α} (h : 0 ≤ ε) :
    cdf (support ⊥ ⊤ a b (bandObs a b ys (loLevels ys.length ε))) t
        ≤ cdf (support ⊥ ⊤ a b (ys.map fun y => (y, (1 : α)))) t
      ∧ cdf (support ⊥ ⊤ a b (ys.map fun y => (y, (1 : α)))) t
        ≤ cdf (support ⊥ ⊤ a b (bandObs a b ys (hiLevels ys.length ε))) t := dkw_bracket a b ys t hne hys h

/-- non-vacuity: a tied sample strictly inside infinite/finite bounds, a query below the sample and one above it. -/
example : (∀ y ∈ ([Ext.fin 2, Ext.fin 2, Ext.fin 5] : List Ext), Ext.fin 0 ≤ y ∧ y ≤ Ext.posInf)
    ∧ (∀ y ∈ ([Ext.fin 2, Ext.fin 2, Ext.fin 5] : List Ext), Ext.fin 1 < y) ∧ Ext.fin 1 < Ext.posInf
    ∧ (∀ y ∈ ([Ext.fin 2, Ext.fin 2, Ext.fin 5] : List Ext), y ≤ Ext.fin 5) ∧ Ext.fin 0 ≤ Ext.fin 5
    ∧ (loLevels 3 ((1:ℚ)/4)).length = 3 + 1 ∧ (0:ℚ) ≤ 1/4 ∧ ((1:ℚ)/4) ≤ 1/2 := by
  refine ⟨?_, ?_, by decide, ?_, by decide, loLevels_length _ _, by norm_num, by norm_num⟩ <;>
  · intro y hy
    simp only [List.mem_cons, List.not_mem_nil, or_false] at hy
    rcases hy with rfl | rfl | rfl <;> norm_num [Ext.lt_iff, Ext.le_iff, Ext.lt]

/-! ### dkw: raising the confidence never narrows the band (unconditional) -/

/-- **dkw, confidences below 1**: for every non-empty sample, bounds, query `t` and `0 ≤ c ≤ c' < 1`, with the tables
`clip(i/n ∓ ε(n,c))` of `_dkw_band_weights` and `ε(n,c) = sqrt(log(2/(1−c))/(2n))` (`Opda.Dkw.eps`, the closed form of
`dkw_epsilon`): `lo_{c'}(t) ≤ lo_c(t)` and `hi_c(t) ≤ hi_{c'}(t)`.  No hypothesis on the tables is left. -/
theorem dkw_band_widens_with_confidence (a b : E) (ys : List E) (t : E) (hne : ys ≠ []) {c c' : ℝ}
    (hc0 : 0 ≤ c) (hcc : c ≤ c') (hc1 : c' < 1) :
    cdf (support ⊥ ⊤ a b (bandObs a b ys (loLevels ys.length (Opda.Dkw.eps ys.length c')))) t
        ≤ cdf (support ⊥ ⊤ a b (bandObs a b ys (loLevels ys.length (Opda.Dkw.eps ys.length c)))) t
      ∧ cdf (support ⊥ ⊤ a b (bandObs a b ys (hiLevels ys.length (Opda.Dkw.eps ys.length c)))) t
        ≤ cdf (support ⊥ ⊤ a b (bandObs a b ys (hiLevels ys.length (Opda.Dkw.eps ys.length c')))) t :=
  dkw_widens_lt_one a b ys t hne hc0 hcc hc1

/-- **confidence 1 is the trivial band**: `dkw_epsilon(n, 1) = +∞`, so the code's tables are `clip(−∞) = 0` and
`clip(+∞) = 1` at every index (`dkwLo n 1`, `dkwHi n 1`); these are the tables `clip(i/n ∓ ε)` of *every* radius `ε ≥ 1`. -/
theorem dkw_tables_at_confidence_one (n : ℕ) {ε : ℝ} (h : 1 ≤ ε) :
    dkwLo n 1 = List.replicate (n + 1) 0 ∧ dkwHi n 1 = List.replicate (n + 1) 1
      ∧ loLevels n ε = List.replicate (n + 1) 0 ∧ hiLevels n ε = List.replicate (n + 1) 1 :=
  ⟨dkwLo_one n, dkwHi_one n, loLevels_of_one_le n h, hiLevels_of_one_le n h⟩

/-- **dkw, every pair of confidences `0 ≤ c ≤ c' ≤ 1`**, `c' = 1` included (`dkwLo`/`dkwHi` are `clip(i/n ∓ ε(n,c))`
below 1 and the all-0 / all-1 tables at 1): the band of `c'` contains the band of `c` at every `t`. -/
theorem dkw_band_widens_up_to_confidence_one (a b : E) (ys : List E) (t : E) (hne : ys ≠ []) {c c' : ℝ}
    (hc0 : 0 ≤ c) (hcc : c ≤ c') (hc1 : c' ≤ 1) :
    cdf (support ⊥ ⊤ a b (bandObs a b ys (dkwLo ys.length c'))) t
        ≤ cdf (support ⊥ ⊤ a b (bandObs a b ys (dkwLo ys.length c))) t
      ∧ cdf (support ⊥ ⊤ a b (bandObs a b ys (dkwHi ys.length c))) t
        ≤ cdf (support ⊥ ⊤ a b (bandObs a b ys (dkwHi ys.length c'))) t :=
  dkw_widens a b ys t hne hc0 hcc hc1

/-- non-vacuity: a sample and two confidences meeting the hypotheses, with 1 as the larger one as well. -/
example : ([Ext.fin 2, Ext.fin 2, Ext.fin 5] : List Ext) ≠ [] ∧ (0 : ℝ) ≤ 1/2 ∧ (1/2 : ℝ) ≤ 19/20 ∧ (19/20 : ℝ) < 1
    ∧ (19/20 : ℝ) ≤ 1 ∧ (1 : ℝ) ≤ 1 := by
  refine ⟨by simp, by norm_num, by norm_num, by norm_num, by norm_num, le_rfl⟩

/-- the band theorem for the very terms the driver evaluates -/
theorem band_cdf_driver (a b : Ext) (ys : List Ext) (levels : List Rat) (t : Ext)
    (hlen : levels.length = ys.length + 1) :
    cdf (support Ext.negInf Ext.posInf a b (bandObs a b ys levels)) t
      = levelAt (countLE t (sort (a :: (ys ++ [b])))) levels :=
  band_cdf (E := Ext) (α := Rat) a b ys levels t hlen

end Opda.Props.C02

#opda_audit Opda.Props.C02
