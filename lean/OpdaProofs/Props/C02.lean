import OpdaProofs.Audit
import OpdaProofs.BandMore
import OpdaProofs.BandCor
import OpdaProofs.BandConf
import OpdaProofs.LdWiden
import OpdaProofs.Small
import OpdaProofs.ExtInst
/-!
# C02 — bands bracket the estimate, depend only on ranks, invert to tuning-curve bands

The model of `confidence_bands` is `Opda.Band.bandObs` (the code's `diff(levels, prepend 0, append 1)` placed on the
sorted extended sample `[a] ++ ys ++ [b]`) fed to the C03 constructor model `Opda.Emp.support`.  The level tables are
parameters: the correspondence check computes them from the documented construction (dkw/ks: `clip(i/n ∓ ε)`; ld: the
simulated critical value pushed through the public beta-interval helpers) and compares the code's bands with the model.

"Raising the confidence (same seed) never narrows the band" is a theorem for three of the four methods: dkw
(`dkw_band_widens_with_confidence`, `dkw_band_widens_up_to_confidence_one`), ld_equal_tailed
(`ld_equal_tailed_band_widens_with_confidence`) and ld_highest_density (`ld_highest_density_band_widens_with_confidence`,
`n ≥ 2`).  For ld the same seed gives the same simulated statistics `ts`, and the clause is the chain
`np_quantile_monotone_in_level` (numpy's linear rule, modelled by `Opda.LdWiden.npQuantile`) →
`equal_tailed_nested_in_coverage` with `beta_quantile_spec_and_monotone` / `highest_density_nested_in_coverage` →
`band_widens_of_levelwise_widening`.  What stays compared for ld: that the code's tables are the model tables
`ldLo`/`ldHi` at `np.quantile(ts, confidence)` (numpy's rule, scipy's `beta.ppf`, the code's highest-density root search
against `hdLoEnd`/`hdHiEnd`, for which `highest_density_ends_are_level_set` gives the characterisation).  ks: compared.
-/
namespace Opda.Props.C02
open Opda.Emp Opda.Band Opda.Wire

variable {E α : Type} [LinearOrder E] [OrderBot E] [OrderTop E]
  [Field α] [LinearOrder α] [IsStrictOrderedRing α]

/-- every band cdf value is the level indexed by the number of extended sample points `≤ t`: 0 below `a`, `levels[k-1]`
in between, 1 from `b` on — for every sample (ties allowed), every bounds, every level table, every `t`.  In particular no
band puts mass outside `[a,b]`. -/
theorem band_cdf_eq_level_of_count (a b : E) (ys : List E) (levels : List α) (t : E)
    (hlen : levels.length = ys.length + 1) :
    cdf (support ⊥ ⊤ a b (bandObs a b ys levels)) t
      = levelAt (countLE t (sort (a :: (ys ++ [b])))) levels := band_cdf a b ys levels t hlen

/-- **bracket / widening**: level-wise ordered tables give pointwise ordered band cdfs for *all* `t`.  With
`L ≤ M ≤ U` (`M_k = k/n` is the point estimate) this is `lo.cdf ≤ pt.cdf ≤ hi.cdf`; with the tables of two confidences
it is "raising the confidence never narrows the band". -/
theorem bands_ordered_of_levels_ordered (a b : E) (ys : List E) (L U : List α) (t : E)
    (hL : L.length = ys.length + 1) (hU : U.length = ys.length + 1) (h : ∀ i, L.getD i 0 ≤ U.getD i 0) :
    cdf (support ⊥ ⊤ a b (bandObs a b ys L)) t ≤ cdf (support ⊥ ⊤ a b (bandObs a b ys U)) t :=
  band_cdf_le_of_levels_le a b ys L U t hL hU h

/-- **rank only (permutations)** -/
theorem bands_permutation_invariant (a b : E) (ys ys' : List E) (levels : List α) (t : E) (hp : ys.Perm ys')
    (hlen : levels.length = ys.length + 1) :
    cdf (support ⊥ ⊤ a b (bandObs a b ys levels)) t = cdf (support ⊥ ⊤ a b (bandObs a b ys' levels)) t :=
  band_cdf_perm a b ys ys' levels t hp hlen

/-- **rank only (strictly increasing maps)** applied to sample, bounds and query -/
theorem bands_monotone_map_invariant {E' : Type} [LinearOrder E'] [OrderBot E'] [OrderTop E']
    (g : E → E') (hg : StrictMono g) (a b : E) (ys : List E) (levels : List α) (t : E)
    (hlen : levels.length = ys.length + 1) :
    cdf (support ⊥ ⊤ (g a) (g b) (bandObs (g a) (g b) (ys.map g) levels)) (g t)
      = cdf (support ⊥ ⊤ a b (bandObs a b ys levels)) t :=
  band_cdf_strictMono_map g hg a b ys levels t hlen

/-- **tuning-curve bands**: if `F ≤ G` pointwise then `Q_G ≤ Q_F` at every level, for *any* two distribution
functions whose quantile functions satisfy the Galois law above `a` (in particular the three band distributions, by
C03, and any CDF lying inside the CDF band): the upper CDF band gives the lower tuning-curve band. -/
theorem quantile_band_antitone {E α : Type} [Preorder E] [Preorder α]
    (a : E) (F G : E → α) (QF QG : α → E)
    (hF : ∀ q y, a ≤ y → (QF q ≤ y ↔ q ≤ F y)) (hG : ∀ q y, a ≤ y → (QG q ≤ y ↔ q ≤ G y))
    (hle : ∀ y, F y ≤ G y) (haF : ∀ q, a ≤ QF q) (q : α) : QG q ≤ QF q :=
  Opda.Small.quantile_antitone a F G QF QG hF hG hle haF q


/-! ### no mass outside `[a,b]`, the ends of the bands, widening -/

/-- closed form of the index: `cdf t = levelAt ([a ≤ t] + #{i : y_i ≤ t} + [b ≤ t]) levels` -/
theorem band_cdf_eq_level_of_sample_count (a b : E) (ys : List E) (levels : List α) (t : E)
    (hlen : levels.length = ys.length + 1) :
    cdf (support ⊥ ⊤ a b (bandObs a b ys levels)) t
      = levelAt ((if a ≤ t then 1 else 0) + ys.countP (fun v => decide (v ≤ t)) + (if b ≤ t then 1 else 0)) levels :=
  band_cdf_count a b ys levels t hlen

/-- **no band puts mass below `a`**: for *every* level table, each of lo / pt / hi has cdf 0 strictly below `a`
(bounds as the class validates them: `a ≤ min ys`, `a ≤ b`). -/
theorem band_no_mass_below_a (a b : E) (ys : List E) (levels : List α) (t : E) (hlen : levels.length = ys.length + 1)
    (hta : t < a) (hys : ∀ y ∈ ys, a ≤ y) (hab : a ≤ b) :
    cdf (support ⊥ ⊤ a b (bandObs a b ys levels)) t = 0 := band_cdf_zero_below a b ys levels t hlen hta hys hab

/-- **no band puts mass above `b`**: for every level table the cdf is 1 from `b` on. -/
theorem band_no_mass_above_b (a b : E) (ys : List E) (levels : List α) (t : E) (hlen : levels.length = ys.length + 1)
    (hbt : b ≤ t) (hys : ∀ y ∈ ys, y ≤ b) (hab : a ≤ b) :
    cdf (support ⊥ ⊤ a b (bandObs a b ys levels)) t = 1 := band_cdf_one_from_b a b ys levels t hlen hbt hys hab

/-- between the bounds the band cdf is the level indexed by the number of observations `≤ t` -/
theorem band_cdf_between_bounds (a b : E) (ys : List E) (levels : List α) (t : E) (hlen : levels.length = ys.length + 1)
    (hat : a ≤ t) (htb : t < b) :
    cdf (support ⊥ ⊤ a b (bandObs a b ys levels)) t = levels.getD (ys.countP (fun v => decide (v ≤ t))) 0 :=
  band_cdf_inside a b ys levels t hlen hat htb

/-- **the lower band is 0 below the smallest observation**: any table with `L_0 = 0` (true of the dkw/ks tables,
`lower_level_zero`), any `t` below every observation and below `b`. -/
theorem lower_band_zero_below_min (a b : E) (ys : List E) (levels : List α) (t : E)
    (hlen : levels.length = ys.length + 1) (hL0 : levels.getD 0 0 = 0) (hys : ∀ y ∈ ys, t < y) (htb : t < b) :
    cdf (support ⊥ ⊤ a b (bandObs a b ys levels)) t = 0 := band_cdf_zero_below_min a b ys levels t hlen hL0 hys htb

/-- **the upper band is 1 from the largest observation on**: any table with `U_n = 1` (true of the dkw/ks tables,
`upper_level_last_one`).  "Largest support point" means `max ys`, not `b`: the band reaches 1 at `max ys` already when
`b > max ys`, because the mass that `diff(…, append=[1.])` puts on `b` is `1 − U_n = 0`. -/
theorem upper_band_one_from_max (a b : E) (ys : List E) (levels : List α) (t : E)
    (hlen : levels.length = ys.length + 1) (hUn : levels.getD ys.length 0 = 1) (hat : a ≤ t) (hys : ∀ y ∈ ys, y ≤ t) :
    cdf (support ⊥ ⊤ a b (bandObs a b ys levels)) t = 1 := band_cdf_one_from_max a b ys levels t hlen hUn hat hys

/-- the dkw/ks tables `clip(arange(n+1)/n ∓ ε, 0, 1)` satisfy the two hypotheses for every `ε ≥ 0` -/
theorem lower_level_zero (n : ℕ) {ε : α} (h : 0 ≤ ε) : (loLevels n ε).getD 0 0 = 0 := loLevels_zero n h

theorem upper_level_last_one (n : ℕ) (hn : 0 < n) {ε : α} (h : 0 ≤ ε) : (hiLevels n ε).getD n 0 = 1 :=
  hiLevels_last n hn h

/-- **raising `ε` (the confidence) never narrows the dkw/ks band**: `ε ≤ ε'` ⇒ `lo' ≤ lo` and `hi ≤ hi'` at every `t`. -/
theorem widening_of_eps (a b : E) (ys : List E) (t : E) {ε ε' : α} (h : ε ≤ ε') :
    cdf (support ⊥ ⊤ a b (bandObs a b ys (loLevels ys.length ε'))) t
        ≤ cdf (support ⊥ ⊤ a b (bandObs a b ys (loLevels ys.length ε))) t
      ∧ cdf (support ⊥ ⊤ a b (bandObs a b ys (hiLevels ys.length ε))) t
        ≤ cdf (support ⊥ ⊤ a b (bandObs a b ys (hiLevels ys.length ε'))) t := band_widening_of_eps a b ys t h

/-- **pt is the band with the uniform table `i/n`**: the empirical distribution of the sample has the cdf of the band
distribution built from `arange(n+1)/n` — which makes the bracket an instance of `bands_ordered_of_levels_ordered`. -/
theorem pt_is_uniform_band (a b : E) (ys : List E) (t : E) (hne : ys ≠ []) (hys : ∀ y ∈ ys, a ≤ y ∧ y ≤ b) :
    cdf (support ⊥ ⊤ a b (ys.map fun y => (y, (1 : α)))) t
      = cdf (support ⊥ ⊤ a b (bandObs a b ys (ptLevels ys.length))) t := pt_cdf_eq_uniform_band a b ys t hne hys

/-- **bracket for dkw / ks**: `lo.cdf ≤ pt.cdf ≤ hi.cdf` at every `t` and every `ε ≥ 0`, `pt` being the actual empirical
distribution of the sample. -/
theorem dkw_ks_bracket (a b : E) (ys : List E) (t : E) (hne : ys ≠ []) (hys : ∀ y ∈ ys, a ≤ y ∧ y ≤ b)
    {ε : α} (h : 0 ≤ ε) :
    cdf (support ⊥ ⊤ a b (bandObs a b ys (loLevels ys.length ε))) t
        ≤ cdf (support ⊥ ⊤ a b (ys.map fun y => (y, (1 : α)))) t
      ∧ cdf (support ⊥ ⊤ a b (ys.map fun y => (y, (1 : α)))) t
        ≤ cdf (support ⊥ ⊤ a b (bandObs a b ys (hiLevels ys.length ε))) t := dkw_bracket a b ys t hne hys h

/-- non-vacuity: a tied sample strictly inside infinite/finite bounds, a query below the sample and one above it. -/
example : (∀ y ∈ ([Ext.fin 2, Ext.fin 2, Ext.fin 5] : List Ext), Ext.fin 0 ≤ y ∧ y ≤ Ext.posInf)
    ∧ (∀ y ∈ ([Ext.fin 2, Ext.fin 2, Ext.fin 5] : List Ext), Ext.fin 1 < y) ∧ Ext.fin 1 < Ext.posInf
    ∧ (∀ y ∈ ([Ext.fin 2, Ext.fin 2, Ext.fin 5] : List Ext), y ≤ Ext.fin 5) ∧ Ext.fin 0 ≤ Ext.fin 5
    ∧ (loLevels 3 ((1:ℚ)/4)).length = 3 + 1 ∧ (0:ℚ) ≤ 1/4 ∧ ((1:ℚ)/4) ≤ 1/2 := by
  refine ⟨?_, ?_, by decide, ?_, by decide, loLevels_length _ _, by norm_num, by norm_num⟩ <;>
  · intro y hy
    simp only [List.mem_cons, List.not_mem_nil, or_false] at hy
    rcases hy with rfl | rfl | rfl <;> norm_num [Ext.lt_iff, Ext.le_iff, Ext.lt]

/-! ### dkw: raising the confidence never narrows the band (unconditional) -/

/-- **dkw, confidences below 1**: for every non-empty sample, bounds, query `t` and `0 ≤ c ≤ c' < 1`, with the tables
`clip(i/n ∓ ε(n,c))` of `_dkw_band_weights` and `ε(n,c) = sqrt(log(2/(1−c))/(2n))` (`Opda.Dkw.eps`, the closed form of
`dkw_epsilon`): `lo_{c'}(t) ≤ lo_c(t)` and `hi_c(t) ≤ hi_{c'}(t)`.  No hypothesis on the tables is left. -/
theorem dkw_band_widens_with_confidence (a b : E) (ys : List E) (t : E) (hne : ys ≠ []) {c c' : ℝ}
    (hc0 : 0 ≤ c) (hcc : c ≤ c') (hc1 : c' < 1) :
    cdf (support ⊥ ⊤ a b (bandObs a b ys (loLevels ys.length (Opda.Dkw.eps ys.length c')))) t
        ≤ cdf (support ⊥ ⊤ a b (bandObs a b ys (loLevels ys.length (Opda.Dkw.eps ys.length c)))) t
      ∧ cdf (support ⊥ ⊤ a b (bandObs a b ys (hiLevels ys.length (Opda.Dkw.eps ys.length c)))) t
        ≤ cdf (support ⊥ ⊤ a b (bandObs a b ys (hiLevels ys.length (Opda.Dkw.eps ys.length c')))) t :=
  dkw_widens_lt_one a b ys t hne hc0 hcc hc1

/-- **confidence 1 is the trivial band**: `dkw_epsilon(n, 1) = +∞`, so the code's tables are `clip(−∞) = 0` and
`clip(+∞) = 1` at every index (`dkwLo n 1`, `dkwHi n 1`); these are the tables `clip(i/n ∓ ε)` of *every* radius `ε ≥ 1`. -/
theorem dkw_tables_at_confidence_one (n : ℕ) {ε : ℝ} (h : 1 ≤ ε) :
    dkwLo n 1 = List.replicate (n + 1) 0 ∧ dkwHi n 1 = List.replicate (n + 1) 1
      ∧ loLevels n ε = List.replicate (n + 1) 0 ∧ hiLevels n ε = List.replicate (n + 1) 1 :=
  ⟨dkwLo_one n, dkwHi_one n, loLevels_of_one_le n h, hiLevels_of_one_le n h⟩

/-- **dkw, every pair of confidences `0 ≤ c ≤ c' ≤ 1`**, `c' = 1` included (`dkwLo`/`dkwHi` are `clip(i/n ∓ ε(n,c))`
below 1 and the all-0 / all-1 tables at 1): the band of `c'` contains the band of `c` at every `t`. -/
theorem dkw_band_widens_up_to_confidence_one (a b : E) (ys : List E) (t : E) (hne : ys ≠ []) {c c' : ℝ}
    (hc0 : 0 ≤ c) (hcc : c ≤ c') (hc1 : c' ≤ 1) :
    cdf (support ⊥ ⊤ a b (bandObs a b ys (dkwLo ys.length c'))) t
        ≤ cdf (support ⊥ ⊤ a b (bandObs a b ys (dkwLo ys.length c))) t
      ∧ cdf (support ⊥ ⊤ a b (bandObs a b ys (dkwHi ys.length c))) t
        ≤ cdf (support ⊥ ⊤ a b (bandObs a b ys (dkwHi ys.length c'))) t :=
  dkw_widens a b ys t hne hc0 hcc hc1

/-- non-vacuity: a sample and two confidences meeting the hypotheses, with 1 as the larger one as well. -/
example : ([Ext.fin 2, Ext.fin 2, Ext.fin 5] : List Ext) ≠ [] ∧ (0 : ℝ) ≤ 1/2 ∧ (1/2 : ℝ) ≤ 19/20 ∧ (19/20 : ℝ) < 1
    ∧ (19/20 : ℝ) ≤ 1 ∧ (1 : ℝ) ≤ 1 := by
  refine ⟨by simp, by norm_num, by norm_num, by norm_num, by norm_num, le_rfl⟩

/-! ### ld_equal_tailed / ld_highest_density: raising the confidence (same seed) never narrows the band

`_ld_band_weights(n, confidence, kind, generator)`: the simulated statistics `ts` depend on `n`, `kind` and the generator
state only, so with the same seed they are the same array for both confidences; `critical_value = np.quantile(ts,
confidence)`; tables `clip([0] ++ lo_k(v))`, `clip(hi_k(v) ++ [1])`, `(lo_k(v), hi_k(v)) = interval(k, n+1−k, v)`,
`k = 1..n` (`Opda.LdWiden.ldLo` / `ldHi`).  In the statements `ts` is the *sorted* array (numpy sorts it). -/

open Opda.LdWiden in
/-- **`np.quantile(ts, ·)` is non-decreasing** (numpy's default linear rule `s[j] + (h−j)(s[min(j+1,N−1)] − s[j])`,
`h = (N−1)c`, `j = ⌊h⌋`, on a sorted non-empty sample): `0 ≤ c ≤ c' ≤ 1 ⇒ quantile(c) ≤ quantile(c')`. -/
theorem np_quantile_monotone_in_level [FloorRing α] (s : List α) (hsorted : s.Pairwise (· ≤ ·)) (hne : s ≠ []) {c c' : α}
    (hc0 : 0 ≤ c) (hcc : c ≤ c') (hc1 : c' ≤ 1) : npQuantile s c ≤ npQuantile s c' :=
  npQuantile_mono s hsorted hne hc0 hcc hc1

open Opda.LdWiden in
/-- level 0 is the smallest value, level 1 the largest, every level in `[0,1]` lies between them -/
theorem np_quantile_ends [FloorRing α] (s : List α) (hsorted : s.Pairwise (· ≤ ·)) (hne : s ≠ []) {c : α}
    (hc0 : 0 ≤ c) (hc1 : c ≤ 1) :
    npQuantile s 0 = s.getD 0 0 ∧ npQuantile s 1 = s.getD (s.length - 1) 0
      ∧ s.getD 0 0 ≤ npQuantile s c ∧ npQuantile s c ≤ s.getD (s.length - 1) 0 :=
  ⟨npQuantile_zero s, npQuantile_one s hne, npQuantile_mem s hsorted hne hc0 hc1⟩

/-- **level-wise widening ⇒ band widening** (any four tables on the same sample and bounds): lower table decreasing and
upper table increasing at every index ⇒ `lo' ≤ lo` and `hi ≤ hi'` at every `t`. -/
theorem band_widens_of_levelwise_widening (a b : E) (ys : List E) (lo lo' hi hi' : List α) (t : E)
    (hlo : lo.length = ys.length + 1) (hlo' : lo'.length = ys.length + 1)
    (hhi : hi.length = ys.length + 1) (hhi' : hi'.length = ys.length + 1)
    (hL : ∀ i, lo'.getD i 0 ≤ lo.getD i 0) (hU : ∀ i, hi.getD i 0 ≤ hi'.getD i 0) :
    cdf (support ⊥ ⊤ a b (bandObs a b ys lo')) t ≤ cdf (support ⊥ ⊤ a b (bandObs a b ys lo)) t
      ∧ cdf (support ⊥ ⊤ a b (bandObs a b ys hi)) t ≤ cdf (support ⊥ ⊤ a b (bandObs a b ys hi')) t :=
  Opda.LdWiden.band_widens_of_levels a b ys lo lo' hi hi' t hlo hlo' hhi hhi' hL hU

/-- **equal-tailed intervals `[Q((1−c)/2), Q((1+c)/2)]` are nested in the coverage** for every quantile function `Q`
non-decreasing on `[0,1]` -/
theorem equal_tailed_nested_in_coverage {β : Type} [Preorder β] (Q : α → β) (hQ : MonotoneOn Q (Set.Icc 0 1)) {c c' : α}
    (hc0 : 0 ≤ c) (hcc : c ≤ c') (hc1 : c' ≤ 1) :
    Q ((1 - c') / 2) ≤ Q ((1 - c) / 2) ∧ Q ((1 + c) / 2) ≤ Q ((1 + c') / 2) :=
  Opda.LdWiden.et_nested_of_monotoneOn Q hQ hc0 hcc hc1

open Opda.LdWiden Opda.BetaCheck in
/-- **the Beta(a,b) quantile function** `betaQuantile a b` (the inverse on `[0,1]` of the distribution function `G a b`)
exists, is unique and is non-decreasing on `[0,1]` — the hypothesis of `equal_tailed_nested_in_coverage` holds for it. -/
theorem beta_quantile_spec_and_monotone (a b : ℕ) (ha : 0 < a) (hb : 0 < b) :
    (∀ p ∈ Set.Icc (0 : ℝ) 1, betaQuantile a b p ∈ Set.Icc (0 : ℝ) 1 ∧ G a b (betaQuantile a b p) = p)
      ∧ (∀ p, ∀ x ∈ Set.Icc (0 : ℝ) 1, G a b x = p → betaQuantile a b p = x)
      ∧ MonotoneOn (betaQuantile a b) (Set.Icc 0 1) :=
  ⟨fun _ hp => betaQuantile_spec a b ha hb hp, fun _ _ hx h => betaQuantile_unique a b ha hb hx h,
    betaQuantile_monotoneOn a b ha hb⟩

open Opda.LdWiden in
/-- **ld, any interval rule nested in the coverage**: sorted simulated statistics `ts ⊆ [0,1]` shared by both confidences,
`0 ≤ c ≤ c' ≤ 1`, lower end points `l k` non-increasing and upper end points `u k` non-decreasing in the coverage on
`[0,1]` (`k = 1..n`) ⇒ the band of `c'` contains the band of `c` at every `t`. -/
theorem ld_band_widens_with_confidence_of_nested_intervals [FloorRing α] (l u : ℕ → α → α) (a b : E) (ys : List E) (t : E)
    (ts : List α) (hsorted : ts.Pairwise (· ≤ ·)) (hne : ts ≠ []) (hunit : ∀ x ∈ ts, 0 ≤ x ∧ x ≤ 1)
    (hl : ∀ k, 1 ≤ k → k ≤ ys.length → AntitoneOn (l k) (Set.Icc 0 1))
    (hu : ∀ k, 1 ≤ k → k ≤ ys.length → MonotoneOn (u k) (Set.Icc 0 1))
    {c c' : α} (hc0 : 0 ≤ c) (hcc : c ≤ c') (hc1 : c' ≤ 1) :
    cdf (support ⊥ ⊤ a b (bandObs a b ys (ldLo l ys.length (npQuantile ts c')))) t
        ≤ cdf (support ⊥ ⊤ a b (bandObs a b ys (ldLo l ys.length (npQuantile ts c)))) t
      ∧ cdf (support ⊥ ⊤ a b (bandObs a b ys (ldHi u ys.length (npQuantile ts c)))) t
        ≤ cdf (support ⊥ ⊤ a b (bandObs a b ys (ldHi u ys.length (npQuantile ts c')))) t :=
  ld_band_widens l u a b ys t ts hsorted hne hunit hl hu hc0 hcc hc1

open Opda.LdWiden in
/-- **ld_equal_tailed, same seed: raising the confidence never narrows the band** — every sample (ties, any bounds), every
`t`, every non-empty sorted list `ts ⊆ [0,1]` of simulated statistics, `0 ≤ c ≤ c' ≤ 1`; the tables are built from
`etLoEnd k (n+1−k) v = betaQuantile k (n+1−k) ((1−v)/2)` and `etHiEnd … = betaQuantile … ((1+v)/2)` at the critical
values `np.quantile(ts, c)`, `np.quantile(ts, c')`.  No hypothesis on the Beta quantiles is left. -/
theorem ld_equal_tailed_band_widens_with_confidence (a b : E) (ys : List E) (t : E) (ts : List ℝ)
    (hsorted : ts.Pairwise (· ≤ ·)) (hne : ts ≠ []) (hunit : ∀ x ∈ ts, 0 ≤ x ∧ x ≤ 1)
    {c c' : ℝ} (hc0 : 0 ≤ c) (hcc : c ≤ c') (hc1 : c' ≤ 1) :
    cdf (support ⊥ ⊤ a b (bandObs a b ys
          (ldLo (fun k => etLoEnd k (ys.length + 1 - k)) ys.length (npQuantile ts c')))) t
        ≤ cdf (support ⊥ ⊤ a b (bandObs a b ys
          (ldLo (fun k => etLoEnd k (ys.length + 1 - k)) ys.length (npQuantile ts c)))) t
      ∧ cdf (support ⊥ ⊤ a b (bandObs a b ys
          (ldHi (fun k => etHiEnd k (ys.length + 1 - k)) ys.length (npQuantile ts c)))) t
        ≤ cdf (support ⊥ ⊤ a b (bandObs a b ys
          (ldHi (fun k => etHiEnd k (ys.length + 1 - k)) ys.length (npQuantile ts c')))) t :=
  ld_et_band_widens a b ys t ts hsorted hne hunit hc0 hcc hc1

open Opda.LdWiden Opda.BetaHdV in
/-- **highest-density regions are nested in the coverage**: the region of coverage `v` of Beta(a,b) is
`hdSet a b v = {x ∈ [0,1] | hdcov a b x ≤ v}` (`hdcov x` = mass of the density level set through `x`, C15); it is an
interval (order-connected, by the V shape of `hdcov`), and its end points `hdLoEnd = inf`, `hdHiEnd = sup` are
non-increasing / non-decreasing in `v` on `[0,1]`. -/
theorem highest_density_nested_in_coverage (a b : ℕ) (hab : 2 < a + b) (ha : 0 < a) (hb : 0 < b) :
    (∀ v, (hdSet a b v).OrdConnected) ∧ AntitoneOn (hdLoEnd a b) (Set.Icc 0 1) ∧ MonotoneOn (hdHiEnd a b) (Set.Icc 0 1) :=
  ⟨hdSet_ordConnected a b hab ha hb, hdLoEnd_antitoneOn a b hab ha hb, hdHiEnd_monotoneOn a b hab ha hb⟩

open Opda.LdWiden Opda.BetaHdV Opda.BetaCheck in
/-- **those end points are the code's interval** (`a, b ≥ 2`): if `x` left of the mode has `hdcov a b x = v`, then
`hdLoEnd a b v = x`, `hdHiEnd a b v = partnerR x` (the point of equal density across the mode, C15
`hd_partner_equal_density`) and `G(partnerR x) − G(x) = v` — the interval with equal end densities and mass `v` that
`beta_highest_density_interval` searches for. -/
theorem highest_density_ends_are_level_set (a b : ℕ) (ha : 2 ≤ a) (hb : 2 ≤ b) {v x : ℝ}
    (hx : x ∈ Set.Icc 0 (mode (a - 1) (b - 1))) (h : hdcov a b x = v) :
    hdLoEnd a b v = x ∧ hdHiEnd a b v = partnerR (a - 1) (b - 1) x
      ∧ G a b (partnerR (a - 1) (b - 1) x) - G a b x = v := hd_ends_eq_level_set a b ha hb hx h

open Opda.LdWiden in
/-- **ld_highest_density, same seed: raising the confidence never narrows the band** (`n ≥ 2`; Beta(1,1), `n = 1`, has no
highest-density interval): as `ld_equal_tailed_band_widens_with_confidence` with the end points of the highest-density
regions `hdLoEnd k (n+1−k) v`, `hdHiEnd k (n+1−k) v`.  No hypothesis on the intervals is left. -/
theorem ld_highest_density_band_widens_with_confidence (a b : E) (ys : List E) (t : E) (ts : List ℝ) (hn : 2 ≤ ys.length)
    (hsorted : ts.Pairwise (· ≤ ·)) (hne : ts ≠ []) (hunit : ∀ x ∈ ts, 0 ≤ x ∧ x ≤ 1)
    {c c' : ℝ} (hc0 : 0 ≤ c) (hcc : c ≤ c') (hc1 : c' ≤ 1) :
    cdf (support ⊥ ⊤ a b (bandObs a b ys
          (ldLo (fun k => hdLoEnd k (ys.length + 1 - k)) ys.length (npQuantile ts c')))) t
        ≤ cdf (support ⊥ ⊤ a b (bandObs a b ys
          (ldLo (fun k => hdLoEnd k (ys.length + 1 - k)) ys.length (npQuantile ts c)))) t
      ∧ cdf (support ⊥ ⊤ a b (bandObs a b ys
          (ldHi (fun k => hdHiEnd k (ys.length + 1 - k)) ys.length (npQuantile ts c)))) t
        ≤ cdf (support ⊥ ⊤ a b (bandObs a b ys
          (ldHi (fun k => hdHiEnd k (ys.length + 1 - k)) ys.length (npQuantile ts c')))) t :=
  ld_hd_band_widens a b ys t ts hn hsorted hne hunit hc0 hcc hc1

/-- non-vacuity: a sorted list of statistics in `[0,1]`, two confidences, a sample of length ≥ 2; and the rule evaluated:
`np.quantile([1, 2, 4], 0.75) = 3.0`, `np.quantile([1/4, 1/2, 3/4], 1/2) = 1/2`. -/
example : ([1/4, 1/2, 3/4] : List ℝ).Pairwise (· ≤ ·) ∧ ([1/4, 1/2, 3/4] : List ℝ) ≠ []
    ∧ (∀ x ∈ ([1/4, 1/2, 3/4] : List ℝ), 0 ≤ x ∧ x ≤ 1) ∧ (0 : ℝ) ≤ 1/2 ∧ (1/2 : ℝ) ≤ 19/20 ∧ (19/20 : ℝ) ≤ 1
    ∧ 2 ≤ ([Ext.fin 2, Ext.fin 2, Ext.fin 5] : List Ext).length
    ∧ Opda.LdWiden.npQuantile ([1, 2, 4] : List ℚ) (3/4) = 3
    ∧ Opda.LdWiden.npQuantile ([1/4, 1/2, 3/4] : List ℚ) (1/2) = 1/2 := by
  refine ⟨by norm_num [List.pairwise_cons], by simp, ?_, by norm_num, by norm_num, by norm_num, by simp, ?_, ?_⟩
  · intro x hx
    simp only [List.mem_cons, List.not_mem_nil, or_false] at hx
    rcases hx with rfl | rfl | rfl <;> norm_num
  · have h : ⌊((([1, 2, 4] : List ℚ).length : ℚ) - 1) * (3/4)⌋₊ = 1 := by
      rw [Nat.floor_eq_iff (by norm_num)]; norm_num
    unfold Opda.LdWiden.npQuantile Opda.LdWiden.npQuantileAt
    rw [h]; norm_num
  · have h : ⌊((([1/4, 1/2, 3/4] : List ℚ).length : ℚ) - 1) * (1/2)⌋₊ = 1 := by
      rw [Nat.floor_eq_iff (by norm_num)]; norm_num
    unfold Opda.LdWiden.npQuantile Opda.LdWiden.npQuantileAt
    rw [h]; norm_num

/-- the band theorem for the very terms the driver evaluates -/
theorem band_cdf_driver (a b : Ext) (ys : List Ext) (levels : List Rat) (t : Ext)
    (hlen : levels.length = ys.length + 1) :
    cdf (support Ext.negInf Ext.posInf a b (bandObs a b ys levels)) t
      = levelAt (countLE t (sort (a :: (ys ++ [b])))) levels :=
  band_cdf (E := Ext) (α := Rat) a b ys levels t hlen

end Opda.Props.C02

#opda_audit Opda.Props.C02
