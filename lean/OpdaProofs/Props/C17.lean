import OpdaProofs.Audit
import OpdaProofs.DVP
import OpdaProofs.ExchangeMono
import OpdaProofs.Levelled
import OpdaProofs.Minimax
import OpdaProofs.PolyQ
import OpdaProofs.RemezModel
/-!
# C17 — Remez output is a certified near-best uniform polynomial approximation

Property theorems only (helper lemmas in `DVP`, `Levelled`, `Lagrange`, `PolyQ`, `Minimax`,
`RemezModel`, `ExchangeMono`).  What is decided per run is the *certificate*: the exact-rational checkers
`Remez.checkAlt`, `PolyQ.certPoly`, `PolyQ.certHalf` are evaluated by the driver on the code's actual
output; the theorems below say what an accepted certificate proves, for **every** real function inside
the enclosures, **every** competing polynomial and **every** real point of `[a,b]`.

Proved about the algorithm itself (exact arithmetic, any ordered field / ℝ):
* step 1 (levelling): `f(x_i) − p(x_i) = (−1)^i h` at all `n+2` reference points, and the denominator
  `p1(x_{n+1}) + (−1)^n` **never vanishes on a strictly increasing reference** (`levelling_denominator_ne_zero…`,
  `levelled_error…_of_strictMono`: no hypothesis left);
* why step 2 (exchange) works — the code's comment "Two conditions are necessary to increase the leveled
  reference error": with the barycentric weights `w_i` of the `n+2` points (`sign w_i = (−1)^(n+1−i)`,
  `Σ w_i q(x_i) = 0` for `deg q ≤ n`) and `λ_i = |w_i|/Σ|w_j|`, the levelled error is the weighted mean
  `h = Σ λ_i (−1)^i (f(x_i) − q(x_i))` for every `q` of degree `≤ n`; if the errors of `q` alternate,
  `|h| = Σ λ_i |e_i| ∈ [min|e_i|, max|e_i|]`; hence a new ordered reference on which the old levelled polynomial
  has alternating errors `≥ |h_old|` has `|h_new| ≥ |h_old|`, strictly if one point strictly improved
  (`exchange_increases_levelled_error…`);
* the exchange keeps the reference ordered; the sandwich `|h| ≤ E_n(f;[a,b]) ≤ sup|f − p|`
  (`levelled_reference_sandwich`).

Not proved here (compared by the harness only): that the floating-point iteration converges (within the
code's 25 rounds), that the golden-section searches find the maxima of `|f − p|` on their brackets (so that the
new errors really are `≥ |h_old|` and the estimate of `sup|f − p|` is right), floating-point rounding, the
grid upper bound for non-algebraic `f`, monotonicity of the *reported* `err` in `n`, `err ≤ atol` on
exact fits.
-/
namespace Opda.Props.C17
open Polynomial Opda.Lagr Opda.Remez Opda.PolyQ Opda.Minimax Opda.Exchange
open Opda.PolyCheck (evalQ)

/-- de la Vallée-Poussin: residuals of `p` alternating with magnitude `≥ e` on `n+2` increasing points
force every polynomial of degree `≤ n` to err by at least `e` somewhere on them. -/
theorem de_la_vallee_poussin (n : ℕ) (f : ℝ → ℝ) (p q : ℝ[X]) (hp : p.natDegree ≤ n) (hq : q.natDegree ≤ n)
    (x : Fin (n+2) → ℝ) (hx : StrictMono x) (e σ : ℝ)
    (halt : ∀ i : Fin (n+2), e ≤ σ * (-1)^(i:ℕ) * (f (x i) - p.eval (x i))) (hσ : |σ| = 1) :
    ∃ i, e ≤ |f (x i) - q.eval (x i)| := dvp n f p q hp hq x hx e σ halt hσ

/-- **the checker the driver runs**: if `checkAlt` accepts the reference `rs`, the node values `pv` of
the returned polynomial, rational enclosures of `f` on the reference and the threshold
`e = err − atol − 1e-13`, then every real `f` inside the enclosures is approximated by **no** polynomial
of degree `≤ n` with uniform error below `e` on `[a,b]`. -/
theorem alternation_certifies_lower_bound (n : ℕ) (a b : ℚ) (rs pv flo fhi : List ℚ) (err atol : ℚ) (sgn : Bool)
    (h : checkAlt n a b rs pv flo fhi (threshold err atol) sgn = true)
    (f : ℝ → ℝ)
    (hf : ∀ i, i < n + 2 → ((getR flo i : ℚ) : ℝ) ≤ f (getR rs i) ∧ f (getR rs i) ≤ ((getR fhi i : ℚ) : ℝ))
    (q : ℝ[X]) (hq : q.natDegree ≤ n) :
    ∃ x : ℝ, (a : ℝ) ≤ x ∧ x ≤ (b : ℝ) ∧ ((err - atol - 1 / 10000000000000 : ℚ) : ℝ) ≤ |f x - q.eval x| :=
  checkAlt_sound n a b rs pv flo fhi (threshold err atol) sgn h f hf q hq

/-- **the checker that decides the property's lower-bound clause** (`approx.altlev`): the polynomial is
the one *the reference points define* — the exact levelled interpolant of `(rs, ym)`, `ym` rational
stand-ins for `f(r_i)` — and `f` is known only through the enclosures.  Accepted ⇒ no polynomial of
degree `≤ n` approximates any such `f` on `[a,b]` with uniform error below `err − atol − 1e-13`. -/
theorem levelled_reference_certifies_lower_bound (n : ℕ) (a b : ℚ) (rs ym flo fhi : List ℚ) (err atol : ℚ)
    (sgn : Bool) (h : checkAltLevel n a b rs ym flo fhi (threshold err atol) sgn = true)
    (f : ℝ → ℝ)
    (hf : ∀ i, i < n + 2 → ((getR flo i : ℚ) : ℝ) ≤ f (getR rs i) ∧ f (getR rs i) ≤ ((getR fhi i : ℚ) : ℝ))
    (q : ℝ[X]) (hq : q.natDegree ≤ n) :
    ∃ x : ℝ, (a : ℝ) ≤ x ∧ x ≤ (b : ℝ) ∧ ((err - atol - 1 / 10000000000000 : ℚ) : ℝ) ≤ |f x - q.eval x| :=
  checkAlt_sound n a b rs (levelPv n rs ym) flo fhi (threshold err atol) sgn h f hf q hq

/-- … and that polynomial is levelled: against the stand-in values its error is exactly `(−1)^i h` at
each of the `n+2` reference points (so the certified bound is `|h|` up to the enclosure width). -/
theorem levelled_reference_polynomial_error (n : ℕ) (rs ym : List ℚ)
    (hv : Set.InjOn (getR rs) (Finset.range (n + 1) : Finset ℕ))
    (hden : Lagr.eval (n + 1) (getR rs) altSign (getR rs (n + 1)) + altSign n ≠ 0) (i : ℕ) (hi : i ≤ n + 1) :
    getR ym i - Lagr.eval (n + 1) (getR rs) (getR (levelPv n rs ym)) (getR rs i)
      = altSign i * levelH n (getR rs) (getR ym) :=
  levelPv_error n rs ym hv hden i hi

/-- the same as a bound on the true minimax error `E_n(f;[a,b]) = inf_q sup_x |f − q|` -/
theorem alternation_bounds_minimax_error (n : ℕ) (a b : ℚ) (rs pv flo fhi : List ℚ) (e : ℚ) (sgn : Bool)
    (h : checkAlt n a b rs pv flo fhi e sgn = true) (f : ℝ → ℝ)
    (hf : ∀ i, i < n + 2 → ((getR flo i : ℚ) : ℝ) ≤ f (getR rs i) ∧ f (getR rs i) ≤ ((getR fhi i : ℚ) : ℝ)) :
    ENNReal.ofReal (e : ℝ) ≤ minimaxErr n f a b :=
  checkAlt_minimax n a b rs pv flo fhi e sgn h f hf

/-- levelled interpolation (step 1 of the exchange, and the construction of the returned polynomial):
with `p0`, `p1`, `h`, `p` as in the code, `f(x_i) − p(x_i) = (−1)^i h` at all `n+2` reference points. -/
theorem levelled_error (n : ℕ) (v : ℕ → ℝ) (hv : Set.InjOn v (Finset.range (n+1) : Finset ℕ)) (f : ℝ → ℝ)
    (hden : eval (v (n+1)) (Lagrange.interpolate (Finset.range (n+1)) v (fun i => (-1:ℝ)^i)) + (-1)^n ≠ 0) :
    let p0 := Lagrange.interpolate (Finset.range (n+1)) v (fun i => f (v i))
    let p1 := Lagrange.interpolate (Finset.range (n+1)) v (fun i => (-1:ℝ)^i)
    let h := (eval (v (n+1)) p0 - f (v (n+1))) / (eval (v (n+1)) p1 + (-1)^n)
    let p := Lagrange.interpolate (Finset.range (n+1)) v (fun i => f (v i) - h * (-1)^i)
    ∀ i, i ≤ n+1 → f (v i) - eval (v i) p = (-1)^i * h :=
  Opda.Remez.levelled_error n v hv f hden

/-- the same for the executable model terms (`levelH`, `levelP` run by `approx.level`), in any field -/
theorem levelled_error_model {F : Type} [Field F] [DecidableEq F] (n : ℕ) (v y : ℕ → F)
    (hv : Set.InjOn v (Finset.range (n + 1) : Finset ℕ))
    (hden : Lagr.eval (n + 1) v altSign (v (n + 1)) + altSign n ≠ 0) (i : ℕ) (hi : i ≤ n + 1) :
    y i - levelP n v y (v i) = altSign i * levelH n v y :=
  levelP_error n v y hv hden i hi

/-- exchange bookkeeping: points moved inside the abutting half-interval brackets stay ordered and
inside `[a,b]` -/
theorem exchange_keeps_reference_ordered {α : Type} [LinearOrder α] (N : ℕ) (a b : α) (lo hi r' : ℕ → α)
    (hmem : ∀ i, i ≤ N → lo i ≤ r' i ∧ r' i ≤ hi i) (habut : ∀ i, i < N → hi i ≤ lo (i + 1))
    (ha : a ≤ lo 0) (hb : hi N ≤ b) :
    (∀ i, i < N → r' i ≤ r' (i + 1)) ∧ (∀ i, i ≤ N → a ≤ r' i ∧ r' i ≤ b) :=
  exchange_ordered N a b lo hi r' hmem habut ha hb

/-- **continuum upper bound, polynomial `f`** (the term `approx.cpoly` evaluates): accepted ⇒ for every
real `x ∈ [a,b]`, `|f(x) − P(x)| ≤ B`, `P` the interpolant defined by the code's output. -/
theorem upper_bound_poly (n : ℕ) (v r : ℕ → ℚ) (cf : List ℚ) (B a b : ℚ) (depth S : ℕ)
    (hv : Set.InjOn v (Finset.range n : Finset ℕ))
    (h : certPoly n v r cf B a b depth S = true) (x : ℝ) (h1 : (a : ℝ) ≤ x) (h2 : x ≤ (b : ℝ)) :
    |evalQ cf x - eval x (Lagrange.interpolate (Finset.range n) (fun i => (v i : ℝ)) (fun i => (r i : ℝ)))| ≤ (B : ℝ) :=
  certPoly_sound n v r cf B a b depth S hv h x h1 h2

/-- **continuum upper bound, `f = x^(m+½)`** (the term `approx.chalf` evaluates) -/
theorem upper_bound_half_integer_power (n : ℕ) (v r : ℕ → ℚ) (m2 : ℕ) (B a b tl th : ℚ) (depth S : ℕ)
    (hv : Set.InjOn v (Finset.range n : Finset ℕ))
    (h : certHalf n v r m2 B a b tl th depth S = true) (x : ℝ) (h1 : (a : ℝ) ≤ x) (h2 : x ≤ (b : ℝ)) :
    |x ^ ((m2 : ℝ) / 2) - eval x (Lagrange.interpolate (Finset.range n) (fun i => (v i : ℝ)) (fun i => (r i : ℝ)))| ≤ (B : ℝ) :=
  certHalf_sound n v r m2 B a b tl th depth S hv h x h1 h2

/-- both certificates together: `err − atol − 1e-13 ≤ E_n(f;[a,b]) ≤ err + atol + 1e-11·max|f|` is
*proved* for that instance (polynomial `f`). -/
theorem certificates_pin_minimax_error (n : ℕ) (a b : ℚ) (rs pv flo fhi cf : List ℚ) (e B : ℚ) (sgn : Bool) (depth S : ℕ)
    (hv : Set.InjOn (getR rs) (Finset.range (n + 1) : Finset ℕ))
    (halt : checkAlt n a b rs pv flo fhi e sgn = true)
    (hf : ∀ i, i < n + 2 → ((getR flo i : ℚ) : ℝ) ≤ evalQ cf (getR rs i) ∧ evalQ cf (getR rs i) ≤ ((getR fhi i : ℚ) : ℝ))
    (hub : certPoly (n + 1) (getR rs) (getR pv) cf B a b depth S = true) :
    ENNReal.ofReal (e : ℝ) ≤ minimaxErr n (evalQ cf) a b ∧ minimaxErr n (evalQ cf) a b ≤ ENNReal.ofReal (B : ℝ) :=
  sandwich_poly n a b rs pv flo fhi cf e B sgn depth S hv halt hf hub

/-- the true minimax error is non-increasing in the degree -/
theorem minimax_error_antitone_in_degree (n m : ℕ) (hnm : n ≤ m) (f : ℝ → ℝ) (l r : ℝ) :
    minimaxErr m f l r ≤ minimaxErr n f l r := minimaxErr_antitone_degree n m hnm f l r

/-- the true minimax error of a polynomial of degree `≤ n` is zero -/
theorem minimax_error_zero_of_polynomial (n : ℕ) (p : ℝ[X]) (hp : p.natDegree ≤ n) (l r : ℝ) :
    minimaxErr n (fun x => p.eval x) l r = 0 := minimaxErr_poly n p hp l r


/-! ### why the exchange works (`ExchangeMono`): weights of the full reference, weighted mean, monotonicity

`Lagr.weight (n+2) x i = 1 / Π_{j ≤ n+1, j ≠ i} (x_i − x_j)` is the code's barycentric weight on all `n+2`
reference points; "strictly increasing reference" is `StrictMonoOn x (Set.Iic (n+1))`. -/

/-- `sign w_i = (−1)^(n+1−i)` (so `(−1)^i w_i` has the constant sign `(−1)^(n+1)`) -/
theorem reference_weight_sign {F : Type} [Field F] [LinearOrder F] [IsStrictOrderedRing F] (n : ℕ) (x : ℕ → F)
    (hx : StrictMonoOn x (Set.Iic (n + 1))) (i : ℕ) (hi : i ≤ n + 1) :
    0 < (-1 : F) ^ (n + 1 - i) * weight (n + 2) x i := weight_sign n x hx i hi

/-- `(−1)^i w_i = (−1)^(n+1) |w_i|` -/
theorem reference_weight_alternates {F : Type} [Field F] [LinearOrder F] [IsStrictOrderedRing F] (n : ℕ) (x : ℕ → F)
    (hx : StrictMonoOn x (Set.Iic (n + 1))) (i : ℕ) (hi : i ≤ n + 1) :
    (-1 : F) ^ i * weight (n + 2) x i = (-1) ^ (n + 1) * |weight (n + 2) x i| := alt_mul_weight n x hx i hi

/-- the divided difference of order `n+1` annihilates every polynomial of degree `≤ n` (any field, distinct
points) -/
theorem reference_weights_annihilate_low_degree {F : Type} [Field F] (n : ℕ) (x : ℕ → F)
    (hx : Set.InjOn x (Finset.range (n + 2) : Finset ℕ)) (q : F[X]) (hq : q.natDegree ≤ n) :
    ∑ i ∈ Finset.range (n + 2), weight (n + 2) x i * q.eval (x i) = 0 := sum_weight_mul_eval n x hx q hq

/-- **`hden` is automatic** (ℝ and any ordered field, Mathlib interpolant — the hypothesis of `levelled_error`) -/
theorem levelling_denominator_ne_zero {F : Type} [Field F] [LinearOrder F] [IsStrictOrderedRing F] (n : ℕ)
    (x : ℕ → F) (hx : StrictMonoOn x (Set.Iic (n + 1))) :
    eval (x (n + 1)) (Lagrange.interpolate (Finset.range (n + 1)) x (fun i => (-1 : F) ^ i)) + (-1) ^ n ≠ 0 :=
  den_ne_zero n x hx

/-- … and for the executable model term (the hypothesis of `levelled_error_model` and
`levelled_reference_polynomial_error`) -/
theorem levelling_denominator_ne_zero_model {F : Type} [Field F] [LinearOrder F] [IsStrictOrderedRing F]
    [DecidableEq F] (n : ℕ) (v : ℕ → F) (hx : StrictMonoOn v (Set.Iic (n + 1))) :
    Lagr.eval (n + 1) v altSign (v (n + 1)) + altSign n ≠ 0 := den_ne_zero_model n v hx

/-- `levelled_error` with no hypothesis left: strictly increasing reference ⇒ error exactly `(−1)^i h` -/
theorem levelled_error_of_strictMono (n : ℕ) (v : ℕ → ℝ) (hx : StrictMonoOn v (Set.Iic (n + 1))) (f : ℝ → ℝ) :
    let p0 := Lagrange.interpolate (Finset.range (n+1)) v (fun i => f (v i))
    let p1 := Lagrange.interpolate (Finset.range (n+1)) v (fun i => (-1:ℝ)^i)
    let h := (eval (v (n+1)) p0 - f (v (n+1))) / (eval (v (n+1)) p1 + (-1)^n)
    let p := Lagrange.interpolate (Finset.range (n+1)) v (fun i => f (v i) - h * (-1)^i)
    ∀ i, i ≤ n+1 → f (v i) - eval (v i) p = (-1)^i * h :=
  Opda.Exchange.levelled_error_of_strictMono n v hx f

/-- `levelled_error_model` with no hypothesis left -/
theorem levelled_error_model_of_strictMono {F : Type} [Field F] [LinearOrder F] [IsStrictOrderedRing F]
    [DecidableEq F] (n : ℕ) (v y : ℕ → F) (hx : StrictMonoOn v (Set.Iic (n + 1))) (i : ℕ) (hi : i ≤ n + 1) :
    y i - levelP n v y (v i) = altSign i * levelH n v y := levelP_error_of_strictMono n v y hx i hi

/-- consecutive increase `x_i < x_{i+1}`, `i ≤ n` (what `checkAlt` tests on the code's reference) is a strictly
increasing reference -/
theorem reference_strictMonoOn_of_consecutive {α : Type} [Preorder α] (n : ℕ) (x : ℕ → α)
    (h : ∀ i, i ≤ n → x i < x (i + 1)) : StrictMonoOn x (Set.Iic (n + 1)) := strictMonoOn_of_succ n x h

/-- `levelled_reference_polynomial_error` with no hypothesis but the increase of the reference list -/
theorem levelled_reference_polynomial_error_of_increasing (n : ℕ) (rs ym : List ℚ)
    (hinc : ∀ i, i ≤ n → getR rs i < getR rs (i + 1)) (i : ℕ) (hi : i ≤ n + 1) :
    getR ym i - Lagr.eval (n + 1) (getR rs) (getR (levelPv n rs ym)) (getR rs i)
      = altSign i * levelH n (getR rs) (getR ym) := levelPv_error_of_increasing n rs ym hinc i hi

/-- `λ_i = |w_i| / Σ_j |w_j|` (the definition, for the reader of the statements below) -/
theorem lambda_def {F : Type} [Field F] [LinearOrder F] [IsStrictOrderedRing F] (n : ℕ) (x : ℕ → F) (i : ℕ) :
    lam n x i = |weight (n + 2) x i| / ∑ j ∈ Finset.range (n + 2), |weight (n + 2) x j| := rfl

/-- `λ` is a strictly positive probability vector on the `n+2` reference points -/
theorem lambda_pos_sum_one {F : Type} [Field F] [LinearOrder F] [IsStrictOrderedRing F] (n : ℕ) (x : ℕ → F)
    (hx : StrictMonoOn x (Set.Iic (n + 1))) :
    (∀ i, i ≤ n + 1 → 0 < lam n x i) ∧ ∑ i ∈ Finset.range (n + 2), lam n x i = 1 :=
  ⟨lam_pos n x hx, lam_sum n x hx⟩

/-- **weighted-mean representation** (sign `s = +1` with the code's convention `f(x_i) − p(x_i) = (−1)^i h`):
whenever `(p, h)` is levelled on the ordered reference, `h = Σ λ_i (−1)^i (y_i − q(x_i))` for EVERY polynomial
`q` of degree `≤ n` (in particular `h` is determined by the reference and the values alone) -/
theorem levelled_error_weighted_mean {F : Type} [Field F] [LinearOrder F] [IsStrictOrderedRing F] (n : ℕ)
    (x : ℕ → F) (hx : StrictMonoOn x (Set.Iic (n + 1))) (y : ℕ → F) (p : F[X]) (hp : p.natDegree ≤ n) (h : F)
    (hlev : ∀ i, i ≤ n + 1 → y i - p.eval (x i) = (-1) ^ i * h) (q : F[X]) (hq : q.natDegree ≤ n) :
    h = ∑ i ∈ Finset.range (n + 2), lam n x i * ((-1) ^ i * (y i - q.eval (x i))) :=
  weighted_mean_of_levelled n x hx y p hp h hlev q hq

/-- … for the `h` of `levelled_error` (the code's `p0`, `p1`, `h`) -/
theorem levelled_error_weighted_mean_real (n : ℕ) (v : ℕ → ℝ) (hx : StrictMonoOn v (Set.Iic (n + 1))) (f : ℝ → ℝ)
    (q : ℝ[X]) (hq : q.natDegree ≤ n) :
    let p0 := Lagrange.interpolate (Finset.range (n+1)) v (fun i => f (v i))
    let p1 := Lagrange.interpolate (Finset.range (n+1)) v (fun i => (-1:ℝ)^i)
    let h := (eval (v (n+1)) p0 - f (v (n+1))) / (eval (v (n+1)) p1 + (-1)^n)
    h = ∑ i ∈ Finset.range (n + 2), lam n v i * ((-1) ^ i * (f (v i) - q.eval (v i))) :=
  weighted_mean_real n v hx f q hq

/-- … and for the executable model term `levelH` (run by `approx.level`), any ordered field -/
theorem levelled_error_weighted_mean_model {F : Type} [Field F] [LinearOrder F] [IsStrictOrderedRing F]
    [DecidableEq F] (n : ℕ) (v y : ℕ → F) (hx : StrictMonoOn v (Set.Iic (n + 1))) (q : F[X]) (hq : q.natDegree ≤ n) :
    levelH n v y = ∑ i ∈ Finset.range (n + 2), lam n v i * (altSign i * (y i - q.eval (v i))) :=
  levelH_weighted_mean n v y hx q hq

/-- **alternating errors** (the code's condition 1): `q` of degree `≤ n` whose errors `e_i = y_i − q(x_i)` alternate
in sign along the ordered reference (`σ (−1)^i e_i ≥ 0`, `σ = ±1`) ⇒ `|h| = Σ λ_i |e_i|` -/
theorem alternating_errors_levelled_abs {F : Type} [Field F] [LinearOrder F] [IsStrictOrderedRing F] (n : ℕ)
    (x : ℕ → F) (hx : StrictMonoOn x (Set.Iic (n + 1))) (y : ℕ → F) (p : F[X]) (hp : p.natDegree ≤ n) (h : F)
    (hlev : ∀ i, i ≤ n + 1 → y i - p.eval (x i) = (-1) ^ i * h) (q : F[X]) (hq : q.natDegree ≤ n)
    (σ : F) (hσ : σ = 1 ∨ σ = -1) (halt : ∀ i, i ≤ n + 1 → 0 ≤ σ * (-1) ^ i * (y i - q.eval (x i))) :
    |h| = ∑ i ∈ Finset.range (n + 2), lam n x i * |y i - q.eval (x i)| :=
  abs_levelled_of_alternating n x hx y p hp h hlev q hq σ hσ halt

/-- **exchange monotonicity** (conditions 1 + 2): under the same hypotheses, every common lower bound `H` of the
`|e_i|` is `≤ |h|`, strictly as soon as one `|e_i| > H`; every common upper bound is `≥ |h|`; and
`min_i |e_i| ≤ |h| ≤ max_i |e_i|` -/
theorem alternating_errors_bound_levelled_error {F : Type} [Field F] [LinearOrder F] [IsStrictOrderedRing F] (n : ℕ)
    (x : ℕ → F) (hx : StrictMonoOn x (Set.Iic (n + 1))) (y : ℕ → F) (p : F[X]) (hp : p.natDegree ≤ n) (h : F)
    (hlev : ∀ i, i ≤ n + 1 → y i - p.eval (x i) = (-1) ^ i * h) (q : F[X]) (hq : q.natDegree ≤ n)
    (σ : F) (hσ : σ = 1 ∨ σ = -1) (halt : ∀ i, i ≤ n + 1 → 0 ≤ σ * (-1) ^ i * (y i - q.eval (x i))) :
    (∀ H, (∀ i, i ≤ n + 1 → H ≤ |y i - q.eval (x i)|) → H ≤ |h|) ∧
    (∀ H, (∀ i, i ≤ n + 1 → H ≤ |y i - q.eval (x i)|) → (∃ i, i ≤ n + 1 ∧ H < |y i - q.eval (x i)|) → H < |h|) ∧
    (∀ M, (∀ i, i ≤ n + 1 → |y i - q.eval (x i)| ≤ M) → |h| ≤ M) ∧
    (∃ i, i ≤ n + 1 ∧ |y i - q.eval (x i)| ≤ |h|) ∧ (∃ i, i ≤ n + 1 ∧ |h| ≤ |y i - q.eval (x i)|) :=
  exchange_general n x hx y p hp h hlev q hq σ hσ halt

/-- the same for the executable model term `levelH` -/
theorem alternating_errors_bound_levelled_error_model {F : Type} [Field F] [LinearOrder F] [IsStrictOrderedRing F]
    [DecidableEq F] (n : ℕ) (v y : ℕ → F) (hx : StrictMonoOn v (Set.Iic (n + 1))) (q : F[X]) (hq : q.natDegree ≤ n)
    (σ : F) (hσ : σ = 1 ∨ σ = -1) (halt : ∀ i, i ≤ n + 1 → 0 ≤ σ * altSign i * (y i - q.eval (v i))) :
    |levelH n v y| = ∑ i ∈ Finset.range (n + 2), lam n v i * |y i - q.eval (v i)| ∧
    (∀ H, (∀ i, i ≤ n + 1 → H ≤ |y i - q.eval (v i)|) → H ≤ |levelH n v y|) ∧
    (∀ H, (∀ i, i ≤ n + 1 → H ≤ |y i - q.eval (v i)|) → (∃ i, i ≤ n + 1 ∧ H < |y i - q.eval (v i)|) →
      H < |levelH n v y|) ∧
    (∀ M, (∀ i, i ≤ n + 1 → |y i - q.eval (v i)| ≤ M) → |levelH n v y| ≤ M) ∧
    (∃ i, i ≤ n + 1 ∧ |y i - q.eval (v i)| ≤ |levelH n v y|) ∧
    (∃ i, i ≤ n + 1 ∧ |levelH n v y| ≤ |y i - q.eval (v i)|) :=
  levelH_of_alternating n v y hx q hq σ hσ halt

/-- **the exchange step cannot decrease the levelled error**, in the words of the algorithm (ℝ, Mathlib
interpolants): `hOf v` is the code's `h` on a reference `v`, `pOld` the levelled polynomial of the OLD reference
`x`; the new reference `x'` is strictly increasing, the errors of `pOld` on it alternate in sign (condition 1) and
are `≥ |h_old|` in size (condition 2) ⇒ `|h_new| ≥ |h_old|`, strictly if some point strictly improved. -/
theorem exchange_increases_levelled_error (n : ℕ) (f : ℝ → ℝ) (x x' : ℕ → ℝ)
    (hx : Set.InjOn x (Finset.range (n + 1) : Finset ℕ)) (hx' : StrictMonoOn x' (Set.Iic (n + 1))) :
    let hOf : (ℕ → ℝ) → ℝ := fun v =>
      (eval (v (n+1)) (Lagrange.interpolate (Finset.range (n+1)) v (fun i => f (v i))) - f (v (n+1)))
        / (eval (v (n+1)) (Lagrange.interpolate (Finset.range (n+1)) v (fun i => (-1:ℝ)^i)) + (-1)^n)
    let pOld := Lagrange.interpolate (Finset.range (n+1)) x (fun i => f (x i) - hOf x * (-1)^i)
    ∀ σ : ℝ, (σ = 1 ∨ σ = -1) →
      (∀ i, i ≤ n+1 → 0 ≤ σ * (-1)^i * (f (x' i) - eval (x' i) pOld)) →
      (∀ i, i ≤ n+1 → |hOf x| ≤ |f (x' i) - eval (x' i) pOld|) →
      |hOf x| ≤ |hOf x'| ∧
        ((∃ i, i ≤ n+1 ∧ |hOf x| < |f (x' i) - eval (x' i) pOld|) → |hOf x| < |hOf x'|) :=
  exchange_increases_real n f x x' hx hx'

/-- the same for the executable model terms (`levelH`, `levelP`), any ordered field -/
theorem exchange_increases_levelled_error_model {F : Type} [Field F] [LinearOrder F] [IsStrictOrderedRing F]
    [DecidableEq F] (n : ℕ) (f : F → F) (v v' : ℕ → F)
    (hv : Set.InjOn v (Finset.range (n + 1) : Finset ℕ)) (hv' : StrictMonoOn v' (Set.Iic (n + 1)))
    (σ : F) (hσ : σ = 1 ∨ σ = -1)
    (halt : ∀ i, i ≤ n + 1 → 0 ≤ σ * altSign i * (f (v' i) - levelP n v (fun j => f (v j)) (v' i)))
    (hge : ∀ i, i ≤ n + 1 →
      |levelH n v (fun j => f (v j))| ≤ |f (v' i) - levelP n v (fun j => f (v j)) (v' i)|) :
    |levelH n v (fun j => f (v j))| ≤ |levelH n v' (fun j => f (v' j))| ∧
    ((∃ i, i ≤ n + 1 ∧ |levelH n v (fun j => f (v j))| < |f (v' i) - levelP n v (fun j => f (v j)) (v' i)|) →
      |levelH n v (fun j => f (v j))| < |levelH n v' (fun j => f (v' j))|) :=
  exchange_increases_model n f v v' hv hv' σ hσ halt hge

/-- de la Vallée-Poussin read off the weighted mean (no intermediate-value argument, any ordered field): every
polynomial of degree `≤ n` errs by at least `|h|` at some point of a levelled ordered reference -/
theorem levelled_error_le_some_competitor_error {F : Type} [Field F] [LinearOrder F] [IsStrictOrderedRing F] (n : ℕ)
    (x : ℕ → F) (hx : StrictMonoOn x (Set.Iic (n + 1))) (y : ℕ → F) (p : F[X]) (hp : p.natDegree ≤ n) (h : F)
    (hlev : ∀ i, i ≤ n + 1 → y i - p.eval (x i) = (-1) ^ i * h) (q : F[X]) (hq : q.natDegree ≤ n) :
    ∃ i, i ≤ n + 1 ∧ |h| ≤ |y i - q.eval (x i)| := levelled_le_some_error n x hx y p hp h hlev q hq

/-- **the sandwich for the returned object**: strictly increasing reference inside `[a,b]`, `p` and `h` its levelled
polynomial and levelled error ⇒ `|h| ≤ E_n(f;[a,b]) ≤ sup_{[a,b]} |f − p|` -/
theorem levelled_reference_sandwich (n : ℕ) (f : ℝ → ℝ) (v : ℕ → ℝ) (hx : StrictMonoOn v (Set.Iic (n + 1)))
    (a b : ℝ) (ha : a ≤ v 0) (hb : v (n + 1) ≤ b) :
    let p0 := Lagrange.interpolate (Finset.range (n+1)) v (fun i => f (v i))
    let p1 := Lagrange.interpolate (Finset.range (n+1)) v (fun i => (-1:ℝ)^i)
    let h := (eval (v (n+1)) p0 - f (v (n+1))) / (eval (v (n+1)) p1 + (-1)^n)
    let p := Lagrange.interpolate (Finset.range (n+1)) v (fun i => f (v i) - h * (-1)^i)
    ENNReal.ofReal |h| ≤ minimaxErr n f a b ∧ minimaxErr n f a b ≤ supErr f p a b :=
  levelled_sandwich n f v hx a b ha hb

/-! ### non-vacuity: the checkers accept concrete instances -/

/-- `f(x)=x²` on `[0,1]`, `n=1`: reference `0, ½, 1`, minimax polynomial `x − ⅛` -/
example : checkAlt 1 0 1 [0, 1/2, 1] [-1/8, 3/8] [0, 1/4, 1] [0, 1/4, 1] (1/8) true = true := by decide +kernel

example : checkAltLevel 1 0 1 [0, 1/2, 1] [0, 1/4, 1] [0, 1/4, 1] [0, 1/4, 1] (1/8) true = true := by decide +kernel

example : certPoly 2 (getR [0, 1/2, 1]) (getR [-1/8, 3/8]) [0, 0, 1] (1/4) 0 1 3 20 = true := by decide +kernel


/-! ### non-vacuity of the exchange statements: `f(x)=x²`, `n=1` -/

/-- reference `0, ½, 1`: weights `2, −4, 2`, `λ = ¼, ½, ¼`, levelled error `h = ⅛` (the minimax error of `x²` by
lines on `[0,1]`), and `h = Σ λ_i (−1)^i f(x_i)` -/
example : weight 3 (getR [0, 1/2, 1]) 0 = 2 ∧ weight 3 (getR [0, 1/2, 1]) 1 = -4 ∧ weight 3 (getR [0, 1/2, 1]) 2 = 2 ∧
    levelH 1 (getR [0, 1/2, 1]) (fun i => getR [0, 1/2, 1] i ^ 2) = 1/8 ∧
    (1/4 : ℚ) * 0 - 1/2 * (1/2)^2 + 1/4 * 1^2 = 1/8 := by decide +kernel

example : lam 1 (getR [0, 1/2, 1]) 1 = 1/2 := by
  rw [lambda_def]; simp only [Finset.sum_range_succ, Finset.sum_range_zero]
  rw [show weight (1 + 2) (getR [0, 1/2, 1]) 0 = 2 by decide +kernel,
    show weight (1 + 2) (getR [0, 1/2, 1]) 1 = -4 by decide +kernel,
    show weight (1 + 2) (getR [0, 1/2, 1]) 2 = 2 by decide +kernel]
  norm_num

/-- one exchange step: old reference `0, ¼, 1` (`h_old = 3/32`, `p_old = x − 3/32`), new reference `0, ½, 1`:
the errors of `p_old` there are `3/32, −5/32, 3/32` — alternating, all `≥ h_old`, one strictly — and the theorem
gives `|h_old| < |h_new|` (indeed `3/32 < 1/8`) -/
example : |(3/32 : ℚ)| < |(1/8 : ℚ)| := by
  have hv : Set.InjOn (getR [0, 1/4, 1]) (Finset.range (1 + 1) : Finset ℕ) :=
    distinct_injOn 2 _ (by decide +kernel)
  have hv' := reference_strictMonoOn_of_consecutive 1 (getR [0, 1/2, 1]) (by decide +kernel)
  have h := (exchange_increases_levelled_error_model 1 (fun t : ℚ => t ^ 2) (getR [0, 1/4, 1]) (getR [0, 1/2, 1])
    hv hv' 1 (Or.inl rfl) (by decide +kernel) (by decide +kernel)).2 ⟨1, by omega, by decide +kernel⟩
  rwa [show levelH 1 (getR [0, 1/4, 1]) (fun j => (fun t : ℚ => t ^ 2) (getR [0, 1/4, 1] j)) = 3/32 by decide +kernel,
    show levelH 1 (getR [0, 1/2, 1]) (fun j => (fun t : ℚ => t ^ 2) (getR [0, 1/2, 1] j)) = 1/8 by decide +kernel] at h

/-- the hypotheses of `levelled_error_model_of_strictMono` / `levelled_reference_sandwich` hold for `0, ½, 1` -/
example : StrictMonoOn (getR [0, 1/2, 1]) (Set.Iic (1 + 1)) := reference_strictMonoOn_of_consecutive 1 _ (by decide +kernel)

end Opda.Props.C17

#opda_audit Opda.Props.C17
