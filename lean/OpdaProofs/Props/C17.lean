import OpdaProofs.Audit
import OpdaProofs.DVP
import OpdaProofs.Levelled
import OpdaProofs.Minimax
import OpdaProofs.PolyQ
import OpdaProofs.RemezModel
/-!
# C17 — Remez output is a certified near-best uniform polynomial approximation

Property theorems only (helper lemmas in `DVP`, `Levelled`, `Lagrange`, `PolyQ`, `Minimax`,
`RemezModel`).  What is decided per run is the *certificate*: the exact-rational checkers
`Remez.checkAlt`, `PolyQ.certPoly`, `PolyQ.certHalf` are evaluated by the driver on the code's actual
output; the theorems below say what an accepted certificate proves, for **every** real function inside
the enclosures, **every** competing polynomial and **every** real point of `[a,b]`.

Not proved here (compared by the harness only): that the floating-point Remez iteration converges, the
grid upper bound for non-algebraic `f`, monotonicity of the *reported* `err` in `n`, `err ≤ atol` on
exact fits.
-/
namespace Opda.Props.C17
open Polynomial Opda.Lagr Opda.Remez Opda.PolyQ Opda.Minimax
open Opda.PolyCheck (evalQ)

/-- de la Vallée-Poussin: residuals of `p` alternating with magnitude `≥ e` on `n+2` increasing points
force every polynomial of degree `≤ n` to err by at least `e` somewhere on them. -/
theorem de_la_vallee_poussin (n : ℕ) (f : ℝ → ℝ) (p q : ℝ[X]) (hp : p.natDegree ≤ n) (hq : q.natDegree ≤ n)
    (x : Fin (n+2) → ℝ) (hx : StrictMono x) (e σ : ℝ)
    (halt : ∀ i : Fin (n+2), e ≤ σ * (-1)^(i:ℕ) * (f (x i) - p.eval (x i))) (hσ : |σ| = 1) :
    ∃ i, e ≤ |f (x i) - q.eval (x i)| := dvp n f p q hp hq x hx e σ halt hσ

/-- **the checker the driver runs**: if `checkAlt` accepts the reference `rs`, the node values `pv` of
the returned polynomial, rational enclosures of `f` on the reference and the threshold
`e = err − atol − 1e-13`, then every real `f` inside the enclosures is approximated by **no** polynomial
of degree `≤ n` with uniform error below `e` on `[a,b]`. -/
theorem alternation_certifies_lower_bound (n : ℕ) (a b : ℚ) (rs pv flo fhi : List ℚ) (err atol : ℚ) (sgn : Bool)
    (h : checkAlt n a b rs pv flo fhi (threshold err atol) sgn = true)
    (f : ℝ → ℝ)
    (hf : ∀ i, i < n + 2 → ((getR flo i : ℚ) : ℝ) ≤ f (getR rs i) ∧ f (getR rs i) ≤ ((getR fhi i : ℚ) : ℝ))
    (q : ℝ[X]) (hq : q.natDegree ≤ n) :
    ∃ x : ℝ, (a : ℝ) ≤ x ∧ x ≤ (b : ℝ) ∧ ((err - atol - 1 / 10000000000000 : ℚ) : ℝ) ≤ |f x - q.eval x| :=
  checkAlt_sound n a b rs pv flo fhi (threshold err atol) sgn h f hf q hq

/-- **the checker that decides the property's lower-bound clause** (`approx.altlev`): the polynomial is
the one *the reference points define* — the exact levelled interpolant of `(rs, ym)`, `ym` rational
stand-ins for `f(r_i)` — and `f` is known only through the enclosures.  Accepted ⇒ no polynomial of
degree `≤ n` approximates any such `f` on `[a,b]` with uniform error below `err − atol − 1e-13`. -/
theorem levelled_reference_certifies_lower_bound (n : ℕ) (a b : ℚ) (rs ym flo fhi : List ℚ) (err atol : ℚ)
    (sgn : Bool) (h : checkAltLevel n a b rs ym flo fhi (threshold err atol) sgn = true)
    (f : ℝ → ℝ)
    (hf : ∀ i, i < n + 2 → ((getR flo i : ℚ) : ℝ) ≤ f (getR rs i) ∧ f (getR rs i) ≤ ((getR fhi i : ℚ) : ℝ))
    (q : ℝ[X]) (hq : q.natDegree ≤ n) :
    ∃ x : ℝ, (a : ℝ) ≤ x ∧ x ≤ (b : ℝ) ∧ ((err - atol - 1 / 10000000000000 : ℚ) : ℝ) ≤ |f x - q.eval x| :=
  checkAlt_sound n a b rs (levelPv n rs ym) flo fhi (threshold err atol) sgn h f hf q hq

/-- … and that polynomial is levelled: against the stand-in values its error is exactly `(−1)^i h` at
each of the `n+2` reference points (so the certified bound is `|h|` up to the enclosure width). -/
theorem levelled_reference_polynomial_error (n : ℕ) (rs ym : List ℚ)
    (hv : Set.InjOn (getR rs) (Finset.range (n + 1) : Finset ℕ))
    (hden : Lagr.eval (n + 1) (getR rs) altSign (getR rs (n + 1)) + altSign n ≠ 0) (i : ℕ) (hi : i ≤ n + 1) :
    getR ym i - Lagr.eval (n + 1) (getR rs) (getR (levelPv n rs ym)) (getR rs i)
      = altSign i * levelH n (getR rs) (getR ym) :=
  levelPv_error n rs ym hv hden i hi

/-- the same as a bound on the true minimax error `E_n(f;[a,b]) = inf_q sup_x |f − q|` -/
theorem alternation_bounds_minimax_error (n : ℕ) (a b : ℚ) (rs pv flo fhi : List ℚ) (e : ℚ) (sgn : Bool)
    (h : checkAlt n a b rs pv flo fhi e sgn = true) (f : ℝ → ℝ)
    (hf : ∀ i, i < n + 2 → ((getR flo i : ℚ) : ℝ) ≤ f (getR rs i) ∧ f (getR rs i) ≤ ((getR fhi i : ℚ) : ℝ)) :
    ENNReal.ofReal (e : ℝ) ≤ minimaxErr n f a b :=
  checkAlt_minimax n a b rs pv flo fhi e sgn h f hf

/-- levelled interpolation (step 1 of the exchange, and the construction of the returned polynomial):
with `p0`, `p1`, `h`, `p` as in the code, `f(x_i) − p(x_i) = (−1)^i h` at all `n+2` reference points. -/
theorem levelled_error (n : ℕ) (v : ℕ → ℝ) (hv : Set.InjOn v (Finset.range (n+1) : Finset ℕ)) (f : ℝ → ℝ)
    (hden : eval (v (n+1)) (Lagrange.interpolate (Finset.range (n+1)) v (fun i => (-1:ℝ)^i)) + (-1)^n ≠ 0) :
    let p0 := Lagrange.interpolate (Finset.range (n+1)) v (fun i => f (v i))
    let p1 := Lagrange.interpolate (Finset.range (n+1)) v (fun i => (-1:ℝ)^i)
    let h := (eval (v (n+1)) p0 - f (v (n+1))) / (eval (v (n+1)) p1 + (-1)^n)
    let p := Lagrange.interpolate (Finset.range (n+1)) v (fun i => f (v i) - h * (-1)^i)
    ∀ i, i ≤ n+1 → f (v i) - eval (v i) p = (-1)^i * h :=
  Opda.Remez.levelled_error n v hv f hden

/-- the same for the executable model terms (`levelH`, `levelP` run by `approx.level`), in any field -/
theorem levelled_error_model {F : Type} [Field F] [DecidableEq F] (n : ℕ) (v y : ℕ → F)
    (hv : Set.InjOn v (Finset.range (n + 1) : Finset ℕ))
    (hden : Lagr.eval (n + 1) v altSign (v (n + 1)) + altSign n ≠ 0) (i : ℕ) (hi : i ≤ n + 1) :
    y i - levelP n v y (v i) = altSign i * levelH n v y :=
  levelP_error n v y hv hden i hi

/-- exchange bookkeeping: points moved inside the abutting half-interval brackets stay ordered and
inside `[a,b]` -/
theorem exchange_keeps_reference_ordered {α : Type} [LinearOrder α] (N : ℕ) (a b : α) (lo hi r' : ℕ → α)
    (hmem : ∀ i, i ≤ N → lo i ≤ r' i ∧ r' i ≤ hi i) (habut : ∀ i, i < N → hi i ≤ lo (i + 1))
    (ha : a ≤ lo 0) (hb : hi N ≤ b) :
    (∀ i, i < N → r' i ≤ r' (i + 1)) ∧ (∀ i, i ≤ N → a ≤ r' i ∧ r' i ≤ b) :=
  exchange_ordered N a b lo hi r' hmem habut ha hb

/-- **continuum upper bound, polynomial `f`** (the term `approx.cpoly` evaluates): accepted ⇒ for every
real `x ∈ [a,b]`, `|f(x) − P(x)| ≤ B`, `P` the interpolant defined by the code's output. -/
theorem upper_bound_poly (n : ℕ) (v r : ℕ → ℚ) (cf : List ℚ) (B a b : ℚ) (depth S : ℕ)
    (hv : Set.InjOn v (Finset.range n : Finset ℕ))
    (h : certPoly n v r cf B a b depth S = true) (x : ℝ) (h1 : (a : ℝ) ≤ x) (h2 : x ≤ (b : ℝ)) :
    |evalQ cf x - eval x (Lagrange.interpolate (Finset.range n) (fun i => (v i : ℝ)) (fun i => (r i : ℝ)))| ≤ (B : ℝ) :=
  certPoly_sound n v r cf B a b depth S hv h x h1 h2

/-- **continuum upper bound, `f = x^(m+½)`** (the term `approx.chalf` evaluates) -/
theorem upper_bound_half_integer_power (n : ℕ) (v r : ℕ → ℚ) (m2 : ℕ) (B a b tl th : ℚ) (depth S : ℕ)
    (hv : Set.InjOn v (Finset.range n : Finset ℕ))
    (h : certHalf n v r m2 B a b tl th depth S = true) (x : ℝ) (h1 : (a : ℝ) ≤ x) (h2 : x ≤ (b : ℝ)) :
    |x ^ ((m2 : ℝ) / 2) - eval x (Lagrange.interpolate (Finset.range n) (fun i => (v i : ℝ)) (fun i => (r i : ℝ)))| ≤ (B : ℝ) :=
  certHalf_sound n v r m2 B a b tl th depth S hv h x h1 h2

/-- both certificates together: `err − atol − 1e-13 ≤ E_n(f;[a,b]) ≤ err + atol + 1e-11·max|f|` is
*proved* for that instance (polynomial `f`). -/
theorem certificates_pin_minimax_error (n : ℕ) (a b : ℚ) (rs pv flo fhi cf : List ℚ) (e B : ℚ) (sgn : Bool) (depth S : ℕ)
    (hv : Set.InjOn (getR rs) (Finset.range (n + 1) : Finset ℕ))
    (halt : checkAlt n a b rs pv flo fhi e sgn = true)
    (hf : ∀ i, i < n + 2 → ((getR flo i : ℚ) : ℝ) ≤ evalQ cf (getR rs i) ∧ evalQ cf (getR rs i) ≤ ((getR fhi i : ℚ) : ℝ))
    (hub : certPoly (n + 1) (getR rs) (getR pv) cf B a b depth S = true) :
    ENNReal.ofReal (e : ℝ) ≤ minimaxErr n (evalQ cf) a b ∧ minimaxErr n (evalQ cf) a b ≤ ENNReal.ofReal (B : ℝ) :=
  sandwich_poly n a b rs pv flo fhi cf e B sgn depth S hv halt hf hub

/-- the true minimax error is non-increasing in the degree -/
theorem minimax_error_antitone_in_degree (n m : ℕ) (hnm : n ≤ m) (f : ℝ → ℝ) (l r : ℝ) :
    minimaxErr m f l r ≤ minimaxErr n f l r := minimaxErr_antitone_degree n m hnm f l r

/-- the true minimax error of a polynomial of degree `≤ n` is zero -/
theorem minimax_error_zero_of_polynomial (n : ℕ) (p : ℝ[X]) (hp : p.natDegree ≤ n) (l r : ℝ) :
    minimaxErr n (fun x => p.eval x) l r = 0 := minimaxErr_poly n p hp l r

/-! ### non-vacuity: the checkers accept concrete instances -/

/-- `f(x)=x²` on `[0,1]`, `n=1`: reference `0, ½, 1`, minimax polynomial `x − ⅛` -/
example : checkAlt 1 0 1 [0, 1/2, 1] [-1/8, 3/8] [0, 1/4, 1] [0, 1/4, 1] (1/8) true = true := by decide +kernel

example : checkAltLevel 1 0 1 [0, 1/2, 1] [0, 1/4, 1] [0, 1/4, 1] [0, 1/4, 1] (1/8) true = true := by decide +kernel

example : certPoly 2 (getR [0, 1/2, 1]) (getR [-1/8, 3/8]) [0, 0, 1] (1/4) 0 1 3 20 = true := by decide +kernel

end Opda.Props.C17

#opda_audit Opda.Props.C17
