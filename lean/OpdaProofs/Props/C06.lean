import OpdaProofs.Audit
import OpdaProofs.NoisyLogic
import OpdaProofs.NoisyReal
import OpdaProofs.NoisySmooth
import OpdaProofs.NoisyHolder
import OpdaProofs.NoisyConv
import OpdaProofs.NoisyTable
import OpdaProofs.NoisyLaw
/-!
# C06 — NoisyQuadratic cdf/pdf equal the quadratic law convolved with normal noise  *(proof, partial)*

Property theorems only (lemmas live in `OpdaProofs/NoisyLogic.lean`, `NoisyReal.lean`,
`GaussMoments.lean`, `NoisyConv.lean`, `NoisyTable.lean`, `NoisyLaw.lean`).  All statements are about `Opda.Noisy.cdf / pdf / partialMoment…`, the single
polymorphic definition that the driver evaluates at `Float` (`Opda.NoisyF.cdf F d y := Opda.Noisy.cdf F d y`)
and that is tied to `NoisyQuadraticDistribution.cdf/pdf` by `harness/corr_C06.py` on every run.  `Float`
is opaque to the kernel, so nothing is (or can be) proved *at* `Float`; the theorems hold

* for **every linearly ordered field and every record `F`** of transcendental functions, table and
  Chebyshev ingredients (`cdf_range_series`, `pdf_nonneg_series`, the `…_infinite_loc`, degenerate-support
  theorems), under the explicit side conditions `Lawful F` / `RangeOK F` where needed, and
* at `ℝ` with `Φ`, `φ`, `rpow`, `cos`, `√` (`realFns`; the table is still arbitrary) for the analytic
  content: the recursion the code uses *is* the Gaussian partial-moment recursion, so for even `c`
  Model = Spec formula, and for odd `c` Model = `Σ_pieces ∫ p_i dN`, within `sup|x^k − p|` of the Spec, and
* at `ℝ` **with the shipped table** (`tableR` = `Opda.Gen.tableQ`, regenerated from `_approximations.json` on every
  run, cast to `ℝ`; section `shipped`): for every odd `c` that has a row (`c ∈ {1,3,5,7,9}`), both shapes, every `y`, the
  cdf is within `1.02·max_error` of the Spec, `max_error` that of the entry the scale `o/(b−a)` selects — no hypothesis
  on the pieces left (C19's 53 kernel-checked certificates discharge them); likewise `(b−a)·pdf` for odd `c ≥ 3` within
  `(c/2)·1.02·max_error`.  These theorems import the generated files, so they are re-checked against the current JSON.

**Not theorems** (decided every run by the correspondence + the mpmath oracle; the evidence says so):
the 2.5e-5 / 1e-4 / 0.2 / 5e-5 accuracy figures (the proved bounds for odd `c` are `1.02·max_error`, up to 8e-4 for the
cdf of `c = 1`: weaker than 2.5e-5), the accuracy of the Chebyshev fallback, of the
downward step for `k = −½` and of the `normal` regime, float rounding, `Φ(±∞) ∈ {0,1}` at `Float`.  Both constants of the
noiseless regime *are* proved: `0.4·c·o/(b−a)` for `c ≥ 2` (`noiseless_bound`) and `0.83·√(o/(b−a))` for `c = 1`
(`noiseless_bound_c1`).

**The Spec is literally `P[Z + E ≤ y]`** (section `law`, lemmas in `OpdaProofs/NoisyLaw.lean`): the theorems above are stated
with the *mixture form* `H(t) = ∫₀¹ Φ((t−x)/s) d(x^{c/2})` (which is also what the oracle integrates); the step from "law of
`Z + E`" to it — independence ⇒ convolution, Fubini/Tonelli (`law_of_independent_sum`), `N(0,o²)(−∞,x] = Φ(x/o)`
(`gaussian_noise_cdf`), the law of `Z` as the image of the uniform law under the quadratic part of a draw, with the class's
`cdf` as distribution function (`quadratic_law_cdf`), and the substitution `x = u^{2/c}` (singular at `0` for `c = 1`) — is
`spec_is_law_of_sum` / `spec_is_law_of_independent_sum`, for every `a < b`, `c ≥ 1`, `o > 0`, both shapes, every real `y`;
`cdf_even_model_eq_law_of_sum`, `cdf_c7_c9_law_of_sum_tolerance`, `cdf_odd_shipped_table_law_of_sum_partial` and
`noiseless_bound(_c1)_law_of_sum` restate the Model-vs-Spec theorems against that probability.  Likewise the density:
the law of `Z + E` has density `h(loc y)/(b−a)`, `h` the mixture density (`law_of_sum_density`), so for even `c` the
model's pdf is a density of the law of the sum (`pdf_even_model_is_density_of_law_of_sum`).  Nothing of this step is cited
any more; what is *assumed* is only the reading of the property: `Z = quadratic part of a uniform draw`, `E ~ N(0, o²)`,
independent.
-/
namespace Opda.Props.C06
open Opda.Noisy

section field
variable {α : Type} [Field α] [LinearOrder α] [IsStrictOrderedRing α] {F : Fns α}

/-- **T1** `0 ≤ cdf ≤ 1` in every regime, for every parameter setting `a ≤ b`, `o ≥ 0`, every `c`, both
shapes, every `y`. -/
theorem cdf_range (hF : Lawful F) (hR : RangeOK F) (d : Params α) (hab : d.a ≤ d.b) (ho : 0 ≤ d.o) (y : α) :
    0 ≤ cdf F d y ∧ cdf F d y ≤ 1 := Opda.Noisy.cdf_range hF hR d hab ho y

/-- **T1** `pdf ≥ 0` in every regime. -/
theorem pdf_nonneg (hF : Lawful F) (hR : RangeOK F) (d : Params α) (hab : d.a ≤ d.b) (ho : 0 ≤ d.o) (y : α) :
    0 ≤ pdf F d y := Opda.Noisy.pdf_nonneg hF hR d hab ho y

/-- **T1, series regime**: the final clips give the range *whatever* `Φ`, `φ`, `pow`, `cos`, the table and
the Chebyshev construction return (this is the regime in which the code's value comes out of long
recursions in floating point). -/
theorem cdf_range_series (hF : Lawful F) (d : Params α) (y : α) (hp : pointMass F d = false)
    (h : regime F d = .nothing) : 0 ≤ cdf F d y ∧ cdf F d y ≤ 1 := Opda.Noisy.cdf_range_series hF d y hp h

theorem pdf_nonneg_series (hF : Lawful F) (d : Params α) (y : α) (hp : pointMass F d = false)
    (h : regime F d = .nothing) : 0 ≤ pdf F d y := Opda.Noisy.pdf_nonneg_series hF d y hp h

/-- **T1, values at ±∞ (partial)**: when `np.isinf(loc)` the partial moment is replaced by `0`, so
`cdf = clip Φ(point)` and `pdf = 0`.  Missing for the full clause `cdf(−∞)=0, cdf(+∞)=1`: that `Φ(∓∞)` is
`0`/`1` — a fact about `Float` `erf`, compared on every run (`y = ±inf` is in every sample). -/
theorem cdf_at_inf_partial (hF : Lawful F) (d : Params α) (y : α) (hp : pointMass F d = false)
    (h : regime F d = .nothing) (hinf : F.isInf (locOf d y) = true) :
    cdf F d y = clip (F.normalCdf (if d.convex then (y - d.b) / d.o else (y - d.a) / d.o)) 0 1 :=
  Opda.Noisy.cdf_infinite_loc hF d y hp h hinf

theorem pdf_at_inf (hF : Lawful F) (d : Params α) (y : α) (hp : pointMass F d = false)
    (h : regime F d = .nothing) (hinf : F.isInf (locOf d y) = true) : pdf F d y = 0 :=
  Opda.Noisy.pdf_infinite_loc hF d y hp h hinf

/-- **T6** `a = b`, `o > 0` ⇒ the normal formulas with mean `a` and standard deviation `√(o·o)`. -/
theorem degenerate_normal (hF : Lawful F) (d : Params α) (hab : d.a = d.b) (ho : 0 < d.o) (y : α) :
    cdf F d y = F.normalCdf ((y - d.a) / F.sqrt (d.o * d.o))
      ∧ pdf F d y = F.normalPdf ((y - d.a) / F.sqrt (d.o * d.o)) / F.sqrt (d.o * d.o) :=
  ⟨cdf_degenerate_normal hF d hab ho y, pdf_degenerate_normal hF d hab ho y⟩

/-- **T6** `a = b`, `o = 0` ⇒ point mass at `a`. -/
theorem point_mass (hF : Lawful F) (d : Params α) (hab : d.a = d.b) (ho : d.o = 0) (y : α) :
    cdf F d y = (if y < d.a then 0 else 1) ∧ pdf F d y = (if y = d.a then F.posInf else 0) :=
  ⟨cdf_point_mass hF d hab ho y, pdf_point_mass hF d hab ho y⟩

end field

section real
variable (T : List (ℕ × List (Entry ℝ))) (ninf pinf : ℝ)

/-- **T1 at `ℝ`**, no side conditions left: with the real `Φ`, `φ`, `rpow`, `√` the model's cdf lies in
`[0,1]` and its pdf is non-negative for every table, `a ≤ b`, `o ≥ 0`, `c`, shape and `y`. -/
theorem cdf_range_real (hp : 0 ≤ pinf) (d : Params ℝ) (hab : d.a ≤ d.b) (ho : 0 ≤ d.o) (y : ℝ) :
    (0 ≤ cdf (realFns T ninf pinf) d y ∧ cdf (realFns T ninf pinf) d y ≤ 1) ∧ 0 ≤ pdf (realFns T ninf pinf) d y :=
  ⟨Opda.Noisy.cdf_range (realFns_lawful T ninf pinf) (realFns_rangeOK T ninf pinf hp) d hab ho y,
   Opda.Noisy.pdf_nonneg (realFns_lawful T ninf pinf) (realFns_rangeOK T ninf pinf hp) d hab ho y⟩

/-- **T6 at `ℝ`**: `a = b`, `o > 0` ⇒ exactly `Normal(a, o²)`. -/
theorem degenerate_normal_real (d : Params ℝ) (hab : d.a = d.b) (ho : 0 < d.o) (y : ℝ) :
    cdf (realFns T ninf pinf) d y = Phi ((y - d.a) / d.o)
      ∧ pdf (realFns T ninf pinf) d y = phiStd ((y - d.a) / d.o) / d.o :=
  cdf_degenerate_real T ninf pinf d hab ho y

/-- **T3, the identity**: partial moments of `N(μ, σ²)` on any `[a, b]` obey the recursion exactly as the
code writes it (`term0 = σ φ((a−μ)/σ)·a^j`, `term1 = −σ φ((b−μ)/σ)·b^j`). -/
theorem gauss_moment_recursion (μ σ a b : ℝ) (hσ : 0 < σ) (j : ℕ) :
    gmom μ σ a b (j + 1) = μ * gmom μ σ a b j + (j : ℝ) * (σ * σ) * gmom μ σ a b (j - 1)
      + σ * phiStd ((a - μ) / σ) * a ^ j + -σ * phiStd ((b - μ) / σ) * b ^ j := gmom_succ μ σ a b hσ j

/-- **T3 `int_moment_recursion`**: for integer order the model's base moments + upward loop return exactly
`∫₀¹ x^k dN(loc, scale²)(x)`. -/
theorem int_moment_recursion (μ σ : ℝ) (hσ : 0 < σ) (k : ℕ) :
    partialMomentInt (realFns T ninf pinf) μ σ k = ∫ x in (0:ℝ)..1, x ^ k * dens μ σ x :=
  partialMomentInt_eq T ninf pinf μ σ hσ k

/-- **T3 ⇒ Model = Spec formula for even `c`** (series regime): `cdf = clip(Φ(point) ± ∫₀¹ x^{c/2} dN)`. -/
theorem cdf_even_model_eq_formula (d : Params ℝ) (k : ℕ) (hc : d.c = 2 * k) (hab : d.a ≤ d.b)
    (hp : pointMass (realFns T ninf pinf) d = false) (h : regime (realFns T ninf pinf) d = .nothing) (y : ℝ) :
    cdf (realFns T ninf pinf) d y =
      clip (if d.convex then Phi ((y - d.b) / d.o) + gmom (locOf d y) (d.o / (d.b - d.a)) 0 1 k
            else Phi ((y - d.a) / d.o) - gmom (locOf d y) (d.o / (d.b - d.a)) 0 1 k) 0 1 :=
  cdf_even T ninf pinf d k hc hab hp h y

theorem pdf_even_model_eq_formula (d : Params ℝ) (k : ℕ) (hc : d.c = 2 * k + 2) (hab : d.a ≤ d.b)
    (hp : pointMass (realFns T ninf pinf) d = false) (h : regime (realFns T ninf pinf) d = .nothing) (y : ℝ) :
    pdf (realFns T ninf pinf) d y =
      max 0 ((d.c : ℝ) / (2 * (d.b - d.a)) * gmom (locOf d y) (d.o / (d.b - d.a)) 0 1 k) :=
  pdf_even T ninf pinf d k hc hab hp h y

/-- **T3 for half-integer orders**: whatever knots/coefficients are selected (shipped table or Chebyshev
fallback), the piecewise recursion returns exactly `Σ_pieces ∫_{a_i}^{b_i} p_i dN(loc, scale²)`. -/
theorem frac_moment_model (μ σ : ℝ) (hσ : 0 < σ) (m2 : ℤ) :
    partialFractional (realFns T ninf pinf) μ σ m2
      = piecesSum μ σ (((approxCoeffs (realFns T ninf pinf) μ σ m2).1.zip
          (approxCoeffs (realFns T ninf pinf) μ σ m2).1.tail).zip (approxCoeffs (realFns T ninf pinf) μ σ m2).2) :=
  partialFractional_eq T ninf pinf μ σ hσ m2

/-- **T4 `frac_moment_error`**: if the pieces tile `[x₀, x₁]` and each polynomial is within `ε` of `f` on its
piece (`f = x^k`, `ε = sup|x^k − p|`; with C19 `ε ≤ 1.02·max_error` of the entry), then
`|∫_{x₀}^{x₁} f dN − Σ_pieces ∫ p_i dN| ≤ ε`. -/
theorem frac_moment_error (μ σ ε : ℝ) (hσ : 0 < σ) (hε0 : 0 ≤ ε) (f : ℝ → ℝ) (hf : Continuous f) (x0 x1 : ℝ)
    (ps : List ((ℝ × ℝ) × List ℝ)) (hc : ChainFrom x0 ps x1)
    (hε : ∀ pc ∈ ps, ∀ x ∈ Set.Icc pc.1.1 pc.1.2, |f x - polyEval pc.2 0 x| ≤ ε) :
    |(∫ x in x0..x1, f x * dens μ σ x) - piecesSum μ σ ps| ≤ ε :=
  chain_error_le μ σ ε hσ hε0 f hf x0 x1 ps hc hε

/-- **T2 `conv_identity`** (every `p = c/2 > 0`, so every `c ≥ 1` including the singular density of `c = 1`):
the mixture form of the law of `X + s·N`
(`X` on `[0,1]` with distribution function `x^p`: the normalised noise-free law; conditioning on `X`),
`H(t) = ∫₀¹ Φ((t−x)/s) d(x^p)`, equals the formula the implementation evaluates. -/
theorem conv_identity (p s t : ℝ) (hp : 0 < p) (hs : 0 < s) :
    mixture p s t = Phi ((t - 1) / s) + ∫ x in (0:ℝ)..1, x ^ p * dens t s x :=
  Opda.Noisy.conv_identity p s t hp hs

/-- **Model = Spec for even `c`, convex** (series regime, `ℝ`): `cdf(y) = H((y−a)/(b−a))` with `s = o/(b−a)`,
the law of `a + (b−a)X + E` at `y` — no clip, no approximation left. -/
theorem cdf_even_convex_model_eq_spec (d : Params ℝ) (k : ℕ) (hk : 1 ≤ k) (hc : d.c = 2 * k) (hcv : d.convex = true)
    (hab : d.a ≤ d.b) (hp : pointMass (realFns T ninf pinf) d = false)
    (h : regime (realFns T ninf pinf) d = .nothing) (y : ℝ) :
    cdf (realFns T ninf pinf) d y = mixture k (d.o / (d.b - d.a)) ((y - d.a) / (d.b - d.a)) :=
  cdf_even_convex_eq_mixture T ninf pinf d k hk hc hcv hab hp h y

/-- **Model = Spec for even `c`, concave**: `cdf(y) = 1 − H((b−y)/(b−a))`, the law of `b − (b−a)X + E` at `y`. -/
theorem cdf_even_concave_model_eq_spec (d : Params ℝ) (k : ℕ) (hk : 1 ≤ k) (hc : d.c = 2 * k) (hcv : d.convex = false)
    (hab : d.a ≤ d.b) (hp : pointMass (realFns T ninf pinf) d = false)
    (h : regime (realFns T ninf pinf) d = .nothing) (y : ℝ) :
    cdf (realFns T ninf pinf) d y = 1 - mixture k (d.o / (d.b - d.a)) ((d.b - y) / (d.b - d.a)) :=
  cdf_even_concave_eq_mixture T ninf pinf d k hk hc hcv hab hp h y

/-- **Model = Spec for the density, even `c ≥ 2`** (both shapes): `(b−a)·pdf(y)` is the mixture density
`h(loc) = ∫₀¹ dN(loc, scale²)(x) d(x^{c/2})`; the clip at `0` never acts. -/
theorem pdf_even_model_eq_spec (d : Params ℝ) (k : ℕ) (hc : d.c = 2 * k + 2) (hab : d.a ≤ d.b)
    (hp : pointMass (realFns T ninf pinf) d = false) (h : regime (realFns T ninf pinf) d = .nothing) (y : ℝ) :
    (d.b - d.a) * pdf (realFns T ninf pinf) d y = mixtureDensity (k + 1) (d.o / (d.b - d.a)) (locOf d y) :=
  pdf_even_eq_mixtureDensity T ninf pinf d k hc hab hp h y

/-- **odd `c` (1, 3, …), convex: Model within `ε` of Spec** whenever the selected pieces tile `[0,1]` and are `ε`-accurate
(the provable uniform bound: `ε ≤ 1.02·max_error` of the entry by C19; up to 8e-4 — the 2.5e-5 of the property is
*not* implied and is decided numerically).  `_partial`: the bound is the provable `ε`, not the property's 2.5e-5; the
hypotheses on the selected pieces are discharged for the shipped table in section `shipped` below and are not
available for the Chebyshev fallback (which serves the pdf of `c = 1` only).  Concave shape: next theorem. -/
theorem cdf_odd_convex_within_eps_partial (d : Params ℝ) (k : ℕ) (hc : d.c = 2 * k + 1) (hcv : d.convex = true)
    (hab : d.a ≤ d.b) (hp : pointMass (realFns T ninf pinf) d = false)
    (h : regime (realFns T ninf pinf) d = .nothing) (y ε : ℝ) (hε0 : 0 ≤ ε)
    (hchain : ChainFrom 0
      (((approxCoeffs (realFns T ninf pinf) (locOf d y) (d.o / (d.b - d.a)) ((2 * k + 1 : ℕ) : ℤ)).1.zip
        (approxCoeffs (realFns T ninf pinf) (locOf d y) (d.o / (d.b - d.a)) ((2 * k + 1 : ℕ) : ℤ)).1.tail).zip
        (approxCoeffs (realFns T ninf pinf) (locOf d y) (d.o / (d.b - d.a)) ((2 * k + 1 : ℕ) : ℤ)).2) 1)
    (hε : ∀ pc ∈ (((approxCoeffs (realFns T ninf pinf) (locOf d y) (d.o / (d.b - d.a)) ((2 * k + 1 : ℕ) : ℤ)).1.zip
        (approxCoeffs (realFns T ninf pinf) (locOf d y) (d.o / (d.b - d.a)) ((2 * k + 1 : ℕ) : ℤ)).1.tail).zip
        (approxCoeffs (realFns T ninf pinf) (locOf d y) (d.o / (d.b - d.a)) ((2 * k + 1 : ℕ) : ℤ)).2),
      ∀ x ∈ Set.Icc pc.1.1 pc.1.2, |x ^ (((2 * k + 1 : ℕ) : ℝ) / 2) - polyEval pc.2 0 x| ≤ ε) :
    |cdf (realFns T ninf pinf) d y
        - mixture (((2 * k + 1 : ℕ) : ℝ) / 2) (d.o / (d.b - d.a)) ((y - d.a) / (d.b - d.a))| ≤ ε :=
  cdf_odd_convex_error T ninf pinf d k hc hcv hab hp h y ε hε0 hchain hε

/-- **odd `c`, concave: Model within `ε` of Spec** `1 − H((b−y)/(b−a))` under the same two hypotheses on the selected
pieces (the analogue of `cdf_odd_convex_within_eps_partial`, written out).  `_partial` for the same reason. -/
theorem cdf_odd_concave_within_eps_partial (d : Params ℝ) (k : ℕ) (hc : d.c = 2 * k + 1) (hcv : d.convex = false)
    (hab : d.a ≤ d.b) (hp : pointMass (realFns T ninf pinf) d = false)
    (h : regime (realFns T ninf pinf) d = .nothing) (y ε : ℝ) (hε0 : 0 ≤ ε)
    (hchain : ChainFrom 0
      (((approxCoeffs (realFns T ninf pinf) (locOf d y) (d.o / (d.b - d.a)) ((2 * k + 1 : ℕ) : ℤ)).1.zip
        (approxCoeffs (realFns T ninf pinf) (locOf d y) (d.o / (d.b - d.a)) ((2 * k + 1 : ℕ) : ℤ)).1.tail).zip
        (approxCoeffs (realFns T ninf pinf) (locOf d y) (d.o / (d.b - d.a)) ((2 * k + 1 : ℕ) : ℤ)).2) 1)
    (hε : ∀ pc ∈ (((approxCoeffs (realFns T ninf pinf) (locOf d y) (d.o / (d.b - d.a)) ((2 * k + 1 : ℕ) : ℤ)).1.zip
        (approxCoeffs (realFns T ninf pinf) (locOf d y) (d.o / (d.b - d.a)) ((2 * k + 1 : ℕ) : ℤ)).1.tail).zip
        (approxCoeffs (realFns T ninf pinf) (locOf d y) (d.o / (d.b - d.a)) ((2 * k + 1 : ℕ) : ℤ)).2),
      ∀ x ∈ Set.Icc pc.1.1 pc.1.2, |x ^ (((2 * k + 1 : ℕ) : ℝ) / 2) - polyEval pc.2 0 x| ≤ ε) :
    |cdf (realFns T ninf pinf) d y
        - (1 - mixture (((2 * k + 1 : ℕ) : ℝ) / 2) (d.o / (d.b - d.a)) ((d.b - y) / (d.b - d.a)))| ≤ ε :=
  cdf_odd_concave_error T ninf pinf d k hc hcv hab hp h y ε hε0 hchain hε

/-- **density, odd `c = 2k+3 ≥ 3`, both shapes: `(b−a)·pdf` within `(c/2)·ε` of the mixture density** whenever the pieces
selected for the order `(c−2)/2 = (2k+1)/2` (the moment `pdf` asks for) tile `[0,1]` and are `ε`-accurate.  `_partial`: the
bound is the provable one, not the property's `1e-4·max(1,v)`; `c = 1` (order `−½`: Chebyshev fallback / one step of
downward recursion) is out of scope. -/
theorem pdf_odd_within_eps_partial (d : Params ℝ) (k : ℕ) (hc : d.c = 2 * k + 3) (hab : d.a ≤ d.b)
    (hp : pointMass (realFns T ninf pinf) d = false) (h : regime (realFns T ninf pinf) d = .nothing) (y ε : ℝ)
    (hε0 : 0 ≤ ε)
    (hchain : ChainFrom 0
      (((approxCoeffs (realFns T ninf pinf) (locOf d y) (d.o / (d.b - d.a)) ((2 * k + 1 : ℕ) : ℤ)).1.zip
        (approxCoeffs (realFns T ninf pinf) (locOf d y) (d.o / (d.b - d.a)) ((2 * k + 1 : ℕ) : ℤ)).1.tail).zip
        (approxCoeffs (realFns T ninf pinf) (locOf d y) (d.o / (d.b - d.a)) ((2 * k + 1 : ℕ) : ℤ)).2) 1)
    (hε : ∀ pc ∈ (((approxCoeffs (realFns T ninf pinf) (locOf d y) (d.o / (d.b - d.a)) ((2 * k + 1 : ℕ) : ℤ)).1.zip
        (approxCoeffs (realFns T ninf pinf) (locOf d y) (d.o / (d.b - d.a)) ((2 * k + 1 : ℕ) : ℤ)).1.tail).zip
        (approxCoeffs (realFns T ninf pinf) (locOf d y) (d.o / (d.b - d.a)) ((2 * k + 1 : ℕ) : ℤ)).2),
      ∀ x ∈ Set.Icc pc.1.1 pc.1.2, |x ^ (((2 * k + 1 : ℕ) : ℝ) / 2) - polyEval pc.2 0 x| ≤ ε) :
    |(d.b - d.a) * pdf (realFns T ninf pinf) d y
        - mixtureDensity (((2 * k + 3 : ℕ) : ℝ) / 2) (d.o / (d.b - d.a)) (locOf d y)|
      ≤ ((2 * k + 3 : ℕ) : ℝ) / 2 * ε :=
  pdf_odd_error T ninf pinf d k hc hab hp h y ε hε0 hchain hε

/-- **T5 `noiseless_bound` (`c ≥ 2`)**: for `0 < o < 1e-6 (b−a)` the value returned (the noise-free law, the noise
being deliberately ignored) is within `0.4·c·o/(b−a)` of its convolution with `N(0, o²)`, i.e. of the law of
`Z + E` (Lipschitz constant `c/(2(b−a))` of the noise-free cdf times `E|E| = o√(2/π)`).  The `c = 1` clause
(`0.83·√(o/(b−a))`) is `noiseless_bound_c1` below. -/
theorem noiseless_bound (d : Params ℝ) (hab : d.a < d.b) (hc : 2 ≤ d.c) (ho : 0 < d.o)
    (hp : pointMass (realFns T ninf pinf) d = false) (h : regime (realFns T ninf pinf) d = .noiseless) (y : ℝ) :
    |cdf (realFns T ninf pinf) d y
        - ∫ e, cdf (realFns T ninf pinf) d (y - e) ∂(ProbabilityTheory.gaussianReal 0 ⟨d.o ^ 2, sq_nonneg _⟩)|
      ≤ 0.4 * d.c * d.o / (d.b - d.a) :=
  Opda.Noisy.noiseless_bound T ninf pinf d hab hc ho hp h y

/-- **T5 `noiseless_bound_c1` (`c = 1`)**: for `0 < o < 1e-6 (b−a)` and `c = 1`, both shapes, every real `y`, the value
returned (the noise-free law `√((y−a)/(b−a))` resp. `1 − √((b−y)/(b−a))`, clipped) is within `0.83·√(o/(b−a))` of its
convolution with `N(0, o²)`: the noise-free cdf is Hölder-½ with constant `1/√(b−a)` on the whole line, and
`E√|E| = (2o²)^¼ Γ(¾)/√π ≤ 0.83·√o` (`Γ(¾) ≤ 1.2345` from the log-convexity of `Γ` between `9/2` and `5`). -/
theorem noiseless_bound_c1 (d : Params ℝ) (hab : d.a < d.b) (hc : d.c = 1) (ho : 0 < d.o)
    (hp : pointMass (realFns T ninf pinf) d = false) (h : regime (realFns T ninf pinf) d = .noiseless) (y : ℝ) :
    |cdf (realFns T ninf pinf) d y
        - ∫ e, cdf (realFns T ninf pinf) d (y - e) ∂(ProbabilityTheory.gaussianReal 0 ⟨d.o ^ 2, sq_nonneg _⟩)|
      ≤ 0.83 * Real.sqrt (d.o / (d.b - d.a)) :=
  Opda.Noisy.noiseless_bound_c1 T ninf pinf d hab hc ho hp h y

/-- **T5, `c = 1`, the exact constant**: the same difference is at most `K·√o/√(b−a)` with
`K·√o = (2o²)^¼ Γ(¾)/√π` (`K = 2^¼ Γ(¾)/√π = 0.82218…`), the absolute moment of order ½ of the noise written out. -/
theorem noiseless_bound_c1_exactK (d : Params ℝ) (hab : d.a < d.b) (hc : d.c = 1) (ho : 0 < d.o)
    (hp : pointMass (realFns T ninf pinf) d = false) (h : regime (realFns T ninf pinf) d = .noiseless) (y : ℝ) :
    |cdf (realFns T ninf pinf) d y
        - ∫ e, cdf (realFns T ninf pinf) d (y - e) ∂(ProbabilityTheory.gaussianReal 0 ⟨d.o ^ 2, sq_nonneg _⟩)|
      ≤ (2 * d.o ^ 2) ^ (1 / 4 : ℝ) * Real.Gamma (3 / 4) / Real.sqrt Real.pi / Real.sqrt (d.b - d.a) :=
  Opda.Noisy.noiseless_bound_c1_exactK T ninf pinf d hab hc ho hp h y

end real

/-! ### the Spec is `P[Z + E ≤ y]` (independence + Fubini, `OpdaProofs/NoisyLaw.lean`)

`quadLaw p` is the law of the quadratic part of a draw, `a + (b−a)·U^{2/c}` (convex) resp. `b − (b−a)·(1−U)^{2/c}` (concave),
`U` uniform on `[0, 1)` (`uniform01`); its distribution function is the noise-free class's `cdf` (`quadratic_law_cdf`): this is
"`Z ~ Quadratic(a, b, c, shape)`".  `sumLaw d = quadLaw ⟨a, b, c, shape⟩ ∗ N(0, o²)` is the law of `Z + E` for independent
`Z`, `E` (`law_of_independent_sum`).  The mixture form `H` that the Model = Spec theorems above are stated with *is* its
distribution function (`spec_is_law_of_sum`), and the mixture density its density (`law_of_sum_density`). -/
section law
open MeasureTheory ProbabilityTheory Opda.NoisyLaw
open scoped NNReal

/-- **independence ⇒ convolution ⇒ conditioning (Fubini)**: `X`, `Y` independent on any probability space ⇒
`P[X + Y ≤ y] = ∫ P[Y ≤ y − z] d(law of X)(z)`. -/
theorem law_of_independent_sum {Ω : Type} [MeasurableSpace Ω] (P : Measure Ω) [IsProbabilityMeasure P] (X Y : Ω → ℝ)
    (hX : Measurable X) (hY : Measurable Y) (hind : IndepFun X Y P) (y : ℝ) :
    P {ω | X ω + Y ω ≤ y} = ∫⁻ z, (P.map Y) (Set.Iic (y - z)) ∂(P.map X) :=
  indep_add_Iic P X Y hX hY hind y

/-- the same for the convolution of two laws on `ℝ` -/
theorem convolution_cdf (μ ν : Measure ℝ) [IsProbabilityMeasure μ] [IsProbabilityMeasure ν] (y : ℝ) :
    (μ ∗ ν) (Set.Iic y) = ∫⁻ z, ν (Set.Iic (y - z)) ∂μ := conv_Iic μ ν y

/-- Gaussian noise: `N(0, o²)(−∞, x] = Φ(x/o)` with the development's `Φ`; so for every law `μ` of `Z`
`(μ ∗ N(0, o²))(−∞, y] = ∫ Φ((y − z)/o) dμ(z)`. -/
theorem gaussian_noise_cdf (o : ℝ) (ho : 0 < o) (x : ℝ) :
    gaussianReal 0 (NNReal.mk (o ^ 2) (sq_nonneg o)) (Set.Iic x) = ENNReal.ofReal (Phi (x / o)) := gaussian_Iic o ho x

theorem mixture_form_any_law (μ : Measure ℝ) [IsProbabilityMeasure μ] (o : ℝ) (ho : 0 < o) (y : ℝ) :
    ((μ ∗ gaussianReal 0 (NNReal.mk (o ^ 2) (sq_nonneg o))) (Set.Iic y)).toReal = ∫ z, Phi ((y - z) / o) ∂μ :=
  conv_gaussian_Iic μ o ho y

/-- `Z ~ Quadratic(a, b, c, shape)`: the distribution function of `quadLaw` is the noise-free class's `cdf` (C05's model) -/
theorem quadratic_law_cdf (p : Opda.Quad.Params ℝ) (hab : p.a < p.b) (hc : 0 < p.c) (y : ℝ) :
    quadLaw p (Set.Iic y) = ENNReal.ofReal (Opda.Quad.cdf p y) := quadLaw_Iic p hab hc y

theorem sumLaw_def (d : Params ℝ) :
    sumLaw d = (uniform01.map (Opda.Sample.noisyQuadPart ⟨d.a, d.b, d.c, d.convex⟩))
      ∗ gaussianReal 0 (NNReal.mk (d.o ^ 2) (sq_nonneg d.o)) := rfl

/-- **`spec_is_law_of_sum`**: for every `a < b`, `c ≥ 1`, `o > 0`, both shapes and every real `y`, the Spec the theorems
of this file are stated with — `H((y−a)/(b−a))` (convex) resp. `1 − H((b−y)/(b−a))` (concave),
`H(t) = ∫₀¹ Φ((t−x)/s) d(x^{c/2})`, `s = o/(b−a)` — is the distribution function at `y` of the convolution of the law of `Z`
with `N(0, o²)`. -/
theorem spec_is_law_of_sum (d : Params ℝ) (hab : d.a < d.b) (hc : 1 ≤ d.c) (ho : 0 < d.o) (y : ℝ) :
    (if d.convex then mixture ((d.c : ℝ) / 2) (d.o / (d.b - d.a)) ((y - d.a) / (d.b - d.a))
      else 1 - mixture ((d.c : ℝ) / 2) (d.o / (d.b - d.a)) ((d.b - y) / (d.b - d.a)))
      = ((quadLaw ⟨d.a, d.b, d.c, d.convex⟩ ∗ gaussianReal 0 (NNReal.mk (d.o ^ 2) (sq_nonneg d.o))) (Set.Iic y)).toReal :=
  spec_is_law d hab hc ho y

/-- … i.e. `P[Z + E ≤ y]` for **any** independent `Z ~ Quadratic(a, b, c, shape)`, `E ~ N(0, o²)` on any probability space -/
theorem spec_is_law_of_independent_sum {Ω : Type} [MeasurableSpace Ω] (P : Measure Ω) [IsProbabilityMeasure P]
    (Z E : Ω → ℝ) (hZ : Measurable Z) (hE : Measurable E) (hind : IndepFun Z E P) (d : Params ℝ)
    (hZlaw : P.map Z = quadLaw ⟨d.a, d.b, d.c, d.convex⟩)
    (hElaw : P.map E = gaussianReal 0 (NNReal.mk (d.o ^ 2) (sq_nonneg d.o)))
    (hab : d.a < d.b) (hc : 1 ≤ d.c) (ho : 0 < d.o) (y : ℝ) :
    (P {ω | Z ω + E ω ≤ y}).toReal
      = (if d.convex then mixture ((d.c : ℝ) / 2) (d.o / (d.b - d.a)) ((y - d.a) / (d.b - d.a))
         else 1 - mixture ((d.c : ℝ) / 2) (d.o / (d.b - d.a)) ((d.b - y) / (d.b - d.a))) :=
  sum_law_is_spec P Z E hZ hE hind d hZlaw hElaw hab hc ho y

/-- **the density**: the law of `Z + E` is absolutely continuous with density `h(loc y)/(b−a)`,
`h(t) = ∫₀¹ dN(t, s²)(x) d(x^{c/2})` the mixture density the pdf theorems of this file are stated with (every `a < b`,
`c ≥ 1`, `o > 0`, both shapes). -/
theorem law_of_sum_density (d : Params ℝ) (hab : d.a < d.b) (hc : 1 ≤ d.c) (ho : 0 < d.o) :
    sumLaw d = volume.withDensity (fun y => ENNReal.ofReal
      (mixtureDensity ((d.c : ℝ) / 2) (d.o / (d.b - d.a)) (locOf d y) / (d.b - d.a))) :=
  sumLaw_withDensity d hab hc ho

variable (T : List (ℕ × List (Entry ℝ))) (ninf pinf : ℝ)

/-- **`cdf_even_model_eq_law_of_sum`** — `cdf_even_convex_model_eq_spec` and `cdf_even_concave_model_eq_spec` with the
right-hand side as the law of the sum: for even `c ≥ 2`, both shapes, in the series regime, the model's cdf over `ℝ` *is*
`P[Z + E ≤ y]`. -/
theorem cdf_even_model_eq_law_of_sum (d : Params ℝ) (k : ℕ) (hk : 1 ≤ k) (hc : d.c = 2 * k) (hab : d.a ≤ d.b)
    (hp : pointMass (realFns T ninf pinf) d = false) (h : regime (realFns T ninf pinf) d = .nothing) (y : ℝ) :
    cdf (realFns T ninf pinf) d y = ((sumLaw d) (Set.Iic y)).toReal :=
  cdf_even_eq_law T ninf pinf d k hk hc hab hp h y

/-- `pdf_even_model_eq_spec` in that form: for even `c ≥ 2` the model's pdf over `ℝ` is a density of the law of `Z + E` -/
theorem pdf_even_model_is_density_of_law_of_sum (d : Params ℝ) (k : ℕ) (hc : d.c = 2 * k + 2) (hab : d.a ≤ d.b)
    (hp : pointMass (realFns T ninf pinf) d = false) (h : regime (realFns T ninf pinf) d = .nothing) :
    sumLaw d = volume.withDensity (fun y => ENNReal.ofReal (pdf (realFns T ninf pinf) d y)) :=
  pdf_even_is_density T ninf pinf d k hc hab hp h

/-- the quantity the noiseless-regime bounds compare with, the noise-free law smoothed by `N(0, o²)` (conditioning on `E`
instead of `Z`), is `P[Z + E ≤ y]` too … -/
theorem noiseless_smoothing_is_law_of_sum (d : Params ℝ) (hab : d.a < d.b) (hc : 1 ≤ d.c)
    (hp : pointMass (realFns T ninf pinf) d = false) (h : regime (realFns T ninf pinf) d = .noiseless) (y : ℝ) :
    ∫ e, cdf (realFns T ninf pinf) d (y - e) ∂(gaussianReal 0 ⟨d.o ^ 2, sq_nonneg _⟩)
      = ((sumLaw d) (Set.Iic y)).toReal :=
  smoothed_noiseless_is_law T ninf pinf d hab hc hp h y

/-- … so `noiseless_bound` and `noiseless_bound_c1` bound the distance to `P[Z + E ≤ y]` -/
theorem noiseless_bound_law_of_sum (d : Params ℝ) (hab : d.a < d.b) (hc : 2 ≤ d.c) (ho : 0 < d.o)
    (hp : pointMass (realFns T ninf pinf) d = false) (h : regime (realFns T ninf pinf) d = .noiseless) (y : ℝ) :
    |cdf (realFns T ninf pinf) d y - ((sumLaw d) (Set.Iic y)).toReal| ≤ 0.4 * d.c * d.o / (d.b - d.a) :=
  noiseless_bound_law T ninf pinf d hab hc ho hp h y

theorem noiseless_bound_c1_law_of_sum (d : Params ℝ) (hab : d.a < d.b) (hc : d.c = 1) (ho : 0 < d.o)
    (hp : pointMass (realFns T ninf pinf) d = false) (h : regime (realFns T ninf pinf) d = .noiseless) (y : ℝ) :
    |cdf (realFns T ninf pinf) d y - ((sumLaw d) (Set.Iic y)).toReal| ≤ 0.83 * Real.sqrt (d.o / (d.b - d.a)) :=
  noiseless_bound_c1_law T ninf pinf d hab hc ho hp h y

end law

/-! ### end to end with the shipped table (C06 ∘ C19)

`tableR := castTable Opda.Gen.tableQ`: the table regenerated from `/repo/src/opda/_approximations.json` on every run, every
double read as the exact real it denotes, in the form the model's `Fns.table` field takes (same rows, order and keys;
`max_error` dropped, the algorithm never reads it).  `rowOf T m` is the first row of key `m` (`T.find? (·.1 == m)`),
`selectR es σ` the first entry with `min_scale ≤ σ` (`es.find? (min_scale ≤ σ)`): the code's two look-ups, which the
model's `tableLookup` performs on `tableR` (`Opda.Noisy.tableLookup_castTable`; at a rational scale `selectR` is C19's
`select`: `Opda.Noisy.selectR_cast`).  The proofs use `Opda.Gen.Cert.struct_ok` and `Opda.Gen.Cert.table_bound` (53
kernel-checked certificates): a change of the JSON that breaks a certificate breaks these theorems. -/
section shipped
open Opda.Gen Opda.Table
variable (ninf pinf : ℝ)

/-- the shipped table has a row for each of the keys 1, 3, 5, 7, 9 (`2·exponent`): the odd `c` of the property's
range `1..10` for the cdf, and `c − 2` for the density of `c ∈ {3,5,7,9}` (and of the out-of-range 11). -/
theorem shipped_table_keys (m : ℕ) (hm : m ∈ [1, 3, 5, 7, 9]) : ∃ row ∈ tableQ, row.1 = m :=
  Opda.Noisy.shipped_key_present m hm

/-- **odd `c`, both shapes, shipped table, series regime — no hypothesis on the pieces left.**  For every `a ≤ b`, `o` in
the series regime (`1e-6(b−a) ≤ o < 10(b−a)`, which forces `a < b`, `o > 0`), every odd `c` that has a row in the shipped
table: the scale `o/(b−a)` selects an entry `e` of that row, and **at every real `y`** the model's cdf, evaluated in exact
real arithmetic with `Φ`, `φ` and the shipped coefficients, is within `1.02·max_error(e)` of the Spec
`H((y−a)/(b−a))` (convex) resp. `1 − H((b−y)/(b−a))` (concave), `H(t) = ∫₀¹ Φ((t−x)/s) d(x^{c/2})`, `s = o/(b−a)`.
`_partial`: `1.02·max_error` (currently 2.5e-7 … 8.1e-4 depending on the entry; ≤ 2.5e-5 only for `c ∈ {7, 9}` and for the
small-scale entries of `c ∈ {1, 3, 5}`) is in general **weaker** than the property's 2.5e-5, which is a numerical fact
decided on every run by the correspondence and the mpmath oracle; float rounding is not covered. -/
theorem cdf_odd_shipped_table_partial (d : Params ℝ) (k : ℕ) (hc : d.c = 2 * k + 1) (hab : d.a ≤ d.b)
    (hp : pointMass (realFns tableR ninf pinf) d = false) (h : regime (realFns tableR ninf pinf) d = .nothing)
    (hkey : ∃ row ∈ tableQ, row.1 = d.c) :
    ∃ row e, rowOf tableQ d.c = some row ∧ selectR row.2 (d.o / (d.b - d.a)) = some e ∧
      ∀ y : ℝ, |cdf (realFns tableR ninf pinf) d y
          - (if d.convex then mixture ((d.c : ℝ) / 2) (d.o / (d.b - d.a)) ((y - d.a) / (d.b - d.a))
             else 1 - mixture ((d.c : ℝ) / 2) (d.o / (d.b - d.a)) ((d.b - y) / (d.b - d.a)))|
        ≤ 1.02 * (e.maxError : ℝ) :=
  Opda.Noisy.cdf_odd_shipped ninf pinf d k hc hab hp h hkey

/-- the uniform form: whatever the scale, the error is at most `1.02 ·` the largest `max_error` recorded in the row of
`c` (`rowMaxError row = max over the row's entries`).  `_partial` as above. -/
theorem cdf_odd_shipped_table_uniform_partial (d : Params ℝ) (k : ℕ) (hc : d.c = 2 * k + 1) (hab : d.a ≤ d.b)
    (hp : pointMass (realFns tableR ninf pinf) d = false) (h : regime (realFns tableR ninf pinf) d = .nothing)
    (row : ℕ × List EntryQ) (hrow : rowOf tableQ d.c = some row) (y : ℝ) :
    |cdf (realFns tableR ninf pinf) d y
        - (if d.convex then mixture ((d.c : ℝ) / 2) (d.o / (d.b - d.a)) ((y - d.a) / (d.b - d.a))
           else 1 - mixture ((d.c : ℝ) / 2) (d.o / (d.b - d.a)) ((d.b - y) / (d.b - d.a)))|
      ≤ 1.02 * (rowMaxError row : ℝ) :=
  Opda.Noisy.cdf_odd_shipped_uniform ninf pinf d k hc hab hp h row hrow y

/-- **density, odd `c ≥ 3`, both shapes, shipped table, series regime.**  `pdf` needs the moment of order `(c−2)/2`; if
the shipped table has a row of key `c − 2` (`c ∈ {3,5,7,9}`), the scale selects an entry `e` of it and at every real `y`
`(b−a)·pdf(y)` is within `(c/2)·1.02·max_error(e)` of the mixture density `h(loc) = ∫₀¹ dN(loc, s²)(x) d(x^{c/2})`.
`_partial`: weaker than the property's `1e-4·max(1,v)` (decided numerically); `c = 1` (order `−½`, Chebyshev fallback /
downward step) is not covered. -/
theorem pdf_odd_shipped_table_partial (d : Params ℝ) (k : ℕ) (hc : d.c = 2 * k + 3) (hab : d.a ≤ d.b)
    (hp : pointMass (realFns tableR ninf pinf) d = false) (h : regime (realFns tableR ninf pinf) d = .nothing)
    (hkey : ∃ row ∈ tableQ, row.1 = d.c - 2) :
    ∃ row e, rowOf tableQ (d.c - 2) = some row ∧ selectR row.2 (d.o / (d.b - d.a)) = some e ∧
      ∀ y : ℝ, |(d.b - d.a) * pdf (realFns tableR ninf pinf) d y
            - mixtureDensity ((d.c : ℝ) / 2) (d.o / (d.b - d.a)) (locOf d y)|
          ≤ (d.c : ℝ) / 2 * (1.02 * (e.maxError : ℝ)) :=
  Opda.Noisy.pdf_odd_shipped ninf pinf d k hc hab hp h hkey

theorem pdf_odd_shipped_table_uniform_partial (d : Params ℝ) (k : ℕ) (hc : d.c = 2 * k + 3) (hab : d.a ≤ d.b)
    (hp : pointMass (realFns tableR ninf pinf) d = false) (h : regime (realFns tableR ninf pinf) d = .nothing)
    (row : ℕ × List EntryQ) (hrow : rowOf tableQ (d.c - 2) = some row) (y : ℝ) :
    |(d.b - d.a) * pdf (realFns tableR ninf pinf) d y
        - mixtureDensity ((d.c : ℝ) / 2) (d.o / (d.b - d.a)) (locOf d y)|
      ≤ (d.c : ℝ) / 2 * (1.02 * (rowMaxError row : ℝ)) :=
  Opda.Noisy.pdf_odd_shipped_uniform ninf pinf d k hc hab hp h row hrow y

/-- **`c ∈ {7, 9}`: the property's 2.5e-5 itself, as a theorem in exact real arithmetic.**  Every entry of the rows of key
7 and 9 of the shipped table records `1.02·max_error ≤ 2.5e-5` (checked by the kernel on the regenerated table), so for
both shapes, every scale of the series regime and every real `y` the model's cdf is within 2.5e-5 of the Spec.  (What
remains compared only for these `c`: float rounding, and the regimes other than the series regime.) -/
theorem cdf_c7_c9_shipped_table_tolerance (d : Params ℝ) (hc : d.c = 7 ∨ d.c = 9) (hab : d.a ≤ d.b)
    (hp : pointMass (realFns tableR ninf pinf) d = false) (h : regime (realFns tableR ninf pinf) d = .nothing)
    (y : ℝ) :
    |cdf (realFns tableR ninf pinf) d y
        - (if d.convex then mixture ((d.c : ℝ) / 2) (d.o / (d.b - d.a)) ((y - d.a) / (d.b - d.a))
           else 1 - mixture ((d.c : ℝ) / 2) (d.o / (d.b - d.a)) ((d.b - y) / (d.b - d.a)))| ≤ 2.5e-5 :=
  Opda.Noisy.cdf_c7_c9_shipped ninf pinf d hc hab hp h y

/-- **`c = 9`: the property's `1e-4·max(1, v)` for the density, as a theorem in exact real arithmetic**: the row of key 7
records `(9/2)·1.02·max_error ≤ 1e-4`, so `(b−a)·pdf(y)` is within `1e-4` of the mixture density `v` at every `y`. -/
theorem pdf_c9_shipped_table_tolerance (d : Params ℝ) (hc : d.c = 9) (hab : d.a ≤ d.b)
    (hp : pointMass (realFns tableR ninf pinf) d = false) (h : regime (realFns tableR ninf pinf) d = .nothing)
    (y : ℝ) :
    |(d.b - d.a) * pdf (realFns tableR ninf pinf) d y
        - mixtureDensity ((d.c : ℝ) / 2) (d.o / (d.b - d.a)) (locOf d y)| ≤ 1e-4 :=
  Opda.Noisy.pdf_c9_shipped ninf pinf d hc hab hp h y

/-- `cdf_odd_shipped_table_uniform_partial` against the law of the sum: odd `c` with a row, both shapes, series regime,
every real `y`: `|cdf(y) − P[Z + E ≤ y]| ≤ 1.02 ·` (largest `max_error` of the row).  `_partial` as above. -/
theorem cdf_odd_shipped_table_law_of_sum_partial (d : Params ℝ) (k : ℕ) (hc : d.c = 2 * k + 1) (hab : d.a ≤ d.b)
    (hp : pointMass (realFns tableR ninf pinf) d = false) (h : regime (realFns tableR ninf pinf) d = .nothing)
    (row : ℕ × List EntryQ) (hrow : rowOf tableQ d.c = some row) (y : ℝ) :
    |cdf (realFns tableR ninf pinf) d y - ((Opda.NoisyLaw.sumLaw d) (Set.Iic y)).toReal|
      ≤ 1.02 * (rowMaxError row : ℝ) :=
  Opda.NoisyLaw.cdf_odd_shipped_uniform_law ninf pinf d k hc hab hp h row hrow y

/-- `cdf_c7_c9_shipped_table_tolerance` against the law of the sum: **`|cdf(y) − P[Z + E ≤ y]| ≤ 2.5e-5`** for
`c ∈ {7, 9}`, both shapes, every scale of the series regime and every real `y`, in exact real arithmetic. -/
theorem cdf_c7_c9_law_of_sum_tolerance (d : Params ℝ) (hc : d.c = 7 ∨ d.c = 9) (hab : d.a ≤ d.b)
    (hp : pointMass (realFns tableR ninf pinf) d = false) (h : regime (realFns tableR ninf pinf) d = .nothing)
    (y : ℝ) :
    |cdf (realFns tableR ninf pinf) d y - ((Opda.NoisyLaw.sumLaw d) (Set.Iic y)).toReal| ≤ 2.5e-5 :=
  Opda.NoisyLaw.cdf_c7_c9_shipped_law ninf pinf d hc hab hp h y

end shipped

/-! ### non-vacuity -/

/-- a parameter setting in the noiseless regime with positive noise exists: `a=0, b=1, c=3, o=1e-7` -/
example : pointMass (realFns [] 0 0) { a := 0, b := 1, c := 3, o := 1/10000000, convex := false } = false
    ∧ regime (realFns [] 0 0) { a := 0, b := 1, c := 3, o := 1/10000000, convex := false } = .noiseless := by
  constructor
  · rw [Bool.eq_false_iff, Ne, pointMass_iff (realFns_lawful [] 0 0)]; norm_num
  · rw [regime_noiseless_iff (realFns_lawful [] 0 0)]; norm_num

/-- the hypotheses of `noiseless_bound_c1` are satisfiable: `a=0, b=1, c=1, o=1e-7`, either shape -/
example (cv : Bool) : (0:ℝ) < 1 ∧ (1:ℕ) = 1 ∧ (0:ℝ) < 1/10000000
    ∧ pointMass (realFns [] 0 0) { a := 0, b := 1, c := 1, o := 1/10000000, convex := cv } = false
    ∧ regime (realFns [] 0 0) { a := 0, b := 1, c := 1, o := 1/10000000, convex := cv } = .noiseless := by
  refine ⟨by norm_num, rfl, by norm_num, ?_, ?_⟩
  · rw [Bool.eq_false_iff, Ne, pointMass_iff (realFns_lawful [] 0 0)]; norm_num
  · rw [regime_noiseless_iff (realFns_lawful [] 0 0)]; norm_num

example : Lawful (realFns [] 0 0) ∧ RangeOK (realFns [] 0 0) :=
  ⟨realFns_lawful [] 0 0, realFns_rangeOK [] 0 0 (le_refl _)⟩

/-- a parameter setting in the series regime exists: `a=0, b=1, c=3, o=1/10` -/
example : pointMass (realFns [] 0 0) { a := 0, b := 1, c := 3, o := 1/10, convex := true } = false
    ∧ regime (realFns [] 0 0) { a := 0, b := 1, c := 3, o := 1/10, convex := true } = .nothing := by
  constructor
  · rw [Bool.eq_false_iff, Ne, pointMass_iff (realFns_lawful [] 0 0)]; norm_num
  · rw [regime_nothing_iff (realFns_lawful [] 0 0)]; norm_num

/-- two pieces tiling `[0, 1]` -/
example : ChainFrom 0 [((0, 1/2), [0, 1]), ((1/2, 1), [1/4, 1/2])] 1 :=
  .cons 0 (1/2) 1 _ _ (by norm_num) (.cons (1/2) 1 1 _ _ (by norm_num) (.nil 1))

/-- the hypotheses of the shipped-table theorems are satisfiable: `a=0, b=1, c=3, o=1/10` (either shape) is in the
series regime of the instance that reads the shipped table, and the table has rows of key `c = 3` and `c − 2 = 1` -/
example (cv : Bool) : pointMass (realFns tableR 0 0) { a := 0, b := 1, c := 3, o := 1/10, convex := cv } = false
    ∧ regime (realFns tableR 0 0) { a := 0, b := 1, c := 3, o := 1/10, convex := cv } = .nothing
    ∧ (∃ row ∈ Opda.Gen.tableQ, row.1 = 3) ∧ (∃ row ∈ Opda.Gen.tableQ, row.1 = 3 - 2) := by
  refine ⟨?_, ?_, shipped_table_keys 3 (by simp), shipped_table_keys 1 (by simp)⟩
  · rw [Bool.eq_false_iff, Ne, pointMass_iff (realFns_lawful tableR 0 0)]; norm_num
  · rw [regime_nothing_iff (realFns_lawful tableR 0 0)]; norm_num

/-- the hypotheses of `spec_is_law_of_independent_sum` are satisfiable: on the product space `ℝ × ℝ` with the product of the
two laws the coordinates are independent with the required laws (`a=0, b=1, c=1, o=1/10`, concave) -/
example : ∃ (P : MeasureTheory.Measure (ℝ × ℝ)) (_ : MeasureTheory.IsProbabilityMeasure P) (Z E : ℝ × ℝ → ℝ)
    (d : Params ℝ), Measurable Z ∧ Measurable E ∧ ProbabilityTheory.IndepFun Z E P
      ∧ P.map Z = Opda.NoisyLaw.quadLaw ⟨d.a, d.b, d.c, d.convex⟩
      ∧ P.map E = ProbabilityTheory.gaussianReal 0 (NNReal.mk (d.o ^ 2) (sq_nonneg d.o))
      ∧ d.a < d.b ∧ 1 ≤ d.c ∧ 0 < d.o :=
  Opda.NoisyLaw.exists_independent_pair { a := 0, b := 1, c := 1, o := 1/10, convex := false }
    (by norm_num) (by norm_num) (by norm_num)

end Opda.Props.C06

#opda_audit Opda.Props.C06
