import OpdaProofs.Audit
import OpdaProofs.EmpCurves
import OpdaProofs.EmpMore
import OpdaProofs.MaxOfN
import OpdaProofs.UStat
/-!
# C04 — empirical tuning curves equal the best-of-n order-statistic definitions

The executable model is `OpdaModel/EmpCurves.lean` (+ `Emp.ppf` for the quantile curve, whose level
`q^(1/n)` resp. `1-(1-q)^(1/n)` is computed by the harness with the specified formula).
-/
namespace Opda.Props.C04
open Opda.Emp Finset

/-- **what `F(y)^n` is**: for any weighted sample, the n-th power of the total weight `≤ t` is the probability that
all of `n` independent draws are `≤ t` (finite product measure) — so the law with cdf `F^n` *is* the law of the
maximum of `n` draws. -/
theorem cdf_pow_is_law_of_max {N : ℕ} (y w : Fin N → ℝ) (t : ℝ) (n : ℕ) :
    (∑ j, if y j ≤ t then w j else 0) ^ n
      = ∑ g : Fin n → Fin N, if (∀ i, y (g i) ≤ t) then ∏ i, w (g i) else 0 :=
  Opda.MaxOfN.cdf_pow_eq_prob_all_le y w t n

/-- **average curve, maximise**: the weights `F_j^n − F_{j−1}^n` the model puts on the atoms telescope, i.e. they are
the increments of `F^n` (total mass `pw F_last − pw 0`). -/
theorem average_weights_telescope_max {E α : Type} [Field α] (pw : α → α) (l : List (E × α)) :
    total (bestWeights pw false (withPrevAux 0 l))
      = (match l.getLast? with | some p => pw p.2 | none => pw 0) - pw 0 :=
  bestWeights_total pw 0 l

/-- **average curve, minimise**: the weights are the increments of `1 − (1−F)^n`. -/
theorem average_weights_telescope_min {E α : Type} [Field α] (pw : α → α) (l : List (E × α)) :
    total (bestWeights pw true (withPrevAux 0 l))
      = pw (1 - 0) - (match l.getLast? with | some p => pw (1 - p.2) | none => pw (1 - 0)) :=
  bestWeights_total_min pw 0 l

/-- the executable binomial coefficient is `Nat.choose` -/
theorem model_binomial (n k : ℕ) : chooseFast n k = n.choose k := chooseFast_eq_choose n k

/-- the U-statistic weights of the model are `(C(j+1,m) − C(j,m)) / C(N,m)`, `m = min n N` -/
theorem u_weights_model (n N : ℕ) : uWeights (α := ℝ) n N = (List.range N).map (uWeightAt n N) := uWeights_eq n N

/-- **U-statistic curve = mean over all subsets of size `min(n,N)` of their best element** (`y` sorted increasingly,
so the best element of a subset is the one with the largest index). -/
theorem u_curve_is_subset_mean (y : ℕ → ℝ) (n N : ℕ) (hn : 1 ≤ n) (hN : 1 ≤ N) :
    ∑ j ∈ range N, uWeightAt n N j * y j
      = (∑ S ∈ powersetCard (min n N) (range N), y (S.sup id)) / ((N.choose (min n N) : ℕ) : ℝ) :=
  u_curve_eq_subset_mean y n N hn hN

/-- the V-statistic weights `(i/N)^n − ((i−1)/N)^n` sum to 1 -/
theorem v_weights_sum_one (pw : ℝ → ℝ) (N : ℕ) (hN : 0 < N) (h0 : pw 0 = 0) (h1 : pw 1 = 1) :
    (vWeights pw N).sum = 1 := vWeights_sum pw N hN h0 h1

/-- the `k` smallest observations carry V-weight `(k/N)^n`: the V-statistic weights are the law with cdf `F^n`, the same law
the average curve integrates against (`average_weights_telescope_max`), so `v_tuning_curve = average_tuning_curve` for
unweighted samples (ties included: a tied block's weights telescope). The equality of the two *sums* is additionally checked
exactly in ℚ on every sample of the correspondence run. -/
theorem v_weights_are_law_of_max (pw : ℝ → ℝ) (N k : ℕ) (hk : k ≤ N) :
    ((vWeights pw N).take k).sum = pw ((k : ℝ) / (N : ℝ)) - pw 0 := vWeights_prefix pw N k hk

/-- **naive curve** = best of the first `min(n,N)` observations in the given order. -/
theorem naive_is_running_max {E : Type} [LinearOrder E] (n : ℕ) (y : E) (ys : List E) :
    naive false n (y :: ys) = some ((ys.take (n - 1)).foldl max y) := naive_max n y ys

theorem naive_is_running_min {E : Type} [LinearOrder E] (n : ℕ) (y : E) (ys : List E) :
    naive true n (y :: ys) = some ((ys.take (n - 1)).foldl min y) := naive_min n y ys

/-- the naive curve is monotone in `n` in the direction of optimisation -/
theorem naive_monotone_max {E : Type} [LinearOrder E] (y : E) (ys : List E) (n m : ℕ) (h : n ≤ m) :
    (ys.take (n - 1)).foldl max y ≤ (ys.take (m - 1)).foldl max y := by
  have : ys.take (m - 1) = ys.take (n - 1) ++ (ys.drop (n - 1)).take (m - 1 - (n - 1)) := by
    rw [← List.take_add]; congr 1; omega
  rw [this]; exact foldl_max_le_foldl_max_append y _ _

theorem naive_monotone_min {E : Type} [LinearOrder E] (y : E) (ys : List E) (n m : ℕ) (h : n ≤ m) :
    (ys.take (m - 1)).foldl min y ≤ (ys.take (n - 1)).foldl min y := by
  have : ys.take (m - 1) = ys.take (n - 1) ++ (ys.drop (n - 1)).take (m - 1 - (n - 1)) := by
    rw [← List.take_add]; congr 1; omega
  rw [this]; exact foldl_min_append_le y _ _

/-- **quantile curve** is monotone in the level, hence (the level `q^(1/n)` being monotone in `n`) in `n`. -/
theorem quantile_curve_monotone_in_level {E α : Type} [LinearOrder E] [OrderBot E] [OrderTop E]
    [Field α] [LinearOrder α] [IsStrictOrderedRing α]
    (a b : E) (obs : List (E × α)) (hn : NonNeg obs) (htot : 0 < total obs)
    (l l' : α) (h0 : 0 < l) (hll : l ≤ l') (h1 : l' ≤ 1) :
    ppf a (support ⊥ ⊤ a b obs) l ≤ ppf a (support ⊥ ⊤ a b obs) l' := ppf_mono a b obs hn htot l l' h0 hll h1

end Opda.Props.C04

#opda_audit Opda.Props.C04
