import OpdaProofs.Audit
import OpdaProofs.EmpCurves
import OpdaProofs.EmpMore
import OpdaProofs.MaxOfN
import OpdaProofs.UStat
import OpdaProofs.EmpAvg
import OpdaProofs.EmpQtc
import OpdaProofs.EmpDrv
import OpdaProofs.EmpDualExt
import OpdaProofs.EmpAvgExt
/-!
# C04 — empirical tuning curves equal the best-of-n order-statistic definitions

The executable model is `OpdaModel/EmpCurves.lean` (+ `Emp.ppf` for the quantile curve, whose level
`q^(1/n)` resp. `1-(1-q)^(1/n)` is computed by the harness with the specified formula).

**`v_tuning_curve = average_tuning_curve`**: for finite observations `v_eq_average`, `v_eq_average_minimize` (any `pw`) and, on
the driver's own terms, `v_op_eq_avg_op_driver`.  For observations that may be `±∞` (values in `Ext`; lemmas in
`OpdaProofs/EmpAvgExt.lean`) `v_op_eq_avg_op_driver_ext`: the driver sums `weight × value` over `Ext`, skipping exact-zero
weights, and replies with the finite sum when no infinite observation carries weight, with that infinity when one does, and
with `nan` when `+∞` and `−∞` both do (`ext_sum_cases`); the `v` reply and the `avg` reply are the same in every case, for
every non-empty unweighted sample, any bounds, both directions and every `pw` that is non-decreasing on `[0,1]`
(`v_op_eq_avg_op_driver_ext_pow`: the driver's `x ↦ xⁿ`).  Monotonicity is needed once infinite observations are tied
(`v_op_ne_avg_op_nonmonotone_pw`): the sign of each V-weight of a tied block decides the reply, not only their sum.
-/
namespace Opda.Props.C04
open Opda.Emp Opda.Wire Opda.Drv.Emp Finset

/-- **what `F(y)^n` is**: for any weighted sample, the n-th power of the total weight `≤ t` is the probability that
all of `n` independent draws are `≤ t` (finite product measure) — so the law with cdf `F^n` *is* the law of the
maximum of `n` draws. -/
theorem cdf_pow_is_law_of_max {N : ℕ} (y w : Fin N → ℝ) (t : ℝ) (n : ℕ) :
    (∑ j, if y j ≤ t then w j else 0) ^ n
      = ∑ g : Fin n → Fin N, if (∀ i, y (g i) ≤ t) then ∏ i, w (g i) else 0 :=
  Opda.MaxOfN.cdf_pow_eq_prob_all_le y w t n

/-- **average curve, maximise**: the weights `F_j^n − F_{j−1}^n` the model puts on the atoms telescope, i.e. they are
the increments of `F^n` (total mass `pw F_last − pw 0`). -/
theorem average_weights_telescope_max {E α : Type} [Field α] (pw : α → α) (l : List (E × α)) :
    total (bestWeights pw false (withPrevAux 0 l))
      = (match l.getLast? with | some p => pw p.2 | none => pw 0) - pw 0 :=
  bestWeights_total pw 0 l

/-- **average curve, minimise**: the weights are the increments of `1 − (1−F)^n`. -/
theorem average_weights_telescope_min {E α : Type} [Field α] (pw : α → α) (l : List (E × α)) :
    total (bestWeights pw true (withPrevAux 0 l))
      = pw (1 - 0) - (match l.getLast? with | some p => pw (1 - p.2) | none => pw (1 - 0)) :=
  bestWeights_total_min pw 0 l

/-- the executable binomial coefficient is `Nat.choose` -/
theorem model_binomial (n k : ℕ) : chooseFast n k = n.choose k := chooseFast_eq_choose n k

/-- the U-statistic weights of the model are `(C(j+1,m) − C(j,m)) / C(N,m)`, `m = min n N` -/
theorem u_weights_model (n N : ℕ) : uWeights (α := ℝ) n N = (List.range N).map (uWeightAt n N) := uWeights_eq n N

/-- **U-statistic curve = mean over all subsets of size `min(n,N)` of their best element** (`y` sorted increasingly,
so the best element of a subset is the one with the largest index). -/
theorem u_curve_is_subset_mean (y : ℕ → ℝ) (n N : ℕ) (hn : 1 ≤ n) (hN : 1 ≤ N) :
    ∑ j ∈ range N, uWeightAt n N j * y j
      = (∑ S ∈ powersetCard (min n N) (range N), y (S.sup id)) / ((N.choose (min n N) : ℕ) : ℝ) :=
  u_curve_eq_subset_mean y n N hn hN

/-- the V-statistic weights `(i/N)^n − ((i−1)/N)^n` sum to 1 -/
theorem v_weights_sum_one (pw : ℝ → ℝ) (N : ℕ) (hN : 0 < N) (h0 : pw 0 = 0) (h1 : pw 1 = 1) :
    (vWeights pw N).sum = 1 := vWeights_sum pw N hN h0 h1

/-- the `k` smallest observations carry V-weight `(k/N)^n`: the V-statistic weights are the law with cdf `F^n`, the same law
the average curve integrates against (`average_weights_telescope_max`), so `v_tuning_curve = average_tuning_curve` for
unweighted samples (ties included: a tied block's weights telescope). The equality of the two *sums* is additionally checked
exactly in ℚ on every sample of the correspondence run. -/
theorem v_weights_are_law_of_max (pw : ℝ → ℝ) (N k : ℕ) (hk : k ≤ N) :
    ((vWeights pw N).take k).sum = pw ((k : ℝ) / (N : ℝ)) - pw 0 := vWeights_prefix pw N k hk

/-- **naive curve** = best of the first `min(n,N)` observations in the given order. -/
theorem naive_is_running_max {E : Type} [LinearOrder E] (n : ℕ) (y : E) (ys : List E) :
    naive false n (y :: ys) = some ((ys.take (n - 1)).foldl max y) := naive_max n y ys

theorem naive_is_running_min {E : Type} [LinearOrder E] (n : ℕ) (y : E) (ys : List E) :
    naive true n (y :: ys) = some ((ys.take (n - 1)).foldl min y) := naive_min n y ys

/-- the naive curve is monotone in `n` in the direction of optimisation -/
theorem naive_monotone_max {E : Type} [LinearOrder E] (y : E) (ys : List E) (n m : ℕ) (h : n ≤ m) :
    (ys.take (n - 1)).foldl max y ≤ (ys.take (m - 1)).foldl max y := by
  have : ys.take (m - 1) = ys.take (n - 1) ++ (ys.drop (n - 1)).take (m - 1 - (n - 1)) := by
    rw [← List.take_add]; congr 1; omega
  rw [this]; exact foldl_max_le_foldl_max_append y _ _

theorem naive_monotone_min {E : Type} [LinearOrder E] (y : E) (ys : List E) (n m : ℕ) (h : n ≤ m) :
    (ys.take (m - 1)).foldl min y ≤ (ys.take (n - 1)).foldl min y := by
  have : ys.take (m - 1) = ys.take (n - 1) ++ (ys.drop (n - 1)).take (m - 1 - (n - 1)) := by
    rw [← List.take_add]; congr 1; omega
  rw [this]; exact foldl_min_append_le y _ _

/-- **quantile curve** is monotone in the level, hence (the level `q^(1/n)` being monotone in `n`) in `n`. -/
theorem quantile_curve_monotone_in_level {E α : Type} [LinearOrder E] [OrderBot E] [OrderTop E]
    [Field α] [LinearOrder α] [IsStrictOrderedRing α]
    (a b : E) (obs : List (E × α)) (hn : NonNeg obs) (htot : 0 < total obs)
    (l l' : α) (h0 : 0 < l) (hll : l ≤ l') (h1 : l' ≤ 1) :
    ppf a (support ⊥ ⊤ a b obs) l ≤ ppf a (support ⊥ ⊤ a b obs) l' := ppf_mono a b obs hn htot l l' h0 hll h1


/-! ### V-statistic curve = average curve (T3) -/

section
variable {α : Type} [Field α] [LinearOrder α] [IsStrictOrderedRing α]

/-- **`v_tuning_curve(n) = average_tuning_curve(n)`, maximise**: for every finite sample `ys` (ties allowed, any order),
every sorted arrangement `s` of it (`np.sort`) and *every* function `pw` in the role of `x ↦ xⁿ`,
`Σ_i s[i]·(pw((i+1)/N) − pw(i/N)) = Σ_j v_j·(pw F_j − pw F_{j−1})` over the merged atoms `v_j` of the unweighted sample
(`avgSum l = Σ_{(v,w) ∈ l} v·w`). -/
theorem v_eq_average (pw : α → α) (ys s : List α) (hperm : s.Perm ys) (hsorted : s.Pairwise (· ≤ ·)) :
    avgSum (s.zip (vWeights pw ys.length))
      = avgSum (bestWeights pw false (withPrev (cumN (atoms (ys.map fun y => (y, (1 : α))))))) :=
  v_eq_average_max pw ys s hperm hsorted

/-- **the same for `minimize=True`**: the code pairs the *same* weights with the sample sorted in decreasing order
(`_original_ys_reverse_sorted`), the average curve uses the survival form `(1−F_{j−1})ⁿ − (1−F_j)ⁿ`. -/
theorem v_eq_average_minimize (pw : α → α) (ys s : List α) (hne : ys ≠ []) (hperm : s.Perm ys)
    (hsorted : s.Pairwise (· ≤ ·)) :
    avgSum (s.reverse.zip (vWeights pw ys.length))
      = avgSum (bestWeights pw true (withPrev (cumN (atoms (ys.map fun y => (y, (1 : α))))))) :=
  v_eq_average_min pw ys s hne hperm hsorted

/-- non-vacuity: a tied sample and its sorted arrangement -/
example : ([1, 3, 3, 7] : List ℚ).Perm [3, 7, 1, 3] ∧ ([1, 3, 3, 7] : List ℚ).Pairwise (· ≤ ·)
    ∧ ([3, 7, 1, 3] : List ℚ) ≠ [] := by
  refine ⟨by decide, ?_, by simp⟩
  simp only [List.pairwise_cons, List.mem_cons, List.not_mem_nil, or_false, forall_eq_or_imp, forall_eq,
    IsEmpty.forall_iff, implies_true, List.Pairwise.nil, and_true]
  norm_num

/-- the merged atoms do not depend on the order of the observations -/
theorem atoms_permutation_invariant {E : Type} [LinearOrder E] {obs obs' : List (E × α)} (h : obs.Perm obs') :
    atoms obs = atoms obs' := atoms_perm h

/-! ### monotone in `n` (T6, average curve) -/

/-- **average curve, maximise, is monotone in `n`** — abstract powers: `pwm ≤ pwn` on `[0,1]` (true of `x^m ≤ x^n` for
`n ≤ m`), both agreeing at 0 and at 1; every weighted sample with non-negative weights and positive total. -/
theorem average_monotone_in_n (pwn pwm : α → α) (obs : List (α × α)) (hn : NonNeg obs) (htot : 0 < total obs)
    (hle : ∀ x, 0 ≤ x → x ≤ 1 → pwm x ≤ pwn x) (h0 : pwm 0 = pwn 0) (h1 : pwm 1 = pwn 1) :
    avgSum (bestWeights pwn false (withPrev (cumN (atoms obs))))
      ≤ avgSum (bestWeights pwm false (withPrev (cumN (atoms obs)))) :=
  average_mono_max pwn pwm obs hn htot hle h0 h1

/-- **average curve, minimise**: the reverse inequality. -/
theorem average_monotone_in_n_minimize (pwn pwm : α → α) (obs : List (α × α)) (hn : NonNeg obs)
    (htot : 0 < total obs) (hle : ∀ x, 0 ≤ x → x ≤ 1 → pwm x ≤ pwn x) (h0 : pwm 0 = pwn 0) (h1 : pwm 1 = pwn 1) :
    avgSum (bestWeights pwm true (withPrev (cumN (atoms obs))))
      ≤ avgSum (bestWeights pwn true (withPrev (cumN (atoms obs)))) :=
  average_mono_min pwn pwm obs hn htot hle h0 h1

/-- the underlying Abel-summation statement on an arbitrary level list `[(v_j, F_j)]` -/
theorem average_monotone_of_levels (pwn pwm : α → α) (l : List (α × α))
    (hs : l.Pairwise fun p q => p.1 ≤ q.1) (hd : ∀ p ∈ l, pwm p.2 ≤ pwn p.2) (h0 : pwm 0 = pwn 0)
    (hlast : ∀ p, l.getLast? = some p → pwm p.2 = pwn p.2) :
    avgSum (bestWeights pwn false (withPrev l)) ≤ avgSum (bestWeights pwm false (withPrev l)) :=
  avgSum_mono_of_levels pwn pwm l hs hd h0 hlast

/-- natural exponents in any ordered field (what the driver evaluates in `ℚ`) -/
theorem average_monotone_in_n_pow (obs : List (α × α)) (hnn : NonNeg obs) (htot : 0 < total obs)
    (n m : ℕ) (hn : 0 < n) (hnm : n ≤ m) :
    avgSum (bestWeights (fun x => x ^ n) false (withPrev (cumN (atoms obs))))
      ≤ avgSum (bestWeights (fun x => x ^ m) false (withPrev (cumN (atoms obs)))) :=
  average_mono_max_pow obs hnn htot n m hn hnm

theorem average_monotone_in_n_pow_minimize (obs : List (α × α)) (hnn : NonNeg obs) (htot : 0 < total obs)
    (n m : ℕ) (hn : 0 < n) (hnm : n ≤ m) :
    avgSum (bestWeights (fun x => x ^ m) true (withPrev (cumN (atoms obs))))
      ≤ avgSum (bestWeights (fun x => x ^ n) true (withPrev (cumN (atoms obs)))) :=
  average_mono_min_pow obs hnn htot n m hn hnm

/-! ### minimise / maximise duality (T7) -/

/-- **average curve**: the minimise-average of a weighted sample is minus the maximise-average of the negated sample
(same weights), for every `pw`; the only hypothesis is a non-zero total weight. -/
theorem average_min_max_duality (pw : α → α) (obs : List (α × α)) (htot : total obs ≠ 0) :
    avgSum (bestWeights pw true (withPrev (cumN (atoms obs))))
      = -avgSum (bestWeights pw false (withPrev (cumN (atoms (negObs obs))))) :=
  Opda.Emp.average_min_max_duality pw obs htot

/-- the mechanism: negation reverses the merged atom list -/
theorem atoms_of_negated_sample {E E' : Type} [LinearOrder E] [LinearOrder E'] (ν : E → E') (hν : StrictAnti ν)
    (obs : List (E × α)) : atoms (mapObs ν obs) = (mapObs ν (atoms obs)).reverse := atoms_mapObs_anti ν hν obs

/-- **quantile function**: with `ν` an order-reversing involution of the value type (negation), bounds `(ν b, ν a)` for
the mirrored sample, and `0 < l < 1` **not equal to any value of the cdf** (the tie exclusion of the property):
`ppf(l) = ν (ppf_mirrored(1 − l))`. -/
theorem quantile_min_max_duality_level {E : Type} [LinearOrder E] [OrderBot E] [OrderTop E]
    (ν : E → E) (hν : StrictAnti ν) (hinv : ∀ x, ν (ν x) = x)
    (a b : E) (obs : List (E × α)) (hn : NonNeg obs) (htot : 0 < total obs)
    (hbounds : ∀ p ∈ obs, a ≤ p.1 ∧ p.1 ≤ b)
    (l : α) (hl0 : 0 < l) (hl1 : l < 1) (hnotie : ∀ y, cdf (support ⊥ ⊤ a b obs) y ≠ l) :
    ppf a (support ⊥ ⊤ a b obs) l = ν (ppf (ν b) (support ⊥ ⊤ (ν b) (ν a) (mapObs ν obs)) (1 - l)) :=
  ppf_mirror ν hν hinv a b obs hn htot hbounds l hl0 hl1 hnotie

end

/-- the same on the driver's terms (`Ext` values, `ℚ` weights, `Ext.neg`) -/
theorem quantile_min_max_duality_driver (a b : Ext) (obs : List (Ext × ℚ)) (hn : NonNeg obs) (htot : 0 < total obs)
    (hbounds : ∀ p ∈ obs, a ≤ p.1 ∧ p.1 ≤ b)
    (l : ℚ) (hl0 : 0 < l) (hl1 : l < 1) (hnotie : ∀ y, cdf (support Ext.negInf Ext.posInf a b obs) y ≠ l) :
    ppf a (support Ext.negInf Ext.posInf a b obs) l
      = Ext.neg (ppf (Ext.neg b) (support Ext.negInf Ext.posInf (Ext.neg b) (Ext.neg a) (mapObs Ext.neg obs)) (1 - l)) :=
  ppf_mirror_ext a b obs hn htot hbounds l hl0 hl1 hnotie

/-- **the tie exclusion is necessary**: for the sample `{0, 1}` with bounds `[0,1]` and the level `l = 1/2 = cdf(0)`, every
other hypothesis of the duality holds, yet `ppf(1/2) = 0` while the mirrored side gives `1`. -/
theorem quantile_duality_fails_at_a_tie :
    let obs : List (Ext × ℚ) := [(Ext.fin 0, 1), (Ext.fin 1, 1)]
    NonNeg obs ∧ 0 < total obs ∧ (∀ p ∈ obs, Ext.fin 0 ≤ p.1 ∧ p.1 ≤ Ext.fin 1)
      ∧ cdf (support ⊥ ⊤ (Ext.fin 0) (Ext.fin 1) obs) (Ext.fin 0) = 1 / 2
      ∧ ppf (Ext.fin 0) (support ⊥ ⊤ (Ext.fin 0) (Ext.fin 1) obs) (1 / 2) = Ext.fin 0
      ∧ Ext.neg (ppf (Ext.neg (Ext.fin 1)) (support ⊥ ⊤ (Ext.neg (Ext.fin 1)) (Ext.neg (Ext.fin 0))
          (mapObs Ext.neg obs)) (1 - 1 / 2)) = Ext.fin 1 := ppf_mirror_fails_at_tie

/-- non-vacuity of the duality: the same sample at the level `1/3` (not a cdf value: the cdf takes the values 0, 1/2, 1). -/
example : ∀ y, cdf (support ⊥ ⊤ (Ext.fin 0) (Ext.fin 1) ([(Ext.fin 0, 1), (Ext.fin 1, 1)] : List (Ext × ℚ))) y ≠ 1 / 3 := by
  intro y
  rw [cdf_support]
  simp only [weightLE, total]
  split_ifs <;> norm_num

/-! ### the quantile curve: which term it is, duality, monotone in `n` (T1, T6, T7) -/

section
variable {E : Type} [LinearOrder E] [OrderBot E] [OrderTop E]

/-- **what the quantile tuning curve is**: `ppf` of the constructor model at the level `q^(1/n)` resp. `1 − (1−q)^(1/n)`
(the driver's `emp.ppf` op evaluates `ppf d.a supp level` with the level supplied by the harness from this formula), so
`quantile_curve_monotone_in_level` and the theorems below are statements about the quantile curve. -/
theorem qtc_is_ppf_at_level (a : E) (supp : List (E × ℝ)) (q n : ℝ) :
    qtcMax a supp q n = ppf a supp (q ^ (1 / n)) ∧ qtcMin a supp q n = ppf a supp (1 - (1 - q) ^ (1 / n)) :=
  ⟨rfl, rfl⟩

/-- **maximise quantile curve is non-decreasing in `n`** (real `0 < n ≤ m`, `q ∈ [0,1]`). -/
theorem quantile_curve_monotone_in_n (a b : E) (obs : List (E × ℝ)) (hnn : NonNeg obs) (htot : 0 < total obs)
    (q n m : ℝ) (hq0 : 0 ≤ q) (hq1 : q ≤ 1) (hn : 0 < n) (hnm : n ≤ m) :
    qtcMax a (support ⊥ ⊤ a b obs) q n ≤ qtcMax a (support ⊥ ⊤ a b obs) q m :=
  qtcMax_mono_n a b obs hnn htot q n m hq0 hq1 hn hnm

/-- **minimise quantile curve is non-increasing in `n`**. -/
theorem quantile_curve_monotone_in_n_minimize (a b : E) (obs : List (E × ℝ)) (hnn : NonNeg obs)
    (htot : 0 < total obs) (q n m : ℝ) (hq0 : 0 ≤ q) (hq1 : q ≤ 1) (hn : 0 < n) (hnm : n ≤ m) :
    qtcMin a (support ⊥ ⊤ a b obs) q m ≤ qtcMin a (support ⊥ ⊤ a b obs) q n :=
  qtcMin_anti_n a b obs hnn htot q n m hq0 hq1 hn hnm

/-- **`qtc_min(ys, q) = −qtc_max(−ys, 1−q)`** with bounds `(−b, −a)`, for `0 < q < 1`, real `n > 0`, away from exact ties
between the level and a cdf value. -/
theorem quantile_min_max_duality (ν : E → E) (hν : StrictAnti ν) (hinv : ∀ x, ν (ν x) = x)
    (a b : E) (obs : List (E × ℝ)) (hnn : NonNeg obs) (htot : 0 < total obs)
    (hbounds : ∀ p ∈ obs, a ≤ p.1 ∧ p.1 ≤ b) (q n : ℝ) (hq0 : 0 < q) (hq1 : q < 1) (hn : 0 < n)
    (hnotie : ∀ y, cdf (support ⊥ ⊤ a b obs) y ≠ 1 - (1 - q) ^ (1 / n)) :
    qtcMin a (support ⊥ ⊤ a b obs) q n
      = ν (qtcMax (ν b) (support ⊥ ⊤ (ν b) (ν a) (mapObs ν obs)) (1 - q) n) :=
  qtc_min_max_duality ν hν hinv a b obs hnn htot hbounds q n hq0 hq1 hn hnotie

end

/-- non-vacuity of `quantile_min_max_duality`: sample `{0, 1}`, `q = 1/3`, `n = 1` — the level `1/3` is not a cdf value
(the cdf takes the values 0, 1/2, 1). -/
example : ∀ y, cdf (support ⊥ ⊤ (Ext.fin 0) (Ext.fin 1) ([(Ext.fin 0, 1), (Ext.fin 1, 1)] : List (Ext × ℝ))) y
    ≠ 1 - (1 - 1 / 3 : ℝ) ^ ((1 : ℝ) / 1) := by
  intro y
  rw [cdf_support]
  simp only [weightLE, total, div_one, Real.rpow_one]
  split_ifs <;> norm_num

/-- real exponents `0 < n ≤ m`: the average curve is non-decreasing (maximise) / non-increasing (minimise) in `n` -/
theorem average_monotone_in_n_rpow (obs : List (ℝ × ℝ)) (hnn : NonNeg obs) (htot : 0 < total obs)
    (n m : ℝ) (hn : 0 < n) (hnm : n ≤ m) :
    avgSum (bestWeights (fun x => x ^ n) false (withPrev (cumN (atoms obs))))
      ≤ avgSum (bestWeights (fun x => x ^ m) false (withPrev (cumN (atoms obs)))) :=
  average_mono_max_rpow obs hnn htot n m hn hnm

theorem average_monotone_in_n_rpow_minimize (obs : List (ℝ × ℝ)) (hnn : NonNeg obs) (htot : 0 < total obs)
    (n m : ℝ) (hn : 0 < n) (hnm : n ≤ m) :
    avgSum (bestWeights (fun x => x ^ m) true (withPrev (cumN (atoms obs))))
      ≤ avgSum (bestWeights (fun x => x ^ n) true (withPrev (cumN (atoms obs)))) :=
  average_mono_min_rpow obs hnn htot n m hn hnm

/-- non-vacuity of the monotonicity theorems: a tied real sample with a zero weight -/
example : NonNeg ([(2, 1), (2, 1/2), (5, 0), (-1, 3)] : List (ℝ × ℝ))
    ∧ (0:ℝ) < total ([(2, 1), (2, 1/2), (5, 0), (-1, 3)] : List (ℝ × ℝ)) := by
  constructor
  · intro p hp
    simp only [List.mem_cons, List.not_mem_nil, or_false] at hp
    rcases hp with rfl | rfl | rfl | rfl <;> norm_num
  · norm_num [total]

/-! ### the terms the driver evaluates for `avg` and `v` -/

/-- the reply of the driver's `avg` op for a finitely-valued sample is the plain sum `Σ_j v_j·w_j` over the merged atoms
(padding atoms at −∞, a, b, +∞ carry weight exactly 0 and are filtered) — the quantity the theorems above are about. -/
theorem avg_op_driver (pw : ℚ → ℚ) (mn : Bool) (a b : Ext) (obs : List (ℚ × ℚ)) :
    wsum ((bestWeights pw mn (withPrev (cumN (support Ext.negInf Ext.posInf a b (mapObs Ext.fin obs))))).filter
        fun p => p.2 ≠ 0)
      = some (Ext.fin (avgSum (bestWeights pw mn (withPrev (cumN (atoms obs)))))) := avg_driver pw mn a b obs

/-- the reply of the driver's `v` op -/
theorem v_op_driver (ws : List ℚ) (rev : Bool) (ys : List ℚ) :
    wsum (((if rev then (Opda.Band.sort (ys.map Ext.fin)).reverse else Opda.Band.sort (ys.map Ext.fin)).zip ws).filter
        fun p => p.2 ≠ 0)
      = some (Ext.fin (avgSum ((if rev then (Opda.Band.sort ys).reverse else Opda.Band.sort ys).zip ws))) :=
  v_driver ws rev ys

/-- **`v` op = `avg` op on the driver's own terms**, every finite unweighted sample, any bounds, both `minimize` settings,
every `pw` (the driver uses `x ↦ xⁿ`). -/
theorem v_op_eq_avg_op_driver (pw : ℚ → ℚ) (mn : Bool) (a b : Ext) (ys : List ℚ) (hne : ys ≠ []) :
    wsum (((if mn then (Opda.Band.sort (ys.map Ext.fin)).reverse else Opda.Band.sort (ys.map Ext.fin)).zip
        (vWeights pw ys.length)).filter fun p => p.2 ≠ 0)
      = wsum ((bestWeights pw mn (withPrev (cumN (support Ext.negInf Ext.posInf a b
          ((ys.map Ext.fin).map fun y => (y, (1 : ℚ))))))).filter fun p => p.2 ≠ 0) :=
  v_driver_eq_avg_driver pw mn a b ys hne

/-! ### `v` op = `avg` op when observations may be `±∞` -/

/-- **the driver's sum of `weight × value` over extended values, all weights non-negative**: `nan` (`none`) when `+∞` and
`−∞` both carry weight, that infinity when one does, otherwise `Ext.fin` of the finite sum (`phiSum φ l = Σ φ(value)·weight`,
`phiPos`/`phiNeg` the indicators of `+∞`/`−∞`, `phiFin` the finite value and `0` at `±∞`). -/
theorem ext_sum_cases (l : List (Ext × ℚ)) (hn : NonNeg l) :
    wsum l = if 0 < phiSum phiPos l ∧ 0 < phiSum phiNeg l then none
      else if 0 < phiSum phiPos l then some .posInf
      else if 0 < phiSum phiNeg l then some .negInf
      else some (.fin (phiSum phiFin l)) := wsum_of_nonneg l hn

/-- the list the `avg` op sums (best-of-n weights over the padded support, exact zeros dropped) has non-negative weights, so
`ext_sum_cases` describes the reply: finite / `±∞` / `nan` according to which infinite atoms carry best-of-n weight. -/
theorem avg_op_driver_ext_value (pw : ℚ → ℚ) (hmono : ∀ x y, 0 ≤ x → x ≤ y → y ≤ 1 → pw x ≤ pw y) (mn : Bool)
    (a b : Ext) (ys : List Ext) (hne : ys ≠ []) :
    let bw := (bestWeights pw mn (withPrev (cumN (support Ext.negInf Ext.posInf a b
      (ys.map fun y => (y, (1 : ℚ))))))).filter fun p => p.2 ≠ 0
    NonNeg bw ∧
    wsum bw = if 0 < phiSum phiPos bw ∧ 0 < phiSum phiNeg bw then none
      else if 0 < phiSum phiPos bw then some .posInf
      else if 0 < phiSum phiNeg bw then some .negInf
      else some (.fin (phiSum phiFin bw)) := avg_driver_ext_value pw hmono mn a b ys hne

/-- **`v` op = `avg` op on the driver's own terms, observations in `Ext` (`±∞` allowed)**: every non-empty unweighted sample
(ties, any order), any bounds, both `minimize` settings, every `pw` non-decreasing on `[0,1]`: the two replies are equal —
both `some (Ext.fin _)` with the same finite part, both the same infinity, or both `none` (`nan`). -/
theorem v_op_eq_avg_op_driver_ext (pw : ℚ → ℚ) (hmono : ∀ x y, 0 ≤ x → x ≤ y → y ≤ 1 → pw x ≤ pw y) (mn : Bool)
    (a b : Ext) (ys : List Ext) (hne : ys ≠ []) :
    wsum (((if mn then (Opda.Band.sort ys).reverse else Opda.Band.sort ys).zip (vWeights pw ys.length)).filter
        fun p => p.2 ≠ 0)
      = wsum ((bestWeights pw mn (withPrev (cumN (support Ext.negInf Ext.posInf a b
          (ys.map fun y => (y, (1 : ℚ))))))).filter fun p => p.2 ≠ 0) :=
  v_driver_eq_avg_driver_ext pw hmono mn a b ys hne

/-- … for the function the driver uses, `x ↦ xⁿ`, every `n : ℕ` -/
theorem v_op_eq_avg_op_driver_ext_pow (n : ℕ) (mn : Bool) (a b : Ext) (ys : List Ext) (hne : ys ≠ []) :
    wsum (((if mn then (Opda.Band.sort ys).reverse else Opda.Band.sort ys).zip
        (vWeights (fun x : ℚ => x ^ n) ys.length)).filter fun p => p.2 ≠ 0)
      = wsum ((bestWeights (fun x : ℚ => x ^ n) mn (withPrev (cumN (support Ext.negInf Ext.posInf a b
          (ys.map fun y => (y, (1 : ℚ))))))).filter fun p => p.2 ≠ 0) :=
  v_driver_eq_avg_driver_ext_pow n mn a b ys hne

/-- the underlying identity, any linearly ordered value type `E`, any functional `φ` of the value, **any** `pw`:
`Σ_i φ(s[i])·vW_i = Σ_j φ(v_j)·(pw F_j − pw F_{j−1})` (maximise), and the decreasing arrangement against the survival form
(minimise) -/
theorem v_eq_average_through_functional {E α : Type} [LinearOrder E] [Field α] [LinearOrder α] [IsStrictOrderedRing α]
    (φ : E → α) (pw : α → α) (ys s : List E) (hne : ys ≠ []) (hperm : s.Perm ys) (hsorted : s.Pairwise (· ≤ ·)) :
    phiSum φ (s.zip (vWeights pw ys.length))
        = phiSum φ (bestWeights pw false (withPrev (cumN (atoms (ys.map fun y => (y, (1 : α)))))))
      ∧ phiSum φ (s.reverse.zip (vWeights pw ys.length))
        = phiSum φ (bestWeights pw true (withPrev (cumN (atoms (ys.map fun y => (y, (1 : α))))))) :=
  ⟨v_eq_average_phi_max φ pw ys s hperm hsorted, v_eq_average_phi_min φ pw ys s hne hperm hsorted⟩

/-- **monotonicity of `pw` cannot be dropped** once infinite observations are tied: for `pw` with `pw(1/2) = 1`, `0` elsewhere,
the sample `{+∞, +∞}` has V-weights `+1, −1` on `+∞` (reply `nan`) while its single atom carries weight `0` (finite reply) -/
theorem v_op_ne_avg_op_nonmonotone_pw :
    let pw : ℚ → ℚ := fun x => if x = 1 / 2 then 1 else 0
    wsum (((Opda.Band.sort [Ext.posInf, Ext.posInf]).zip (vWeights pw 2)).filter fun p => p.2 ≠ 0) = none
      ∧ wsum ((bestWeights pw false (withPrev (cumN (support Ext.negInf Ext.posInf Ext.negInf Ext.posInf
          ([Ext.posInf, Ext.posInf].map fun y => (y, (1 : ℚ))))))).filter fun p => p.2 ≠ 0) = some (.fin 0) :=
  v_ne_avg_nonmonotone

/-- non-vacuity and the three cases on concrete samples (`n = 2`, maximise, bounds `(−∞, +∞)`): `{1, 3}` ↦ finite `5/2`,
`{1, +∞}` ↦ `+∞`, `{−∞, 1, +∞}` ↦ `nan` — the `v` reply, equal to the `avg` reply by `v_op_eq_avg_op_driver_ext_pow` -/
example :
    wsum (((Opda.Band.sort [Ext.fin 1, Ext.fin 3]).zip (vWeights (fun x : ℚ => x ^ 2) 2)).filter fun p => p.2 ≠ 0)
        = some (.fin (5 / 2))
    ∧ wsum (((Opda.Band.sort [Ext.fin 1, Ext.posInf]).zip (vWeights (fun x : ℚ => x ^ 2) 2)).filter fun p => p.2 ≠ 0)
        = some .posInf
    ∧ wsum (((Opda.Band.sort [Ext.negInf, Ext.fin 1, Ext.posInf]).zip (vWeights (fun x : ℚ => x ^ 2) 3)).filter
        fun p => p.2 ≠ 0) = none := by
  refine ⟨?_, ?_, ?_⟩ <;> decide +kernel


end Opda.Props.C04

#opda_audit Opda.Props.C04
