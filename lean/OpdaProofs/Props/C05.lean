import OpdaProofs.Audit
import OpdaProofs.QuadLaw
import OpdaProofs.QuadInv
import OpdaProofs.QuadPdf
import OpdaProofs.QuadBeta
import OpdaProofs.QuadBetaMeasure
/-!
# C05 — `QuadraticDistribution` is the stated law

Property theorems only (the lemmas live in `OpdaProofs/Quad*.lean`).  They are about the polymorphic
model `Opda.Quad.{cdf, pdf, ppf, mean, variance}` of `OpdaModel/Quadratic.lean` read at `ℝ` (global
instance `OpdaProofs/RealInst.lean`: `pow = Real.rpow`); the correspondence check evaluates **the same
constants** at `Float` (`OpdaModel/FloatInst.lean`, `Drv/Quad.lean`), so what is proved and what is run
differ in the instance only.  Everything holds for every real `a < b` (resp. `a = b` for the point
mass), every positive integer `c` (no use is made of `c ≤ 10`) and both shapes.
-/
namespace Opda.Props.C05
open Opda Opda.Quad MeasureTheory ProbabilityTheory Set

/-! ## T1 — distribution function -/

/-- `cdf` is non-decreasing. -/
theorem cdf_monotone (d : Params ℝ) (hab : d.a < d.b) (hc : 0 < d.c) : Monotone (cdf d) :=
  cdf_mono d hab hc

/-- `cdf = 0` on `(−∞, a]`. -/
theorem cdf_zero_below (d : Params ℝ) (hab : d.a < d.b) (hc : 0 < d.c) (y : ℝ) (hy : y ≤ d.a) :
    cdf d y = 0 := cdf_below d hab hc y hy

/-- `cdf = 1` on `[b, ∞)`. -/
theorem cdf_one_above (d : Params ℝ) (hab : d.a < d.b) (hc : 0 < d.c) (y : ℝ) (hy : d.b ≤ y) :
    cdf d y = 1 := cdf_above d hab hc y hy

/-- `0 ≤ cdf ≤ 1`. -/
theorem cdf_range (d : Params ℝ) (hab : d.a < d.b) (hc : 0 < d.c) (y : ℝ) :
    0 ≤ cdf d y ∧ cdf d y ≤ 1 := cdf_mem d hab hc y

/-! ## T2 — quantile function -/

/-- `cdf (ppf q) = q` on `[0,1]`. -/
theorem cdf_ppf_eq (d : Params ℝ) (hab : d.a < d.b) (hc : 0 < d.c) (q : ℝ) (hq0 : 0 ≤ q) (hq1 : q ≤ 1) :
    cdf d (ppf d q) = q := cdf_ppf d hab hc q hq0 hq1

/-- `ppf (cdf y) = y` on `[a,b]` (in exact arithmetic the point *is* `y`; the property only asks for a
point with the same cdf value). -/
theorem ppf_cdf_eq (d : Params ℝ) (hab : d.a < d.b) (hc : 0 < d.c) (y : ℝ) (hya : d.a ≤ y) (hyb : y ≤ d.b) :
    ppf d (cdf d y) = y := ppf_cdf d hab hc y hya hyb

/-- `ppf` is non-decreasing (for every `a ≤ b`, including the point mass). -/
theorem ppf_monotone (d : Params ℝ) (hab : d.a ≤ d.b) (hc : 0 < d.c) : Monotone (ppf d) :=
  ppf_mono d hab hc

/-- `ppf` takes values in `[a,b]`. -/
theorem ppf_range (d : Params ℝ) (hab : d.a ≤ d.b) (hc : 0 < d.c) (q : ℝ) :
    d.a ≤ ppf d q ∧ ppf d q ≤ d.b := ppf_mem d hab hc q

/-- `ppf 0 = a`, `ppf 1 = b`. -/
theorem ppf_endpoints (d : Params ℝ) (hc : 0 < d.c) : ppf d 0 = d.a ∧ ppf d 1 = d.b :=
  ⟨ppf_zero d hc, ppf_one d hc⟩

/-- `ppf` maps `[0,1]` **onto** `[a,b]`. -/
theorem ppf_onto (d : Params ℝ) (hab : d.a < d.b) (hc : 0 < d.c) :
    SurjOn (ppf d) (Icc 0 1) (Icc d.a d.b) := ppf_surjOn d hab hc

/-! ## T3 — the law, and the Beta family -/

/-- convex: `P[a + (b−a)·U^{2/c} ≤ y] = cdf y` for `U` uniform on `(0,1]`. -/
theorem law_of_convex (d : Params ℝ) (hab : d.a < d.b) (hc : 0 < d.c) (hcv : d.convex = true) (y : ℝ) :
    volume {u : ℝ | u ∈ Ioc (0:ℝ) 1 ∧ d.a + (d.b - d.a) * u ^ ((2:ℝ) / d.c) ≤ y}
      = ENNReal.ofReal (cdf d y) := law_convex d hab hc hcv y

/-- concave: `P[b − (b−a)·U^{2/c} ≤ y] = cdf y` for `U` uniform on `[0,1)`. -/
theorem law_of_concave (d : Params ℝ) (hab : d.a < d.b) (hc : 0 < d.c) (hcv : d.convex = false) (y : ℝ) :
    volume {u : ℝ | u ∈ Ico (0:ℝ) 1 ∧ d.b - (d.b - d.a) * u ^ ((2:ℝ) / d.c) ≤ y}
      = ENNReal.ofReal (cdf d y) := law_concave d hab hc hcv y

/-- convex: `cdf y` is Mathlib's `Beta(c/2, 1)` distribution function at `(y − a)/(b − a)`, every real `y`. -/
theorem cdf_is_beta_convex (d : Params ℝ) (hab : d.a < d.b) (hc : 0 < d.c) (hcv : d.convex = true) (y : ℝ) :
    betaMeasure ((d.c:ℝ) / 2) 1 (Iic ((y - d.a) / (d.b - d.a))) = ENNReal.ofReal (cdf d y) :=
  cdf_eq_betaMeasure_convex d hab hc hcv y

/-- concave: `cdf y` is Mathlib's `Beta(1, c/2)` distribution function at `(y − a)/(b − a)`, every real `y`. -/
theorem cdf_is_beta_concave (d : Params ℝ) (hab : d.a < d.b) (hc : 0 < d.c) (hcv : d.convex = false) (y : ℝ) :
    betaMeasure 1 ((d.c:ℝ) / 2) (Iic ((y - d.a) / (d.b - d.a))) = ENNReal.ofReal (cdf d y) :=
  cdf_eq_betaMeasure_concave d hab hc hcv y

/-! ## T4 — density -/

/-- inside `(a,b)` the cdf is differentiable and its derivative is `pdf`. -/
theorem pdf_is_derivative (d : Params ℝ) (hab : d.a < d.b) (y : ℝ) (h1 : d.a < y) (h2 : y < d.b) :
    HasDerivAt (cdf d) (pdf d y) y := hasDerivAt_cdf d hab y h1 h2

/-- `pdf ≥ 0`. -/
theorem pdf_nonnegative (d : Params ℝ) (hab : d.a < d.b) (y : ℝ) : 0 ≤ pdf d y := pdf_nonneg d hab y

/-- `pdf = 0` outside `[a,b]`. -/
theorem pdf_zero_outside (d : Params ℝ) (hab : d.a < d.b) (y : ℝ) (h : y < d.a ∨ d.b < y) :
    pdf d y = 0 := pdf_outside d hab y h

/-- `∫_ℝ pdf = 1`. -/
theorem pdf_integrates_to_one (d : Params ℝ) (hab : d.a < d.b) (hc : 0 < d.c) : ∫ y, pdf d y = 1 :=
  integral_univ_pdf d hab hc

/-! ## T5 — moments -/

/-- the `mean` attribute is `∫ y·pdf(y) dy`. -/
theorem mean_is_first_moment (d : Params ℝ) (hab : d.a < d.b) (hc : 0 < d.c) :
    ∫ y, y * pdf d y = mean d := integral_univ_mul_pdf d hab hc

/-- the `variance` attribute is `∫ (y − mean)²·pdf(y) dy`. -/
theorem variance_is_second_central_moment (d : Params ℝ) (hab : d.a < d.b) (hc : 0 < d.c) :
    ∫ y, (y - mean d) ^ 2 * pdf d y = variance d := integral_univ_sq_mul_pdf d hab hc

/-! ## T6 — the point mass `a = b` -/

/-- cdf of the point mass: the unit step at `a`. -/
theorem pointMass_cdf (d : Params ℝ) (hab : d.a = d.b) (y : ℝ) :
    cdf d y = if y < d.a then 0 else 1 := cdf_pointMass d hab y

/-- ppf of the point mass: constantly `a`. -/
theorem pointMass_ppf (d : Params ℝ) (hab : d.a = d.b) (q : ℝ) : ppf d q = d.a := ppf_pointMass d hab q

/-- density of the point mass away from the atom (at the atom the code returns `inf`, which the `Float`
reading of the model reproduces as `1/0`; over `ℝ` that value carries no meaning and nothing is claimed). -/
theorem pointMass_pdf (d : Params ℝ) (hab : d.a = d.b) (y : ℝ) (hy : y ≠ d.a) : pdf d y = 0 :=
  pdf_pointMass d hab y hy

/-- moments of the point mass. -/
theorem pointMass_moments (d : Params ℝ) (hab : d.a = d.b) : mean d = d.a ∧ variance d = 0 :=
  ⟨mean_pointMass d hab, variance_pointMass d hab⟩

/-- non-vacuity: the hypotheses are satisfiable (e.g. `Q(0, 1, 3)` convex), and the theorems then say
something concrete: `cdf(ppf(1/2)) = 1/2`. -/
example : cdf ({ a := 0, b := 1, c := 3, convex := true } : Params ℝ)
    (ppf { a := 0, b := 1, c := 3, convex := true } (1/2)) = 1/2 :=
  cdf_ppf_eq _ (by norm_num) (by norm_num) _ (by norm_num) (by norm_num)

end Opda.Props.C05

#opda_audit Opda.Props.C05
