import OpdaProofs.Audit
import OpdaProofs.BetaCheck
import OpdaProofs.BetaHdCov
import OpdaProofs.BetaBisect
import OpdaProofs.Bisect
import OpdaProofs.UtilsExtra
import OpdaProofs.BetaHdV
/-!
# C15 — beta interval and coverage helpers

Property theorems only (lemmas in `OpdaProofs/{BetaBinom,BetaCdf,HdiBound,BetaCheck,BetaHdCov,BetaHdV,BetaBisect,Small,UtilsExtra}.lean`).

For the order-statistic parameters `(a,b) = (i, n+1−i)` the Beta(a,b) distribution function is the
binomial tail polynomial `G a b x = Σ_{j≥a} C(m,j) x^j (1−x)^{m−j}`, `m = a+b−1` — exact in ℚ
(`beta_cdf_*`).  The implementation's end points and coverages are therefore checked *exactly*:

* `et_check_sound`, `hdi_mass_check_sound` — what an accepted mass/tail check proves;
* `hdi_certificate_sound`, `hdi_check_sound` — an accepted optimality certificate proves that **no
  interval `[u,v] ⊆ [0,1]` of at least the same mass is shorter by more than the slack** (every `u,v`:
  the quantifier is closed by `level_bound` + unimodality, nothing is sampled); `hdi_shortest` is the
  classical exact statement (equal end densities ⇒ shortest);
* `equal_tailed`, `et_nested` — mass, equal tails, `x ∈ I(c) ↔ cov(x) ≤ c`, `cov(end point) = c`, nestedness,
  for any strictly increasing distribution function with an inverse (scipy's `beta.ppf` is *checked*
  through the exact polynomial, not trusted);
* `bisection_bracket`, `bisection_width` — the two bisection loops keep a nested bracket of width
  `≤ (hi−lo)/2^k` whatever the floating-point density comparisons decide.

`hd_coverage_bracket_left/right`: the exact bracket `beta.hdcov` returns contains `G(y*) − G(x)` for the end
`y*` of the level set `{f ≥ f x}`, which by `hd_level_set` is the coverage of the smallest highest-density
interval containing `x` — the Spec value `beta_highest_density_coverage` is compared with.

**The highest-density coverage function itself** (`OpdaProofs/BetaHdV.lean`), for integers `a, b ≥ 1` not both `1`:
`hdcov a b x` is *defined* as the Beta(a,b)-mass of the level set `{f ≥ f x}` of the density `f = s^{a−1}(1−s)^{b−1}` —
`[x, partnerR x]` left of the mode `m`, `[partnerL x, x]` right of it, the far end being the sup/inf of the level set on the
other side of the mode (`partner_spec`, `hd_level_set_interval`, `hdcov_spec`); the density is strictly unimodal
(`density_strictly_unimodal`); for `a, b ≥ 2` the far end is the unique point across the mode with equal density
(`hd_partner_equal_density`) and the level set is the shortest interval of its mass
(`hd_coverage_is_mass_of_shortest_interval_left/right`: `hdcov` *is* the coverage of the smallest highest-density interval
containing `x`).  **V shape** (`hd_coverage_v_shaped`): `hdcov a b` is strictly decreasing on `[0,m]`, strictly increasing on
`[m,1]`, `0` at `m`, with values in `[0,1]`; `hdcov 0 = 1` (`a ≥ 2`), `hdcov 1 = 1` (`b ≥ 2`) (`hd_coverage_ends`); for `a = 1`
it is `G`, for `b = 1` it is `1 − G` (`hd_coverage_monotone_cases`); it is measurable (`hd_coverage_measurable`).  The
hypotheses about `y*` in `hd_coverage_bracket_left/right` are discharged: the driver's exact bracket contains `hdcov a b x`
(`hd_coverage_bracket_contains_hdcov`).  Consumed by C01 (`ld_highest_density_cdf_continuous`).  Not proved: continuity of
`hdcov` in `x` (not needed).

Compared only (correspondence, at the property's tolerances): the *values* the library returns (they come
from scipy's `beta.ppf/cdf` and float bisections) against those exact quantities, the inverse relation to
`2e-6`, monotonicity on grids, broadcasting.
-/
namespace Opda.Props.C15
open Opda.BetaBinom Opda.CP Opda.BetaCheck Opda.Hdi

/-! ### the Beta(a,b) distribution function is the binomial tail polynomial -/

/-- derivative of the tail in `x`: the Beta(k+1, n−k) density `n·C(n−1,k)·x^k (1−x)^{n−1−k}` -/
theorem beta_cdf_deriv (n k : ℕ) (x : ℝ) :
    HasDerivAt (fun p : ℝ => tail n (k+1) p)
      ((n : ℝ) * (Nat.choose (n - 1) k : ℝ) * x ^ k * (1 - x) ^ (n - 1 - k)) x :=
  Opda.BetaCdf.hasDerivAt_tail_succ n k x

/-- … hence the tail is the integral of that density (fundamental theorem of calculus) … -/
theorem beta_cdf_eq_integral (a b : ℕ) (ha : 0 < a) (hb : 0 < b) (u v : ℝ) :
    G a b v - G a b u = ∫ s in u..v, (betaNorm a b : ℝ) * (s ^ (a - 1) * (1 - s) ^ (b - 1)) :=
  mass_eq_integral a b ha hb u v

/-- … which integrates to one over `[0,1]`: `betaNorm a b = (a+b−1)·C(a+b−2,a−1)` is `1/B(a,b)`. -/
theorem beta_density_normalised (a b : ℕ) (ha : 0 < a) (hb : 0 < b) :
    ∫ s in (0:ℝ)..1, (betaNorm a b : ℝ) * (s ^ (a - 1) * (1 - s) ^ (b - 1)) = 1 :=
  integral_density_unit a b ha hb

/-- the exact-ℚ term the driver evaluates is that distribution function -/
theorem beta_cdf_model_exact (a b : ℕ) (x : ℚ) (h0 : 0 ≤ x) (h1 : x ≤ 1) :
    ((betaCdf a b x : ℚ) : ℝ) = G a b (x : ℝ) := betaCdf_cast a b x h0 h1

/-- `G` is non-decreasing on `[0,1]`, `0` at `0` and `1` at `1` -/
theorem beta_cdf_mono (a b : ℕ) (s s' : ℝ) (h0 : 0 ≤ s) (hss : s ≤ s') (h1 : s' ≤ 1) :
    G a b s ≤ G a b s' := G_mono a b s s' h0 hss h1
theorem beta_cdf_ends (a b : ℕ) (ha : 0 < a) (hb : 0 < b) : G a b 0 = 0 ∧ G a b 1 = 1 :=
  ⟨G_zero a b ha, G_one a b hb⟩

/-- the density `s^α (1−s)^β` increases up to the mode `α/(α+β)` and decreases after it -/
theorem density_unimodal (α β : ℕ) (hpos : 0 < α + β) :
    MonotoneOn (g α β) (Set.Icc 0 ((α : ℝ) / ((α : ℝ) + β)))
      ∧ AntitoneOn (g α β) (Set.Icc ((α : ℝ) / ((α : ℝ) + β)) 1) := ⟨g_mono α β hpos, g_anti α β hpos⟩

/-! ### equal-tailed interval and its coverage function -/

/-- **C15-T1**: for a strictly increasing `G` with inverse `Ginv` on `[0,1]`, the interval
`[Ginv((1−c)/2), Ginv((1+c)/2)]` has mass `c`, equal tails, `x ≤ y`, contains `t` iff
`2|½ − G t| ≤ c`, and the coverage function takes the value `c` at both end points. -/
theorem equal_tailed (G Ginv : ℝ → ℝ) (hmono : StrictMono G)
    (hinv : ∀ p, 0 ≤ p → p ≤ 1 → G (Ginv p) = p) (c : ℝ) (hc0 : 0 ≤ c) (hc1 : c ≤ 1) :
    let x := Ginv ((1 - c) / 2)
    let y := Ginv ((1 + c) / 2)
    G y - G x = c ∧ G x = 1 - G y ∧ x ≤ y
      ∧ (∀ t, (x ≤ t ∧ t ≤ y) ↔ 2 * |1 / 2 - G t| ≤ c)
      ∧ 2 * |1 / 2 - G x| = c ∧ 2 * |1 / 2 - G y| = c :=
  Opda.Small.equal_tailed G Ginv hmono hinv c hc0 hc1

/-- equal-tailed intervals are nested in the coverage -/
theorem et_nested (G Ginv : ℝ → ℝ) (hmono : StrictMono G)
    (hinv : ∀ p, 0 ≤ p → p ≤ 1 → G (Ginv p) = p) (c c' : ℝ) (hc0 : 0 ≤ c) (hcc : c ≤ c') (hc1 : c' ≤ 1)
    (t : ℝ) (ht : Ginv ((1 - c) / 2) ≤ t ∧ t ≤ Ginv ((1 + c) / 2)) :
    Ginv ((1 - c') / 2) ≤ t ∧ t ≤ Ginv ((1 + c') / 2) :=
  Opda.UtilsExtra.et_nested G Ginv hmono hinv c c' hc0 hcc hc1 t ht

/-- what an accepted `beta.check_et` proves about the returned end points -/
theorem et_check_sound (a b : ℕ) (c x y tol : ℚ) (h : etCheck a b c x y tol = true) :
    0 ≤ (x : ℝ) ∧ (x : ℝ) ≤ y ∧ (y : ℝ) ≤ 1
      ∧ |G a b y - G a b x - c| ≤ tol ∧ |G a b x - (1 - G a b y)| ≤ tol := etCheck_sound a b c x y tol h

/-! ### highest-density interval -/

/-- what the mass part of an accepted `beta.check_hdi` proves -/
theorem hdi_mass_check_sound (a b : ℕ) (c x y tol otol : ℚ) (h : hdiMassCheck a b c x y tol otol = true) :
    0 ≤ (x : ℝ) ∧ (x : ℝ) ≤ 1 ∧ 0 ≤ (y : ℝ) ∧ (y : ℝ) ≤ 1 ∧ (x : ℝ) ≤ y + otol
      ∧ |G a b y - G a b x - c| ≤ tol := hdiMassCheck_sound a b c x y tol otol h

/-- **C15-T2, robust form** — soundness of the optimality certificate: if `hdiCertOK` accepts
`(x₁,x₂,y₂,y₁,t)` for the returned `[x,y]`, then **every** interval `[u,v] ⊆ [0,1]` whose Beta(a,b) mass is
at least that of `[x,y]` has length at least `(y − x) − slack`. -/
theorem hdi_certificate_sound (a b : ℕ) (x y x1 x2 y2 y1 t slack : ℚ)
    (h : hdiCertOK a b x y x1 x2 y2 y1 t slack = true)
    (u v : ℝ) (hu : 0 ≤ u) (huv : u ≤ v) (hv : v ≤ 1)
    (hmass : G a b (y : ℝ) - G a b (x : ℝ) ≤ G a b v - G a b u) :
    ((y : ℝ) - (x : ℝ)) - (slack : ℝ) ≤ v - u :=
  hdiCertOK_sound a b x y x1 x2 y2 y1 t slack h u v hu huv hv hmass

/-- the same for the checker with its built-in search (`beta.check_hdi`) -/
theorem hdi_check_sound (a b : ℕ) (x y slack w0 : ℚ) (h : hdiCheck a b x y slack w0 = true)
    (u v : ℝ) (hu : 0 ≤ u) (huv : u ≤ v) (hv : v ≤ 1)
    (hmass : G a b (y : ℝ) - G a b (x : ℝ) ≤ G a b v - G a b u) :
    ((y : ℝ) - (x : ℝ)) - (slack : ℝ) ≤ v - u := hdiCheck_sound a b x y slack w0 h u v hu huv hv hmass

/-- a counter-example reported by the check (`hdiWitness`) really is an interval of at least the same
mass that is shorter by more than the slack -/
theorem hdi_witness_sound (a b : ℕ) (x y u v slack : ℚ) (hx : 0 ≤ x ∧ x ≤ 1) (hy : 0 ≤ y ∧ y ≤ 1)
    (h : hdiWitness a b x y u v slack = true) :
    0 ≤ (u : ℝ) ∧ (u : ℝ) ≤ v ∧ (v : ℝ) ≤ 1 ∧ G a b y - G a b x ≤ G a b v - G a b u
      ∧ (v : ℝ) - u < ((y : ℝ) - x) - slack := hdiWitness_sound a b x y u v slack hx hy h

/-- **C15-T2, classical form**: unimodal density, `m ∈ [x,y]`, equal end densities ⇒ no interval of at
least the same mass is shorter. -/
theorem hdi_shortest (f : ℝ → ℝ) (hf : Continuous f) (m x y : ℝ) (h0 : 0 ≤ x) (hxm : x ≤ m) (hmy : m ≤ y)
    (h1 : y ≤ 1) (hup : MonotoneOn f (Set.Icc 0 m)) (hdown : AntitoneOn f (Set.Icc m 1))
    (heq : f x = f y) (hpos : 0 < f x)
    (u v : ℝ) (hu : 0 ≤ u) (huv : u ≤ v) (hv : v ≤ 1)
    (hmass : ∫ s in x..y, f s ≤ ∫ s in u..v, f s) : y - x ≤ v - u :=
  Opda.UtilsExtra.hdi_shortest f hf m x y h0 hxm hmy h1 hup hdown heq hpos u v hu huv hv hmass

/-- level sets: with `f y = f x` across the mode, the density is `≥ f x` on `[x,y]` and `≤ f x` outside, so
`[x,y]` is the smallest highest-density interval containing `x` and its coverage is `G y − G x` (the
quantity `beta.hdcov` brackets exactly and `beta_highest_density_coverage` is compared with) -/
theorem hd_level_set (α β : ℕ) (hpos : 0 < α + β) (x y : ℝ) (h0 : 0 ≤ x)
    (hxm : x ≤ (α : ℝ) / ((α : ℝ) + β)) (hmy : (α : ℝ) / ((α : ℝ) + β) ≤ y) (h1 : y ≤ 1)
    (heq : g α β x = g α β y) :
    (∀ s, x ≤ s → s ≤ y → g α β x ≤ g α β s)
      ∧ (∀ s, 0 ≤ s → s ≤ 1 → (s ≤ x ∨ y ≤ s) → g α β s ≤ g α β x) :=
  Opda.UtilsExtra.hd_level_set α β hpos x y h0 hxm hmy h1 heq

/-- soundness of `beta.hdcov` (the Spec value `beta_highest_density_coverage` is compared with), `x` left of
the mode: the exact bracket contains `G y* − G x` for the right end `y*` of the level set `{f ≥ f x}` -/
theorem hd_coverage_bracket_left (a b : ℕ) (ha : 0 < a) (hb : 0 < b) (hab : 2 < a + b) (x : ℚ) (steps : ℕ)
    (hx0 : 0 ≤ x) (hxm : x < modeQ a b) (ystar : ℝ)
    (hy0 : ((modeQ a b : ℚ) : ℝ) ≤ ystar) (hy1 : ystar ≤ 1)
    (hin : ∀ s : ℝ, ((modeQ a b : ℚ) : ℝ) ≤ s → s ≤ ystar → g (a - 1) (b - 1) (x : ℝ) ≤ g (a - 1) (b - 1) s)
    (hout : ∀ s : ℝ, ystar < s → s ≤ 1 → g (a - 1) (b - 1) s < g (a - 1) (b - 1) (x : ℝ)) :
    (((hdCoverageBracket a b x steps).1 : ℚ) : ℝ) ≤ G a b ystar - G a b (x : ℝ)
      ∧ G a b ystar - G a b (x : ℝ) ≤ (((hdCoverageBracket a b x steps).2 : ℚ) : ℝ) :=
  hdCoverageBracket_sound_left a b ha hb hab x steps hx0 hxm ystar hy0 hy1 hin hout

/-- … and right of the mode -/
theorem hd_coverage_bracket_right (a b : ℕ) (ha : 0 < a) (hb : 0 < b) (hab : 2 < a + b) (x : ℚ) (steps : ℕ)
    (hx1 : x ≤ 1) (hmx : modeQ a b < x) (ystar : ℝ)
    (hy0 : 0 ≤ ystar) (hy1 : ystar ≤ ((modeQ a b : ℚ) : ℝ))
    (hin : ∀ s : ℝ, ystar ≤ s → s ≤ ((modeQ a b : ℚ) : ℝ) → g (a - 1) (b - 1) (x : ℝ) ≤ g (a - 1) (b - 1) s)
    (hout : ∀ s : ℝ, 0 ≤ s → s < ystar → g (a - 1) (b - 1) s < g (a - 1) (b - 1) (x : ℝ)) :
    (((hdCoverageBracket a b x steps).1 : ℚ) : ℝ) ≤ G a b (x : ℝ) - G a b ystar
      ∧ G a b (x : ℝ) - G a b ystar ≤ (((hdCoverageBracket a b x steps).2 : ℚ) : ℝ) :=
  hdCoverageBracket_sound_right a b ha hb hab x steps hx1 hmx ystar hy0 hy1 hin hout

/-- the general weak-duality bound behind both -/
theorem hdi_level_bound {f : ℝ → ℝ} (hf : Continuous f) (T C1 C2 x1 x2 y2 y1 : ℝ)
    (h0 : 0 ≤ x1) (h12 : x1 ≤ x2) (h23 : x2 ≤ y2) (h34 : y2 ≤ y1) (h41 : y1 ≤ 1)
    (hC1 : C1 ≤ T) (hC2 : C2 ≤ T)
    (hA : 0 < x1 → ∀ s ∈ Set.Icc 0 x1, f s ≤ T) (hB : y1 < 1 → ∀ s ∈ Set.Icc y1 1, f s ≤ T)
    (hC : ∀ s ∈ Set.Icc x1 x2, C1 ≤ f s) (hD : ∀ s ∈ Set.Icc x2 y2, T ≤ f s)
    (hE : ∀ s ∈ Set.Icc y2 y1, C2 ≤ f s)
    (u v : ℝ) (hu : 0 ≤ u) (huv : u ≤ v) (hv : v ≤ 1) :
    (∫ s in u..v, f s) - T * (v - u)
      ≤ (∫ s in x1..y1, f s) - C1 * (x2 - x1) - T * (y2 - x2) - C2 * (y1 - y2) :=
  level_bound hf T C1 C2 x1 x2 y2 y1 h0 h12 h23 h34 h41 hC1 hC2 hA hB hC hD hE u v hu huv hv

/-- non-vacuity: the exact highest-density interval of Beta(2,2) of mass `11/16` is `[1/4, 3/4]`
(equal end densities); the certificate with `t = f(1/4)` is accepted with zero slack. -/
example : hdiCertOK 2 2 (1/4) (3/4) (1/4) (1/4) (3/4) (3/4) (3/16) 0 = true := by decide +kernel
example : etCheck 2 2 (11/16) (1/4) (3/4) 0 = true := by decide +kernel

/-! ### the highest-density coverage function `hdcov` (what `beta_highest_density_coverage` computes) -/
section hdcov
open Opda.BetaHdV

/-- the mode of the density `s^α (1−s)^β` -/
theorem mode_spec (α β : ℕ) : mode α β = (α : ℝ) / ((α : ℝ) + β) := rfl

/-- the density is **strictly** increasing up to the mode and **strictly** decreasing after it (for `α = 0` / `β = 0` the
mode is the end point `0` / `1` and the density is strictly monotone on `[0,1]`) -/
theorem density_strictly_unimodal (α β : ℕ) (hpos : 0 < α + β) :
    StrictMonoOn (g α β) (Set.Icc 0 (mode α β)) ∧ StrictAntiOn (g α β) (Set.Icc (mode α β) 1) :=
  ⟨g_strictMonoOn α β hpos, g_strictAntiOn α β hpos⟩

/-- the far ends of the level set `{f ≥ f x}`: `partnerR x = sup {t ∈ [m,1] | f x ≤ f t}`,
`partnerL x = inf {t ∈ [0,m] | f x ≤ f t}` -/
theorem partner_spec (α β : ℕ) (x : ℝ) :
    partnerR α β x = sSup {t | t ∈ Set.Icc (mode α β) 1 ∧ g α β x ≤ g α β t}
      ∧ partnerL α β x = sInf {t | t ∈ Set.Icc 0 (mode α β) ∧ g α β x ≤ g α β t} := ⟨rfl, rfl⟩

/-- **the level set of the density through `x`**: for `x ∈ [0,m]`, `partnerR x ∈ [m,1]` and inside `[0,1]`
`{s | f x ≤ f s} = [x, partnerR x]`; for `x ∈ [m,1]`, `partnerL x ∈ [0,m]` and `{s | f x ≤ f s} = [partnerL x, x]` -/
theorem hd_level_set_interval (α β : ℕ) (hpos : 0 < α + β) :
    (∀ x ∈ Set.Icc 0 (mode α β), partnerR α β x ∈ Set.Icc (mode α β) 1
        ∧ ∀ s ∈ Set.Icc (0:ℝ) 1, g α β x ≤ g α β s ↔ x ≤ s ∧ s ≤ partnerR α β x)
      ∧ (∀ x ∈ Set.Icc (mode α β) 1, partnerL α β x ∈ Set.Icc 0 (mode α β)
        ∧ ∀ s ∈ Set.Icc (0:ℝ) 1, g α β x ≤ g α β s ↔ partnerL α β x ≤ s ∧ s ≤ x) :=
  ⟨fun _ hx => ⟨(partnerR_mem α β hpos hx).1, fun _ hs => levelSet_left α β hpos hx hs⟩,
   fun _ hx => ⟨(partnerL_mem α β hpos hx).1, fun _ hs => levelSet_right α β hpos hx hs⟩⟩

/-- **equal end densities** (`a, b ≥ 2`, i.e. `α, β ≥ 1`): the far end of the level set is *the* point across the mode with
the density of `x` — the hypothesis `heq` of `hd_level_set` and `hdi_shortest` -/
theorem hd_partner_equal_density (α β : ℕ) (hα : 0 < α) (hβ : 0 < β) :
    (∀ x ∈ Set.Icc 0 (mode α β), g α β (partnerR α β x) = g α β x
        ∧ ∀ y ∈ Set.Icc (mode α β) 1, g α β y = g α β x → y = partnerR α β x)
      ∧ (∀ x ∈ Set.Icc (mode α β) 1, g α β (partnerL α β x) = g α β x
        ∧ ∀ y ∈ Set.Icc 0 (mode α β), g α β y = g α β x → y = partnerL α β x) :=
  ⟨fun _ hx => ⟨g_partnerR α β hβ hx, fun _ hy h => partnerR_unique α β hβ hx hy h⟩,
   fun _ hx => ⟨g_partnerL α β hα hx, fun _ hy h => partnerL_unique α β hα hx hy h⟩⟩

/-- **definition of `hdcov`**: on `[0,1]` it is the Beta(a,b)-mass of the level set `{f ≥ f x}`, `f = g (a−1) (b−1)`:
`G (partnerR x) − G x` for `x ≤ m`, `G x − G (partnerL x)` for `x ≥ m` (both `0` at `m`); outside `[0,1]` it is continued
constantly (`hdcov x = hdcov (max 0 (min x 1))`) -/
theorem hdcov_spec (a b : ℕ) (ha : 0 < a) (hb : 0 < b) (hab : 2 < a + b) (x : ℝ) :
    (x ∈ Set.Icc 0 (mode (a - 1) (b - 1)) → hdcov a b x = G a b (partnerR (a - 1) (b - 1) x) - G a b x)
      ∧ (x ∈ Set.Icc (mode (a - 1) (b - 1)) 1 → hdcov a b x = G a b x - G a b (partnerL (a - 1) (b - 1) x))
      ∧ hdcov a b x = hdcov a b (max 0 (min x 1)) :=
  ⟨fun hx => (hdcov_of_mem a b ⟨hx.1, hx.2.trans (mode_le_one _ _)⟩).trans (hdcovRaw_left a b hx.2),
   fun hx => (hdcov_of_mem a b ⟨(mode_nonneg _ _).trans hx.1, hx.2⟩).trans (hdcovRaw_right' a b hab ha hb hx.1),
   (hdcov_of_mem a b (clamp01_mem x)).symm⟩

/-- **`hdcov` is the coverage of the smallest highest-density interval containing `x`** (`a, b ≥ 2`, `0 < x ≤ m`): the
level set `[x, partnerR x]` has mass `hdcov a b x`, and every interval `[u,v] ⊆ [0,1]` of at least that mass is at least as
long -/
theorem hd_coverage_is_mass_of_shortest_interval_left (a b : ℕ) (ha : 2 ≤ a) (hb : 2 ≤ b) (x : ℝ) (hx0 : 0 < x)
    (hxm : x ≤ mode (a - 1) (b - 1)) (u v : ℝ) (hu : 0 ≤ u) (huv : u ≤ v) (hv : v ≤ 1)
    (hmass : hdcov a b x ≤ G a b v - G a b u) : partnerR (a - 1) (b - 1) x - x ≤ v - u :=
  hd_interval_shortest_left a b ha hb hx0 hxm u v hu huv hv
    ((hdcov_of_mem a b ⟨hx0.le, hxm.trans (mode_le_one _ _)⟩).symm.trans_le hmass)

/-- … and for `m ≤ x < 1` -/
theorem hd_coverage_is_mass_of_shortest_interval_right (a b : ℕ) (ha : 2 ≤ a) (hb : 2 ≤ b) (x : ℝ)
    (hmx : mode (a - 1) (b - 1) ≤ x) (hx1 : x < 1) (u v : ℝ) (hu : 0 ≤ u) (huv : u ≤ v) (hv : v ≤ 1)
    (hmass : hdcov a b x ≤ G a b v - G a b u) : x - partnerL (a - 1) (b - 1) x ≤ v - u :=
  hd_interval_shortest_right a b ha hb hmx hx1 u v hu huv hv
    ((hdcov_of_mem a b ⟨(mode_nonneg _ _).trans hmx, hx1.le⟩).symm.trans_le hmass)

/-- **C15: the highest-density coverage function is V-shaped about the mode** — for integers `a, b ≥ 1`, not both `1`:
strictly decreasing on `[0,m]`, strictly increasing on `[m,1]`, `0` at the mode, values in `[0,1]` -/
theorem hd_coverage_v_shaped (a b : ℕ) (ha : 0 < a) (hb : 0 < b) (hab : 2 < a + b) :
    StrictAntiOn (hdcov a b) (Set.Icc 0 (mode (a - 1) (b - 1)))
      ∧ StrictMonoOn (hdcov a b) (Set.Icc (mode (a - 1) (b - 1)) 1)
      ∧ hdcov a b (mode (a - 1) (b - 1)) = 0
      ∧ ∀ x, 0 ≤ hdcov a b x ∧ hdcov a b x ≤ 1 :=
  ⟨hdcov_strictAntiOn a b hab ha hb, hdcov_strictMonoOn a b hab ha hb,
   (hdcov_of_mem a b ⟨mode_nonneg _ _, mode_le_one _ _⟩).trans (hdcovRaw_mode a b hab ha hb),
   fun x => hdcovRaw_mem_unit a b hab ha hb (clamp01_mem x)⟩

/-- end values: `hdcov 0 = 1` for `a ≥ 2`, `hdcov 1 = 1` for `b ≥ 2` (the density vanishes there: the level set is `[0,1]`) -/
theorem hd_coverage_ends (a b : ℕ) :
    (2 ≤ a → 0 < b → hdcov a b 0 = 1) ∧ (0 < a → 2 ≤ b → hdcov a b 1 = 1) :=
  ⟨fun ha hb => (hdcov_of_mem a b ⟨le_rfl, zero_le_one⟩).trans (hdcovRaw_zero a b ha hb),
   fun ha hb => (hdcov_of_mem a b ⟨zero_le_one, le_rfl⟩).trans (hdcovRaw_one a b ha hb)⟩

/-- the monotone cases (first and last order statistic): for `a = 1` the density decreases, the level set of `x` is `[0,x]`
and `hdcov = G`; for `b = 1` the density increases, the level set is `[x,1]` and `hdcov = 1 − G` -/
theorem hd_coverage_monotone_cases (k : ℕ) (hk : 2 ≤ k) (x : ℝ) (hx : x ∈ Set.Icc (0:ℝ) 1) :
    hdcov 1 k x = G 1 k x ∧ hdcov k 1 x = 1 - G k 1 x :=
  ⟨(hdcov_of_mem 1 k hx).trans (hdcovRaw_a_one k hk hx), (hdcov_of_mem k 1 hx).trans (hdcovRaw_b_one k hk hx)⟩

/-- `hdcov a b` is a measurable function on `ℝ` -/
theorem hd_coverage_measurable (a b : ℕ) (ha : 0 < a) (hb : 0 < b) (hab : 2 < a + b) : Measurable (hdcov a b) :=
  measurable_hdcov a b hab ha hb

/-- **`beta.hdcov` brackets `hdcov`** — `hd_coverage_bracket_left/right` with their hypotheses about the level-set end
discharged (`y* = partnerR x` resp. `partnerL x`): for every rational `x ∈ [0,1]` off the mode and every number of bisection
steps, the exact rational bracket the driver returns contains `hdcov a b x` -/
theorem hd_coverage_bracket_contains_hdcov (a b : ℕ) (ha : 0 < a) (hb : 0 < b) (hab : 2 < a + b) (x : ℚ) (steps : ℕ)
    (hx0 : 0 ≤ x) (hx1 : x ≤ 1) (hne : x ≠ modeQ a b) :
    (((hdCoverageBracket a b x steps).1 : ℚ) : ℝ) ≤ hdcov a b (x : ℝ)
      ∧ hdcov a b (x : ℝ) ≤ (((hdCoverageBracket a b x steps).2 : ℚ) : ℝ) :=
  (lt_or_gt_of_ne hne).elim (fun h => hdCoverageBracket_hdcov_left a b ha hb hab x steps hx0 h)
    (fun h => hdCoverageBracket_hdcov_right a b ha hb hab x steps hx1 h)

/-- non-vacuity / sanity: Beta(2,2), `x = 1/4`: the partner is `3/4` and `hdcov 2 2 (1/4) = G(3/4) − G(1/4)` -/
example : hdcov 2 2 (1/4) = G 2 2 (3/4) - G 2 2 (1/4) := by
  have hm : mode (2 - 1) (2 - 1) = 1 / 2 := by unfold mode; norm_num
  have hx : (1/4 : ℝ) ∈ Set.Icc 0 (mode (2 - 1) (2 - 1)) := by rw [hm]; constructor <;> norm_num
  have hy : (3/4 : ℝ) ∈ Set.Icc (mode (2 - 1) (2 - 1)) 1 := by rw [hm]; constructor <;> norm_num
  rw [(hdcov_spec 2 2 (by norm_num) (by norm_num) (by norm_num) (1/4)).1 hx,
    ← partnerR_unique (2 - 1) (2 - 1) (by norm_num) hx hy (by unfold g; norm_num)]

end hdcov

/-! ### the two bisection loops -/

/-- **C15-T3**: `k` steps of `mid=(lo+hi)/2; lo=where(moveLo,mid,lo); hi=where(moveHi,mid,hi)` with
`moveLo ∨ moveHi` keep a nested bracket whose width is at most `(hi − lo)/2^k`, for arbitrary decisions. -/
theorem bisection_bracket {α : Type} [Field α] [LinearOrder α] [IsStrictOrderedRing α]
    (moveLo moveHi : α → Bool) (hcover : ∀ m, moveLo m = true ∨ moveHi m = true)
    (k : Nat) (lo hi : α) (h : lo ≤ hi) :
    lo ≤ (Opda.BetaBisect.run moveLo moveHi k (lo, hi)).1
      ∧ (Opda.BetaBisect.run moveLo moveHi k (lo, hi)).1 ≤ (Opda.BetaBisect.run moveLo moveHi k (lo, hi)).2
      ∧ (Opda.BetaBisect.run moveLo moveHi k (lo, hi)).2 ≤ hi
      ∧ ((Opda.BetaBisect.run moveLo moveHi k (lo, hi)).2 - (Opda.BetaBisect.run moveLo moveHi k (lo, hi)).1) * 2 ^ k
          ≤ hi - lo := Opda.BetaBisect.run_bracket moveLo moveHi hcover k lo hi h

/-- with `n_iter ≥ log₂(width/atol)` steps the bracket is narrower than `atol` -/
theorem bisection_width {α : Type} [Field α] [LinearOrder α] [IsStrictOrderedRing α]
    (moveLo moveHi : α → Bool) (hcover : ∀ m, moveLo m = true ∨ moveHi m = true)
    (k : Nat) (lo hi atol : α) (h : lo ≤ hi) (hk : hi - lo ≤ atol * 2 ^ k) :
    (Opda.BetaBisect.run moveLo moveHi k (lo, hi)).2 - (Opda.BetaBisect.run moveLo moveHi k (lo, hi)).1 ≤ atol :=
  Opda.BetaBisect.run_width moveLo moveHi hcover k lo hi atol h hk

/-- the generic one-sided bisection of `OpdaProofs/Bisect.lean` (C07-T2 reused): the bracket stays nested -/
theorem bisection_inside {α : Type} [LinearOrder α] (F : α → α) (mid : α → α → α) (hm : Bisect.MidOK mid)
    (q : α) (k : Nat) (lo hi : α) (h : lo ≤ hi) :
    lo ≤ (Bisect.run F mid q k (lo, hi)).1 ∧ (Bisect.run F mid q k (lo, hi)).1 ≤ (Bisect.run F mid q k (lo, hi)).2
      ∧ (Bisect.run F mid q k (lo, hi)).2 ≤ hi := Bisect.run_inside F mid hm q k lo hi h

end Opda.Props.C15

#opda_audit Opda.Props.C15
