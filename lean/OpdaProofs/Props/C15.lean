import OpdaProofs.Audit
import OpdaProofs.BetaCheck
import OpdaProofs.BetaHdCov
import OpdaProofs.BetaBisect
import OpdaProofs.Bisect
import OpdaProofs.UtilsExtra
/-!
# C15 — beta interval and coverage helpers

Property theorems only (lemmas in `OpdaProofs/{BetaBinom,BetaCdf,HdiBound,BetaCheck,BetaBisect,Small,UtilsExtra}.lean`).

For the order-statistic parameters `(a,b) = (i, n+1−i)` the Beta(a,b) distribution function is the
binomial tail polynomial `G a b x = Σ_{j≥a} C(m,j) x^j (1−x)^{m−j}`, `m = a+b−1` — exact in ℚ
(`beta_cdf_*`).  The implementation's end points and coverages are therefore checked *exactly*:

* `et_check_sound`, `hdi_mass_check_sound` — what an accepted mass/tail check proves;
* `hdi_certificate_sound`, `hdi_check_sound` — an accepted optimality certificate proves that **no
  interval `[u,v] ⊆ [0,1]` of at least the same mass is shorter by more than the slack** (every `u,v`:
  the quantifier is closed by `level_bound` + unimodality, nothing is sampled); `hdi_shortest` is the
  classical exact statement (equal end densities ⇒ shortest);
* `equal_tailed`, `et_nested` — mass, equal tails, `x ∈ I(c) ↔ cov(x) ≤ c`, `cov(end point) = c`, nestedness,
  for any strictly increasing distribution function with an inverse (scipy's `beta.ppf` is *checked*
  through the exact polynomial, not trusted);
* `bisection_bracket`, `bisection_width` — the two bisection loops keep a nested bracket of width
  `≤ (hi−lo)/2^k` whatever the floating-point density comparisons decide.

`hd_coverage_bracket_left/right`: the exact bracket `beta.hdcov` returns contains `G(y*) − G(x)` for the end
`y*` of the level set `{f ≥ f x}`, which by `hd_level_set` is the coverage of the smallest highest-density
interval containing `x` — the Spec value `beta_highest_density_coverage` is compared with.

Compared only (correspondence, at the property's tolerances): the *values* the library returns (they come
from scipy's `beta.ppf/cdf` and float bisections) against those exact quantities, the inverse relation to
`2e-6`, monotonicity on grids, broadcasting.
-/
namespace Opda.Props.C15
open Opda.BetaBinom Opda.CP Opda.BetaCheck Opda.Hdi

/-! ### the Beta(a,b) distribution function is the binomial tail polynomial -/

/-- derivative of the tail in `x`: the Beta(k+1, n−k) density `n·C(n−1,k)·x^k (1−x)^{n−1−k}` -/
theorem beta_cdf_deriv (n k : ℕ) (x : ℝ) :
    HasDerivAt (fun p : ℝ => tail n (k+1) p)
      ((n : ℝ) * (Nat.choose (n - 1) k : ℝ) * x ^ k * (1 - x) ^ (n - 1 - k)) x :=
  Opda.BetaCdf.hasDerivAt_tail_succ n k x

/-- … hence the tail is the integral of that density (fundamental theorem of calculus) … -/
theorem beta_cdf_eq_integral (a b : ℕ) (ha : 0 < a) (hb : 0 < b) (u v : ℝ) :
    G a b v - G a b u = ∫ s in u..v, (betaNorm a b : ℝ) * (s ^ (a - 1) * (1 - s) ^ (b - 1)) :=
  mass_eq_integral a b ha hb u v

/-- … which integrates to one over `[0,1]`: `betaNorm a b = (a+b−1)·C(a+b−2,a−1)` is `1/B(a,b)`. -/
theorem beta_density_normalised (a b : ℕ) (ha : 0 < a) (hb : 0 < b) :
    ∫ s in (0:ℝ)..1, (betaNorm a b : ℝ) * (s ^ (a - 1) * (1 - s) ^ (b - 1)) = 1 :=
  integral_density_unit a b ha hb

/-- the exact-ℚ term the driver evaluates is that distribution function -/
theorem beta_cdf_model_exact (a b : ℕ) (x : ℚ) (h0 : 0 ≤ x) (h1 : x ≤ 1) :
    ((betaCdf a b x : ℚ) : ℝ) = G a b (x : ℝ) := betaCdf_cast a b x h0 h1

/-- `G` is non-decreasing on `[0,1]`, `0` at `0` and `1` at `1` -/
theorem beta_cdf_mono (a b : ℕ) (s s' : ℝ) (h0 : 0 ≤ s) (hss : s ≤ s') (h1 : s' ≤ 1) :
    G a b s ≤ G a b s' := G_mono a b s s' h0 hss h1
theorem beta_cdf_ends (a b : ℕ) (ha : 0 < a) (hb : 0 < b) : G a b 0 = 0 ∧ G a b 1 = 1 :=
  ⟨G_zero a b ha, G_one a b hb⟩

/-- the density `s^α (1−s)^β` increases up to the mode `α/(α+β)` and decreases after it -/
theorem density_unimodal (α β : ℕ) (hpos : 0 < α + β) :
    MonotoneOn (g α β) (Set.Icc 0 ((α : ℝ) / ((α : ℝ) + β)))
      ∧ AntitoneOn (g α β) (Set.Icc ((α : ℝ) / ((α : ℝ) + β)) 1) := ⟨g_mono α β hpos, g_anti α β hpos⟩

/-! ### equal-tailed interval and its coverage function -/

/-- **C15-T1**: for a strictly increasing `G` with inverse `Ginv` on `[0,1]`, the interval
`[Ginv((1−c)/2), Ginv((1+c)/2)]` has mass `c`, equal tails, `x ≤ y`, contains `t` iff
`2|½ − G t| ≤ c`, and the coverage function takes the value `c` at both end points. -/
theorem equal_tailed (G Ginv : ℝ → ℝ) (hmono : StrictMono G)
    (hinv : ∀ p, 0 ≤ p → p ≤ 1 → G (Ginv p) = p) (c : ℝ) (hc0 : 0 ≤ c) (hc1 : c ≤ 1) :
    let x := Ginv ((1 - c) / 2)
    let y := Ginv ((1 + c) / 2)
    G y - G x = c ∧ G x = 1 - G y ∧ x ≤ y
      ∧ (∀ t, (x ≤ t ∧ t ≤ y) ↔ 2 * |1 / 2 - G t| ≤ c)
      ∧ 2 * |1 / 2 - G x| = c ∧ 2 * |1 / 2 - G y| = c :=
  Opda.Small.equal_tailed G Ginv hmono hinv c hc0 hc1

/-- equal-tailed intervals are nested in the coverage -/
theorem et_nested (G Ginv : ℝ → ℝ) (hmono : StrictMono G)
    (hinv : ∀ p, 0 ≤ p → p ≤ 1 → G (Ginv p) = p) (c c' : ℝ) (hc0 : 0 ≤ c) (hcc : c ≤ c') (hc1 : c' ≤ 1)
    (t : ℝ) (ht : Ginv ((1 - c) / 2) ≤ t ∧ t ≤ Ginv ((1 + c) / 2)) :
    Ginv ((1 - c') / 2) ≤ t ∧ t ≤ Ginv ((1 + c') / 2) :=
  Opda.UtilsExtra.et_nested G Ginv hmono hinv c c' hc0 hcc hc1 t ht

/-- what an accepted `beta.check_et` proves about the returned end points -/
theorem et_check_sound (a b : ℕ) (c x y tol : ℚ) (h : etCheck a b c x y tol = true) :
    0 ≤ (x : ℝ) ∧ (x : ℝ) ≤ y ∧ (y : ℝ) ≤ 1
      ∧ |G a b y - G a b x - c| ≤ tol ∧ |G a b x - (1 - G a b y)| ≤ tol := etCheck_sound a b c x y tol h

/-! ### highest-density interval -/

/-- what the mass part of an accepted `beta.check_hdi` proves -/
theorem hdi_mass_check_sound (a b : ℕ) (c x y tol otol : ℚ) (h : hdiMassCheck a b c x y tol otol = true) :
    0 ≤ (x : ℝ) ∧ (x : ℝ) ≤ 1 ∧ 0 ≤ (y : ℝ) ∧ (y : ℝ) ≤ 1 ∧ (x : ℝ) ≤ y + otol
      ∧ |G a b y - G a b x - c| ≤ tol := hdiMassCheck_sound a b c x y tol otol h

/-- **C15-T2, robust form** — soundness of the optimality certificate: if `hdiCertOK` accepts
`(x₁,x₂,y₂,y₁,t)` for the returned `[x,y]`, then **every** interval `[u,v] ⊆ [0,1]` whose Beta(a,b) mass is
at least that of `[x,y]` has length at least `(y − x) − slack`. -/
theorem hdi_certificate_sound (a b : ℕ) (x y x1 x2 y2 y1 t slack : ℚ)
    (h : hdiCertOK a b x y x1 x2 y2 y1 t slack = true)
    (u v : ℝ) (hu : 0 ≤ u) (huv : u ≤ v) (hv : v ≤ 1)
    (hmass : G a b (y : ℝ) - G a b (x : ℝ) ≤ G a b v - G a b u) :
    ((y : ℝ) - (x : ℝ)) - (slack : ℝ) ≤ v - u :=
  hdiCertOK_sound a b x y x1 x2 y2 y1 t slack h u v hu huv hv hmass

/-- the same for the checker with its built-in search (`beta.check_hdi`) -/
theorem hdi_check_sound (a b : ℕ) (x y slack w0 : ℚ) (h : hdiCheck a b x y slack w0 = true)
    (u v : ℝ) (hu : 0 ≤ u) (huv : u ≤ v) (hv : v ≤ 1)
    (hmass : G a b (y : ℝ) - G a b (x : ℝ) ≤ G a b v - G a b u) :
    ((y : ℝ) - (x : ℝ)) - (slack : ℝ) ≤ v - u := hdiCheck_sound a b x y slack w0 h u v hu huv hv hmass

/-- a counter-example reported by the check (`hdiWitness`) really is an interval of at least the same
mass that is shorter by more than the slack -/
theorem hdi_witness_sound (a b : ℕ) (x y u v slack : ℚ) (hx : 0 ≤ x ∧ x ≤ 1) (hy : 0 ≤ y ∧ y ≤ 1)
    (h : hdiWitness a b x y u v slack = true) :
    0 ≤ (u : ℝ) ∧ (u : ℝ) ≤ v ∧ (v : ℝ) ≤ 1 ∧ G a b y - G a b x ≤ G a b v - G a b u
      ∧ (v : ℝ) - u < ((y : ℝ) - x) - slack := hdiWitness_sound a b x y u v slack hx hy h

/-- **C15-T2, classical form**: unimodal density, `m ∈ [x,y]`, equal end densities ⇒ no interval of at
least the same mass is shorter. -/
theorem hdi_shortest (f : ℝ → ℝ) (hf : Continuous f) (m x y : ℝ) (h0 : 0 ≤ x) (hxm : x ≤ m) (hmy : m ≤ y)
    (h1 : y ≤ 1) (hup : MonotoneOn f (Set.Icc 0 m)) (hdown : AntitoneOn f (Set.Icc m 1))
    (heq : f x = f y) (hpos : 0 < f x)
    (u v : ℝ) (hu : 0 ≤ u) (huv : u ≤ v) (hv : v ≤ 1)
    (hmass : ∫ s in x..y, f s ≤ ∫ s in u..v, f s) : y - x ≤ v - u :=
  Opda.UtilsExtra.hdi_shortest f hf m x y h0 hxm hmy h1 hup hdown heq hpos u v hu huv hv hmass

/-- level sets: with `f y = f x` across the mode, the density is `≥ f x` on `[x,y]` and `≤ f x` outside, so
`[x,y]` is the smallest highest-density interval containing `x` and its coverage is `G y − G x` (the
quantity `beta.hdcov` brackets exactly and `beta_highest_density_coverage` is compared with) -/
theorem hd_level_set (α β : ℕ) (hpos : 0 < α + β) (x y : ℝ) (h0 : 0 ≤ x)
    (hxm : x ≤ (α : ℝ) / ((α : ℝ) + β)) (hmy : (α : ℝ) / ((α : ℝ) + β) ≤ y) (h1 : y ≤ 1)
    (heq : g α β x = g α β y) :
    (∀ s, x ≤ s → s ≤ y → g α β x ≤ g α β s)
      ∧ (∀ s, 0 ≤ s → s ≤ 1 → (s ≤ x ∨ y ≤ s) → g α β s ≤ g α β x) :=
  Opda.UtilsExtra.hd_level_set α β hpos x y h0 hxm hmy h1 heq

/-- soundness of `beta.hdcov` (the Spec value `beta_highest_density_coverage` is compared with), `x` left of
the mode: the exact bracket contains `G y* − G x` for the right end `y*` of the level set `{f ≥ f x}` -/
theorem hd_coverage_bracket_left (a b : ℕ) (ha : 0 < a) (hb : 0 < b) (hab : 2 < a + b) (x : ℚ) (steps : ℕ)
    (hx0 : 0 ≤ x) (hxm : x < modeQ a b) (ystar : ℝ)
    (hy0 : ((modeQ a b : ℚ) : ℝ) ≤ ystar) (hy1 : ystar ≤ 1)
    (hin : ∀ s : ℝ, ((modeQ a b : ℚ) : ℝ) ≤ s → s ≤ ystar → g (a - 1) (b - 1) (x : ℝ) ≤ g (a - 1) (b - 1) s)
    (hout : ∀ s : ℝ, ystar < s → s ≤ 1 → g (a - 1) (b - 1) s < g (a - 1) (b - 1) (x : ℝ)) :
    (((hdCoverageBracket a b x steps).1 : ℚ) : ℝ) ≤ G a b ystar - G a b (x : ℝ)
      ∧ G a b ystar - G a b (x : ℝ) ≤ (((hdCoverageBracket a b x steps).2 : ℚ) : ℝ) :=
  hdCoverageBracket_sound_left a b ha hb hab x steps hx0 hxm ystar hy0 hy1 hin hout

/-- … and right of the mode -/
theorem hd_coverage_bracket_right (a b : ℕ) (ha : 0 < a) (hb : 0 < b) (hab : 2 < a + b) (x : ℚ) (steps : ℕ)
    (hx1 : x ≤ 1) (hmx : modeQ a b < x) (ystar : ℝ)
    (hy0 : 0 ≤ ystar) (hy1 : ystar ≤ ((modeQ a b : ℚ) : ℝ))
    (hin : ∀ s : ℝ, ystar ≤ s → s ≤ ((modeQ a b : ℚ) : ℝ) → g (a - 1) (b - 1) (x : ℝ) ≤ g (a - 1) (b - 1) s)
    (hout : ∀ s : ℝ, 0 ≤ s → s < ystar → g (a - 1) (b - 1) s < g (a - 1) (b - 1) (x : ℝ)) :
    (((hdCoverageBracket a b x steps).1 : ℚ) : ℝ) ≤ G a b (x : ℝ) - G a b ystar
      ∧ G a b (x : ℝ) - G a b ystar ≤ (((hdCoverageBracket a b x steps).2 : ℚ) : ℝ) :=
  hdCoverageBracket_sound_right a b ha hb hab x steps hx1 hmx ystar hy0 hy1 hin hout

/-- the general weak-duality bound behind both -/
theorem hdi_level_bound {f : ℝ → ℝ} (hf : Continuous f) (T C1 C2 x1 x2 y2 y1 : ℝ)
    (h0 : 0 ≤ x1) (h12 : x1 ≤ x2) (h23 : x2 ≤ y2) (h34 : y2 ≤ y1) (h41 : y1 ≤ 1)
    (hC1 : C1 ≤ T) (hC2 : C2 ≤ T)
    (hA : 0 < x1 → ∀ s ∈ Set.Icc 0 x1, f s ≤ T) (hB : y1 < 1 → ∀ s ∈ Set.Icc y1 1, f s ≤ T)
    (hC : ∀ s ∈ Set.Icc x1 x2, C1 ≤ f s) (hD : ∀ s ∈ Set.Icc x2 y2, T ≤ f s)
    (hE : ∀ s ∈ Set.Icc y2 y1, C2 ≤ f s)
    (u v : ℝ) (hu : 0 ≤ u) (huv : u ≤ v) (hv : v ≤ 1) :
    (∫ s in u..v, f s) - T * (v - u)
      ≤ (∫ s in x1..y1, f s) - C1 * (x2 - x1) - T * (y2 - x2) - C2 * (y1 - y2) :=
  level_bound hf T C1 C2 x1 x2 y2 y1 h0 h12 h23 h34 h41 hC1 hC2 hA hB hC hD hE u v hu huv hv

/-- non-vacuity: the exact highest-density interval of Beta(2,2) of mass `11/16` is `[1/4, 3/4]`
(equal end densities); the certificate with `t = f(1/4)` is accepted with zero slack. -/
example : hdiCertOK 2 2 (1/4) (3/4) (1/4) (1/4) (3/4) (3/4) (3/16) 0 = true := by decide +kernel
example : etCheck 2 2 (11/16) (1/4) (3/4) 0 = true := by decide +kernel

/-! ### the two bisection loops -/

/-- **C15-T3**: `k` steps of `mid=(lo+hi)/2; lo=where(moveLo,mid,lo); hi=where(moveHi,mid,hi)` with
`moveLo ∨ moveHi` keep a nested bracket whose width is at most `(hi − lo)/2^k`, for arbitrary decisions. -/
theorem bisection_bracket {α : Type} [Field α] [LinearOrder α] [IsStrictOrderedRing α]
    (moveLo moveHi : α → Bool) (hcover : ∀ m, moveLo m = true ∨ moveHi m = true)
    (k : Nat) (lo hi : α) (h : lo ≤ hi) :
    lo ≤ (Opda.BetaBisect.run moveLo moveHi k (lo, hi)).1
      ∧ (Opda.BetaBisect.run moveLo moveHi k (lo, hi)).1 ≤ (Opda.BetaBisect.run moveLo moveHi k (lo, hi)).2
      ∧ (Opda.BetaBisect.run moveLo moveHi k (lo, hi)).2 ≤ hi
      ∧ ((Opda.BetaBisect.run moveLo moveHi k (lo, hi)).2 - (Opda.BetaBisect.run moveLo moveHi k (lo, hi)).1) * 2 ^ k
          ≤ hi - lo := Opda.BetaBisect.run_bracket moveLo moveHi hcover k lo hi h

/-- with `n_iter ≥ log₂(width/atol)` steps the bracket is narrower than `atol` -/
theorem bisection_width {α : Type} [Field α] [LinearOrder α] [IsStrictOrderedRing α]
    (moveLo moveHi : α → Bool) (hcover : ∀ m, moveLo m = true ∨ moveHi m = true)
    (k : Nat) (lo hi atol : α) (h : lo ≤ hi) (hk : hi - lo ≤ atol * 2 ^ k) :
    (Opda.BetaBisect.run moveLo moveHi k (lo, hi)).2 - (Opda.BetaBisect.run moveLo moveHi k (lo, hi)).1 ≤ atol :=
  Opda.BetaBisect.run_width moveLo moveHi hcover k lo hi atol h hk

/-- the generic one-sided bisection of `OpdaProofs/Bisect.lean` (C07-T2 reused): the bracket stays nested -/
theorem bisection_inside {α : Type} [LinearOrder α] (F : α → α) (mid : α → α → α) (hm : Bisect.MidOK mid)
    (q : α) (k : Nat) (lo hi : α) (h : lo ≤ hi) :
    lo ≤ (Bisect.run F mid q k (lo, hi)).1 ∧ (Bisect.run F mid q k (lo, hi)).1 ≤ (Bisect.run F mid q k (lo, hi)).2
      ∧ (Bisect.run F mid q k (lo, hi)).2 ≤ hi := Bisect.run_inside F mid hm q k lo hi h

end Opda.Props.C15

#opda_audit Opda.Props.C15
