import OpdaProofs.Audit
import OpdaProofs.BandBox
import OpdaProofs.BandMore
import OpdaProofs.DkwEps
/-!
# C01 — CDF confidence bands attain their nominal simultaneous coverage  (partial)

What is proved: the *reduction* of "the band contains the whole true CDF" to a rectangle event for the uniform order
statistics (for every continuous F: the probability-integral-transform step), the identification of that rectangle
with the Kolmogorov distance for the dkw/ks tables, the defining equation and monotonicity of the DKW radius, and the
coverage statement for dkw *conditional on* the Dvoretzky–Kiefer–Wolfowitz–Massart inequality (a named hypothesis).
What is evaluated, not proved: the probability of the rectangle itself — computed exactly in ℚ on the code's own
level tables by Steck's determinant (`OpdaModel/Steck.lean`, identity cited) on every run.
-/
namespace Opda.Props.C01
open Opda.Band

/-- **the band contains F everywhere iff F passes through the box at the order statistics**: for every `n`, every
strictly increasing sample, every level tables with `L 0 ≤ 0`, `1 ≤ U n`, and every continuous non-decreasing
`F : ℝ → [0,1]`:  `(∀ t, L_{k(t)} ≤ F t ≤ U_{k(t)}) ↔ ∀ i, L_{i+1} ≤ F(y_i) ≤ U_i`, `k(t)` the number of sample points
`≤ t`.  Since `F(Y_(i))` are uniform order statistics for continuous `F`, the coverage of the band is the rectangle
probability `P[L_i ≤ U_(i) ≤ U_{i-1} ∀ i]`, the same for every continuous `F`. -/
theorem band_contains_iff_box (n : ℕ) (y : ℕ → ℝ) (hy : ∀ i j, i < j → j < n → y i < y j)
    (L U : ℕ → ℝ) (F : ℝ → ℝ) (hmono : Monotone F) (hcont : Continuous F)
    (h0 : ∀ t, 0 ≤ F t) (h1 : ∀ t, F t ≤ 1) (hL0 : L 0 ≤ 0) (hUn : 1 ≤ U n) :
    (∀ t k, IsCount n y t k → L k ≤ F t ∧ F t ≤ U k)
      ↔ (∀ i, i < n → L (i+1) ≤ F (y i) ∧ F (y i) ≤ U i) :=
  Opda.Band.band_contains_iff_box n y hy L U F hmono hcont h0 h1 hL0 hUn

/-- the count `k(t)` used above is well defined -/
theorem count_unique (n : ℕ) (y : ℕ → ℝ) (t : ℝ) (k k' : ℕ)
    (h : IsCount n y t k) (h' : IsCount n y t k') : k = k' :=
  Opda.Band.isCount_unique n y t k k' h h'

/-- for the dkw/ks tables `k/n ∓ ε` the box is the statement that the Kolmogorov distance is at most `ε` -/
theorem dkw_ks_box_iff_sup (n : ℕ) (hn : 0 < n) (y : ℕ → ℝ) (F : ℝ → ℝ) (ε : ℝ) :
    (∀ i, i < n → ((i+1 : ℕ) : ℝ)/n - ε ≤ F (y i) ∧ F (y i) ≤ ((i : ℕ) : ℝ)/n + ε)
      ↔ (∀ i, i < n → ((i+1 : ℕ) : ℝ)/n - F (y i) ≤ ε ∧ F (y i) - ((i : ℕ) : ℝ)/n ≤ ε) :=
  Opda.Band.dkw_box n hn y F ε

/-- the DKW radius solves `2·exp(−2nε²) = 1 − confidence` -/
theorem dkw_epsilon_spec (n c : ℝ) (hn : 0 < n) (hc0 : 0 ≤ c) (hc1 : c < 1) :
    2 * Real.exp (-2 * n * (Opda.Dkw.eps n c)^2) = 1 - c := Opda.Dkw.eps_spec n c hn hc0 hc1

theorem dkw_epsilon_mono_confidence (n c c' : ℝ) (hn : 0 < n) (hc0 : 0 ≤ c) (hcc : c ≤ c') (hc1 : c' < 1) :
    Opda.Dkw.eps n c ≤ Opda.Dkw.eps n c' := Opda.Dkw.eps_mono_c n c c' hn hc0 hcc hc1

theorem dkw_epsilon_anti_n (n n' c : ℝ) (hn : 0 < n) (hnn : n ≤ n') (hc0 : 0 ≤ c) (hc1 : c < 1) :
    Opda.Dkw.eps n' c ≤ Opda.Dkw.eps n c := Opda.Dkw.eps_anti_n n n' c hn hnn hc0 hc1

/-- **dkw coverage, conditional on Massart's inequality**: if the probability `pviol` that the Kolmogorov distance
exceeds `ε(n,c)` is at most `2·exp(−2nε²)` (Dvoretzky–Kiefer–Wolfowitz with Massart's constant — the named hypothesis
`hDKW`, cited, not proved here) then it is at most `1 − c`, i.e. the band covers with probability at least `c`. -/
theorem dkw_coverage_of_massart (n c pviol : ℝ) (hn : 0 < n) (hc0 : 0 ≤ c) (hc1 : c < 1)
    (hDKW : pviol ≤ 2 * Real.exp (-2 * n * (Opda.Dkw.eps n c)^2)) : 1 - pviol ≥ c := by
  rw [Opda.Dkw.eps_spec n c hn hc0 hc1] at hDKW; linarith

/-- **ld bands are a test**: if each pointwise interval is the sub-level set of its coverage function
(`x ∈ I_i(t) ↔ cov_i(x) ≤ t`; proved for the equal-tailed family in C15, checked per instance for the
highest-density family) then "F passes through all intervals at critical value `t`" is "the statistic
`max_i cov_i(F(y_i))` is at most `t`" — so the band's coverage at `t` is the CDF of the simulated statistic at `t`. -/
theorem ld_box_iff_stat (n : ℕ) (lo hi : ℕ → ℝ → ℝ) (cov : ℕ → ℝ → ℝ) (x : ℕ → ℝ) (t : ℝ)
    (hsub : ∀ i, i < n → ∀ u, (lo i t ≤ u ∧ u ≤ hi i t) ↔ cov i u ≤ t) :
    (∀ i, i < n → lo i t ≤ x i ∧ x i ≤ hi i t) ↔ (∀ i, i < n → cov i (x i) ≤ t) := by
  constructor
  · intro h i hi'; exact (hsub i hi' (x i)).mp (h i hi')
  · intro h i hi'; exact (hsub i hi' (x i)).mpr (h i hi')

end Opda.Props.C01

#opda_audit Opda.Props.C01
