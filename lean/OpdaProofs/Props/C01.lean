import OpdaProofs.Audit
import OpdaProofs.BandBox
import OpdaProofs.BandMore
import OpdaProofs.DkwEps
import OpdaProofs.RectProb
import OpdaProofs.RectVolume
import OpdaProofs.RectBand
import OpdaProofs.RectPIT
import OpdaProofs.OrderStatBeta
import OpdaProofs.LdStat
import OpdaProofs.BetaHdV
/-!
# C01 — CDF confidence bands attain their nominal simultaneous coverage  (partial)

What is proved:
* the *reduction* of "the band contains the whole true CDF" to a rectangle event for the order statistics, for every
  continuous F (`band_contains_iff_box`), the identification of that rectangle with the Kolmogorov distance for the
  dkw/ks tables, the defining equation and monotonicity of the DKW radius, the coverage statement for dkw *conditional
  on* the Dvoretzky–Kiefer–Wolfowitz–Massart inequality (a named hypothesis), the ld test duality;
* **the rectangle probability itself**: the executable evaluator `Opda.RectProb.coverage` (`OpdaModel/RectProb.lean`,
  driver op `band.rect`, a dynamic programme over the cells between consecutive levels) *is* the probability, under
  the product measure of `n` independent uniforms on `[0,1]`, of `{αᵢ ≤ U₍ᵢ₎ ≤ βᵢ ∀ i}` for all rational level lists
  in `[0,1]` (`rect_coverage_is_sum_over_assignments`: finite combinatorics; `rect_coverage_is_volume`,
  `rect_coverage_is_volume_order_statistics`: measure theory), and hence the probability that the band with these
  level tables contains the uniform distribution function everywhere (`band_coverage_is_rect_coverage`);
* **the probability integral transform and the end-to-end statement for EVERY continuous distribution**: for a
  probability measure `ν` on `ℝ` whose distribution function `F t = ν (-∞, t]` is continuous (equivalently: `ν` has no
  atoms, `continuous_cdf_iff_no_atoms`), `F(Y)` is uniform on `[0,1]` (`pit_map`, `pit_sublevel`), `(F(Y₁), …, F(Yₙ))`
  for independent draws is `n` independent uniforms (`pit_product`), and the probability under `ν^{⊗n}` that the band
  with the given level tables contains `F` at every `t` is `coverage α β` — the same number for every such `ν`
  (`band_coverage_any_continuous_F`).
* **the Beta law of a simulated order statistic (ld methods)**: for `N` independent uniforms the `k`-th (0-based)
  order statistic has distribution function `Σ_{j=k+1}^{N} C(N,j) t^j (1−t)^{N−j}` (`uniform_order_statistic_cdf`), which
  is C15's Beta(k+1, N−k) distribution function `G`, the integral of the normalised Beta density
  (`uniform_order_statistic_is_beta`); for `N` independent draws `T₁..T_N` from ANY probability measure with continuous
  distribution function `F`, `F(T₍ₖ₎)` has that same Beta(k+1, N−k) law (`simulated_critical_value_coverage_is_beta`),
  and the coverage `F(c)` of any critical value `c` between `T₍ₖ₎` and `T₍ₖ'₎` — in particular of the linear
  interpolation `np.quantile` returns — has a distribution function between those of Beta(k'+1, N−k') and
  Beta(k+1, N−k) (`interpolated_critical_value_coverage_between_betas`).
What is evaluated on every run: `coverage` in exact ℚ on the level tables read off the code's output (dkw `≥ c`,
ks `= c ± 1e-12`, ld inside the stated Beta interval).  Steck's determinant (`OpdaModel/Steck.lean`, identity cited,
not proved) is no longer in the trusted base: it is evaluated alongside and must give the same rational.
* **the simulated ld statistic has a continuous distribution function** (`OpdaProofs/LdStat.lean`): for `n ≥ 1` and any
  functions `c i` with finite (or just Lebesgue-null) level sets in `[0,1]`, `T = max_i c_i(U₍ᵢ₎)` has no atoms under `n`
  independent uniforms (`ld_statistic_no_atoms`), so for measurable `c i` its law is a probability measure with continuous
  distribution function (`ld_statistic_cdf_continuous`), that function being the coverage of the band at the critical
  value (`ld_law_cdf_is_band_coverage`).  The equal-tailed coverage function `2·|1/2 − G x|` of a `G` strictly increasing
  on `[0,1]` has level sets of at most two points (`equal_tailed_level_sets`); C15's Beta(a,b) distribution function is
  strictly increasing on `[0,1]` (`beta_cdf_strictly_increasing`); hence for `ld_equal_tailed` the Beta law of the
  coverage of a simulated order statistic and the bracket for the interpolated quantile hold with NO continuity
  hypothesis (`ld_equal_tailed_critical_value_coverage_is_beta`,
  `ld_equal_tailed_interpolated_critical_value_between_betas`).  For `ld_highest_density` the same is proved for every
  measurable family with finite level sets (`ld_critical_value_coverage_is_beta_of_finite_level_sets`), e.g. every
  family strictly decreasing up to a point and strictly increasing after it (`v_shaped_level_sets`); that the
  highest-density coverage function has this shape is now a theorem too (`OpdaProofs/BetaHdV.lean`): `hdcov a b x`, the
  Beta(a,b)-mass of the level set of the density through `x` (= of the smallest highest-density interval containing `x`,
  C15 `hdcov_spec`, `hd_coverage_is_mass_of_shortest_interval_left/right`), is measurable, strictly decreasing on `[0,m]`
  and strictly increasing on `[m,1]`, `m` the mode (C15 `hd_coverage_v_shaped`; end-point modes for `a = 1` / `b = 1`
  included); so for `n ≥ 2` the coverage functions `hdcov (i+1) (n−i)` of `ld_highest_density` have level sets of at most
  two points (`ld_highest_density_coverage_functions_v_shaped`), the statistic has a continuous distribution function
  (`ld_highest_density_cdf_continuous`), and the Beta law and the bracket for the interpolated quantile hold with NO
  hypothesis (`ld_highest_density_critical_value_coverage_is_beta`,
  `ld_highest_density_interpolated_critical_value_between_betas`).  (`n = 1`, where the only order statistic is uniform
  and every interval is highest-density, is excluded.)
Still cited / not formalised: DKW–Massart, the Kolmogorov–Smirnov law inside scipy.  For the ld methods what remains
outside Lean is (i) nothing about level sets any more (the continuity of the statistic's distribution function is a
theorem for `ld_equal_tailed`, `n ≥ 1`, and for `ld_highest_density`, `n ≥ 2`), (ii) that the
code's `np.quantile(ts, confidence)` is the interpolated order statistic the theorem speaks about, (iii) the
numerical Beta quantiles (`scipy.stats.beta.ppf`) the harness uses for its acceptance window, and (iv) that the code's
float coverage functions (`scipy.stats.beta.cdf`, bisection) realise the real functions the theorem is about.  (The
probability integral transform is no longer cited: it is `pit_map` / `pit_product`; the Beta law of an order statistic
is no longer cited: it is `uniform_order_statistic_is_beta` / `simulated_critical_value_coverage_is_beta`.)
-/
namespace Opda.Props.C01
open Opda.Band

/-- **the band contains F everywhere iff F passes through the box at the order statistics**: for every `n`, every
strictly increasing sample, every level tables with `L 0 ≤ 0`, `1 ≤ U n`, and every continuous non-decreasing
`F : ℝ → [0,1]`:  `(∀ t, L_{k(t)} ≤ F t ≤ U_{k(t)}) ↔ ∀ i, L_{i+1} ≤ F(y_i) ≤ U_i`, `k(t)` the number of sample points
`≤ t`.  Since `F(Y_(i))` are uniform order statistics for continuous `F`, the coverage of the band is the rectangle
probability `P[L_i ≤ U_(i) ≤ U_{i-1} ∀ i]`, the same for every continuous `F`. -/
theorem band_contains_iff_box (n : ℕ) (y : ℕ → ℝ) (hy : ∀ i j, i < j → j < n → y i < y j)
    (L U : ℕ → ℝ) (F : ℝ → ℝ) (hmono : Monotone F) (hcont : Continuous F)
    (h0 : ∀ t, 0 ≤ F t) (h1 : ∀ t, F t ≤ 1) (hL0 : L 0 ≤ 0) (hUn : 1 ≤ U n) :
    (∀ t k, IsCount n y t k → L k ≤ F t ∧ F t ≤ U k)
      ↔ (∀ i, i < n → L (i+1) ≤ F (y i) ∧ F (y i) ≤ U i) :=
  Opda.Band.band_contains_iff_box n y hy L U F hmono hcont h0 h1 hL0 hUn

/-- the count `k(t)` used above is well defined -/
theorem count_unique (n : ℕ) (y : ℕ → ℝ) (t : ℝ) (k k' : ℕ)
    (h : IsCount n y t k) (h' : IsCount n y t k') : k = k' :=
  Opda.Band.isCount_unique n y t k k' h h'

/-- for the dkw/ks tables `k/n ∓ ε` the box is the statement that the Kolmogorov distance is at most `ε` -/
theorem dkw_ks_box_iff_sup (n : ℕ) (hn : 0 < n) (y : ℕ → ℝ) (F : ℝ → ℝ) (ε : ℝ) :
    (∀ i, i < n → ((i+1 : ℕ) : ℝ)/n - ε ≤ F (y i) ∧ F (y i) ≤ ((i : ℕ) : ℝ)/n + ε)
      ↔ (∀ i, i < n → ((i+1 : ℕ) : ℝ)/n - F (y i) ≤ ε ∧ F (y i) - ((i : ℕ) : ℝ)/n ≤ ε) :=
  Opda.Band.dkw_box n hn y F ε

/-- the DKW radius solves `2·exp(−2nε²) = 1 − confidence` -/
theorem dkw_epsilon_spec (n c : ℝ) (hn : 0 < n) (hc0 : 0 ≤ c) (hc1 : c < 1) :
    2 * Real.exp (-2 * n * (Opda.Dkw.eps n c)^2) = 1 - c := Opda.Dkw.eps_spec n c hn hc0 hc1

theorem dkw_epsilon_mono_confidence (n c c' : ℝ) (hn : 0 < n) (hc0 : 0 ≤ c) (hcc : c ≤ c') (hc1 : c' < 1) :
    Opda.Dkw.eps n c ≤ Opda.Dkw.eps n c' := Opda.Dkw.eps_mono_c n c c' hn hc0 hcc hc1

theorem dkw_epsilon_anti_n (n n' c : ℝ) (hn : 0 < n) (hnn : n ≤ n') (hc0 : 0 ≤ c) (hc1 : c < 1) :
    Opda.Dkw.eps n' c ≤ Opda.Dkw.eps n c := Opda.Dkw.eps_anti_n n n' c hn hnn hc0 hc1

/-- **dkw coverage, conditional on Massart's inequality**: if the probability `pviol` that the Kolmogorov distance
exceeds `ε(n,c)` is at most `2·exp(−2nε²)` (Dvoretzky–Kiefer–Wolfowitz with Massart's constant — the named hypothesis
`hDKW`, cited, not proved here) then it is at most `1 − c`, i.e. the band covers with probability at least `c`. -/
theorem dkw_coverage_of_massart (n c pviol : ℝ) (hn : 0 < n) (hc0 : 0 ≤ c) (hc1 : c < 1)
    (hDKW : pviol ≤ 2 * Real.exp (-2 * n * (Opda.Dkw.eps n c)^2)) : 1 - pviol ≥ c := by
  rw [Opda.Dkw.eps_spec n c hn hc0 hc1] at hDKW; linarith

/-- **ld bands are a test**: if each pointwise interval is the sub-level set of its coverage function
(`x ∈ I_i(t) ↔ cov_i(x) ≤ t`; proved for the equal-tailed family in C15, checked per instance for the
highest-density family) then "F passes through all intervals at critical value `t`" is "the statistic
`max_i cov_i(F(y_i))` is at most `t`" — so the band's coverage at `t` is the CDF of the simulated statistic at `t`. -/
theorem ld_box_iff_stat (n : ℕ) (lo hi : ℕ → ℝ → ℝ) (cov : ℕ → ℝ → ℝ) (x : ℕ → ℝ) (t : ℝ)
    (hsub : ∀ i, i < n → ∀ u, (lo i t ≤ u ∧ u ≤ hi i t) ↔ cov i u ≤ t) :
    (∀ i, i < n → lo i t ≤ x i ∧ x i ≤ hi i t) ↔ (∀ i, i < n → cov i (x i) ≤ t) := by
  constructor
  · intro h i hi'; exact (hsub i hi' (x i)).mp (h i hi')
  · intro h i hi'; exact (hsub i hi' (x i)).mpr (h i hi')

/-! ### the rectangle probability: the evaluator `Opda.RectProb.coverage` (driver op `band.rect`) -/
section rect
open Opda.RectProb Opda.RectProbP Finset

/-- **what the dynamic programme computes (finite combinatorics)**: with `q₀ = 0 < q₁ < … < q_{K−1} = 1` the break
points `points α β` (0, the levels inside (0,1), 1), cell `k` the interval `(q₍ₖ₋₁₎, qₖ]` (`cellLeft`; the first cell
`(0,0]` is empty) and `n` the number of levels, `coverage α β` is the sum over **all** `Kⁿ` assignments
`g : points → cells` of `∏ⱼ length(cell (g j))` if the assignment is allowed and `0` otherwise; allowed means that at
every break point `qₖ` the number `#{j | g j ≤ k}` of points in the cells up to `qₖ` passes `okAt` — see `okAt_spec`. -/
theorem rect_coverage_is_sum_over_assignments (alpha beta : List ℚ) :
    coverage alpha beta
      = ∑ g : Fin alpha.length → Fin (points alpha beta).length,
          if (∀ k : Fin (points alpha beta).length, okAt alpha beta (points alpha beta)[k] #{j | g j ≤ k} = true)
          then ∏ j, ((points alpha beta)[g j] - cellLeft (points alpha beta) (g j)) else 0 :=
  Opda.RectProbP.coverage_eq_sum_points alpha beta

/-- the constraint checked at a break point `q`: a count `c` (`= #{j : U_j ≤ q}`) is allowed iff for every `i` (0-based)
`βᵢ ≤ q → i + 1 ≤ c` (at least `i+1` points must lie below `βᵢ`) and `q ≤ αᵢ → c ≤ i` (at most `i` points below `αᵢ`) -/
theorem okAt_spec (alpha beta : List ℚ) (q : ℚ) (c : ℕ) :
    okAt alpha beta q c = true
      ↔ (∀ i (h : i < beta.length), beta[i] ≤ q → i + 1 ≤ c) ∧ (∀ i (h : i < alpha.length), q ≤ alpha[i] → c ≤ i) :=
  Opda.RectProbP.okAt_iff alpha beta q c

/-- **the evaluator is the probability of the rectangle (measure theory)**: under the law of `n` independent uniforms
on `[0,1]` (the product measure `Measure.pi fun _ => volume.restrict (Icc 0 1)` on `Fin n → ℝ`), the event
"for every `i` at most `i` sample points are `< αᵢ` and at least `i + 1` sample points are `≤ βᵢ`" (0-based; this is
`αᵢ ≤ U₍ᵢ₎ ≤ βᵢ ∀ i`, see `orderStat_le_iff_count`, `le_orderStat_iff_count`) has probability `coverage α β`, for all
rational level lists in `[0,1]` (no monotonicity needed).  Proof: up to the null set of samples with a point on a
level, the event inside the cube is the disjoint union of the boxes `∏ⱼ cell (g j)` over the allowed assignments `g`,
each of volume `∏ⱼ length (cell (g j))`; then `rect_coverage_is_sum_over_assignments`. -/
theorem rect_coverage_is_volume (alpha beta : List ℚ)
    (hα : ∀ x ∈ alpha, 0 ≤ x ∧ x ≤ 1) (hβ : ∀ x ∈ beta, 0 ≤ x ∧ x ≤ 1) :
    (MeasureTheory.Measure.pi fun _ : Fin alpha.length =>
        (MeasureTheory.volume : MeasureTheory.Measure ℝ).restrict (Set.Icc 0 1))
      {u | (∀ i (h : i < alpha.length), #{j | u j < ((alpha[i] : ℚ) : ℝ)} ≤ i)
          ∧ (∀ i (h : i < beta.length), i + 1 ≤ #{j | u j ≤ ((beta[i] : ℚ) : ℝ)})}
      = ENNReal.ofReal ((coverage alpha beta : ℚ) : ℝ) :=
  Opda.RectProbP.unifPi_ev hα hβ

/-- the same with the order statistics `U₍ᵢ₎ = orderStat u i` (the sample composed with its sorting permutation):
`P[αᵢ ≤ U₍ᵢ₎ ≤ βᵢ for all i] = coverage α β` — the statement for which `OpdaModel/Steck.lean` cites Steck (1971). -/
theorem rect_coverage_is_volume_order_statistics (alpha beta : List ℚ) (hlen : beta.length = alpha.length)
    (hα : ∀ x ∈ alpha, 0 ≤ x ∧ x ≤ 1) (hβ : ∀ x ∈ beta, 0 ≤ x ∧ x ≤ 1) :
    (MeasureTheory.Measure.pi fun _ : Fin alpha.length =>
        (MeasureTheory.volume : MeasureTheory.Measure ℝ).restrict (Set.Icc 0 1))
      {u : Fin alpha.length → ℝ | ∀ i : Fin alpha.length,
        ((alpha[i] : ℚ) : ℝ) ≤ orderStat u i ∧ orderStat u i ≤ ((beta[i.val]'(hlen.symm ▸ i.isLt) : ℚ) : ℝ)}
      = ENNReal.ofReal ((coverage alpha beta : ℚ) : ℝ) :=
  Opda.RectProbP.unifPi_rect alpha beta hlen hα hβ

/-- the order statistics are the sample in non-decreasing order -/
theorem orderStat_monotone {n : ℕ} (u : Fin n → ℝ) : Monotone (orderStat u) := Opda.RectProbP.orderStat_mono u

/-- `U₍ᵢ₎ ≤ t` iff at least `i + 1` sample points are `≤ t` -/
theorem orderStat_le_iff_count {n : ℕ} (u : Fin n → ℝ) (i : Fin n) (t : ℝ) :
    orderStat u i ≤ t ↔ i.val + 1 ≤ #{j | u j ≤ t} := Opda.RectProbP.orderStat_le_iff u i t

/-- `t ≤ U₍ᵢ₎` iff at most `i` sample points are `< t` -/
theorem le_orderStat_iff_count {n : ℕ} (u : Fin n → ℝ) (i : Fin n) (t : ℝ) :
    t ≤ orderStat u i ↔ #{j | u j < t} ≤ i.val := Opda.RectProbP.le_orderStat_iff u i t

/-- for a sorted sample (as in `band_contains_iff_box`): `y i ≤ t ⇔ i < #{j | y j ≤ t}` -/
theorem sorted_le_iff_count {n : ℕ} (y : Fin n → ℝ) (hy : Monotone y) (i : Fin n) (t : ℝ) :
    y i ≤ t ↔ i.val < #{j | y j ≤ t} := Opda.RectProbP.sorted_le_iff y hy i t

/-- non-vacuity: the hypotheses hold for the level lists `[0, 1/2]`, `[1/2, 1]` -/
example : (∀ x ∈ ([0, 1/2] : List ℚ), 0 ≤ x ∧ x ≤ 1) ∧ (∀ x ∈ ([1/2, 1] : List ℚ), 0 ≤ x ∧ x ≤ 1) := by
  constructor <;> intro x hx <;> simp at hx <;> rcases hx with rfl | rfl <;> norm_num

/-- **coverage of the band = the evaluator** (reduction `band_contains_iff_box` + `rect_coverage_is_volume`): let the
level tables `L`, `U : ℕ → ℝ` satisfy `L 0 ≤ 0`, `1 ≤ U n`, and have the rational entries `L (i+1) = αᵢ`, `U i = βᵢ`
(`i < n`) in `[0,1]`.  For `n` independent uniforms `u` on `[0,1]`, the probability that the band contains the uniform
distribution function `unifCdf t = max 0 (min t 1)` at **every** `t` — `L_{k(t)} ≤ unifCdf t ≤ U_{k(t)}`, `k(t)` the
number of sample points `≤ t` (`IsCount` on the sorted sample `sortedSeq u`, exactly the left-hand side of
`band_contains_iff_box`) — equals `coverage α β`, the rational number the driver op `band.rect` returns.
(For a general continuous `F` see `band_coverage_any_continuous_F` below.) -/
theorem band_coverage_is_rect_coverage (alpha beta : List ℚ) (hlen : beta.length = alpha.length)
    (hα : ∀ x ∈ alpha, 0 ≤ x ∧ x ≤ 1) (hβ : ∀ x ∈ beta, 0 ≤ x ∧ x ≤ 1)
    (L U : ℕ → ℝ) (hL0 : L 0 ≤ 0) (hUn : 1 ≤ U alpha.length)
    (hL : ∀ i (h : i < alpha.length), L (i + 1) = ((alpha[i] : ℚ) : ℝ))
    (hU : ∀ i (h : i < beta.length), U i = ((beta[i] : ℚ) : ℝ)) :
    (MeasureTheory.Measure.pi fun _ : Fin alpha.length =>
        (MeasureTheory.volume : MeasureTheory.Measure ℝ).restrict (Set.Icc 0 1))
      {u | ∀ t k, IsCount alpha.length (sortedSeq u) t k → L k ≤ unifCdf t ∧ unifCdf t ≤ U k}
      = ENNReal.ofReal ((coverage alpha beta : ℚ) : ℝ) :=
  Opda.RectProbP.unifPi_band alpha beta hlen hα hβ L U hL0 hUn hL hU

/-- `unifCdf` is the distribution function of the uniform law on `[0,1]` -/
theorem unifCdf_spec (t : ℝ) : unifCdf t = max 0 (min t 1) := rfl

/-- `sortedSeq u` lists the order statistics -/
theorem sortedSeq_spec {n : ℕ} (u : Fin n → ℝ) (i : ℕ) (h : i < n) : sortedSeq u i = orderStat u ⟨i, h⟩ := by
  simp [sortedSeq, h]

/-- non-vacuity of `band_coverage_is_rect_coverage`: tables for `n = 2` satisfying all hypotheses -/
example : ∃ (alpha beta : List ℚ) (L U : ℕ → ℝ), beta.length = alpha.length
    ∧ (∀ x ∈ alpha, 0 ≤ x ∧ x ≤ 1) ∧ (∀ x ∈ beta, 0 ≤ x ∧ x ≤ 1) ∧ L 0 ≤ 0 ∧ 1 ≤ U alpha.length
    ∧ (∀ i (h : i < alpha.length), L (i + 1) = ((alpha[i] : ℚ) : ℝ))
    ∧ (∀ i (h : i < beta.length), U i = ((beta[i] : ℚ) : ℝ)) := by
  refine ⟨[0, 1/2], [1/2, 1], fun k => if k ≤ 1 then 0 else 1/2, fun k => if k = 0 then 1/2 else 1,
    rfl, ?_, ?_, by simp, by simp, ?_, ?_⟩
  · intro x hx; simp at hx; rcases hx with rfl | rfl <;> norm_num
  · intro x hx; simp at hx; rcases hx with rfl | rfl <;> norm_num
  · intro i h
    have : i = 0 ∨ i = 1 := by simp at h; omega
    rcases this with rfl | rfl <;> simp
  · intro i h
    have : i = 0 ∨ i = 1 := by simp at h; omega
    rcases this with rfl | rfl <;> simp

end rect

/-! ### the probability integral transform; coverage for every continuous distribution -/
section pit
open Opda.RectProb Opda.RectProbP MeasureTheory

/-- `cdfOf ν` is the distribution function `t ↦ ν (-∞, t]` (as a real number) -/
theorem cdfOf_spec (ν : Measure ℝ) (t : ℝ) : cdfOf ν t = (ν (Set.Iic t)).toReal := rfl

/-- it is Mathlib's `ProbabilityTheory.cdf` -/
theorem cdfOf_eq_mathlib_cdf (ν : Measure ℝ) [IsProbabilityMeasure ν] : cdfOf ν = ⇑(ProbabilityTheory.cdf ν) :=
  Opda.RectProbP.cdfOf_eq_cdf ν

/-- **probability integral transform**: if the distribution function `F = cdfOf ν` of a probability measure `ν` on `ℝ`
is continuous, the law of `F(Y)` for `Y ∼ ν` (the push-forward `ν.map F`) is the uniform law on `[0,1]`. -/
theorem pit_map (ν : Measure ℝ) [IsProbabilityMeasure ν] (hF : Continuous (cdfOf ν)) :
    ν.map (cdfOf ν) = (volume : Measure ℝ).restrict (Set.Icc 0 1) := Opda.RectProbP.pit_map hF

/-- pointwise form: `P[F(Y) ≤ t] = t` for every `t ∈ [0,1]` -/
theorem pit_sublevel (ν : Measure ℝ) [IsProbabilityMeasure ν] (hF : Continuous (cdfOf ν)) (t : ℝ)
    (ht0 : 0 ≤ t) (ht1 : t ≤ 1) : ν {y | cdfOf ν y ≤ t} = ENNReal.ofReal t :=
  Opda.RectProbP.measure_sublevel_Icc hF ht0 ht1

/-- **product form**: for `n` independent draws `Y₁, …, Yₙ` from `ν` (the product measure `Measure.pi fun _ => ν`) the
vector `(F(Y₁), …, F(Yₙ))` has the law of `n` independent uniforms on `[0,1]`. -/
theorem pit_product (ν : Measure ℝ) [IsProbabilityMeasure ν] (hF : Continuous (cdfOf ν)) (n : ℕ) :
    (Measure.pi fun _ : Fin n => ν).map (fun y i => cdfOf ν (y i))
      = Measure.pi fun _ : Fin n => (volume : Measure ℝ).restrict (Set.Icc 0 1) := Opda.RectProbP.pit_pi hF n

/-- the hypothesis "continuous distribution function" is exactly "no atoms" (`ν {x} = 0` for every `x`) -/
theorem continuous_cdf_iff_no_atoms (ν : Measure ℝ) [IsProbabilityMeasure ν] :
    Continuous (cdfOf ν) ↔ ∀ x, ν {x} = 0 :=
  ⟨fun h => (Opda.RectProbP.nullSingleton_of_cdfOf_continuous ν h).measure_singleton,
   fun h => @Opda.RectProbP.cdfOf_continuous_of_nullSingleton ν _ ⟨h⟩⟩

/-- a non-decreasing map commutes with taking order statistics: `(F ∘ y)₍ᵢ₎ = F(y₍ᵢ₎)` -/
theorem orderStat_comp_monotone {n : ℕ} (F : ℝ → ℝ) (hF : Monotone F) (y : Fin n → ℝ) (i : Fin n) :
    orderStat (F ∘ y) i = F (orderStat y i) := Opda.RectProbP.orderStat_comp_mono hF y i

/-- **C01, end to end, for every continuous distribution**: let `ν` be a probability measure on `ℝ` with continuous
distribution function `F = cdfOf ν`, and let the level tables `L`, `U : ℕ → ℝ` satisfy `L 0 ≤ 0`, `1 ≤ U n` and have the
rational entries `L (i+1) = αᵢ`, `U i = βᵢ` (`i < n`) in `[0,1]`.  For `n` independent draws `y` from `ν`, the probability
that the band contains the TRUE distribution function at **every** `t` — `L_{k(t)} ≤ F t ≤ U_{k(t)}`, `k(t)` the number of
sample points `≤ t` (`IsCount` on the sorted sample `sortedSeq y`, exactly the left-hand side of `band_contains_iff_box`)
— equals `coverage α β`, the rational number the driver op `band.rect` returns; in particular it does not depend on `ν`.
Proof: almost surely `F(Yⱼ)` have no ties (they are independent uniforms, `pit_product`), so `band_contains_iff_box`
applies and, `F` being non-decreasing, `F(Y₍ᵢ₎) = (F∘Y)₍ᵢ₎`; the event is the preimage under `y ↦ F ∘ y` of the rectangle
`{αᵢ ≤ u₍ᵢ₎ ≤ βᵢ ∀ i}` whose uniform probability is `rect_coverage_is_volume_order_statistics`. -/
theorem band_coverage_any_continuous_F (ν : Measure ℝ) [IsProbabilityMeasure ν] (hF : Continuous (cdfOf ν))
    (alpha beta : List ℚ) (hlen : beta.length = alpha.length)
    (hα : ∀ x ∈ alpha, 0 ≤ x ∧ x ≤ 1) (hβ : ∀ x ∈ beta, 0 ≤ x ∧ x ≤ 1)
    (L U : ℕ → ℝ) (hL0 : L 0 ≤ 0) (hUn : 1 ≤ U alpha.length)
    (hL : ∀ i (h : i < alpha.length), L (i + 1) = ((alpha[i] : ℚ) : ℝ))
    (hU : ∀ i (h : i < beta.length), U i = ((beta[i] : ℚ) : ℝ)) :
    (Measure.pi fun _ : Fin alpha.length => ν)
      {y | ∀ t k, IsCount alpha.length (sortedSeq y) t k → L k ≤ cdfOf ν t ∧ cdfOf ν t ≤ U k}
      = ENNReal.ofReal ((coverage alpha beta : ℚ) : ℝ) :=
  Opda.RectProbP.cdfPi_band hF alpha beta hlen hα hβ L U hL0 hUn hL hU

/-- non-vacuity: the standard normal law is a probability measure with a continuous distribution function (so are all
atomless laws, `continuous_cdf_iff_no_atoms`); the table hypotheses are those of `band_coverage_is_rect_coverage`,
shown satisfiable above. -/
example : ∃ (ν : Measure ℝ) (_ : IsProbabilityMeasure ν), Continuous (cdfOf ν) :=
  ⟨ProbabilityTheory.gaussianReal 0 1, inferInstance, Opda.RectProbP.gaussian_cdfOf_continuous⟩

/-- non-vacuity with the uniform law itself -/
example : ∃ (ν : Measure ℝ) (_ : IsProbabilityMeasure ν), Continuous (cdfOf ν) :=
  ⟨(volume : Measure ℝ).restrict (Set.Icc 0 1), ⟨by simp⟩,
    @Opda.RectProbP.cdfOf_continuous_of_nullSingleton _ ⟨by simp⟩ inferInstance⟩

end pit

/-! ### ld methods: the coverage of a simulated order statistic follows a Beta law -/
section beta
open Opda.RectProb Opda.RectProbP MeasureTheory Opda.BetaCheck Opda.BetaBinom
open scoped Finset

/-- **the number of draws below `t` is binomial**: for `N` independent draws from a σ-finite `ν` on `ℝ`, the probability
that at least `m` of them are `≤ t` is `Σ_{S ⊆ {1..N}, |S| ≥ m} ν(-∞,t]^{|S|} · ν(t,∞)^{N−|S|}` (the event is the
disjoint union over `S` of the boxes "exactly the coordinates in `S` are `≤ t`"; `Measure.pi_pi`). -/
theorem count_below_is_binomial (N : ℕ) (ν : Measure ℝ) [SigmaFinite ν] (t : ℝ) (m : ℕ) :
    (Measure.pi fun _ : Fin N => ν) {u | m ≤ #{j | u j ≤ t}}
      = ∑ S ∈ (Finset.univ.filter fun S : Finset (Fin N) => m ≤ #S),
          ν (Set.Iic t) ^ #S * ν (Set.Ioi t) ^ (N - #S) :=
  Opda.OrderStatBeta.pi_count_ge ν t m

/-- **distribution function of a uniform order statistic**: under the law of `N` independent uniforms on `[0,1]`, for
`k : Fin N` (0-based: `orderStat u k` is the `(k+1)`-th smallest) and `t ∈ [0,1]`,
`P[U₍ₖ₎ ≤ t] = Σ_{j=k+1}^{N} C(N,j) t^j (1−t)^{N−j}` — "at least `k+1` of the `N` points are `≤ t`"
(`orderStat_le_iff_count`), a Binomial(N,t) upper tail (`count_below_is_binomial`, grouped by `|S|`). -/
theorem uniform_order_statistic_cdf (N : ℕ) (k : Fin N) (t : ℝ) (ht0 : 0 ≤ t) (ht1 : t ≤ 1) :
    (Measure.pi fun _ : Fin N => (volume : Measure ℝ).restrict (Set.Icc 0 1)) {u | orderStat u k ≤ t}
      = ENNReal.ofReal (∑ j ∈ Finset.Icc (k.val + 1) N, (N.choose j : ℝ) * t ^ j * (1 - t) ^ (N - j)) :=
  Opda.OrderStatBeta.unif_orderStat_cdf k ht0 ht1

/-- that polynomial is `G (k+1) (N−k) t`, the Beta(k+1, N−k) distribution function of C15 (`C15.beta_cdf_model_exact`:
the term the driver evaluates in ℚ; `C15.beta_cdf_eq_integral`, `C15.beta_density_normalised`: it is the integral of the
normalised Beta density) -/
theorem order_statistic_polynomial_is_beta_cdf (N : ℕ) (k : Fin N) (t : ℝ) :
    ∑ j ∈ Finset.Icc (k.val + 1) N, (N.choose j : ℝ) * t ^ j * (1 - t) ^ (N - j) = G (k.val + 1) (N - k.val) t :=
  Opda.OrderStatBeta.binomTail_eq_G k t

/-- **a uniform order statistic is Beta distributed**: `P[U₍ₖ₎ ≤ t] = ∫₀ᵗ κ · s^k (1−s)^{N−1−k} ds` with
`κ = betaNorm (k+1) (N−k) = N·C(N−1,k) = 1/B(k+1, N−k)` (the density integrates to one over `[0,1]`:
`C15.beta_density_normalised`).  1-based: the `i`-th smallest of `N` independent uniforms is Beta(i, N+1−i). -/
theorem uniform_order_statistic_is_beta (N : ℕ) (k : Fin N) (t : ℝ) (ht0 : 0 ≤ t) (ht1 : t ≤ 1) :
    (Measure.pi fun _ : Fin N => (volume : Measure ℝ).restrict (Set.Icc 0 1)) {u | orderStat u k ≤ t}
      = ENNReal.ofReal (∫ s in (0:ℝ)..t,
          (betaNorm (k.val + 1) (N - k.val) : ℝ) * (s ^ k.val * (1 - s) ^ (N - 1 - k.val))) :=
  Opda.OrderStatBeta.unif_orderStat_beta_integral k ht0 ht1

/-- the normalising constant in closed form -/
theorem betaNorm_order_statistic (N : ℕ) (k : Fin N) :
    betaNorm (k.val + 1) (N - k.val) = N * Nat.choose (N - 1) k.val := Opda.OrderStatBeta.betaNorm_orderStat k

/-- **the coverage of a simulated order statistic is Beta distributed** (what DESIGN §8.7 used to cite): let `ν` be a
probability measure on `ℝ` with continuous distribution function `F = cdfOf ν` — for the ld methods, the law of the
test statistic `T = max_i cov_i(U₍ᵢ₎)`, whose distribution function at a critical value is the coverage of the band
with that critical value (`ld_box_iff_stat`).  For `N` independent draws `T₁..T_N` from `ν` and `k : Fin N`,
`P[F(T₍ₖ₎) ≤ t] = ∫₀ᵗ betaPDF(k+1, N−k)` for `t ∈ [0,1]`: the coverage obtained by using the `(k+1)`-th smallest
simulated statistic as critical value follows Beta(k+1, N−k) (1-based: `F(T_(i)) ∼ Beta(i, N+1−i)`), whatever `ν` is.
Proof: `pit_product`, `orderStat_comp_monotone`, `uniform_order_statistic_is_beta`.
What this does NOT say: that the law of the code's statistic has a continuous distribution function (hypothesis `hF`),
nor that `np.quantile(ts, confidence)` is exactly an order statistic — it is a linear interpolation between two adjacent
ones, see `interpolated_critical_value_coverage_between_betas`. -/
theorem simulated_critical_value_coverage_is_beta (ν : Measure ℝ) [IsProbabilityMeasure ν]
    (hF : Continuous (cdfOf ν)) (N : ℕ) (k : Fin N) (t : ℝ) (ht0 : 0 ≤ t) (ht1 : t ≤ 1) :
    (Measure.pi fun _ : Fin N => ν) {y | cdfOf ν (orderStat y k) ≤ t}
      = ENNReal.ofReal (∫ s in (0:ℝ)..t,
          (betaNorm (k.val + 1) (N - k.val) : ℝ) * (s ^ k.val * (1 - s) ^ (N - 1 - k.val))) :=
  Opda.OrderStatBeta.orderStat_coverage_beta hF k ht0 ht1

/-- the same with the binomial-tail polynomial (the exact-ℚ term `beta.cdf` of the driver, `C15.beta_cdf_model_exact`) -/
theorem simulated_critical_value_coverage_cdf (ν : Measure ℝ) [IsProbabilityMeasure ν]
    (hF : Continuous (cdfOf ν)) (N : ℕ) (k : Fin N) (t : ℝ) (ht0 : 0 ≤ t) (ht1 : t ≤ 1) :
    (Measure.pi fun _ : Fin N => ν) {y | cdfOf ν (orderStat y k) ≤ t}
      = ENNReal.ofReal (∑ j ∈ Finset.Icc (k.val + 1) N, (N.choose j : ℝ) * t ^ j * (1 - t) ^ (N - j)) :=
  Opda.OrderStatBeta.orderStat_coverage_cdf hF k ht0 ht1

/-- **the interpolated quantile the code uses**: `np.quantile(ts, q)` (default `method="linear"`) returns
`T₍ₖ₎ + λ (T₍ₖ₊₁₎ − T₍ₖ₎)` with, 0-based, `k = ⌊q(N−1)⌋` and `λ = q(N−1) − k ∈ [0,1)` (1-based: between the `k`-th and
`(k+1)`-th smallest with `k = ⌊q(N−1)⌋+1`; this description of numpy is NOT formalised).  For any `k ≤ k'`, `λ ∈ [0,1]`,
the coverage `F(c)` of `c = T₍ₖ₎ + λ (T₍ₖ'₎ − T₍ₖ₎)` satisfies `F(T₍ₖ₎) ≤ F(c) ≤ F(T₍ₖ'₎)`, hence its distribution
function is bracketed by those of the two Beta laws:
`BetaCDF(k'+1, N−k')(t) ≤ P[F(c) ≤ t] ≤ BetaCDF(k+1, N−k)(t)`.  Nothing more is claimed: the coverage of the code's
critical value is NOT itself Beta distributed; it lies between two such variables, which is why the harness accepts
the lower quantile of the smaller law up to the upper quantile of the larger one. -/
theorem interpolated_critical_value_coverage_between_betas (ν : Measure ℝ) [IsProbabilityMeasure ν]
    (hF : Continuous (cdfOf ν)) (N : ℕ) (k k' : Fin N) (hkk : k ≤ k') (lam : ℝ) (h0 : 0 ≤ lam) (h1 : lam ≤ 1)
    (t : ℝ) (ht0 : 0 ≤ t) (ht1 : t ≤ 1) :
    ENNReal.ofReal (G (k'.val + 1) (N - k'.val) t)
        ≤ (Measure.pi fun _ : Fin N => ν) {y | cdfOf ν (orderStat y k + lam * (orderStat y k' - orderStat y k)) ≤ t}
      ∧ (Measure.pi fun _ : Fin N => ν) {y | cdfOf ν (orderStat y k + lam * (orderStat y k' - orderStat y k)) ≤ t}
        ≤ ENNReal.ofReal (G (k.val + 1) (N - k.val) t) :=
  Opda.OrderStatBeta.interpolated_quantile_coverage hF k k' hkk h0 h1 ht0 ht1

/-- the general form: any critical value `c(T)` with `T₍ₖ₎ ≤ c(T) ≤ T₍ₖ'₎` for every sample -/
theorem critical_value_between_order_statistics (ν : Measure ℝ) [IsProbabilityMeasure ν]
    (hF : Continuous (cdfOf ν)) (N : ℕ) (k k' : Fin N) (c : (Fin N → ℝ) → ℝ)
    (hc : ∀ y, orderStat y k ≤ c y ∧ c y ≤ orderStat y k') (t : ℝ) (ht0 : 0 ≤ t) (ht1 : t ≤ 1) :
    ENNReal.ofReal (G (k'.val + 1) (N - k'.val) t) ≤ (Measure.pi fun _ : Fin N => ν) {y | cdfOf ν (c y) ≤ t}
      ∧ (Measure.pi fun _ : Fin N => ν) {y | cdfOf ν (c y) ≤ t} ≤ ENNReal.ofReal (G (k.val + 1) (N - k.val) t) :=
  Opda.OrderStatBeta.coverage_between_betas hF k k' c hc ht0 ht1

/-- non-vacuity at the code's size: `N = 100 000` trials, `confidence = 0.95`: `k = ⌊0.95·99 999⌋ = 94 999` (0-based) and
`k' = 95 000`, `λ = 0.05`, a law with continuous distribution function (standard normal), a level `t ∈ [0,1]` -/
example : ∃ (ν : Measure ℝ) (_ : IsProbabilityMeasure ν) (N : ℕ) (k k' : Fin N) (lam t : ℝ),
    Continuous (cdfOf ν) ∧ k ≤ k' ∧ 0 ≤ lam ∧ lam ≤ 1 ∧ 0 ≤ t ∧ t ≤ 1 :=
  ⟨ProbabilityTheory.gaussianReal 0 1, inferInstance, 100000, ⟨94999, by norm_num⟩, ⟨95000, by norm_num⟩, 1/20, 19/20,
    Opda.RectProbP.gaussian_cdfOf_continuous, by simp [Fin.le_def], by norm_num, by norm_num, by norm_num, by norm_num⟩

/-- a worked value: the smaller of two independent uniforms is `≤ 1/2` with probability `3/4` -/
example : (Measure.pi fun _ : Fin 2 => (volume : Measure ℝ).restrict (Set.Icc 0 1)) {u | orderStat u 0 ≤ 1/2}
    = ENNReal.ofReal (3/4) := by
  rw [uniform_order_statistic_cdf 2 0 (1/2) (by norm_num) (by norm_num)]
  congr 1
  norm_num [Finset.sum_Icc_succ_top, Nat.choose]

end beta

/-! ### ld methods: the simulated statistic has a continuous distribution function -/
section ldstat
open Opda.RectProb Opda.RectProbP MeasureTheory Opda.BetaCheck Opda.BetaBinom Opda.LdStat

/-- the simulated statistic: `ldStat c u = max_i c_i(u₍ᵢ₎)` over the `n ≥ 1` order statistics of `u` -/
theorem ldStat_spec (n : ℕ) [NeZero n] (c : Fin n → ℝ → ℝ) (u : Fin n → ℝ) :
    ldStat c u = Finset.univ.sup' Finset.univ_nonempty fun i => c i (orderStat u i) := rfl

/-- `T ≤ t` iff every `cov_i(U₍ᵢ₎) ≤ t` — the right-hand side of `ld_box_iff_stat` -/
theorem ld_statistic_le_iff (n : ℕ) [NeZero n] (c : Fin n → ℝ → ℝ) (u : Fin n → ℝ) (t : ℝ) :
    ldStat c u ≤ t ↔ ∀ i, c i (orderStat u i) ≤ t := ldStat_le_iff c u t

/-- its law under `n` independent uniforms on `[0,1]` -/
theorem ldLaw_spec (n : ℕ) [NeZero n] (c : Fin n → ℝ → ℝ) :
    ldLaw c = (Measure.pi fun _ : Fin n => (volume : Measure ℝ).restrict (Set.Icc 0 1)).map (ldStat c) := rfl

/-- **the simulated statistic has no atoms**: let `c i : ℝ → ℝ` (`i < n`, `n ≥ 1`) be any functions whose level sets inside
`[0,1]` are finite.  Under the law of `n` independent uniforms on `[0,1]`, `P[max_i c_i(U₍ᵢ₎) = t] = 0` for every `t`.
Proof: `T(u) = t` forces some `c_i(u₍ᵢ₎) = t`, so some coordinate `u_j = u₍ᵢ₎` lies outside `[0,1]` or in one of the `n`
finite level sets — a null set for the uniform law of that coordinate (`Measure.pi_eval_preimage_null`). -/
theorem ld_statistic_no_atoms (n : ℕ) [NeZero n] (c : Fin n → ℝ → ℝ)
    (hlev : ∀ i t, {x | x ∈ Set.Icc (0:ℝ) 1 ∧ c i x = t}.Finite) (t : ℝ) :
    (Measure.pi fun _ : Fin n => (volume : Measure ℝ).restrict (Set.Icc 0 1)) {u | ldStat c u = t} = 0 :=
  Opda.LdStat.ldStat_no_atoms c hlev t

/-- the same under the weaker hypothesis that the level sets inside `[0,1]` are Lebesgue-null (e.g. countable) -/
theorem ld_statistic_no_atoms_of_null_level_sets (n : ℕ) [NeZero n] (c : Fin n → ℝ → ℝ)
    (hlev : ∀ i t, (volume : Measure ℝ) {x | x ∈ Set.Icc (0:ℝ) 1 ∧ c i x = t} = 0) (t : ℝ) :
    (Measure.pi fun _ : Fin n => (volume : Measure ℝ).restrict (Set.Icc 0 1)) {u | ldStat c u = t} = 0 :=
  Opda.LdStat.ldStat_no_atoms_of_null c hlev t

/-- for measurable `c i` the law of the statistic is a probability measure on `ℝ` … -/
theorem ld_law_is_probability_measure (n : ℕ) [NeZero n] (c : Fin n → ℝ → ℝ) (hc : ∀ i, Measurable (c i)) :
    IsProbabilityMeasure (ldLaw c) := ldLaw_isProbabilityMeasure hc

/-- … whose distribution function at `t` is `P[cov_i(U₍ᵢ₎) ≤ t ∀ i]` — by `ld_box_iff_stat` the probability that the
uniform order statistics pass through all pointwise intervals at critical value `t`, i.e. the coverage of the ld band
with that critical value … -/
theorem ld_law_cdf_is_band_coverage (n : ℕ) [NeZero n] (c : Fin n → ℝ → ℝ) (hc : ∀ i, Measurable (c i)) (t : ℝ) :
    cdfOf (ldLaw c) t
      = ((Measure.pi fun _ : Fin n => (volume : Measure ℝ).restrict (Set.Icc 0 1))
          {u | ∀ i, c i (orderStat u i) ≤ t}).toReal := ldLaw_cdf hc t

/-- … and **continuous** — the hypothesis `hF` of the Beta-law theorems above, for every family of measurable coverage
functions with finite level sets in `[0,1]`. -/
theorem ld_statistic_cdf_continuous (n : ℕ) [NeZero n] (c : Fin n → ℝ → ℝ) (hc : ∀ i, Measurable (c i))
    (hlev : ∀ i t, {x | x ∈ Set.Icc (0:ℝ) 1 ∧ c i x = t}.Finite) :
    Continuous (cdfOf (ldLaw c)) := ldLaw_cdf_continuous hc hlev

/-- the equal-tailed coverage function of C15 (`C15.equal_tailed`: `x ∈ I(c) ↔ etCov G x ≤ c`) -/
theorem etCov_spec (G : ℝ → ℝ) (x : ℝ) : etCov G x = 2 * |1 / 2 - G x| := rfl

/-- **equal-tailed level sets**: for `G` strictly increasing on `[0,1]`, `{x ∈ [0,1] | 2·|1/2 − G x| = t}` has at most two
points (`G x = 1/2 ∓ t/2`) -/
theorem equal_tailed_level_sets (G : ℝ → ℝ) (hG : StrictMonoOn G (Set.Icc 0 1)) (t : ℝ) :
    {x | x ∈ Set.Icc (0:ℝ) 1 ∧ etCov G x = t}.Finite ∧ {x | x ∈ Set.Icc (0:ℝ) 1 ∧ etCov G x = t}.encard ≤ 2 :=
  ⟨etCov_level_finite hG t, etCov_level_card_le_two hG t⟩

/-- **equal-tailed instance**: any measurable `G i` strictly increasing on `[0,1]` -/
theorem ld_equal_tailed_statistic_cdf_continuous (n : ℕ) [NeZero n] (G : Fin n → ℝ → ℝ) (hm : ∀ i, Measurable (G i))
    (hG : ∀ i, StrictMonoOn (G i) (Set.Icc 0 1)) :
    Continuous (cdfOf (ldLaw fun i => etCov (G i))) := etLaw_cdf_continuous hm hG

/-- the Beta(a,b) distribution function of C15 (`G a b`, the binomial tail polynomial) is strictly increasing on `[0,1]`
for `a, b ≥ 1` and continuous -/
theorem beta_cdf_strictly_increasing (a b : ℕ) (ha : 0 < a) (hb : 0 < b) :
    StrictMonoOn (G a b) (Set.Icc 0 1) ∧ Continuous (G a b) := ⟨G_strictMonoOn a b ha hb, continuous_G a b⟩

/-- the coverage functions of `ld_equal_tailed`: `betaEtCov n i x = 2·|1/2 − BetaCDF(i+1, n−i)(x)|`, `i` 0-based -/
theorem betaEtCov_spec (n : ℕ) (i : Fin n) (x : ℝ) :
    betaEtCov n i x = 2 * |1 / 2 - G (i.val + 1) (n - i.val) x| := rfl

/-- **the statistic of `ld_equal_tailed` has a continuous distribution function**, for every `n ≥ 1`; no hypothesis left -/
theorem ld_equal_tailed_cdf_continuous (n : ℕ) [NeZero n] : Continuous (cdfOf (ldLaw (betaEtCov n))) :=
  betaEt_cdf_continuous n

/-- **`simulated_critical_value_coverage_is_beta` without the continuity hypothesis, for `ld_equal_tailed`**: let `ν` be
the law of `T = max_i 2·|1/2 − BetaCDF(i+1, n−i)(U₍ᵢ₎)|` for `n ≥ 1` independent uniforms and `F` its distribution function
(`F t` = coverage of the band with critical value `t`, `ld_law_cdf_is_band_coverage`).  For `N` independent draws `T₁..T_N`
of the statistic and `k : Fin N`, `P[F(T₍ₖ₎) ≤ t] = ∫₀ᵗ betaPDF(k+1, N−k)` for `t ∈ [0,1]`.
Still outside: that the code's floats realise these real functions, and `np.quantile` (next theorem). -/
theorem ld_equal_tailed_critical_value_coverage_is_beta (n : ℕ) [NeZero n] (N : ℕ) (k : Fin N) (t : ℝ)
    (ht0 : 0 ≤ t) (ht1 : t ≤ 1) :
    (Measure.pi fun _ : Fin N => ldLaw (betaEtCov n)) {y | cdfOf (ldLaw (betaEtCov n)) (orderStat y k) ≤ t}
      = ENNReal.ofReal (∫ s in (0:ℝ)..t,
          (betaNorm (k.val + 1) (N - k.val) : ℝ) * (s ^ k.val * (1 - s) ^ (N - 1 - k.val))) :=
  ld_coverage_beta (betaEt_measurable n) (betaEt_level_null n) k ht0 ht1

/-- … and the interpolated quantile (`interpolated_critical_value_coverage_between_betas`) for `ld_equal_tailed`,
unconditionally -/
theorem ld_equal_tailed_interpolated_critical_value_between_betas (n : ℕ) [NeZero n] (N : ℕ) (k k' : Fin N)
    (hkk : k ≤ k') (lam : ℝ) (h0 : 0 ≤ lam) (h1 : lam ≤ 1) (t : ℝ) (ht0 : 0 ≤ t) (ht1 : t ≤ 1) :
    ENNReal.ofReal (G (k'.val + 1) (N - k'.val) t)
        ≤ (Measure.pi fun _ : Fin N => ldLaw (betaEtCov n))
            {y | cdfOf (ldLaw (betaEtCov n)) (orderStat y k + lam * (orderStat y k' - orderStat y k)) ≤ t}
      ∧ (Measure.pi fun _ : Fin N => ldLaw (betaEtCov n))
            {y | cdfOf (ldLaw (betaEtCov n)) (orderStat y k + lam * (orderStat y k' - orderStat y k)) ≤ t}
        ≤ ENNReal.ofReal (G (k.val + 1) (N - k.val) t) :=
  ld_interpolated_between_betas (betaEt_measurable n) (betaEt_level_null n) k k' hkk h0 h1 ht0 ht1

/-- **any family with finite level sets — the form that covers `ld_highest_density`**: the Beta law of the coverage of a
simulated order statistic for every family of measurable coverage functions with finite level sets in `[0,1]`.  For the
highest-density family (coverage of the smallest highest-density interval containing `x`, `Opda.BetaHdV.hdcov`, C15
`hdcov_spec`) the finiteness `hlev` is a theorem (`ld_highest_density_coverage_functions_v_shaped`: strictly decreasing left
of the mode, strictly increasing right of it), and the hypothesis-free instance is
`ld_highest_density_critical_value_coverage_is_beta` below. -/
theorem ld_critical_value_coverage_is_beta_of_finite_level_sets (n : ℕ) [NeZero n] (c : Fin n → ℝ → ℝ)
    (hc : ∀ i, Measurable (c i)) (hlev : ∀ i t, {x | x ∈ Set.Icc (0:ℝ) 1 ∧ c i x = t}.Finite)
    (N : ℕ) (k : Fin N) (t : ℝ) (ht0 : 0 ≤ t) (ht1 : t ≤ 1) :
    (Measure.pi fun _ : Fin N => ldLaw c) {y | cdfOf (ldLaw c) (orderStat y k) ≤ t}
      = ENNReal.ofReal (∫ s in (0:ℝ)..t,
          (betaNorm (k.val + 1) (N - k.val) : ℝ) * (s ^ k.val * (1 - s) ^ (N - 1 - k.val))) :=
  ld_coverage_beta hc (fun i t => (hlev i t).measure_zero _) k ht0 ht1

/-- a function strictly decreasing on `[0,m]` and strictly increasing on `[m,1]` (the shape of both coverage functions:
about the median for equal-tailed, about the mode for highest-density) has finite level sets in `[0,1]` -/
theorem v_shaped_level_sets (c : ℝ → ℝ) (m : ℝ) (hl : StrictAntiOn c (Set.Icc 0 m)) (hr : StrictMonoOn c (Set.Icc m 1))
    (t : ℝ) : {x | x ∈ Set.Icc (0:ℝ) 1 ∧ c x = t}.Finite := vShape_level_finite hl hr t

/-- hence a continuous distribution function for every measurable V-shaped family -/
theorem ld_v_shaped_statistic_cdf_continuous (n : ℕ) [NeZero n] (c : Fin n → ℝ → ℝ) (hc : ∀ i, Measurable (c i))
    (m : Fin n → ℝ) (hl : ∀ i, StrictAntiOn (c i) (Set.Icc 0 (m i))) (hr : ∀ i, StrictMonoOn (c i) (Set.Icc (m i) 1)) :
    Continuous (cdfOf (ldLaw c)) := vShapeLaw_cdf_continuous hc m hl hr

/-! #### `ld_highest_density`: the coverage functions are V-shaped, so nothing is left as a hypothesis (`n ≥ 2`) -/

/-- the coverage functions of `ld_highest_density`: `betaHdCov n i = hdcov (i+1) (n−i)`, `i` 0-based — the mass under
Beta(i+1, n−i) of the level set of its density through `x` (C15 `hdcov_spec`), i.e. of the smallest highest-density interval
containing `x` (C15 `hd_coverage_is_mass_of_shortest_interval_left/right`) -/
theorem betaHdCov_spec (n : ℕ) (i : Fin n) : Opda.BetaHdV.betaHdCov n i = Opda.BetaHdV.hdcov (i.val + 1) (n - i.val) := rfl

/-- **the shape that was a hypothesis**: for `n ≥ 2` every coverage function of `ld_highest_density` is measurable, strictly
decreasing on `[0, mᵢ]` and strictly increasing on `[mᵢ, 1]`, `mᵢ = i/(n−1)` the mode of Beta(i+1, n−i) (for `i = 0` and
`i = n−1` the density is monotone, `mᵢ` is an end point and the function is strictly monotone on `[0,1]`); hence its level
sets in `[0,1]` have at most two points -/
theorem ld_highest_density_coverage_functions_v_shaped (n : ℕ) (hn : 2 ≤ n) (i : Fin n) :
    Measurable (Opda.BetaHdV.betaHdCov n i)
      ∧ Opda.BetaHdV.betaHdMode n i = (i.val : ℝ) / ((n : ℝ) - 1)
      ∧ StrictAntiOn (Opda.BetaHdV.betaHdCov n i) (Set.Icc 0 (Opda.BetaHdV.betaHdMode n i))
      ∧ StrictMonoOn (Opda.BetaHdV.betaHdCov n i) (Set.Icc (Opda.BetaHdV.betaHdMode n i) 1)
      ∧ ∀ t, {x | x ∈ Set.Icc (0:ℝ) 1 ∧ Opda.BetaHdV.betaHdCov n i x = t}.Finite :=
  ⟨Opda.BetaHdV.betaHd_measurable n hn i, Opda.BetaHdV.betaHdMode_eq n i, Opda.BetaHdV.betaHd_strictAntiOn n hn i,
   Opda.BetaHdV.betaHd_strictMonoOn n hn i, Opda.BetaHdV.betaHd_level_finite n hn i⟩

/-- **the statistic of `ld_highest_density` has a continuous distribution function**, for every `n ≥ 2`; no hypothesis left
(`ld_v_shaped_statistic_cdf_continuous` instantiated with `c i = hdcov (i+1) (n−i)`) -/
theorem ld_highest_density_cdf_continuous (n : ℕ) [NeZero n] (hn : 2 ≤ n) :
    Continuous (cdfOf (ldLaw (Opda.BetaHdV.betaHdCov n))) := Opda.BetaHdV.betaHd_cdf_continuous n hn

/-- **`simulated_critical_value_coverage_is_beta` without the continuity hypothesis, for `ld_highest_density`**: let `ν` be
the law of `T = max_i hdcov(i+1, n−i)(U₍ᵢ₎)` for `n ≥ 2` independent uniforms and `F` its distribution function (`F t` =
coverage of the band with critical value `t`, `ld_law_cdf_is_band_coverage`).  For `N` independent draws `T₁..T_N` of the
statistic and `k : Fin N`, `P[F(T₍ₖ₎) ≤ t] = ∫₀ᵗ betaPDF(k+1, N−k)` for `t ∈ [0,1]`.
Still outside: that the code's floats (scipy `beta.cdf/pdf`, float bisection for the partner) realise these real functions,
and `np.quantile` (next theorem). -/
theorem ld_highest_density_critical_value_coverage_is_beta (n : ℕ) [NeZero n] (hn : 2 ≤ n) (N : ℕ) (k : Fin N) (t : ℝ)
    (ht0 : 0 ≤ t) (ht1 : t ≤ 1) :
    (Measure.pi fun _ : Fin N => ldLaw (Opda.BetaHdV.betaHdCov n))
        {y | cdfOf (ldLaw (Opda.BetaHdV.betaHdCov n)) (orderStat y k) ≤ t}
      = ENNReal.ofReal (∫ s in (0:ℝ)..t,
          (betaNorm (k.val + 1) (N - k.val) : ℝ) * (s ^ k.val * (1 - s) ^ (N - 1 - k.val))) :=
  ld_coverage_beta (Opda.BetaHdV.betaHd_measurable n hn) (Opda.BetaHdV.betaHd_level_null n hn) k ht0 ht1

/-- … and the interpolated quantile (`interpolated_critical_value_coverage_between_betas`) for `ld_highest_density`,
unconditionally -/
theorem ld_highest_density_interpolated_critical_value_between_betas (n : ℕ) [NeZero n] (hn : 2 ≤ n) (N : ℕ)
    (k k' : Fin N) (hkk : k ≤ k') (lam : ℝ) (h0 : 0 ≤ lam) (h1 : lam ≤ 1) (t : ℝ) (ht0 : 0 ≤ t) (ht1 : t ≤ 1) :
    ENNReal.ofReal (G (k'.val + 1) (N - k'.val) t)
        ≤ (Measure.pi fun _ : Fin N => ldLaw (Opda.BetaHdV.betaHdCov n))
            {y | cdfOf (ldLaw (Opda.BetaHdV.betaHdCov n)) (orderStat y k + lam * (orderStat y k' - orderStat y k)) ≤ t}
      ∧ (Measure.pi fun _ : Fin N => ldLaw (Opda.BetaHdV.betaHdCov n))
            {y | cdfOf (ldLaw (Opda.BetaHdV.betaHdCov n)) (orderStat y k + lam * (orderStat y k' - orderStat y k)) ≤ t}
        ≤ ENNReal.ofReal (G (k.val + 1) (N - k.val) t) :=
  ld_interpolated_between_betas (Opda.BetaHdV.betaHd_measurable n hn) (Opda.BetaHdV.betaHd_level_null n hn) k k' hkk h0 h1
    ht0 ht1

/-- non-vacuity: the hypotheses of the general theorems hold for the equal-tailed family at `n = 3` -/
example : ∃ c : Fin 3 → ℝ → ℝ, (∀ i, Measurable (c i)) ∧ ∀ i t, {x | x ∈ Set.Icc (0:ℝ) 1 ∧ c i x = t}.Finite :=
  ⟨betaEtCov 3, betaEt_measurable 3, betaEt_level_finite 3⟩

/-- … and for the highest-density family at `n = 3` -/
example : ∃ c : Fin 3 → ℝ → ℝ, (∀ i, Measurable (c i)) ∧ ∀ i t, {x | x ∈ Set.Icc (0:ℝ) 1 ∧ c i x = t}.Finite :=
  ⟨Opda.BetaHdV.betaHdCov 3, Opda.BetaHdV.betaHd_measurable 3 (by norm_num),
    Opda.BetaHdV.betaHd_level_finite 3 (by norm_num)⟩

/-- non-vacuity of the V-shape hypotheses: `x ↦ |x − 1/2|` about `m = 1/2` -/
example : StrictAntiOn (fun x : ℝ => |x - 1 / 2|) (Set.Icc 0 (1 / 2))
    ∧ StrictMonoOn (fun x : ℝ => |x - 1 / 2|) (Set.Icc (1 / 2) 1) := by
  constructor
  · intro x hx y hy hxy
    simp only
    rw [abs_of_nonpos (show x - 1 / 2 ≤ 0 by linarith [hx.2]), abs_of_nonpos (show y - 1 / 2 ≤ 0 by linarith [hy.2])]
    linarith
  · intro x hx y hy hxy
    simp only
    rw [abs_of_nonneg (show 0 ≤ x - 1 / 2 by linarith [hx.1]), abs_of_nonneg (show 0 ≤ y - 1 / 2 by linarith [hy.1])]
    linarith

end ldstat

end Opda.Props.C01

#opda_audit Opda.Props.C01
