import OpdaProofs.Audit
import OpdaProofs.Sample
import OpdaProofs.ExtInst
import OpdaProofs.NoisyLaw
/-!
# C13 — `sample()` draws from the distribution its `cdf` describes

Property theorems only (lemmas in `OpdaProofs/Sample.lean`, `InverseTransform.lean`, `QuadLaw.lean`, `QuadInv.lean`,
`Emp.lean`; models in `OpdaModel/Sample.lean`).  `volume` is Lebesgue measure on `ℝ`: "`U` uniform on `[0,1)`"
is the restriction to `Ico 0 1`, which is what `Generator.uniform(0, 1)` / `Generator.random()` document.

What is proved: the *functions* the three `sample` methods apply to the generator's primitives push the uniform
(resp. uniform × normal) law forward to the law the class's own `cdf` describes.  What is compared on every run
(`harness/corr_C13.py`, bitwise): that `sample(size, generator=g)` *is* that function of the primitives drawn from a
clone of `g`, for `size ∈ {None, k, (k₁,k₂), 0}`, with the requested shape.  What is trusted: numpy's `Generator`
(`uniform`/`random` uniform on `[0,1)`, `normal` normal, `integers` uniform on `{0,…,n−1}`, draws independent).
-/
namespace Opda.Props.C13
open MeasureTheory Set Opda.Emp Opda.Sample Opda.Wire

/-- **T1 inverse transform** (any preorder of values): if `Q` and `F` satisfy the Galois law on levels in `(0,1]`
then `P[Q(U) ≤ y] = F(y)`. -/
theorem inverse_transform {E : Type} [Preorder E] (Q : ℝ → E) (F : E → ℝ) (y : E) (hF0 : 0 ≤ F y) (hF1 : F y ≤ 1)
    (hgal : ∀ u, 0 < u → u ≤ 1 → (Q u ≤ y ↔ u ≤ F y)) :
    volume {u : ℝ | u ∈ Ioc (0:ℝ) 1 ∧ Q u ≤ y} = ENNReal.ofReal (F y) :=
  Opda.Sampling.inverse_transform Q F y hF0 hF1 hgal

/-! ### QuadraticDistribution.sample = `ppf(uniform)` -/

/-- the Galois law of the noiseless class, every `a < b`, `c ≥ 1`, both shapes -/
theorem quadratic_galois (d : Opda.Quad.Params ℝ) (hab : d.a < d.b) (hc : 0 < d.c) (y u : ℝ) (hu0 : 0 < u) (hu1 : u ≤ 1) :
    Opda.Quad.ppf d u ≤ y ↔ u ≤ Opda.Quad.cdf d y := quad_galois d hab hc y u hu0 hu1

/-- for `U` uniform on `[0,1)`: `P[sample ≤ y] = cdf(y)`, every `y` -/
theorem quadratic_sample_law (d : Opda.Quad.Params ℝ) (hab : d.a < d.b) (hc : 0 < d.c) (y : ℝ) :
    volume {u : ℝ | u ∈ Ico (0:ℝ) 1 ∧ quadSample d u ≤ y} = ENNReal.ofReal (Opda.Quad.cdf d y) :=
  quad_sample_law d hab hc y

/-- support clause: every draw lies in `[a, b]` (for every `u`, the model clips like the code) -/
theorem quadratic_sample_support (d : Opda.Quad.Params ℝ) (hab : d.a ≤ d.b) (hc : 0 < d.c) (u : ℝ) :
    d.a ≤ quadSample d u ∧ quadSample d u ≤ d.b := Opda.Quad.ppf_mem d hab hc u

/-! ### EmpiricalDistribution: through `ppf`, and as the code does it (`generator.choice`) -/

section emp
variable {E : Type} [LinearOrder E] [OrderBot E] [OrderTop E]

/-- inverse transform through the empirical quantile function (C03's Galois law) -/
theorem empirical_ppf_sample_law (a b y : E) (obs : List (E × ℝ)) (hn : NonNeg obs) (htot : 0 < total obs)
    (hay : a ≤ y) :
    volume {u : ℝ | u ∈ Ioc (0:ℝ) 1 ∧ ppf a (support ⊥ ⊤ a b obs) u ≤ y}
      = ENNReal.ofReal (cdf (support ⊥ ⊤ a b obs) y) := emp_ppf_sample_law a b y obs hn htot hay

omit [OrderBot E] [OrderTop E] in
/-- **T3** `generator.choice(ys, p=ws)` = `ys[searchsortedRight(cumsum ws / Σws, U)]` reproduces each atom's
weight: `P[draw = v] = Σ{w_i : y_i = v} / Σ w_i`, for every observation list (ties, zero weights) -/
theorem choice_reproduces_weights (v : E) (obs : List (E × ℝ)) (hn : NonNeg obs) (htot : 0 < total obs) :
    volume {u : ℝ | u ∈ Ico (0:ℝ) 1 ∧ pick obs u = some v} = ENNReal.ofReal (weightEq v obs / total obs) :=
  pick_atom_volume v obs hn htot

/-- … and its distribution function is the class's own `cdf` (the C03 model), whatever bounds `a`, `b` -/
theorem choice_law_is_cdf (a b y : E) (obs : List (E × ℝ)) (hn : NonNeg obs) (htot : 0 < total obs) :
    volume {u : ℝ | u ∈ Ico (0:ℝ) 1 ∧ ∃ v, pick obs u = some v ∧ v ≤ y}
      = ENNReal.ofReal (cdf (support ⊥ ⊤ a b obs) y) := pick_cdf_volume a b y obs hn htot

end emp

/-- the same for an arbitrary event (no order on the values needed) -/
theorem choice_event_weight {E : Type} (p : E → Prop) [DecidablePred p] (obs : List (E × ℝ))
    (hn : ∀ q ∈ obs, 0 ≤ q.2) (htot : 0 < total obs) :
    volume {u : ℝ | u ∈ Ico (0:ℝ) 1 ∧ ∃ v, pick obs u = some v ∧ p v} = ENNReal.ofReal (weightP p obs / total obs) :=
  pick_volume p obs hn htot

/-- support clauses: for `u ∈ [0,1)` the index is in range, and the draw is an observation of positive weight -/
theorem choice_in_range {E : Type} (obs : List (E × ℝ)) (htot : 0 < total obs) (u : ℝ) (h0 : 0 ≤ u) (h1 : u < 1) :
    ∃ v, pick obs u = some v := pick_isSome obs htot u h0 h1

theorem choice_support {E : Type} (obs : List (E × ℝ)) (htot : 0 < total obs) (u : ℝ) (h0 : 0 ≤ u) (v : E)
    (hv : pick obs u = some v) : ∃ q ∈ obs, q.1 = v ∧ 0 < q.2 := pick_support obs htot u h0 v hv

/-- unweighted (`ws=None`, `generator.integers(0, n)`): counting form — the indices that return `v` are exactly as
many as `v` occurs in `ys`, so a uniform index gives `v` probability `count(v)/n` -/
theorem unweighted_choice_counts {E : Type} [DecidableEq E] (ys : List E) (v : E) :
    ((List.range ys.length).filter fun i => pickIndex ys i = some v).length = ys.count v := pickIndex_count ys v

/-- the term the driver evaluates (`Ext` values, exact `Rat` weights and `u`) picks the observation the real-number
statement is about -/
theorem choice_driver (obs : List (Ext × Rat)) (u : Rat) :
    pick (obs.map fun q => (q.1, (q.2 : ℝ))) (u : ℝ) = pick obs u := pick_cast obs u

/-! ### NoisyQuadraticDistribution.sample = quadratic part of a uniform + `normal(0, o)` -/

/-- **T2** on any probability space, `U` and `Z` independent, `Z` standard normal: the law of the draw is the
convolution of the law of the quadratic part with `N(0, o²)` (the C06 Spec, by definition of convolution) -/
theorem noisy_sample_law {Ω : Type} [MeasurableSpace Ω] (P : Measure Ω) [IsProbabilityMeasure P] (U Z : Ω → ℝ)
    (hU : Measurable U) (hZ : Measurable Z) (hind : ProbabilityTheory.IndepFun U Z P)
    (hZlaw : P.map Z = ProbabilityTheory.gaussianReal 0 1) (d : Opda.Quad.Params ℝ) (o : ℝ) :
    P.map (fun ω => noisySample d o (U ω) (Z ω))
      = (P.map (fun ω => noisyQuadPart d (U ω))) ∗ ProbabilityTheory.gaussianReal 0 (.mk (o ^ 2) (sq_nonneg o)) :=
  noisy_law P U Z hU hZ hind hZlaw d o

/-- **T2, distribution function**: `U` uniform on `[0,1)` (`uniform01 = volume.restrict (Ico 0 1)`), `Z` standard normal,
independent, `a < b`, `c ≥ 1`, `o > 0` ⇒ `P[sample ≤ y]` is the C06 Spec at `y`: `H((y−a)/(b−a))` (convex) resp.
`1 − H((b−y)/(b−a))` (concave), `H(t) = ∫₀¹ Φ((t−x)/s) d(x^{c/2})`, `s = o/(b−a)` — the distribution function of the
convolution of `noisy_sample_law` (`Opda.Props.C06.spec_is_law_of_sum`; independence + Fubini + the substitution
`x = u^{2/c}`, `OpdaProofs/NoisyLaw.lean`) -/
theorem noisy_sample_distribution_function {Ω : Type} [MeasurableSpace Ω] (P : Measure Ω) [IsProbabilityMeasure P]
    (U Z : Ω → ℝ) (hU : Measurable U) (hZ : Measurable Z) (hind : ProbabilityTheory.IndepFun U Z P)
    (hUlaw : P.map U = volume.restrict (Ico 0 1)) (hZlaw : P.map Z = ProbabilityTheory.gaussianReal 0 1)
    (d : Opda.Quad.Params ℝ) (o : ℝ) (hab : d.a < d.b) (hc : 1 ≤ d.c) (ho : 0 < o) (y : ℝ) :
    (P {ω | noisySample d o (U ω) (Z ω) ≤ y}).toReal
      = (if d.convex then Opda.Noisy.mixture ((d.c : ℝ) / 2) (o / (d.b - d.a)) ((y - d.a) / (d.b - d.a))
         else 1 - Opda.Noisy.mixture ((d.c : ℝ) / 2) (o / (d.b - d.a)) ((d.b - y) / (d.b - d.a))) :=
  Opda.NoisyLaw.noisy_sample_cdf P U Z hU hZ hind hUlaw hZlaw d o hab hc ho y

/-- the quadratic part of a noisy draw is the noiseless draw (so its law is `quadratic_sample_law`) -/
theorem noisy_quadratic_part (d : Opda.Quad.Params ℝ) (u : ℝ) (h0 : 0 ≤ u) (h1 : u ≤ 1) :
    noisyQuadPart d u = quadSample d u := noisyQuadPart_eq d u h0 h1

/-! ### non-vacuity -/

example : ∃ d : Opda.Quad.Params ℝ, d.a < d.b ∧ 0 < d.c := ⟨⟨0, 1, 3, true⟩, by norm_num, by norm_num⟩

/-- the hypotheses of `noisy_sample_distribution_function` are satisfiable: the coordinates of `ℝ × ℝ` under
`uniform[0,1) ⊗ N(0,1)` -/
example : ∃ (P : Measure (ℝ × ℝ)) (_ : IsProbabilityMeasure P) (U Z : ℝ × ℝ → ℝ), Measurable U ∧ Measurable Z
    ∧ ProbabilityTheory.IndepFun U Z P ∧ P.map U = volume.restrict (Ico 0 1)
    ∧ P.map Z = ProbabilityTheory.gaussianReal 0 1 := Opda.NoisyLaw.exists_uniform_normal_pair

example : ∃ obs : List (ℝ × ℝ), NonNeg obs ∧ 0 < total obs :=
  ⟨[(1, 1/2), (0, 1/2)], by intro p hp; simp at hp; rcases hp with rfl | rfl <;> norm_num, by norm_num [total]⟩

end Opda.Props.C13

#opda_audit Opda.Props.C13
