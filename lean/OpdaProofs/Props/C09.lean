import OpdaProofs.Audit
import OpdaProofs.QuadDual
import OpdaProofs.QuadEquiv
import OpdaProofs.QuadNoisyDual
import OpdaProofs.QuadNoisyCurves
import OpdaProofs.QuadNoisyReal
import OpdaProofs.SampleEquiv
/-!
# C09 — reflection duality and location–scale equivariance of the parametric families

Property theorems only (lemmas in `OpdaProofs/Quad{Dual,Equiv,NoisyDual,NoisyCurves,NoisyReal,Trap}.lean`, `SampleEquiv.lean`).

* **Noiseless class**: about the polymorphic model `Opda.Quad.*` (`OpdaModel/Quadratic.lean`) read at `ℝ`;
  the driver evaluates the same constants at `Float`.
* **Noisy class**: about the polymorphic model `Opda.Noisy.{cdf, pdf, ppf}` (`OpdaModel/NoisyFloat.lean`,
  the term the driver evaluates at `Float`) over an **arbitrary linearly ordered field** and an
  **arbitrary** record `F` of transcendental functions — so for any partial-moment machinery (table,
  Chebyshev fallback, recursions): the series regime depends on `(y, a, b, o)` only through `loc`,
  `scale`, `point`, which are identical / negated under the reflection and invariant under the affine
  map (`noisy_args_*`).  What is assumed of `F` is explicit (`Lawful`, `Symm`, `SymmPpf`, `SqrtScale`);
  the real instance satisfies `Lawful`, `Symm`, `SqrtScale` (proved, see the `example`s);
  `Φ⁻¹(1−q) = −Φ⁻¹(q)` of the black box `normal_ppf` is a hypothesis.
* **Integrated noisy average curve**: statements about the loop model `Opda.TrapLoop` at every
  refinement level `i` (the stopping index is decided in floating point and may differ by one between
  two instances; the property's 2e-4 allows for that).  The model is the REPAIRED integrand of fix
  `867c66b` (`E = lo + ∫(1−G)`, no `1[y>0]` term): reflection (`navg_reflect`) and location–scale
  equivariance (`navg_affine`) hold at every refinement level with no side condition.  (Before the fix the
  code's integrand was equivariant only when `0` lay outside the integration range — finding F4, repaired.)
* **`sample`** (section `sample`): about the model of the two `sample` methods as functions of the generator's primitives
  (`OpdaModel/Sample.lean`, the terms the driver's `rng.*` ops evaluate at `Float`; that the code *is* this function of the
  primitives drawn from the same seed is compared bitwise by `corr_C13`), read at `ℝ`.  Location–scale: for the same
  uniform `u` (and the same standard normal `z`, `o = s(b−a)`) the draw of `D` is `a + (b−a)` times the draw of `D₀`, for
  every real `u`, `z` (`quad_sample_affine`, `noisy_sample_affine`).  Reflection: the mirrored instance fed with `1 − u`
  and `−z` returns minus the draw (`quad_sample_reflect`, `noisy_sample_reflect`); with the *same* `u` it does not
  (`sample_reflect_same_seed_fails`) — for `sample` the reflection is an identity of laws (`1 − U` uniform, `−Z` normal),
  not of equal-seed draws.  Exact real arithmetic; at `Float`, `1 − (1 − u) ≠ u` and `a + (b−a)x` round (compared through
  the cdf at the property's tolerance).
-/
namespace Opda.Props.C09
open Opda

/-! ## noiseless class -/
section quad
open Opda.Quad

/-- `D.cdf(y) = 1 − D'.cdf(−y)` -/
theorem quad_cdf_reflect (d : Params ℝ) (hab : d.a < d.b) (y : ℝ) :
    cdf d y = 1 - cdf (reflect d) (-y) := Quad.cdf_reflect d hab y

/-- `D.pdf(y) = D'.pdf(−y)` -/
theorem quad_pdf_reflect (d : Params ℝ) (hab : d.a < d.b) (y : ℝ) :
    pdf d y = pdf (reflect d) (-y) := Quad.pdf_reflect d hab y

/-- `D.ppf(q) = −D'.ppf(1 − q)` -/
theorem quad_ppf_reflect (d : Params ℝ) (q : ℝ) (hq0 : 0 ≤ q) (hq1 : q ≤ 1) :
    ppf d q = - ppf (reflect d) (1 - q) := Quad.ppf_reflect d q hq0 hq1

/-- quantile curve for `minimize = m` at `q` = minus the curve of `D'` for `minimize = ¬m` at `1 − q`
(the side condition says the level `q^{1/n}` resp. `1−(1−q)^{1/n}` is a probability; true for `q∈[0,1]`, `n>0`) -/
theorem quad_qtc_reflect (d : Params ℝ) (nn q : ℝ) (m : Bool)
    (h0 : 0 ≤ level m q nn) (h1 : level m q nn ≤ 1) :
    quantileTuningCurve d nn q (some m) = - quantileTuningCurve (reflect d) nn (1 - q) (some (!m)) :=
  Quad.qtc_reflect d nn q m h0 h1

/-- the same with `minimize = None` on both sides -/
theorem quad_qtc_reflect_default (d : Params ℝ) (nn q : ℝ)
    (h0 : 0 ≤ level d.convex q nn) (h1 : level d.convex q nn ≤ 1) :
    quantileTuningCurve d nn q none = - quantileTuningCurve (reflect d) nn (1 - q) none :=
  Quad.qtc_reflect_none d nn q h0 h1

/-- average curve for `minimize = m` = minus the curve of `D'` for `minimize = ¬m` -/
theorem quad_avg_reflect (d : Params ℝ) (nn : ℝ) (m : Bool) :
    averageTuningCurve d nn (some m) = - averageTuningCurve (reflect d) nn (some (!m)) :=
  Quad.avg_reflect d nn m

theorem quad_avg_reflect_default (d : Params ℝ) (nn : ℝ) :
    averageTuningCurve d nn none = - averageTuningCurve (reflect d) nn none := Quad.avg_reflect_none d nn

/-- `D.cdf(a + (b−a) z) = D₀.cdf(z)` -/
theorem quad_cdf_affine (d : Params ℝ) (hab : d.a < d.b) (z : ℝ) :
    cdf d (d.a + (d.b - d.a) * z) = cdf (std0 d) z := Quad.cdf_affine d hab z

/-- `(b−a)·D.pdf(a + (b−a) z) = D₀.pdf(z)` -/
theorem quad_pdf_affine (d : Params ℝ) (hab : d.a < d.b) (z : ℝ) :
    (d.b - d.a) * pdf d (d.a + (d.b - d.a) * z) = pdf (std0 d) z := Quad.pdf_affine d hab z

/-- `D.ppf = a + (b−a)·D₀.ppf` (so `sample`, which is `ppf` of the same uniform draw, too) -/
theorem quad_ppf_affine (d : Params ℝ) (q : ℝ) : ppf d q = d.a + (d.b - d.a) * ppf (std0 d) q :=
  Quad.ppf_affine d q

theorem quad_qtc_affine (d : Params ℝ) (nn q : ℝ) (mn : Option Bool) :
    quantileTuningCurve d nn q mn = d.a + (d.b - d.a) * quantileTuningCurve (std0 d) nn q mn :=
  Quad.qtc_affine d nn q mn

theorem quad_avg_affine (d : Params ℝ) (nn : ℝ) (mn : Option Bool) :
    averageTuningCurve d nn mn = d.a + (d.b - d.a) * averageTuningCurve (std0 d) nn mn :=
  Quad.avg_affine d nn mn

end quad

/-! ## noisy class -/
section noisy
open Opda.Noisy
variable {α : Type} [Field α] [LinearOrder α] [IsStrictOrderedRing α] {F : Fns α}

/-- the three quantities the series regime is computed from: `loc` and `scale` identical, `point` negated,
for `D` at `y` and `D'` at `−y` — hence the identities below hold for **any** partial-moment function -/
theorem noisy_args_reflect (d : Params α) (y : α) :
    locOf (reflect d) (-y) = locOf d y ∧ scaleOf (reflect d) = scaleOf d
      ∧ pointOf (reflect d) (-y) = - pointOf d y :=
  ⟨locOf_reflect d y, scaleOf_reflect d, pointOf_reflect d y⟩

/-- … and invariant under `y = a + (b−a) z`, `o = s (b−a)` -/
theorem noisy_args_affine (d : Params α) (hab : d.a < d.b) (ho : d.o ≠ 0) (z : α) :
    locOf d (d.a + (d.b - d.a) * z) = locOf (std0 d) z ∧ scaleOf d = scaleOf (std0 d)
      ∧ pointOf d (d.a + (d.b - d.a) * z) = pointOf (std0 d) z :=
  ⟨locOf_affine d hab z, scaleOf_affine d, pointOf_affine d hab ho z⟩

/-- `D.cdf(y) = 1 − D'.cdf(−y)` in every regime (noiseless, series, normal) -/
theorem noisy_cdf_reflect (hF : Lawful F) (hS : Symm F) (d : Params α) (hab : d.a < d.b) (y : α) :
    cdf F d y = 1 - cdf F (reflect d) (-y) := Noisy.cdf_reflect hF hS d hab y

/-- `D.pdf(y) = D'.pdf(−y)` -/
theorem noisy_pdf_reflect (hF : Lawful F) (hS : Symm F) (d : Params α) (hab : d.a < d.b) (y : α) :
    pdf F d y = pdf F (reflect d) (-y) := Noisy.pdf_reflect hF hS d hab y

/-- `D.ppf(q) = −D'.ppf(1 − q)`: the 30-step bisection grids are mirror images unless a midpoint's cdf
value ties with `q` exactly (the code's `<` then moves `hi` in both instances) -/
theorem noisy_ppf_reflect (hF : Lawful F) (hS : Symm F) (hP : SymmPpf F) (d : Params α) (hab : d.a < d.b)
    (q : α) (hq0 : 0 ≤ q) (hq1 : q ≤ 1)
    (hnt : NoTie (cdf F d) (midpoint F) q 30 (d.a - F.n 6 * d.o, d.b + F.n 6 * d.o)) :
    ppf F d q = - ppf F (reflect d) (1 - q) := Noisy.ppf_reflect hF hS hP d hab q hq0 hq1 hnt

theorem noisy_qtc_reflect (hF : Lawful F) (hS : Symm F) (hP : SymmPpf F) (d : Params α) (hab : d.a < d.b)
    (nn q : α) (m : Bool) (h0 : 0 ≤ level F m q nn) (h1 : level F m q nn ≤ 1)
    (hnt : NoTie (cdf F d) (midpoint F) (level F m q nn) 30 (d.a - F.n 6 * d.o, d.b + F.n 6 * d.o)) :
    quantileTuningCurve F d nn q (some m) = - quantileTuningCurve F (reflect d) nn (1 - q) (some (!m)) :=
  Noisy.qtc_reflect hF hS hP d hab nn q m h0 h1 hnt

theorem noisy_qtc_reflect_default (hF : Lawful F) (hS : Symm F) (hP : SymmPpf F) (d : Params α)
    (hab : d.a < d.b) (nn q : α) (h0 : 0 ≤ level F d.convex q nn) (h1 : level F d.convex q nn ≤ 1)
    (hnt : NoTie (cdf F d) (midpoint F) (level F d.convex q nn) 30 (d.a - F.n 6 * d.o, d.b + F.n 6 * d.o)) :
    quantileTuningCurve F d nn q none = - quantileTuningCurve F (reflect d) nn (1 - q) none :=
  Noisy.qtc_reflect_none hF hS hP d hab nn q h0 h1 hnt

/-- `D.cdf(a + (b−a) z) = D₀.cdf(z)`, `D₀ = (0, 1, c, o/(b−a))` -/
theorem noisy_cdf_affine (hF : Lawful F) (hQ : SqrtScale F) (d : Params α) (hab : d.a < d.b) (z : α) :
    cdf F d (d.a + (d.b - d.a) * z) = cdf F (std0 d) z := Noisy.cdf_affine hF hQ d hab z

/-- `(b−a)·D.pdf(a + (b−a) z) = D₀.pdf(z)` -/
theorem noisy_pdf_affine (hF : Lawful F) (hQ : SqrtScale F) (d : Params α) (hab : d.a < d.b) (z : α) :
    (d.b - d.a) * pdf F d (d.a + (d.b - d.a) * z) = pdf F (std0 d) z := Noisy.pdf_affine hF hQ d hab z

/-- `D.ppf(q) = a + (b−a)·D₀.ppf(q)` for `q ∈ (0,1)`: the bisection grids are affine images and take the
same decisions (no tie condition needed) -/
theorem noisy_ppf_affine (hF : Lawful F) (hQ : SqrtScale F) (d : Params α) (hab : d.a < d.b) (q : α)
    (hq0 : 0 < q) (hq1 : q < 1) : ppf F d q = d.a + (d.b - d.a) * ppf F (std0 d) q :=
  Noisy.ppf_affine hF hQ d hab q hq0 hq1

theorem noisy_qtc_affine (hF : Lawful F) (hQ : SqrtScale F) (d : Params α) (hab : d.a < d.b) (nn q : α)
    (mn : Option Bool) (h0 : 0 < level F (mn.getD d.convex) q nn) (h1 : level F (mn.getD d.convex) q nn < 1) :
    quantileTuningCurve F d nn q mn = d.a + (d.b - d.a) * quantileTuningCurve F (std0 d) nn q mn :=
  Noisy.qtc_affine hF hQ d hab nn q mn h0 h1

end noisy

/-! ## the integrated noisy average curve (loop model `Opda.TrapLoop`, every refinement level) -/
section navg
open Opda.Noisy Opda.TrapLoop

/-- reflection of the integrated curve, at every refinement level, no side condition (the legacy integrand
with `1[y>0]` needed "no grid point is exactly 0") -/
theorem navg_reflect {F : Fns ℝ} (hF : Lawful F) (hS : Symm F) (d : Params ℝ) (hab : d.a < d.b) (m : Bool)
    (nn : ℝ) (i : ℕ) :
    valueRep F.n F.pow (cdf F (reflect d)) (!m) nn (intLo F (reflect d)) (intHi F (reflect d)) i
      = - valueRep F.n F.pow (cdf F d) m nn (intLo F d) (intHi F d) i :=
  Noisy.avg_reflect hF hS d hab m nn i

/-- location–scale equivariance of the integrated curve, at every refinement level -/
theorem navg_affine {F : Fns ℝ} (hF : Lawful F) (hQ : SqrtScale F) (d : Params ℝ) (hab : d.a < d.b)
    (m : Bool) (nn : ℝ) (i : ℕ) :
    valueRep F.n F.pow (cdf F d) m nn (intLo F d) (intHi F d) i
      = d.a + (d.b - d.a) * valueRep F.n F.pow (cdf F (std0 d)) m nn (intLo F (std0 d)) (intHi F (std0 d)) i :=
  avgRep_affine hF hQ d hab m nn i

/-- `valueRep … i` is what the model's `averageTuningCurve` returns when its loop stops at round `i` -/
theorem navg_value_is_valueRep {F : Fns ℝ} (d : Params ℝ) (ns : List ℝ) (mn : Option Bool) (atol : Option ℝ)
    (r : ℕ × List ℝ × List ℝ) (h : avgRun F d ns mn atol = some r)
    (hT : r.2.1 = ns.map fun nn => (iter F.n (gRep F.n F.pow (cdf F d) (mn.getD d.convex) nn) (intLo F d) (intHi F d) r.1).2) :
    averageTuningCurve F d ns mn atol
      = some (ns.map fun nn => valueRep F.n F.pow (cdf F d) (mn.getD d.convex) nn (intLo F d) (intHi F d) r.1) := by
  unfold averageTuningCurve
  rw [h, Option.map_some, hT, List.map_map]
  rfl

end navg

/-! ## `sample` (model `Opda.Sample` of the two methods as functions of the generator's primitives) -/
section sample
open Opda.Sample

/-- noiseless class, **same seed** (the same uniform `u`, every real `u`): `D.sample = a + (b−a)·D₀.sample`,
`D₀ = (0, 1, c, convex)` -/
theorem quad_sample_affine (d : Quad.Params ℝ) (u : ℝ) :
    quadSample d u = d.a + (d.b - d.a) * quadSample (Quad.std0 d) u := quadSample_affine d u

/-- noisy class, **same seed** (the same uniform `u` and the same standard normal `z`, every real `u`, `z`), noise
`o = s·(b−a)`: `D.sample = a + (b−a)·D₀.sample`, `D₀ = (0, 1, c, s, convex)` -/
theorem noisy_sample_affine (d : Quad.Params ℝ) (s u z : ℝ) :
    noisySample d (s * (d.b - d.a)) u z = d.a + (d.b - d.a) * noisySample (Quad.std0 d) s u z :=
  noisySample_affine d s u z

/-- the same with `D₀`'s noise written `o/(b−a)` (`a < b`) -/
theorem noisy_sample_affine_scale (d : Quad.Params ℝ) (hab : d.a < d.b) (o u z : ℝ) :
    noisySample d o u z = d.a + (d.b - d.a) * noisySample (Quad.std0 d) (o / (d.b - d.a)) u z :=
  noisySample_affine_div d hab o u z

/-- noiseless class: the mirrored instance `D' = (−b, −a, c, ¬convex)` at the **complementary uniform** `1 − u` returns minus
the draw, every real `u` -/
theorem quad_sample_reflect (d : Quad.Params ℝ) (u : ℝ) :
    quadSample d u = - quadSample (Quad.reflect d) (1 - u) := quadSample_reflect d u

/-- noisy class: the mirrored instance (same `o`) at the complementary uniform `1 − u` and the **negated normal** `−z` returns
minus the draw, every real `u`, `z` -/
theorem noisy_sample_reflect (d : Quad.Params ℝ) (o u z : ℝ) :
    noisySample d o u z = - noisySample (Quad.reflect d) o (1 - u) (-z) := noisySample_reflect d o u z

/-- **not** with the same uniform: `Q(0,1,1,convex)` at `u = 1/4` draws `1/16`, its mirror image draws `−9/16 ≠ −1/16`; so
"`D.sample(seed) = −D'.sample(seed)`" is false, and the reflection clause for `sample` holds in law only -/
theorem sample_reflect_same_seed_fails :
    quadSample ({ a := 0, b := 1, c := 1, convex := true } : Quad.Params ℝ) (1/4)
      ≠ - quadSample (Quad.reflect ({ a := 0, b := 1, c := 1, convex := true } : Quad.Params ℝ)) (1/4) :=
  quadSample_reflect_same_seed_fails

end sample

/-! ## non-vacuity: the real instance satisfies the hypotheses -/
example (T : List (ℕ × List (Noisy.Entry ℝ))) (ninf pinf : ℝ) :
    Noisy.Lawful (Noisy.realFns T ninf pinf) ∧ Noisy.Symm (Noisy.realFns T ninf pinf)
      ∧ Noisy.SqrtScale (Noisy.realFns T ninf pinf) :=
  ⟨Noisy.realFns_lawful T ninf pinf, Noisy.realFns_symm T ninf pinf, Noisy.realFns_sqrtScale T ninf pinf⟩

/-- so e.g. `D.cdf(y) = 1 − D'.cdf(−y)` holds for the real reading of the noisy model with `Φ` the
Gaussian distribution function, whatever the table -/
example (T : List (ℕ × List (Noisy.Entry ℝ))) (d : Noisy.Params ℝ) (hab : d.a < d.b) (y : ℝ) :
    Noisy.cdf (Noisy.realFns T 0 0) d y = 1 - Noisy.cdf (Noisy.realFns T 0 0) (Noisy.reflect d) (-y) :=
  noisy_cdf_reflect (Noisy.realFns_lawful T 0 0) (Noisy.realFns_symm T 0 0) d hab y

end Opda.Props.C09

#opda_audit Opda.Props.C09
