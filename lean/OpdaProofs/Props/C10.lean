import OpdaProofs.Audit
import OpdaProofs.ExtInst
import OpdaProofs.Fit
import OpdaProofs.FitLoss
import OpdaProofs.FitPlan
import OpdaProofs.FitInv
/-!
# C10 — `fit` optimises the documented censored, tie-aware maximum-spacing objective

Property theorems only (lemmas live in `OpdaProofs/Fit.lean`, `FitLoss.lean`, `FitPlan.lean`, `FitInv.lean`).
They are about the executable model of `fit`'s *bookkeeping* (`OpdaModel/Fit.lean`, `FitPlan.lean`); scipy's
optimiser, `np.round`, the factors `w`, `v` and the distribution's `cdf` are parameters of the model.  The
model is tied to the code on every run by `harness/corr_C10.py`.

Not proved (compared only): the values of `cdf`, IEEE rounding of the box arithmetic and of the loss, and
the last clause of the property (returned objective no worse than at the generating parameters).
-/
namespace Opda.Props.C10
open Opda.Fit Opda.Wire

section buckets
variable {E : Type} [LinearOrder E]

/-- **T1.** Under side conditions (A) `edge_lo` strictly below every other point and (B) `limit_upper <
edge_hi` when observations are censored above, the code's positional fix-ups (`ks[1:]`, `ks[0] = n_lower`,
`ks[-2] -= 1`, `ks[-1] = n_upper + 1`) never index out of range and yield exactly the documented counts
of the buckets between consecutive distinct edges, for every sample with ties, every limits pattern and
either kind of left-most bucket. -/
theorem buckets_model_eq_spec (closedLeft : Bool) (edgeLo : E) (ll : Option E) (obs : List E) (lu : Option E)
    (edgeHi : E) (nLower nUpper : Nat) (H : BucketHyps edgeLo ll obs lu edgeHi) :
    ksModel? edgeLo ll obs lu edgeHi nLower nUpper
      = some (ksSpec closedLeft ll obs lu edgeHi nLower nUpper (zsModel edgeLo ll obs lu edgeHi)) :=
  Opda.Fit.buckets_model_eq_spec closedLeft edgeLo ll obs lu edgeHi nLower nUpper H

/-- **T1 for the term the driver evaluates** (values in `Ext`). -/
theorem buckets_driver (closedLeft : Bool) (edgeLo : Ext) (ll : Option Ext) (obs : List Ext) (lu : Option Ext)
    (edgeHi : Ext) (nLower nUpper : Nat) (H : BucketHyps edgeLo ll obs lu edgeHi) :
    ksModel? edgeLo ll obs lu edgeHi nLower nUpper
      = some (ksSpec closedLeft ll obs lu edgeHi nLower nUpper (zsModel edgeLo ll obs lu edgeHi)) :=
  Opda.Fit.buckets_model_eq_spec (E := Ext) closedLeft edgeLo ll obs lu edgeHi nLower nUpper H

/-- the hypotheses of T1 are exactly what the driver's `A=1 B=1` flags report (plus the data facts) -/
theorem side_flags_of_hyps (edgeLo : E) (ll : Option E) (obs : List E) (lu : Option E) (edgeHi : E)
    (H : BucketHyps edgeLo ll obs lu edgeHi) :
    sideA edgeLo ll obs lu edgeHi = true ∧ sideB lu edgeHi = true := sideA_sideB_of_hyps H

/-- the bucket edges are the strictly increasing list of the distinct points -/
theorem edges_sorted_distinct (edgeLo : E) (ll : Option E) (obs : List E) (lu : Option E) (edgeHi : E) :
    (zsModel edgeLo ll obs lu edgeHi).Pairwise (· < ·) ∧
      ∀ z, z ∈ zsModel edgeLo ll obs lu edgeHi ↔ z ∈ pointValues edgeLo ll obs lu edgeHi :=
  ⟨(unique_spec (pointValues edgeLo ll obs lu edgeHi)).1, (unique_spec (pointValues edgeLo ll obs lu edgeHi)).2.1⟩

/-- **T2.** Under (A) and (B) the counts sum to `n_lower + #observed + n_upper + 1 = n + 1`. -/
theorem sum_ks_eq_n_plus_one (edgeLo : E) (ll : Option E) (obs : List E) (lu : Option E)
    (edgeHi : E) (nLower nUpper : Nat) (H : BucketHyps edgeLo ll obs lu edgeHi) :
    ∃ ks, ksModel? edgeLo ll obs lu edgeHi nLower nUpper = some ks ∧
      sumNat ks = (if ll.isSome then nLower else 0) + obs.length + (if lu.isSome then nUpper else 0) + 1 :=
  sum_ks_eq edgeLo ll obs lu edgeHi nLower nUpper H

end buckets

/-! ### non-vacuity and necessity of the side conditions (values scaled to ℕ) -/

/-- the hypotheses of T1 are satisfiable: two-sided censoring, ties, an observation on the upper limit -/
example : BucketHyps (E := Nat) 0 (some 2) [3, 3, 5, 7] (some 7) 9 where
  sideA := by decide
  sideB := by intro u h; cases h; decide
  obs_gt_ll := by intro l h; cases h; decide
  obs_le_lu := by intro u h; cases h; decide
  ll_lt_lu := by intro l u h h'; cases h; cases h'; decide
  ll_lt_hi := by intro l h; cases h; decide
  obs_le_hi := by decide

/-- **(A) is necessary — F6a (a defect of the code before `55c25d1`, repaired in /repo).** `fit([1,1,2,3],
constraints={"a": 1.})`: the positional fix-ups modelled here drop the observations equal to the lower support edge
(`ks = ks[1:]`); the documented closed left-most bucket counts them.  Outside (A), (B) the model is not the
reference: the check judges the code against the documented counts (`ksSpec`), which the repaired code meets. -/
theorem sideA_necessary_F6a :
    sideA (E := Nat) 1 none [1, 1, 2, 3] none 5 = false ∧
    ksModel? (E := Nat) 1 none [1, 1, 2, 3] none 5 0 0 = some [1, 1, 1] ∧
    ksSpec (E := Nat) true none [1, 1, 2, 3] none 5 0 0 (zsModel (E := Nat) 1 none [1, 1, 2, 3] none 5) = [3, 1, 1] ∧
    sumNat [1, 1, 1] ≠ 4 + 1 := by decide

/-- **(A) is necessary — finding F6b.** `a` pinned to the lower limit with left-censored data: `ks[0] =
n_lower` overwrites the count of an *observed* bucket (and the censored observation itself lies where every
candidate has probability zero: the documented counts sum to `n`, not `n + 1`). -/
theorem sideA_necessary_F6b :
    sideA (E := Nat) 2 (some 2) [3, 3, 4] none 6 = false ∧
    ksModel? (E := Nat) 2 (some 2) [3, 3, 4] none 6 1 0 = some [1, 1, 1] ∧
    ksSpec (E := Nat) true (some 2) [3, 3, 4] none 6 1 0 (zsModel (E := Nat) 2 (some 2) [3, 3, 4] none 6) = [2, 1, 1] ∧
    sumNat [1, 1, 1] ≠ 4 + 1 := by decide

/-- **(B) is necessary — finding F6c.** `b` pinned to the upper limit with right-censored data: `ks[-2] -= 1`
hits an *observed* bucket (the observation 9 disappears) and `ks[-1] = n_upper + 1` overwrites another. -/
theorem sideB_necessary_F6c :
    sideB (E := Nat) (some 10) 10 = false ∧
    ksModel? (E := Nat) 0 none [1, 4, 5, 7, 9] (some 10) 10 0 1 = some [1, 1, 1, 1, 0, 2] ∧
    ksSpec (E := Nat) true none [1, 4, 5, 7, 9] (some 10) 10 0 1
      (zsModel (E := Nat) 0 none [1, 4, 5, 7, 9] (some 10) 10) = [1, 1, 1, 1, 1, 1] := by decide

/-- **The data fact `limit_lower < observation` (after rounding) is necessary — F6d (defect of the code before
`55c25d1`, repaired in /repo; as for F6a the check judges the code against `ksSpec` there).** An
observation inside the limits that `np.round` moves onto the lower limit (float32 data are rounded to 3
decimals) is merged with the limit point and then overwritten by `ks[0] = n_lower`: it vanishes instead
of being counted with the censored ones, as the code comment intends. (A) and (B) hold here. -/
theorem rounding_onto_lower_limit_F6d :
    sideA (E := Nat) 0 (some 2) [2, 3] none 9 = true ∧ sideB (E := Nat) none 9 = true ∧
    ksModel? (E := Nat) 0 (some 2) [2, 3] none 9 1 0 = some [1, 1, 1] ∧
    ksSpec (E := Nat) true (some 2) [2, 3] none 9 1 0 (zsModel (E := Nat) 0 (some 2) [2, 3] none 9) = [2, 1, 1] := by
  decide

/-- **(B) is necessary — F2.** With fewer than two buckets `ks[-2]` does not exist:
`fit([1,1,1,1,1,2], limits=(-inf, 1))` raised `IndexError` before `b238e9d` (repaired in /repo: the code now raises
`OptimizationError` exactly where the model says the fix-ups are undefined). -/
theorem sideB_necessary_F2 :
    sideB (E := Nat) (some 1) 1 = false ∧ ksModel? (E := Nat) 1 none [1, 1, 1, 1, 1] (some 1) 1 0 1 = none := by
  decide

/-! ### T3 — the loss is the documented grouped log-likelihood / KL divergence -/

/-- **T3.** `loss θ = −(n+1)⁻¹ Σ Nᵢ log ΔFᵢ(θ) + const(ks, n)` whenever every bucket with a positive count
has positive mass (the only case in which the loss is finite). -/
theorem loss_eq_grouped_loglik (n : Nat) (ks : List Nat) (ps : List ℝ)
    (hlen : (diffs ps).length = ks.length)
    (hpos : ∀ p ∈ ks.zip (diffs ps), 0 < p.1 → 0 < p.2) :
    loss (fun k : Nat => (k : ℝ)) Real.log n ks ps
      = -(1 / ((n : ℝ) + 1)) * groupedLogLik ks (diffs ps) + lossConst n ks :=
  loss_eq_grouped_loglik_ps n ks ps hlen hpos

/-- the loss is the Kullback–Leibler sum `Σ qᵢ log(qᵢ / ΔFᵢ)` with `qᵢ = Nᵢ/(n+1)` -/
theorem loss_eq_kl (n : Nat) (ks : List Nat) (ps : List ℝ) :
    loss (fun k : Nat => (k : ℝ)) Real.log n ks ps = klSum n ks (diffs ps) := loss_eq_kl_ps n ks ps

/-- **Gibbs' inequality.** With `Σ ks = n + 1` and monotone cdf values in `[0,1]` the loss is `≥ 0`. -/
theorem loss_nonneg (n : Nat) (ks : List Nat) (ps : List ℝ) (hlen : ps.length = ks.length + 1)
    (hsum : ks.sum = n + 1) (hmono : ps.Pairwise (· ≤ ·)) (h01 : ∀ p ∈ ps, 0 ≤ p ∧ p ≤ 1)
    (hpos : ∀ p ∈ ks.zip (diffs ps), 0 < p.1 → 0 < p.2) :
    0 ≤ loss (fun k : Nat => (k : ℝ)) Real.log n ks ps := loss_nonneg_ps n ks ps hlen hsum hmono h01 hpos

/-- … with equality iff every bucket has exactly its empirical mass `Nᵢ/(n+1)`. -/
theorem loss_eq_zero_iff (n : Nat) (ks : List Nat) (a : ℝ) (l : List ℝ)
    (hlen : l.length = ks.length) (hsum : ks.sum = n + 1) (hmono : (a :: l).Pairwise (· ≤ ·))
    (hpos : ∀ p ∈ ks.zip (diffs (a :: l)), 0 < p.1 → 0 < p.2) (hends : l.getLastD a - a = 1) :
    loss (fun k : Nat => (k : ℝ)) Real.log n ks (a :: l) = 0
      ↔ ∀ p ∈ ks.zip (diffs (a :: l)), p.2 = (p.1 : ℝ) / ((n : ℝ) + 1) :=
  loss_eq_zero_iff_ps n ks a l hlen hsum hmono hpos hends

/-- the noisy class sorts the cdf values first; on a monotone cdf that is the identity -/
theorem loss_sort_is_identity_on_monotone (n : Nat) (ks : List Nat) (ps : List ℝ) (h : ps.Pairwise (· ≤ ·)) :
    loss (fun k : Nat => (k : ℝ)) Real.log n ks (sortList ps) = loss (fun k : Nat => (k : ℝ)) Real.log n ks ps :=
  loss_sortList_of_sorted n ks ps h

example : loss (fun k : Nat => (k : ℝ)) Real.log 3 [1, 1, 2] [0, 1/4, 1/2, 1] = 0 :=
  (loss_eq_zero_iff_ps 3 [1, 1, 2] 0 [1/4, 1/2, 1] rfl rfl (by norm_num) (by
    intro p hp _; simp [diffs] at hp; rcases hp with rfl | rfl | rfl <;> norm_num) (by norm_num)).mpr (by
    intro p hp; simp [diffs] at hp; rcases hp with rfl | rfl | rfl <;> norm_num)

/-! ### T4 — packing / unpacking for all 16 fixed/free patterns -/

/-- **T4.** The coordinate written as parameter `p` is read back as `p`, a fixed parameter as its value. -/
theorem pack_unpack {β : Type} (fr : Free) (fixed p : Params β) :
    unpack fr fixed (packG fr p.a p.b p.c p.o)
      = some ⟨if fr.a then p.a else fixed.a, if fr.b then p.b else fixed.b,
              if fr.c then p.c else fixed.c, if fr.o then p.o else fixed.o⟩ := unpack_pack fr fixed p

/-- **T4.** Any vector inside the box handed to the optimiser is read back without `IndexError`, each
coordinate as the parameter whose box constrained it (in `loss` and in `best_parameters` alike: both use
`unpack`). -/
theorem unpack_reads_own_box {β : Type} (P : β → Box β → Prop) (fr : Free) (fixed : Params β) (A B C O : Box β)
    (θ : List β) (h : List.Forall₂ P θ (boundsList fr A B C O)) :
    ∃ p, unpack fr fixed θ = some p ∧
      (if fr.a then P p.a A else p.a = fixed.a) ∧ (if fr.b then P p.b B else p.b = fixed.b) ∧
      (if fr.c then P p.c C else p.c = fixed.c) ∧ (if fr.o then P p.o O else p.o = fixed.o) :=
  unpack_in_box P fr fixed A B C O θ h

/-- `bounds` and `integrality` list the same coordinates -/
theorem bounds_integrality_aligned {β : Type} (fr : Free) (A B C O : Box β) :
    (boundsList fr A B C O).length = nBounds fr ∧ (integrality fr).length = nBounds fr ∧
      (boundsList fr A B C O).zip (integrality fr) = packG fr (A, false) (B, false) (C, true) (O, false) :=
  ⟨packG_length fr A B C O, integrality_length fr, packG_zip fr A B C O false false true false⟩

/-! ### T5 — the box respects every constraint and contains the initial candidates -/

section box
variable {α : Type} [LinearOrder α]

/-- **T5.** The box of `a`, `b`, `o` is the constraint itself when it fixes the value and a sub-interval of
both the constraint and the data-driven default otherwise. -/
theorem box_subset_constraint (dLo dHi : α) (c : Cons α) :
    match c with
    | .absent => boxOf dLo dHi c = ⟨dLo, dHi⟩
    | .fixed v => boxOf dLo dHi c = ⟨v, v⟩
    | .interval lo hi => lo ≤ (boxOf dLo dHi c).lo ∧ (boxOf dLo dHi c).hi ≤ hi ∧
        dLo ≤ (boxOf dLo dHi c).lo ∧ (boxOf dLo dHi c).hi ≤ dHi := boxOf_subset dLo dHi c

/-- **T5.** The box of `c` lies inside `[1, 10]` and inside the constraint; `cs` enumerates its integers. -/
theorem c_box_within (cC : Cons Int) :
    (match cC with
      | .fixed v => cBox cC = ⟨v, v⟩
      | .absent => cBox cC = ⟨1, 10⟩
      | .interval lo hi => lo ≤ (cBox cC).lo ∧ (cBox cC).hi ≤ hi ∧ 1 ≤ (cBox cC).lo ∧ (cBox cC).hi ≤ 10) ∧
    (∀ c ∈ csList cC, (cBox cC).lo ≤ c ∧ c ≤ (cBox cC).hi) ∧ (csList cC).length = nCs cC :=
  ⟨cBox_within cC, csList_mem cC, csList_length cC⟩

/-- **T5 (noiseless class).** Every initial candidate is inside the box, coordinate by coordinate. -/
theorem initial_candidates_in_box_quad (fr : Free) (ofInt : Int → α) (rawA rawB : Int → Int → α)
    (aB bB cB oB : Box α) (haB : aB.lo ≤ aB.hi) (hbB : bB.lo ≤ bB.hi) (cs : List Int)
    (hcs : ∀ c ∈ cs, InBox (ofInt c) cB) (x : List α) (hx : x ∈ initPopQuad fr ofInt rawA rawB aB bB cs) :
    List.Forall₂ InBox x (boundsList fr aB bB cB oB) :=
  initPopQuad_in_box fr ofInt rawA rawB aB bB cB oB haB hbB cs hcs x hx

/-- **T5 (noisy class).** -/
theorem initial_candidates_in_box_noisy (sortByLoss : List (List α) → List (List α))
    (hsort : ∀ l x, x ∈ sortByLoss l → x ∈ l) (fr : Free) (ofInt : Int → α)
    (rawA rawB : Int → Nat → Int → α) (rawO : Int → Nat → α) (aB bB cB oB : Box α)
    (haB : aB.lo ≤ aB.hi) (hbB : bB.lo ≤ bB.hi) (hoB : oB.lo ≤ oB.hi) (cs : List Int)
    (hcs : ∀ c ∈ cs, InBox (ofInt c) cB) (x : List α)
    (hx : x ∈ initPopNoisy sortByLoss fr ofInt rawA rawB rawO aB bB oB cs) :
    List.Forall₂ InBox x (boundsList fr aB bB cB oB) :=
  initPopNoisy_in_box sortByLoss hsort fr ofInt rawA rawB rawO aB bB cB oB haB hbB hoB cs hcs x hx

end box

/-! ### T6 — best-of-`convex` -/

/-- **T6.** The returned run is the one with the least `fun` (strict `<` fold: the first of equal minima);
no run is returned iff none has a loss below `inf`. -/
theorem best_of_selection {β γ : Type} [LinearOrder β] (inf : β) (runs : List (β × γ)) :
    (bestOf inf runs = (inf, none) ∧ ∀ r ∈ runs, ¬ r.1 < inf) ∨
    (∃ pre g post, runs = pre ++ ((bestOf inf runs).1, g) :: post ∧ (bestOf inf runs).2 = some g ∧
      (bestOf inf runs).1 < inf ∧ (∀ r ∈ pre, (bestOf inf runs).1 < r.1) ∧
      (∀ r ∈ post, (bestOf inf runs).1 ≤ r.1)) := bestOf_spec inf runs

example : bestOf (β := Nat) (γ := String) 100 [(5, "F"), (3, "T"), (3, "X")] = (3, some "T") := by decide

end Opda.Props.C10

#opda_audit Opda.Props.C10
