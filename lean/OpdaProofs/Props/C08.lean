import OpdaProofs.Audit
import OpdaProofs.QuadLaw
import OpdaProofs.QuadAvg
import OpdaProofs.QuadTrap
import OpdaProofs.QuadRun
import OpdaProofs.QuadTail
import OpdaProofs.QuadStop
import OpdaProofs.QuadNoisyQtc
import OpdaProofs.MaxOfN
import OpdaProofs.QuadNoisyCurves
import OpdaProofs.QuadNoisyReal
import OpdaProofs.QuadNoisyQtcOdd
/-!
# C08 — parametric tuning curves are quantile and mean of the best of `n` draws

Property theorems only (lemmas in `OpdaProofs/Quad{Law,Avg,Trap,Run,Tail,Stop,NoisyQtc,NoisyQtcOdd}.lean`).

* noiseless class: the polymorphic model `Opda.Quad.{quantileTuningCurve, averageTuningCurve}` at `ℝ`
  (`logGamma = log ∘ Γ`); the driver evaluates the same constants at `Float` (`logGammaF`).
* noisy class: `Opda.Noisy.{quantileTuningCurve, avgRunCapped}` (`OpdaModel/QuadNoisy.lean`) on top of the
  noisy cdf/ppf model and of the integration loop `Opda.TrapLoop` (`OpdaModel/QuadTrap.lean`) — the terms
  the driver runs at `Float`, and (for the negative result) the kernel runs at `Rat`.

**The noisy quantile clause `|F(quantile_tuning_curve(n,q)) − level| ≤ 2e-5`** is a theorem in exact real arithmetic
(`realFns`: real `Φ`, `φ`, `rpow`), for every real `n > 0` (so every `n ≥ 1`), every `q ∈ (0,1)` (the level is then strictly
inside `(0,1)`: `noisy_level_inside`), both shapes, both directions and `minimize = None`:
`noisy_qtc_hits_level_even` — even `c = 2k ≤ 100`, every `a ≤ b`, `o ≥ 0` other than the point mass (all three regimes);
`noisy_qtc_hits_level_odd_partial` — series regime, shipped table, `c = 9` at every scale, `c = 5` with `o/(b−a) < 1/5`,
`c = 3` with `o/(b−a) < 1/50` (the settings of `C07.cdf_ppf_odd_tolerance_partial`).  Still measured only: `c = 1`, `c = 7`,
`c = 5` at scales `≥ 0.2`, `c = 3` at scales `≥ 0.02` in the series regime, `c > 100`, and IEEE rounding (the theorems are at `ℝ`).
`noisy_qtc_accuracy` remains as the conditional statement over any ordered field.

What is **not** a theorem, and why: the accuracy clause of the integrated average curve
(`100·max(atol, 1e-6·scale)`).  `stop_rule_not_a_bound` exhibits a continuous CDF for which the loop stops at
its first permitted round with an error 30 000 times the tolerance, so no such theorem exists for the
documented algorithm; `navg_returns_trapezoid_partial` states all that the stopping rule does give.
The two defects found here were repaired in /repo (`fix:` 867c66b — F4, the `1[y>0]` jump inside the range of
integration — and fd4085d — F5, the point mass never returned); the model is the repaired loop.
`navg_point_mass_returns` is the theorem that F5 is gone, `navg_fix_conservative` relates the repaired integrand
to the legacy one, and `Props/C09.lean` has the equivariance the legacy integrand lacked.
-/
namespace Opda.Props.C08
open Opda

/-! ## T1 — quantile curves -/
section quantile
open Opda.Quad

/-- the level of the best of `n` draws: `q^{1/n}` when maximising, `1 − (1−q)^{1/n}` when minimising -/
theorem level_formula (m : Bool) (q nn : ℝ) :
    level m q nn = if m then 1 - (1 - q) ^ (1 / nn) else q ^ (1 / nn) := level_eq m q nn

/-- noiseless: `F(quantile_tuning_curve(n, q, minimize)) = level`, every real `n > 0`, `q ∈ [0,1]` -/
theorem quad_qtc_hits_level (d : Params ℝ) (hab : d.a < d.b) (hc : 0 < d.c) (nn q : ℝ) (mn : Option Bool)
    (hq0 : 0 ≤ q) (hq1 : q ≤ 1) (hn : 0 < nn) :
    cdf d (quantileTuningCurve d nn q mn) = level (mn.getD d.convex) q nn :=
  cdf_quantileTuningCurve d hab hc nn q mn (level_mem _ q nn hq0 hq1 hn).1 (level_mem _ q nn hq0 hq1 hn).2

/-- `minimize = None` means `minimize = self.convex`, for both noiseless curves -/
theorem quad_minimize_default (d : Params ℝ) (nn q : ℝ) :
    quantileTuningCurve d nn q none = quantileTuningCurve d nn q (some d.convex)
      ∧ averageTuningCurve d nn none = averageTuningCurve d nn (some d.convex) := ⟨rfl, rfl⟩

/-- noisy: the quantile curve is `ppf` at the same level, and `None ↦ convex` -/
theorem noisy_qtc_is_ppf_at_level {α : Type} [Field α] [LinearOrder α] [IsStrictOrderedRing α]
    (F : Noisy.Fns α) (d : Noisy.Params α) (nn q : α) (mn : Option Bool) :
    Noisy.quantileTuningCurve F d nn q mn = Noisy.ppf F d (Noisy.level F (mn.getD d.convex) q nn)
      ∧ Noisy.quantileTuningCurve F d nn q none = Noisy.quantileTuningCurve F d nn q (some d.convex) := ⟨rfl, rfl⟩

/-- noisy, series regime (conditional, as C07): for a monotone `L`-Lipschitz cdf the curve hits the level to
`L·(b−a+12o)/2^30` plus the tail mass outside the bracket.  The property's 2e-5 is this with the real cdf's
`L`; that constant is numerical (C06) and is checked by the correspondence, not proved. -/
theorem noisy_qtc_accuracy {α : Type} [Field α] [LinearOrder α] [IsStrictOrderedRing α] {F : Noisy.Fns α}
    (hF : Noisy.Lawful F) (d : Noisy.Params α) (hab : d.a ≤ d.b) (ho : 0 ≤ d.o) (nn q : α) (mn : Option Bool)
    (hp : Noisy.pointMass F d = false) (h : Noisy.regime F d = .nothing) (L : α)
    (hl0 : 0 < Noisy.level F (mn.getD d.convex) q nn) (hl1 : Noisy.level F (mn.getD d.convex) q nn < 1)
    (hmono : ∀ x y, d.a - 6 * d.o ≤ x → x ≤ y → y ≤ d.b + 6 * d.o → Noisy.cdf F d x ≤ Noisy.cdf F d y)
    (hlip : ∀ x y, d.a - 6 * d.o ≤ x → x ≤ y → y ≤ d.b + 6 * d.o →
      Noisy.cdf F d y - Noisy.cdf F d x ≤ L * (y - x)) :
    |Noisy.cdf F d (Noisy.quantileTuningCurve F d nn q mn) - Noisy.level F (mn.getD d.convex) q nn|
      ≤ L * ((d.b - d.a + 12 * d.o) / 2 ^ 30)
        + max 0 (max (Noisy.cdf F d (d.a - 6 * d.o) - Noisy.level F (mn.getD d.convex) q nn)
            (Noisy.level F (mn.getD d.convex) q nn - Noisy.cdf F d (d.b + 6 * d.o))) :=
  Noisy.qtc_accuracy hF d hab ho nn q mn hp h L hl0 hl1 hmono hlip

/-- the noisy level at the real instance is the documented one (`rpow`), and lies strictly inside `(0,1)` for
`q ∈ (0,1)` and every real `n > 0` -/
theorem noisy_level_inside (T : List (ℕ × List (Noisy.Entry ℝ))) (ninf pinf : ℝ) (m : Bool) (q nn : ℝ)
    (hq0 : 0 < q) (hq1 : q < 1) (hn : 0 < nn) :
    Noisy.level (Noisy.realFns T ninf pinf) m q nn = (if m then 1 - (1 - q) ^ (1 / nn) else q ^ (1 / nn))
      ∧ 0 < Noisy.level (Noisy.realFns T ninf pinf) m q nn ∧ Noisy.level (Noisy.realFns T ninf pinf) m q nn < 1 :=
  ⟨Noisy.level_real T ninf pinf m q nn, Noisy.level_real_mem T ninf pinf m q nn hq0 hq1 hn⟩

/-- **noisy, even `c = 2k`, `1 ≤ k ≤ 50`, unconditional, exact real arithmetic**: every `a ≤ b`, `o ≥ 0` other than the point
mass (noiseless, series and normal regime), both shapes, `minimize ∈ {None, False, True}`, every real `n > 0`, every
`q ∈ (0,1)`: `|cdf(quantile_tuning_curve(n, q, minimize)) − level| ≤ 2e-5`, `level = q^{1/n}` resp. `1 − (1−q)^{1/n}`
(the bound obtained is C07's `1e-5`).  At `ℝ`; IEEE rounding is measured. -/
theorem noisy_qtc_hits_level_even (T : List (ℕ × List (Noisy.Entry ℝ))) (ninf pinf : ℝ) (d : Noisy.Params ℝ) (k : ℕ)
    (hk : 1 ≤ k) (hk50 : k ≤ 50) (hc : d.c = 2 * k) (hab : d.a ≤ d.b) (ho : 0 ≤ d.o)
    (hp : Noisy.pointMass (Noisy.realFns T ninf pinf) d = false) (nn q : ℝ) (mn : Option Bool)
    (hn : 0 < nn) (hq0 : 0 < q) (hq1 : q < 1) :
    |Noisy.cdf (Noisy.realFns T ninf pinf) d (Noisy.quantileTuningCurve (Noisy.realFns T ninf pinf) d nn q mn)
        - Noisy.level (Noisy.realFns T ninf pinf) (mn.getD d.convex) q nn| ≤ 2e-5 :=
  Noisy.qtc_hits_level_even T ninf pinf d k hk hk50 hc hab ho hp nn q mn hn hq0 hq1

/-- **noisy, odd `c`, where C07's proved bound reaches the tolerance** (series regime, the shipped table, exact real
arithmetic): `c = 9` at every scale of the regime, `c = 5` with `o/(b−a) < 1/5`, `c = 3` with `o/(b−a) < 1/50`; both shapes,
`minimize ∈ {None, False, True}`, every real `n > 0`, every `q ∈ (0,1)`:
`|cdf(quantile_tuning_curve(n, q, minimize)) − level| ≤ 2e-5`.
`_partial`: missing are `c = 1`, `c = 7`, `c = 5` at scales `≥ 0.2`, `c = 3` at scales `≥ 0.02` (C07's bound
`2·1.02·max_error + …` exceeds even `2e-5` for `c = 1`, `c = 3`, `c = 5` there; for `c = 7` it is `1.6e-5` but is proved only
as an explicit bound, `C07.cdf_ppf_odd_shipped_table_partial`), `c > 100`, and IEEE rounding — measured by `corr_C08`. -/
theorem noisy_qtc_hits_level_odd_partial (ninf pinf : ℝ) (d : Noisy.Params ℝ) (hab : d.a ≤ d.b)
    (hp : Noisy.pointMass (Noisy.realFns Noisy.tableR ninf pinf) d = false)
    (h : Noisy.regime (Noisy.realFns Noisy.tableR ninf pinf) d = .nothing)
    (hcs : d.c = 9 ∨ (d.c = 5 ∧ d.o / (d.b - d.a) < 1 / 5) ∨ (d.c = 3 ∧ d.o / (d.b - d.a) < 1 / 50))
    (nn q : ℝ) (mn : Option Bool) (hn : 0 < nn) (hq0 : 0 < q) (hq1 : q < 1) :
    |Noisy.cdf (Noisy.realFns Noisy.tableR ninf pinf) d
          (Noisy.quantileTuningCurve (Noisy.realFns Noisy.tableR ninf pinf) d nn q mn)
        - Noisy.level (Noisy.realFns Noisy.tableR ninf pinf) (mn.getD d.convex) q nn| ≤ 2e-5 :=
  Noisy.qtc_hits_level_odd ninf pinf d hab hp h hcs nn q mn hn hq0 hq1

/-- non-vacuity: `a=0, b=1, o=1/10`, either shape, `n = 5/2`, `q = 1/2`, minimising: `c = 4` and `c = 9` satisfy the
hypotheses and the curves hit their levels to 2e-5 -/
example (cv : Bool) :
    |Noisy.cdf (Noisy.realFns [] 0 0) { a := 0, b := 1, c := 4, o := 1/10, convex := cv }
          (Noisy.quantileTuningCurve (Noisy.realFns [] 0 0) { a := 0, b := 1, c := 4, o := 1/10, convex := cv }
            (5/2) (1/2) (some true))
        - Noisy.level (Noisy.realFns [] 0 0) true (1/2) (5/2)| ≤ 2e-5
    ∧ |Noisy.cdf (Noisy.realFns Noisy.tableR 0 0) { a := 0, b := 1, c := 9, o := 1/10, convex := cv }
          (Noisy.quantileTuningCurve (Noisy.realFns Noisy.tableR 0 0)
            { a := 0, b := 1, c := 9, o := 1/10, convex := cv } (5/2) (1/2) (some true))
        - Noisy.level (Noisy.realFns Noisy.tableR 0 0) true (1/2) (5/2)| ≤ 2e-5 := by
  have hp : ∀ (T : List (ℕ × List (Noisy.Entry ℝ))) (c : ℕ),
      Noisy.pointMass (Noisy.realFns T 0 0) { a := 0, b := 1, c := c, o := 1/10, convex := cv } = false := by
    intro T c
    rw [Bool.eq_false_iff, Ne, Noisy.pointMass_iff (Noisy.realFns_lawful T 0 0)]; norm_num
  have hr : Noisy.regime (Noisy.realFns Noisy.tableR 0 0)
      { a := 0, b := 1, c := 9, o := 1/10, convex := cv } = .nothing := by
    rw [Noisy.regime_nothing_iff (Noisy.realFns_lawful _ 0 0)]; norm_num
  exact ⟨noisy_qtc_hits_level_even [] 0 0 _ 2 (by norm_num) (by norm_num) rfl (by norm_num) (by norm_num) (hp _ 4)
      (5/2) (1/2) (some true) (by norm_num) (by norm_num) (by norm_num),
    noisy_qtc_hits_level_odd_partial 0 0 _ (by norm_num) (hp _ 9) hr (Or.inl rfl)
      (5/2) (1/2) (some true) (by norm_num) (by norm_num) (by norm_num)⟩

/-- for integer `n` the level is what it should be: `P[all n draws ≤ t] = F(t)^n` (discrete form, C04-T2') -/
theorem best_of_n_cdf {N : ℕ} (y w : Fin N → ℝ) (t : ℝ) (n : ℕ) :
    (∑ j, if y j ≤ t then w j else 0) ^ n
      = ∑ g : Fin n → Fin N, if (∀ i, y (g i) ≤ t) then ∏ i, w (g i) else 0 :=
  MaxOfN.cdf_pow_eq_prob_all_le y w t n

end quantile

/-! ## T2 — the noiseless average curve -/
section average
open Opda.Quad

/-- `E[max of n draws of U^{2/c}] = ∫₀¹ u^{2/c}·n u^{n−1} du = n/(n + 2/c)`, every real `n > 0` -/
theorem expected_max_closed_form (c : ℕ) (hc : 0 < c) (n : ℝ) (hn : 0 < n) :
    EmaxW c n = n / (n + 2 / c) := EmaxW_eq c hc n hn

/-- `E[min of n draws of U^{2/c}] = ∫₀¹ u^{2/c}·n (1−u)^{n−1} du = Γ(n+1)Γ(1+2/c)/Γ(n+1+2/c)` (Beta integral) -/
theorem expected_min_closed_form (c : ℕ) (hc : 0 < c) (n : ℝ) (hn : 0 < n) :
    EminW c n = Real.Gamma (n + 1) * Real.Gamma (1 + 2 / c) / Real.Gamma (n + 1 + 2 / c) := EminW_eq c hc n hn

/-- the four branches of `average_tuning_curve` are these two expectations composed with the affine map
(`exp(loggamma + loggamma − loggamma)` is the Gamma ratio) -/
theorem quad_avg_is_expectation (d : Params ℝ) (hc : 0 < d.c) (nn : ℝ) (hn : 0 < nn) (mn : Option Bool) :
    averageTuningCurve d nn mn =
      if d.convex then
        (if mn.getD d.convex then d.a + (d.b - d.a) * EminW d.c nn else d.a + (d.b - d.a) * EmaxW d.c nn)
      else
        (if mn.getD d.convex then d.b - (d.b - d.a) * EmaxW d.c nn else d.b - (d.b - d.a) * EminW d.c nn) :=
  avg_is_expectation d hc nn hn mn

/-- the curve stays inside `[a, b]` (every `a ≤ b`; for `a = b` it is the point mass `a`) -/
theorem quad_avg_inside (d : Params ℝ) (hab : d.a ≤ d.b) (hc : 0 < d.c) (nn : ℝ) (hn : 0 < nn) (mn : Option Bool) :
    d.a ≤ averageTuningCurve d nn mn ∧ averageTuningCurve d nn mn ≤ d.b := avg_mem d hab hc nn hn mn

/-- monotone in `n` in the direction of optimisation -/
theorem quad_avg_monotone (d : Params ℝ) (hab : d.a ≤ d.b) (hc : 0 < d.c) (n n' : ℝ) (hn : 0 < n) (hnn : n ≤ n')
    (m : Bool) :
    if m then averageTuningCurve d n' (some m) ≤ averageTuningCurve d n (some m)
    else averageTuningCurve d n (some m) ≤ averageTuningCurve d n' (some m) := avg_mono d hab hc n n' hn hnn m

/-- the quantile curve stays inside `[a, b]` too -/
theorem quad_qtc_inside (d : Params ℝ) (hab : d.a ≤ d.b) (hc : 0 < d.c) (nn q : ℝ) (mn : Option Bool) :
    d.a ≤ quantileTuningCurve d nn q mn ∧ quantileTuningCurve d nn q mn ≤ d.b := ppf_mem d hab hc _

end average

/-! ## T3 / T4 — the integration loop of the noisy class -/
section loop
open Opda.TrapLoop Opda.Noisy

/-- **T3**: after `i` refinements the loop's state is the step `(hi−lo)/2^i` and the composite trapezoid sum
on `2^i` panels, for *any* integrand -/
theorem loop_state_is_trapezoid (g : ℝ → ℝ) (lo hi : ℝ) (i : ℕ) :
    iter TrapLoop.cast g lo hi i = (Trap.h lo hi i, Trap.trap g lo hi i) := by
  rw [iter_eq, Trap.loop_eq_trap]

/-- **T4 (tail bookkeeping)**: for `G = 0` up to `lo`, `G = 1` beyond `hi`, on any window `[−M, M]` containing
`lo`, `hi` and `0`: `E = ∫ (1[y>0] − G) = lo + ∫_lo^hi (1 − G)` — the value the code returns is `lo +` the
trapezoid sum of `1 − G` -/
theorem tail_terms (G : ℝ → ℝ) (lo hi M : ℝ) (hlh : lo ≤ hi) (hM1 : -M ≤ lo) (hM2 : hi ≤ M) (hM : 0 ≤ M)
    (hG0 : ∀ y, y ≤ lo → G y = 0) (hG1 : ∀ y, hi < y → G y = 1)
    (hint : IntervalIntegrable G MeasureTheory.volume lo hi) :
    ∫ y in (-M)..M, (ind TrapLoop.cast y - G y) = lo + ∫ y in lo..hi, (1 - G y) :=
  shifted_bookkeeping G lo hi M hlh hM1 hM2 hM hG0 hG1 hint

/-- **partial** — everything the stopping rule guarantees about what `average_tuning_curve` returns: trapezoid
sums at a round `i > 3` at which every curve moved by at most `3·atol`.  Missing (and false, see
`stop_rule_not_a_bound`): `|T_i − ∫| ≤ 100·max(atol, 1e-6·scale)`. -/
theorem navg_returns_trapezoid_partial {F : Fns ℝ} (hF : Lawful F) (d : Params ℝ) (ns : List ℝ) (mn : Option Bool)
    (atol : Option ℝ) (rounds : ℕ) (r : ℕ × List ℝ × List ℝ) (h : avgRunCapped F d ns mn atol rounds = some r) :
    3 < r.1 ∧
      r.2.1 = ns.map (fun nn => Trap.trap (gRep F.n F.pow (cdf F d) (mn.getD d.convex) nn) (intLo F d) (intHi F d) r.1) ∧
      ∀ nn ∈ ns, |Trap.trap (gRep F.n F.pow (cdf F d) (mn.getD d.convex) nn) (intLo F d) (intHi F d) r.1
          - Trap.trap (gRep F.n F.pow (cdf F d) (mn.getD d.convex) nn) (intLo F d) (intHi F d) (r.1 - 1)|
        ≤ 3 * atolOf F d atol := avgRunCapped_spec hF d ns mn atol rounds r h

/-- the repair of F4 changed nothing where the legacy integrand was sound: when `0` is outside
`(a − 6o, b + 6o]` the legacy value `max(0,lo) + min(0,hi) + T_i[1[y>0] − Fⁿ]` equals the code's
`lo + T_i[1 − Fⁿ]` at every refinement level -/
theorem navg_fix_conservative {F : Fns ℝ} (hF : Lawful F) (d : Params ℝ) (hab : d.a ≤ d.b)
    (ho : 0 ≤ d.o) (m : Bool) (nn : ℝ) (i : ℕ) (h : 0 < intLo F d ∨ intHi F d ≤ 0) :
    valueCur F.n F.pow (cdf F d) m nn (intLo F d) (intHi F d) i
      = valueRep F.n F.pow (cdf F d) m nn (intLo F d) (intHi F d) i :=
  avgCur_eq_avgRep_partial hF d hab ho m nn i h

/-- **T5 (negative result)**: on the loop model itself (run by the kernel at `Rat`): a continuous piecewise-linear
CDF on `[1,2]`, `n = 1`, default `atol = 1e-6·(hi−lo)`, for which the loop stops at round 4 although the value is
off the exact integral by more than `100·atol` (by `63/2048`) -/
theorem stop_rule_not_a_bound :
    ∃ (i : Nat) (T : Rat),
      (runCapped Witness.natQ [Witness.g] 1 2 Witness.atol 30).map (fun r => (r.1, r.2.1)) = some (i, [T])
        ∧ 100 * Witness.atol < |T - Witness.exactIntegral| := Witness.stop_rule_not_a_bound

/-- the witness is a distribution function: non-decreasing with values in `[0,1]`, `0` at `1`, `1` at `2` -/
theorem stop_rule_witness_is_cdf :
    (∀ x y : Rat, x ≤ y → Witness.F x ≤ Witness.F y) ∧ (∀ y : Rat, 0 ≤ Witness.F y ∧ Witness.F y ≤ 1)
      ∧ Witness.F 1 = 0 ∧ Witness.F 2 = 1 :=
  ⟨Witness.F_mono, Witness.F_range, by decide +kernel, by decide +kernel⟩

/-- **the point mass returns** (F5 repaired): for `a = b`, `o = 0` and the default tolerance the loop stops at
round 4 and `average_tuning_curve(ns)` is constantly `a` (for exponents with `0ⁿ = 0`, `1ⁿ = 1`) -/
theorem navg_point_mass_returns {F : Fns ℝ} (hF : Lawful F) (d : Params ℝ) (hab : d.a = d.b) (ho : d.o = 0)
    (ns : List ℝ) (mn : Option Bool) (hp0 : ∀ nn ∈ ns, F.pow 0 nn = 0) (hp1 : ∀ nn ∈ ns, F.pow 1 nn = 1) :
    averageTuningCurve F d ns mn none = some (ns.map fun _ => d.a) :=
  averageTuningCurve_pointMass hF d hab ho ns mn hp0 hp1

/-- non-vacuity of the exponent hypotheses: the real instance (`pow = rpow`) satisfies them for every `n ≠ 0` -/
example (T : List (ℕ × List (Noisy.Entry ℝ))) (nn : ℝ) (hn : nn ≠ 0) :
    (Noisy.realFns T 0 0).pow 0 nn = 0 ∧ (Noisy.realFns T 0 0).pow 1 nn = 1 :=
  ⟨Real.zero_rpow hn, Real.one_rpow nn⟩

/-- a negative explicit tolerance can never be met: `IntegrationError` after the round budget -/
theorem navg_negative_atol_fails {F : Fns ℝ} (hF : Lawful F) (d : Params ℝ) (ns : List ℝ) (mn : Option Bool)
    (atol : ℝ) (hat : atol < 0) (rounds : ℕ) : avgRunCapped F d ns mn (some atol) rounds = none :=
  avgRunCapped_neg_atol_none hF d ns mn atol hat rounds

end loop

/-- non-vacuity: `Q(0,1,3)` concave, `n = 2`: the maximising average curve is `1 − Γ(3)Γ(5/3)/Γ(11/3)`-shaped and
lies in `[0,1]` -/
example : (0:ℝ) ≤ Quad.averageTuningCurve ({ a := 0, b := 1, c := 3, convex := false } : Quad.Params ℝ) 2 none :=
  (quad_avg_inside ({ a := 0, b := 1, c := 3, convex := false } : Quad.Params ℝ) (by norm_num) (by norm_num) 2
    (by norm_num) none).1

end Opda.Props.C08

#opda_audit Opda.Props.C08
