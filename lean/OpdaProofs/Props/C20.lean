import OpdaProofs.Audit
import OpdaProofs.Experiments
import OpdaProofs.ExperimentsVolume
import OpdaProofs.ExperimentsDriver
/-!
# C20 — experiment helpers: `ellipse_volume`, `get_approximation_parameters`, `Simulation.run`

Property theorems only (lemmas live in `OpdaProofs/Experiments{,Volume,Driver}.lean`; `tail_exact` algebra in
`OpdaProofs/Small.lean`; the concave `QuadraticDistribution.cdf` is the polymorphic model `Opda.Quad.cdf` at `ℝ`).

* **ellipse_volume.**  The model term is the stated formula (`ellipse_volume_formula`), permutation invariant,
  homogeneous of degree one in each axis — and it **is** the Lebesgue volume of the ellipsoid
  `{x : Σ (x_i/c_i)² ≤ 1}` (`ellipse_volume_is_lebesgue_volume`), derived from `EuclideanSpace.volume_closedBall`
  and the `|det|` scaling of Lebesgue measure; no volume formula is assumed anywhere in this file.
* **get_approximation_parameters.**  `(a, b, c) = (y_max − (1/ω)^{2/d}, y_max, d)`.  `tail_exact_uniform`: for `X` uniform
  on the box and `f(x) = b − ½(x−x₀)ᵀA(x−x₀)`, `A = Q diag(μ) Qᵀ` (`Q` orthogonal, `μ > 0`; by the spectral theorem
  `posDef_is_rotated` that is every positive definite `A`: `tail_exact_uniform_posDef`), the model's parameters computed
  from the Hessian eigenvalues `−μ_i` satisfy `P[f(X) ≥ y] = P[f(X) > y] = 1 − cdf_concave(y)` for every `y ∈ [a, b]`
  whose level ellipsoid `{f ≥ y}` lies inside the box.  The hypothesis is per level: `level_a_fills_box` shows that the
  ellipsoid at level `a` has *exactly* the volume of the box, so "`{f ≥ a}` inside the box" can hold only if the
  ellipsoid fills the box up to a null set (possible in `d = 1` only); containment at `a` implies containment at every
  `y ≥ a`, so the property as registered is the special case.
  Black boxes of the code that are *parameters* here: `differential_evolution` (supplies `y_max = b`),
  `autograd.hessian` + `np.linalg.eigvals` (supply the eigenvalues, in any order).
* **Simulation.run.**  `yss_cummax` is the running maximum along the sample axis (each entry is the maximum of its
  prefix, the rows are monotone, the last entry is the overall maximum, the recurrence of `np.maximum.accumulate`),
  `xs`/`ys` are the first trial, `yss = func(xss)`, shapes, every point inside the bounds when the uniforms are in
  `[0,1]`, and `y_min ≤ yss ≤ y_max` *given* optimality of the black-box optima.  `cummax_driver` restates the running
  maximum for the very term the driver evaluates (`Ext` values, `extMax`).
-/
namespace Opda.Props.C20
open Opda Opda.Exp Opda.ExpVol MeasureTheory Matrix

/-! ### ellipse_volume -/

/-- the model of `ellipse_volume(cs)` is `π^{d/2} / Γ(d/2 + 1) · ∏ cs` -/
theorem ellipse_volume_formula (cs : List ℝ) :
    ellipseVolume cs = Real.pi ^ ((cs.length : ℝ) / 2) / Real.Gamma ((cs.length : ℝ) / 2 + 1) * cs.prod :=
  ellipseVolume_eq cs

/-- permutation invariance -/
theorem ellipse_volume_perm (cs cs' : List ℝ) (h : cs.Perm cs') : ellipseVolume cs = ellipseVolume cs' :=
  ellipseVolume_perm h

/-- homogeneous of degree one in each axis (the axis at any position) -/
theorem ellipse_volume_homogeneous_axis (l₁ l₂ : List ℝ) (c t : ℝ) :
    ellipseVolume (l₁ ++ (t * c) :: l₂) = t * ellipseVolume (l₁ ++ c :: l₂) := ellipseVolume_scale_axis l₁ l₂ c t

/-- the same with the axis addressed by its index -/
theorem ellipse_volume_homogeneous_index (cs : List ℝ) (i : ℕ) (hi : i < cs.length) (t : ℝ) :
    ellipseVolume (cs.set i (t * cs[i])) = t * ellipseVolume cs := ellipseVolume_scale_index cs i hi t

/-- jointly homogeneous of degree `d` -/
theorem ellipse_volume_homogeneous_all (cs : List ℝ) (t : ℝ) :
    ellipseVolume (cs.map (t * ·)) = t ^ cs.length * ellipseVolume cs := ellipseVolume_scale_all cs t

/-- **`ellipse_volume(cs)` is the Lebesgue volume of the ellipsoid** `{x ∈ ℝ^d : Σ (x_i / c_i)² ≤ 1}`, `c_i > 0`, `d ≥ 1`
(derived from Mathlib's volume of the Euclidean ball and the `|det|` scaling of Lebesgue measure) -/
theorem ellipse_volume_is_lebesgue_volume {d : ℕ} [NeZero d] (c : Fin d → ℝ) (hc : ∀ i, 0 < c i) :
    volume {x : Fin d → ℝ | ∑ i, (x i / c i) ^ 2 ≤ 1} = ENNReal.ofReal (ellipseVolume (List.ofFn c)) :=
  volume_ellipsoid c hc

/-- non-vacuity / sanity: the empty product (`d = 0`) gives `1`, as numpy does -/
example : ellipseVolume ([] : List ℝ) = 1 := ellipseVolume_nil

/-! ### get_approximation_parameters -/

/-- the returned triple: `a = y_max − (1/ω)^{2/d}`, `b = y_max`, `c = d`, with `ω = ellipse_volume((-2/λ)^{1/2}) / vol(box)` -/
theorem params_formula (yMax : ℝ) (eigs : List ℝ) (bounds : List (ℝ × ℝ)) :
    approxParams yMax eigs bounds
      = (yMax - (1 / (ellipseVolume (axes eigs) / boxVolume bounds)) ^ ((2 : ℝ) / (bounds.length : ℝ)), yMax, bounds.length) :=
  approxParams_eq yMax eigs bounds

/-- the semi-axes handed to `ellipse_volume` are `√(2/(−λ_i))` and the box volume is `∏ (hi_i − lo_i)` -/
theorem params_ingredients (eigs : List ℝ) (bounds : List (ℝ × ℝ)) :
    axes eigs = eigs.map (fun l => Real.sqrt (2 / -l)) ∧ boxVolume bounds = (bounds.map fun p => p.2 - p.1).prod :=
  ⟨axes_eq eigs, boxVolume_eq bounds⟩

/-- `a < b` whenever the curvature is strictly negative and the box is non-degenerate -/
theorem params_a_lt_b (yMax : ℝ) (eigs : List ℝ) (bounds : List (ℝ × ℝ)) (hneg : ∀ l ∈ eigs, l < 0)
    (hb : ∀ p ∈ bounds, p.1 < p.2) : (approxParams yMax eigs bounds).1 < (approxParams yMax eigs bounds).2.1 :=
  approxParams_a_lt_b yMax hneg hb

/-- **tail exactness, algebraic form** (on the model's terms): `K·(b−y)^{d/2} / vol(box) = 1 − cdf_concave(y)` on `[a, b]`,
`K = ellipse_volume((-2/λ)^{1/2})` -/
theorem tail_exact_algebra (yMax : ℝ) (eigs : List ℝ) (bounds : List (ℝ × ℝ)) (hd : 0 < bounds.length)
    (hneg : ∀ l ∈ eigs, l < 0) (hb : ∀ p ∈ bounds, p.1 < p.2) (y : ℝ)
    (hya : (approxParams yMax eigs bounds).1 ≤ y) (hyb : y ≤ yMax) :
    ellipseVolume (axes eigs) * (yMax - y) ^ ((bounds.length : ℝ) / 2) / boxVolume bounds
      = 1 - Quad.cdf (approxDist yMax eigs bounds) y :=
  tail_exact_model yMax eigs bounds hd hneg hb y hya hyb

/-- **level-set volume, derived**: `vol{f ≥ y} = vol{f > y} = ellipse_volume((-2/λ)^{1/2}) · (b−y)^{d/2}` for the concave
quadratic `f` with curvature `Q diag(μ) Qᵀ` (Hessian eigenvalues `λ_i = −μ_i`) -/
theorem level_set_volume {d : ℕ} [NeZero d] (Q : Matrix (Fin d) (Fin d) ℝ) (hQ : Qᵀ * Q = 1) (μ : Fin d → ℝ)
    (hμ : ∀ i, 0 < μ i) (x₀ : Fin d → ℝ) (b y : ℝ) (hy : y ≤ b) :
    volume {x | y ≤ quadObjective (Q * diagonal μ * Qᵀ) x₀ b x}
        = ENNReal.ofReal (ellipseVolume (axes (hessEigs μ)) * (b - y) ^ ((d : ℝ) / 2))
      ∧ volume {x | y < quadObjective (Q * diagonal μ * Qᵀ) x₀ b x}
        = ENNReal.ofReal (ellipseVolume (axes (hessEigs μ)) * (b - y) ^ ((d : ℝ) / 2)) :=
  volume_superlevel_model Q hQ μ hμ x₀ b y hy

/-- **C20, tail exactness** (diagonal: `Q = 1`; rotated: any orthogonal `Q`): for `X` uniform on the box `[lo, hi]`,
`P[f(X) ≥ y] = P[f(X) > y] = 1 − cdf(y)` of `QuadraticDistribution(a, b, c, convex=False)` with the returned parameters,
for every `y ∈ [a, b]` whose level ellipsoid lies inside the box -/
theorem tail_exact_uniform {d : ℕ} [NeZero d] (Q : Matrix (Fin d) (Fin d) ℝ) (hQ : Qᵀ * Q = 1) (μ : Fin d → ℝ)
    (hμ : ∀ i, 0 < μ i) (x₀ : Fin d → ℝ) (b : ℝ) (lo hi : Fin d → ℝ) (hbox : ∀ i, lo i < hi i) (y : ℝ)
    (hya : (approxParams b (hessEigs μ) (boundsList lo hi)).1 ≤ y) (hyb : y ≤ b)
    (hin : {x | y ≤ quadObjective (Q * diagonal μ * Qᵀ) x₀ b x} ⊆ Set.Icc lo hi) :
    (ProbabilityTheory.cond volume (Set.Icc lo hi)) {x | y ≤ quadObjective (Q * diagonal μ * Qᵀ) x₀ b x}
        = ENNReal.ofReal (1 - Quad.cdf (approxDist b (hessEigs μ) (boundsList lo hi)) y)
      ∧ (ProbabilityTheory.cond volume (Set.Icc lo hi)) {x | y < quadObjective (Q * diagonal μ * Qᵀ) x₀ b x}
        = ENNReal.ofReal (1 - Quad.cdf (approxDist b (hessEigs μ) (boundsList lo hi)) y) :=
  Opda.ExpVol.tail_exact_uniform Q hQ μ hμ x₀ b lo hi hbox y hya hyb hin

/-- every real positive definite matrix is `Q diag(μ) Qᵀ` with `Q` orthogonal and `μ > 0` its eigenvalues -/
theorem posDef_is_rotated {d : ℕ} (A : Matrix (Fin d) (Fin d) ℝ) (hA : A.PosDef) :
    ∃ Q : Matrix (Fin d) (Fin d) ℝ, Qᵀ * Q = 1 ∧ (∀ i, 0 < hA.1.eigenvalues i)
      ∧ A = Q * diagonal hA.1.eigenvalues * Qᵀ := posDef_rotated A hA

/-- **C20, tail exactness for an arbitrary positive definite curvature matrix** -/
theorem tail_exact_uniform_posDef {d : ℕ} [NeZero d] (A : Matrix (Fin d) (Fin d) ℝ) (hA : A.PosDef) (x₀ : Fin d → ℝ)
    (b : ℝ) (lo hi : Fin d → ℝ) (hbox : ∀ i, lo i < hi i) (y : ℝ)
    (hya : (approxParams b (hessEigs hA.1.eigenvalues) (boundsList lo hi)).1 ≤ y) (hyb : y ≤ b)
    (hin : {x | y ≤ quadObjective A x₀ b x} ⊆ Set.Icc lo hi) :
    (ProbabilityTheory.cond volume (Set.Icc lo hi)) {x | y ≤ quadObjective A x₀ b x}
        = ENNReal.ofReal (1 - Quad.cdf (approxDist b (hessEigs hA.1.eigenvalues) (boundsList lo hi)) y)
      ∧ (ProbabilityTheory.cond volume (Set.Icc lo hi)) {x | y < quadObjective A x₀ b x}
        = ENNReal.ofReal (1 - Quad.cdf (approxDist b (hessEigs hA.1.eigenvalues) (boundsList lo hi)) y) :=
  Opda.ExpVol.tail_exact_uniform_posDef A hA x₀ b lo hi hbox y hya hyb hin

/-- "with `b` the maximum of `f`": the objective never exceeds `b` and attains it at `x₀` -/
theorem b_is_the_maximum {d : ℕ} (A : Matrix (Fin d) (Fin d) ℝ) (hA : A.PosDef) (x₀ : Fin d → ℝ) (b : ℝ) :
    (∀ x, quadObjective A x₀ b x ≤ b) ∧ quadObjective A x₀ b x₀ = b := quadObjective_max A hA x₀ b

/-- the level ellipsoid at the returned `a` has exactly the volume of the box -/
theorem level_a_fills_box {d : ℕ} [NeZero d] (Q : Matrix (Fin d) (Fin d) ℝ) (hQ : Qᵀ * Q = 1) (μ : Fin d → ℝ)
    (hμ : ∀ i, 0 < μ i) (x₀ : Fin d → ℝ) (b : ℝ) (lo hi : Fin d → ℝ) (hbox : ∀ i, lo i < hi i) :
    volume {x | (approxParams b (hessEigs μ) (boundsList lo hi)).1 ≤ quadObjective (Q * diagonal μ * Qᵀ) x₀ b x}
      = volume (Set.Icc lo hi) := volume_level_a_eq_box Q hQ μ hμ x₀ b lo hi hbox

/-- the containment condition for diagonal curvature: half-extents `√(2(b−y)/μ_i)` around the optimum -/
theorem containment_diagonal {d : ℕ} (μ : Fin d → ℝ) (hμ : ∀ i, 0 < μ i) (x₀ : Fin d → ℝ) (b y : ℝ) (lo hi : Fin d → ℝ)
    (hfit : ∀ i, lo i ≤ x₀ i - Real.sqrt (2 * (b - y) / μ i) ∧ x₀ i + Real.sqrt (2 * (b - y) / μ i) ≤ hi i) :
    {x | y ≤ quadObjective ((1 : Matrix (Fin d) (Fin d) ℝ) * diagonal μ * (1 : Matrix (Fin d) (Fin d) ℝ)ᵀ) x₀ b x}
      ⊆ Set.Icc lo hi := superlevel_subset_box_diag μ hμ x₀ b y lo hi hfit

/-- non-vacuity of `tail_exact_uniform`: `f(x) = 1 − x²` on `[−1, 1]` has a level `y < b`, `a ≤ y`, whose level set fits -/
example : ∃ y : ℝ, y < 1
    ∧ (approxParams (1 : ℝ) (hessEigs (fun _ : Fin 1 => (2 : ℝ))) (boundsList (fun _ : Fin 1 => (-1 : ℝ)) (fun _ => 1))).1 ≤ y
    ∧ {x | y ≤ quadObjective ((1 : Matrix (Fin 1) (Fin 1) ℝ) * diagonal (fun _ => (2 : ℝ)) * (1 : Matrix (Fin 1) (Fin 1) ℝ)ᵀ) 0 1 x}
        ⊆ Set.Icc (fun _ : Fin 1 => (-1 : ℝ)) (fun _ => 1) := tail_exact_uniform_nonvacuous

/-! ### Simulation.run -/

section Cummax
variable {β : Type} [LinearOrder β]

theorem cummax_length (l : List β) : (cummax max l).length = l.length := length_cummax max l

/-- each entry of `yss_cummax` is the maximum of the prefix: an upper bound of `l[0..i]` … -/
theorem cummax_prefix_upper_bound (l : List β) (i j : ℕ) (hi : i < l.length) (hji : j ≤ i) :
    l[j] ≤ (cummax max l)[i]'(by rw [length_cummax]; exact hi) := cummax_ge l i j hi hji

/-- … that is attained in the prefix -/
theorem cummax_prefix_attained (l : List β) (i : ℕ) (hi : i < l.length) :
    ∃ j, ∃ hj : j ≤ i, (cummax max l)[i]'(by rw [length_cummax]; exact hi) = l[j] := cummax_attained l i hi

/-- the running maximum is non-decreasing along the sample axis -/
theorem cummax_monotone (l : List β) (i j : ℕ) (hij : i ≤ j) (hj : j < l.length) :
    (cummax max l)[i]'(by rw [length_cummax]; omega) ≤ (cummax max l)[j]'(by rw [length_cummax]; exact hj) :=
  cummax_mono l i j hij hj

/-- it starts at the first sample and follows the recurrence of `np.maximum.accumulate` -/
theorem cummax_recurrence (l : List β) :
    (∀ h : 0 < l.length, (cummax max l)[0]'(by rw [length_cummax]; exact h) = l[0])
      ∧ ∀ (i : ℕ) (hi : i + 1 < l.length), (cummax max l)[i + 1]'(by rw [length_cummax]; exact hi)
          = max ((cummax max l)[i]'(by rw [length_cummax]; omega)) l[i + 1] :=
  ⟨cummax_zero l, cummax_succ l⟩

/-- the last entry is the overall maximum of the trial -/
theorem cummax_last_is_max (l : List β) (h : l ≠ []) :
    ∃ hc : cummax max l ≠ [], (∀ x ∈ l, x ≤ (cummax max l).getLast hc) ∧ (cummax max l).getLast hc ∈ l :=
  cummax_getLast l h

/-- it is `scanl max` from the first sample -/
theorem cummax_is_scanl (x : β) (xs : List β) : cummax max (x :: xs) = List.scanl max x xs := cummax_cons x xs

end Cummax

/-- the running maximum for the very term the driver evaluates (`exp.sim`: `Ext` values, `extMax`) -/
theorem cummax_driver (l : List Opda.Wire.Ext) : cummax Opda.Drv.Exp.extMax l = cummax max l := driver_cummax l

section Sim
variable {α γ : Type} [Add α] [Sub α] [Mul α]
variable (nSamples : ℕ) (func : List α → γ) (mx : γ → γ → γ) (bounds : List (α × α)) (us : List (List (List α)))

/-- documented shapes: `ns = 1..n_samples`; `xss : (n_trials, n_samples, n_dims)`; `yss`, `yss_cummax : (n_trials, n_samples)` -/
theorem sim_shapes (nDims : ℕ) (hbl : bounds.length = nDims)
    (hus : ∀ trial ∈ us, trial.length = nSamples ∧ ∀ u ∈ trial, u.length = nDims) :
    (simRun nSamples func mx bounds us).ns = (List.range nSamples).map (· + 1)
      ∧ (simRun nSamples func mx bounds us).xss.length = us.length
      ∧ (simRun nSamples func mx bounds us).yss.length = us.length
      ∧ (simRun nSamples func mx bounds us).yssCummax.length = us.length
      ∧ (∀ t ∈ (simRun nSamples func mx bounds us).xss, t.length = nSamples ∧ ∀ x ∈ t, x.length = nDims)
      ∧ (∀ t ∈ (simRun nSamples func mx bounds us).yss, t.length = nSamples)
      ∧ (∀ t ∈ (simRun nSamples func mx bounds us).yssCummax, t.length = nSamples) :=
  ⟨rfl, simRun_xss_length .., simRun_yss_length .., simRun_cummax_length ..,
    simRun_shapes nSamples func mx bounds us nDims hbl hus⟩

/-- `yss = func(xss)`, `xs`/`ys` are the first trial, `yss_cummax` is the row-wise running maximum of `yss` -/
theorem sim_bookkeeping :
    (simRun nSamples func mx bounds us).yss = (simRun nSamples func mx bounds us).xss.map (fun trial => trial.map func)
      ∧ (simRun nSamples func mx bounds us).xs = (simRun nSamples func mx bounds us).xss.headD []
      ∧ (simRun nSamples func mx bounds us).ys = (simRun nSamples func mx bounds us).yss.headD []
      ∧ (simRun nSamples func mx bounds us).yssCummax = (simRun nSamples func mx bounds us).yss.map (cummax mx) :=
  ⟨rfl, rfl, rfl, rfl⟩

/-- what the driver's `exp.sim` evaluates is this bookkeeping applied to the evaluated `yss` -/
theorem sim_driver_book : simBook nSamples mx (simRun nSamples func mx bounds us).yss
    = ((simRun nSamples func mx bounds us).ns, (simRun nSamples func mx bounds us).ys,
       (simRun nSamples func mx bounds us).yssCummax) := rfl

/-- `y_min ≤ yss ≤ y_max`, *given* that the optimiser's `y_min`, `y_max` are optimal on the box (named hypothesis: the
black box `differential_evolution`) -/
theorem sim_values_between [Preorder γ] (yMin yMax : γ) (inBox : List α → Prop)
    (hopt : ∀ x, inBox x → yMin ≤ func x ∧ func x ≤ yMax)
    (hin : ∀ trial ∈ (simRun nSamples func mx bounds us).xss, ∀ x ∈ trial, inBox x) :
    ∀ trial ∈ (simRun nSamples func mx bounds us).yss, ∀ v ∈ trial, yMin ≤ v ∧ v ≤ yMax :=
  simRun_yss_between nSamples func mx bounds us yMin yMax inBox hopt hin

end Sim

/-- every point lies inside the bounds (exact arithmetic, uniforms in `[0,1]`) -/
theorem sim_points_in_bounds {α γ : Type} [Field α] [LinearOrder α] [IsStrictOrderedRing α]
    (nSamples : ℕ) (func : List α → γ) (mx : γ → γ → γ) (bounds : List (α × α)) (us : List (List (List α))) (hb : ∀ p ∈ bounds, p.1 ≤ p.2)
    (hus : ∀ trial ∈ us, ∀ u ∈ trial, ∀ t ∈ u, 0 ≤ t ∧ t ≤ (1 : α)) :
    ∀ trial ∈ (simRun nSamples func mx bounds us).xss, ∀ x ∈ trial, ∀ (i : ℕ) (hi : i < x.length) (hib : i < bounds.length),
      bounds[i].1 ≤ x[i] ∧ x[i] ≤ bounds[i].2 := simRun_in_bounds nSamples func mx bounds us hb hus


/-- non-vacuity of the simulation hypotheses: one trial, two samples, one dimension -/
example : ∃ (bounds : List (ℚ × ℚ)) (us : List (List (List ℚ))),
    (∀ p ∈ bounds, p.1 ≤ p.2) ∧ (∀ trial ∈ us, ∀ u ∈ trial, ∀ t ∈ u, 0 ≤ t ∧ t ≤ (1 : ℚ))
      ∧ (∀ trial ∈ us, trial.length = 2 ∧ ∀ u ∈ trial, u.length = 1) :=
  ⟨[(-1, 3)], [[[1/2], [0]]], by simp; norm_num, by simp; norm_num, by simp⟩

end Opda.Props.C20

#opda_audit Opda.Props.C20
