import OpdaProofs.Audit
import OpdaProofs.TableSpec
import OpdaProofs.TableMoments
import OpdaGen.CertAll
/-!
# C19 — the shipped approximation table delivers the accuracy it records

`Opda.Gen.tableQ` is regenerated from `/repo/src/opda/_approximations.json` on every run (every double as the
exact rational it denotes), and so are the certificates in `OpdaGen/Cert/`; the theorems below are therefore
re-checked against what the file says *now*.  Exponent = `row.1 / 2`.
-/
namespace Opda.Props.C19
open Opda.Table Opda.Gen Opda.PolyCheck Opda.Noisy

/-- structure: in every entry the knots increase strictly from exactly 0 to exactly 1 with one coefficient vector
per piece, and in every row `min_scale` decreases strictly and ends at exactly 0. -/
theorem table_structure : structOK tableQ = true := Opda.Gen.Cert.struct_ok

/-- **uniform accuracy**: for every exponent in the table, every entry and *every real* `x ∈ [0,1]`, the piece whose
knots bracket `x` is within `1.02 · max_error` of `x ^ exponent` at `x`. -/
theorem table_accuracy (row : Nat × List EntryQ) (hrow : row ∈ tableQ) (e : EntryQ) (he : e ∈ row.2)
    (x : ℝ) (hx0 : 0 ≤ x) (hx1 : x ≤ 1) :
    ∃ (pi : ℕ) (cs : List ℚ) (lo hi : ℚ), e.coeffs[pi]? = some cs ∧ e.knots[pi]? = some lo ∧ e.knots[pi + 1]? = some hi ∧
      (lo : ℝ) ≤ x ∧ x ≤ (hi : ℝ) ∧
      |evalQ cs x - x ^ ((row.1 : ℝ) / 2)| ≤ ((slack * e.maxError : ℚ) : ℝ) :=
  accuracy_of_certs tableQ Opda.Gen.Cert.struct_ok Opda.Gen.Cert.table_bound row hrow e he x hx0 hx1

/-- **partial moments**: for every exponent, every entry, **every location `μ` and every scale `σ > 0`** (in particular
every scale that selects the entry), the partial normal moment obtained from the entry's pieces, `Σ_pieces ∫ p_i dN(μ,σ²)`,
is within `1.02 · max_error` of `∫₀¹ x^k dN(μ,σ²)` — in exact arithmetic.  (That the code's piecewise recursion returns
exactly `Σ_pieces ∫ p_i dN` is `Opda.Props.C06.frac_moment_model`; the floating-point evaluation is compared with
40-digit quadrature by the correspondence check.) -/
theorem table_partial_moments (row : Nat × List EntryQ) (hrow : row ∈ tableQ) (e : EntryQ) (he : e ∈ row.2)
    (μ σ : ℝ) (hσ : 0 < σ) :
    |(∫ x in (0:ℝ)..1, x ^ ((row.1 : ℝ) / 2) * dens μ σ x) - piecesSum μ σ (piecesOf e.knots e.coeffs)|
      ≤ ((slack * e.maxError : ℚ) : ℝ) :=
  moments_of_certs tableQ Opda.Gen.Cert.struct_ok Opda.Gen.Cert.table_bound row hrow e he μ σ hσ

/-- the same bound for every piece on its *whole* knot interval (index form, one certificate per piece). -/
theorem piece_accuracy : ∀ t ∈ allPieces tableQ, PieceBound tableQ t.1 t.2.1 t.2.2 := Opda.Gen.Cert.table_bound

/-- **every scale selects exactly one entry**: the code's rule "first entry with `scale ≥ min_scale`" is total on
`scale ≥ 0`, and the selected entry is the first (hence, `min_scale` being strictly decreasing, the only) one whose
half-open scale range contains `scale`. -/
theorem select_total_unique (row : Nat × List EntryQ) (hrow : row ∈ tableQ) (scale : ℚ) (hs : 0 ≤ scale) :
    ∃ e, select row.2 scale = some e ∧ e ∈ row.2 ∧ e.minScale ≤ scale ∧
      ∃ i : ℕ, row.2[i]? = some e ∧ ∀ j, j < i → ∀ e' : EntryQ, row.2[j]? = some e' → scale < e'.minScale :=
  Opda.Table.select_total_unique row
    (List.all_eq_true.mp (by have := Opda.Gen.Cert.struct_ok; unfold structOK at this; exact this) row hrow) scale hs

end Opda.Props.C19

#opda_audit Opda.Props.C19
