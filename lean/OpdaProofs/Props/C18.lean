import OpdaProofs.Audit
import OpdaProofs.Lagrange
import OpdaProofs.PolyQ
import OpdaProofs.Reexp
import OpdaProofs.Minimax
import OpdaProofs.Knots
import OpdaProofs.RemezModel
/-!
# C18 — Lagrange interpolation, minimax coefficients, piecewise knots

Property theorems only.  `Lagr.eval` is the executable model of `lagrange_interpolate` (first
barycentric form + node fix-up, as the code does it), `Lagr.lsum` the plain Lagrange-basis sum; both are
run in exact `ℚ` by the driver op `approx.lagr` on the implementation's inputs.

Compared by the harness, not proved: floating-point rounding of the implementation (inside the
property's `1e-13·Σ|y_j l_j(x)|`), the least-squares recovery of the coefficients, convergence of the
knot search.
-/
namespace Opda.Props.C18
open Polynomial Finset Opda.Lagr Opda.PolyQ Opda.Reexp Opda.Minimax
open Opda.PolyCheck (evalQ)

section Lagrange
variable {F : Type} [Field F] [DecidableEq F]

/-- **Model = Spec**: the code's algorithm evaluates Mathlib's `Lagrange.interpolate` at every `x`
(off the nodes through `Lagrange.eval_interpolate_not_at_node`, at a node through the fix-up). -/
theorem model_is_lagrange_interpolant (n : ℕ) (v r : ℕ → F) (hv : Set.InjOn v (range n : Finset ℕ)) (x : F) :
    Lagr.eval n v r x = (Lagrange.interpolate (range n) v r).eval x := eval_eq_interpolate n v r hv x

/-- exact at the nodes -/
theorem exact_at_nodes (n : ℕ) (v r : ℕ → F) (hv : Set.InjOn v (range n : Finset ℕ)) (i : ℕ) (hi : i < n) :
    Lagr.eval n v r (v i) = r i := eval_at_node n v r hv i hi

/-- the barycentric model and the plain Lagrange sum `Σ y_j l_j(x)` agree everywhere -/
theorem barycentric_eq_lagrange_sum (n : ℕ) (v r : ℕ → F) (hv : Set.InjOn v (range n : Finset ℕ)) (x : F) :
    Lagr.eval n v r x = lsum n v r x := eval_eq_lsum n v r hv x

/-- the interpolant has degree `< n = len(xs)` … -/
theorem interpolant_degree_lt (n : ℕ) (v r : ℕ → F) (hv : Set.InjOn v (range n : Finset ℕ)) :
    (Lagrange.interpolate (range n) v r).degree < n := degree_lt n v r hv

/-- … and is the **unique** such polynomial through the points: whatever polynomial of degree `< n`
passes through them, the model evaluates it. -/
theorem unique_interpolant (n : ℕ) (v r : ℕ → F) (hv : Set.InjOn v (range n : Finset ℕ))
    (q : F[X]) (hdeg : q.degree < n) (hq : ∀ i, i < n → q.eval (v i) = r i) (x : F) :
    Lagr.eval n v r x = q.eval x := eval_unique n v r hv q hdeg hq x

/-- **permutation invariance**: re-ordering the nodes (with their values) by any bijection of the index
set does not change the function. -/
theorem permutation_invariant (n : ℕ) (v r : ℕ → F) (hv : Set.InjOn v (range n : Finset ℕ))
    (σ : ℕ → ℕ) (hσ : Set.BijOn σ (range n : Finset ℕ) (range n : Finset ℕ)) (x : F) :
    Lagr.eval n (v ∘ σ) (r ∘ σ) x = Lagr.eval n v r x := eval_perm n v r hv σ hσ x

end Lagrange

/-- the term the driver evaluates (`ℚ`, nodes tested by `distinct`): its value, read in `ℝ`, is the
real Lagrange interpolant of the data at that point, and equals the plain Lagrange sum. -/
theorem lagr_driver (n : ℕ) (v r : ℕ → ℚ) (hd : distinct n v = true) (x : ℚ) :
    ((Lagr.eval n v r x : ℚ) : ℝ)
        = (Lagrange.interpolate (range n) (fun i => (v i : ℝ)) (fun i => (r i : ℝ))).eval (x : ℝ)
      ∧ Lagr.eval n v r x = lsum n v r x :=
  ⟨cast_eval_eq_interpolate n v r (distinct_injOn n v hd) x, eval_eq_lsum n v r (distinct_injOn n v hd) x⟩

section Reexpansion
variable {F : Type} [Field F]

/-- **T2**: the re-expansion `a'_i = Σ_{j≥i} C(j,i) b^{j−i} c^j a_j` is composition with the affine map
`X ↦ c·(X + b)` -/
theorem reexpansion_is_affine_composition (N : ℕ) (a : ℕ → F) (b c : F) :
    polyOf N (reexpand N a b c) = (polyOf N a).comp (C c * (X + C b)) := polyOf_reexpand N a b c

/-- with the code's transform arithmetic the re-expanded polynomial at `x` is the polynomial in the
transformed variable at `ta + (x − a_orig)/m`, for every transform `(ta, tb)` -/
theorem reexpansion_code_arithmetic (N : ℕ) (a : ℕ → F) (ta tb a0 b0 x : F) (h1 : tb - ta ≠ 0) (h2 : b0 - a0 ≠ 0) :
    let m := (b0 - a0) / (tb - ta)
    ∑ i ∈ range N, reexpand N a (m * ta - a0) (1 / m) i * x ^ i
      = ∑ j ∈ range N, a j * (ta + (x - a0) / m) ^ j := reexpand_eval N a ta tb a0 b0 x h1 h2

/-- that affine map sends the original interval's end points to the transform interval's -/
theorem transform_maps_endpoints (ta tb a0 b0 : F) (h1 : tb - ta ≠ 0) (h2 : b0 - a0 ≠ 0) :
    let m := (b0 - a0) / (tb - ta)
    ta + (a0 - a0) / m = ta ∧ ta + (b0 - a0) / m = tb := affine_code_endpoints ta tb a0 b0 h1 h2

end Reexpansion

/-- **T3** (the term `approx.cpoly` evaluates, `cf` = the returned coefficients): an accepted
certificate bounds the difference between the coefficient polynomial and the polynomial defined by the
minimax callable's node values at **every** real `x ∈ [a,b]`. -/
theorem coefficient_polynomial_close_everywhere (n : ℕ) (v r : ℕ → ℚ) (cf : List ℚ) (B a b : ℚ) (depth S : ℕ)
    (hv : Set.InjOn v (range n : Finset ℕ))
    (h : certPoly n v r cf B a b depth S = true) (x : ℝ) (h1 : (a : ℝ) ≤ x) (h2 : x ≤ (b : ℝ)) :
    |evalQ cf x - (Lagrange.interpolate (range n) (fun i => (v i : ℝ)) (fun i => (r i : ℝ))).eval x| ≤ (B : ℝ) :=
  certPoly_sound n v r cf B a b depth S hv h x h1 h2

/-! ### knots -/

/-- the minimax error grows with the interval (sup over a superset) -/
theorem minimax_error_monotone_in_interval (n : ℕ) (f : ℝ → ℝ) (l r l' r' : ℝ) (hl : l' ≤ l) (hr : r ≤ r') :
    minimaxErr n f l r ≤ minimaxErr n f l' r' := minimaxErr_mono_interval n f l r l' r' hl hr

/-- **equal-error optimality** for an abstract interval-monotone error functional -/
theorem equal_error_knots_optimal (m : ℕ) (hm : 0 < m) (K K' : ℕ → ℝ) (err : ℕ → ℝ → ℝ → ℝ) (E : ℝ)
    (hmono : ∀ i l r l' r', l' ≤ l → r ≤ r' → err i l r ≤ err i l' r')
    (h0 : K' 0 ≤ K 0) (hend : K m ≤ K' m) (hK : ∀ i, i < m → E ≤ err i (K i) (K (i+1))) :
    ∃ i, i < m ∧ E ≤ err i (K' i) (K' (i+1)) :=
  Opda.Knots.equal_error_optimal m hm K K' err E hmono h0 hend hK

/-- **equal-error optimality for the true minimax errors**: if every piece of the knot vector `K` has
minimax error at least `E` (degrees `ns i`), every other knot vector on the same interval has a piece
with minimax error at least `E`; so knots whose pieces all have error `E` minimise the worst piece. -/
theorem equal_error_knots_optimal_minimax (m : ℕ) (hm : 0 < m) (ns : ℕ → ℕ) (f : ℝ → ℝ) (K K' : ℕ → ℝ) (E : ENNReal)
    (h0 : K' 0 ≤ K 0) (hend : K m ≤ K' m)
    (hK : ∀ i, i < m → E ≤ minimaxErr (ns i) f (K i) (K (i+1))) :
    ∃ i, i < m ∧ E ≤ minimaxErr (ns i) f (K' i) (K' (i+1)) :=
  Opda.Knots.equal_error_optimal_gen m hm K K' (fun i l r => minimaxErr (ns i) f l r) E
    (fun i l r l' r' hl hr => minimaxErr_mono_interval (ns i) f l r l' r' hl hr) h0 hend hK

/-- inner bisection invariant: the knot returned by the 52-step search lies in `[knot_prev, b]`,
whatever the error function and the target -/
theorem knot_search_stays_in_bracket {α : Type} [LinearOrder α] (mid : α → α → α) (hm : Opda.Knots.MidOK mid)
    (errOf : α → α) (target : α) (k : ℕ) (lo hi curr : α) (h : lo ≤ hi) (hc : lo ≤ curr ∧ curr ≤ hi) :
    lo ≤ Opda.Knots.knotSearch mid errOf target k lo hi curr ∧ Opda.Knots.knotSearch mid errOf target k lo hi curr ≤ hi :=
  Opda.Knots.knotSearch_mem mid hm errOf target k lo hi curr h hc

/-- hence the knot vector built by successive searches is non-decreasing from `a` and stays `≤ b` -/
theorem knots_nondecreasing {α : Type} [LinearOrder α] (mid : α → α → α) (hm : Opda.Knots.MidOK mid)
    (errOf : ℕ → α → α → α) (target : α) (steps : ℕ) (a b : α) (hab : a ≤ b) (K : ℕ → α) (h0 : K 0 = a)
    (hK : ∀ i, K (i + 1) = Opda.Knots.knotSearch mid (errOf i (K i)) target (steps + 1) (K i) b (K i)) :
    ∀ i, a ≤ K i ∧ K i ≤ K (i + 1) ∧ K (i + 1) ≤ b :=
  Opda.Knots.knots_ordered mid hm errOf target steps a b hab K h0 hK

/-- outer bisection invariant: the error bracket only shrinks … -/
theorem outer_bracket_shrinks {α : Type} [LinearOrder α] (lo hi emin emax : α) :
    lo ≤ (Opda.Knots.outerUpdate lo hi emin emax).1 ∧ (Opda.Knots.outerUpdate lo hi emin emax).2 ≤ hi :=
  Opda.Knots.outerUpdate_shrinks lo hi emin emax

/-- … and keeps every level that lies between the current extreme piece errors -/
theorem outer_bracket_keeps_level {α : Type} [LinearOrder α] (lo hi emin emax E : α)
    (h1 : lo ≤ E) (h2 : E ≤ hi) (h3 : emin ≤ E) (h4 : E ≤ emax) :
    (Opda.Knots.outerUpdate lo hi emin emax).1 ≤ E ∧ E ≤ (Opda.Knots.outerUpdate lo hi emin emax).2 :=
  Opda.Knots.outerUpdate_keeps lo hi emin emax E h1 h2 h3 h4

/-! ### non-vacuity -/

example : distinct 3 (Opda.Remez.getR [0, 1/2, 1]) = true := by decide +kernel
example : Lagr.eval 3 (Opda.Remez.getR [0, 1/2, 1]) (Opda.Remez.getR [0, 1/4, 1]) (1/3) = 1/9 := by decide +kernel
example : Lagr.eval 3 (Opda.Remez.getR [0, 1/2, 1]) (Opda.Remez.getR [0, 1/4, 1]) (1/2) = 1/4 := by decide +kernel
example : Opda.Reexp.transformCoeffs [1, 2, 3] (-1) 1 0 4 = [2, -2, 3/4] := by decide +kernel

end Opda.Props.C18

#opda_audit Opda.Props.C18
