import OpdaProofs.Audit
import OpdaProofs.NoisyBisect
import OpdaProofs.NoisyLogic
import OpdaProofs.NoisyReal
import OpdaProofs.NoisyInv
import OpdaProofs.NoisyConv
import OpdaProofs.NoisyAccuracy
import OpdaProofs.BisectRobust
/-!
# C07 — NoisyQuadratic quantile function inverts its cdf  *(proof of the bisection logic; accuracy proved in exact arithmetic for even `c` and, by robust bisection against the Spec, for part of the odd `c`; measured otherwise)*

Property theorems only.  They are about `Opda.Noisy.ppf` / `ppfBisect` / `bisect`, the polymorphic
definitions the driver evaluates at `Float` and that `harness/corr_C07.py` ties to
`NoisyQuadraticDistribution.ppf` on every run; `bisect_is_generic` shows that the model's bisection is
literally an instance of `Bisect.run`, the object of the monotonicity theorem.  The cdf inside the
bisection is `Opda.Noisy.cdf F d` for an **arbitrary** record `F` (any `pow`, `Φ`, `φ`, `cos`, table …),
so "ppf is non-decreasing" needs no monotonicity of the (float) cdf.

**Accuracy clause `|cdf(ppf q) − q| ≤ 1e-5`**: *proved* over `ℝ` (exact arithmetic, `realFns`: real `Φ`, `φ`, `rpow`)
for **even `c = 2k`, `1 ≤ k ≤ 50`**, every `a ≤ b`, `o ≥ 0` other than the point mass, both shapes, every `q ∈ (0,1)`
(`cdf_ppf_even_all_regimes_partial`; series regime: `cdf_ppf_even_series_partial`, from C06's Model = Spec for even `c`,
the Lipschitz constant `k/(b−a)` of the mixture cdf and the Chernoff bound `Φ(−6) ≤ e^{−18}`); for **every `c`** in the
noiseless and normal regimes (`cdf_ppf_noiseless_real`, `cdf_ppf_normal_real`: exact inverses).

**Odd `c`, series regime** (section `odd`, lemmas in `OpdaProofs/BisectRobust.lean`): there the model's cdf is a
piecewise-polynomial approximation, within `ε = 1.02·max_error(selected entry)` of the Spec at every real `y` (C06 ∘ C19) and
not known to be monotone.  `bisect_accuracy_robust` / `bisect_robust_generic`: a bisection that runs on a function `ε`-close to
a monotone `L`-Lipschitz `G` returns `y` with `|G y − q| ≤ ε + L·w + tail`, hence residual `≤ 2ε + L·w + tail` (`w` the final
bracket width).  With `G` = the Spec (`spec_monotone_lipschitz_tails`: monotone for `c ≥ 1`, `(c/2)/(b−a)`-Lipschitz for `c ≥ 2`,
Gaussian tails; `spec_lipschitz_from_noise`: `0.4/o`-Lipschitz for every `c ≥ 1`) and the shipped table (regenerated from
`_approximations.json` on every run; this file imports the generated certificates):
`cdf_ppf_odd_shipped_table_partial` — odd `c ≥ 3`: `|cdf(ppf q) − q| ≤ 2·1.02·max_error(e) + (c/2)(1+12·o/(b−a))/2^30 + Φ(−6)`;
`cdf_ppf_odd_shipped_table_noise_partial` — every odd `c` with a row, `c = 1` included, middle term `0.4(12 + (b−a)/o)/2^30`;
`cdf_ppf_odd_tolerance_partial` — **the property's `1e-5` itself** for `c = 9` (every scale of the regime), `c = 5` with
`o/(b−a) < 1/5`, `c = 3` with `o/(b−a) < 1/50` (kernel check `shipped_entries_within_tolerance` on the table).

**Not theorems**: the accuracy clause at `1e-5` for **`c = 1`, `c = 7`, `c = 5` at scales `≥ 0.2`, `c = 3` at scales `≥ 0.02`**
in the series regime (the proved bound `2·1.02·max_error + …` exceeds `1e-5` there: 1.6e-5 for `c = 7`, up to 1.6e-3 for
`c = 1`; the factor 2 is inherent to a bisection on a cdf known only to be `ε`-close to a monotone function) — measured on
every run; `c > 100`; everything about **IEEE rounding** (the theorems are at `ℝ`; at `Float` the residual is measured every
run with the code's own cdf); that `normal_ppf(0) = −∞`, `normal_ppf(1) = +∞` in the `normal` regime (a fact about
`erfinv`, compared).
-/
namespace Opda.Props.C07
open Opda.Noisy

/-- the model's bisection loop is `Bisect.run` (for every linear order, `f`, midpoint operator) -/
theorem bisect_is_generic {α : Type} [LinearOrder α] (f : α → α) (mid : α → α → α) (q : α) (k : Nat) (br : α × α) :
    bisect f mid q k br = Bisect.run f mid q k br := bisect_eq_run f mid q k br

section field
variable {α : Type} [Field α] [LinearOrder α] [IsStrictOrderedRing α] {F : Fns α}

/-- **T1 `bisect_monotone_any_F`**: the value returned by the 30-step bisection on `[a−6o, b+6o]` is
non-decreasing in `q`, whatever the cdf inside computes. -/
theorem bisect_monotone_any_F (hF : Lawful F) (d : Params α) (hab : d.a ≤ d.b) (ho : 0 ≤ d.o) (q q' : α)
    (hq : q ≤ q') : ppfBisect F d q ≤ ppfBisect F d q' := ppfBisect_mono hF d hab ho q q' hq

/-- **T1 for the whole method** (series regime): `ppf` is non-decreasing on all of `q`, the explicit end
values included, as soon as `−∞`/`+∞` lie outside the bracket. -/
theorem ppf_monotone_series (hF : Lawful F) (d : Params α) (hab : d.a ≤ d.b) (hp : pointMass F d = false)
    (h : regime F d = .nothing) (hneg : F.negInf ≤ d.a - 6 * d.o) (hpos : d.b + 6 * d.o ≤ F.posInf)
    (q q' : α) (hq : q ≤ q') : ppf F d q ≤ ppf F d q' := ppf_mono_series hF d hab hp h hneg hpos q q' hq

/-- **T2 `bisect_bracket`**: `a−6o ≤ lo₃₀ ≤ result ≤ hi₃₀ ≤ b+6o` and `hi₃₀ − lo₃₀ = (b−a+12o)/2^30`
(the code's bracket and step count). -/
theorem bisect_bracket (hF : Lawful F) (d : Params α) (hab : d.a ≤ d.b) (ho : 0 ≤ d.o) (q : α) :
    let br := bisect (cdf F d) (midpoint F) q 30 (d.a - F.n 6 * d.o, d.b + F.n 6 * d.o)
    d.a - 6 * d.o ≤ br.1 ∧ br.1 ≤ ppfBisect F d q ∧ ppfBisect F d q ≤ br.2 ∧ br.2 ≤ d.b + 6 * d.o
      ∧ br.2 - br.1 = (d.b - d.a + 12 * d.o) / 2 ^ 30 := ppfBisect_bracket hF d hab ho q

/-- **T2' `bisect_accuracy`** (conditional): a monotone, `L`-Lipschitz cdf is inverted to within
`L·(b−a+12o)/2^30` plus the distance of `q` from `[cdf(a−6o), cdf(b+6o)]`. -/
theorem bisect_accuracy (hF : Lawful F) (d : Params α) (hab : d.a ≤ d.b) (ho : 0 ≤ d.o) (L q : α)
    (hmono : ∀ x y, d.a - 6 * d.o ≤ x → x ≤ y → y ≤ d.b + 6 * d.o → cdf F d x ≤ cdf F d y)
    (hlip : ∀ x y, d.a - 6 * d.o ≤ x → x ≤ y → y ≤ d.b + 6 * d.o → cdf F d y - cdf F d x ≤ L * (y - x)) :
    |cdf F d (ppfBisect F d q) - q| ≤ L * ((d.b - d.a + 12 * d.o) / 2 ^ 30)
      + max 0 (max (cdf F d (d.a - 6 * d.o) - q) (q - cdf F d (d.b + 6 * d.o))) :=
  ppfBisect_accuracy hF d hab ho L q hmono hlip

/-- **T2'' `bisect_accuracy_robust`** (conditional, for a cdf that is *not* known to be monotone): if the model's cdf is
within `ε` of some `G` on the bracket, and `G` is monotone and `L`-Lipschitz there, then the value returned by the 30-step
bisection **on the model's cdf** satisfies `|cdf(ppf q) − q| ≤ 2ε + L·(b−a+12o)/2^30` plus the distance of `q` from
`[G(a−6o), G(b+6o)]`.  (The loop only compares `cdf mid` with `q`, so every moved end point has `G lo < q + ε` resp.
`q − ε ≤ G hi`.)  With `G = cdf`, `ε = 0` this is `bisect_accuracy`. -/
theorem bisect_accuracy_robust (hF : Lawful F) (d : Params α) (hab : d.a ≤ d.b) (ho : 0 ≤ d.o) (G : α → α) (L ε q : α)
    (hclose : ∀ x, d.a - 6 * d.o ≤ x → x ≤ d.b + 6 * d.o → |cdf F d x - G x| ≤ ε)
    (hmono : ∀ x y, d.a - 6 * d.o ≤ x → x ≤ y → y ≤ d.b + 6 * d.o → G x ≤ G y)
    (hlip : ∀ x y, d.a - 6 * d.o ≤ x → x ≤ y → y ≤ d.b + 6 * d.o → G y - G x ≤ L * (y - x)) :
    |cdf F d (ppfBisect F d q) - q| ≤ 2 * ε + L * ((d.b - d.a + 12 * d.o) / 2 ^ 30)
      + max 0 (max (G (d.a - 6 * d.o) - q) (q - G (d.b + 6 * d.o))) :=
  ppfBisect_accuracy_robust hF d hab ho G L ε q hclose hmono hlip

/-- the same for the generic `Bisect.run` with any number of steps and any bracket (the object `bisect_is_generic` identifies
the model's loop with): `f` arbitrary, `g` monotone and `L`-Lipschitz on `[lo, hi]`, `|f − g| ≤ ε` there; the midpoint `y` of
the final bracket has `|g y − q| ≤ ε + L(hi−lo)/2^k + tail` and `|f y − q| ≤ 2ε + L(hi−lo)/2^k + tail`,
`tail = max 0 (max (g lo − q) (q − g hi))`. -/
theorem bisect_robust_generic (f g : α → α) (L ε q : α) (k : Nat) (lo hi : α) (hlh : lo ≤ hi)
    (hclose : ∀ x, lo ≤ x → x ≤ hi → |f x - g x| ≤ ε)
    (hmono : ∀ x y, lo ≤ x → x ≤ y → y ≤ hi → g x ≤ g y)
    (hlip : ∀ x y, lo ≤ x → x ≤ y → y ≤ hi → g y - g x ≤ L * (y - x)) :
    let br := Bisect.run f (fun lo hi => (lo + hi) / 2) q k (lo, hi)
    |g ((br.1 + br.2) / 2) - q| ≤ ε + L * ((hi - lo) / 2 ^ k) + max 0 (max (g lo - q) (q - g hi))
      ∧ |f ((br.1 + br.2) / 2) - q| ≤ 2 * ε + L * ((hi - lo) / 2 ^ k) + max 0 (max (g lo - q) (q - g hi)) :=
  ⟨run_accuracy_robust_spec f g L ε q k lo hi hlh hclose hmono hlip,
   run_accuracy_robust f g L ε q k lo hi hlh hclose hmono hlip⟩

/-! **T3** the end-point decision table -/

/-- point mass `a = b ∧ o = 0`: `ppf` is constantly `a` -/
theorem ppf_point_mass (hF : Lawful F) (d : Params α) (hab : d.a = d.b) (ho : d.o = 0) (q : α) :
    ppf F d q = d.a := ppf_point d q ((pointMass_iff hF d).mpr ⟨hab, ho⟩)

/-- noise modelled by the series: `ppf 0 = −∞`, `ppf 1 = +∞` -/
theorem ppf_endpoints_series (hF : Lawful F) (d : Params α) (hab : d.a ≤ d.b) (hp : pointMass F d = false)
    (h : regime F d = .nothing) : ppf F d 0 = F.negInf ∧ ppf F d 1 = F.posInf :=
  Opda.Noisy.ppf_endpoints_series hF d hab hp h

/-- inside `(0,1)` the series regime returns the bisection result -/
theorem ppf_series_inside (hF : Lawful F) (d : Params α) (hab : d.a ≤ d.b) (q : α) (hp : pointMass F d = false)
    (h : regime F d = .nothing) :
    ppf F d q = if clip q 0 1 = 0 then F.negInf else if clip q 0 1 = 1 then F.posInf
      else ppfBisect F d (clip q 0 1) := ppf_nothing hF d hab q hp h

/-- the `if o == 0: clip` line after the bisection is unreachable -/
theorem clip_branch_unreachable (hF : Lawful F) (d : Params α) (hab : d.a ≤ d.b)
    (h : regime F d = .nothing) : F.eq d.o (F.n 0) = false := Opda.Noisy.clip_branch_unreachable hF d hab h

/-- noiseless regime (`o < 1e-6 (b−a)`, which contains `o = 0 < b−a`): closed form of the noiseless class -/
theorem ppf_closed_form_noiseless (d : Params α) (q : α) (hp : pointMass F d = false) (h : regime F d = .noiseless) :
    ppf F d q = if d.convex then d.a + (d.b - d.a) * F.pow (clip q (F.n 0) (F.n 1)) (F.n 2 / F.n d.c)
      else d.b - (d.b - d.a) * F.pow (F.n 1 - clip q (F.n 0) (F.n 1)) (F.n 2 / F.n d.c) := ppf_noiseless d q hp h

/-- … hence `ppf 0 = a`, `ppf 1 = b` for any `pow` with `0^k = 0`, `1^k = 1` -/
theorem ppf_endpoints_noiseless (hF : Lawful F) (d : Params α) (hp : pointMass F d = false)
    (h : regime F d = .noiseless) (hp0 : F.pow 0 (F.n 2 / F.n d.c) = 0) (hp1 : F.pow 1 (F.n 2 / F.n d.c) = 1) :
    ppf F d 0 = d.a ∧ ppf F d 1 = d.b := Opda.Noisy.ppf_endpoints_noiseless hF d hp h hp0 hp1

/-- `o = 0 < b − a` is in the noiseless regime -/
theorem zero_noise_is_noiseless (hF : Lawful F) (d : Params α) (hab : d.a < d.b) (ho : d.o = 0) :
    regime F d = .noiseless ∧ pointMass F d = false := regime_zero_noise hF d hab ho

/-- normal regime (`o ≥ 10 (b−a)`): `mean + sd · Φ⁻¹(q)` -/
theorem ppf_closed_form_normal (d : Params α) (q : α) (hp : pointMass F d = false) (h : regime F d = .normal) :
    ppf F d q = meanOf F d + F.sqrt (varOf F d) * F.normalPpf (clip q (F.n 0) (F.n 1)) := ppf_normal d q hp h

end field

/-- **T3 at `ℝ`**: with `Real.rpow` the noiseless end points are `a` and `b` outright -/
theorem ppf_endpoints_noiseless_real (T : List (ℕ × List (Entry ℝ))) (ninf pinf : ℝ) (d : Params ℝ) (hc : 0 < d.c)
    (hp : pointMass (realFns T ninf pinf) d = false) (h : regime (realFns T ninf pinf) d = .noiseless) :
    ppf (realFns T ninf pinf) d 0 = d.a ∧ ppf (realFns T ninf pinf) d 1 = d.b :=
  Opda.Noisy.ppf_endpoints_noiseless_real T ninf pinf d hc hp h

/-- **inverse clause, noiseless regime, exact arithmetic**: over `ℝ` the closed forms are exact inverses,
`cdf (ppf q) = q` for every `q ∈ [0,1]`, both shapes, every `c ≥ 1` (`o < 1e-6 (b−a)`, which contains `o = 0`).
In floating point the residual is rounding (measured every run, ≤ 1e-5 demanded). -/
theorem cdf_ppf_noiseless_real (T : List (ℕ × List (Entry ℝ))) (ninf pinf : ℝ) (d : Params ℝ) (hab : d.a ≤ d.b)
    (ho : 0 ≤ d.o) (hc : 0 < d.c) (hp : pointMass (realFns T ninf pinf) d = false)
    (h : regime (realFns T ninf pinf) d = .noiseless) (q : ℝ) (hq0 : 0 ≤ q) (hq1 : q ≤ 1) :
    cdf (realFns T ninf pinf) d (ppf (realFns T ninf pinf) d q) = q :=
  Opda.Noisy.cdf_ppf_noiseless T ninf pinf d hab ho hc hp h q hq0 hq1

/-! ### the accuracy clause for even `c`, exact real arithmetic -/

section even
variable (T : List (ℕ × List (Entry ℝ))) (ninf pinf : ℝ)

/-- **Chernoff bound for the standard normal**: `Φ(−t) ≤ exp(−t²/2)` for `t ≥ 0`, `Φ` the distribution function of
`gaussianReal 0 1`. -/
theorem gaussian_tail (t : ℝ) (ht : 0 ≤ t) : Phi (-t) ≤ Real.exp (-(t ^ 2) / 2) := Phi_neg_le_exp t ht

/-- … hence `Φ(−6) ≤ e^{−18} ≤ 2^{−18} < 3.82e-6` (true value `9.9e-10`): the mass the bracket `[a−6o, b+6o]` may cut
off on either side. -/
theorem gaussian_tail_six : Phi (-6) ≤ 1 / 262144 := Phi_neg_six_le

/-- **(i) the even-`c` model cdf is monotone** (series regime, `ℝ`, `c = 2k ≥ 2`, both shapes, on all of `ℝ`). -/
theorem cdf_even_monotone (d : Params ℝ) (k : ℕ) (hk : 1 ≤ k) (hc : d.c = 2 * k) (hab : d.a ≤ d.b)
    (hp : pointMass (realFns T ninf pinf) d = false) (h : regime (realFns T ninf pinf) d = .nothing)
    (x y : ℝ) (hxy : x ≤ y) : cdf (realFns T ninf pinf) d x ≤ cdf (realFns T ninf pinf) d y :=
  cdf_even_mono T ninf pinf d k hk hc hab hp h x y hxy

/-- **(ii) Lipschitz constant `k/(b−a) = c/(2(b−a))`** of the even-`c` model cdf, for every noise level of the series
regime: `cdf y − cdf x ≤ k/(b−a)·(y − x)` for `x ≤ y` (the noise-free density is `≤ k/(b−a)`, convolution keeps it). -/
theorem cdf_even_lipschitz (d : Params ℝ) (k : ℕ) (hk : 1 ≤ k) (hc : d.c = 2 * k) (hab : d.a ≤ d.b)
    (hp : pointMass (realFns T ninf pinf) d = false) (h : regime (realFns T ninf pinf) d = .nothing)
    (x y : ℝ) (hxy : x ≤ y) :
    cdf (realFns T ninf pinf) d y - cdf (realFns T ninf pinf) d x ≤ (k:ℝ) / (d.b - d.a) * (y - x) :=
  Opda.Noisy.cdf_even_lipschitz T ninf pinf d k hk hc hab hp h x y hxy

/-- the same two facts for the Spec itself, the mixture `H(t) = ∫₀¹ Φ((t−x)/s) d(x^k)`: non-decreasing and
`k`-Lipschitz in `t`, for every `s > 0`. -/
theorem mixture_monotone_lipschitz (k : ℕ) (s : ℝ) (hk : 1 ≤ k) (hs : 0 < s) (t t' : ℝ) (h : t ≤ t') :
    mixture k s t ≤ mixture k s t' ∧ mixture k s t' - mixture k s t ≤ k * (t' - t) :=
  ⟨mixture_mono k s hk hs t t' h, mixture_lipschitz k s hk hs t t' h⟩

/-- **(iv) tails**: the even-`c` model cdf at the ends of the bisection bracket is within `Φ(−6)` of `0` resp. `1`. -/
theorem cdf_even_tails (d : Params ℝ) (k : ℕ) (hk : 1 ≤ k) (hc : d.c = 2 * k) (hab : d.a ≤ d.b)
    (hp : pointMass (realFns T ninf pinf) d = false) (h : regime (realFns T ninf pinf) d = .nothing) :
    cdf (realFns T ninf pinf) d (d.a - 6 * d.o) ≤ Phi (-6)
      ∧ 1 - Phi (-6) ≤ cdf (realFns T ninf pinf) d (d.b + 6 * d.o) :=
  ⟨cdf_even_tail_lo T ninf pinf d k hk hc hab hp h, cdf_even_tail_hi T ninf pinf d k hk hc hab hp h⟩

/-- **accuracy with an explicit bound, every even `c ≥ 2`** (series regime, exact real arithmetic, both shapes,
`q ∈ (0,1)`): `|cdf(ppf q) − q| ≤ k(1 + 12·o/(b−a))/2^30 + Φ(−6)` — Lipschitz constant × final bracket width, plus
the Gaussian mass beyond 6 standard deviations.  `_partial`: even `c` only, `ℝ` only (odd `c`: section `odd` below; IEEE rounding: compared). -/
theorem cdf_ppf_even_explicit_partial (d : Params ℝ) (k : ℕ) (hk : 1 ≤ k) (hc : d.c = 2 * k) (hab : d.a ≤ d.b)
    (hp : pointMass (realFns T ninf pinf) d = false) (h : regime (realFns T ninf pinf) d = .nothing)
    (q : ℝ) (hq0 : 0 < q) (hq1 : q < 1) :
    |cdf (realFns T ninf pinf) d (ppf (realFns T ninf pinf) d q) - q|
      ≤ (k:ℝ) * (1 + 12 * (d.o / (d.b - d.a))) / 2 ^ 30 + Phi (-6) :=
  cdf_ppf_even_explicit T ninf pinf d k hk hc hab hp h q hq0 hq1

/-- **the accuracy clause, unconditional, for even `c = 2k`, `1 ≤ k ≤ 50`** (so in particular `c ∈ {2,4,6,8,10}`):
in the series regime (`pointMass = false`, `regime = .nothing`, i.e. `a < b`, `1e-6 ≤ o/(b−a) < 10` by
`regime_nothing_iff`), at the real instance `realFns T ninf pinf` (any table, any stand-ins for `±∞`), both shapes,
every `q ∈ (0,1)`: `|cdf(ppf q) − q| ≤ 1e-5` in exact real arithmetic (the bound actually obtained is
`(121k + 4096)/2^30`, `≤ 4.4e-6` for `c ≤ 10`).  `a < b` and `o > 0` follow from the regime (`nothing_pos`), so only
`a ≤ b` is assumed.  `_partial`: missing for the full clause are **odd `c`** in this regime (the cdf is then a
piecewise-polynomial approximation; partly proved in section `odd` below, otherwise compared), `c > 100`, and **IEEE rounding** (the statement is about the model
term at `ℝ`, not at `Float`; the `Float` residual is measured on every run). -/
theorem cdf_ppf_even_series_partial (d : Params ℝ) (k : ℕ) (hk : 1 ≤ k) (hk50 : k ≤ 50) (hc : d.c = 2 * k)
    (hab : d.a ≤ d.b) (hp : pointMass (realFns T ninf pinf) d = false)
    (h : regime (realFns T ninf pinf) d = .nothing) (q : ℝ) (hq0 : 0 < q) (hq1 : q < 1) :
    |cdf (realFns T ninf pinf) d (ppf (realFns T ninf pinf) d q) - q| ≤ 1e-5 :=
  cdf_ppf_even T ninf pinf d k hk hk50 hc hab hp h q hq0 hq1

/-- **inverse clause, normal regime, exact arithmetic, every `c`**: for `o ≥ 10 (b−a)` (not the point mass) the closed
forms `ppf q = mean + sd·Φ⁻¹(q)`, `cdf y = Φ((y−mean)/sd)` are exact inverses on `(0,1)` over `ℝ`
(`Φ⁻¹` the generalised inverse of the real `Φ`).  At `Float` the residual is that of `erf`/`erfinv` (compared). -/
theorem cdf_ppf_normal_real (d : Params ℝ) (hab : d.a ≤ d.b)
    (hp : pointMass (realFns T ninf pinf) d = false) (h : regime (realFns T ninf pinf) d = .normal)
    (q : ℝ) (hq0 : 0 < q) (hq1 : q < 1) :
    cdf (realFns T ninf pinf) d (ppf (realFns T ninf pinf) d q) = q :=
  cdf_ppf_normal T ninf pinf d hab hp h q hq0 hq1

/-- **the accuracy clause for even `c ≤ 100` in all three regimes, exact real arithmetic**: every `a ≤ b`, `o ≥ 0`
except the point mass `a = b ∧ o = 0` (where `cdf` jumps and the clause is meaningless), both shapes, `q ∈ (0,1)`.
`_partial`: odd `c` (series regime: section `odd` below, partial) and IEEE rounding are missing, as above. -/
theorem cdf_ppf_even_all_regimes_partial (d : Params ℝ) (k : ℕ) (hk : 1 ≤ k) (hk50 : k ≤ 50) (hc : d.c = 2 * k)
    (hab : d.a ≤ d.b) (ho : 0 ≤ d.o) (hp : pointMass (realFns T ninf pinf) d = false)
    (q : ℝ) (hq0 : 0 < q) (hq1 : q < 1) :
    |cdf (realFns T ninf pinf) d (ppf (realFns T ninf pinf) d q) - q| ≤ 1e-5 :=
  cdf_ppf_even_all T ninf pinf d k hk hk50 hc hab ho hp q hq0 hq1

end even

/-! ### the accuracy clause for odd `c`, exact real arithmetic (robust bisection against the Spec)

For odd `c` the model's series-regime cdf is a piecewise-polynomial approximation and is not known to be monotone; it is
within `ε = 1.02·max_error(selected entry)` of the Spec at every real `y` (C06 ∘ C19, `Props/C06.lean`
`cdf_odd_shipped_table_partial`).  The Spec — `H((y−a)/(b−a))` resp. `1 − H((b−y)/(b−a))`,
`H(t) = ∫₀¹ Φ((t−x)/s) d(x^{c/2})`, `s = o/(b−a)`, the distribution function of `Z + E` (`C06.spec_is_law_of_sum`) — is
monotone, `(c/2)/(b−a)`-Lipschitz for `c ≥ 2`, with Gaussian tails; `bisect_accuracy_robust` then bounds the residual of the
bisection that ran on the *model's* cdf. -/

section odd
open Opda.Gen Opda.Table

/-- **the Spec of both shapes is monotone (every `c ≥ 1`), `(c/2)/(b−a)`-Lipschitz (every `c ≥ 2`, so every real exponent
`c/2 ≥ 1`, half-integers included) and has Gaussian tails at the ends of the bisection bracket**, for every `a < b`, `o > 0`.
(For `c = 1` the noise-free density `½x^{−½}` is unbounded and no noise-independent Lipschitz constant exists.) -/
theorem spec_monotone_lipschitz_tails (d : Params ℝ) (hab : d.a < d.b) (ho : 0 < d.o) (hc : 1 ≤ d.c) :
    (∀ x y : ℝ, x ≤ y →
      (if d.convex then mixture ((d.c : ℝ) / 2) (d.o / (d.b - d.a)) ((x - d.a) / (d.b - d.a))
        else 1 - mixture ((d.c : ℝ) / 2) (d.o / (d.b - d.a)) ((d.b - x) / (d.b - d.a)))
      ≤ (if d.convex then mixture ((d.c : ℝ) / 2) (d.o / (d.b - d.a)) ((y - d.a) / (d.b - d.a))
        else 1 - mixture ((d.c : ℝ) / 2) (d.o / (d.b - d.a)) ((d.b - y) / (d.b - d.a))))
    ∧ (2 ≤ d.c → ∀ x y : ℝ, x ≤ y →
      (if d.convex then mixture ((d.c : ℝ) / 2) (d.o / (d.b - d.a)) ((y - d.a) / (d.b - d.a))
        else 1 - mixture ((d.c : ℝ) / 2) (d.o / (d.b - d.a)) ((d.b - y) / (d.b - d.a)))
      - (if d.convex then mixture ((d.c : ℝ) / 2) (d.o / (d.b - d.a)) ((x - d.a) / (d.b - d.a))
        else 1 - mixture ((d.c : ℝ) / 2) (d.o / (d.b - d.a)) ((d.b - x) / (d.b - d.a)))
      ≤ ((d.c : ℝ) / 2) / (d.b - d.a) * (y - x))
    ∧ (if d.convex then mixture ((d.c : ℝ) / 2) (d.o / (d.b - d.a)) ((d.a - 6 * d.o - d.a) / (d.b - d.a))
        else 1 - mixture ((d.c : ℝ) / 2) (d.o / (d.b - d.a)) ((d.b - (d.a - 6 * d.o)) / (d.b - d.a))) ≤ Phi (-6)
    ∧ 1 - Phi (-6)
      ≤ (if d.convex then mixture ((d.c : ℝ) / 2) (d.o / (d.b - d.a)) ((d.b + 6 * d.o - d.a) / (d.b - d.a))
        else 1 - mixture ((d.c : ℝ) / 2) (d.o / (d.b - d.a)) ((d.b - (d.b + 6 * d.o)) / (d.b - d.a))) :=
  ⟨fun x y hxy => cdfSpec_mono d (sub_pos.mpr hab) ho hc x y hxy,
   fun hc2 x y hxy => cdfSpec_lipschitz d (sub_pos.mpr hab) ho hc2 x y hxy,
   cdfSpec_tail_lo d (sub_pos.mpr hab) ho hc, cdfSpec_tail_hi d (sub_pos.mpr hab) ho hc⟩

/-- the sharper tail constant used below: `Φ(−6) ≤ e^{−18} ≤ 2e-8` (`gaussian_tail_six` gives `2^{−18}`) -/
theorem gaussian_tail_six_sharp : Phi (-6) ≤ 1 / 50000000 := Phi_neg_six_le_sharp

/-- **any real instance whose series-regime cdf is within `ε` of the Spec on the bracket** (any table `T`, every `c ≥ 2`, both
shapes, `q ∈ (0,1)`): `|cdf(ppf q) − q| ≤ 2ε + (c/2)(1 + 12·o/(b−a))/2^30 + Φ(−6)`.  `_partial`: exact real arithmetic only;
`c = 1` excluded (no Lipschitz constant independent of the noise). -/
theorem cdf_ppf_within_eps_of_spec_partial (T : List (ℕ × List (Entry ℝ))) (ninf pinf : ℝ) (d : Params ℝ) (hc : 2 ≤ d.c)
    (hab : d.a ≤ d.b) (hp : pointMass (realFns T ninf pinf) d = false) (h : regime (realFns T ninf pinf) d = .nothing)
    (ε : ℝ)
    (hclose : ∀ y, d.a - 6 * d.o ≤ y → y ≤ d.b + 6 * d.o →
      |cdf (realFns T ninf pinf) d y
        - (if d.convex then mixture ((d.c : ℝ) / 2) (d.o / (d.b - d.a)) ((y - d.a) / (d.b - d.a))
           else 1 - mixture ((d.c : ℝ) / 2) (d.o / (d.b - d.a)) ((d.b - y) / (d.b - d.a)))| ≤ ε)
    (q : ℝ) (hq0 : 0 < q) (hq1 : q < 1) :
    |cdf (realFns T ninf pinf) d (ppf (realFns T ninf pinf) d q) - q|
      ≤ 2 * ε + ((d.c : ℝ) / 2) * (1 + 12 * (d.o / (d.b - d.a))) / 2 ^ 30 + Phi (-6) :=
  cdf_ppf_within_eps T ninf pinf d hc hab hp h ε hclose q hq0 hq1

variable (ninf pinf : ℝ)

/-- **odd `c ≥ 3`, series regime, shipped table, both shapes — an accuracy theorem for the bisection on the non-monotone
model cdf.**  For every `a ≤ b`, `o` in the series regime (`1e-6(b−a) ≤ o < 10(b−a)`), every odd `c = 2k+1 ≥ 3` that has a
row in the shipped table (`c ∈ {3,5,7,9}`): the scale `o/(b−a)` selects an entry `e` of that row and for every `q ∈ (0,1)`, in
exact real arithmetic (`realFns tableR`: real `Φ`, `φ`, the shipped coefficients),
`|cdf(ppf q) − q| ≤ 2·1.02·max_error(e) + (c/2)(1 + 12·o/(b−a))/2^30 + Φ(−6)`
(twice the C06 ∘ C19 distance of the model's cdf from the Spec, the Spec's Lipschitz constant × final bracket width
`≤ c·5.7e-8`, the Gaussian mass beyond `6o`, `≤ 2e-8`).
`_partial` — what is missing for the property's `1e-5`: the bound is `≤ 1e-5` only where `2.04·max_error(e) ≲ 9.4e-6`, i.e.
for the entries with `max_error ≲ 4.6e-6`.  Of the shipped table (exponent `c/2`, entry in file order, `min_scale`,
`max_error`) these are `(1.5, #3, 0, 2.4e-7)`, `(2.5, #1, 0, 3.9e-6)`, `(4.5, #0, 0, 4.6e-6)` — made a theorem in
`cdf_ppf_odd_tolerance_partial`.  Not reached: `(1.5, #0–#2)` (`max_error` 5.9e-4, 5.5e-5, 1.1e-5: scales `≥ 0.02`),
`(2.5, #0)` (7.8e-5: scales `≥ 0.2`), `(3.5, #0)` (`c = 7`: 7.8e-6, bound 1.6e-5 at every scale); the factor 2 is tight for
a bisection on a function known only to be `ε`-close to a monotone one.  **`c = 1`** is not covered here (its Spec has no
noise-independent Lipschitz constant): see `cdf_ppf_odd_shipped_table_noise_partial`; its entries record 8.2e-6 … 7.9e-4, so
the `1e-5` is out of reach of this argument at every scale.  IEEE rounding is not covered (statement at `ℝ`; the `Float`
residual is measured every run). -/
theorem cdf_ppf_odd_shipped_table_partial (d : Params ℝ) (k : ℕ) (hk : 1 ≤ k) (hc : d.c = 2 * k + 1) (hab : d.a ≤ d.b)
    (hp : pointMass (realFns tableR ninf pinf) d = false) (h : regime (realFns tableR ninf pinf) d = .nothing)
    (hkey : ∃ row ∈ tableQ, row.1 = d.c) :
    ∃ row e, rowOf tableQ d.c = some row ∧ selectR row.2 (d.o / (d.b - d.a)) = some e ∧
      ∀ q : ℝ, 0 < q → q < 1 →
        |cdf (realFns tableR ninf pinf) d (ppf (realFns tableR ninf pinf) d q) - q|
          ≤ 2 * (1.02 * (e.maxError : ℝ)) + ((d.c : ℝ) / 2) * (1 + 12 * (d.o / (d.b - d.a))) / 2 ^ 30 + Phi (-6) :=
  cdf_ppf_odd_shipped ninf pinf d k hk hc hab hp h hkey

/-- the Spec is `0.4/o`-Lipschitz in `y` for **every** `c ≥ 1`, both shapes (`Φ' = φ ≤ 1/√(2π) < 0.4`; the noise alone
smooths the law, whatever the noise-free density does) -/
theorem spec_lipschitz_from_noise (d : Params ℝ) (hab : d.a < d.b) (ho : 0 < d.o) (hc : 1 ≤ d.c) (x y : ℝ) (hxy : x ≤ y) :
    (if d.convex then mixture ((d.c : ℝ) / 2) (d.o / (d.b - d.a)) ((y - d.a) / (d.b - d.a))
      else 1 - mixture ((d.c : ℝ) / 2) (d.o / (d.b - d.a)) ((d.b - y) / (d.b - d.a)))
    - (if d.convex then mixture ((d.c : ℝ) / 2) (d.o / (d.b - d.a)) ((x - d.a) / (d.b - d.a))
      else 1 - mixture ((d.c : ℝ) / 2) (d.o / (d.b - d.a)) ((d.b - x) / (d.b - d.a)))
    ≤ 2 / 5 / d.o * (y - x) :=
  cdfSpec_lipschitz_noise d (sub_pos.mpr hab) ho hc x y hxy

/-- **every odd `c` with a row in the shipped table, `c = 1` included** (series regime, both shapes, `q ∈ (0,1)`, exact real
arithmetic), with the Lipschitz constant `0.4/o` of the noise instead of `(c/2)/(b−a)`:
`|cdf(ppf q) − q| ≤ 2·1.02·max_error(e) + 0.4·(12 + (b−a)/o)/2^30 + Φ(−6)`.
`_partial`: for `c = 1` this is the only bound proved; its middle term is `≤ 3.8e-4` at the smallest scale of the regime
(`o/(b−a) = 1e-6`) and `≤ 1.7e-8` for `o/(b−a) ≥ 0.03`, and `2·1.02·max_error ≥ 1.68e-5` for every entry of the row of `c = 1`,
so the property's `1e-5` is **not** obtained for `c = 1` at any scale (measured only).  IEEE rounding not covered. -/
theorem cdf_ppf_odd_shipped_table_noise_partial (d : Params ℝ) (k : ℕ) (hc : d.c = 2 * k + 1) (hab : d.a ≤ d.b)
    (hp : pointMass (realFns tableR ninf pinf) d = false) (h : regime (realFns tableR ninf pinf) d = .nothing)
    (hkey : ∃ row ∈ tableQ, row.1 = d.c) :
    ∃ row e, rowOf tableQ d.c = some row ∧ selectR row.2 (d.o / (d.b - d.a)) = some e ∧
      ∀ q : ℝ, 0 < q → q < 1 →
        |cdf (realFns tableR ninf pinf) d (ppf (realFns tableR ninf pinf) d q) - q|
          ≤ 2 * (1.02 * (e.maxError : ℝ)) + 2 / 5 * (12 + (d.b - d.a) / d.o) / 2 ^ 30 + Phi (-6) :=
  cdf_ppf_odd_shipped_noise ninf pinf d k hc hab hp h hkey

/-- kernel check on the table regenerated from `_approximations.json`: every entry of the row of key 9 that a scale `< 10`
can select records `1.02·max_error ≤ 4.67e-6`; of key 5 at scales `< 1/5`: `≤ 4.02e-6`; of key 3 at scales `< 1/50`:
`≤ 2.5e-7` (`tolOK c σmax bound`: every entry of the row has `σmax ≤ min_scale` or `1.02·max_error ≤ bound`). -/
theorem shipped_entries_within_tolerance :
    (tolOK 9 10 (467 / 100000000) && tolOK 5 (1 / 5) (402 / 100000000) && tolOK 3 (1 / 50) (25 / 100000000)) = true :=
  shipped_tolerance_check

/-- **the property's own `|cdf(ppf q) − q| ≤ 1e-5` for odd `c`, where the proved bound reaches it** (series regime, shipped
table, exact real arithmetic, both shapes, every `a ≤ b`, every `q ∈ (0,1)`):
* `c = 9` at **every** scale of the series regime (`1e-6 ≤ o/(b−a) < 10`);
* `c = 5` for `o/(b−a) < 1/5`;
* `c = 3` for `o/(b−a) < 1/50`.
`_partial`: missing are `c = 1`, `c = 7` (bound 1.6e-5), `c = 5` at scales `≥ 0.2`, `c = 3` at scales `≥ 0.02` — there the
clause stays a measured fact (`harness/corr_C07.py`) — and IEEE rounding. -/
theorem cdf_ppf_odd_tolerance_partial (d : Params ℝ) (hab : d.a ≤ d.b)
    (hp : pointMass (realFns tableR ninf pinf) d = false) (h : regime (realFns tableR ninf pinf) d = .nothing)
    (hcs : d.c = 9 ∨ (d.c = 5 ∧ d.o / (d.b - d.a) < 1 / 5) ∨ (d.c = 3 ∧ d.o / (d.b - d.a) < 1 / 50))
    (q : ℝ) (hq0 : 0 < q) (hq1 : q < 1) :
    |cdf (realFns tableR ninf pinf) d (ppf (realFns tableR ninf pinf) d q) - q| ≤ 1e-5 :=
  cdf_ppf_odd_tolerance ninf pinf d hab hp h hcs q hq0 hq1

end odd

/-! ### non-vacuity -/

/-- the hypotheses of the monotonicity / end-point theorems are satisfiable: series regime at `ℝ`, with
`−∞ := −1`, `+∞ := 2` outside the bracket `[−0.6, 1.6]` -/
example : Lawful (realFns [] (-1) 2)
    ∧ pointMass (realFns [] (-1) 2) { a := 0, b := 1, c := 3, o := 1/10, convex := true } = false
    ∧ regime (realFns [] (-1) 2) { a := 0, b := 1, c := 3, o := 1/10, convex := true } = .nothing
    ∧ (realFns [] (-1) 2).negInf ≤ (0:ℝ) - 6 * (1/10) ∧ (1:ℝ) + 6 * (1/10) ≤ (realFns [] (-1) 2).posInf := by
  refine ⟨realFns_lawful _ _ _, ?_, ?_, ?_, ?_⟩
  · rw [Bool.eq_false_iff, Ne, pointMass_iff (realFns_lawful _ _ _)]; norm_num
  · rw [regime_nothing_iff (realFns_lawful _ _ _)]; norm_num
  · show (-1:ℝ) ≤ _; norm_num
  · show _ ≤ (2:ℝ); norm_num

/-- `bisect_accuracy`'s hypotheses are satisfiable (a constant cdf is monotone and 0-Lipschitz) -/
example (c : ℝ) : (∀ x y : ℝ, (0:ℝ) ≤ x → x ≤ y → y ≤ 1 → (fun _ : ℝ => c) x ≤ (fun _ : ℝ => c) y)
    ∧ (∀ x y : ℝ, (0:ℝ) ≤ x → x ≤ y → y ≤ 1 → (fun _ : ℝ => c) y - (fun _ : ℝ => c) x ≤ 0 * (y - x)) := by
  constructor <;> intros <;> simp

/-- `bisect_accuracy_robust`'s hypotheses are satisfiable with a non-monotone `f`: `g = id` on `[0,1]` (monotone,
1-Lipschitz), `f x = x + ε` left of `1/2` and `x − ε` from there on (drops by `2ε` at `1/2`) -/
example (ε : ℝ) (hε : 0 ≤ ε) :
    (∀ x : ℝ, (0:ℝ) ≤ x → x ≤ 1 → |(fun x : ℝ => if x < 1/2 then x + ε else x - ε) x - id x| ≤ ε)
    ∧ (∀ x y : ℝ, (0:ℝ) ≤ x → x ≤ y → y ≤ 1 → (id x : ℝ) ≤ id y)
    ∧ (∀ x y : ℝ, (0:ℝ) ≤ x → x ≤ y → y ≤ 1 → (id y : ℝ) - id x ≤ 1 * (y - x)) := by
  refine ⟨fun x _ _ => ?_, fun x y _ h _ => h, fun x y _ _ _ => by simp⟩
  show |(if x < 1/2 then x + ε else x - ε) - x| ≤ ε
  split_ifs
  · rw [add_sub_cancel_left, abs_of_nonneg hε]
  · rw [sub_sub_cancel_left, abs_neg, abs_of_nonneg hε]

/-- the hypotheses of the even-`c` accuracy theorems are satisfiable: `a=0, b=1, c=4 (k=2), o=1/10`, convex, lies in
the series regime; the theorem then applies at, e.g., `q = 1/2` -/
example : pointMass (realFns [] 0 0) { a := 0, b := 1, c := 4, o := 1/10, convex := true } = false
    ∧ regime (realFns [] 0 0) { a := 0, b := 1, c := 4, o := 1/10, convex := true } = .nothing
    ∧ (1 ≤ 2 ∧ 2 ≤ 50 ∧ ({ a := 0, b := 1, c := 4, o := 1/10, convex := true } : Params ℝ).c = 2 * 2)
    ∧ |cdf (realFns [] 0 0) { a := 0, b := 1, c := 4, o := 1/10, convex := true }
          (ppf (realFns [] 0 0) { a := 0, b := 1, c := 4, o := 1/10, convex := true } (1/2)) - 1/2| ≤ 1e-5 := by
  have hp : pointMass (realFns [] 0 0) { a := 0, b := 1, c := 4, o := 1/10, convex := true } = false := by
    rw [Bool.eq_false_iff, Ne, pointMass_iff (realFns_lawful [] 0 0)]; norm_num
  have hr : regime (realFns [] 0 0) { a := 0, b := 1, c := 4, o := 1/10, convex := true } = .nothing := by
    rw [regime_nothing_iff (realFns_lawful [] 0 0)]; norm_num
  exact ⟨hp, hr, ⟨by norm_num, by norm_num, rfl⟩,
    cdf_ppf_even_series_partial [] 0 0 _ 2 (by norm_num) (by norm_num) rfl (by norm_num) hp hr (1/2)
      (by norm_num) (by norm_num)⟩

/-- … and a concave setting in the normal regime: `a=0, b=1, c=3, o=20` -/
example : pointMass (realFns [] 0 0) { a := 0, b := 1, c := 3, o := 20, convex := false } = false
    ∧ regime (realFns [] 0 0) { a := 0, b := 1, c := 3, o := 20, convex := false } = .normal := by
  constructor
  · rw [Bool.eq_false_iff, Ne, pointMass_iff (realFns_lawful [] 0 0)]; norm_num
  · rw [regime_normal_iff (realFns_lawful [] 0 0)]; norm_num

/-- the hypotheses of the odd-`c` theorems are satisfiable: `a=0, b=1, c=9, o=1/10` (either shape) is in the series regime
of the instance that reads the shipped table, the table has a row of key 9, and `cdf_ppf_odd_tolerance_partial` then applies
at, e.g., `q = 1/2`; likewise `c = 5, o = 1/10 < 1/5` and `c = 3, o = 1/100 < 1/50` -/
example (cv : Bool) :
    pointMass (realFns tableR 0 0) { a := 0, b := 1, c := 9, o := 1/10, convex := cv } = false
    ∧ regime (realFns tableR 0 0) { a := 0, b := 1, c := 9, o := 1/10, convex := cv } = .nothing
    ∧ (∃ row ∈ Opda.Gen.tableQ, row.1 = 9)
    ∧ |cdf (realFns tableR 0 0) { a := 0, b := 1, c := 9, o := 1/10, convex := cv }
          (ppf (realFns tableR 0 0) { a := 0, b := 1, c := 9, o := 1/10, convex := cv } (1/2)) - 1/2| ≤ 1e-5
    ∧ |cdf (realFns tableR 0 0) { a := 0, b := 1, c := 5, o := 1/10, convex := cv }
          (ppf (realFns tableR 0 0) { a := 0, b := 1, c := 5, o := 1/10, convex := cv } (1/2)) - 1/2| ≤ 1e-5
    ∧ |cdf (realFns tableR 0 0) { a := 0, b := 1, c := 3, o := 1/100, convex := cv }
          (ppf (realFns tableR 0 0) { a := 0, b := 1, c := 3, o := 1/100, convex := cv } (1/2)) - 1/2| ≤ 1e-5 := by
  have hp : ∀ (c : ℕ) (o : ℝ), 0 < o →
      pointMass (realFns tableR 0 0) { a := 0, b := 1, c := c, o := o, convex := cv } = false := by
    intro c o ho
    rw [Bool.eq_false_iff, Ne, pointMass_iff (realFns_lawful tableR 0 0)]; norm_num
  have hr9 : regime (realFns tableR 0 0) { a := 0, b := 1, c := 9, o := 1/10, convex := cv } = .nothing := by
    rw [regime_nothing_iff (realFns_lawful tableR 0 0)]; norm_num
  have hr5 : regime (realFns tableR 0 0) { a := 0, b := 1, c := 5, o := 1/10, convex := cv } = .nothing := by
    rw [regime_nothing_iff (realFns_lawful tableR 0 0)]; norm_num
  have hr3 : regime (realFns tableR 0 0) { a := 0, b := 1, c := 3, o := 1/100, convex := cv } = .nothing := by
    rw [regime_nothing_iff (realFns_lawful tableR 0 0)]; norm_num
  refine ⟨hp 9 _ (by norm_num), hr9, shipped_key_present 9 (by simp), ?_, ?_, ?_⟩
  · exact cdf_ppf_odd_tolerance_partial 0 0 _ (by norm_num) (hp 9 _ (by norm_num)) hr9 (Or.inl rfl) (1/2)
      (by norm_num) (by norm_num)
  · exact cdf_ppf_odd_tolerance_partial 0 0 _ (by norm_num) (hp 5 _ (by norm_num)) hr5
      (Or.inr (Or.inl ⟨rfl, by norm_num⟩)) (1/2) (by norm_num) (by norm_num)
  · exact cdf_ppf_odd_tolerance_partial 0 0 _ (by norm_num) (hp 3 _ (by norm_num)) hr3
      (Or.inr (Or.inr ⟨rfl, by norm_num⟩)) (1/2) (by norm_num) (by norm_num)

end Opda.Props.C07

#opda_audit Opda.Props.C07
