import OpdaProofs.Audit
import OpdaProofs.NoisyBisect
import OpdaProofs.NoisyLogic
import OpdaProofs.NoisyReal
import OpdaProofs.NoisyInv
import OpdaProofs.NoisyConv
import OpdaProofs.NoisyAccuracy
/-!
# C07 — NoisyQuadratic quantile function inverts its cdf  *(proof of the bisection logic; accuracy proved for even `c` in exact arithmetic, conditional otherwise)*

Property theorems only.  They are about `Opda.Noisy.ppf` / `ppfBisect` / `bisect`, the polymorphic
definitions the driver evaluates at `Float` and that `harness/corr_C07.py` ties to
`NoisyQuadraticDistribution.ppf` on every run; `bisect_is_generic` shows that the model's bisection is
literally an instance of `Bisect.run`, the object of the monotonicity theorem.  The cdf inside the
bisection is `Opda.Noisy.cdf F d` for an **arbitrary** record `F` (any `pow`, `Φ`, `φ`, `cos`, table …),
so "ppf is non-decreasing" needs no monotonicity of the (float) cdf.

**Accuracy clause `|cdf(ppf q) − q| ≤ 1e-5`**: *proved* over `ℝ` (exact arithmetic, `realFns`: real `Φ`, `φ`, `rpow`)
for **even `c = 2k`, `1 ≤ k ≤ 50`**, every `a ≤ b`, `o ≥ 0` other than the point mass, both shapes, every `q ∈ (0,1)`
(`cdf_ppf_even_all_regimes_partial`; series regime: `cdf_ppf_even_series_partial`, from C06's Model = Spec for even `c`,
the Lipschitz constant `k/(b−a)` of the mixture cdf and the Chernoff bound `Φ(−6) ≤ e^{−18}`); for **every `c`** in the
noiseless and normal regimes (`cdf_ppf_noiseless_real`, `cdf_ppf_normal_real`: exact inverses).

**Not theorems**: the accuracy clause for **odd `c` in the series regime** (there the cdf is a piecewise-polynomial
approximation whose monotonicity/Lipschitz constant depend on C06's numerics; `bisect_accuracy` stays conditional) and
for `c > 100`; everything about **IEEE rounding** (the theorems are at `ℝ`; at `Float` the residual is measured every run
with the code's own cdf); that `normal_ppf(0) = −∞`, `normal_ppf(1) = +∞` in the `normal` regime (a fact about
`erfinv`, compared).
-/
namespace Opda.Props.C07
open Opda.Noisy

/-- the model's bisection loop is `Bisect.run` (for every linear order, `f`, midpoint operator) -/
theorem bisect_is_generic {α : Type} [LinearOrder α] (f : α → α) (mid : α → α → α) (q : α) (k : Nat) (br : α × α) :
    bisect f mid q k br = Bisect.run f mid q k br := bisect_eq_run f mid q k br

section field
variable {α : Type} [Field α] [LinearOrder α] [IsStrictOrderedRing α] {F : Fns α}

/-- **T1 `bisect_monotone_any_F`**: the value returned by the 30-step bisection on `[a−6o, b+6o]` is
non-decreasing in `q`, whatever the cdf inside computes. -/
theorem bisect_monotone_any_F (hF : Lawful F) (d : Params α) (hab : d.a ≤ d.b) (ho : 0 ≤ d.o) (q q' : α)
    (hq : q ≤ q') : ppfBisect F d q ≤ ppfBisect F d q' := ppfBisect_mono hF d hab ho q q' hq

/-- **T1 for the whole method** (series regime): `ppf` is non-decreasing on all of `q`, the explicit end
values included, as soon as `−∞`/`+∞` lie outside the bracket. -/
theorem ppf_monotone_series (hF : Lawful F) (d : Params α) (hab : d.a ≤ d.b) (hp : pointMass F d = false)
    (h : regime F d = .nothing) (hneg : F.negInf ≤ d.a - 6 * d.o) (hpos : d.b + 6 * d.o ≤ F.posInf)
    (q q' : α) (hq : q ≤ q') : ppf F d q ≤ ppf F d q' := ppf_mono_series hF d hab hp h hneg hpos q q' hq

/-- **T2 `bisect_bracket`**: `a−6o ≤ lo₃₀ ≤ result ≤ hi₃₀ ≤ b+6o` and `hi₃₀ − lo₃₀ = (b−a+12o)/2^30`
(the code's bracket and step count). -/
theorem bisect_bracket (hF : Lawful F) (d : Params α) (hab : d.a ≤ d.b) (ho : 0 ≤ d.o) (q : α) :
    let br := bisect (cdf F d) (midpoint F) q 30 (d.a - F.n 6 * d.o, d.b + F.n 6 * d.o)
    d.a - 6 * d.o ≤ br.1 ∧ br.1 ≤ ppfBisect F d q ∧ ppfBisect F d q ≤ br.2 ∧ br.2 ≤ d.b + 6 * d.o
      ∧ br.2 - br.1 = (d.b - d.a + 12 * d.o) / 2 ^ 30 := ppfBisect_bracket hF d hab ho q

/-- **T2' `bisect_accuracy`** (conditional): a monotone, `L`-Lipschitz cdf is inverted to within
`L·(b−a+12o)/2^30` plus the distance of `q` from `[cdf(a−6o), cdf(b+6o)]`. -/
theorem bisect_accuracy (hF : Lawful F) (d : Params α) (hab : d.a ≤ d.b) (ho : 0 ≤ d.o) (L q : α)
    (hmono : ∀ x y, d.a - 6 * d.o ≤ x → x ≤ y → y ≤ d.b + 6 * d.o → cdf F d x ≤ cdf F d y)
    (hlip : ∀ x y, d.a - 6 * d.o ≤ x → x ≤ y → y ≤ d.b + 6 * d.o → cdf F d y - cdf F d x ≤ L * (y - x)) :
    |cdf F d (ppfBisect F d q) - q| ≤ L * ((d.b - d.a + 12 * d.o) / 2 ^ 30)
      + max 0 (max (cdf F d (d.a - 6 * d.o) - q) (q - cdf F d (d.b + 6 * d.o))) :=
  ppfBisect_accuracy hF d hab ho L q hmono hlip

/-! **T3** the end-point decision table -/

/-- point mass `a = b ∧ o = 0`: `ppf` is constantly `a` -/
theorem ppf_point_mass (hF : Lawful F) (d : Params α) (hab : d.a = d.b) (ho : d.o = 0) (q : α) :
    ppf F d q = d.a := ppf_point d q ((pointMass_iff hF d).mpr ⟨hab, ho⟩)

/-- noise modelled by the series: `ppf 0 = −∞`, `ppf 1 = +∞` -/
theorem ppf_endpoints_series (hF : Lawful F) (d : Params α) (hab : d.a ≤ d.b) (hp : pointMass F d = false)
    (h : regime F d = .nothing) : ppf F d 0 = F.negInf ∧ ppf F d 1 = F.posInf :=
  Opda.Noisy.ppf_endpoints_series hF d hab hp h

/-- inside `(0,1)` the series regime returns the bisection result -/
theorem ppf_series_inside (hF : Lawful F) (d : Params α) (hab : d.a ≤ d.b) (q : α) (hp : pointMass F d = false)
    (h : regime F d = .nothing) :
    ppf F d q = if clip q 0 1 = 0 then F.negInf else if clip q 0 1 = 1 then F.posInf
      else ppfBisect F d (clip q 0 1) := ppf_nothing hF d hab q hp h

/-- the `if o == 0: clip` line after the bisection is unreachable -/
theorem clip_branch_unreachable (hF : Lawful F) (d : Params α) (hab : d.a ≤ d.b)
    (h : regime F d = .nothing) : F.eq d.o (F.n 0) = false := Opda.Noisy.clip_branch_unreachable hF d hab h

/-- noiseless regime (`o < 1e-6 (b−a)`, which contains `o = 0 < b−a`): closed form of the noiseless class -/
theorem ppf_closed_form_noiseless (d : Params α) (q : α) (hp : pointMass F d = false) (h : regime F d = .noiseless) :
    ppf F d q = if d.convex then d.a + (d.b - d.a) * F.pow (clip q (F.n 0) (F.n 1)) (F.n 2 / F.n d.c)
      else d.b - (d.b - d.a) * F.pow (F.n 1 - clip q (F.n 0) (F.n 1)) (F.n 2 / F.n d.c) := ppf_noiseless d q hp h

/-- … hence `ppf 0 = a`, `ppf 1 = b` for any `pow` with `0^k = 0`, `1^k = 1` -/
theorem ppf_endpoints_noiseless (hF : Lawful F) (d : Params α) (hp : pointMass F d = false)
    (h : regime F d = .noiseless) (hp0 : F.pow 0 (F.n 2 / F.n d.c) = 0) (hp1 : F.pow 1 (F.n 2 / F.n d.c) = 1) :
    ppf F d 0 = d.a ∧ ppf F d 1 = d.b := Opda.Noisy.ppf_endpoints_noiseless hF d hp h hp0 hp1

/-- `o = 0 < b − a` is in the noiseless regime -/
theorem zero_noise_is_noiseless (hF : Lawful F) (d : Params α) (hab : d.a < d.b) (ho : d.o = 0) :
    regime F d = .noiseless ∧ pointMass F d = false := regime_zero_noise hF d hab ho

/-- normal regime (`o ≥ 10 (b−a)`): `mean + sd · Φ⁻¹(q)` -/
theorem ppf_closed_form_normal (d : Params α) (q : α) (hp : pointMass F d = false) (h : regime F d = .normal) :
    ppf F d q = meanOf F d + F.sqrt (varOf F d) * F.normalPpf (clip q (F.n 0) (F.n 1)) := ppf_normal d q hp h

end field

/-- **T3 at `ℝ`**: with `Real.rpow` the noiseless end points are `a` and `b` outright -/
theorem ppf_endpoints_noiseless_real (T : List (ℕ × List (Entry ℝ))) (ninf pinf : ℝ) (d : Params ℝ) (hc : 0 < d.c)
    (hp : pointMass (realFns T ninf pinf) d = false) (h : regime (realFns T ninf pinf) d = .noiseless) :
    ppf (realFns T ninf pinf) d 0 = d.a ∧ ppf (realFns T ninf pinf) d 1 = d.b :=
  Opda.Noisy.ppf_endpoints_noiseless_real T ninf pinf d hc hp h

/-- **inverse clause, noiseless regime, exact arithmetic**: over `ℝ` the closed forms are exact inverses,
`cdf (ppf q) = q` for every `q ∈ [0,1]`, both shapes, every `c ≥ 1` (`o < 1e-6 (b−a)`, which contains `o = 0`).
In floating point the residual is rounding (measured every run, ≤ 1e-5 demanded). -/
theorem cdf_ppf_noiseless_real (T : List (ℕ × List (Entry ℝ))) (ninf pinf : ℝ) (d : Params ℝ) (hab : d.a ≤ d.b)
    (ho : 0 ≤ d.o) (hc : 0 < d.c) (hp : pointMass (realFns T ninf pinf) d = false)
    (h : regime (realFns T ninf pinf) d = .noiseless) (q : ℝ) (hq0 : 0 ≤ q) (hq1 : q ≤ 1) :
    cdf (realFns T ninf pinf) d (ppf (realFns T ninf pinf) d q) = q :=
  Opda.Noisy.cdf_ppf_noiseless T ninf pinf d hab ho hc hp h q hq0 hq1

/-! ### the accuracy clause for even `c`, exact real arithmetic -/

section even
variable (T : List (ℕ × List (Entry ℝ))) (ninf pinf : ℝ)

/-- **Chernoff bound for the standard normal**: `Φ(−t) ≤ exp(−t²/2)` for `t ≥ 0`, `Φ` the distribution function of
`gaussianReal 0 1`. -/
theorem gaussian_tail (t : ℝ) (ht : 0 ≤ t) : Phi (-t) ≤ Real.exp (-(t ^ 2) / 2) := Phi_neg_le_exp t ht

/-- … hence `Φ(−6) ≤ e^{−18} ≤ 2^{−18} < 3.82e-6` (true value `9.9e-10`): the mass the bracket `[a−6o, b+6o]` may cut
off on either side. -/
theorem gaussian_tail_six : Phi (-6) ≤ 1 / 262144 := Phi_neg_six_le

/-- **(i) the even-`c` model cdf is monotone** (series regime, `ℝ`, `c = 2k ≥ 2`, both shapes, on all of `ℝ`). -/
theorem cdf_even_monotone (d : Params ℝ) (k : ℕ) (hk : 1 ≤ k) (hc : d.c = 2 * k) (hab : d.a ≤ d.b)
    (hp : pointMass (realFns T ninf pinf) d = false) (h : regime (realFns T ninf pinf) d = .nothing)
    (x y : ℝ) (hxy : x ≤ y) : cdf (realFns T ninf pinf) d x ≤ cdf (realFns T ninf pinf) d y :=
  cdf_even_mono T ninf pinf d k hk hc hab hp h x y hxy

/-- **(ii) Lipschitz constant `k/(b−a) = c/(2(b−a))`** of the even-`c` model cdf, for every noise level of the series
regime: `cdf y − cdf x ≤ k/(b−a)·(y − x)` for `x ≤ y` (the noise-free density is `≤ k/(b−a)`, convolution keeps it). -/
theorem cdf_even_lipschitz (d : Params ℝ) (k : ℕ) (hk : 1 ≤ k) (hc : d.c = 2 * k) (hab : d.a ≤ d.b)
    (hp : pointMass (realFns T ninf pinf) d = false) (h : regime (realFns T ninf pinf) d = .nothing)
    (x y : ℝ) (hxy : x ≤ y) :
    cdf (realFns T ninf pinf) d y - cdf (realFns T ninf pinf) d x ≤ (k:ℝ) / (d.b - d.a) * (y - x) :=
  Opda.Noisy.cdf_even_lipschitz T ninf pinf d k hk hc hab hp h x y hxy

/-- the same two facts for the Spec itself, the mixture `H(t) = ∫₀¹ Φ((t−x)/s) d(x^k)`: non-decreasing and
`k`-Lipschitz in `t`, for every `s > 0`. -/
theorem mixture_monotone_lipschitz (k : ℕ) (s : ℝ) (hk : 1 ≤ k) (hs : 0 < s) (t t' : ℝ) (h : t ≤ t') :
    mixture k s t ≤ mixture k s t' ∧ mixture k s t' - mixture k s t ≤ k * (t' - t) :=
  ⟨mixture_mono k s hk hs t t' h, mixture_lipschitz k s hk hs t t' h⟩

/-- **(iv) tails**: the even-`c` model cdf at the ends of the bisection bracket is within `Φ(−6)` of `0` resp. `1`. -/
theorem cdf_even_tails (d : Params ℝ) (k : ℕ) (hk : 1 ≤ k) (hc : d.c = 2 * k) (hab : d.a ≤ d.b)
    (hp : pointMass (realFns T ninf pinf) d = false) (h : regime (realFns T ninf pinf) d = .nothing) :
    cdf (realFns T ninf pinf) d (d.a - 6 * d.o) ≤ Phi (-6)
      ∧ 1 - Phi (-6) ≤ cdf (realFns T ninf pinf) d (d.b + 6 * d.o) :=
  ⟨cdf_even_tail_lo T ninf pinf d k hk hc hab hp h, cdf_even_tail_hi T ninf pinf d k hk hc hab hp h⟩

/-- **accuracy with an explicit bound, every even `c ≥ 2`** (series regime, exact real arithmetic, both shapes,
`q ∈ (0,1)`): `|cdf(ppf q) − q| ≤ k(1 + 12·o/(b−a))/2^30 + Φ(−6)` — Lipschitz constant × final bracket width, plus
the Gaussian mass beyond 6 standard deviations.  `_partial`: even `c` only, `ℝ` only (odd `c`, IEEE rounding: compared). -/
theorem cdf_ppf_even_explicit_partial (d : Params ℝ) (k : ℕ) (hk : 1 ≤ k) (hc : d.c = 2 * k) (hab : d.a ≤ d.b)
    (hp : pointMass (realFns T ninf pinf) d = false) (h : regime (realFns T ninf pinf) d = .nothing)
    (q : ℝ) (hq0 : 0 < q) (hq1 : q < 1) :
    |cdf (realFns T ninf pinf) d (ppf (realFns T ninf pinf) d q) - q|
      ≤ (k:ℝ) * (1 + 12 * (d.o / (d.b - d.a))) / 2 ^ 30 + Phi (-6) :=
  cdf_ppf_even_explicit T ninf pinf d k hk hc hab hp h q hq0 hq1

/-- **the accuracy clause, unconditional, for even `c = 2k`, `1 ≤ k ≤ 50`** (so in particular `c ∈ {2,4,6,8,10}`):
in the series regime (`pointMass = false`, `regime = .nothing`, i.e. `a < b`, `1e-6 ≤ o/(b−a) < 10` by
`regime_nothing_iff`), at the real instance `realFns T ninf pinf` (any table, any stand-ins for `±∞`), both shapes,
every `q ∈ (0,1)`: `|cdf(ppf q) − q| ≤ 1e-5` in exact real arithmetic (the bound actually obtained is
`(121k + 4096)/2^30`, `≤ 4.4e-6` for `c ≤ 10`).  `a < b` and `o > 0` follow from the regime (`nothing_pos`), so only
`a ≤ b` is assumed.  `_partial`: missing for the full clause are **odd `c`** in this regime (the cdf is then a
piecewise-polynomial approximation; only compared), `c > 100`, and **IEEE rounding** (the statement is about the model
term at `ℝ`, not at `Float`; the `Float` residual is measured on every run). -/
theorem cdf_ppf_even_series_partial (d : Params ℝ) (k : ℕ) (hk : 1 ≤ k) (hk50 : k ≤ 50) (hc : d.c = 2 * k)
    (hab : d.a ≤ d.b) (hp : pointMass (realFns T ninf pinf) d = false)
    (h : regime (realFns T ninf pinf) d = .nothing) (q : ℝ) (hq0 : 0 < q) (hq1 : q < 1) :
    |cdf (realFns T ninf pinf) d (ppf (realFns T ninf pinf) d q) - q| ≤ 1e-5 :=
  cdf_ppf_even T ninf pinf d k hk hk50 hc hab hp h q hq0 hq1

/-- **inverse clause, normal regime, exact arithmetic, every `c`**: for `o ≥ 10 (b−a)` (not the point mass) the closed
forms `ppf q = mean + sd·Φ⁻¹(q)`, `cdf y = Φ((y−mean)/sd)` are exact inverses on `(0,1)` over `ℝ`
(`Φ⁻¹` the generalised inverse of the real `Φ`).  At `Float` the residual is that of `erf`/`erfinv` (compared). -/
theorem cdf_ppf_normal_real (d : Params ℝ) (hab : d.a ≤ d.b)
    (hp : pointMass (realFns T ninf pinf) d = false) (h : regime (realFns T ninf pinf) d = .normal)
    (q : ℝ) (hq0 : 0 < q) (hq1 : q < 1) :
    cdf (realFns T ninf pinf) d (ppf (realFns T ninf pinf) d q) = q :=
  cdf_ppf_normal T ninf pinf d hab hp h q hq0 hq1

/-- **the accuracy clause for even `c ≤ 100` in all three regimes, exact real arithmetic**: every `a ≤ b`, `o ≥ 0`
except the point mass `a = b ∧ o = 0` (where `cdf` jumps and the clause is meaningless), both shapes, `q ∈ (0,1)`.
`_partial`: odd `c` (series regime) and IEEE rounding are missing, as above. -/
theorem cdf_ppf_even_all_regimes_partial (d : Params ℝ) (k : ℕ) (hk : 1 ≤ k) (hk50 : k ≤ 50) (hc : d.c = 2 * k)
    (hab : d.a ≤ d.b) (ho : 0 ≤ d.o) (hp : pointMass (realFns T ninf pinf) d = false)
    (q : ℝ) (hq0 : 0 < q) (hq1 : q < 1) :
    |cdf (realFns T ninf pinf) d (ppf (realFns T ninf pinf) d q) - q| ≤ 1e-5 :=
  cdf_ppf_even_all T ninf pinf d k hk hk50 hc hab ho hp q hq0 hq1

end even

/-! ### non-vacuity -/

/-- the hypotheses of the monotonicity / end-point theorems are satisfiable: series regime at `ℝ`, with
`−∞ := −1`, `+∞ := 2` outside the bracket `[−0.6, 1.6]` -/
example : Lawful (realFns [] (-1) 2)
    ∧ pointMass (realFns [] (-1) 2) { a := 0, b := 1, c := 3, o := 1/10, convex := true } = false
    ∧ regime (realFns [] (-1) 2) { a := 0, b := 1, c := 3, o := 1/10, convex := true } = .nothing
    ∧ (realFns [] (-1) 2).negInf ≤ (0:ℝ) - 6 * (1/10) ∧ (1:ℝ) + 6 * (1/10) ≤ (realFns [] (-1) 2).posInf := by
  refine ⟨realFns_lawful _ _ _, ?_, ?_, ?_, ?_⟩
  · rw [Bool.eq_false_iff, Ne, pointMass_iff (realFns_lawful _ _ _)]; norm_num
  · rw [regime_nothing_iff (realFns_lawful _ _ _)]; norm_num
  · show (-1:ℝ) ≤ _; norm_num
  · show _ ≤ (2:ℝ); norm_num

/-- `bisect_accuracy`'s hypotheses are satisfiable (a constant cdf is monotone and 0-Lipschitz) -/
example (c : ℝ) : (∀ x y : ℝ, (0:ℝ) ≤ x → x ≤ y → y ≤ 1 → (fun _ : ℝ => c) x ≤ (fun _ : ℝ => c) y)
    ∧ (∀ x y : ℝ, (0:ℝ) ≤ x → x ≤ y → y ≤ 1 → (fun _ : ℝ => c) y - (fun _ : ℝ => c) x ≤ 0 * (y - x)) := by
  constructor <;> intros <;> simp

/-- the hypotheses of the even-`c` accuracy theorems are satisfiable: `a=0, b=1, c=4 (k=2), o=1/10`, convex, lies in
the series regime; the theorem then applies at, e.g., `q = 1/2` -/
example : pointMass (realFns [] 0 0) { a := 0, b := 1, c := 4, o := 1/10, convex := true } = false
    ∧ regime (realFns [] 0 0) { a := 0, b := 1, c := 4, o := 1/10, convex := true } = .nothing
    ∧ (1 ≤ 2 ∧ 2 ≤ 50 ∧ ({ a := 0, b := 1, c := 4, o := 1/10, convex := true } : Params ℝ).c = 2 * 2)
    ∧ |cdf (realFns [] 0 0) { a := 0, b := 1, c := 4, o := 1/10, convex := true }
          (ppf (realFns [] 0 0) { a := 0, b := 1, c := 4, o := 1/10, convex := true } (1/2)) - 1/2| ≤ 1e-5 := by
  have hp : pointMass (realFns [] 0 0) { a := 0, b := 1, c := 4, o := 1/10, convex := true } = false := by
    rw [Bool.eq_false_iff, Ne, pointMass_iff (realFns_lawful [] 0 0)]; norm_num
  have hr : regime (realFns [] 0 0) { a := 0, b := 1, c := 4, o := 1/10, convex := true } = .nothing := by
    rw [regime_nothing_iff (realFns_lawful [] 0 0)]; norm_num
  exact ⟨hp, hr, ⟨by norm_num, by norm_num, rfl⟩,
    cdf_ppf_even_series_partial [] 0 0 _ 2 (by norm_num) (by norm_num) rfl (by norm_num) hp hr (1/2)
      (by norm_num) (by norm_num)⟩

/-- … and a concave setting in the normal regime: `a=0, b=1, c=3, o=20` -/
example : pointMass (realFns [] 0 0) { a := 0, b := 1, c := 3, o := 20, convex := false } = false
    ∧ regime (realFns [] 0 0) { a := 0, b := 1, c := 3, o := 20, convex := false } = .normal := by
  constructor
  · rw [Bool.eq_false_iff, Ne, pointMass_iff (realFns_lawful [] 0 0)]; norm_num
  · rw [regime_normal_iff (realFns_lawful [] 0 0)]; norm_num

end Opda.Props.C07

#opda_audit Opda.Props.C07
