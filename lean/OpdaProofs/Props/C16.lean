import OpdaProofs.Audit
import OpdaProofs.BetaBinom
import OpdaProofs.UtilsExtra
import OpdaProofs.NormalSpec
import OpdaProofs.SortFirst
import OpdaProofs.ExtInst
import OpdaModel.Drv.Utils
/-!
# C16 — Clopper–Pearson, DKW epsilon, normal helpers, sort_by_first

Property theorems only (lemmas live in `OpdaProofs/{ClopperPearson,BetaBinom,UtilsExtra,DkwEps,NormalSpec,SortFirst}.lean`).

* **Clopper–Pearson.** `cp_check_sound` is the theorem the check relies on: the executable, exact-ℚ
  checker `Opda.BetaBinom.cpCheck` run by the driver on the implementation's *actual* table
  (`n+1` lower and upper end points read as exact rationals) implies coverage `≥ 1 − α − 2δ` for
  **every real** `p ∈ [0,1]`; nothing is sampled in `p`.  `cp_tail_is_binomial_sum`/`cp_model_exact` tie
  the recursively defined tail to the binomial sum and to the term the driver evaluates.
* **dkw_epsilon**: the closed form satisfies the defining identity, is monotone in the confidence,
  antitone in `n`, non-negative, and unbounded as the confidence tends to one.
* **normal helpers** (over ℝ; the float accuracy clauses `1e-15`, `1e-7` are compared with mpmath, not proved):
  `Φ` of the Gaussian measure is continuous, strictly increasing, `Φ' = φ`, `Φ = ½(1+erf(·/√2))`,
  `Φ ∘ Φ⁻¹ = id` on `(0,1)`, Galois law, `±∞` end points.
* **sort_by_first**: the model's outputs are the inputs gathered at one permutation that sorts the first.
-/
namespace Opda.Props.C16
open Opda.BetaBinom Opda.CP

/-! ### binomial_confidence_interval -/

/-- **Soundness of the checker the driver runs** (`cp.check`): an accepted table covers the true
proportion with probability `≥ 1 − α − 2δ` for every real `p ∈ [0,1]` (`pmf n k p = P[Bin(n,p) = k]`). -/
theorem cp_check_sound (n : ℕ) (lo hi : List ℚ) (α δ : ℚ) (h : cpCheck n lo hi α δ = true)
    (p : ℝ) (hp0 : 0 ≤ p) (hp1 : p ≤ 1) :
    1 - (α : ℝ) - 2 * (δ : ℝ) ≤ ∑ k ∈ Finset.range (n+1),
      (if ((lo.getD k 0 : ℚ) : ℝ) ≤ p ∧ p ≤ ((hi.getD k 0 : ℚ) : ℝ) then pmf n k p else 0) :=
  Opda.BetaBinomP.cpCheck_sound n lo hi α δ h p hp0 hp1

/-- The mathematical statement behind it: monotone end points and `2n` exact tail inequalities give
coverage for every `p`. -/
theorem cp_coverage_all_p (n : ℕ) (lo hi : ℕ → ℝ) (α δ : ℝ)
    (hlo_mono : ∀ j k, j ≤ k → k ≤ n → lo j ≤ lo k) (hhi_mono : ∀ j k, j ≤ k → k ≤ n → hi j ≤ hi k)
    (hlo01 : ∀ k, k ≤ n → 0 ≤ lo k ∧ lo k ≤ 1) (hhi01 : ∀ k, k ≤ n → 0 ≤ hi k ∧ hi k ≤ 1)
    (hlo0 : lo 0 ≤ 0) (hhin : 1 ≤ hi n)
    (hlo : ∀ k, 1 ≤ k → k ≤ n → tail n k (lo k) ≤ α / 2 + δ)
    (hhi : ∀ k, k < n → 1 - tail n (k+1) (hi k) ≤ α / 2 + δ)
    (hα : 0 ≤ α / 2 + δ) (p : ℝ) (hp0 : 0 ≤ p) (hp1 : p ≤ 1) :
    1 - α - 2 * δ ≤ ∑ k ∈ Finset.range (n+1), (if lo k ≤ p ∧ p ≤ hi k then pmf n k p else 0) :=
  cp_coverage n lo hi α δ hlo_mono hhi_mono hlo01 hhi01 hlo0 hhin hlo hhi hα p hp0 hp1

/-- `tail n k p` (defined by conditioning on one trial) is the binomial sum `Σ_{j≥k} C(n,j) p^j (1−p)^{n−j}`. -/
theorem cp_tail_is_binomial_sum (n k : ℕ) (p : ℝ) :
    tail n k p = ∑ j ∈ Finset.Ico k (n + 1), (Nat.choose n j : ℝ) * p ^ j * (1 - p) ^ (n - j) :=
  Opda.BetaBinomP.tail_eq_sum n k p

/-- `pmf n k p` is the binomial probability mass `C(n,k) p^k (1−p)^{n−k}`. -/
theorem cp_pmf_is_binomial (n k : ℕ) (p : ℝ) :
    pmf n k p = (Nat.choose n k : ℝ) * p ^ k * (1 - p) ^ (n - k) := Opda.BetaBinomP.pmf_eq n k p

/-- The exact-ℚ term the driver evaluates (one Horner pass over ℕ) *is* the real binomial tail. -/
theorem cp_model_exact (n k : ℕ) (p : ℚ) (h0 : 0 ≤ p) (h1 : p ≤ 1) :
    ((tailQ n k p : ℚ) : ℝ) = tail n k (p : ℝ) := Opda.BetaBinomP.tailQ_cast n k p h0 h1

/-- The binomial tail is non-decreasing in `p` (why end-point inequalities suffice). -/
theorem cp_tail_mono (n k : ℕ) (p p' : ℝ) (h0 : 0 ≤ p) (hpp : p ≤ p') (h1 : p' ≤ 1) :
    tail n k p ≤ tail n k p' := tail_mono_p n k p p' h0 hpp h1

/-- Symmetry `lo(k,n) = 1 − hi(n−k,n)` of the Spec: the defining equations are mirror images. -/
theorem cp_symmetry (n k : ℕ) (l r : ℝ) (hk : k ≤ n) :
    tail n k l = r ↔ 1 - tail n ((n - k) + 1) (1 - l) = r := Opda.UtilsExtra.cp_symmetry n k l r hk

/-- non-vacuity: a concrete `n = 2` table at `α = 1/10` is accepted by the checker (kernel evaluation). -/
example : cpCheck 2 [0, 1/50, 1/5] [4/5, 49/50, 1] (1/10) 0 = true := by decide +kernel

/-! ### dkw_epsilon -/
open Opda.Dkw

/-- `2·exp(−2 n ε²) = 1 − confidence` for the closed form `ε = sqrt(log(2/(1−c))/(2n))`. -/
theorem dkw_identity (n c : ℝ) (hn : 0 < n) (hc0 : 0 ≤ c) (hc1 : c < 1) :
    2 * Real.exp (-2 * n * (eps n c)^2) = 1 - c := eps_spec n c hn hc0 hc1

theorem dkw_nonneg (n c : ℝ) : 0 ≤ eps n c := eps_nonneg n c

theorem dkw_mono_confidence (n c c' : ℝ) (hn : 0 < n) (hc0 : 0 ≤ c) (hcc : c ≤ c') (hc1 : c' < 1) :
    eps n c ≤ eps n c' := eps_mono_c n c c' hn hc0 hcc hc1

theorem dkw_anti_n (n n' c : ℝ) (hn : 0 < n) (hnn : n ≤ n') (hc0 : 0 ≤ c) (hc1 : c < 1) :
    eps n' c ≤ eps n c := eps_anti_n n n' c hn hnn hc0 hc1

/-- `ε → ∞` as the confidence tends to one (the code returns `+inf` at `1`). -/
theorem dkw_unbounded (n M : ℝ) (hn : 0 < n) (hM : 0 ≤ M) (c : ℝ) (hc0 : 0 ≤ c) (hc1 : c < 1)
    (hc : 1 - c < 2 * Real.exp (-2 * n * M ^ 2)) : M < eps n c :=
  Opda.UtilsExtra.eps_unbounded n M hn hM c hc0 hc1 hc

example : ∃ n c : ℝ, 0 < n ∧ 0 ≤ c ∧ c < 1 := ⟨1, 1/2, by norm_num, by norm_num, by norm_num⟩

/-! ### normal_pdf / normal_cdf / normal_ppf (over ℝ) -/
open Opda.Normal

theorem normal_cdf_is_gaussian_measure (x : ℝ) :
    Phi x = ((ProbabilityTheory.gaussianReal 0 1) (Set.Iic x)).toReal := rfl

/-- the formula `normal_cdf` evaluates: `Φ(x) = ½ (1 + erf(x/√2))`, `erf` defined by its integral -/
theorem normal_cdf_formula (x : ℝ) : Phi x = (1 + erfR (x / Real.sqrt 2)) / 2 := Phi_eq_erf x

/-- the formula `normal_pdf` evaluates -/
theorem normal_pdf_formula (x : ℝ) :
    phiStd x = (Real.sqrt (2 * Real.pi))⁻¹ * Real.exp (-0.5 * x ^ 2) := phiStd_closed x

theorem normal_cdf_deriv (x : ℝ) : HasDerivAt Phi (phiStd x) x := hasDerivAt_Phi x
theorem normal_cdf_strictMono : StrictMono Phi := Phi_strictMono
theorem normal_cdf_continuous : Continuous Phi := Phi_continuous
theorem normal_cdf_range (x : ℝ) : 0 < Phi x ∧ Phi x < 1 := ⟨Phi_pos x, Phi_lt_one x⟩
theorem normal_cdf_limits :
    Filter.Tendsto Phi Filter.atBot (nhds 0) ∧ Filter.Tendsto Phi Filter.atTop (nhds 1) :=
  ⟨tendsto_Phi_atBot, tendsto_Phi_atTop⟩

/-- `cdf(ppf(q)) = q` on `(0,1)` -/
theorem normal_cdf_ppf (q : ℝ) (h0 : 0 < q) (h1 : q < 1) : Phi (PhiInv q) = q := Phi_PhiInv q h0 h1
theorem normal_ppf_cdf (x : ℝ) : PhiInv (Phi x) = x := PhiInv_Phi x
theorem normal_ppf_galois (q x : ℝ) (h0 : 0 < q) (h1 : q < 1) : PhiInv q ≤ x ↔ q ≤ Phi x :=
  PhiInv_le_iff q x h0 h1

/-- `ppf(1) = +∞`: no real number attains level one; `ppf(0) = −∞`: every real number exceeds level zero -/
theorem normal_ppf_ends : {x : ℝ | 1 ≤ Phi x} = ∅ ∧ {x : ℝ | 0 ≤ Phi x} = Set.univ :=
  ⟨ppf_one_unattained, ppf_zero_unbounded⟩

/-! ### sort_by_first -/
open Opda.SortFirst Opda.Wire

/-- `sorting = argsort(first)` is a permutation of the indices … -/
theorem sort_is_permutation {κ : Type} (le : κ → κ → Bool) (d : κ) (keys : List κ) :
    (argsort le d keys).Perm (List.range keys.length) := Opda.SortFirstP.argsort_perm le d keys

/-- … that sorts the first array … -/
theorem sort_first_sorted {κ : Type} [LinearOrder κ] (d : κ) (keys : List κ) :
    List.Pairwise (· ≤ ·) (gather d keys (argsort (fun a b => decide (a ≤ b)) d keys)) :=
  Opda.SortFirstP.first_sorted d keys

/-- … every array comes back as a permutation of itself … -/
theorem sort_each_permuted {κ : Type} (le : κ → κ → Bool) (d : κ) (keys col : List κ)
    (hlen : col.length = keys.length) : (gather d col (argsort le d keys)).Perm col :=
  Opda.SortFirstP.gather_perm le d keys col hlen

/-- … by **one** permutation: the rows across the arrays are rearranged together. -/
theorem sort_rows_permuted {κ : Type} (le : κ → κ → Bool) (d : κ) (keys : List κ) (cols : List (List κ)) :
    ((argsort le d keys).map fun i => cols.map fun c => c.getD i d).Perm
      ((List.range keys.length).map fun i => cols.map fun c => c.getD i d) :=
  Opda.SortFirstP.rows_perm le d keys cols

/-- the whole function: `()` for no arguments, `ValueError` for unequal lengths, the gathered arrays otherwise -/
theorem sort_by_first_cases {κ : Type} (le : κ → κ → Bool) (d : κ) (first : List κ) (rest : List (List κ)) :
    sortByFirst le d [] = .arrays []
      ∧ ((∃ c ∈ rest, c.length ≠ first.length) → sortByFirst le d (first :: rest) = .valueError)
      ∧ ((∀ c ∈ rest, c.length = first.length) →
          sortByFirst le d (first :: rest) = .arrays ((first :: rest).map fun c => gather d c (argsort le d first))) :=
  ⟨Opda.SortFirstP.sortByFirst_nil le d, Opda.SortFirstP.sortByFirst_unequal le d first rest,
   Opda.SortFirstP.sortByFirst_equal le d first rest⟩

/-- the same for the very term the driver evaluates (`Ext` keys, `extLe`) -/
theorem sort_first_sorted_driver (keys : List Ext) :
    List.Pairwise (· ≤ ·) (gather (Ext.fin 0) keys (argsort Opda.Drv.Utils.extLe (Ext.fin 0) keys)) :=
  Opda.SortFirstP.first_sorted (κ := Ext) (Ext.fin 0) keys

end Opda.Props.C16

#opda_audit Opda.Props.C16
