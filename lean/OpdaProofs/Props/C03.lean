import OpdaProofs.Audit
import OpdaProofs.Emp
import OpdaProofs.ExtInst
import OpdaProofs.EmpMore
import OpdaProofs.EmpStep
import OpdaProofs.EmpMoments
import OpdaProofs.EmpReal
/-!
# C03 — EmpiricalDistribution pmf/cdf/ppf are the exact weighted step distribution

Property theorems only (helper lemmas live in `OpdaProofs/Emp.lean`).  The generic statements hold
for values in *any* linear order with ⊥/⊤ and weights in *any* linearly ordered field; the `_driver`
corollaries restate them for the very terms the executable model evaluates (`Ext` values, `Rat`
weights, `Ext.negInf`/`Ext.posInf` as the padding atoms), so that what the correspondence check
runs is what the theorems are about.
-/
namespace Opda.Props.C03
open Opda.Emp Opda.Wire

variable {E α : Type} [LinearOrder E] [OrderBot E] [OrderTop E]
  [Field α] [LinearOrder α] [IsStrictOrderedRing α]

/-- cdf(y) = total weight of observations ≤ y (normalised), for every observation list (ties, zero
weights, infinite values), every bound pair, every query. -/
theorem cdf_eq_weight_le (a b y : E) (obs : List (E × α)) :
    cdf (support ⊥ ⊤ a b obs) y = weightLE y obs / total obs := cdf_support a b y obs

/-- pmf(y) = total weight of observations equal to y (normalised). -/
theorem pmf_eq_weight_eq (a b y : E) (obs : List (E × α)) :
    pmf (support ⊥ ⊤ a b obs) y = weightEq y obs / total obs := pmf_support a b y obs

/-- Galois law of the generalised inverse restricted to the support: for `0 < q ≤ 1`, `y ≥ a`,
`ppf q ≤ y ↔ q ≤ cdf y`. -/
theorem ppf_galois (a b y : E) (obs : List (E × α)) (hn : NonNeg obs) (htot : 0 < total obs)
    (q : α) (hq0 : 0 < q) (hq1 : q ≤ 1) (hay : a ≤ y) :
    ppf a (support ⊥ ⊤ a b obs) q ≤ y ↔ q ≤ cdf (support ⊥ ⊤ a b obs) y :=
  ppf_le_iff a b y obs hn htot q hq0 hq1 hay

/-- cdf is non-decreasing, with values in `[0,1]`. -/
theorem cdf_monotone (a b : E) (obs : List (E × α)) (hn : NonNeg obs) (htot : 0 < total obs) (y y' : E) (h : y ≤ y') :
    cdf (support ⊥ ⊤ a b obs) y ≤ cdf (support ⊥ ⊤ a b obs) y' := cdf_mono a b obs hn htot y y' h

theorem cdf_in_unit_interval (a b : E) (obs : List (E × α)) (hn : NonNeg obs) (htot : 0 < total obs) (y : E) :
    0 ≤ cdf (support ⊥ ⊤ a b obs) y ∧ cdf (support ⊥ ⊤ a b obs) y ≤ 1 := cdf_range a b obs hn htot y

/-- cdf is 0 below the sample and 1 from its maximum on. -/
theorem cdf_zero_below (a b : E) (obs : List (E × α)) (y : E) (h : ∀ p ∈ obs, y < p.1) :
    cdf (support ⊥ ⊤ a b obs) y = 0 := cdf_eq_zero_of_all_gt a b obs y h

theorem cdf_one_from_max (a b : E) (obs : List (E × α)) (htot : 0 < total obs) (y : E) (h : ∀ p ∈ obs, p.1 ≤ y) :
    cdf (support ⊥ ⊤ a b obs) y = 1 := cdf_eq_one_of_all_le a b obs htot y h

/-- ppf never returns a point below the lower bound and is non-decreasing in `q`. -/
theorem ppf_ge_lower_bound (a : E) (supp : List (E × α)) (q : α) : a ≤ ppf a supp q := le_ppf a supp q

theorem ppf_monotone (a b : E) (obs : List (E × α)) (hn : NonNeg obs) (htot : 0 < total obs)
    (q q' : α) (hq0 : 0 < q) (hqq : q ≤ q') (hq1 : q' ≤ 1) :
    ppf a (support ⊥ ⊤ a b obs) q ≤ ppf a (support ⊥ ⊤ a b obs) q' := ppf_mono a b obs hn htot q q' hq0 hqq hq1

/-- ppf(cdf(v)) = v at every atom `v ≥ a` where the cdf jumps (positive weight). -/
theorem ppf_cdf_at_atom (a b v : E) (obs : List (E × α)) (hn : NonNeg obs) (htot : 0 < total obs) (hav : a ≤ v)
    (hpos : 0 < cdf (support ⊥ ⊤ a b obs) v)
    (hjump : ∀ y, y < v → cdf (support ⊥ ⊤ a b obs) y < cdf (support ⊥ ⊤ a b obs) v) :
    ppf a (support ⊥ ⊤ a b obs) (cdf (support ⊥ ⊤ a b obs) v) = v := ppf_cdf_atom a b v obs hn htot hav hpos hjump

/-- non-vacuity: a tied, weighted sample with a zero weight and an infinite observation meets the hypotheses. -/
example : NonNeg ([(Ext.fin 1, (1:ℚ)/2), (Ext.fin 1, 1/4), (Ext.posInf, 0), (Ext.fin (-3), 1/4)] : List (Ext × ℚ))
    ∧ (0:ℚ) < total ([(Ext.fin 1, (1:ℚ)/2), (Ext.fin 1, 1/4), (Ext.posInf, 0), (Ext.fin (-3), 1/4)] : List (Ext × ℚ)) := by
  constructor
  · intro p hp
    simp only [List.mem_cons, List.not_mem_nil, or_false] at hp
    rcases hp with rfl | rfl | rfl | rfl <;> norm_num
  · norm_num [total]


/-! ### ppf at the end points -/

/-- **ppf(0) = a** for every sample with non-negative weights (ties, zeros, infinite values, any bounds); positivity of
the total weight is not needed. -/
theorem ppf_zero (a b : E) (obs : List (E × α)) (hn : NonNeg obs) :
    ppf a (support ⊥ ⊤ a b obs) 0 = a := Opda.Emp.ppf_zero a b obs hn

/-- sharp form of `ppf_zero`: only the weight sitting exactly at `⊥` (−∞) matters — it must not be negative relative to
the total.  (With a negative weight at −∞ the first cumulative level is negative, `argmax(0 ≤ cumsum)` moves on and
`ppf 0` is *not* `a`.) -/
theorem ppf_zero_sharp (a b : E) (obs : List (E × α)) (h : 0 ≤ weightEq ⊥ obs / total obs) :
    ppf a (support ⊥ ⊤ a b obs) 0 = a := ppf_zero_of_bot_weight a b obs h

/-- without an observation at −∞ no condition on the weights is needed at all -/
theorem ppf_zero_no_bot_observation (a b : E) (obs : List (E × α)) (h : ∀ p ∈ obs, p.1 ≠ ⊥) :
    ppf a (support ⊥ ⊤ a b obs) 0 = a := ppf_zero_of_no_bot a b obs h

/-- the sign condition at −∞ is necessary: with weight −1 at −∞ (and 2 at 0, total 1 > 0, `a = −∞`) `ppf 0 = 0 ≠ a`. -/
example : ppf Ext.negInf (support ⊥ ⊤ Ext.negInf (Ext.fin 0) ([(Ext.negInf, -1), (Ext.fin 0, 2)] : List (Ext × ℚ))) 0
    = Ext.fin 0 := by
  have hs : support ⊥ ⊤ Ext.negInf (Ext.fin 0) ([(Ext.negInf, -1), (Ext.fin 0, 2)] : List (Ext × ℚ))
      = [(Ext.negInf, -1), (Ext.fin 0, 2), (Ext.posInf, 0)] := by
    simp [support, atoms, insertAtom, Ext.lt_iff, Ext.lt, Ext.bot_eq, Ext.top_eq]
  rw [hs]
  norm_num [ppf, cumN, cum, cumAux, firstReach, total, Ext.lt_iff, Ext.lt]

/-- **ppf(1) is the smallest point of `[a, +∞]` where the cdf reaches 1.** -/
theorem ppf_one_least_full_point (a b : E) (obs : List (E × α)) (hn : NonNeg obs) (htot : 0 < total obs) :
    cdf (support ⊥ ⊤ a b obs) (ppf a (support ⊥ ⊤ a b obs) 1) = 1
      ∧ ∀ y, a ≤ y → cdf (support ⊥ ⊤ a b obs) y = 1 → ppf a (support ⊥ ⊤ a b obs) 1 ≤ y :=
  ppf_one_least a b obs hn htot

/-- ppf is non-decreasing on the whole closed interval `[0,1]` (the level 0 included). -/
theorem ppf_monotone_closed (a b : E) (obs : List (E × α)) (hn : NonNeg obs) (htot : 0 < total obs)
    (q q' : α) (hq0 : 0 ≤ q) (hqq : q ≤ q') (hq1 : q' ≤ 1) :
    ppf a (support ⊥ ⊤ a b obs) q ≤ ppf a (support ⊥ ⊤ a b obs) q' := ppf_mono_closed a b obs hn htot q q' hq0 hqq hq1

/-! ### step function, right-continuity, jumps -/

/-- **the cdf is constant between consecutive observations** (any weights): no observation in `(y, y']` ⇒ `cdf y = cdf y'`. -/
theorem cdf_step (a b : E) (obs : List (E × α)) (y y' : E) (h : y ≤ y')
    (hno : ∀ p ∈ obs, ¬ (y < p.1 ∧ p.1 ≤ y')) :
    cdf (support ⊥ ⊤ a b obs) y = cdf (support ⊥ ⊤ a b obs) y' := Opda.Emp.cdf_step a b obs y y' h hno

/-- **right-continuous**, order form: every `y ≠ +∞` has a right neighbourhood `[y, y')` on which the cdf is constant. -/
theorem cdf_right_continuous (a b : E) (obs : List (E × α)) (y : E) (hy : y < ⊤) :
    ∃ y', y < y' ∧ ∀ z, y ≤ z → z < y' → cdf (support ⊥ ⊤ a b obs) z = cdf (support ⊥ ⊤ a b obs) y :=
  Opda.Emp.cdf_right_continuous a b obs y hy

/-- **right-continuous**, real form (values in `EReal`): for every real `y` there is `δ > 0` with `cdf y' = cdf y` on `[y, y+δ)`. -/
theorem cdf_right_continuous_real (a b : EReal) (obs : List (EReal × α)) (y : ℝ) :
    ∃ δ : ℝ, 0 < δ ∧ ∀ y' : ℝ, y ≤ y' → y' < y + δ →
      cdf (support ⊥ ⊤ a b obs) (y' : EReal) = cdf (support ⊥ ⊤ a b obs) (y : EReal) :=
  Opda.Emp.cdf_right_continuous_real a b obs y

/-- `F(y) = F(y⁻) + mass(y)` at the level of weights -/
theorem weight_le_eq_lt_add_eq (y : E) (obs : List (E × α)) :
    weightLE y obs = weightLT y obs + weightEq y obs := weightLE_eq_weightLT_add_weightEq y obs

/-- **pmf is the jump of the cdf**: `pmf(y) = cdf(y) − (weight strictly below y)/total`. -/
theorem pmf_is_jump (a b y : E) (obs : List (E × α)) :
    pmf (support ⊥ ⊤ a b obs) y = cdf (support ⊥ ⊤ a b obs) y - weightLT y obs / total obs :=
  pmf_eq_cdf_sub_weightLT a b y obs

/-- … and the subtracted term is the cdf at any `z < y` with no observation strictly between: `pmf(y) = cdf(y) − cdf(z)`. -/
theorem pmf_is_jump_from_left (a b z y : E) (obs : List (E × α)) (hzy : z < y)
    (hno : ∀ p ∈ obs, ¬ (z < p.1 ∧ p.1 < y)) :
    pmf (support ⊥ ⊤ a b obs) y = cdf (support ⊥ ⊤ a b obs) y - cdf (support ⊥ ⊤ a b obs) z :=
  pmf_eq_cdf_sub_cdf_left a b z y obs hzy hno

/-- non-vacuity of `cdf_step` / `pmf_is_jump_from_left`: a gap of a tied sample. -/
example : (Ext.fin 1 ≤ Ext.fin 2)
    ∧ (∀ p ∈ ([(Ext.fin 1, (1:ℚ)/2), (Ext.fin 1, 1/4), (Ext.fin 3, 1/4)] : List (Ext × ℚ)),
        ¬ (Ext.fin 1 < p.1 ∧ p.1 ≤ Ext.fin 2))
    ∧ (∀ p ∈ ([(Ext.fin 1, (1:ℚ)/2), (Ext.fin 1, 1/4), (Ext.fin 3, 1/4)] : List (Ext × ℚ)),
        ¬ (Ext.fin 1 < p.1 ∧ p.1 < Ext.fin 3)) := by
  refine ⟨by decide, ?_, ?_⟩ <;>
  · intro p hp
    simp only [List.mem_cons, List.not_mem_nil, or_false] at hp
    rcases hp with rfl | rfl | rfl <;> norm_num [Ext.lt_iff, Ext.le_iff, Ext.lt]

/-! ### mean and variance -/

/-- **unweighted**: `mean = Σ y_i / N`, `variance = Σ (y_i − mean)² / N` (`np.mean`, `np.var`). -/
theorem moments_unweighted (ys : List α) :
    moments ys none
      = (ys.sum / (ys.length : α),
         (ys.map fun y => (y - ys.sum / (ys.length : α)) * (y - ys.sum / (ys.length : α))).sum / (ys.length : α)) :=
  moments_none ys

/-- **weighted** (`ws ≥ 0`): `mean = Σ_i w_i y_i`, `variance = Σ_i w_i (y_i − mean)²` over *all* `i` — the `where=ws>0`
guard drops only zero terms. -/
theorem moments_weighted (ys ws : List α) (hw : ∀ w ∈ ws, 0 ≤ w) :
    moments ys (some ws)
      = (((ys.zip ws).map fun p => p.2 * p.1).sum,
         ((ys.zip ws).map fun p => p.2 * ((p.1 - ((ys.zip ws).map fun p => p.2 * p.1).sum)
            * (p.1 - ((ys.zip ws).map fun p => p.2 * p.1).sum))).sum) := moments_some ys ws hw

/-- the two branches of the model agree at the uniform weights `1/N` -/
theorem moments_branches_agree (ys : List α) (hne : ys ≠ []) :
    moments ys none = moments ys (some (List.replicate ys.length (1 / (ys.length : α)))) :=
  moments_none_eq_uniform ys hne

/-- **mean and variance are the moments of the step distribution** (weighted, `Σ w = 1`): `Σ_v pmf(v)·v` and
`Σ_v pmf(v)·(v − mean)²` over the merged atoms `v`, with `pmf` the constructor model's pmf (`ι` embeds the finite values
into the extended value type, e.g. `Ext.fin`). -/
theorem moments_weighted_are_step_moments (ι : α → E) (hι : Function.Injective ι) (a b : E) (ys ws : List α)
    (hw : ∀ w ∈ ws, 0 ≤ w) (htot : total (ys.zip ws) = 1) :
    moments ys (some ws)
      = (((atoms (ys.zip ws)).map fun p =>
            pmf (support ⊥ ⊤ a b ((ys.zip ws).map fun p => (ι p.1, p.2))) (ι p.1) * p.1).sum,
         ((atoms (ys.zip ws)).map fun p =>
            pmf (support ⊥ ⊤ a b ((ys.zip ws).map fun p => (ι p.1, p.2))) (ι p.1)
              * ((p.1 - (moments ys (some ws)).1) * (p.1 - (moments ys (some ws)).1))).sum) :=
  moments_some_eq_step ι hι a b ys ws hw htot

/-- the same for `ws = None` (each observation enters the constructor with weight 1, as in the driver). -/
theorem moments_unweighted_are_step_moments (ι : α → E) (hι : Function.Injective ι) (a b : E) (ys : List α) :
    moments ys none
      = (((atoms (ys.map fun y => (y, (1 : α)))).map fun p =>
            pmf (support ⊥ ⊤ a b (ys.map fun y => (ι y, (1 : α)))) (ι p.1) * p.1).sum,
         ((atoms (ys.map fun y => (y, (1 : α)))).map fun p =>
            pmf (support ⊥ ⊤ a b (ys.map fun y => (ι y, (1 : α)))) (ι p.1)
              * ((p.1 - (moments ys none).1) * (p.1 - (moments ys none).1))).sum) :=
  moments_none_eq_step ι hι a b ys

/-- non-vacuity of the weighted-moment theorems: tied values, a zero weight, weights summing to 1; and `Ext.fin` is an
admissible embedding. -/
example : (∀ w ∈ ([(1:ℚ)/2, 1/4, 0, 1/4] : List ℚ), 0 ≤ w)
    ∧ total (([3, 3, 7, -1] : List ℚ).zip [(1:ℚ)/2, 1/4, 0, 1/4]) = 1
    ∧ Function.Injective Ext.fin := by
  refine ⟨?_, by norm_num [total], fun p q h => by injection h⟩
  intro w hw
  simp only [List.mem_cons, List.not_mem_nil, or_false] at hw
  rcases hw with rfl | rfl | rfl | rfl <;> norm_num

/-! ### the same statements about the terms the driver evaluates -/

theorem cdf_driver (a b y : Ext) (obs : List (Ext × Rat)) :
    cdf (support Ext.negInf Ext.posInf a b obs) y = weightLE y obs / total obs :=
  cdf_support (E := Ext) (α := Rat) a b y obs

theorem pmf_driver (a b y : Ext) (obs : List (Ext × Rat)) :
    pmf (support Ext.negInf Ext.posInf a b obs) y = weightEq y obs / total obs :=
  pmf_support (E := Ext) (α := Rat) a b y obs

theorem ppf_driver (a b y : Ext) (obs : List (Ext × Rat)) (hn : NonNeg obs) (htot : 0 < total obs)
    (q : Rat) (hq0 : 0 < q) (hq1 : q ≤ 1) (hay : a ≤ y) :
    ppf a (support Ext.negInf Ext.posInf a b obs) q ≤ y
      ↔ q ≤ cdf (support Ext.negInf Ext.posInf a b obs) y :=
  ppf_le_iff (E := Ext) (α := Rat) a b y obs hn htot q hq0 hq1 hay

theorem ppf_zero_driver (a b : Ext) (obs : List (Ext × Rat)) (hn : NonNeg obs) :
    ppf a (support Ext.negInf Ext.posInf a b obs) 0 = a :=
  Opda.Emp.ppf_zero (E := Ext) (α := Rat) a b obs hn

theorem ppf_one_driver (a b : Ext) (obs : List (Ext × Rat)) (hn : NonNeg obs) (htot : 0 < total obs) :
    cdf (support Ext.negInf Ext.posInf a b obs) (ppf a (support Ext.negInf Ext.posInf a b obs) 1) = 1
      ∧ ∀ y, a ≤ y → cdf (support Ext.negInf Ext.posInf a b obs) y = 1
          → ppf a (support Ext.negInf Ext.posInf a b obs) 1 ≤ y :=
  ppf_one_least (E := Ext) (α := Rat) a b obs hn htot

end Opda.Props.C03

#opda_audit Opda.Props.C03
