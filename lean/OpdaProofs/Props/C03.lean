import OpdaProofs.Audit
import OpdaProofs.Emp
import OpdaProofs.ExtInst
import OpdaProofs.EmpMore
/-!
# C03 — EmpiricalDistribution pmf/cdf/ppf are the exact weighted step distribution

Property theorems only (helper lemmas live in `OpdaProofs/Emp.lean`).  The generic statements hold
for values in *any* linear order with ⊥/⊤ and weights in *any* linearly ordered field; the `_driver`
corollaries restate them for the very terms the executable model evaluates (`Ext` values, `Rat`
weights, `Ext.negInf`/`Ext.posInf` as the padding atoms), so that what the correspondence check
runs is what the theorems are about.
-/
namespace Opda.Props.C03
open Opda.Emp Opda.Wire

variable {E α : Type} [LinearOrder E] [OrderBot E] [OrderTop E]
  [Field α] [LinearOrder α] [IsStrictOrderedRing α]

/-- cdf(y) = total weight of observations ≤ y (normalised), for every observation list (ties, zero
weights, infinite values), every bound pair, every query. -/
theorem cdf_eq_weight_le (a b y : E) (obs : List (E × α)) :
    cdf (support ⊥ ⊤ a b obs) y = weightLE y obs / total obs := cdf_support a b y obs

/-- pmf(y) = total weight of observations equal to y (normalised). -/
theorem pmf_eq_weight_eq (a b y : E) (obs : List (E × α)) :
    pmf (support ⊥ ⊤ a b obs) y = weightEq y obs / total obs := pmf_support a b y obs

/-- Galois law of the generalised inverse restricted to the support: for `0 < q ≤ 1`, `y ≥ a`,
`ppf q ≤ y ↔ q ≤ cdf y`. -/
theorem ppf_galois (a b y : E) (obs : List (E × α)) (hn : NonNeg obs) (htot : 0 < total obs)
    (q : α) (hq0 : 0 < q) (hq1 : q ≤ 1) (hay : a ≤ y) :
    ppf a (support ⊥ ⊤ a b obs) q ≤ y ↔ q ≤ cdf (support ⊥ ⊤ a b obs) y :=
  ppf_le_iff a b y obs hn htot q hq0 hq1 hay

/-- cdf is non-decreasing, with values in `[0,1]`. -/
theorem cdf_monotone (a b : E) (obs : List (E × α)) (hn : NonNeg obs) (htot : 0 < total obs) (y y' : E) (h : y ≤ y') :
    cdf (support ⊥ ⊤ a b obs) y ≤ cdf (support ⊥ ⊤ a b obs) y' := cdf_mono a b obs hn htot y y' h

theorem cdf_in_unit_interval (a b : E) (obs : List (E × α)) (hn : NonNeg obs) (htot : 0 < total obs) (y : E) :
    0 ≤ cdf (support ⊥ ⊤ a b obs) y ∧ cdf (support ⊥ ⊤ a b obs) y ≤ 1 := cdf_range a b obs hn htot y

/-- cdf is 0 below the sample and 1 from its maximum on. -/
theorem cdf_zero_below (a b : E) (obs : List (E × α)) (y : E) (h : ∀ p ∈ obs, y < p.1) :
    cdf (support ⊥ ⊤ a b obs) y = 0 := cdf_eq_zero_of_all_gt a b obs y h

theorem cdf_one_from_max (a b : E) (obs : List (E × α)) (htot : 0 < total obs) (y : E) (h : ∀ p ∈ obs, p.1 ≤ y) :
    cdf (support ⊥ ⊤ a b obs) y = 1 := cdf_eq_one_of_all_le a b obs htot y h

/-- ppf never returns a point below the lower bound and is non-decreasing in `q`. -/
theorem ppf_ge_lower_bound (a : E) (supp : List (E × α)) (q : α) : a ≤ ppf a supp q := le_ppf a supp q

theorem ppf_monotone (a b : E) (obs : List (E × α)) (hn : NonNeg obs) (htot : 0 < total obs)
    (q q' : α) (hq0 : 0 < q) (hqq : q ≤ q') (hq1 : q' ≤ 1) :
    ppf a (support ⊥ ⊤ a b obs) q ≤ ppf a (support ⊥ ⊤ a b obs) q' := ppf_mono a b obs hn htot q q' hq0 hqq hq1

/-- ppf(cdf(v)) = v at every atom `v ≥ a` where the cdf jumps (positive weight). -/
theorem ppf_cdf_at_atom (a b v : E) (obs : List (E × α)) (hn : NonNeg obs) (htot : 0 < total obs) (hav : a ≤ v)
    (hpos : 0 < cdf (support ⊥ ⊤ a b obs) v)
    (hjump : ∀ y, y < v → cdf (support ⊥ ⊤ a b obs) y < cdf (support ⊥ ⊤ a b obs) v) :
    ppf a (support ⊥ ⊤ a b obs) (cdf (support ⊥ ⊤ a b obs) v) = v := ppf_cdf_atom a b v obs hn htot hav hpos hjump

/-- non-vacuity: a tied, weighted sample with a zero weight and an infinite observation meets the hypotheses. -/
example : NonNeg ([(Ext.fin 1, (1:ℚ)/2), (Ext.fin 1, 1/4), (Ext.posInf, 0), (Ext.fin (-3), 1/4)] : List (Ext × ℚ))
    ∧ (0:ℚ) < total ([(Ext.fin 1, (1:ℚ)/2), (Ext.fin 1, 1/4), (Ext.posInf, 0), (Ext.fin (-3), 1/4)] : List (Ext × ℚ)) := by
  constructor
  · intro p hp
    simp only [List.mem_cons, List.not_mem_nil, or_false] at hp
    rcases hp with rfl | rfl | rfl | rfl <;> norm_num
  · norm_num [total]

/-! ### the same statements about the terms the driver evaluates -/

theorem cdf_driver (a b y : Ext) (obs : List (Ext × Rat)) :
    cdf (support Ext.negInf Ext.posInf a b obs) y = weightLE y obs / total obs :=
  cdf_support (E := Ext) (α := Rat) a b y obs

theorem pmf_driver (a b y : Ext) (obs : List (Ext × Rat)) :
    pmf (support Ext.negInf Ext.posInf a b obs) y = weightEq y obs / total obs :=
  pmf_support (E := Ext) (α := Rat) a b y obs

theorem ppf_driver (a b y : Ext) (obs : List (Ext × Rat)) (hn : NonNeg obs) (htot : 0 < total obs)
    (q : Rat) (hq0 : 0 < q) (hq1 : q ≤ 1) (hay : a ≤ y) :
    ppf a (support Ext.negInf Ext.posInf a b obs) q ≤ y
      ↔ q ≤ cdf (support Ext.negInf Ext.posInf a b obs) y :=
  ppf_le_iff (E := Ext) (α := Rat) a b y obs hn htot q hq0 hq1 hay

end Opda.Props.C03

#opda_audit Opda.Props.C03
