import OpdaProofs.Audit
import OpdaProofs.Emp
import OpdaProofs.ExtInst
/-!
# C03 — EmpiricalDistribution pmf/cdf/ppf are the exact weighted step distribution

Property theorems only (helper lemmas live in `OpdaProofs/Emp.lean`).  The generic statements hold
for values in *any* linear order with ⊥/⊤ and weights in *any* linearly ordered field; the `_driver`
corollaries restate them for the very terms the executable model evaluates (`Ext` values, `Rat`
weights, `Ext.negInf`/`Ext.posInf` as the padding atoms), so that what the correspondence check
runs is what the theorems are about.
-/
namespace Opda.Props.C03
open Opda.Emp Opda.Wire

variable {E α : Type} [LinearOrder E] [OrderBot E] [OrderTop E]
  [Field α] [LinearOrder α] [IsStrictOrderedRing α]

/-- cdf(y) = total weight of observations ≤ y (normalised), for every observation list (ties, zero
weights, infinite values), every bound pair, every query. -/
theorem cdf_eq_weight_le (a b y : E) (obs : List (E × α)) :
    cdf (support ⊥ ⊤ a b obs) y = weightLE y obs / total obs := cdf_support a b y obs

/-- pmf(y) = total weight of observations equal to y (normalised). -/
theorem pmf_eq_weight_eq (a b y : E) (obs : List (E × α)) :
    pmf (support ⊥ ⊤ a b obs) y = weightEq y obs / total obs := pmf_support a b y obs

/-- Galois law of the generalised inverse restricted to the support: for `0 < q ≤ 1`, `y ≥ a`,
`ppf q ≤ y ↔ q ≤ cdf y`. -/
theorem ppf_galois (a b y : E) (obs : List (E × α)) (hn : NonNeg obs) (htot : 0 < total obs)
    (q : α) (hq0 : 0 < q) (hq1 : q ≤ 1) (hay : a ≤ y) :
    ppf a (support ⊥ ⊤ a b obs) q ≤ y ↔ q ≤ cdf (support ⊥ ⊤ a b obs) y :=
  ppf_le_iff a b y obs hn htot q hq0 hq1 hay

/-! ### the same statements about the terms the driver evaluates -/

theorem cdf_driver (a b y : Ext) (obs : List (Ext × Rat)) :
    cdf (support Ext.negInf Ext.posInf a b obs) y = weightLE y obs / total obs :=
  cdf_support (E := Ext) (α := Rat) a b y obs

theorem pmf_driver (a b y : Ext) (obs : List (Ext × Rat)) :
    pmf (support Ext.negInf Ext.posInf a b obs) y = weightEq y obs / total obs :=
  pmf_support (E := Ext) (α := Rat) a b y obs

theorem ppf_driver (a b y : Ext) (obs : List (Ext × Rat)) (hn : NonNeg obs) (htot : 0 < total obs)
    (q : Rat) (hq0 : 0 < q) (hq1 : q ≤ 1) (hay : a ≤ y) :
    ppf a (support Ext.negInf Ext.posInf a b obs) q ≤ y
      ↔ q ≤ cdf (support Ext.negInf Ext.posInf a b obs) y :=
  ppf_le_iff (E := Ext) (α := Rat) a b y obs hn htot q hq0 hq1 hay

end Opda.Props.C03

#opda_audit Opda.Props.C03
