import OpdaProofs.Audit
import OpdaProofs.ExtInst
import OpdaProofs.Fit
import OpdaProofs.FitPlan
import OpdaProofs.FitInv
/-!
# C11 — `fit` is total, feasible, and invariant to order and to censored values

Property theorems only, about the executable model of `fit`'s decision logic (`OpdaModel/FitPlan.lean`,
`OpdaModel/Fit.lean`).  Black boxes (parameters of the model): scipy's optimiser, `np.round`, the factors
`w`, `v`, the raw initial estimates, the order of `sorted(...)`.

Compared only (harness/corr_C11.py), not proved: that the *returned object* is invariant (it is what the
black-box optimiser makes of invariant inputs and an equal seed); for the noisy class with the noise pinned
to 0, that the support contains the observations (it follows from the finiteness of the loss, not from the
box); float rounding.
-/
namespace Opda.Props.C11
open Opda.Fit Opda.Wire

section inv
variable {α : Type} [LinearOrder α] [Sub α] [Add α] [Mul α]

/-- **T1.** Everything handed to the optimiser — sample size and censored counts, the outcome of the
pre-loop checks, which parameters are free, the population size, and for every `convex` the four boxes,
the support edges, the bucket edges `zs` and the bucket counts `ks` — is unchanged by any permutation of
the sample (`rndOf` = `np.round` with the `decimals` computed from the observed values). -/
theorem fit_inputs_perm_invariant (zero negInf posInf : α) (rndOf : List α → α → α)
    (hr : ∀ l l' : List α, l.Perm l' → rndOf l = rndOf l') (cls : Cls) (lo hi : α) (cA cB : Cons α)
    (cC : Cons Int) (cO : Cons α) (cf : Bool) (ws : List α) (v : α) {ys ys' : List α} (h : ys.Perm ys') :
    fitInputs zero negInf posInf rndOf cls lo hi cA cB cC cO cf ws v ys
      = fitInputs zero negInf posInf rndOf cls lo hi cA cB cC cO cf ws v ys' :=
  Opda.Fit.fit_inputs_perm_invariant zero negInf posInf rndOf hr cls lo hi cA cB cC cO cf ws v h

/-- **T2.** … and by any change of censored observations that keeps each on its side of the limits. -/
theorem fit_inputs_censored_value_invariant (zero negInf posInf : α) (rndOf : List α → α → α) (cls : Cls)
    (lo hi : α) (hlh : lo < hi) (cA cB : Cons α) (cC : Cons Int) (cO : Cons α) (cf : Bool) (ws : List α) (v : α)
    {ys ys' : List α} (h : List.Forall₂ (SameSide lo hi) ys ys') :
    fitInputs zero negInf posInf rndOf cls lo hi cA cB cC cO cf ws v ys
      = fitInputs zero negInf posInf rndOf cls lo hi cA cB cC cO cf ws v ys' :=
  Opda.Fit.fit_inputs_censored_value_invariant zero negInf posInf rndOf cls lo hi hlh cA cB cC cO cf ws v h

/-- the bucket construction alone (the term the driver evaluates) does not see the order of the observations -/
theorem buckets_perm_invariant {obs obs' : List α} (h : obs.Perm obs') (e : α) (ll lu : Option α) (e' : α)
    (nl nu : Nat) :
    zsModel e ll obs lu e' = zsModel e ll obs' lu e' ∧
      ksModel? e ll obs lu e' nl nu = ksModel? e ll obs' lu e' nl nu := buckets_perm h e ll lu e' nl nu

end inv

theorem buckets_perm_invariant_driver {obs obs' : List Ext} (h : obs.Perm obs') (e : Ext) (ll lu : Option Ext)
    (e' : Ext) (nl nu : Nat) :
    zsModel e ll obs lu e' = zsModel e ll obs' lu e' ∧
      ksModel? e ll obs lu e' nl nu = ksModel? e ll obs' lu e' nl nu := buckets_perm (α := Ext) h e ll lu e' nl nu

example : List.Forall₂ (SameSide (α := Int) 2 7) [1, 5, 9, 7] [-3, 5, 100, 7] := by
  refine .cons (Or.inl ⟨by decide, by decide⟩) (.cons (Or.inr (Or.inr ⟨by decide, by decide, rfl⟩))
    (.cons (Or.inr (Or.inl ⟨by decide, by decide⟩)) (.cons (Or.inr (Or.inr ⟨by decide, by decide, rfl⟩)) .nil)))

/-! ### T3 — population size (finding F3) -/

section pop
variable {α : Type} [LinearOrder α]

/-- **T3 (noiseless class).** `len(initial_population) = |cs| · 9` if `a` or `b` is fitted, `|cs|` otherwise. -/
theorem population_size_quad (fr : Free) (hfo : fr.o = false) (ofInt : Int → α) (rawA rawB : Int → Int → α)
    (aB bB : Box α) (cs : List Int) :
    (initPopQuad fr ofInt rawA rawB aB bB cs).length = popSize .quad fr cs.length :=
  initPopQuad_length fr hfo ofInt rawA rawB aB bB cs

/-- **T3 (noisy class).** `len(initial_population) = min(90, |cs| · (7 if a, b or o is fitted else 1) ·
(4 if a or b is fitted else 1))`. -/
theorem population_size_noisy (sortByLoss : List (List α) → List (List α))
    (hsort : ∀ l, (sortByLoss l).length = l.length) (fr : Free) (ofInt : Int → α)
    (rawA rawB : Int → Nat → Int → α) (rawO : Int → Nat → α) (aB bB oB : Box α) (cs : List Int) :
    (initPopNoisy sortByLoss fr ofInt rawA rawB rawO aB bB oB cs).length = popSize .noisy fr cs.length :=
  initPopNoisy_length sortByLoss hsort fr ofInt rawA rawB rawO aB bB oB cs

end pop

/-- **T3 (F3: a defect of the code before `2124e35`, repaired in /repo — the population is now topped up to five; the
theorem says exactly where the top-up is needed).** The initial estimates number fewer than scipy's minimum of five
exactly when `a`, `b` (and `o`) are fixed and `c` is fitted over at most four values. -/
theorem population_below_scipy_minimum_iff (cls : Cls) (fr : Free) (ncs : Nat) (h1 : 1 ≤ ncs)
    (hc : fr.c = false → ncs = 1) (hq : cls = .quad → fr.o = false) :
    (0 < nBounds fr ∧ popSize cls fr ncs < scipyMinPop)
      ↔ (fr.a = false ∧ fr.b = false ∧ fr.o = false ∧ fr.c = true ∧ ncs ≤ 4) :=
  popSize_lt_min_iff cls fr ncs h1 hc hq

/-- witness: `constraints={"a": 0, "b": 1, "c": (6, 7)}` gives a population of 2 for one coordinate -/
theorem F3_witness :
    nCs (.interval 6 7) = 2 ∧ nBounds ⟨false, false, true, false⟩ = 1 ∧
      popSize .quad ⟨false, false, true, false⟩ (nCs (.interval 6 7)) = 2 ∧
      popSize .noisy ⟨false, false, true, false⟩ (nCs (.interval 6 7)) = 2 := by decide

/-! ### T4 — `ks[-2]` (finding F2) -/

section buckets
variable {E : Type} [LinearOrder E]

/-- **T4.** The positional fix-ups are defined (no `IndexError`) iff there is at least one bucket when
observations are censored below and at least two when observations are censored above. -/
theorem ks_index_defined_iff (edgeLo : E) (ll : Option E) (obs : List E) (lu : Option E) (edgeHi : E)
    (nLower nUpper : Nat) :
    (ksModel? edgeLo ll obs lu edgeHi nLower nUpper).isSome ↔
      (ll.isSome → 2 ≤ (zsModel edgeLo ll obs lu edgeHi).length) ∧
      (lu.isSome → 3 ≤ (zsModel edgeLo ll obs lu edgeHi).length) :=
  ksModel?_isSome_iff edgeLo ll obs lu edgeHi nLower nUpper

/-- under the side conditions (A), (B) of C10-T1 the fix-ups are always defined -/
theorem ks_index_defined_of_side_conditions (edgeLo : E) (ll : Option E) (obs : List E) (lu : Option E)
    (edgeHi : E) (nLower nUpper : Nat) (H : BucketHyps edgeLo ll obs lu edgeHi) :
    (ksModel? edgeLo ll obs lu edgeHi nLower nUpper).isSome := by
  rw [buckets_model_eq_spec false edgeLo ll obs lu edgeHi nLower nUpper H]; rfl

end buckets

/-- witness (F2; before `b238e9d` the code raised `IndexError` here, now `OptimizationError`): all uncensored
observations equal to the upper limit, box collapsed onto it -/
theorem F2_witness : ksModel? (E := Nat) 1 none [1, 1, 1, 1, 1] (some 1) 1 0 1 = none ∧
    ksModel? (E := Nat) 0 none [] (some 8) 8 0 2 = none := by decide

/-! ### T5 — feasibility -/

section feas
variable {α : Type} [LinearOrder α]

/-- **T5 (box ⊆ constraints).** -/
theorem box_subset_constraint (dLo dHi : α) (c : Cons α) :
    match c with
    | .absent => boxOf dLo dHi c = ⟨dLo, dHi⟩
    | .fixed v => boxOf dLo dHi c = ⟨v, v⟩
    | .interval lo hi => lo ≤ (boxOf dLo dHi c).lo ∧ (boxOf dLo dHi c).hi ≤ hi ∧
        dLo ≤ (boxOf dLo dHi c).lo ∧ (boxOf dLo dHi c).hi ≤ dHi := boxOf_subset dLo dHi c

/-- **T5 (`c` is an integer of 1..10 inside its constraint).** -/
theorem c_candidates_within (cC : Cons Int) :
    (match cC with
      | .fixed v => cBox cC = ⟨v, v⟩
      | .absent => cBox cC = ⟨1, 10⟩
      | .interval lo hi => lo ≤ (cBox cC).lo ∧ (cBox cC).hi ≤ hi ∧ 1 ≤ (cBox cC).lo ∧ (cBox cC).hi ≤ 10) ∧
    ∀ c ∈ csList cC, (cBox cC).lo ≤ c ∧ c ≤ (cBox cC).hi := ⟨cBox_within cC, csList_mem cC⟩

/-- **T5 (the support contains the data) — partial.** Proved for the noiseless class: after the pre-loop
checks, every `a` of the box is `≤` every uncensored observation, every `b` of the box is `≥`, and the box
reaches each limit beyond which observations were censored — so *any* vector the optimiser returns inside
its box has the property.  Missing: the noisy class with the noise pinned to 0, where the box of `a`, `b`
is not cut at `y_min`, `y_max` and the clause rests on the finiteness of the loss (compared by
`corr_C11.py`; it fails on the unchanged tree when an observation sits on an end of the box — finding F9). -/
theorem support_contains_observations_partial [Sub α] [Add α] [Mul α] (zero negInf posInf : α) (ys : List α)
    (lo hi : α) (cA cB cO : Cons α) (cC : Cons Int) (cFloatPair : Bool) (st : Stats α) (w v : α)
    (p : ConvexPlan α)
    (hpre : precheck zero .quad (censor ys lo hi) lo hi cA cB cO cFloatPair = .ok st)
    (hplan : planConvex zero negInf posInf .quad st (st.yMax - st.yMin) w v cA cB cC cO = .ok p) :
    (∀ y ∈ (censor ys lo hi).observed, p.aBox.hi ≤ y ∧ y ≤ p.bBox.lo) ∧
      (0 < (censor ys lo hi).nLower → p.aBox.hi ≤ lo) ∧ (0 < (censor ys lo hi).nUpper → hi ≤ p.bBox.lo) :=
  quad_box_feasible zero negInf posInf ys lo hi cA cB cO cC cFloatPair st w v p hpre hplan

end feas

/-! ### T6 — exception table -/

section exc
variable {α : Type} [LinearOrder α]

/-- **T6 (malformed arguments).** The validation prefix rejects only with `ValueError` / `TypeError`. -/
theorem validation_raises_value_or_type_error (zero one ten : α) (isInt : α → Bool) (cls : Cls) (ys : YsDesc)
    (lim : LimDesc) (items : List (ConsItem α)) (e : Exc)
    (h : validate zero one ten isInt cls ys lim items = some e) : e = .valueError ∨ e = .typeError :=
  validate_classes zero one ten isInt cls ys lim items e h

/-- **T6 (valid arguments, before the loop).** Only `ValueError` — except the `TypeError` of `range()` on a
`c` interval with float end points (finding F8). -/
theorem precheck_raises_value_error (zero : α) (cls : Cls) (c : Censored α) (lo hi : α) (cA cB cO : Cons α)
    (cFloatPair : Bool) (e : Exc) (h : precheck zero cls c lo hi cA cB cO cFloatPair = .error e) :
    e = .valueError ∨ (e = .rangeTypeError ∧ cFloatPair = true) :=
  precheck_classes zero cls c lo hi cA cB cO cFloatPair e h

/-- **T6 (box construction).** Only `OptimizationError`. -/
theorem box_raises_optimization_error [Sub α] [Add α] [Mul α] (zero negInf posInf : α) (cls : Cls)
    (st : Stats α) (range w v : α) (cA cB : Cons α) (cC : Cons Int) (cO : Cons α) (e : Exc)
    (h : planConvex zero negInf posInf cls st range w v cA cB cC cO = .error e) : e = .optimizationError :=
  planConvex_classes zero negInf posInf cls st range w v cA cB cC cO e h

/-- **T6 (the loop and after).** Beyond `OptimizationError` the loop can only end in an exception of the
box construction, in `IndexError` when some pass ran the bucket fix-ups out of range (F2), or in scipy's
`ValueError` when some pass called the optimiser with fewer than five members (F3).  The last two are the
model's record of where the code before `b238e9d` / `2124e35` leaked; the correspondence check accepts only a
conforming exception (resp. a returned instance) of the repaired code there and reports the old outcome. -/
theorem loop_exception_table {β : Type} [LinearOrder β] (inf : β) (isFinite : β → Bool) (passes : List (Pass β))
    (e : Exc) (h : fitOutcome inf isFinite passes = .error e) :
    e = .optimizationError ∨ (∃ p ∈ passes, p.planErr = some e) ∨
      (e = .indexError ∧ ∃ p ∈ passes, p.bucketsOk = false) ∨
      (e = .scipyValueError ∧ ∃ p ∈ passes, 0 < p.nBounds ∧ p.popSize < scipyMinPop) :=
  fitOutcome_classes inf isFinite passes e h

end exc

end Opda.Props.C11

#opda_audit Opda.Props.C11
