import OpdaProofs.Audit
import OpdaProofs.RngHistory
/-!
# C14 — randomised results are reproducible, isolated and history-independent

Property theorems only (lemmas in `OpdaProofs/Rng.lean`, `OpdaProofs/RngHistory.lean`; the state machine is
`OpdaModel/Rng.lean`, the very term the driver op `rng.run` executes).  All statements are universal over
histories (`List Op` of any length), over the uninterpreted consumption `cost` of the data-dependent
generator requests, over the entropy seed of the initial global generator, numpy's legacy state and the cpu
count.  Values are terms over the uninterpreted `stream seed pos k`, so an equality proved here holds under
every interpretation of the stream; the correspondence check compares exactly these equalities with bytes.

Two machines share one definition: `Policy.asCode` memoises the ld-band table on
`(n, confidence, kind, generator object, n_jobs)` exactly as `functools.cache` on `_ld_band_weights` does;
`Policy.spec` recomputes the randomised table from the generator on every call.  The property, at full
strength, is `HistoryIndependent`: it is a theorem for `spec` (`history_independent_spec`), it is **false**
for `asCode` (`history_independent_full_is_false`, finding F1), and what does hold for `asCode` is
`history_independent_partial`.
-/
namespace Opda.Props.C14
open Opda.Rng

/-- the process after a history, started as a new process (global generator seeded from OS entropy `seed0`) -/
abbrev after (P : Policy) (cost : Cost) (seed0 legacy cpu : Nat) (h : List Op) : State :=
  exec P cost (init seed0 legacy cpu) h

/-- **The property at full strength**: after *every* history, *every* call returns the value, and leaves the
generators / global binding / legacy state, that the same call produces in a fresh process whose generator
objects are in the same states. -/
def HistoryIndependent (P : Policy) : Prop :=
  ∀ (cost : Cost) (seed0 legacy cpu : Nat) (h : List Op) (o : Op),
    observe P cost (after P cost seed0 legacy cpu h) o = observe P cost (fresh (after P cost seed0 legacy cpu h)) o

/-- full strength holds for the specification machine (randomised tables never memoised) -/
theorem history_independent_spec : HistoryIndependent .spec :=
  fun cost seed0 legacy cpu h o =>
    observe_fresh .spec cost (inv_reachable .spec cost seed0 legacy cpu h) o (fun e => nomatch e)

/-- **partial** (what is missing: the case where the history already contains an ld-band call with the same
`(n, confidence, kind, generator object, n_jobs)`): for the repository's machine, after every history, every
call that does not repeat such a key behaves as in a fresh process. -/
theorem history_independent_partial (cost : Cost) (seed0 legacy cpu : Nat) (h : List Op) (o : Op)
    (hno : repeatsLdKey (after .asCode cost seed0 legacy cpu h) o = false) :
    observe .asCode cost (after .asCode cost seed0 legacy cpu h) o
      = observe .asCode cost (fresh (after .asCode cost seed0 legacy cpu h)) o :=
  observe_fresh .asCode cost (inv_reachable .asCode cost seed0 legacy cpu h) o (fun _ => hno)

/-- **finding F1**: without the proviso the statement is false for the repository's machine. Witness:
`g = default_rng(0)`, two identical `confidence_bands(…, generator=g, method="ld_equal_tailed")` calls. -/
theorem history_independent_full_is_false : ¬ HistoryIndependent .asCode :=
  fun H => f1_observe_ne (H nominalCost 12345 0 16 f1History f1Call)

/-- the witness, spelled out: the second call is a cache hit, returns the first call's table and leaves `g`
where it was … -/
theorem f1_second_call_is_a_hit :
    (step .asCode nominalCost f1State f1Call).2.hit = some true
      ∧ (step .asCode nominalCost f1State f1Call).2.value = .bands 0 (.ldTable .equalTailed 3 0 0 0)
      ∧ (step .asCode nominalCost f1State f1Call).1.view = f1State.view := f1_second_call

/-- … while a fresh process with its generator in `g`'s current state computes from the *next* 300 000
uniforms and advances the generator; -/
theorem f1_fresh_process_differs :
    (step .asCode nominalCost (fresh f1State) f1Call).2.hit = some false
      ∧ (step .asCode nominalCost (fresh f1State) f1Call).2.value = .bands 0 (.ldTable .equalTailed 3 0 0 300000)
      ∧ (step .asCode nominalCost (fresh f1State) f1Call).1.view ≠ f1State.view := f1_fresh_call

/-- the same with the global generator: `set_seed(0)` followed by two default-generator calls; and both
witnesses satisfy the predicate that keys the finding -/
theorem f1_global_variant :
    observe .asCode nominalCost f1StateGlobal f1CallGlobal
      ≠ observe .asCode nominalCost (fresh f1StateGlobal) f1CallGlobal := f1_observe_ne_global

theorem f1_witnesses_repeat_a_key :
    repeatsLdKey f1State f1Call = true ∧ repeatsLdKey f1StateGlobal f1CallGlobal = true := f1_is_repeat

/-- the repository's machine *is* the specification machine on every history in which no ld key repeats:
same states, same outputs, call by call -/
theorem code_refines_spec_without_repeats (cost : Cost) (seed0 legacy cpu : Nat) (h : List Op)
    (hn : noRepeat .asCode cost (init seed0 legacy cpu) h = true) :
    exec .asCode cost (init seed0 legacy cpu) h = exec .spec cost (init seed0 legacy cpu) h
      ∧ outs .asCode cost (init seed0 legacy cpu) h = outs .spec cost (init seed0 legacy cpu) h :=
  run_code_eq_spec cost (inv_init seed0 legacy cpu) h hn

/-- **reproducibility through `set_seed`** (full strength, both machines): after *any* two histories, re-setting
the global seed to the same value and making the same default-generator call returns the same value and leaves
the global generator in the same state — `set_seed` rebinds `DEFAULT_GENERATOR` to a new object, for which
nothing can be memoised. -/
theorem setSeed_reproducible (P : Policy) (cost : Cost) (seed0 seed0' legacy legacy' cpu : Nat) (h h' : List Op)
    (z : Nat) (o : Op) (ho : o.usesGlobal = true) :
    (step P cost (step P cost (after P cost seed0 legacy cpu h) (.setSeed z)).1 o).2.value
        = (step P cost (step P cost (after P cost seed0' legacy' cpu h') (.setSeed z)).1 o).2.value
      ∧ (step P cost (step P cost (after P cost seed0 legacy cpu h) (.setSeed z)).1 o).1.globalGen
        = (step P cost (step P cost (after P cost seed0' legacy' cpu h') (.setSeed z)).1 o).1.globalGen :=
  Opda.Rng.setSeed_reproducible P cost (inv_reachable P cost seed0 legacy cpu h)
    (inv_reachable P cost seed0' legacy' cpu h')
    ((legacy_exec P cost (init seed0 legacy cpu) h).2.trans (legacy_exec P cost (init seed0' legacy' cpu) h').2.symm) z o ho

/-- **isolation**: a call given an explicit generator other than the global object (and `default_rng`,
and overwriting returned arrays) leaves the global binding, the global generator's state and numpy's legacy
state untouched — one call … -/
theorem explicit_isolated (P : Policy) (cost : Cost) (seed0 legacy cpu : Nat) (h : List Op) (o : Op)
    (ho : o.avoids (after P cost seed0 legacy cpu h).global = true) :
    Untouched (after P cost seed0 legacy cpu h) (step P cost (after P cost seed0 legacy cpu h) o).1 :=
  untouched_step P cost (inv_reachable P cost seed0 legacy cpu h) o ho

/-- … and any number of them -/
theorem explicit_isolated_history (P : Policy) (cost : Cost) (seed0 legacy cpu : Nat) (h t : List Op)
    (ht : ∀ o ∈ t, o.avoids (after P cost seed0 legacy cpu h).global = true) :
    Untouched (after P cost seed0 legacy cpu h) (exec P cost (after P cost seed0 legacy cpu h) t) :=
  untouched_exec P cost (inv_reachable P cost seed0 legacy cpu h) t ht

/-- no history touches numpy's legacy global state -/
theorem legacy_untouched (P : Policy) (cost : Cost) (seed0 legacy cpu : Nat) (h : List Op) :
    (after P cost seed0 legacy cpu h).legacy = legacy :=
  (legacy_exec P cost (init seed0 legacy cpu) h).1

/-- **`n_jobs`** enters nothing but the cache key: dkw/ks calls do not depend on it at all … -/
theorem njobs_irrelevant_det (P : Policy) (cost : Cost) (s : State) (dm : DetMethod) (n conf ys : Nat)
    (gen : Option GenRef) (j j' : Option Nat) :
    step P cost s (.bands (.det dm) n conf ys gen j) = step P cost s (.bands (.det dm) n conf ys gen j') :=
  Opda.Rng.njobs_irrelevant_det P cost s dm n conf ys gen j j'

/-- … for the specification machine an ld call returns the same value and leaves the same generators for
every `n_jobs`, after every history … -/
theorem njobs_irrelevant_spec (cost : Cost) (seed0 legacy cpu : Nat) (h : List Op) (kind : Kind) (n conf ys : Nat)
    (gen : Option GenRef) (j j' : Option Nat) :
    observe .spec cost (after .spec cost seed0 legacy cpu h) (.bands (.ld kind) n conf ys gen j)
      = observe .spec cost (after .spec cost seed0 legacy cpu h) (.bands (.ld kind) n conf ys gen j') :=
  njobs_irrelevant_of_inv .spec cost (inv_reachable .spec cost seed0 legacy cpu h) kind n conf ys gen j j'
    (fun e => nomatch e) (fun e => nomatch e)

/-- … and **partial** for the repository's machine (missing: histories that already used one of the two
keys — F1 again, since `n_jobs` is part of the key) -/
theorem njobs_irrelevant_partial (cost : Cost) (seed0 legacy cpu : Nat) (h : List Op) (kind : Kind) (n conf ys : Nat)
    (gen : Option GenRef) (j j' : Option Nat)
    (h1 : repeatsLdKey (after .asCode cost seed0 legacy cpu h) (.bands (.ld kind) n conf ys gen j) = false)
    (h2 : repeatsLdKey (after .asCode cost seed0 legacy cpu h) (.bands (.ld kind) n conf ys gen j') = false) :
    observe .asCode cost (after .asCode cost seed0 legacy cpu h) (.bands (.ld kind) n conf ys gen j)
      = observe .asCode cost (after .asCode cost seed0 legacy cpu h) (.bands (.ld kind) n conf ys gen j') :=
  njobs_irrelevant_of_inv .asCode cost (inv_reachable .asCode cost seed0 legacy cpu h) kind n conf ys gen j j'
    (fun _ => h1) (fun _ => h2)

/-- **returned arrays are copies**: no array handed to a caller is a cache cell (invariant of every reachable
state) … -/
theorem returned_never_alias_cache (P : Policy) (cost : Cost) (seed0 legacy cpu : Nat) (h : List Op)
    (key : Key) (cell : Handle) (hc : (key, cell) ∈ (after P cost seed0 legacy cpu h).cache) :
    cell ∉ (after P cost seed0 legacy cpu h).returned :=
  ((inv_reachable P cost seed0 legacy cpu h).cacheFresh key cell hc).2

/-- … hence overwriting a returned array changes no later output (values, handles, hits, step counts) and no
later generator state, whatever follows -/
theorem returned_fresh (P : Policy) (cost : Cost) (seed0 legacy cpu : Nat) (h t : List Op) (i v : Nat) :
    outs P cost (after P cost seed0 legacy cpu h) t
        = outs P cost (step P cost (after P cost seed0 legacy cpu h) (.mutateReturned i v)).1 t
      ∧ (exec P cost (after P cost seed0 legacy cpu h) t).view
        = (exec P cost (step P cost (after P cost seed0 legacy cpu h) (.mutateReturned i v)).1 t).view :=
  (sameOffReturned_mutate P cost _ i v).outs (inv_reachable P cost seed0 legacy cpu h) P cost t

/-! ### non-vacuity -/

/-- the proviso of `history_independent_partial` is satisfiable on a history that *does* contain ld calls
(different `n_jobs`, hence a different key) -/
example : repeatsLdKey f1State (.bands (.ld .equalTailed) 3 0 0 (some 1) (some 2)) = false := by decide

/-- the hypothesis of `explicit_isolated` is satisfiable -/
example : f1Call.avoids f1State.global = true := by decide

/-- `noRepeat` holds of a history with two ld calls on different generator objects -/
example : noRepeat .asCode nominalCost (init 1 0 16)
    [.newGen 0, .bands (.ld .equalTailed) 3 0 0 (some 1) (some 1), .newGen 0,
     .bands (.ld .equalTailed) 3 0 0 (some 2) (some 1)] = true := by decide

end Opda.Props.C14

#opda_audit Opda.Props.C14
