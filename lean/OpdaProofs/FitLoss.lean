import OpdaModel.FitPlan
import Mathlib.Analysis.SpecialFunctions.Log.Basic
import Mathlib.Tactic

/-!
Theorems about the executable loss of `OpdaModel/FitPlan.lean` (`Opda.Fit.loss`, `sumWhere`, `lossTerm`,
`diffs`, `sortList`), instantiated at `ℝ` with `ofNat := Nat.cast` and `log := Real.log`.

* `loss_sumWhere_acc`       : the accumulator of `sumWhere` is additive (any division ring, any `ofNat`/`log`).
* `loss_eq_grouped_loglik`  : `loss = -(1/(n+1)) · Σ k·log d + lossConst n ks` (grouped multinomial log-likelihood
                              of the spacings `d`, up to a constant of `n`, `ks` alone).
* `loss_eq_kl`              : `loss = Σ q·log(q/d)`, `q = k/(n+1)` (unconditional: Mathlib's `log` is even, `x/0 = 0`).
* `loss_ge_one_sub_sum`, `loss_nonneg` : Gibbs' inequality.
* `loss_eq_zero_iff`        : the equality case, under `Σ d = 1`; `loss_eq_zero_of_forall` is its unconditional `←`.
* `sortList_of_sorted`, `sortList_perm`, `sortList_sorted` : the model's insertion sort is a sort, and the
                              identity on a monotone list (linear order, any `DecidableLT` instance).
* every statement is given for the spacings (`lossZ n ks ds`, which is `loss` with `ks.zip ds` in place of
  `ks.zip (diffs ps)`) and, suffixed `_ps`, for the model's `loss` on `ps` itself (`lossR`);
  `lossR_eq_lossZ` (by `rfl`) and `lossZ_eq_lossR_partialSums` show the two forms are interchangeable.

All items requested are proved in full; nothing is `_partial`.
-/

namespace Opda.Fit

/-! ### the accumulator of `sumWhere` -/

theorem loss_sumWhere_acc {α : Type} [DivisionRing α] (ofNat : Nat → α) (log : α → α) (n : Nat)
    (l : List (Nat × α)) (acc : α) :
    sumWhere ofNat log n l acc = acc + sumWhere ofNat log n l 0 := by
  induction l generalizing acc with
  | nil => simp [sumWhere]
  | cons p rest ih =>
    obtain ⟨k, d⟩ := p
    simp only [sumWhere]
    rw [ih, ih (if 0 < k then _ else _)]
    split_ifs <;> simp [add_assoc]

/-! ### the instance at `ℝ` -/

/-- the model's `loss` at `ℝ` -/
noncomputable abbrev lossR (n : Nat) (ks : List Nat) (ps : List ℝ) : ℝ :=
  loss (fun k : Nat => (k : ℝ)) Real.log n ks ps

/-- the body of the model's `loss` at `ℝ`, as a function of the spacings `ds = diffs ps` -/
noncomputable def lossZ (n : Nat) (ks : List Nat) (ds : List ℝ) : ℝ :=
  - sumWhere (fun k : Nat => (k : ℝ)) Real.log n (ks.zip ds) ((fun k : Nat => (k : ℝ)) 0)

theorem lossR_eq_lossZ (n : Nat) (ks : List Nat) (ps : List ℝ) :
    lossR n ks ps = lossZ n ks (diffs ps) := rfl

/-- `Σ k · log d` over the buckets (a bucket with `k = 0` contributes `0`) -/
noncomputable def groupedLogLik (ks : List Nat) (ds : List ℝ) : ℝ :=
  ((ks.zip ds).map fun p : Nat × ℝ => (p.1 : ℝ) * Real.log p.2).sum

/-- the part of the loss that depends on `n` and `ks` only (a bucket with `k = 0` contributes `0`) -/
noncomputable def lossConst (n : Nat) (ks : List Nat) : ℝ :=
  -(1 / ((n : ℝ) + 1)) * (ks.map fun k : Nat => (k : ℝ) * Real.log (((n : ℝ) + 1) / (k : ℝ))).sum

/-- `KL(q ‖ d)` with `q = k / (n + 1)` (a bucket with `k = 0` contributes `0`) -/
noncomputable def klSum (n : Nat) (ks : List Nat) (ds : List ℝ) : ℝ :=
  ((ks.zip ds).map fun p : Nat × ℝ => ((p.1 : ℝ) / ((n : ℝ) + 1)) * Real.log (((p.1 : ℝ) / ((n : ℝ) + 1)) / p.2)).sum

/-- what one bucket adds to the accumulator of `sumWhere` -/
noncomputable def bucket (n : Nat) (p : Nat × ℝ) : ℝ :=
  if 0 < p.1 then lossTerm (fun k : Nat => (k : ℝ)) Real.log n p.1 p.2 else 0

theorem sumWhere_eq_sum (n : Nat) (l : List (Nat × ℝ)) :
    sumWhere (fun k : Nat => (k : ℝ)) Real.log n l 0 = (l.map (bucket n)).sum := by
  induction l with
  | nil => simp [sumWhere]
  | cons p rest ih =>
    obtain ⟨k, d⟩ := p
    simp only [sumWhere, List.map_cons, List.sum_cons]
    rw [loss_sumWhere_acc, ih]
    by_cases hk : 0 < k <;> simp [bucket, hk]

theorem lossZ_eq_sum (n : Nat) (ks : List Nat) (ds : List ℝ) :
    lossZ n ks ds = - ((ks.zip ds).map (bucket n)).sum := by
  unfold lossZ
  rw [show ((fun k : Nat => (k : ℝ)) 0) = 0 from Nat.cast_zero, sumWhere_eq_sum]

/-! ### one bucket -/

theorem bucket_eq_loglik (n k : Nat) (d : ℝ) (h : 0 < k → 0 < d) :
    bucket n (k, d) = (1 / ((n : ℝ) + 1)) * ((k : ℝ) * Real.log d + (k : ℝ) * Real.log (((n : ℝ) + 1) / k)) := by
  by_cases hk : 0 < k
  · have hd := h hk
    have hk' : (0 : ℝ) < k := by exact_mod_cast hk
    have hN : (0 : ℝ) < (n : ℝ) + 1 := by positivity
    simp only [bucket, hk, if_true, lossTerm]
    have e : d * ((n + 1 : ℕ) : ℝ) / (k : ℝ) = d * (((n : ℝ) + 1) / k) := by push_cast; ring
    rw [e, Real.log_mul hd.ne' (div_pos hN hk').ne']
    push_cast
    field_simp
  · have : k = 0 := by omega
    subst this
    simp [bucket]

theorem bucket_eq_kl (n k : Nat) (d : ℝ) :
    bucket n (k, d) = -(((k : ℝ) / ((n : ℝ) + 1)) * Real.log (((k : ℝ) / ((n : ℝ) + 1)) / d)) := by
  by_cases hk : 0 < k
  · have hN : (0 : ℝ) < (n : ℝ) + 1 := by positivity
    simp only [bucket, hk, if_true, lossTerm]
    have e : (k : ℝ) / ((n : ℝ) + 1) / d = (d * ((n + 1 : ℕ) : ℝ) / (k : ℝ))⁻¹ := by
      rw [inv_div, div_div, mul_comm]; push_cast; ring
    rw [e, Real.log_inv]
    push_cast
    field_simp
  · have : k = 0 := by omega
    subst this
    simp [bucket]

theorem bucket_le (n k : Nat) (d : ℝ) (hd0 : 0 ≤ d) (h : 0 < k → 0 < d) :
    bucket n (k, d) ≤ d - (k : ℝ) / ((n : ℝ) + 1) := by
  by_cases hk : 0 < k
  · have hd := h hk
    have hk' : (0 : ℝ) < k := by exact_mod_cast hk
    have hN : (0 : ℝ) < (n : ℝ) + 1 := by positivity
    simp only [bucket, hk, if_true, lossTerm]
    push_cast
    have hx : 0 < d * ((n : ℝ) + 1) / k := by positivity
    have hlog := Real.log_le_sub_one_of_pos hx
    have : (k : ℝ) * Real.log (d * ((n : ℝ) + 1) / k) ≤ d * ((n : ℝ) + 1) - k := by
      calc (k : ℝ) * Real.log (d * ((n : ℝ) + 1) / k) ≤ (k : ℝ) * (d * ((n : ℝ) + 1) / k - 1) :=
            mul_le_mul_of_nonneg_left hlog hk'.le
        _ = d * ((n : ℝ) + 1) - k := by field_simp
    calc (k : ℝ) * Real.log (d * ((n : ℝ) + 1) / k) / ((n : ℝ) + 1)
          ≤ (d * ((n : ℝ) + 1) - k) / ((n : ℝ) + 1) := div_le_div_of_nonneg_right this hN.le
      _ = d - (k : ℝ) / ((n : ℝ) + 1) := by field_simp
  · have : k = 0 := by omega
    subst this
    simpa [bucket] using hd0

theorem bucket_eq_iff (n k : Nat) (d : ℝ) (h : 0 < k → 0 < d) :
    bucket n (k, d) = d - (k : ℝ) / ((n : ℝ) + 1) ↔ d = (k : ℝ) / ((n : ℝ) + 1) := by
  by_cases hk : 0 < k
  · have hd := h hk
    have hk' : (0 : ℝ) < k := by exact_mod_cast hk
    have hN : (0 : ℝ) < (n : ℝ) + 1 := by positivity
    simp only [bucket, hk, if_true, lossTerm]
    push_cast
    have hx : 0 < d * ((n : ℝ) + 1) / k := by positivity
    constructor
    · intro heq
      by_contra hne
      have hx1 : d * ((n : ℝ) + 1) / k ≠ 1 := by
        intro h1
        apply hne
        field_simp at h1 ⊢
        linarith
      have hlt := Real.log_lt_sub_one_of_pos hx hx1
      have : (k : ℝ) * Real.log (d * ((n : ℝ) + 1) / k) < d * ((n : ℝ) + 1) - k := by
        calc (k : ℝ) * Real.log (d * ((n : ℝ) + 1) / k) < (k : ℝ) * (d * ((n : ℝ) + 1) / k - 1) :=
              mul_lt_mul_of_pos_left hlt hk'
          _ = d * ((n : ℝ) + 1) - k := by field_simp
      have h2 : (k : ℝ) * Real.log (d * ((n : ℝ) + 1) / k) / ((n : ℝ) + 1)
          < d - (k : ℝ) / ((n : ℝ) + 1) := by
        calc (k : ℝ) * Real.log (d * ((n : ℝ) + 1) / k) / ((n : ℝ) + 1)
              < (d * ((n : ℝ) + 1) - k) / ((n : ℝ) + 1) := div_lt_div_of_pos_right this hN
          _ = d - (k : ℝ) / ((n : ℝ) + 1) := by field_simp
      exact h2.ne heq
    · intro hdk
      have : d * ((n : ℝ) + 1) / k = 1 := by rw [hdk]; field_simp
      rw [this, Real.log_one, hdk]
      simp
  · have : k = 0 := by omega
    subst this
    simp [bucket, eq_comm]

/-! ### sums over lists -/

theorem sum_map_eq_iff_of_le {β : Type} (f g : β → ℝ) (l : List β) (h : ∀ p ∈ l, f p ≤ g p) :
    (l.map f).sum = (l.map g).sum ↔ ∀ p ∈ l, f p = g p := by
  induction l with
  | nil => simp
  | cons a rest ih =>
    have ha : f a ≤ g a := h a (by simp)
    have hrest : ∀ p ∈ rest, f p ≤ g p := fun p hp => h p (by simp [hp])
    have hle : (rest.map f).sum ≤ (rest.map g).sum := List.sum_le_sum hrest
    simp only [List.map_cons, List.sum_cons, List.forall_mem_cons]
    rw [← ih hrest]
    constructor
    · intro heq
      constructor <;> linarith
    · rintro ⟨h1, h2⟩
      rw [h1, h2]

theorem sum_snd_sub_fst (N : ℝ) (l : List (Nat × ℝ)) :
    (l.map fun p => p.2 - (p.1 : ℝ) / N).sum
      = (l.map Prod.snd).sum - (((l.map Prod.fst).sum : ℕ) : ℝ) / N := by
  induction l with
  | nil => simp
  | cons a rest ih =>
    simp only [List.map_cons, List.sum_cons, ih]
    push_cast
    ring

theorem sum_zip_sub (n : Nat) (ks : List Nat) (ds : List ℝ) (hlen : ds.length = ks.length) :
    ((ks.zip ds).map fun p => p.2 - (p.1 : ℝ) / ((n : ℝ) + 1)).sum
      = ds.sum - ((ks.sum : ℕ) : ℝ) / ((n : ℝ) + 1) := by
  rw [sum_snd_sub_fst, List.map_fst_zip (by omega), List.map_snd_zip (by omega)]

/-! ### 1. the loss is a grouped log-likelihood up to a constant -/

theorem loss_eq_grouped_loglik (n : Nat) (ks : List Nat) (ds : List ℝ) (hlen : ds.length = ks.length)
    (hpos : ∀ p ∈ ks.zip ds, 0 < p.1 → 0 < p.2) :
    lossZ n ks ds = -(1 / ((n : ℝ) + 1)) * groupedLogLik ks ds + lossConst n ks := by
  rw [lossZ_eq_sum, groupedLogLik, lossConst]
  have hks : (ks.map fun k : Nat => (k : ℝ) * Real.log (((n : ℝ) + 1) / (k : ℝ))).sum
      = ((ks.zip ds).map fun p : Nat × ℝ => (p.1 : ℝ) * Real.log (((n : ℝ) + 1) / (p.1 : ℝ))).sum := by
    conv_lhs => rw [← List.map_fst_zip (l₁ := ks) (l₂ := ds) (by omega)]
    rw [List.map_map]
    rfl
  rw [hks]
  generalize ks.zip ds = l at hpos ⊢
  induction l with
  | nil => simp
  | cons a rest ih =>
    obtain ⟨k, d⟩ := a
    have ih' := ih (fun p hp => hpos p (by simp [hp]))
    have hb := bucket_eq_loglik n k d (hpos (k, d) (by simp))
    simp only [List.map_cons, List.sum_cons] at ih' ⊢
    rw [hb]
    linarith

/-- the same for the model's `loss` on the cdf values `ps` (`ks` has one entry per spacing) -/
theorem loss_eq_grouped_loglik_ps (n : Nat) (ks : List Nat) (ps : List ℝ)
    (hlen : (diffs ps).length = ks.length)
    (hpos : ∀ p ∈ ks.zip (diffs ps), 0 < p.1 → 0 < p.2) :
    loss (fun k : Nat => (k : ℝ)) Real.log n ks ps
      = -(1 / ((n : ℝ) + 1)) * groupedLogLik ks (diffs ps) + lossConst n ks :=
  loss_eq_grouped_loglik n ks (diffs ps) hlen hpos

/-! ### 2. Kullback–Leibler form, Gibbs' inequality, equality case -/

theorem loss_eq_kl (n : Nat) (ks : List Nat) (ds : List ℝ) : lossZ n ks ds = klSum n ks ds := by
  rw [lossZ_eq_sum, klSum]
  generalize ks.zip ds = l
  induction l with
  | nil => simp
  | cons a rest ih =>
    obtain ⟨k, d⟩ := a
    simp only [List.map_cons, List.sum_cons] at ih ⊢
    rw [bucket_eq_kl]
    linarith

theorem loss_eq_kl_ps (n : Nat) (ks : List Nat) (ps : List ℝ) :
    loss (fun k : Nat => (k : ℝ)) Real.log n ks ps = klSum n ks (diffs ps) :=
  loss_eq_kl n ks (diffs ps)

theorem zip_bucket_le (n : Nat) (ks : List Nat) (ds : List ℝ) (hnn : ∀ d ∈ ds, 0 ≤ d)
    (hpos : ∀ p ∈ ks.zip ds, 0 < p.1 → 0 < p.2) :
    ∀ p ∈ ks.zip ds, bucket n p ≤ p.2 - (p.1 : ℝ) / ((n : ℝ) + 1) := by
  rintro ⟨k, d⟩ hp
  exact bucket_le n k d (hnn d (List.of_mem_zip hp).2) (hpos (k, d) hp)

/-- Gibbs, quantitative form: the loss is at least the mass the spacings leave out -/
theorem loss_ge_one_sub_sum (n : Nat) (ks : List Nat) (ds : List ℝ) (hlen : ds.length = ks.length)
    (hsum : ks.sum = n + 1) (hnn : ∀ d ∈ ds, 0 ≤ d) (hpos : ∀ p ∈ ks.zip ds, 0 < p.1 → 0 < p.2) :
    1 - ds.sum ≤ lossZ n ks ds := by
  have hN : (0 : ℝ) < (n : ℝ) + 1 := by positivity
  have h := List.sum_le_sum (zip_bucket_le n ks ds hnn hpos)
  rw [sum_zip_sub n ks ds hlen, hsum] at h
  rw [lossZ_eq_sum]
  have e : (((n + 1 : ℕ) : ℝ)) / ((n : ℝ) + 1) = 1 := by push_cast; exact div_self hN.ne'
  rw [e] at h
  linarith

theorem loss_nonneg (n : Nat) (ks : List Nat) (ds : List ℝ) (hlen : ds.length = ks.length)
    (hsum : ks.sum = n + 1) (hnn : ∀ d ∈ ds, 0 ≤ d) (hpos : ∀ p ∈ ks.zip ds, 0 < p.1 → 0 < p.2)
    (hle : ds.sum ≤ 1) : 0 ≤ lossZ n ks ds := by
  have := loss_ge_one_sub_sum n ks ds hlen hsum hnn hpos
  linarith

/-- `←` of the equality case needs no hypothesis at all -/
theorem loss_eq_zero_of_forall (n : Nat) (ks : List Nat) (ds : List ℝ)
    (h : ∀ p ∈ ks.zip ds, p.2 = (p.1 : ℝ) / ((n : ℝ) + 1)) : lossZ n ks ds = 0 := by
  rw [lossZ_eq_sum, neg_eq_zero]
  apply List.sum_eq_zero
  intro x hx
  obtain ⟨⟨k, d⟩, hp, rfl⟩ := List.mem_map.mp hx
  have hd : d = (k : ℝ) / ((n : ℝ) + 1) := h (k, d) hp
  have h1 : bucket n (k, d) = d - (k : ℝ) / ((n : ℝ) + 1) :=
    (bucket_eq_iff n k d (fun hk => by
      rw [hd]
      have : (0 : ℝ) < k := by exact_mod_cast hk
      positivity)).mpr hd
  rw [h1, hd, sub_self]

theorem loss_eq_zero_iff (n : Nat) (ks : List Nat) (ds : List ℝ) (hlen : ds.length = ks.length)
    (hsum : ks.sum = n + 1) (hnn : ∀ d ∈ ds, 0 ≤ d) (hpos : ∀ p ∈ ks.zip ds, 0 < p.1 → 0 < p.2)
    (hone : ds.sum = 1) :
    lossZ n ks ds = 0 ↔ ∀ p ∈ ks.zip ds, p.2 = (p.1 : ℝ) / ((n : ℝ) + 1) := by
  refine ⟨fun h0 => ?_, loss_eq_zero_of_forall n ks ds⟩
  have hN : (0 : ℝ) < (n : ℝ) + 1 := by positivity
  have hle := zip_bucket_le n ks ds hnn hpos
  have e : (((n + 1 : ℕ) : ℝ)) / ((n : ℝ) + 1) = 1 := by push_cast; exact div_self hN.ne'
  have hs : ((ks.zip ds).map (bucket n)).sum
      = ((ks.zip ds).map fun p => p.2 - (p.1 : ℝ) / ((n : ℝ) + 1)).sum := by
    rw [sum_zip_sub n ks ds hlen, hsum, e, hone]
    rw [lossZ_eq_sum] at h0
    linarith
  have hall := (sum_map_eq_iff_of_le _ _ _ hle).mp hs
  rintro ⟨k, d⟩ hp
  exact (bucket_eq_iff n k d (hpos (k, d) hp)).mp (hall (k, d) hp)

/-! ### the same on the cdf values `ps` -/

theorem diffs_length {α : Type} [Sub α] : ∀ l : List α, (diffs l).length = l.length - 1
  | [] => rfl
  | [_] => rfl
  | _ :: b :: rest => by
    simp only [diffs, List.length_cons, diffs_length (b :: rest)]
    omega

/-- telescoping: the spacings add up to `last - first` -/
theorem sum_diffs_cons (a : ℝ) (l : List ℝ) : (diffs (a :: l)).sum = l.getLastD a - a := by
  induction l generalizing a with
  | nil => simp [diffs]
  | cons b rest ih =>
    simp only [diffs, List.sum_cons, ih b, List.getLastD_cons]
    ring

theorem diffs_nonneg_of_pairwise : ∀ l : List ℝ, l.Pairwise (· ≤ ·) → ∀ d ∈ diffs l, 0 ≤ d
  | [], _ => by simp [diffs]
  | [_], _ => by simp [diffs]
  | a :: b :: rest, h => by
    intro d hd
    rw [List.pairwise_cons] at h
    simp only [diffs, List.mem_cons] at hd
    rcases hd with rfl | hd
    · exact sub_nonneg.mpr (h.1 b (by simp))
    · exact diffs_nonneg_of_pairwise (b :: rest) h.2 d hd

theorem sum_diffs_le_one (ps : List ℝ) (h01 : ∀ p ∈ ps, 0 ≤ p ∧ p ≤ 1) : (diffs ps).sum ≤ 1 := by
  cases ps with
  | nil => simp [diffs]
  | cons a l =>
    rw [sum_diffs_cons]
    have ha := (h01 a (by simp)).1
    have hl : l.getLastD a ≤ 1 := by
      cases l with
      | nil => simpa using (h01 a (by simp)).2
      | cons b rest =>
        rw [List.getLastD_cons, ← List.getLast_eq_getLastD (a := b) (l := rest) (by simp)]
        exact (h01 _ (List.mem_cons_of_mem a (List.getLast_mem (l := b :: rest) (by simp)))).2
    linarith

/-- Gibbs for the model's `loss` on a monotone list of cdf values in `[0, 1]` -/
theorem loss_nonneg_ps (n : Nat) (ks : List Nat) (ps : List ℝ) (hlen : ps.length = ks.length + 1)
    (hsum : ks.sum = n + 1) (hmono : ps.Pairwise (· ≤ ·)) (h01 : ∀ p ∈ ps, 0 ≤ p ∧ p ≤ 1)
    (hpos : ∀ p ∈ ks.zip (diffs ps), 0 < p.1 → 0 < p.2) :
    0 ≤ loss (fun k : Nat => (k : ℝ)) Real.log n ks ps :=
  loss_nonneg n ks (diffs ps) (by rw [diffs_length]; omega) hsum (diffs_nonneg_of_pairwise ps hmono) hpos
    (sum_diffs_le_one ps h01)

/-- equality case for the model's `loss` on a monotone list of cdf values from `0` to `1` -/
theorem loss_eq_zero_iff_ps (n : Nat) (ks : List Nat) (a : ℝ) (l : List ℝ)
    (hlen : l.length = ks.length) (hsum : ks.sum = n + 1) (hmono : (a :: l).Pairwise (· ≤ ·))
    (hpos : ∀ p ∈ ks.zip (diffs (a :: l)), 0 < p.1 → 0 < p.2) (hends : l.getLastD a - a = 1) :
    loss (fun k : Nat => (k : ℝ)) Real.log n ks (a :: l) = 0
      ↔ ∀ p ∈ ks.zip (diffs (a :: l)), p.2 = (p.1 : ℝ) / ((n : ℝ) + 1) :=
  loss_eq_zero_iff n ks (diffs (a :: l)) (by rw [diffs_length]; simpa using hlen) hsum
    (diffs_nonneg_of_pairwise _ hmono) hpos (by rw [sum_diffs_cons, hends])

/-- cdf values with prescribed first value and spacings -/
def partialSums (a : ℝ) : List ℝ → List ℝ
  | [] => [a]
  | d :: ds => a :: partialSums (a + d) ds

theorem diffs_partialSums (a : ℝ) (ds : List ℝ) : diffs (partialSums a ds) = ds := by
  induction ds generalizing a with
  | nil => rfl
  | cons d ds ih =>
    have h := ih (a + d)
    cases ds with
    | nil => simp [partialSums, diffs]
    | cons e ds' =>
      simp only [partialSums] at h ⊢
      simp only [diffs] at h ⊢
      rw [h]
      simp

/-- every spacing-form statement is a statement about the model's `loss` -/
theorem lossZ_eq_lossR_partialSums (n : Nat) (ks : List Nat) (ds : List ℝ) :
    lossZ n ks ds = loss (fun k : Nat => (k : ℝ)) Real.log n ks (partialSums 0 ds) := by
  rw [show loss (fun k : Nat => (k : ℝ)) Real.log n ks (partialSums 0 ds)
      = lossZ n ks (diffs (partialSums 0 ds)) from rfl, diffs_partialSums]

/-! ### 3. the insertion sort -/

section SortList
variable {α : Type} [LinearOrder α] [DecidableLT α]

theorem sortList_cons (x : α) (l : List α) : sortList (x :: l) = insertSorted x (sortList l) := rfl

theorem insertSorted_of_forall_le (x : α) (l : List α) (h : ∀ y ∈ l, x ≤ y) :
    insertSorted x l = x :: l := by
  induction l with
  | nil => rfl
  | cons y rest ih =>
    have hxy : x ≤ y := h y (by simp)
    by_cases hlt : x < y
    · simp [insertSorted, hlt]
    · have hyx : x = y := le_antisymm hxy (not_lt.mp hlt)
      subst hyx
      simp [insertSorted, ih (fun z hz => h z (by simp [hz]))]

theorem insertSorted_perm (x : α) (l : List α) : (insertSorted x l).Perm (x :: l) := by
  induction l with
  | nil => exact List.Perm.refl _
  | cons y rest ih =>
    by_cases hlt : x < y
    · simp [insertSorted, hlt]
    · simp only [insertSorted, hlt, if_false]
      exact (ih.cons y).trans (List.Perm.swap x y rest)

theorem insertSorted_pairwise (x : α) (l : List α) (h : l.Pairwise (· ≤ ·)) :
    (insertSorted x l).Pairwise (· ≤ ·) := by
  induction l with
  | nil => simp [insertSorted]
  | cons y rest ih =>
    rw [List.pairwise_cons] at h
    by_cases hlt : x < y
    · simp only [insertSorted, hlt, if_true]
      refine List.pairwise_cons.mpr ⟨?_, List.pairwise_cons.mpr h⟩
      intro z hz
      rcases List.mem_cons.mp hz with rfl | hz
      · exact hlt.le
      · exact hlt.le.trans (h.1 z hz)
    · simp only [insertSorted, hlt, if_false]
      refine List.pairwise_cons.mpr ⟨?_, ih h.2⟩
      intro z hz
      rcases List.mem_cons.mp ((insertSorted_perm x rest).mem_iff.mp hz) with rfl | hz
      · exact not_lt.mp hlt
      · exact h.1 z hz

theorem sortList_perm (l : List α) : (sortList l).Perm l := by
  induction l with
  | nil => exact List.Perm.refl _
  | cons x rest ih =>
    rw [sortList_cons]
    exact (insertSorted_perm x _).trans (ih.cons x)

theorem sortList_sorted (l : List α) : (sortList l).Pairwise (· ≤ ·) := by
  induction l with
  | nil => simp [sortList]
  | cons x rest ih =>
    rw [sortList_cons]
    exact insertSorted_pairwise x _ ih

/-- `ps.sort()` is the identity on a monotone list -/
theorem sortList_of_sorted {l : List α} (h : l.Pairwise (· ≤ ·)) : sortList l = l := by
  induction l with
  | nil => rfl
  | cons x rest ih =>
    rw [List.pairwise_cons] at h
    rw [sortList_cons, ih h.2, insertSorted_of_forall_le x rest h.1]

end SortList

/-- the noisy class's loss (`ps` sorted first) is the plain loss on a monotone cdf -/
theorem loss_sortList_of_sorted (n : Nat) (ks : List Nat) (ps : List ℝ) (h : ps.Pairwise (· ≤ ·)) :
    loss (fun k : Nat => (k : ℝ)) Real.log n ks (sortList ps)
      = loss (fun k : Nat => (k : ℝ)) Real.log n ks ps := by
  rw [sortList_of_sorted h]

/-! ### non-vacuity -/

/-- the empirical frequencies themselves: loss `0` -/
example : loss (fun k : Nat => (k : ℝ)) Real.log 3 [1, 1, 2] [0, 1/4, 1/2, 1] = 0 := by
  have hmono : ([0, 1/4, 1/2, 1] : List ℝ).Pairwise (· ≤ ·) := by
    simp only [List.pairwise_cons, List.mem_cons]
    norm_num
  refine (loss_eq_zero_iff_ps 3 [1, 1, 2] 0 [1/4, 1/2, 1] rfl rfl hmono ?_ ?_).mpr ?_
  · simp only [diffs, List.zip_cons_cons, List.zip_nil_right, List.mem_cons]
    norm_num
  · norm_num [List.getLastD]
  · simp only [diffs, List.zip_cons_cons, List.zip_nil_right, List.mem_cons]
    norm_num

/-- other spacings, a bucket with `k = 0`: all hypotheses of Gibbs hold, and the loss is not `0` -/
example : 0 < lossZ 3 [2, 0, 2] [1/2, 1/4, 1/4] := by
  have hnn : ∀ d ∈ ([1/2, 1/4, 1/4] : List ℝ), 0 ≤ d := by
    simp only [List.mem_cons]
    norm_num
  have hpos : ∀ p ∈ ([2, 0, 2] : List Nat).zip ([1/2, 1/4, 1/4] : List ℝ), 0 < p.1 → 0 < p.2 := by
    simp only [List.zip_cons_cons, List.zip_nil_right, List.mem_cons]
    norm_num
  have h0 := loss_nonneg 3 [2, 0, 2] [1/2, 1/4, 1/4] rfl rfl hnn hpos (by norm_num)
  refine lt_of_le_of_ne h0 (fun h => ?_)
  have := (loss_eq_zero_iff 3 [2, 0, 2] [1/2, 1/4, 1/4] rfl rfl hnn hpos (by norm_num)).mp h.symm
    (0, 1/4) (by simp)
  norm_num at this

example : sortList ([0, 1/4, 1/2, 1] : List ℝ) = [0, 1/4, 1/2, 1] :=
  sortList_of_sorted (by simp only [List.pairwise_cons, List.mem_cons]; norm_num)

end Opda.Fit

#print axioms Opda.Fit.loss_sumWhere_acc
#print axioms Opda.Fit.loss_eq_grouped_loglik
#print axioms Opda.Fit.loss_eq_grouped_loglik_ps
#print axioms Opda.Fit.loss_eq_kl
#print axioms Opda.Fit.loss_ge_one_sub_sum
#print axioms Opda.Fit.loss_nonneg
#print axioms Opda.Fit.loss_nonneg_ps
#print axioms Opda.Fit.loss_eq_zero_of_forall
#print axioms Opda.Fit.loss_eq_zero_iff
#print axioms Opda.Fit.loss_eq_zero_iff_ps
#print axioms Opda.Fit.lossZ_eq_lossR_partialSums
#print axioms Opda.Fit.sortList_of_sorted
#print axioms Opda.Fit.sortList_perm
#print axioms Opda.Fit.sortList_sorted
#print axioms Opda.Fit.loss_sortList_of_sorted
