import OpdaModel.Quadratic
import OpdaProofs.RealInst
import OpdaProofs.QuadDual
import OpdaProofs.QuadLaw
import Mathlib.Tactic

/-! C05-T2 (second half) and T6 on the polymorphic model at `ℝ`. -/
namespace Opda.Quad
open Opda Opda.Num

/-- `0 ≤ cdf ≤ 1` -/
theorem cdf_mem (d : Params ℝ) (hab : d.a < d.b) (hc : 0 < d.c) (y : ℝ) : 0 ≤ cdf d y ∧ cdf d y ≤ 1 := by
  constructor
  · rw [← cdf_below d hab hc (min y d.a) (min_le_right _ _)]
    exact cdf_mono d hab hc (min_le_left _ _)
  · rw [← cdf_above d hab hc (max y d.b) (le_max_right _ _)]
    exact cdf_mono d hab hc (le_max_left _ _)

/-- `ppf (cdf y) = y` on the support -/
theorem ppf_cdf (d : Params ℝ) (hab : d.a < d.b) (hc : 0 < d.c) (y : ℝ) (hya : d.a ≤ y) (hyb : y ≤ d.b) :
    ppf d (cdf d y) = y := by
  have hba : 0 < d.b - d.a := sub_pos.mpr hab
  have hc' : (0:ℝ) < d.c := by exact_mod_cast hc
  obtain ⟨h0, h1⟩ := cdf_mem d hab hc y
  have hexp : (d.c:ℝ) / 2 * (2 / d.c) = 1 := by field_simp
  unfold ppf
  simp only [num_n, Nat.cast_zero, Nat.cast_one, clip_of_mem _ 0 1 h0 h1]
  unfold cdf
  simp only [eq_false_of_ne _ _ (ne_of_lt hab), Bool.false_eq_true, if_false, num_n, Nat.cast_zero,
    Nat.cast_one, num_pow, Nat.cast_ofNat, clip_of_mem y _ _ hya hyb]
  cases hcv : d.convex
  · simp only [Bool.false_eq_true, if_false]
    have hnn : 0 ≤ (d.b - y) / (d.b - d.a) := div_nonneg (by linarith) hba.le
    rw [sub_sub_cancel, ← Real.rpow_mul hnn, hexp, Real.rpow_one]
    field_simp; ring
  · simp only [if_true]
    have hnn : 0 ≤ (y - d.a) / (d.b - d.a) := div_nonneg (by linarith) hba.le
    rw [← Real.rpow_mul hnn, hexp, Real.rpow_one]
    field_simp; ring

theorem clip_mono (lo hi : ℝ) {x x' : ℝ} (h : x ≤ x') (hlh : lo ≤ hi) : clip x lo hi ≤ clip x' lo hi := by
  unfold clip
  split_ifs <;> linarith

/-- `ppf` is non-decreasing (every `a ≤ b`, every level, clipped as the code clips) -/
theorem ppf_mono (d : Params ℝ) (hab : d.a ≤ d.b) (hc : 0 < d.c) : Monotone (ppf d) := by
  have hba : 0 ≤ d.b - d.a := sub_nonneg.mpr hab
  have hc' : (0:ℝ) < d.c := by exact_mod_cast hc
  have he : (0:ℝ) ≤ 2 / d.c := by positivity
  intro q q' hqq
  have hcm : clip q (0:ℝ) 1 ≤ clip q' 0 1 := clip_mono 0 1 hqq zero_le_one
  obtain ⟨l1, u1⟩ := clip_mem q (0:ℝ) 1 zero_le_one
  obtain ⟨l2, u2⟩ := clip_mem q' (0:ℝ) 1 zero_le_one
  unfold ppf
  simp only [num_n, Nat.cast_zero, Nat.cast_one, num_pow, Nat.cast_ofNat]
  cases d.convex
  · simp only [Bool.false_eq_true, if_false]
    have : (1 - clip q' (0:ℝ) 1) ^ ((2:ℝ) / d.c) ≤ (1 - clip q (0:ℝ) 1) ^ ((2:ℝ) / d.c) :=
      Real.rpow_le_rpow (by linarith) (by linarith) he
    nlinarith
  · simp only [if_true]
    have : (clip q (0:ℝ) 1) ^ ((2:ℝ) / d.c) ≤ (clip q' (0:ℝ) 1) ^ ((2:ℝ) / d.c) :=
      Real.rpow_le_rpow l1 hcm he
    nlinarith

/-- `ppf` takes its values in `[a, b]` -/
theorem ppf_mem (d : Params ℝ) (hab : d.a ≤ d.b) (hc : 0 < d.c) (q : ℝ) : d.a ≤ ppf d q ∧ ppf d q ≤ d.b := by
  have hba : 0 ≤ d.b - d.a := sub_nonneg.mpr hab
  have hc' : (0:ℝ) < d.c := by exact_mod_cast hc
  have he : (0:ℝ) ≤ 2 / d.c := by positivity
  obtain ⟨l1, u1⟩ := clip_mem q (0:ℝ) 1 zero_le_one
  unfold ppf
  simp only [num_n, Nat.cast_zero, Nat.cast_one, num_pow, Nat.cast_ofNat]
  cases d.convex
  · simp only [Bool.false_eq_true, if_false]
    have h0 : 0 ≤ (1 - clip q (0:ℝ) 1) ^ ((2:ℝ) / d.c) := Real.rpow_nonneg (by linarith) _
    have h1 : (1 - clip q (0:ℝ) 1) ^ ((2:ℝ) / d.c) ≤ 1 := Real.rpow_le_one (by linarith) (by linarith) he
    constructor <;> nlinarith
  · simp only [if_true]
    have h0 : 0 ≤ (clip q (0:ℝ) 1) ^ ((2:ℝ) / d.c) := Real.rpow_nonneg l1 _
    have h1 : (clip q (0:ℝ) 1) ^ ((2:ℝ) / d.c) ≤ 1 := Real.rpow_le_one l1 u1 he
    constructor <;> nlinarith

theorem ppf_zero (d : Params ℝ) (hc : 0 < d.c) : ppf d 0 = d.a := by
  have hc' : (0:ℝ) < d.c := by exact_mod_cast hc
  have hne : (2:ℝ) / d.c ≠ 0 := by positivity
  unfold ppf
  simp only [num_n, Nat.cast_zero, Nat.cast_one, num_pow, Nat.cast_ofNat,
    clip_of_mem (0:ℝ) 0 1 le_rfl zero_le_one]
  cases d.convex <;> simp [Real.zero_rpow hne]

theorem ppf_one (d : Params ℝ) (hc : 0 < d.c) : ppf d 1 = d.b := by
  have hc' : (0:ℝ) < d.c := by exact_mod_cast hc
  have hne : (2:ℝ) / d.c ≠ 0 := by positivity
  unfold ppf
  simp only [num_n, Nat.cast_zero, Nat.cast_one, num_pow, Nat.cast_ofNat,
    clip_of_mem (1:ℝ) 0 1 zero_le_one le_rfl]
  cases d.convex <;> simp [Real.zero_rpow hne]

/-- `ppf` maps `[0,1]` **onto** `[a,b]` -/
theorem ppf_surjOn (d : Params ℝ) (hab : d.a < d.b) (hc : 0 < d.c) :
    Set.SurjOn (ppf d) (Set.Icc 0 1) (Set.Icc d.a d.b) := by
  intro y hy
  exact ⟨cdf d y, ⟨(cdf_mem d hab hc y).1, (cdf_mem d hab hc y).2⟩, ppf_cdf d hab hc y hy.1 hy.2⟩

/-! ### T6: the point mass `a = b` -/

theorem cdf_pointMass (d : Params ℝ) (hab : d.a = d.b) (y : ℝ) :
    cdf d y = if y < d.a then 0 else 1 := by
  unfold cdf
  have : Num.eq d.a d.b = true := (num_eq _ _).mpr hab
  simp [this]

theorem ppf_pointMass (d : Params ℝ) (hab : d.a = d.b) (q : ℝ) : ppf d q = d.a := by
  unfold ppf
  cases d.convex <;> simp [hab]

theorem pdf_pointMass (d : Params ℝ) (hab : d.a = d.b) (y : ℝ) (hy : y ≠ d.a) : pdf d y = 0 := by
  unfold pdf
  have h1 : Num.eq d.a d.b = true := (num_eq _ _).mpr hab
  have h2 : Num.eq y d.a = false := eq_false_of_ne _ _ hy
  simp [h1, h2]

theorem mean_pointMass (d : Params ℝ) (hab : d.a = d.b) : mean d = d.a := by
  unfold mean
  cases d.convex <;> simp [hab]

theorem variance_pointMass (d : Params ℝ) (hab : d.a = d.b) : variance d = 0 := by
  unfold variance
  simp [hab]

end Opda.Quad
