import OpdaModel.Approx
import OpdaProofs.PolyBridge
import OpdaProofs.Lagrange
import Mathlib.Tactic

/-!
C17-T4 / C18-T3: soundness of the rational Taylor-shift range checker with adaptive bisection
(`PolyQ.checkAd`), of the a-posteriori interpolation check (`PolyQ.interpOK`) and the bridge to
half-integer powers.  All statements quantify over **every real** point of the interval.
-/
set_option linter.unusedSectionVars false

namespace Opda.PolyQ
open Opda.PolyCheck (evalQ)
open Opda.Lagr

theorem cast_absQ (q : ℚ) : ((absQ q : ℚ) : ℝ) = |(q : ℝ)| := by
  unfold absQ
  split_ifs with h
  · have : (q : ℝ) < 0 := by exact_mod_cast h
    rw [abs_of_neg this]; push_cast; ring
  · have : (0 : ℝ) ≤ (q : ℝ) := by exact_mod_cast not_lt.mp h
    rw [abs_of_nonneg this]

theorem cast_horner (cs : List ℚ) (x : ℚ) : ((horner cs x : ℚ) : ℝ) = evalQ cs (x : ℝ) := by
  induction cs with
  | nil => simp [horner, evalQ]
  | cons c p ih => simp only [horner, evalQ, ← ih]; push_cast; ring

theorem evalQ_mulLin (s0 : ℚ) (q : List ℚ) (carry : ℚ) (u : ℝ) :
    evalQ (mulLin s0 q carry) u = (carry : ℝ) + ((s0 : ℝ) + u) * evalQ q u := by
  induction q generalizing carry with
  | nil => simp [mulLin, evalQ]
  | cons x xs ih => simp only [mulLin, evalQ, ih]; push_cast; ring

theorem evalQ_shift (s0 : ℚ) (p : List ℚ) (u : ℝ) :
    evalQ (shift s0 p) u = evalQ p ((s0 : ℝ) + u) := by
  induction p with
  | nil => simp [shift, evalQ]
  | cons c p ih =>
    simp only [shift]
    have h := evalQ_mulLin s0 (shift s0 p) 0 u
    generalize hm : mulLin s0 (shift s0 p) 0 = m at h
    cases m with
    | nil => cases hq : shift s0 p <;> simp [hq, mulLin] at hm
    | cons hd tl =>
      simp only [evalQ] at h ⊢
      rw [ih] at h
      push_cast at h ⊢
      linarith

theorem bound_spec (R : ℚ) (hR : 0 ≤ R) (A : List ℚ) (u : ℝ) (hu : |u| ≤ (R : ℝ)) :
    |evalQ A u| ≤ ((bound R A : ℚ) : ℝ) := by
  induction A with
  | nil => simp [evalQ, bound]
  | cons a as ih =>
    simp only [evalQ, bound]
    push_cast
    rw [cast_absQ]
    have hR' : (0 : ℝ) ≤ (R : ℝ) := by exact_mod_cast hR
    calc |(a:ℝ) + u * evalQ as u| ≤ |(a:ℝ)| + |u * evalQ as u| := abs_add_le _ _
      _ = |(a:ℝ)| + |u| * |evalQ as u| := by rw [abs_mul]
      _ ≤ |(a:ℝ)| + (R:ℝ) * ((bound R as : ℚ) : ℝ) := by
          have := mul_le_mul hu ih (abs_nonneg _) hR'
          linarith

theorem checkIv_sound (C : List ℚ) (B l r : ℚ) (h : checkIv C B l r = true)
    (s : ℝ) (hl : (l:ℝ) ≤ s) (hr : s ≤ (r:ℝ)) : |evalQ C s| ≤ (B:ℝ) := by
  simp only [checkIv, Bool.and_eq_true, decide_eq_true_eq] at h
  obtain ⟨hlr, hb⟩ := h
  have hlr' : (l:ℝ) ≤ (r:ℝ) := by exact_mod_cast hlr
  have hR0 : (0:ℚ) ≤ r - (l + r) / 2 := by linarith
  have hu : |s - (((l + r) / 2 : ℚ) : ℝ)| ≤ ((r - (l + r) / 2 : ℚ) : ℝ) := by
    push_cast
    rw [abs_le]
    constructor <;> linarith
  have h1 := bound_spec _ hR0 (shift ((l + r) / 2) C) (s - (((l + r) / 2 : ℚ) : ℝ)) hu
  rw [evalQ_shift] at h1
  have : (((l + r) / 2 : ℚ) : ℝ) + (s - (((l + r) / 2 : ℚ) : ℝ)) = s := by ring
  rw [this] at h1
  exact h1.trans (by exact_mod_cast hb)

/-- **soundness of the adaptive range check**: accepted ⇒ `|C(s)| ≤ B` for every real `s ∈ [l, r]`. -/
theorem checkAd_sound (C : List ℚ) (B : ℚ) (k : ℕ) (l r : ℚ) (h : checkAd C B k l r = true)
    (s : ℝ) (hl : (l:ℝ) ≤ s) (hr : s ≤ (r:ℝ)) : |evalQ C s| ≤ (B:ℝ) := by
  induction k generalizing l r with
  | zero => exact checkIv_sound C B l r h s hl hr
  | succ k ih =>
    simp only [checkAd, Bool.or_eq_true, Bool.and_eq_true] at h
    rcases h with h | ⟨_, h1, h2⟩
    · exact checkIv_sound C B l r h s hl hr
    · by_cases hs : s ≤ (((l + r) / 2 : ℚ) : ℝ)
      · exact ih l _ h1 hl hs
      · exact ih _ r h2 (le_of_lt (not_le.mp hs)) hr

theorem evalQ_map_neg (q : List ℚ) (x : ℝ) : evalQ (q.map (fun d => -d)) x = - evalQ q x := by
  induction q with
  | nil => simp [evalQ]
  | cons d q ih => simp only [List.map_cons, evalQ, ih]; push_cast; ring

theorem evalQ_sub (p q : List ℚ) (x : ℝ) : evalQ (sub p q) x = evalQ p x - evalQ q x := by
  induction p generalizing q with
  | nil => simp [sub, evalQ, evalQ_map_neg]
  | cons c p ih =>
    cases q with
    | nil => simp [sub, evalQ]
    | cons d q => simp only [sub, evalQ, ih q]; push_cast; ring

/-! ### coefficient lists as polynomials -/

/-- the real polynomial with the given rational coefficients (constant term first) -/
noncomputable def toPoly : List ℚ → Polynomial ℝ
  | [] => 0
  | c :: p => Polynomial.C (c : ℝ) + Polynomial.X * toPoly p

theorem eval_toPoly (cs : List ℚ) (x : ℝ) : (toPoly cs).eval x = evalQ cs x := by
  induction cs with
  | nil => simp [toPoly, evalQ]
  | cons c p ih => simp [toPoly, evalQ, ih]

theorem degree_toPoly_lt (cs : List ℚ) : (toPoly cs).degree < (cs.length : WithBot ℕ) := by
  induction cs with
  | nil => simp [toPoly]
  | cons c p ih =>
    simp only [toPoly, List.length_cons]
    refine lt_of_le_of_lt (Polynomial.degree_add_le _ _) (max_lt ?_ ?_)
    · refine lt_of_le_of_lt Polynomial.degree_C_le ?_
      exact_mod_cast Nat.succ_pos _
    · rw [mul_comm, Polynomial.degree_mul_X]
      by_cases hp : toPoly p = 0
      · rw [hp]; simp
      · rw [Polynomial.degree_eq_natDegree hp] at ih ⊢
        have : (toPoly p).natDegree < p.length := by exact_mod_cast ih
        exact_mod_cast Nat.succ_lt_succ this

theorem natDegree_toPoly_le (cs : List ℚ) (n : ℕ) (h : cs.length ≤ n + 1) : (toPoly cs).natDegree ≤ n := by
  by_cases hp : toPoly cs = 0
  · rw [hp]; simp
  · have := degree_toPoly_lt cs
    rw [Polynomial.degree_eq_natDegree hp] at this
    have h2 : (toPoly cs).natDegree < cs.length := by exact_mod_cast this
    omega

/-- **a-posteriori interpolation check**: a coefficient list with at most `n` entries that passes
through the `n` points is the interpolant, as a function on all of `ℝ`. -/
theorem interpOK_sound (cs : List ℚ) (n : ℕ) (v r : ℕ → ℚ)
    (hv : Set.InjOn v (Finset.range n : Finset ℕ)) (h : interpOK cs n v r = true) :
    toPoly cs = Lagrange.interpolate (Finset.range n) (fun i => (v i : ℝ)) (fun i => (r i : ℝ)) := by
  simp only [interpOK, Bool.and_eq_true, decide_eq_true_eq] at h
  obtain ⟨hlen, hall⟩ := h
  rw [allTo_iff] at hall
  apply Lagrange.eq_interpolate_of_eval_eq _ (cast_injOn n v hv)
  · refine lt_of_lt_of_le (degree_toPoly_lt cs) ?_
    simp only [Finset.card_range]
    exact_mod_cast hlen
  · intro i hi
    have := hall i (Finset.mem_range.mp hi)
    simp only [decide_eq_true_eq] at this
    rw [eval_toPoly, ← cast_horner, this]

theorem interpOK_eval (cs : List ℚ) (n : ℕ) (v r : ℕ → ℚ)
    (hv : Set.InjOn v (Finset.range n : Finset ℕ)) (h : interpOK cs n v r = true) (x : ℝ) :
    evalQ cs x = Polynomial.eval x
      (Lagrange.interpolate (Finset.range n) (fun i => (v i : ℝ)) (fun i => (r i : ℝ))) := by
  rw [← interpOK_sound cs n v r hv h, eval_toPoly]

/-! ### half-integer powers: `x = t²` -/

/-- accepted certificate in the variable `t = √x` ⇒ `|p(x) − x^(m2/2)| ≤ B` on all of `[klo, khi]`. -/
theorem sqrt_bound (cs : List ℚ) (m2 k : ℕ) (B tl th klo khi : ℚ)
    (hcert : checkAd (gOf cs m2) B k tl th = true)
    (htl0 : 0 ≤ tl) (htl : tl ^ 2 ≤ klo) (hth0 : 0 ≤ th) (hth : khi ≤ th ^ 2)
    (x : ℝ) (hx1 : (klo : ℝ) ≤ x) (hx2 : x ≤ (khi : ℝ)) :
    |evalQ cs x - x ^ ((m2 : ℝ) / 2)| ≤ (B : ℝ) := by
  have htl' : ((tl : ℝ)) ^ 2 ≤ (klo : ℝ) := by exact_mod_cast htl
  have hth' : (khi : ℝ) ≤ ((th : ℝ)) ^ 2 := by exact_mod_cast hth
  have hx0 : 0 ≤ x := le_trans (le_trans (sq_nonneg _) htl') hx1
  set t := Real.sqrt x with ht
  have ht0 : 0 ≤ t := Real.sqrt_nonneg x
  have htt : t ^ 2 = x := Real.sq_sqrt hx0
  have hlow : (tl : ℝ) ≤ t := by
    have : (tl : ℝ) ^ 2 ≤ t ^ 2 := by rw [htt]; exact le_trans htl' hx1
    exact (pow_le_pow_iff_left₀ (by exact_mod_cast htl0) ht0 (by norm_num)).mp this
  have hhigh : t ≤ (th : ℝ) := by
    have : t ^ 2 ≤ (th : ℝ) ^ 2 := by rw [htt]; exact le_trans hx2 hth'
    exact (pow_le_pow_iff_left₀ ht0 (by exact_mod_cast hth0) (by norm_num)).mp this
  have hmain := checkAd_sound _ B k tl th hcert t hlow hhigh
  unfold gOf at hmain
  rw [Opda.PolyCheck.evalQ_gOf, htt, Opda.PolyCheck.sqrt_pow_eq_rpow x hx0 m2] at hmain
  exact hmain


/-! ### the certificates the driver evaluates -/

theorem maxQ_ge (a b : ℚ) : a ≤ maxQ a b ∧ b ≤ maxQ a b := by
  unfold maxQ
  split_ifs with h
  · exact ⟨h, le_refl _⟩
  · exact ⟨le_refl _, (not_le.mp h).le⟩

theorem absQ_nonneg (q : ℚ) : 0 ≤ absQ q := by
  have : (0 : ℝ) ≤ ((absQ q : ℚ) : ℝ) := by rw [cast_absQ]; exact abs_nonneg _
  exact_mod_cast this

theorem abs_le_maxQ (a b : ℚ) (x : ℝ) (h1 : (a : ℝ) ≤ x) (h2 : x ≤ (b : ℝ)) :
    |x| ≤ ((maxQ (absQ a) (absQ b) : ℚ) : ℝ) := by
  obtain ⟨ha, hb⟩ := maxQ_ge (absQ a) (absQ b)
  have ha' : |(a : ℝ)| ≤ ((maxQ (absQ a) (absQ b) : ℚ) : ℝ) := by rw [← cast_absQ]; exact_mod_cast ha
  have hb' : |(b : ℝ)| ≤ ((maxQ (absQ a) (absQ b) : ℚ) : ℝ) := by rw [← cast_absQ]; exact_mod_cast hb
  rw [abs_le]
  constructor
  · have := neg_abs_le (a : ℝ); linarith
  · have := le_abs_self (b : ℝ); linarith

/-- rounding error of the dyadic copy `Q` of the coefficient list `cs`, on `[a, b]` -/
theorem round_err (Q cs : List ℚ) (a b : ℚ) (x : ℝ) (h1 : (a : ℝ) ≤ x) (h2 : x ≤ (b : ℝ)) :
    |evalQ Q x - evalQ cs x| ≤ ((bound (maxQ (absQ a) (absQ b)) (sub Q cs) : ℚ) : ℝ) := by
  rw [← evalQ_sub]
  exact bound_spec _ ((absQ_nonneg a).trans (maxQ_ge _ _).1) _ x (abs_le_maxQ a b x h1 h2)

/-- **continuum upper bound, polynomial `f`**: an accepted `certPoly` bounds the distance between the
polynomial with coefficients `cf` and the interpolant of the `n` points on *all* of `[a, b]`. -/
theorem certPoly_sound (n : ℕ) (v r : ℕ → ℚ) (cf : List ℚ) (B a b : ℚ) (depth S : ℕ)
    (hv : Set.InjOn v (Finset.range n : Finset ℕ))
    (h : certPoly n v r cf B a b depth S = true) (x : ℝ) (h1 : (a : ℝ) ≤ x) (h2 : x ≤ (b : ℝ)) :
    |evalQ cf x - Polynomial.eval x
      (Lagrange.interpolate (Finset.range n) (fun i => (v i : ℝ)) (fun i => (r i : ℝ)))| ≤ (B : ℝ) := by
  unfold certPoly at h
  simp only [Bool.and_eq_true] at h
  obtain ⟨hint, hchk⟩ := h
  rw [← interpOK_eval _ n v r hv hint x]
  have hA := checkAd_sound _ _ depth a b hchk x h1 h2
  rw [evalQ_sub] at hA
  have hB := round_err ((coeffs n v r).map (roundTo S)) (coeffs n v r) a b x h1 h2
  push_cast at hA
  have := abs_sub_le (evalQ cf x) (evalQ ((coeffs n v r).map (roundTo S)) x) (evalQ (coeffs n v r) x)
  linarith

/-- **continuum upper bound, `f = x^(m2/2)`** -/
theorem certHalf_sound (n : ℕ) (v r : ℕ → ℚ) (m2 : ℕ) (B a b tl th : ℚ) (depth S : ℕ)
    (hv : Set.InjOn v (Finset.range n : Finset ℕ))
    (h : certHalf n v r m2 B a b tl th depth S = true) (x : ℝ) (h1 : (a : ℝ) ≤ x) (h2 : x ≤ (b : ℝ)) :
    |x ^ ((m2 : ℝ) / 2) - Polynomial.eval x
      (Lagrange.interpolate (Finset.range n) (fun i => (v i : ℝ)) (fun i => (r i : ℝ)))| ≤ (B : ℝ) := by
  unfold certHalf at h
  simp only [Bool.and_eq_true, decide_eq_true_eq] at h
  obtain ⟨⟨⟨⟨⟨hint, htl0⟩, htl⟩, hth0⟩, hth⟩, hchk⟩ := h
  rw [← interpOK_eval _ n v r hv hint x]
  have hA := sqrt_bound _ m2 depth _ tl th a b hchk htl0 htl hth0 hth x h1 h2
  have hB := round_err ((coeffs n v r).map (roundTo S)) (coeffs n v r) a b x h1 h2
  push_cast at hA
  have := abs_sub_le (x ^ ((m2 : ℝ) / 2)) (evalQ ((coeffs n v r).map (roundTo S)) x) (evalQ (coeffs n v r) x)
  rw [abs_sub_comm (x ^ ((m2 : ℝ) / 2)) (evalQ ((coeffs n v r).map (roundTo S)) x)] at this
  linarith

end Opda.PolyQ
