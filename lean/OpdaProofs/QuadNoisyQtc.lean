import OpdaModel.NoisyFloat
import OpdaModel.QuadNoisy
import OpdaProofs.NoisyLogic
import OpdaProofs.QuadRun
import Mathlib.Tactic

/-! C08 (noisy class): the quantile curve is `ppf` at the level of the best of `n` draws; in the series
regime its accuracy is the bisection's (conditional on monotonicity and a Lipschitz constant of the cdf);
the integrated curve returns trapezoid sums (`avgRun_spec`). -/
set_option linter.unusedSectionVars false
namespace Opda.Noisy
open Opda.TrapLoop

section field
variable {α : Type} [Field α] [LinearOrder α] [IsStrictOrderedRing α] {F : Fns α}

/-- series regime, level strictly inside `(0,1)`: `|F(qtc) − level| ≤ L·(b−a+12o)/2^30 + tail term` for a monotone
`L`-Lipschitz cdf -/
theorem qtc_accuracy (hF : Lawful F) (d : Params α) (hab : d.a ≤ d.b) (ho : 0 ≤ d.o) (nn q : α) (mn : Option Bool)
    (hp : pointMass F d = false) (h : regime F d = .nothing) (L : α)
    (hl0 : 0 < level F (mn.getD d.convex) q nn) (hl1 : level F (mn.getD d.convex) q nn < 1)
    (hmono : ∀ x y, d.a - 6 * d.o ≤ x → x ≤ y → y ≤ d.b + 6 * d.o → cdf F d x ≤ cdf F d y)
    (hlip : ∀ x y, d.a - 6 * d.o ≤ x → x ≤ y → y ≤ d.b + 6 * d.o → cdf F d y - cdf F d x ≤ L * (y - x)) :
    |cdf F d (quantileTuningCurve F d nn q mn) - level F (mn.getD d.convex) q nn|
      ≤ L * ((d.b - d.a + 12 * d.o) / 2 ^ 30)
        + max 0 (max (cdf F d (d.a - 6 * d.o) - level F (mn.getD d.convex) q nn)
            (level F (mn.getD d.convex) q nn - cdf F d (d.b + 6 * d.o))) := by
  unfold quantileTuningCurve
  set lv := level F (mn.getD d.convex) q nn with hlv
  have hc : clip lv 0 1 = lv := clip_of_mem lv 0 1 hl0.le hl1.le
  rw [ppf_nothing hF d hab lv hp h, hc, if_neg hl0.ne', if_neg hl1.ne]
  exact ppfBisect_accuracy hF d hab ho L lv hmono hlip

end field

/-- **what the integration loop returns** (`avgRunCapped`, any round budget; `avgRun` is the budget 30 of the
code): composite trapezoid sums on `2^i` panels of `1 − F^n` resp. `(1−F)^n` over `[a−6o, b+6o]`, at a round
`i > 3` at which all of them moved by at most `3·atol` — and nothing more. -/
theorem avgRunCapped_spec {F : Fns ℝ} (hF : Lawful F) (d : Params ℝ) (ns : List ℝ) (mn : Option Bool)
    (atol : Option ℝ) (rounds : ℕ) (r : ℕ × List ℝ × List ℝ) (h : avgRunCapped F d ns mn atol rounds = some r) :
    3 < r.1 ∧
      r.2.1 = ns.map (fun nn => Trap.trap (gRep F.n F.pow (cdf F d) (mn.getD d.convex) nn) (intLo F d) (intHi F d) r.1) ∧
      ∀ nn ∈ ns, |Trap.trap (gRep F.n F.pow (cdf F d) (mn.getD d.convex) nn) (intLo F d) (intHi F d) r.1
          - Trap.trap (gRep F.n F.pow (cdf F d) (mn.getD d.convex) nn) (intLo F d) (intHi F d) (r.1 - 1)|
        ≤ 3 * atolOf F d atol := by
  unfold avgRunCapped at h
  have hn : F.n = TrapLoop.cast := funext hF.n_cast
  rw [hn] at h
  obtain ⟨h3, hT, herr⟩ := runCapped_spec _ _ _ _ rounds r h
  refine ⟨h3, ?_, ?_⟩
  · rw [hT, List.map_map, hn]; rfl
  · intro nn hnn
    have := herr (gRep TrapLoop.cast F.pow (cdf F d) (mn.getD d.convex) nn) (List.mem_map.mpr ⟨nn, hnn, rfl⟩)
    rw [hn]; exact this

/-- the integrand vanishes identically on the (degenerate) grid of the point mass `a = b, o = 0`:
`F(a) = 1`, so `1 − 1ⁿ = 0` and `(1−1)ⁿ = 0` -/
theorem gRep_pointMass {F : Fns ℝ} (hF : Lawful F) (d : Params ℝ) (hab : d.a = d.b) (ho : d.o = 0)
    (m : Bool) (nn : ℝ) (hp0 : F.pow 0 nn = 0) (hp1 : F.pow 1 nn = 1) :
    gRep F.n F.pow (cdf F d) m nn d.a = 0 := by
  have hpm : pointMass F d = true := by
    unfold pointMass
    rw [(hF.eq_iff _ _).mpr hab, (hF.eq_iff _ _).mpr (by rw [ho, hF.n_cast]; simp)]
    rfl
  have hc : cdf F d d.a = 1 := by
    unfold cdf
    rw [if_pos hpm, if_neg (lt_irrefl _), hF.n_cast]; simp
  unfold gRep
  rw [hc, hF.n_cast]
  cases m <;> simp [hp0, hp1]

/-- **the point mass returns** (repair fd4085d of finding F5; before it the strict test `err < atol` with
`atol = 1e-6·(hi−lo) = 0` never held and the loop ran out of memory): for `a = b`, `o = 0`, the default
tolerance and any budget of at least 4 rounds the loop stops at round 4 and `average_tuning_curve` is
constantly `a` (`0ⁿ = 0`, `1ⁿ = 1` for the exponents in `ns`; true of `rpow` for `n ≠ 0`) -/
theorem averageTuningCurve_pointMass {F : Fns ℝ} (hF : Lawful F) (d : Params ℝ) (hab : d.a = d.b) (ho : d.o = 0)
    (ns : List ℝ) (mn : Option Bool) (hp0 : ∀ nn ∈ ns, F.pow 0 nn = 0) (hp1 : ∀ nn ∈ ns, F.pow 1 nn = 1) :
    averageTuningCurve F d ns mn none = some (ns.map fun _ => d.a) := by
  have hn : F.n = TrapLoop.cast := funext hF.n_cast
  have hlo : intLo F d = d.a := by unfold intLo; rw [ho]; ring
  have hhi : intHi F d = d.a := by unfold intHi; rw [ho, ← hab]; ring
  have hat : atolOf F d none = 0 := by
    unfold atolOf; rw [hlo, hhi]; simp
  have hz : ∀ nn ∈ ns, ∀ i : ℕ,
      Trap.trap (gRep TrapLoop.cast F.pow (cdf F d) (mn.getD d.convex) nn) d.a d.a i = 0 := by
    intro nn hnn i
    apply trap_zero
    intro k _
    have : d.a + (k:ℝ) * Trap.h d.a d.a i = d.a := by unfold Trap.h; simp
    rw [this, ← hn]
    exact gRep_pointMass hF d hab ho _ nn (hp0 nn hnn) (hp1 nn hnn)
  unfold averageTuningCurve avgRun avgRunCapped
  rw [hat, hlo, hhi, hn]
  obtain ⟨e, he⟩ := runCapped_stationary
    (ns.map fun nn => gRep TrapLoop.cast F.pow (cdf F d) (mn.getD d.convex) nn) d.a d.a 0 le_rfl
    (by
      intro g hg i _ _
      obtain ⟨nn, hnn, rfl⟩ := List.mem_map.mp hg
      rw [hz nn hnn, hz nn hnn]) 30 (by norm_num)
  rw [he]
  simp only [Option.map_some, List.map_map]
  congr 1
  apply List.map_congr_left
  intro nn hnn
  simp only [Function.comp_apply]
  rw [hz nn hnn]; ring

theorem avgRunCapped_neg_atol_none {F : Fns ℝ} (hF : Lawful F) (d : Params ℝ) (ns : List ℝ) (mn : Option Bool)
    (atol : ℝ) (hat : atol < 0) (rounds : ℕ) : avgRunCapped F d ns mn (some atol) rounds = none := by
  unfold avgRunCapped TrapLoop.runCapped
  have hn : F.n = TrapLoop.cast := funext hF.n_cast
  have : atolOf F d (some atol) = atol := rfl
  rw [this, hn]
  exact runFrom_none_of_atol_neg _ _ atol hat rounds _ _ _

end Opda.Noisy
