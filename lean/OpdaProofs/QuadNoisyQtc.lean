import OpdaModel.NoisyFloat
import OpdaModel.QuadNoisy
import OpdaProofs.NoisyLogic
import OpdaProofs.QuadRun
import Mathlib.Tactic

/-! C08 (noisy class): the quantile curve is `ppf` at the level of the best of `n` draws; in the series
regime its accuracy is the bisection's (conditional on monotonicity and a Lipschitz constant of the cdf);
the integrated curve returns trapezoid sums (`avgRun_spec`). -/
set_option linter.unusedSectionVars false
namespace Opda.Noisy
open Opda.TrapLoop

section field
variable {α : Type} [Field α] [LinearOrder α] [IsStrictOrderedRing α] {F : Fns α}

/-- series regime, level strictly inside `(0,1)`: `|F(qtc) − level| ≤ L·(b−a+12o)/2^30 + tail term` for a monotone
`L`-Lipschitz cdf -/
theorem qtc_accuracy (hF : Lawful F) (d : Params α) (hab : d.a ≤ d.b) (ho : 0 ≤ d.o) (nn q : α) (mn : Option Bool)
    (hp : pointMass F d = false) (h : regime F d = .nothing) (L : α)
    (hl0 : 0 < level F (mn.getD d.convex) q nn) (hl1 : level F (mn.getD d.convex) q nn < 1)
    (hmono : ∀ x y, d.a - 6 * d.o ≤ x → x ≤ y → y ≤ d.b + 6 * d.o → cdf F d x ≤ cdf F d y)
    (hlip : ∀ x y, d.a - 6 * d.o ≤ x → x ≤ y → y ≤ d.b + 6 * d.o → cdf F d y - cdf F d x ≤ L * (y - x)) :
    |cdf F d (quantileTuningCurve F d nn q mn) - level F (mn.getD d.convex) q nn|
      ≤ L * ((d.b - d.a + 12 * d.o) / 2 ^ 30)
        + max 0 (max (cdf F d (d.a - 6 * d.o) - level F (mn.getD d.convex) q nn)
            (level F (mn.getD d.convex) q nn - cdf F d (d.b + 6 * d.o))) := by
  unfold quantileTuningCurve
  set lv := level F (mn.getD d.convex) q nn with hlv
  have hc : clip lv 0 1 = lv := clip_of_mem lv 0 1 hl0.le hl1.le
  rw [ppf_nothing hF d hab lv hp h, hc, if_neg hl0.ne', if_neg hl1.ne]
  exact ppfBisect_accuracy hF d hab ho L lv hmono hlip

end field

/-- **what the integration loop returns** (`avgRunCapped`, any round budget; `avgRun` is the budget 30 of the
code): composite trapezoid sums on `2^i` panels of `1[y>0] − F^n` resp. `1[y>0] − (1 − (1−F)^n)` over
`[a−6o, b+6o]`, at a round `i > 3` at which all of them moved by less than `3·atol` — and nothing more. -/
theorem avgRunCapped_spec {F : Fns ℝ} (hF : Lawful F) (d : Params ℝ) (ns : List ℝ) (mn : Option Bool)
    (atol : Option ℝ) (rounds : ℕ) (r : ℕ × List ℝ × List ℝ) (h : avgRunCapped F d ns mn atol rounds = some r) :
    3 < r.1 ∧
      r.2.1 = ns.map (fun nn => Trap.trap (gCur F.n F.pow (cdf F d) (mn.getD d.convex) nn) (intLo F d) (intHi F d) r.1) ∧
      ∀ nn ∈ ns, |Trap.trap (gCur F.n F.pow (cdf F d) (mn.getD d.convex) nn) (intLo F d) (intHi F d) r.1
          - Trap.trap (gCur F.n F.pow (cdf F d) (mn.getD d.convex) nn) (intLo F d) (intHi F d) (r.1 - 1)|
        < 3 * atolOf F d atol := by
  unfold avgRunCapped at h
  have hn : F.n = TrapLoop.cast := funext hF.n_cast
  rw [hn] at h
  obtain ⟨h3, hT, herr⟩ := runCapped_spec _ _ _ _ rounds r h
  refine ⟨h3, ?_, ?_⟩
  · rw [hT, List.map_map, hn]; rfl
  · intro nn hnn
    have := herr (gCur TrapLoop.cast F.pow (cdf F d) (mn.getD d.convex) nn) (List.mem_map.mpr ⟨nn, hnn, rfl⟩)
    rw [hn]; exact this

/-- **F5 as a theorem of the model**: for the point mass `a = b, o = 0` with the default tolerance the loop
never satisfies its stopping rule, whatever the round budget (`atol = 1e-6·(hi − lo) = 0` and `err ≥ 0`) -/
theorem avgRunCapped_pointMass_none {F : Fns ℝ} (hF : Lawful F) (d : Params ℝ) (hab : d.a = d.b) (ho : d.o = 0)
    (ns : List ℝ) (mn : Option Bool) (rounds : ℕ) : avgRunCapped F d ns mn none rounds = none := by
  unfold avgRunCapped TrapLoop.runCapped
  have hn : F.n = TrapLoop.cast := funext hF.n_cast
  have hat : atolOf F d none = 0 := by
    unfold atolOf intHi intLo
    simp [hab, ho]
  rw [hat, hn]
  exact runFrom_none_of_atol_nonpos _ _ 0 le_rfl rounds _ _ _

end Opda.Noisy
