import OpdaProofs.EmpMore
/-!
C03, the remaining clauses about the shape of the step function:
`ppf 0 = a`, `ppf 1` is the least point of `[a, ⊤]` where the cdf reaches 1, the cdf is constant between
consecutive observations (so it is a right-continuous step function), and `pmf` is the jump of the cdf.
-/
set_option linter.unusedSectionVars false
namespace Opda.Emp
variable {E α : Type} [LinearOrder E] [Field α] [LinearOrder α] [IsStrictOrderedRing α]

/-! ## weight strictly below a point -/

/-- total weight of entries with value < y -/
def weightLT (y : E) : List (E × α) → α
  | [] => 0
  | (u, x) :: rest => (if u < y then x else 0) + weightLT y rest

/-- `F(y) = F(y⁻) + (mass at y)` — at the level of weights. -/
theorem weightLE_eq_weightLT_add_weightEq (y : E) (l : List (E × α)) :
    weightLE y l = weightLT y l + weightEq y l := by
  induction l with
  | nil => simp [weightLE, weightLT, weightEq]
  | cons hd tl ih =>
    obtain ⟨u, x⟩ := hd
    simp only [weightLE, weightLT, weightEq, ih]
    rcases lt_trichotomy u y with h | h | h
    · simp only [h, h.le, ne_of_lt h, if_true, if_false]; ring
    · subst h; simp only [le_refl, lt_irrefl, if_true, if_false]; ring
    · simp only [not_le.mpr h, not_lt.mpr h.le, ne_of_gt h, if_false]; ring

theorem weightEq_eq_zero_of_all_gt (y : E) (l : List (E × α)) (h : ∀ p ∈ l, y < p.1) : weightEq y l = 0 := by
  induction l with
  | nil => rfl
  | cons hd tl ih =>
    obtain ⟨u, x⟩ := hd
    have hu : u ≠ y := ne_of_gt (h (u, x) (by simp))
    simp [weightEq, hu, ih (fun p hp => h p (List.mem_cons_of_mem _ hp))]

theorem weightLT_nonneg (y : E) (l : List (E × α)) (h : NonNeg l) : 0 ≤ weightLT y l := by
  induction l with
  | nil => simp [weightLT]
  | cons hd tl ih =>
    obtain ⟨u, x⟩ := hd
    have hx : 0 ≤ x := h (u, x) (by simp)
    have := ih (fun p hp => h p (by simp [hp]))
    simp only [weightLT]
    split_ifs <;> linarith

/-- no observation in `(y, y']` ⇒ the same weight lies `≤ y` and `≤ y'` (no sign condition on the weights). -/
theorem weightLE_eq_of_no_obs_between (l : List (E × α)) (y y' : E) (h : y ≤ y')
    (hno : ∀ p ∈ l, ¬ (y < p.1 ∧ p.1 ≤ y')) : weightLE y l = weightLE y' l := by
  induction l with
  | nil => rfl
  | cons hd tl ih =>
    obtain ⟨u, x⟩ := hd
    have hu := hno (u, x) (by simp)
    have := ih (fun p hp => hno p (List.mem_cons_of_mem _ hp))
    simp only [weightLE, this]
    by_cases h1 : u ≤ y
    · simp [h1, le_trans h1 h]
    · have h2 : ¬ u ≤ y' := fun h2 => hu ⟨not_le.mp h1, h2⟩
      simp [h1, h2]

/-- no observation in `[z, y)` … precisely: none in `(z, y)` and `z < y` ⇒ the weight `≤ z` is the weight `< y`. -/
theorem weightLE_eq_weightLT_of_no_obs_between (l : List (E × α)) (z y : E) (h : z < y)
    (hno : ∀ p ∈ l, ¬ (z < p.1 ∧ p.1 < y)) : weightLE z l = weightLT y l := by
  induction l with
  | nil => rfl
  | cons hd tl ih =>
    obtain ⟨u, x⟩ := hd
    have hu := hno (u, x) (by simp)
    have := ih (fun p hp => hno p (List.mem_cons_of_mem _ hp))
    simp only [weightLE, weightLT, this]
    by_cases h1 : u ≤ z
    · simp [h1, lt_of_le_of_lt h1 h]
    · have h2 : ¬ u < y := fun h2 => hu ⟨not_le.mp h1, h2⟩
      simp [h1, h2]

/-- a finite list leaves a gap to the right of every point that is not the greatest element -/
theorem exists_gap_right [OrderTop E] (l : List (E × α)) (y : E) (hy : y < ⊤) :
    ∃ y', y < y' ∧ ∀ p ∈ l, ¬ (y < p.1 ∧ p.1 < y') := by
  induction l with
  | nil => exact ⟨⊤, hy, by simp⟩
  | cons hd tl ih =>
    obtain ⟨u, x⟩ := hd
    obtain ⟨y'', hy'', hno⟩ := ih
    by_cases hu : y < u
    · refine ⟨min u y'', lt_min hu hy'', ?_⟩
      intro p hp
      rcases List.mem_cons.mp hp with rfl | hp
      · rintro ⟨_, h2⟩; exact absurd (lt_of_lt_of_le h2 (min_le_left _ _)) (lt_irrefl _)
      · rintro ⟨h1, h2⟩; exact hno p hp ⟨h1, lt_of_lt_of_le h2 (min_le_right _ _)⟩
    · refine ⟨y'', hy'', ?_⟩
      intro p hp
      rcases List.mem_cons.mp hp with rfl | hp
      · rintro ⟨h1, _⟩; exact hu h1
      · exact hno p hp

theorem total_nonneg (l : List (E × α)) (h : NonNeg l) : 0 ≤ total l := by
  induction l with
  | nil => simp [total]
  | cons hd tl ih =>
    obtain ⟨u, x⟩ := hd
    have hx : 0 ≤ x := h (u, x) (by simp)
    have := ih (fun p hp => h p (by simp [hp]))
    simp only [total]; linarith

theorem weightEq_nonneg (y : E) (l : List (E × α)) (h : NonNeg l) : 0 ≤ weightEq y l := by
  induction l with
  | nil => simp [weightEq]
  | cons hd tl ih =>
    obtain ⟨u, x⟩ := hd
    have hx : 0 ≤ x := h (u, x) (by simp)
    have := ih (fun p hp => h p (by simp [hp]))
    simp only [weightEq]
    split_ifs <;> linarith

variable [OrderBot E] [OrderTop E]

/-! ## `ppf 0 = a` -/

/-- the head of the padded support is `(⊥, weight of the observations at ⊥)` -/
theorem support_head (a b : E) (obs : List (E × α)) :
    ∃ tl, support ⊥ ⊤ a b obs = ((⊥ : E), weightEq ⊥ obs) :: tl := by
  obtain ⟨x, tl, he⟩ := head_insertAtom_bot (E := E) (0 : α)
    (insertAtom a 0 (insertAtom b 0 (insertAtom ⊤ 0 (atoms obs))))
  have hsupp : support ⊥ ⊤ a b obs = ((⊥ : E), x) :: tl := he
  have hs := sorted_support (α := α) a b obs
  have hw := weightEq_support (α := α) a b ⊥ obs
  rw [hsupp] at hs hw
  have hz : weightEq ⊥ tl = 0 := weightEq_eq_zero_of_all_gt ⊥ tl hs.1
  simp only [weightEq, if_true, hz, add_zero] at hw
  exact ⟨tl, by rw [hsupp, hw]⟩

/-- **`ppf 0 = a`**, sharp form: all that is needed is that the weight sitting exactly at `⊥` (−∞) is not negative
(relative to the total).  Mechanism: the first cumulative level is that weight, `0 ≤` it makes `argmax` return
index 0, the atom `⊥`, and `maximum(·, a)` lifts it to `a`. -/
theorem ppf_zero_of_bot_weight (a b : E) (obs : List (E × α)) (h : 0 ≤ weightEq ⊥ obs / total obs) :
    ppf a (support ⊥ ⊤ a b obs) 0 = a := by
  obtain ⟨tl, he⟩ := support_head (α := α) a b obs
  have htot : total (support ⊥ ⊤ a b obs) = total obs := total_support a b obs
  unfold ppf cumN cum
  rw [htot, he]
  simp only [cumAux, List.map_cons, firstReach, zero_add, h, if_true]
  split_ifs with hlt
  · rfl
  · exact le_antisymm bot_le (not_lt.mp hlt)

/-- **`ppf 0 = a`** for non-negative weights (positivity of the total is not needed). -/
theorem ppf_zero (a b : E) (obs : List (E × α)) (hn : NonNeg obs) :
    ppf a (support ⊥ ⊤ a b obs) 0 = a :=
  ppf_zero_of_bot_weight a b obs (div_nonneg (weightEq_nonneg ⊥ obs hn) (total_nonneg obs hn))

/-- **`ppf 0 = a`** for samples without an observation at `⊥`: no condition on the weights at all. -/
theorem ppf_zero_of_no_bot (a b : E) (obs : List (E × α)) (h : ∀ p ∈ obs, p.1 ≠ ⊥) :
    ppf a (support ⊥ ⊤ a b obs) 0 = a := by
  apply ppf_zero_of_bot_weight
  have : weightEq ⊥ obs = 0 :=
    weightEq_eq_zero_of_all_gt ⊥ obs (fun p hp => lt_of_le_of_ne bot_le (Ne.symm (h p hp)))
  rw [this, zero_div]

/-- `ppf` is non-decreasing on the closed interval `[0, 1]`. -/
theorem ppf_mono_closed (a b : E) (obs : List (E × α)) (hn : NonNeg obs) (htot : 0 < total obs)
    (q q' : α) (hq0 : 0 ≤ q) (hqq : q ≤ q') (hq1 : q' ≤ 1) :
    ppf a (support ⊥ ⊤ a b obs) q ≤ ppf a (support ⊥ ⊤ a b obs) q' := by
  rcases eq_or_lt_of_le hq0 with h | h
  · rw [← h, ppf_zero a b obs hn]; exact le_ppf _ _ _
  · exact ppf_mono a b obs hn htot q q' h hqq hq1

/-! ## `ppf 1` -/

/-- **`ppf 1` is the least point of `[a, ⊤]` at which the cdf equals 1.** -/
theorem ppf_one_least (a b : E) (obs : List (E × α)) (hn : NonNeg obs) (htot : 0 < total obs) :
    cdf (support ⊥ ⊤ a b obs) (ppf a (support ⊥ ⊤ a b obs) 1) = 1
      ∧ ∀ y, a ≤ y → cdf (support ⊥ ⊤ a b obs) y = 1 → ppf a (support ⊥ ⊤ a b obs) 1 ≤ y := by
  constructor
  · apply le_antisymm (cdf_range a b obs hn htot _).2
    exact (ppf_le_iff a b _ obs hn htot 1 zero_lt_one le_rfl (le_ppf _ _ _)).mp le_rfl
  · intro y hay hy
    exact (ppf_le_iff a b y obs hn htot 1 zero_lt_one le_rfl hay).mpr (le_of_eq hy.symm)

/-! ## step function -/

/-- **the cdf is constant between consecutive observations**: if no observation lies in `(y, y']` then
`cdf y = cdf y'`.  Holds for every weight list (no sign condition). -/
theorem cdf_step (a b : E) (obs : List (E × α)) (y y' : E) (h : y ≤ y')
    (hno : ∀ p ∈ obs, ¬ (y < p.1 ∧ p.1 ≤ y')) :
    cdf (support ⊥ ⊤ a b obs) y = cdf (support ⊥ ⊤ a b obs) y' := by
  rw [cdf_support, cdf_support, weightLE_eq_of_no_obs_between obs y y' h hno]

/-- **right-continuity** in any linear order: every `y` other than the greatest element has a right
neighbourhood `[y, y')` on which the cdf is constant. -/
theorem cdf_right_continuous (a b : E) (obs : List (E × α)) (y : E) (hy : y < ⊤) :
    ∃ y', y < y' ∧ ∀ z, y ≤ z → z < y' → cdf (support ⊥ ⊤ a b obs) z = cdf (support ⊥ ⊤ a b obs) y := by
  obtain ⟨y', hy', hno⟩ := exists_gap_right obs y hy
  refine ⟨y', hy', fun z hyz hzy' => (cdf_step a b obs y z hyz ?_).symm⟩
  intro p hp hpz
  exact hno p hp ⟨hpz.1, lt_of_le_of_lt hpz.2 hzy'⟩

/-! ## pmf is the jump of the cdf -/

/-- **pmf(y) = cdf(y) − (weight strictly below y)/total**. -/
theorem pmf_eq_cdf_sub_weightLT (a b y : E) (obs : List (E × α)) :
    pmf (support ⊥ ⊤ a b obs) y = cdf (support ⊥ ⊤ a b obs) y - weightLT y obs / total obs := by
  rw [pmf_support, cdf_support, weightLE_eq_weightLT_add_weightEq]; ring

/-- **pmf(y) = cdf(y) − cdf(z)** for every `z < y` with no observation strictly between `z` and `y`
(`cdf z` is then the left limit of the cdf at `y`). -/
theorem pmf_eq_cdf_sub_cdf_left (a b z y : E) (obs : List (E × α)) (hzy : z < y)
    (hno : ∀ p ∈ obs, ¬ (z < p.1 ∧ p.1 < y)) :
    pmf (support ⊥ ⊤ a b obs) y = cdf (support ⊥ ⊤ a b obs) y - cdf (support ⊥ ⊤ a b obs) z := by
  rw [pmf_eq_cdf_sub_weightLT, cdf_support a b z, weightLE_eq_weightLT_of_no_obs_between obs z y hzy hno]

end Opda.Emp
